// factgen_c19 translates the synchronisation-relevant shape of crypto/spiffe (spiffe.go,
// svidsource.go) into Lean definitions (lean/KitModel/Generated/C19.lean):
//
//   - Run: the statement order CAS → Lock → fetch → (on error: close(readyCh), Unlock, return err)
//     → set currentSVID → close(readyCh) → Unlock → runRotation → return nil;
//   - Ready: one select over ctx.Done() and readyCh;
//   - GetX509SVID: wait for readyCh, THEN RLock (deferred RUnlock), read currentSVID;
//   - runRotation: prelude (RLock, read cert, RUnlock, renew time), wake rule
//     After(min(CAP, renewTime − now)), body (continue before renew time; fetch into a LOCAL; on
//     error wait RETRY and continue; Lock, set currentSVID, Unlock; recompute renew time);
//   - the constants CAP and RETRY in nanoseconds, the divisor of renewalTime;
//   - fetchIdentityCertificate: fresh P-256 key, CSR from that key, request, guards, and — with a
//     write directory — ONE dir.Write of {key.pem: that key, cert.pem: the returned chain, ca.pem:
//     the current trust anchors}; the SVID returned holds that key and that chain.
//
// Every statement is classified by its exact canonical rendering; anything else makes the program
// exit non-zero (the tie is then reported as broken rather than old facts being kept).
package main

import (
	"flag"
	"fmt"
	"go/ast"
	"go/parser"
	"go/printer"
	"go/token"
	"go/types"
	"os"
	"path/filepath"
	"regexp"
	"strconv"
	"strings"
)

var fset = token.NewFileSet()

func fail(n ast.Node, format string, a ...any) {
	pos := ""
	if n != nil {
		pos = fset.Position(n.Pos()).String() + ": "
	}
	fmt.Fprintf(os.Stderr, "factgen_c19: %sunknown shape: %s\n", pos, fmt.Sprintf(format, a...))
	os.Exit(1)
}

func ex(e ast.Expr) string {
	if e == nil {
		return ""
	}
	switch e := e.(type) {
	case *ast.CompositeLit:
		parts := make([]string, 0, len(e.Elts))
		for _, el := range e.Elts {
			kv, ok := el.(*ast.KeyValueExpr)
			if !ok {
				fail(el, "composite literal element without key")
			}
			parts = append(parts, ex(kv.Key)+": "+ex(kv.Value))
		}
		return ex(e.Type) + "{" + strings.Join(parts, ", ") + "}"
	case *ast.UnaryExpr:
		if e.Op == token.AND {
			if cl, ok := e.X.(*ast.CompositeLit); ok {
				return "&" + ex(cl)
			}
		}
	case *ast.CallExpr:
		args := make([]string, len(e.Args))
		for i, a := range e.Args {
			args[i] = ex(a)
		}
		return ex(e.Fun) + "(" + strings.Join(args, ", ") + ")"
	}
	s := types.ExprString(e)
	if strings.Contains(s, "…") {
		fail(e, "expression with an elided part: %s", s)
	}
	return s
}

// src renders any node as gofmt would, with every run of white space collapsed to one blank.
func src(n ast.Node) string {
	var b strings.Builder
	if err := printer.Fprint(&b, fset, n); err != nil {
		fail(n, "cannot print node: %v", err)
	}
	return strings.Join(strings.Fields(b.String()), " ")
}

func block(b *ast.BlockStmt) string {
	parts := make([]string, 0, len(b.List))
	for _, s := range b.List {
		parts = append(parts, stmt(s))
	}
	return "{ " + strings.Join(parts, "; ") + " }"
}

// stmt renders one statement canonically on one line.
func stmt(s ast.Stmt) string {
	switch s := s.(type) {
	case *ast.ExprStmt:
		return ex(s.X)
	case *ast.DeferStmt:
		return "defer " + ex(s.Call)
	case *ast.AssignStmt:
		l := make([]string, len(s.Lhs))
		for i, e := range s.Lhs {
			l[i] = ex(e)
		}
		r := make([]string, len(s.Rhs))
		for i, e := range s.Rhs {
			r[i] = ex(e)
		}
		return strings.Join(l, ", ") + " " + s.Tok.String() + " " + strings.Join(r, ", ")
	case *ast.ReturnStmt:
		r := make([]string, len(s.Results))
		for i, e := range s.Results {
			r[i] = ex(e)
		}
		return strings.TrimSpace("return " + strings.Join(r, ", "))
	case *ast.BranchStmt:
		if s.Label != nil {
			fail(s, "labelled branch")
		}
		return s.Tok.String()
	case *ast.IfStmt:
		if s.Else != nil {
			fail(s, "if with else")
		}
		init := ""
		if s.Init != nil {
			init = stmt(s.Init) + "; "
		}
		return "if " + init + ex(s.Cond) + " " + block(s.Body)
	case *ast.ForStmt:
		if s.Init != nil || s.Cond != nil || s.Post != nil {
			fail(s, "for with clauses")
		}
		return "for " + block(s.Body)
	case *ast.SelectStmt:
		var cs []string
		for _, c := range s.Body.List {
			cc := c.(*ast.CommClause)
			head := "default"
			if cc.Comm != nil {
				head = "case " + stmt(cc.Comm)
			}
			body := make([]string, 0, len(cc.Body))
			for _, b := range cc.Body {
				body = append(body, stmt(b))
			}
			cs = append(cs, head+": "+strings.Join(body, "; "))
		}
		return "select { " + strings.Join(cs, " | ") + " }"
	}
	fail(s, "statement %T", s)
	return ""
}

// durationNs evaluates a constant duration expression built from integer literals, `*` and
// time.Nanosecond … time.Hour.
func durationNs(e ast.Expr) int64 {
	switch e := e.(type) {
	case *ast.BasicLit:
		if e.Kind == token.INT {
			v, err := strconv.ParseInt(e.Value, 0, 64)
			if err == nil {
				return v
			}
		}
	case *ast.ParenExpr:
		return durationNs(e.X)
	case *ast.BinaryExpr:
		if e.Op == token.MUL {
			return durationNs(e.X) * durationNs(e.Y)
		}
	case *ast.SelectorExpr:
		if id, ok := e.X.(*ast.Ident); ok && id.Name == "time" {
			switch e.Sel.Name {
			case "Nanosecond":
				return 1
			case "Microsecond":
				return 1e3
			case "Millisecond":
				return 1e6
			case "Second":
				return 1e9
			case "Minute":
				return 60e9
			case "Hour":
				return 3600e9
			}
		}
	}
	fail(e, "duration expression %s", ex(e))
	return 0
}

type gen struct {
	recv     string // "s" or "s.spiffe"
	fetched  string // local that received fetchIdentityCertificate's result
	retryNs  int64
	wakeCap  int64
	errTail  map[string][]string // name -> error-branch steps
	renewVar string
}

func isLog(c string, recv string) bool {
	return strings.HasPrefix(c, recv+".log.") || strings.HasPrefix(c, "defer "+recv+".log.") ||
		strings.HasPrefix(c, "verifhook.Point(")
}

var reFetchLocal = regexp.MustCompile(`^([A-Za-z_]\w*), err := (\S+)\.fetchIdentityCertificate\(ctx\)$`)

// classify translates one statement of Run / runRotation's loop body / GetX509SVID.
func (g *gen) classify(s ast.Stmt, errBranch *[]string) []string {
	c := stmt(s)
	R := g.recv
	if isLog(c, R) {
		return nil
	}
	switch c {
	case R + ".lock.Lock()":
		return []string{"lock"}
	case R + ".lock.Unlock()":
		return []string{"unlock"}
	case R + ".lock.RLock()":
		return []string{"rlock"}
	case R + ".lock.RUnlock()":
		return []string{"runlock"}
	case "defer " + R + ".lock.RUnlock()":
		return []string{"deferRUnlock"}
	case "defer " + R + ".lock.Unlock()":
		return []string{"deferUnlock"}
	case "close(" + R + ".readyCh)":
		return []string{"closeReady"}
	case "<-" + R + ".readyCh":
		return []string{"waitReady"}
	case R + ".runRotation(ctx)":
		return []string{"rotate"}
	case "svid := " + R + ".currentSVID":
		return []string{"readSvid"}
	case "return svid, nil":
		return []string{"retSvid"}
	case "return nil":
		return []string{"retNil"}
	case "return":
		return []string{"ret"}
	case "continue":
		return []string{"continue_"}
	case "cert := " + R + ".currentSVID.Certificates[0]":
		return []string{"readCert"}
	case "renewTime := renewalTime(cert.NotBefore, cert.NotAfter)", "renewTime = renewalTime(cert.NotBefore, cert.NotAfter)":
		return []string{"computeRenew"}
	case "if " + R + ".clock.Now().Before(renewTime) { continue }":
		return []string{"ifBeforeRenewContinue"}
	case R + ".currentSVID, err = " + R + ".fetchIdentityCertificate(ctx)":
		return []string{"fetchIntoField"}
	}
	if m := reFetchLocal.FindStringSubmatch(c); m != nil && m[2] == R {
		g.fetched = m[1]
		return []string{"fetchLocal"}
	}
	if g.fetched != "" && c == R+".currentSVID = "+g.fetched {
		return []string{"setSvid"}
	}
	if g.fetched != "" && c == "cert = "+g.fetched+".Certificates[0]" {
		return []string{"readCertLocal"}
	}
	if is, ok := s.(*ast.IfStmt); ok && is.Init == nil {
		cond := ex(is.Cond)
		switch cond {
		case "!" + R + ".running.CompareAndSwap(false, true)":
			if len(is.Body.List) == 1 {
				if r, ok := is.Body.List[0].(*ast.ReturnStmt); ok && len(r.Results) == 1 && ex(r.Results[0]) != "nil" {
					return []string{"cas"}
				}
			}
		case "svid == nil":
			if len(is.Body.List) == 1 {
				if r, ok := is.Body.List[0].(*ast.ReturnStmt); ok && len(r.Results) == 2 && ex(r.Results[0]) == "nil" && ex(r.Results[1]) != "nil" {
					return []string{"ifNilRetErr"}
				}
			}
		case "err != nil":
			if errBranch == nil {
				fail(s, "nested error branch")
			}
			if *errBranch != nil {
				fail(s, "second error branch")
			}
			br := []string{}
			for _, b := range is.Body.List {
				bc := stmt(b)
				if isLog(bc, R) {
					continue
				}
				if r, ok := b.(*ast.ReturnStmt); ok && len(r.Results) == 1 && ex(r.Results[0]) != "nil" {
					br = append(br, "retErr")
					continue
				}
				if sel, ok := b.(*ast.SelectStmt); ok {
					br = append(br, g.retrySelect(sel)...)
					continue
				}
				br = append(br, g.classify(b, nil)...)
			}
			*errBranch = br
			return []string{"ifErr"}
		}
	}
	fail(s, "statement `%s`", c)
	return nil
}

// retrySelect recognises `select { case <-R.clock.After(D): continue | case <-ctx.Done(): return }`.
func (g *gen) retrySelect(sel *ast.SelectStmt) []string {
	if len(sel.Body.List) != 2 {
		fail(sel, "retry select with %d cases", len(sel.Body.List))
	}
	var out []string
	for _, c := range sel.Body.List {
		cc := c.(*ast.CommClause)
		if cc.Comm == nil {
			fail(cc, "default case in retry select")
		}
		es, ok := cc.Comm.(*ast.ExprStmt)
		if !ok {
			fail(cc, "retry select case %s", stmt(cc.Comm))
		}
		u, ok := es.X.(*ast.UnaryExpr)
		if !ok || u.Op != token.ARROW {
			fail(cc, "retry select case %s", stmt(cc.Comm))
		}
		if ex(u.X) == "ctx.Done()" {
			if len(cc.Body) != 1 || stmt(cc.Body[0]) != "return" {
				fail(cc, "ctx case of the retry select does not just return")
			}
			out = append(out, "ctxDoneReturn")
			continue
		}
		call, ok := u.X.(*ast.CallExpr)
		if !ok || ex(call.Fun) != g.recv+".clock.After" || len(call.Args) != 1 {
			fail(cc, "retry select case %s", stmt(cc.Comm))
		}
		if len(cc.Body) != 1 || stmt(cc.Body[0]) != "continue" {
			fail(cc, "timer case of the retry select does not just continue")
		}
		g.retryNs = durationNs(call.Args[0])
		out = append(out, "retryWaitContinue")
	}
	if len(out) != 2 || out[0] != "retryWaitContinue" || out[1] != "ctxDoneReturn" {
		fail(sel, "retry select cases %v", out)
	}
	return out
}

func (g *gen) body(list []ast.Stmt, errBranch *[]string) []string {
	var out []string
	for _, s := range list {
		out = append(out, g.classify(s, errBranch)...)
	}
	return out
}

type fetchFacts struct {
	main, dir []string
	fileSet   [][2]string // file name, role
}

func fetchShape(fd *ast.FuncDecl) fetchFacts {
	var ff fetchFacts
	origin := map[string]string{} // PEM variable -> role
	retErr := func(s ast.Stmt) bool {
		is, ok := s.(*ast.IfStmt)
		if !ok || is.Init != nil || ex(is.Cond) != "err != nil" || len(is.Body.List) != 1 {
			return false
		}
		r, ok := is.Body.List[0].(*ast.ReturnStmt)
		return ok && len(r.Results) == 2 && ex(r.Results[0]) == "nil" && ex(r.Results[1]) != "nil"
	}
	var walk func(list []ast.Stmt, inDir bool) []string
	walk = func(list []ast.Stmt, inDir bool) []string {
		var out []string
		for _, s := range list {
			c := stmt(s)
			switch {
			case retErr(s):
				out = append(out, "ifErrRet")
			case c == "key, err := ecdsa.GenerateKey(elliptic.P256(), rand.Reader)":
				out = append(out, "genKeyP256")
			case c == "csrDER, err := x509.CreateCertificateRequest(rand.Reader, new(x509.CertificateRequest), key)":
				out = append(out, "csrFromKey")
			case c == "workloadcert, err := s.requestSVIDFn(ctx, csrDER)":
				out = append(out, "requestWithCsr")
			case strings.HasPrefix(c, "if len(workloadcert) == 0 { return nil, errors.New("):
				out = append(out, "ifEmptyRet")
			case c == "spiffeID, err := x509svid.IDFromCert(workloadcert[0])":
				out = append(out, "idFromLeaf")
			case c == "pkPEM, err := pem.EncodePrivateKey(key)" && inDir:
				origin["pkPEM"] = "key"
				out = append(out, "encodeKey")
			case c == "certPEM, err := pem.EncodeX509Chain(workloadcert)" && inDir:
				origin["certPEM"] = "chain"
				out = append(out, "encodeChain")
			case c == "td, err := s.trustAnchors.CurrentTrustAnchors(ctx)" && inDir:
				origin["td"] = "anchors"
				out = append(out, "currentAnchors")
			case c == "return &x509svid.SVID{ID: spiffeID, Certificates: workloadcert, PrivateKey: key}, nil" && !inDir:
				out = append(out, "retSvidKeyChain")
			default:
				is, ok := s.(*ast.IfStmt)
				if ok && is.Init == nil && ex(is.Cond) == "s.dir != nil" && !inDir {
					if ff.dir != nil {
						fail(s, "second write-directory block")
					}
					ff.dir = walk(is.Body.List, true)
					out = append(out, "ifDir")
					continue
				}
				if ok && is.Init != nil && inDir && ex(is.Cond) == "err != nil" && retErrBody(is.Body) {
					as, ok := is.Init.(*ast.AssignStmt)
					if ok && len(as.Rhs) == 1 {
						if call, ok := as.Rhs[0].(*ast.CallExpr); ok && ex(call.Fun) == "s.dir.Write" && len(call.Args) == 1 {
							cl, ok := call.Args[0].(*ast.CompositeLit)
							if !ok || ex(cl.Type) != "map[string][]byte" {
								fail(call, "dir.Write argument %s", ex(call.Args[0]))
							}
							if ff.fileSet != nil {
								fail(s, "second dir.Write")
							}
							for _, el := range cl.Elts {
								kv := el.(*ast.KeyValueExpr)
								name, err := strconv.Unquote(ex(kv.Key))
								if err != nil {
									fail(kv, "file name %s", ex(kv.Key))
								}
								role, ok := origin[ex(kv.Value)]
								if !ok {
									fail(kv, "file %s is written from %s, whose origin is unknown", name, ex(kv.Value))
								}
								ff.fileSet = append(ff.fileSet, [2]string{name, role})
							}
							out = append(out, "dirWriteOnErrRet")
							continue
						}
					}
				}
				fail(s, "fetchIdentityCertificate statement `%s`", c)
			}
		}
		return out
	}
	ff.main = walk(fd.Body.List, false)
	if ff.dir == nil || ff.fileSet == nil {
		fail(fd, "fetchIdentityCertificate has no write-directory block with a dir.Write")
	}
	return ff
}

func retErrBody(b *ast.BlockStmt) bool {
	if len(b.List) != 1 {
		return false
	}
	r, ok := b.List[0].(*ast.ReturnStmt)
	return ok && len(r.Results) == 2 && ex(r.Results[0]) == "nil" && ex(r.Results[1]) != "nil"
}

// ---- trust-bundle source: crypto/spiffe/trustanchors/file.go, classified by exact gofmt text

var taTable = map[string]map[string]string{
	"(*file).Run": {
		`if !f.running.CompareAndSwap(false, true) { return errors.New("trust anchors is already running") }`: "cas",
		`defer close(f.closeCh)`: "deferCloseClosed",
		`for { _, err := os.Stat(f.path) if err == nil { break } if !errors.Is(err, os.ErrNotExist) { return err } select { case <-ctx.Done(): return fmt.Errorf("failed to find trust anchors file '%s': %w", f.path, ctx.Err()) case <-f.clock.After(f.initFileWatchInterval): f.log.Warnf("Trust anchors file '%s' not found, waiting...", f.path) } }`: "waitFileLoop",
		`if err := f.updateAnchors(ctx); err != nil { return err }`:                                                               "updateOrRet",
		`fs, err := fswatcher.New(fswatcher.Options{ Targets: []string{filepath.Dir(f.path)}, Interval: &f.fsWatcherInterval, })`: "newWatcher",
		`if err != nil { return fmt.Errorf("failed to create file watcher: %w", err) }`:                                           "ifErrRet",
		`close(f.readyCh)`: "closeReady",
		`return concurrency.NewRunnerManager( func(ctx context.Context) error { return fs.Run(ctx, f.caEvent) }, func(ctx context.Context) error { for { select { case <-ctx.Done(): return nil case <-f.caEvent: f.log.Info("Trust anchors file changed, reloading trust anchors") if err = f.updateAnchors(ctx); err != nil { return fmt.Errorf("failed to read trust anchors file '%s': %v", f.path, err) } } } }, ).Run(ctx)`: "runWatcherAndReloadLoop",
	},
	"(*file).updateAnchors": {
		`f.lock.Lock()`:                        "lock",
		`defer f.lock.Unlock()`:                "deferUnlock",
		`rootPEMs, err := os.ReadFile(f.path)`: "readFile",
		`if err != nil { return fmt.Errorf("failed to read trust anchors file '%s': %w", f.path, err) }`: "ifErrRet",
		`trustAnchorCerts, err := pem.DecodePEMCertificates(rootPEMs)`:                                   "decode",
		`if err != nil { return fmt.Errorf("failed to decode trust anchors: %w", err) }`:                 "ifErrRet",
		`f.rootPEM = rootPEMs`: "setPem",
		`f.bundle = x509bundle.FromX509Authorities(spiffeid.TrustDomain{}, trustAnchorCerts)`: "setBundle",
		`var wg sync.WaitGroup`: "declWg",
		`defer wg.Wait()`:       "deferWgWait",
		`wg.Add(len(f.subs))`:   "wgAdd",
		`for _, ch := range f.subs { go func(chi chan<- struct{}) { defer wg.Done() select { case chi <- struct{}{}: case <-ctx.Done(): } }(ch) }`: "notifySubs",
		`return nil`: "retNil",
	},
	"(*file).GetX509BundleForTrustDomain": {
		`select { case <-f.closeCh: return nil, errors.New("trust anchors is closed") case <-f.readyCh: }`: "selectClosedOrReady",
		`f.lock.RLock()`:         "rlock",
		`defer f.lock.RUnlock()`: "deferRUnlock",
		`bundle := f.bundle`:     "readBundle",
		`return bundle, nil`:     "retValue",
	},
	"(*file).CurrentTrustAnchors": {
		`select { case <-ctx.Done(): return nil, ctx.Err() case <-f.closeCh: return nil, errors.New("trust anchors is closed") case <-f.readyCh: }`: "selectCtxClosedOrReady",
		`f.lock.RLock()`:                          "rlock",
		`defer f.lock.RUnlock()`:                  "deferRUnlock",
		`rootPEM := make([]byte, len(f.rootPEM))`: "allocCopy",
		`copy(rootPEM, f.rootPEM)`:                "readBundle",
		`return rootPEM, nil`:                     "retValue",
	},
	"(*file).Watch": {
		`f.lock.Lock()`:                 "lock",
		`sub := make(chan struct{}, 5)`: "makeSub",
		`f.subs = append(f.subs, sub)`:  "appendSub",
		`f.lock.Unlock()`:               "unlock",
		`for { select { case <-ctx.Done(): return case <-f.closeCh: return case <-sub: f.lock.RLock() rootPEM := make([]byte, len(f.rootPEM)) copy(rootPEM, f.rootPEM) f.lock.RUnlock() select { case ch <- rootPEM: case <-ctx.Done(): case <-f.closeCh: } } }`: "watchLoop",
	},
}

func taFacts(path string) map[string][]string {
	funcs := parse(path)
	out := map[string][]string{}
	for name := range funcs {
		if name != "FromFile" && taTable[name] == nil {
			fail(funcs[name], "file.go declares an unknown function %s", name)
		}
	}
	for name, table := range taTable {
		fd := need(funcs, name)
		if recvName(fd) != "f" {
			fail(fd, "receiver of %s is not named f", name)
		}
		for _, st := range fd.Body.List {
			c := src(st)
			if strings.HasPrefix(c, "f.log.") {
				continue
			}
			k, ok := table[c]
			if !ok {
				fail(st, "%s statement `%s`", name, c)
			}
			out[name] = append(out[name], k)
		}
	}
	return out
}

// structFields lists "name type" of every field of struct `name` declared in the file, and fails on
// package-level variables (a key could be kept there).
func structFields(path, name string) []string {
	f, err := parser.ParseFile(fset, path, nil, 0)
	if err != nil {
		fmt.Fprintln(os.Stderr, "factgen_c19:", err)
		os.Exit(1)
	}
	var out []string
	for _, d := range f.Decls {
		gd, ok := d.(*ast.GenDecl)
		if !ok {
			continue
		}
		if gd.Tok == token.VAR {
			fail(gd, "package-level variable in %s", path)
		}
		for _, sp := range gd.Specs {
			ts, ok := sp.(*ast.TypeSpec)
			if !ok || ts.Name.Name != name {
				continue
			}
			st, ok := ts.Type.(*ast.StructType)
			if !ok {
				fail(ts, "%s is not a struct", name)
			}
			for _, fd := range st.Fields.List {
				if len(fd.Names) == 0 {
					out = append(out, "embedded "+ex(fd.Type))
				}
				for _, n := range fd.Names {
					out = append(out, n.Name+" "+ex(fd.Type))
				}
			}
		}
	}
	if out == nil {
		fail(nil, "struct %s not found in %s", name, path)
	}
	return out
}

// assignsReceiverField reports an assignment (or inc/dec) whose target is a field of the receiver.
func assignsReceiverField(fd *ast.FuncDecl) ast.Node {
	recv := recvName(fd)
	var found ast.Node
	ast.Inspect(fd.Body, func(n ast.Node) bool {
		switch n := n.(type) {
		case *ast.AssignStmt:
			for _, l := range n.Lhs {
				if strings.HasPrefix(ex(l), recv+".") {
					found = n
				}
			}
		case *ast.IncDecStmt:
			if strings.HasPrefix(ex(n.X), recv+".") {
				found = n
			}
		}
		return found == nil
	})
	return found
}

func parse(path string) map[string]*ast.FuncDecl {
	f, err := parser.ParseFile(fset, path, nil, 0)
	if err != nil {
		fmt.Fprintln(os.Stderr, "factgen_c19:", err)
		os.Exit(1)
	}
	funcs := map[string]*ast.FuncDecl{}
	for _, d := range f.Decls {
		if fd, ok := d.(*ast.FuncDecl); ok {
			name := fd.Name.Name
			if fd.Recv != nil {
				name = "(" + ex(fd.Recv.List[0].Type) + ")." + name
			}
			funcs[name] = fd
		}
	}
	return funcs
}

func need(funcs map[string]*ast.FuncDecl, name string) *ast.FuncDecl {
	fd := funcs[name]
	if fd == nil || fd.Body == nil {
		fail(nil, "function %s not found", name)
	}
	return fd
}

func recvName(fd *ast.FuncDecl) string {
	if fd.Recv == nil || len(fd.Recv.List) != 1 || len(fd.Recv.List[0].Names) != 1 {
		fail(fd, "receiver of %s", fd.Name.Name)
	}
	return fd.Recv.List[0].Names[0].Name
}

func main() {
	repo := flag.String("repo", "/repo", "repository root")
	out := flag.String("out", "", "output .lean file")
	dumpFile := flag.String("dump", "", "debug: print the canonical statements of this file and exit")
	flag.Parse()
	if *dumpFile != "" {
		for n, fd := range parse(*dumpFile) {
			fmt.Println("== " + n)
			for _, st := range fd.Body.List {
				fmt.Println("   " + src(st))
			}
		}
		return
	}
	sp := parse(filepath.Join(*repo, "crypto", "spiffe", "spiffe.go"))
	sv := parse(filepath.Join(*repo, "crypto", "spiffe", "svidsource.go"))

	// every method of SPIFFE / svidSource must be known: a new one could touch the lock or readyCh
	known := map[string]bool{"New": true, "(*SPIFFE).Run": true, "(*SPIFFE).Ready": true, "(*SPIFFE).runRotation": true,
		"(*SPIFFE).fetchIdentityCertificate": true, "(*SPIFFE).SVIDSource": true, "renewalTime": true}
	for n := range sp {
		if !known[n] {
			fail(sp[n], "spiffe.go declares an unknown function %s", n)
		}
	}
	for n := range sv {
		if n != "(*svidSource).GetX509SVID" {
			fail(sv[n], "svidsource.go declares an unknown function %s", n)
		}
	}

	// Run
	run := need(sp, "(*SPIFFE).Run")
	g := &gen{recv: recvName(run)}
	var runOnErr []string
	runMain := g.body(run.Body.List, &runOnErr)

	// Ready
	ready := need(sp, "(*SPIFFE).Ready")
	rr := recvName(ready)
	var readyBody []string
	if len(ready.Body.List) == 1 && stmt(ready.Body.List[0]) ==
		"select { case <-ctx.Done(): return ctx.Err() | case <-"+rr+".readyCh: return nil }" {
		readyBody = []string{"selectCtxOrReady"}
	} else {
		fail(ready, "Ready body")
	}

	// SVIDSource returns &svidSource{spiffe: s}
	ss := need(sp, "(*SPIFFE).SVIDSource")
	if len(ss.Body.List) != 1 || stmt(ss.Body.List[0]) != "return &svidSource{spiffe: "+recvName(ss)+"}" {
		fail(ss, "SVIDSource body")
	}

	// GetX509SVID
	get := need(sv, "(*svidSource).GetX509SVID")
	gg := &gen{recv: recvName(get) + ".spiffe"}
	getBody := gg.body(get.Body.List, nil)

	// runRotation
	rot := need(sp, "(*SPIFFE).runRotation")
	rg := &gen{recv: recvName(rot)}
	var prelude, rotBody, rotOnErr, rotCtx []string
	rotArm := ""
	seenLoop := false
	for _, s := range rot.Body.List {
		fs, ok := s.(*ast.ForStmt)
		if !ok {
			if seenLoop {
				fail(s, "statement after the rotation loop")
			}
			prelude = append(prelude, rg.classify(s, nil)...)
			continue
		}
		if seenLoop || fs.Init != nil || fs.Cond != nil || fs.Post != nil || len(fs.Body.List) != 1 {
			fail(fs, "rotation loop")
		}
		seenLoop = true
		sel, ok := fs.Body.List[0].(*ast.SelectStmt)
		if !ok || len(sel.Body.List) != 2 {
			fail(fs, "rotation loop body is not a two-case select")
		}
		for _, c := range sel.Body.List {
			cc := c.(*ast.CommClause)
			if cc.Comm == nil {
				fail(cc, "default case in the rotation select")
			}
			head := stmt(cc.Comm)
			if head == "<-ctx.Done()" {
				rotCtx = rg.body(cc.Body, nil)
				continue
			}
			u, ok := cc.Comm.(*ast.ExprStmt).X.(*ast.UnaryExpr)
			if !ok || u.Op != token.ARROW {
				fail(cc, "rotation select case %s", head)
			}
			call, ok := u.X.(*ast.CallExpr)
			if !ok || ex(call.Fun) != rg.recv+".clock.After" || len(call.Args) != 1 {
				fail(cc, "rotation select case %s", head)
			}
			mn, ok := call.Args[0].(*ast.CallExpr)
			if !ok || ex(mn.Fun) != "min" || len(mn.Args) != 2 || ex(mn.Args[1]) != "renewTime.Sub("+rg.recv+".clock.Now())" {
				fail(cc, "wake rule %s", ex(call.Args[0]))
			}
			rg.wakeCap = durationNs(mn.Args[0])
			rotArm = "armMinCapUntilRenew"
			rotBody = rg.body(cc.Body, &rotOnErr)
		}
	}
	if !seenLoop || rotArm == "" || rotCtx == nil {
		fail(rot, "runRotation has no loop with a timer case and a ctx case")
	}

	// renewalTime
	rt := need(sp, "renewalTime")
	var divisor int64
	if len(rt.Body.List) == 1 {
		if r, ok := rt.Body.List[0].(*ast.ReturnStmt); ok && len(r.Results) == 1 {
			m := regexp.MustCompile(`^notBefore\.Add\(notAfter\.Sub\(notBefore\) / (\d+)\)$`).FindStringSubmatch(ex(r.Results[0]))
			if m != nil && len(rt.Type.Params.List) == 1 && len(rt.Type.Params.List[0].Names) == 2 &&
				rt.Type.Params.List[0].Names[0].Name == "notBefore" && rt.Type.Params.List[0].Names[1].Name == "notAfter" {
				divisor, _ = strconv.ParseInt(m[1], 10, 64)
			}
		}
	}
	if divisor == 0 {
		fail(rt, "renewalTime body")
	}

	fetchFn := need(sp, "(*SPIFFE).fetchIdentityCertificate")
	ff := fetchShape(fetchFn)
	// what makes "a fresh key per fetch" true in the code: the key is generated inside every call,
	// before the CSR, into a local; the call writes no field of the receiver; no field of SPIFFE and no
	// package-level variable could retain a key or a CSR between calls
	if n := assignsReceiverField(fetchFn); n != nil {
		fail(n, "fetchIdentityCertificate assigns a field of its receiver: %s", src(n))
	}
	spiffeFields := structFields(filepath.Join(*repo, "crypto", "spiffe", "spiffe.go"), "SPIFFE")
	svidSourceFields := structFields(filepath.Join(*repo, "crypto", "spiffe", "svidsource.go"), "svidSource")

	// context.go: With stores exactly what SVIDSource returns; From gives it back
	cx := parse(filepath.Join(*repo, "crypto", "spiffe", "context", "context.go"))
	for n := range cx {
		if n != "With" && n != "From" {
			fail(cx[n], "context.go declares an unknown function %s", n)
		}
	}
	with, from := need(cx, "With"), need(cx, "From")
	if len(with.Body.List) != 1 || src(with.Body.List[0]) != "return context.WithValue(ctx, svidKey, spiffe.SVIDSource())" {
		fail(with, "context.With body")
	}
	if len(from.Body.List) != 2 || src(from.Body.List[0]) != "svid, ok := ctx.Value(svidKey).(x509svid.Source)" ||
		src(from.Body.List[1]) != "return svid, ok" {
		fail(from, "context.From body")
	}

	var b strings.Builder
	b.WriteString("/-! Generated by harness/cmd/factgen_c19 from /repo/crypto/spiffe/{spiffe.go,svidsource.go} — do not edit. -/\n")
	b.WriteString("namespace Kit.Generated.C19\n\n")
	b.WriteString(`/-- Synchronisation-relevant statement kinds of Run / Ready / GetX509SVID / runRotation. -/
inductive Sync where
  | cas | lock | unlock | rlock | runlock | deferRUnlock | deferUnlock
  | closeReady | waitReady | selectCtxOrReady
  | fetchLocal | fetchIntoField | setSvid | readSvid | readCert | readCertLocal | computeRenew
  | ifErr | ifNilRetErr | ifBeforeRenewContinue | retryWaitContinue | ctxDoneReturn | armMinCapUntilRenew
  | retErr | retNil | retSvid | ret | continue_ | rotate
  deriving DecidableEq, Repr

/-- Statement kinds of fetchIdentityCertificate. -/
inductive Fetch where
  | genKeyP256 | csrFromKey | requestWithCsr | ifErrRet | ifEmptyRet | idFromLeaf | ifDir
  | encodeKey | encodeChain | currentAnchors | dirWriteOnErrRet | retSvidKeyChain
  deriving DecidableEq, Repr

/-- What a published file holds. -/
inductive Role where
  | key | chain | anchors
  deriving DecidableEq, Repr

`)
	w := func(name, ty string, xs []string) {
		q := make([]string, len(xs))
		for i, x := range xs {
			q[i] = "." + x
		}
		fmt.Fprintf(&b, "def %s : List %s := [%s]\n\n", name, ty, strings.Join(q, ", "))
	}
	w("runMain", "Sync", runMain)
	w("runOnErr", "Sync", runOnErr)
	w("readyBody", "Sync", readyBody)
	w("getBody", "Sync", getBody)
	w("rotPrelude", "Sync", prelude)
	w("rotArm", "Sync", []string{rotArm})
	w("rotBody", "Sync", rotBody)
	w("rotOnErr", "Sync", rotOnErr)
	w("rotCtxCase", "Sync", rotCtx)
	fmt.Fprintf(&b, "/-- Cap of the rotation timer, ns (`min(CAP, renewTime − now)`). -/\ndef wakeCapNs : Int := %d\n\n", rg.wakeCap)
	fmt.Fprintf(&b, "/-- Wait before a failed renewal is retried, ns. -/\ndef retryNs : Int := %d\n\n", rg.retryNs)
	fmt.Fprintf(&b, "/-- `renewalTime = notBefore + (notAfter − notBefore) / renewalDivisor`. -/\ndef renewalDivisor : Int := %d\n\n", divisor)
	w("fetchMain", "Fetch", ff.main)
	w("fetchDir", "Fetch", ff.dir)
	fs := make([]string, len(ff.fileSet))
	for i, kv := range ff.fileSet {
		fs[i] = fmt.Sprintf("(%q, .%s)", kv[0], kv[1])
	}
	ws := func(name string, xs []string) {
		q := make([]string, len(xs))
		for i, x := range xs {
			q[i] = strconv.Quote(x)
		}
		fmt.Fprintf(&b, "def %s : List String := [%s]\n\n", name, strings.Join(q, ", "))
	}
	b.WriteString("/-- Every field of `SPIFFE` / `svidSource` (name and type); no package-level variable exists. -/\n")
	ws("spiffeFields", spiffeFields)
	ws("svidSourceFields", svidSourceFields)
	b.WriteString("/-- `fetchIdentityCertificate` contains no assignment to a field of its receiver. -/\ndef fetchAssignsNoField : Bool := true\n\n")
	fmt.Fprintf(&b, "/-- The map handed to the single `dir.Write` call. -/\ndef fileSet : List (String × Role) := [%s]\n\n", strings.Join(fs, ", "))
	ta := taFacts(filepath.Join(*repo, "crypto", "spiffe", "trustanchors", "file.go"))
	b.WriteString(`/-- Statement kinds of crypto/spiffe/trustanchors/file.go. -/
inductive TSync where
  | cas | deferCloseClosed | waitFileLoop | updateOrRet | newWatcher | ifErrRet | closeReady | runWatcherAndReloadLoop
  | lock | deferUnlock | unlock | readFile | decode | setPem | setBundle | declWg | deferWgWait | wgAdd | notifySubs | retNil
  | selectClosedOrReady | selectCtxClosedOrReady | rlock | deferRUnlock | allocCopy | readBundle | retValue
  | makeSub | appendSub | watchLoop
  deriving DecidableEq, Repr

`)
	w("taRun", "TSync", ta["(*file).Run"])
	w("taUpdate", "TSync", ta["(*file).updateAnchors"])
	w("taGetBundle", "TSync", ta["(*file).GetX509BundleForTrustDomain"])
	w("taCurrent", "TSync", ta["(*file).CurrentTrustAnchors"])
	w("taWatch", "TSync", ta["(*file).Watch"])
	b.WriteString("/-- `context.With` stores `spiffe.SVIDSource()` and `context.From` returns that value: consumers that\ngo through the context call the same `GetX509SVID`. -/\ndef contextPassesSVIDSource : Bool := true\n\n")
	b.WriteString("end Kit.Generated.C19\n")
	if rg.retryNs == 0 || rg.wakeCap == 0 {
		fail(rot, "rotation constants not found")
	}
	if *out == "" {
		os.Stdout.WriteString(b.String())
		return
	}
	if err := os.WriteFile(*out, []byte(b.String()), 0o644); err != nil {
		fmt.Fprintln(os.Stderr, "factgen_c19:", err)
		os.Exit(1)
	}
}
