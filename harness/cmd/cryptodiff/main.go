// Command cryptodiff is the correspondence check for the executable crypto specifications in
// lean/KitModel/Crypto (namespace Kit.Crypto).  It generates request lines of the
// `kitdrv crypto` protocol (see lean/KitModel/Crypto/Dispatch.lean), evaluates every line twice —
// with Go's standard library / golang.org/x/crypto / dapr/kit's aeskw (the code dapr/kit delegates
// to) and with the Lean definitions through the driver — and reports every line on which the two
// answers differ.
//
// The Go side is an interpreter of the same line protocol (goEval), so a replay is just the line.
package main

import (
	"bytes"
	"crypto/aes"
	"crypto/cipher"
	"crypto/hmac"
	"crypto/sha256"
	"crypto/sha512"
	"encoding/base64"
	"encoding/binary"
	"encoding/hex"
	"encoding/json"
	"fmt"
	"hash"
	"io"
	"os"
	"strconv"
	"strings"

	"golang.org/x/crypto/chacha20poly1305"
	"golang.org/x/crypto/hkdf"

	"github.com/dapr/kit/crypto/aescbcaead"
	"github.com/dapr/kit/crypto/aeskw"

	"verifharness/lib"
)

const rule = "a case is one request line; it is non-trivial when at least one byte field is non-empty; distinct = distinct lines"

// ---------------------------------------------------------------------------------------------
// Go-side interpreter of the line protocol

type fields map[string]string

func parse(line string) (string, fields) {
	ws := strings.Fields(line)
	if len(ws) == 0 {
		return "", nil
	}
	f := fields{}
	for _, w := range ws[1:] {
		k, v, _ := strings.Cut(w, "=")
		if _, dup := f[k]; !dup {
			f[k] = v
		}
	}
	return ws[0], f
}

type badOp struct{}

func (f fields) hex(k string) []byte {
	v, ok := f[k]
	if !ok {
		panic(badOp{})
	}
	b, err := hex.DecodeString(v)
	if err != nil {
		panic(badOp{})
	}
	return b
}

func (f fields) alg() (func() hash.Hash, int) {
	switch f["alg"] {
	case "sha256":
		return sha256.New, 32
	case "sha384":
		return sha512.New384, 48
	case "sha512":
		return sha512.New, 64
	}
	panic(badOp{})
}

func ok(b []byte) string { return "ok out=" + hex.EncodeToString(b) }

const fail = "fail"

func gcmFor(key, nonce []byte) cipher.AEAD {
	blk, err := aes.NewCipher(key)
	if err != nil || len(nonce) == 0 {
		return nil
	}
	var a cipher.AEAD
	if len(nonce) == 12 {
		a, err = cipher.NewGCM(blk)
	} else {
		a, err = cipher.NewGCMWithNonceSize(blk, len(nonce))
	}
	if err != nil {
		return nil
	}
	return a
}

func chachaFor(key, nonce []byte, x bool) cipher.AEAD {
	var a cipher.AEAD
	var err error
	if x {
		a, err = chacha20poly1305.NewX(key)
	} else {
		a, err = chacha20poly1305.New(key)
	}
	if err != nil || len(nonce) != a.NonceSize() {
		return nil
	}
	return a
}

func seal(a cipher.AEAD, f fields) string {
	nonce, pt, ad := f.hex("nonce"), f.hex("pt"), f.hex("ad")
	if a == nil {
		return fail
	}
	return ok(a.Seal(nil, nonce, pt, ad))
}

func open(a cipher.AEAD, f fields) string {
	nonce, ct, ad := f.hex("nonce"), f.hex("ct"), f.hex("ad")
	if a == nil {
		return fail
	}
	pt, err := a.Open(nil, nonce, ct, ad)
	if err != nil {
		return fail
	}
	return ok(pt)
}

// RFC 7518 §5.2.2 written directly over the standard library.
func cbcHmacParts(f fields) (macKey []byte, blk cipher.Block, h func() hash.Hash, tagLen int, good bool) {
	h, size := f.alg()
	key, iv := f.hex("key"), f.hex("iv")
	tagLen = size / 2
	if len(key) < tagLen || len(iv) != 16 {
		return nil, nil, h, tagLen, false
	}
	blk, err := aes.NewCipher(key[tagLen:])
	if err != nil {
		return nil, nil, h, tagLen, false
	}
	return key[:tagLen], blk, h, tagLen, true
}

func cbcHmacTag(h func() hash.Hash, macKey, ad, iv, ct []byte, tagLen int) []byte {
	m := hmac.New(h, macKey)
	m.Write(ad)
	m.Write(iv)
	m.Write(ct)
	var al [8]byte
	binary.BigEndian.PutUint64(al[:], uint64(len(ad))*8)
	m.Write(al[:])
	return m.Sum(nil)[:tagLen]
}

// daprCBCHMAC returns dapr/kit's own AEAD for the (alg, key size) pairs it offers.
func daprCBCHMAC(alg string, key []byte) cipher.AEAD {
	var a cipher.AEAD
	var err error
	switch {
	case alg == "sha256" && len(key) == 32:
		a, err = aescbcaead.NewAESCBC128SHA256(key)
	case alg == "sha384" && len(key) == 48:
		a, err = aescbcaead.NewAESCBC192SHA384(key)
	case alg == "sha384" && len(key) == 56:
		a, err = aescbcaead.NewAESCBC256SHA384(key)
	case alg == "sha512" && len(key) == 64:
		a, err = aescbcaead.NewAESCBC256SHA512(key)
	default:
		return nil
	}
	if err != nil {
		return nil
	}
	return a
}

// goEval computes the expected answer with the Go libraries.  crossNote receives notes about the
// secondary comparison "stdlib composition vs dapr/kit aescbcaead".
func goEval(line string, cross func(kind, detail string)) (ans string) {
	defer func() {
		if r := recover(); r != nil {
			if _, isBad := r.(badOp); isBad {
				ans = "bad-op"
				return
			}
			ans = fmt.Sprintf("panic: %v", r)
		}
	}()
	op, f := parse(line)
	switch op {
	case "hash":
		h, _ := f.alg()
		x := h()
		x.Write(f.hex("msg"))
		return ok(x.Sum(nil))
	case "hmac":
		h, _ := f.alg()
		key, msg := f.hex("key"), f.hex("msg")
		x := hmac.New(h, key)
		x.Write(msg)
		return ok(x.Sum(nil))
	case "hkdf":
		h, _ := f.alg()
		secret, salt, info := f.hex("secret"), f.hex("salt"), f.hex("info")
		n, err := strconv.Atoi(f["len"])
		if err != nil || n < 0 {
			return "bad-op"
		}
		out := make([]byte, n)
		if _, err := io.ReadFull(hkdf.New(h, secret, salt, info), out); err != nil {
			return fail
		}
		return ok(out)
	case "aesenc", "aesdec":
		key, b := f.hex("key"), f.hex("block")
		blk, err := aes.NewCipher(key)
		if err != nil || len(b) != 16 {
			return fail
		}
		out := make([]byte, 16)
		if op == "aesenc" {
			blk.Encrypt(out, b)
		} else {
			blk.Decrypt(out, b)
		}
		return ok(out)
	case "cbcenc", "cbcdec":
		name := "pt"
		if op == "cbcdec" {
			name = "ct"
		}
		key, iv, data := f.hex("key"), f.hex("iv"), f.hex(name)
		blk, err := aes.NewCipher(key)
		if err != nil || len(iv) != 16 || len(data)%16 != 0 {
			return fail
		}
		out := make([]byte, len(data))
		if op == "cbcenc" {
			cipher.NewCBCEncrypter(blk, iv).CryptBlocks(out, data)
		} else {
			cipher.NewCBCDecrypter(blk, iv).CryptBlocks(out, data)
		}
		return ok(out)
	case "gcmseal":
		return seal(gcmFor(f.hex("key"), f.hex("nonce")), f)
	case "gcmopen":
		return open(gcmFor(f.hex("key"), f.hex("nonce")), f)
	case "chachaseal":
		return seal(chachaFor(f.hex("key"), f.hex("nonce"), false), f)
	case "chachaopen":
		return open(chachaFor(f.hex("key"), f.hex("nonce"), false), f)
	case "xchachaseal":
		return seal(chachaFor(f.hex("key"), f.hex("nonce"), true), f)
	case "xchachaopen":
		return open(chachaFor(f.hex("key"), f.hex("nonce"), true), f)
	case "kwwrap":
		kek, cek := f.hex("kek"), f.hex("cek")
		blk, err := aes.NewCipher(kek)
		if err != nil {
			return fail
		}
		out, err := aeskw.Wrap(blk, cek)
		if err != nil {
			return fail
		}
		return ok(out)
	case "kwunwrap":
		kek, w := f.hex("kek"), f.hex("wrapped")
		blk, err := aes.NewCipher(kek)
		if err != nil {
			return fail
		}
		out, err := aeskw.Unwrap(blk, w)
		if err != nil {
			return fail
		}
		return ok(out)
	case "cbchmacseal":
		macKey, blk, h, tagLen, good := cbcHmacParts(f)
		iv, pt, ad := f.hex("iv"), f.hex("pt"), f.hex("ad")
		if !good {
			return fail
		}
		k := 16 - len(pt)%16
		padded := append(append([]byte{}, pt...), bytes.Repeat([]byte{byte(k)}, k)...)
		ct := make([]byte, len(padded))
		cipher.NewCBCEncrypter(blk, iv).CryptBlocks(ct, padded)
		tag := cbcHmacTag(h, macKey, ad, iv, ct, tagLen)
		if d := daprCBCHMAC(f["alg"], f.hex("key")); d != nil {
			got := d.Seal(nil, iv, pt, ad)
			if bytes.Equal(got, append(append([]byte{}, ct...), tag...)) {
				cross("agree", "")
			} else {
				cross("differ", "seal: dapr="+hex.EncodeToString(got))
			}
		}
		return "ok out=" + hex.EncodeToString(ct) + " tag=" + hex.EncodeToString(tag)
	case "cbchmacopen":
		macKey, blk, h, tagLen, good := cbcHmacParts(f)
		iv, ct, ad, tag := f.hex("iv"), f.hex("ct"), f.hex("ad"), f.hex("tag")
		res := fail
		if good && len(ct)%16 == 0 && hmac.Equal(cbcHmacTag(h, macKey, ad, iv, ct, tagLen), tag) && len(ct) > 0 {
			pt := make([]byte, len(ct))
			cipher.NewCBCDecrypter(blk, iv).CryptBlocks(pt, ct)
			k := int(pt[len(pt)-1])
			if k >= 1 && k <= 16 && bytes.Equal(pt[len(pt)-k:], bytes.Repeat([]byte{byte(k)}, k)) {
				res = ok(pt[:len(pt)-k])
			}
		}
		if d := daprCBCHMAC(f["alg"], f.hex("key")); d != nil && good {
			switch {
			case len(ct) == 0:
				// RFC 7518 ciphertexts are never empty (PKCS#7 always adds a block); dapr/kit's
				// UnpadPKCS7 maps an empty buffer to an empty plaintext.  Not compared.
				cross("skipped-empty-ciphertext", "")
			case len(ct)%16 != 0 || len(tag) != tagLen:
				// dapr/kit's Open takes ct‖tag as one slice (the tag is always its last tagLen bytes) and
				// hands partial blocks to CryptBlocks; these shapes have no counterpart there.  Not compared.
				cross("skipped-shape-not-expressible", "")
			default:
				got := fail
				func() {
					defer func() {
						if r := recover(); r != nil {
							got = fmt.Sprintf("panic: %v", r)
						}
					}()
					if pt, err := d.Open(nil, iv, append(append([]byte{}, ct...), tag...), ad); err == nil {
						got = ok(pt)
					}
				}()
				if got == res {
					cross("agree", "")
				} else {
					cross("differ", "open: dapr="+got+" ref="+res)
				}
			}
		}
		return res
	case "b64enc":
		return ok([]byte(base64.StdEncoding.EncodeToString(f.hex("data"))))
	case "b64dec":
		out, err := base64.StdEncoding.DecodeString(string(f.hex("data")))
		if err != nil {
			return fail
		}
		return ok(out)
	}
	return "bad-op"
}

// ---------------------------------------------------------------------------------------------
// generators

type gen struct {
	r     *lib.Rand
	lines []string
	big   []int // "around 64 KiB" lengths for this tier
}

func hx(b []byte) string { return hex.EncodeToString(b) }

func (g *gen) add(format string, a ...any) { g.lines = append(g.lines, fmt.Sprintf(format, a...)) }

var algs = []string{"sha256", "sha384", "sha512"}

// msgLens: every length 0..200 once, plus the tier's large lengths.
func (g *gen) msgLens() []int {
	var l []int
	for i := 0; i <= 200; i++ {
		l = append(l, i)
	}
	return append(l, g.big...)
}

func (g *gen) pick(xs ...int) int { return xs[g.r.Intn(len(xs))] }

func (g *gen) aesKey() []byte { return g.r.Bytes(g.pick(16, 24, 32)) }

func (g *gen) adLen() int {
	switch g.r.Intn(6) {
	case 0:
		return 0
	case 1:
		return g.pick(15, 16, 17, 31, 32, 33)
	case 2:
		return g.r.Range(100, 300)
	default:
		return g.r.Range(1, 40)
	}
}

// tamper returns a copy of b changed in one of several ways (bit flip, truncation, extension).
func (g *gen) tamper(b []byte) ([]byte, string) {
	c := append([]byte{}, b...)
	switch k := g.r.Intn(6); {
	case k == 0 && len(c) > 0:
		return c[:len(c)-1], "drop-last"
	case k == 1 && len(c) > 0:
		return c[1:], "drop-first"
	case k == 2:
		return append(c, byte(g.r.U64())), "extend"
	case k == 3 && len(c) > 0:
		return c[:g.r.Intn(len(c))], "truncate"
	case len(c) > 0:
		i := g.r.Intn(len(c))
		if k == 4 && len(c) >= 16 { // aim at the tag
			i = len(c) - 1 - g.r.Intn(16)
		}
		c[i] ^= 1 << uint(g.r.Intn(8))
		return c, "bitflip"
	}
	return append(c, 0), "extend"
}

func (g *gen) hashes() {
	for _, a := range algs {
		for _, n := range g.msgLens() {
			g.add("hash alg=%s msg=%s", a, hx(g.r.Bytes(n)))
		}
	}
	for _, a := range algs {
		for _, kl := range []int{0, 1, 16, 20, 32, 48, 63, 64, 65, 100, 127, 128, 129, 131, 200, 300} {
			for i := 0; i < 6; i++ {
				g.add("hmac alg=%s key=%s msg=%s", a, hx(g.r.Bytes(kl)), hx(g.r.Bytes(g.r.Range(0, 200))))
			}
		}
		for _, n := range g.big {
			g.add("hmac alg=%s key=%s msg=%s", a, hx(g.r.Bytes(32)), hx(g.r.Bytes(n)))
		}
	}
	sizes := map[string]int{"sha256": 32, "sha384": 48, "sha512": 64}
	for _, a := range algs {
		sz := sizes[a]
		for _, n := range []int{0, 1, 16, 32, 33, 42, 64, 82, 100, 200, sz, sz + 1, 2 * sz, 255*sz - 1, 255 * sz, 255*sz + 1, 255*sz + 100} {
			for i := 0; i < 4; i++ {
				salt := g.r.Bytes(g.pick(0, 0, 13, 32, 64, 200))
				g.add("hkdf alg=%s secret=%s salt=%s info=%s len=%d", a, hx(g.r.Bytes(g.pick(0, 16, 22, 32, 80, 200))), hx(salt),
					hx(g.r.Bytes(g.pick(0, 10, 32, 80))), n)
			}
		}
	}
}

func (g *gen) aesAndCBC(n int) {
	for _, kl := range []int{16, 24, 32, 0, 8, 15, 17, 31, 33, 64} {
		for _, bl := range []int{16, 0, 15, 17, 32} {
			reps := 1
			if kl == 16 || kl == 24 || kl == 32 {
				reps = n
			}
			for i := 0; i < reps; i++ {
				g.add("aesenc key=%s block=%s", hx(g.r.Bytes(kl)), hx(g.r.Bytes(bl)))
				g.add("aesdec key=%s block=%s", hx(g.r.Bytes(kl)), hx(g.r.Bytes(bl)))
			}
		}
	}
	// structured keys/blocks (all-zero, all-ones, single bits)
	for _, kl := range []int{16, 24, 32} {
		for bit := 0; bit < 128; bit += 7 {
			b := make([]byte, 16)
			b[bit/8] = 0x80 >> uint(bit%8)
			g.add("aesenc key=%s block=%s", hx(make([]byte, kl)), hx(b))
			g.add("aesdec key=%s block=%s", hx(bytes.Repeat([]byte{0xff}, kl)), hx(b))
		}
	}
	for _, kl := range []int{16, 24, 32} {
		for blocks := 0; blocks <= 13; blocks++ {
			g.add("cbcenc key=%s iv=%s pt=%s", hx(g.r.Bytes(kl)), hx(g.r.Bytes(16)), hx(g.r.Bytes(16*blocks)))
			g.add("cbcdec key=%s iv=%s ct=%s", hx(g.r.Bytes(kl)), hx(g.r.Bytes(16)), hx(g.r.Bytes(16*blocks)))
		}
		for _, b := range g.big {
			g.add("cbcenc key=%s iv=%s pt=%s", hx(g.r.Bytes(kl)), hx(g.r.Bytes(16)), hx(g.r.Bytes(b/16*16)))
			g.add("cbcdec key=%s iv=%s ct=%s", hx(g.r.Bytes(kl)), hx(g.r.Bytes(16)), hx(g.r.Bytes(b/16*16)))
		}
	}
	for i := 0; i < 12; i++ { // rejected argument shapes
		g.add("cbcenc key=%s iv=%s pt=%s", hx(g.aesKey()), hx(g.r.Bytes(16)), hx(g.r.Bytes(16*g.r.Intn(4)+1+g.r.Intn(15))))
		g.add("cbcdec key=%s iv=%s ct=%s", hx(g.aesKey()), hx(g.r.Bytes(g.pick(0, 12, 15, 17))), hx(g.r.Bytes(32)))
		g.add("cbcenc key=%s iv=%s pt=%s", hx(g.r.Bytes(g.pick(0, 15, 20, 33))), hx(g.r.Bytes(16)), hx(g.r.Bytes(32)))
	}
}

type aeadKind struct {
	name     string
	keyLens  []int
	nonceLen []int
	mk       func(key, nonce []byte) cipher.AEAD
}

func (g *gen) aeads(perLen int) {
	kinds := []aeadKind{
		{"gcm", []int{16, 24, 32}, []int{12, 12, 12, 12, 12, 12, 1, 8, 11, 13, 16, 17, 32, 60}, gcmFor},
		{"chacha", []int{32}, []int{12}, func(k, n []byte) cipher.AEAD { return chachaFor(k, n, false) }},
		{"xchacha", []int{32}, []int{24}, func(k, n []byte) cipher.AEAD { return chachaFor(k, n, true) }},
	}
	for _, kd := range kinds {
		one := func(ptLen int) {
			key := g.r.Bytes(kd.keyLens[g.r.Intn(len(kd.keyLens))])
			nonce := g.r.Bytes(kd.nonceLen[g.r.Intn(len(kd.nonceLen))])
			pt, ad := g.r.Bytes(ptLen), g.r.Bytes(g.adLen())
			g.add("%sseal key=%s nonce=%s pt=%s ad=%s", kd.name, hx(key), hx(nonce), hx(pt), hx(ad))
			sealed := kd.mk(key, nonce).Seal(nil, nonce, pt, ad)
			g.add("%sopen key=%s nonce=%s ct=%s ad=%s", kd.name, hx(key), hx(nonce), hx(sealed), hx(ad))
			if ptLen > 4096 && g.r.Intn(2) == 0 {
				return
			}
			// one tampered variant per valid case
			switch g.r.Intn(5) {
			case 0:
				ad2, _ := g.tamper(ad)
				g.add("%sopen key=%s nonce=%s ct=%s ad=%s", kd.name, hx(key), hx(nonce), hx(sealed), hx(ad2))
			case 1:
				n2 := append([]byte{}, nonce...)
				n2[g.r.Intn(len(n2))] ^= 0x10
				g.add("%sopen key=%s nonce=%s ct=%s ad=%s", kd.name, hx(key), hx(n2), hx(sealed), hx(ad))
			case 2:
				k2 := append([]byte{}, key...)
				k2[g.r.Intn(len(k2))] ^= 0x01
				g.add("%sopen key=%s nonce=%s ct=%s ad=%s", kd.name, hx(k2), hx(nonce), hx(sealed), hx(ad))
			default:
				c2, _ := g.tamper(sealed)
				g.add("%sopen key=%s nonce=%s ct=%s ad=%s", kd.name, hx(key), hx(nonce), hx(c2), hx(ad))
			}
		}
		for n := 0; n <= 200; n++ {
			for i := 0; i < perLen; i++ {
				one(n)
			}
		}
		for _, b := range g.big {
			one(b)
		}
		// inputs shorter than a tag, rejected sizes
		for n := 0; n < 16; n++ {
			g.add("%sopen key=%s nonce=%s ct=%s ad=", kd.name, hx(g.r.Bytes(kd.keyLens[0])), hx(g.r.Bytes(kd.nonceLen[0])), hx(g.r.Bytes(n)))
		}
		for _, kl := range []int{0, 15, 31, 33, 64} {
			g.add("%sseal key=%s nonce=%s pt=0102 ad=", kd.name, hx(g.r.Bytes(kl)), hx(g.r.Bytes(kd.nonceLen[0])))
			g.add("%sopen key=%s nonce=%s ct=%s ad=", kd.name, hx(g.r.Bytes(kl)), hx(g.r.Bytes(kd.nonceLen[0])), hx(g.r.Bytes(20)))
		}
		for _, nl := range []int{0, 8, 11, 13, 16, 23, 24, 25} {
			if kd.name == "gcm" && nl != 0 {
				continue // accepted sizes for GCM, generated above
			}
			if nl == kd.nonceLen[0] {
				continue
			}
			g.add("%sseal key=%s nonce=%s pt=0102 ad=", kd.name, hx(g.r.Bytes(32)), hx(g.r.Bytes(nl)))
			g.add("%sopen key=%s nonce=%s ct=%s ad=", kd.name, hx(g.r.Bytes(32)), hx(g.r.Bytes(nl)), hx(g.r.Bytes(20)))
		}
	}
}

func (g *gen) keywrap(n int) {
	for _, kl := range []int{16, 24, 32} {
		for _, cl := range []int{16, 24, 32, 40, 48, 64, 128, 512} {
			for i := 0; i < n; i++ {
				kek, cek := g.r.Bytes(kl), g.r.Bytes(cl)
				g.add("kwwrap kek=%s cek=%s", hx(kek), hx(cek))
				blk, _ := aes.NewCipher(kek)
				w, err := aeskw.Wrap(blk, cek)
				if err != nil {
					continue
				}
				g.add("kwunwrap kek=%s wrapped=%s", hx(kek), hx(w))
				w2, _ := g.tamper(w)
				g.add("kwunwrap kek=%s wrapped=%s", hx(kek), hx(w2))
				g.add("kwunwrap kek=%s wrapped=%s", hx(g.r.Bytes(kl)), hx(w))
			}
		}
		for _, cl := range []int{0, 1, 7, 8, 9, 15, 17, 20, 23, 25, 33} {
			g.add("kwwrap kek=%s cek=%s", hx(g.r.Bytes(kl)), hx(g.r.Bytes(cl)))
			g.add("kwunwrap kek=%s wrapped=%s", hx(g.r.Bytes(kl)), hx(g.r.Bytes(cl)))
		}
	}
	for _, kl := range []int{0, 8, 15, 17, 33} {
		g.add("kwwrap kek=%s cek=%s", hx(g.r.Bytes(kl)), hx(g.r.Bytes(16)))
		g.add("kwunwrap kek=%s wrapped=%s", hx(g.r.Bytes(kl)), hx(g.r.Bytes(24)))
	}
}

func (g *gen) cbcHmac(perLen int) {
	type v struct {
		alg string
		kl  int
	}
	vs := []v{{"sha256", 32}, {"sha384", 48}, {"sha384", 56}, {"sha512", 64},
		// generalisations of the key split (MAC key = half the digest, rest = AES key)
		{"sha256", 40}, {"sha256", 48}, {"sha512", 48}, {"sha512", 56}, {"sha384", 40}}
	one := func(x v, ptLen int) {
		key, iv, pt, ad := g.r.Bytes(x.kl), g.r.Bytes(16), g.r.Bytes(ptLen), g.r.Bytes(g.adLen())
		line := fmt.Sprintf("cbchmacseal alg=%s key=%s iv=%s pt=%s ad=%s", x.alg, hx(key), hx(iv), hx(pt), hx(ad))
		g.lines = append(g.lines, line)
		ans := goEval(line, func(string, string) {})
		_, f := parse(ans)
		ct, tag := f["out"], f["tag"]
		g.add("cbchmacopen alg=%s key=%s iv=%s ct=%s ad=%s tag=%s", x.alg, hx(key), hx(iv), ct, hx(ad), tag)
		ctb, _ := hex.DecodeString(ct)
		tagb, _ := hex.DecodeString(tag)
		switch g.r.Intn(5) {
		case 0:
			t2, _ := g.tamper(tagb)
			g.add("cbchmacopen alg=%s key=%s iv=%s ct=%s ad=%s tag=%s", x.alg, hx(key), hx(iv), ct, hx(ad), hx(t2))
		case 1:
			c2, _ := g.tamper(ctb)
			g.add("cbchmacopen alg=%s key=%s iv=%s ct=%s ad=%s tag=%s", x.alg, hx(key), hx(iv), hx(c2), hx(ad), tag)
		case 2:
			a2, _ := g.tamper(ad)
			g.add("cbchmacopen alg=%s key=%s iv=%s ct=%s ad=%s tag=%s", x.alg, hx(key), hx(iv), ct, hx(a2), tag)
		case 3:
			// valid tag over a ciphertext whose padding is wrong: encrypt arbitrary blocks and MAC them
			macKey, blk, h, tagLen, _ := cbcHmacParts(fields{"alg": x.alg, "key": hx(key), "iv": hx(iv)})
			raw := g.r.Bytes(16 * g.r.Range(0, 3))
			if g.r.Bool() && len(raw) > 0 {
				raw[len(raw)-1] = byte(g.pick(0, 1, 2, 16, 17))
			}
			c2 := make([]byte, len(raw))
			cipher.NewCBCEncrypter(blk, iv).CryptBlocks(c2, raw)
			g.add("cbchmacopen alg=%s key=%s iv=%s ct=%s ad=%s tag=%s", x.alg, hx(key), hx(iv), hx(c2), hx(ad),
				hx(cbcHmacTag(h, macKey, ad, iv, c2, tagLen)))
		default:
			iv2 := append([]byte{}, iv...)
			iv2[g.r.Intn(16)] ^= 4
			g.add("cbchmacopen alg=%s key=%s iv=%s ct=%s ad=%s tag=%s", x.alg, hx(key), hx(iv2), ct, hx(ad), tag)
		}
	}
	for _, x := range vs {
		for n := 0; n <= 200; n += 1 {
			if n > 66 && n%5 != 0 {
				continue
			}
			for i := 0; i < perLen; i++ {
				one(x, n)
			}
		}
	}
	for i, b := range g.big {
		one(vs[i%4], b)
	}
	for _, x := range []v{{"sha256", 0}, {"sha256", 15}, {"sha256", 16}, {"sha256", 31}, {"sha256", 33}, {"sha384", 47}, {"sha512", 63}, {"sha512", 65}, {"sha512", 96}} {
		g.add("cbchmacseal alg=%s key=%s iv=%s pt=0102 ad=", x.alg, hx(g.r.Bytes(x.kl)), hx(g.r.Bytes(16)))
		g.add("cbchmacopen alg=%s key=%s iv=%s ct=%s ad= tag=%s", x.alg, hx(g.r.Bytes(x.kl)), hx(g.r.Bytes(16)), hx(g.r.Bytes(16)), hx(g.r.Bytes(16)))
	}
	for _, il := range []int{0, 12, 15, 17} {
		g.add("cbchmacseal alg=sha256 key=%s iv=%s pt=0102 ad=", hx(g.r.Bytes(32)), hx(g.r.Bytes(il)))
	}
}

func (g *gen) base64s() {
	for n := 0; n <= 200; n++ {
		d := g.r.Bytes(n)
		g.add("b64enc data=%s", hx(d))
		s := base64.StdEncoding.EncodeToString(d)
		g.add("b64dec data=%s", hx([]byte(s)))
		// mutated text: newlines, dropped padding, foreign characters, non-zero trailing bits
		b := []byte(s)
		switch g.r.Intn(7) {
		case 0:
			if len(b) > 0 {
				i := g.r.Intn(len(b) + 1)
				b = append(b[:i:i], append([]byte(g.pickStr("\n", "\r\n", "\r", "\n\n")), b[i:]...)...)
			}
		case 1:
			b = bytes.TrimRight(b, "=")
		case 2:
			if len(b) > 0 {
				b[g.r.Intn(len(b))] = g.pickStr("-", "_", " ", "=", "*", "\x00", "\xff", "A")[0]
			}
		case 3:
			if len(b) > 0 {
				b = b[:g.r.Intn(len(b))]
			}
		case 4:
			b = append(b, g.pickStr("=", "A", "==", "AA", "AAA", "A===")...)
		case 5:
			// flip low bits of the last data character (non-canonical trailing bits)
			t := bytes.TrimRight(b, "=")
			if len(t) > 0 && len(t) < len(b) {
				const alpha = "ABCDEFGHIJKLMNOPQRSTUVWXYZabcdefghijklmnopqrstuvwxyz0123456789+/"
				i := strings.IndexByte(alpha, t[len(t)-1])
				b[len(t)-1] = alpha[i|1]
			}
		default:
			b = g.r.Bytes(g.r.Range(1, 12))
		}
		g.add("b64dec data=%s", hx(b))
	}
	for _, b := range g.big {
		d := g.r.Bytes(b)
		g.add("b64enc data=%s", hx(d))
		g.add("b64dec data=%s", hx([]byte(base64.StdEncoding.EncodeToString(d))))
	}
}

func (g *gen) pickStr(xs ...string) string { return xs[g.r.Intn(len(xs))] }

func (g *gen) malformed() {
	g.add("nosuchop a=b")
	g.add("hash alg=md5 msg=00")
	g.add("hash alg=sha256")
	g.add("hash alg=sha256 msg=0")
	g.add("hash alg=sha256 msg=zz")
	g.add("gcmseal key=%s nonce=%s pt=00", hx(make([]byte, 16)), hx(make([]byte, 12)))
	g.add("hkdf alg=sha256 secret= salt= info= len=x")
	g.add("hmac key=00 msg=00")
}

// ---------------------------------------------------------------------------------------------

func bucket(n int) string {
	switch {
	case n == 0:
		return "0"
	case n < 16:
		return "1-15"
	case n <= 64:
		return "16-64"
	case n <= 200:
		return "65-200"
	case n <= 4096:
		return "201-4096"
	default:
		return ">4096"
	}
}

func classify(res *lib.Result, line, ans string) {
	op, f := parse(line)
	res.Hit("op:" + op)
	out := ans
	if i := strings.IndexByte(ans, ' '); i >= 0 {
		out = ans[:i]
	}
	res.Hit("answer:" + out)
	res.Hit("op-answer:" + op + ":" + out)
	longest, nonEmpty := 0, false
	for k, v := range f {
		if k == "alg" || k == "len" {
			continue
		}
		if len(v) > 0 {
			nonEmpty = true
		}
		if len(v)/2 > longest {
			longest = len(v) / 2
		}
	}
	res.Hit("longest-field-bytes:" + bucket(longest))
	for _, k := range []string{"key", "kek"} {
		if v, ok := f[k]; ok {
			res.Hit(fmt.Sprintf("keylen:%s:%d", op, len(v)/2))
		}
	}
	if v, ok := f["nonce"]; ok {
		res.Hit(fmt.Sprintf("noncelen:%s:%d", op, len(v)/2))
	}
	if v, ok := f["ad"]; ok {
		res.Hit("adlen:" + bucket(len(v)/2))
	}
	res.Count(line, nonEmpty)
}

func short(s string) string {
	if len(s) > 600 {
		return s[:300] + "…" + s[len(s)-200:] + fmt.Sprintf(" (%d chars)", len(s))
	}
	return s
}

func main() {
	f := lib.ParseFlags()
	res := lib.NewResult(rule)
	cross := func(kind, detail string) {
		res.Hit("stdlib-composition-vs-dapr-aescbcaead:" + kind)
		if kind == "differ" {
			res.Note("stdlib composition vs dapr aescbcaead differ: " + short(detail))
		}
	}

	var lines []string
	if f.Replay != "" {
		raw, err := os.ReadFile(f.Replay)
		if err != nil {
			fmt.Fprintln(os.Stderr, "cryptodiff:", err)
			os.Exit(3)
		}
		var rp struct {
			Case json.RawMessage `json:"case"`
		}
		var c struct {
			Line string `json:"line"`
		}
		if json.Unmarshal(raw, &rp) != nil || json.Unmarshal(rp.Case, &c) != nil || c.Line == "" {
			fmt.Fprintln(os.Stderr, "cryptodiff: replay file has no case.line")
			os.Exit(3)
		}
		lines = []string{c.Line}
	} else {
		g := &gen{r: lib.NewRand(f.Seed)}
		per := 1
		g.big = []int{65535, 65536, 65537}
		if f.Tier == "thorough" || f.Search {
			per = 4
			g.big = []int{65519, 65520, 65535, 65536, 65537, 65552, 131072, 200000}
		}
		g.hashes()
		g.aesAndCBC(8 * per)
		g.aeads(per)
		g.keywrap(2 * per)
		g.cbcHmac(per)
		g.base64s()
		g.malformed()
		lines = g.lines
	}

	want := make([]string, len(lines))
	for i, l := range lines {
		want[i] = goEval(l, cross)
		classify(res, l, want[i])
		if strings.HasPrefix(want[i], "panic") {
			res.Violate("go-reference-panicked", want[i], map[string]string{"line": short(l)})
		}
	}
	for i := 0; i < len(lines) && i < 400; i += 57 {
		res.Sample(map[string]string{"line": short(lines[i]), "go": short(want[i])})
	}

	drv, err := lib.StartDrv(f.Drv, "crypto")
	if err != nil {
		res.Note("cannot start driver: " + err.Error())
	}
	if drv != nil {
		got, err := drv.AskBatch(lines)
		drv.Close()
		if err != nil {
			res.Note("driver: " + err.Error())
			res.Disagree("Kit.Crypto.selfTestLine vs Go crypto libraries", map[string]string{"line": "(driver died)"}, err.Error(), "")
		}
		for i := range got {
			res.Traces++
			if got[i] != want[i] {
				full := map[string]string{"line": lines[i]}
				if len(lines[i]) > 4000 && f.Work != "" {
					p := fmt.Sprintf("%s/cryptodiff-case-%d.txt", f.Work, i)
					if os.WriteFile(p, []byte(lines[i]+"\n"), 0o644) == nil {
						full = map[string]string{"line": short(lines[i]), "full_line_file": p}
					}
				}
				res.Disagree("Kit.Crypto.selfTestLine vs Go crypto libraries", full, short(got[i]), short(want[i]))
			}
		}
	} else {
		res.Note("no driver: Go-side evaluation only")
	}
	res.Write(f.Out)
}
