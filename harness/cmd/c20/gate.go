// Gated-context family (round 4).
//
// Every context handed to NewPool/Add is a wrapper (gctx) whose four methods — Done, Err,
// Deadline, Value — pass through a process-global gate before answering.  The harness arms the
// gate for the n-th call-out made during one NewPool/Add call; the goroutine that makes that call
// (normally the Add itself, possibly while it holds the pool's lock) parks inside the context's
// method.  While it is parked the harness ends members, calls Size/Cancel/Add (asynchronously:
// they may legitimately block on the lock the parked call holds) and looks at the pool; then it
// lets the call go on.  No hook in /repo is involved: a context.Context implementation whose
// methods are slow is a legal argument.
//
// Monitors (straight from the property text, independent of the Lean model):
//   - definite member: passed at creation, or its Add RETURNED while the pool was live, Cancel
//     had not been started and a context that was a definite member before the Add was called
//     had still not ended;
//   - definitely ignored: the pool was done, or Cancel had returned, before Add was called;
//   - anything else is undecided (the Add straddled the end of the last live member): Size says
//     which way the pool decided.  "Size reports the members being tracked", so a context that
//     Size counts is tracked as a member and the pool may not be done while it is live; one that
//     Size does not count is not waited for, so the pool must end with the others;
//   - never early, eventually done, Size, watcher exit as in the plain families.
package main

import (
	"context"
	"fmt"
	"runtime"
	"sort"
	"strings"
	"sync"
	"time"

	kitctx "github.com/dapr/kit/context"

	"verifharness/lib"
)

// ---------------------------------------------------------------- the gate

type gateT struct {
	mu      sync.Mutex
	armed   bool
	skip    int
	parked  bool
	entered chan string
	release chan struct{}
	calls   map[string]int
}

var gt = &gateT{calls: map[string]int{}}

// point is called by every method of every wrapper context.
func (g *gateT) point(method string, id int) {
	g.mu.Lock()
	g.calls[method]++
	if !g.armed {
		g.mu.Unlock()
		return
	}
	if g.skip > 0 {
		g.skip--
		g.mu.Unlock()
		return
	}
	g.armed = false
	g.parked = true
	rel := make(chan struct{})
	g.release = rel
	ent := g.entered
	g.mu.Unlock()
	ent <- fmt.Sprintf("%s %d", method, id)
	<-rel
}

// arm: the (nth+1)-th call-out from now parks.
func (g *gateT) arm(nth int) chan string {
	g.mu.Lock()
	defer g.mu.Unlock()
	g.armed = true
	g.skip = nth
	g.entered = make(chan string, 1)
	return g.entered
}

func (g *gateT) disarm() {
	g.mu.Lock()
	g.armed = false
	g.mu.Unlock()
}

func (g *gateT) isParked() bool {
	g.mu.Lock()
	defer g.mu.Unlock()
	return g.parked
}

func (g *gateT) releaseParked() bool {
	g.mu.Lock()
	defer g.mu.Unlock()
	if !g.parked {
		return false
	}
	g.parked = false
	close(g.release)
	return true
}

func (g *gateT) takeCalls() map[string]int {
	g.mu.Lock()
	defer g.mu.Unlock()
	out := g.calls
	g.calls = map[string]int{}
	return out
}

// gctx is a legal context.Context: it answers exactly like the context it wraps, after the gate.
type gctx struct {
	inner context.Context
	id    int
}

func (c *gctx) Done() <-chan struct{} { gt.point("Done", c.id); return c.inner.Done() }
func (c *gctx) Err() error            { gt.point("Err", c.id); return c.inner.Err() }
func (c *gctx) Deadline() (time.Time, bool) {
	gt.point("Deadline", c.id)
	return c.inner.Deadline()
}
func (c *gctx) Value(k any) any { gt.point("Value", c.id); return c.inner.Value(k) }

// ---------------------------------------------------------------- asynchronous calls

// c20asyncRun is the entry function of every goroutine that calls into the pool on behalf of the
// gated family; goroutine dumps are searched for its name.
func c20asyncRun(f func(), done chan string) {
	defer func() {
		if r := recover(); r != nil {
			done <- fmt.Sprintf("panic: %v", r)
		}
	}()
	f()
	done <- "ok"
}

type asyncH struct {
	kind     string // new | add | cancel | size
	id       int
	done     chan string
	result   string // "" while in flight
	size     int
	snapshot map[int]bool // definite members that were live when the call was started
	// state when the call was started
	doneBefore, cancelStartedBefore, cancelReturnedBefore bool
	loBefore                                              int
}

func blockedState(st string) bool {
	for _, p := range []string{"select", "chan receive", "chan send", "sync.RWMutex.RLock", "sync.RWMutex.Lock",
		"sync.Mutex.Lock", "semacquire", "sync.Cond.Wait", "sync.WaitGroup.Wait"} {
		if strings.HasPrefix(st, p) {
			return true
		}
	}
	return false
}

// poolGoroutines returns the wait states of the watcher goroutines and of the asynchronous callers.
func poolGoroutines() (watch, async []string) {
	buf := make([]byte, 1<<16)
	for {
		n := runtime.Stack(buf, true)
		if n < len(buf) {
			buf = buf[:n]
			break
		}
		buf = make([]byte, 2*len(buf))
	}
	for _, blk := range strings.Split(string(buf), "\n\n") {
		isW := strings.Contains(blk, "created by github.com/dapr/kit/context.NewPool")
		isA := strings.Contains(blk, "main.c20asyncRun(")
		if !isW && !isA {
			continue
		}
		st := "?"
		if i := strings.IndexByte(blk, '['); i >= 0 {
			if j := strings.IndexByte(blk[i:], ']'); j > 0 {
				st = blk[i+1 : i+j]
				if k := strings.IndexByte(st, ','); k >= 0 {
					st = st[:k]
				}
			}
		}
		if isW {
			watch = append(watch, st)
		} else {
			async = append(async, st)
		}
	}
	return
}

// settleWin waits until every watcher and every asynchronous caller is blocked or gone: inside a
// window the watcher may be blocked on the pool's lock, which settle() would not accept.
func settleWin() (stable bool, watch []string) {
	t0 := time.Now()
	for spin := 0; ; spin++ {
		w, a := poolGoroutines()
		ok := true
		for _, st := range append(append([]string{}, w...), a...) {
			if !blockedState(st) {
				ok = false
			}
		}
		if ok {
			return true, w
		}
		if time.Since(t0) > settleDeadline {
			return false, w
		}
		if spin < 50 {
			runtime.Gosched()
		} else {
			time.Sleep(50 * time.Microsecond)
		}
	}
}

// ---------------------------------------------------------------- one gated scenario

type gpair struct {
	inner  context.Context
	cancel context.CancelFunc
	wrap   *gctx
	ended  bool
}

type ggroup struct {
	ctxs    []int
	tracked int
}

type gsc struct {
	c    *Case
	out  *outcome
	ctxs map[int]*gpair
	pool *kitctx.Pool

	member  map[int]bool   // definite members
	why     map[int]string // how a context that was not passed at creation became one
	offered map[int]bool
	groups  []*ggroup // undecided Adds of which Size counts `tracked`
	pend    []int     // undecided Adds since the last Size reading
	pendDef int       // definite Adds since the last Size reading
	lo      int       // Size at the last reading
	slack   int       // contexts that ended while NewPool was running (before the first reading)
	adds    int       // Adds started since the last Size reading

	cancelStarted, cancelReturned bool
	inflight                      []*asyncH
	broken                        bool
	traceOK                       bool
}

func (g *gsc) ctx(id int) *gpair {
	if p, ok := g.ctxs[id]; ok {
		return p
	}
	p := &gpair{}
	if id == 0 {
		p.inner, p.cancel = context.Background(), func() {}
	} else {
		p.inner, p.cancel = context.WithCancel(context.Background())
	}
	p.wrap = &gctx{inner: p.inner, id: id}
	g.ctxs[id] = p
	return p
}

func (g *gsc) violate(id, what string) { g.out.viols = append(g.out.viols, viol{id, what}) }
func (g *gsc) line(format string, a ...any) {
	g.out.lines = append(g.out.lines, fmt.Sprintf(format, a...))
}
func (g *gsc) hit(h string) { g.out.hits = append(g.out.hits, h) }

func (g *gsc) end(id int) bool {
	p := g.ctx(id)
	if id == 0 || p.ended {
		return false
	}
	p.cancel()
	p.ended = true
	return true
}

func (g *gsc) liveMembers() []int {
	var ids []int
	for id := range g.member {
		if !g.ctx(id).ended {
			ids = append(ids, id)
		}
	}
	sort.Ints(ids)
	return ids
}

func (g *gsc) start(kind string, id int) *asyncH {
	h := &asyncH{kind: kind, id: id, done: make(chan string, 2), snapshot: map[int]bool{}}
	for _, m := range g.liveMembers() {
		h.snapshot[m] = true
	}
	if g.pool != nil {
		h.doneBefore = g.pool.Err() != nil
	}
	h.cancelStartedBefore, h.cancelReturnedBefore, h.loBefore = g.cancelStarted, g.cancelReturned, g.lo
	var f func()
	switch kind {
	case "add":
		w := g.ctx(id).wrap
		g.offered[id] = true
		g.adds++
		f = func() { g.pool.Add(w) }
	case "cancel":
		g.cancelStarted = true
		f = func() { g.pool.Cancel() }
	case "size":
		f = func() { h.size = g.pool.Size() }
	}
	g.inflight = append(g.inflight, h)
	go c20asyncRun(f, h.done)
	return h
}

// account classifies a call that has returned.
func (g *gsc) account(h *asyncH) {
	if h.result != "ok" {
		g.violate("op-"+strings.SplitN(h.result, ":", 2)[0], fmt.Sprintf("%s(ctx%d) [gated family]: %s", h.kind, h.id, h.result))
		g.broken = true
		return
	}
	switch h.kind {
	case "cancel":
		g.cancelReturned = true
	case "size":
		// concurrent reading: at least what was tracked when it started, at most that plus every
		// Add started since the last reading; 0 once Cancel is under way
		hi := g.lo + g.slack + g.adds
		switch {
		case h.cancelReturnedBefore:
			if h.size != 0 {
				g.violate("size-nonzero-after-cancel", fmt.Sprintf("Size()=%d although Cancel had returned before Size was called", h.size))
			}
		case g.cancelStarted && h.size == 0:
		case h.size < h.loBefore || h.size > hi:
			g.violate("size-mismatch", fmt.Sprintf("Size()=%d (called while another call into the pool was inside a context's method) outside [%d,%d]", h.size, h.loBefore, hi))
		}
	case "add":
		doneAfter := g.pool.Err() != nil
		stillLive := -1
		for _, m := range g.liveMembers() {
			if h.snapshot[m] {
				stillLive = m
				break
			}
		}
		switch {
		case h.cancelStartedBefore || g.cancelStarted:
			// Cancel under way: Size is 0 afterwards, never-early no longer applies
			g.hit("gadd:cancel-under-way")
		case h.doneBefore:
			g.hit("gadd:ignored(pool-done-before)")
		case !doneAfter && stillLive >= 0:
			g.pendDef++
			if !g.member[h.id] {
				g.member[h.id] = true
				g.why[h.id] = fmt.Sprintf("Add(ctx%d) returned while the pool was live and member ctx%d had not ended", h.id, stillLive)
			}
			g.hit("gadd:member")
		default:
			g.pend = append(g.pend, h.id)
			g.hit("gadd:undecided")
		}
	}
}

// collect waits (bounded) for calls in flight; wantAll: every one of them must return.
func (g *gsc) collect(wantAll bool) {
	var rest []*asyncH
	for _, h := range g.inflight {
		if wantAll {
			select {
			case r := <-h.done:
				h.result = r
			case <-time.After(opDeadline):
				h.result = "timeout"
			}
		} else {
			select {
			case r := <-h.done:
				h.result = r
			default:
			}
		}
		if h.result == "" {
			rest = append(rest, h)
			continue
		}
		g.account(h)
	}
	g.inflight = rest
}

func b01(x bool) int {
	if x {
		return 1
	}
	return 0
}

// neverEarly: checked at every observation, inside windows too (Err() takes no lock of the pool).
func (g *gsc) neverEarly(done bool, after string) {
	if !done || g.cancelStarted {
		return
	}
	if ms := g.liveMembers(); len(ms) > 0 {
		id := ms[0]
		how := "passed at creation"
		if w := g.why[id]; w != "" {
			how = w
		}
		g.violate("done-while-member-live", fmt.Sprintf("pool context is done after %s although member ctx%d (%s) has not ended and Cancel was not called", after, id, how))
	}
	for _, gr := range g.groups {
		ended := 0
		for _, id := range gr.ctxs {
			if g.ctx(id).ended {
				ended++
			}
		}
		if gr.tracked > ended {
			g.violate("done-while-member-live", fmt.Sprintf("pool context is done after %s although Size counts %d of the contexts %v (each Add overlapped the end of the last live member) and only %d of them have ended; Cancel was not called", after, gr.tracked, gr.ctxs, ended))
		}
	}
}

// observeWin: observation while a call is parked inside a context's method.
func (g *gsc) observeWin(after string) {
	stable, w := settleWin()
	g.collect(false)
	done := g.pool.Err() != nil
	if !done {
		g.out.sawLive = true
	} else if g.out.sawLive {
		g.out.doneAfter = true
	}
	if !stable {
		g.hit("settle:timeout(window)")
	}
	if len(w) > 1 {
		g.violate("watcher-leak", fmt.Sprintf("%d watcher goroutines exist although only one pool is alive (after %s)", len(w), after))
	}
	g.line("obsw quiet=%d done=%d alive=%d", b01(stable), b01(done), b01(len(w) > 0))
	g.neverEarly(done, after)
}

// observeFull: nothing is parked, every call has returned.
func (g *gsc) observeFull(after string) {
	quiet, alive, nw := settle()
	if nw > 1 {
		g.violate("watcher-leak", fmt.Sprintf("%d watcher goroutines exist although only one pool is alive (after %s)", nw, after))
	}
	var done bool
	var size int
	if r := call(func() { done = g.pool.Err() != nil; size = g.pool.Size() }); r != "ok" {
		g.violate("op-"+strings.SplitN(r, ":", 2)[0], "Err()/Size() after "+after+": "+r)
		g.broken = true
		return
	}
	g.line("obs quiet=%d park=0 pi=0 done=%d size=%d alive=%d", b01(quiet), b01(done), size, b01(alive))
	if !quiet {
		g.hit("settle:timeout")
	}
	if !done {
		g.out.sawLive = true
	} else if g.out.sawLive {
		g.out.doneAfter = true
	}
	// Size: which way were the undecided Adds decided?
	switch {
	case g.cancelReturned:
		if size != 0 {
			g.violate("size-nonzero-after-cancel", fmt.Sprintf("Size()=%d after Cancel (after %s)", size, after))
		}
		g.pend, g.pendDef, g.slack = nil, 0, 0
	case g.slack > 0:
		if size < g.lo || size > g.lo+g.slack {
			g.violate("size-mismatch", fmt.Sprintf("Size()=%d after NewPool, expected %d..%d (after %s)", size, g.lo, g.lo+g.slack, after))
		}
		g.lo, g.slack = size, 0
	default:
		t := size - g.lo - g.pendDef
		if t < 0 || t > len(g.pend) {
			g.violate("size-mismatch", fmt.Sprintf("Size()=%d, expected %d tracked contexts plus at most %d whose Add overlapped the end of the last live member (after %s)", size, g.lo+g.pendDef, len(g.pend), after))
		} else if len(g.pend) > 0 {
			switch t {
			case len(g.pend):
				for _, id := range g.pend {
					if !g.member[id] {
						g.member[id] = true
						g.why[id] = fmt.Sprintf("Add(ctx%d) was called while the pool and a member were live and overlapped the end of the last live member; Size()=%d counts it, so it is tracked as a member", id, size)
					}
				}
				g.hit("gadd:undecided->tracked")
			case 0:
				g.hit("gadd:undecided->ignored")
			default:
				g.groups = append(g.groups, &ggroup{ctxs: g.pend, tracked: t})
				g.hit("gadd:undecided->partly")
			}
		}
		g.lo, g.pend, g.pendDef = size, nil, 0
	}
	g.adds = 0
	g.neverEarly(done, after)
	// eventually done
	if !done {
		allOffered := true
		for id := range g.offered {
			if !g.ctx(id).ended {
				allOffered = false
			}
		}
		waitsFor := len(g.liveMembers()) > 0
		for _, gr := range g.groups {
			if gr.tracked > 0 {
				for _, id := range gr.ctxs {
					if !g.ctx(id).ended {
						waitsFor = true
					}
				}
			}
		}
		switch {
		case !quiet:
			if g.cancelReturned || allOffered {
				g.violate("not-done-within-deadline", fmt.Sprintf("after %s: Cancel returned=%v, every offered context ended=%v, but the pool context is not done after %v", after, g.cancelReturned, allOffered, settleDeadline))
			}
		case g.cancelReturned || allOffered:
			g.violate("not-done-after-all-ended", fmt.Sprintf("after %s: Cancel returned=%v, every offered context ended=%v, the watcher is quiescent (alive=%v) but the pool context is not done", after, g.cancelReturned, allOffered, alive))
		case !g.cancelStarted && !waitsFor:
			g.violate("late-add-tracked-after-members-ended", fmt.Sprintf("after %s: every member of the pool has ended (Size()=%d counts no other live context that was offered while a member was live) and the watcher is quiescent, but the pool context is not done", after, size))
		}
	}
	if quiet {
		if done && alive {
			g.violate("watcher-leak", "pool context is done but the watcher goroutine still exists (blocked) after "+after)
		}
		if !done && !alive {
			g.violate("watcher-gone-pool-live", "watcher goroutine is gone but the pool context is not done after "+after)
		}
	}
}

// window runs the operations of `in` while a call is parked, then lets it go on.
func (g *gsc) window(in []Op, what string) {
	for _, op := range in {
		switch op.K {
		case "end":
			for _, id := range op.C {
				if g.end(id) {
					g.line("end c=%d", id)
					g.hit("win:end")
				}
			}
			if g.pool != nil {
				g.observeWin("the end of " + fmt.Sprint(op.C) + " while " + what)
			}
		case "size", "cancel":
			if g.pool != nil {
				g.traceOK = false
				g.start(op.K, -1)
				g.hit("win:" + op.K)
				g.observeWin(op.K + " called while " + what)
			}
		case "add":
			if g.pool != nil {
				g.traceOK = false
				g.start("add", op.C[0])
				g.hit("win:add")
				g.observeWin(fmt.Sprintf("Add(ctx%d) called while %s", op.C[0], what))
			}
		}
	}
}

func (g *gsc) gatedAdd(op Op, name string) {
	id := op.C[0]
	ent := gt.arm(op.Nth)
	h := g.start("add", id)
	parked, what := false, ""
	select {
	case what = <-ent:
		parked = true
	case r := <-h.done:
		h.done <- r
	case <-time.After(opDeadline):
	}
	if !parked {
		gt.disarm()
		if gt.isParked() {
			what, parked = <-ent, true
		}
	}
	if parked {
		g.hit("gate:parked-in:" + strings.Fields(what)[0])
		if what == fmt.Sprintf("Done %d", id) && op.Nth == 0 {
			g.line("gate c=%d", id)
		} else {
			g.traceOK = false
		}
		g.observeWin(fmt.Sprintf("Add(ctx%d) entered ctx%s.%s()", id, strings.Fields(what)[1], strings.Fields(what)[0]))
		g.window(op.In, fmt.Sprintf("Add(ctx%d) was inside ctx%s.%s()", id, strings.Fields(what)[1], strings.Fields(what)[0]))
		gt.releaseParked()
		if g.traceOK {
			g.line("ungate")
		}
		g.collect(true)
	} else {
		g.hit("gate:not-reached")
		g.collect(true)
		if !g.broken {
			g.line("add c=%d", id)
		}
	}
	if !g.broken {
		g.observeFull(name)
	}
}

// opStr renders an operation for messages: "gadd ctx5 @call-out 1 {end ctx1; size}".
func opStr(op Op) string {
	var b strings.Builder
	b.WriteString(op.K)
	for _, id := range op.C {
		fmt.Fprintf(&b, " ctx%d", id)
	}
	if op.K == "gadd" {
		fmt.Fprintf(&b, " @call-out %d {", op.Nth+1)
		for i, in := range op.In {
			if i > 0 {
				b.WriteString("; ")
			}
			b.WriteString(opStr(in))
		}
		b.WriteString("}")
	}
	return b.String()
}

func runGated(c *Case) *outcome {
	out := &outcome{}
	g := &gsc{c: c, out: out, ctxs: map[int]*gpair{}, member: map[int]bool{}, why: map[int]string{}, offered: map[int]bool{}, traceOK: true}
	if q, _, n := settle(); n != 0 {
		out.notes = append(out.notes, fmt.Sprintf("stale watcher goroutines before scenario: %d quiet=%v", n, q))
	}
	tr.disarmAll()
	gt.disarm()
	gt.takeCalls()
	if f := strings.SplitN(c.Family, ":", 3); len(f) >= 2 {
		g.hit("gate-family:" + f[1])
	}
	defer func() {
		for k, v := range gt.takeCalls() {
			for i := 0; i < v && i < 64; i++ {
				out.hits = append(out.hits, "callout:"+k)
			}
		}
		if !g.traceOK {
			out.lines = nil
		}
	}()
	for _, id := range c.Ended {
		g.end(id)
	}
	args := make([]context.Context, 0, len(c.Init))
	liveBefore := 0
	var endedBefore []int
	for _, id := range c.Init {
		p := g.ctx(id)
		args = append(args, p.wrap)
		g.member[id], g.offered[id] = true, true
		if !p.ended {
			liveBefore++
		} else {
			endedBefore = append(endedBefore, id)
		}
	}
	// NewPool, possibly parked inside one of its call-outs
	h := &asyncH{kind: "new", done: make(chan string, 2)}
	var ent chan string
	if c.Gate != nil {
		ent = gt.arm(c.Gate.Nth)
	}
	go c20asyncRun(func() { g.pool = kitctx.NewPool(args...) }, h.done)
	res := ""
	var endedIn, endedOther []int // contexts that ended while NewPool ran: arguments of NewPool / others
	select {
	case what := <-ent: // nil channel when there is no gate
		g.hit("gate:newpool-parked-in:" + strings.Fields(what)[0])
		for _, op := range c.Gate.In {
			if op.K == "end" {
				for _, id := range op.C {
					if g.end(id) {
						g.hit("win:end(newpool)")
						isInit := false
						for _, m := range c.Init {
							if m == id {
								isInit = true
								break
							}
						}
						if isInit {
							endedIn = append(endedIn, id)
						} else {
							endedOther = append(endedOther, id)
						}
					}
				}
			}
		}
		gt.releaseParked()
		select {
		case res = <-h.done:
		case <-time.After(opDeadline):
			res = "timeout"
		}
	case res = <-h.done:
		if c.Gate != nil {
			gt.disarm()
			if gt.isParked() { // some other goroutine of the pool ran into the gate
				gt.releaseParked()
			}
			g.hit("gate:newpool-not-reached")
		}
	case <-time.After(opDeadline):
		res = "timeout"
	}
	if res != "ok" {
		g.violate("op-"+strings.SplitN(res, ":", 2)[0], "NewPool [gated family]: "+res)
		gt.releaseParked()
		return out
	}
	// contexts that ended while NewPool ran may or may not be counted
	nIn := 0
	for _, id := range c.Init {
		for _, e := range dedup(endedIn) {
			if id == e {
				nIn++
			}
		}
	}
	g.lo, g.slack = liveBefore-nIn, nIn
	switch {
	case nIn == 0:
		g.line("new ctxs=%s ended=%s", nats(c.Init), nats(dedup(endedBefore)))
	case nIn == 1:
		size := -1
		call(func() { size = g.pool.Size() })
		if size == g.lo+1 {
			// linearised before the end: tracked, then ended
			g.line("new ctxs=%s ended=%s", nats(c.Init), nats(dedup(endedBefore)))
			g.line("end c=%d", endedIn[0])
		} else {
			g.line("new ctxs=%s ended=%s", nats(c.Init), nats(dedup(append(endedBefore, endedIn[0]))))
		}
	default:
		g.traceOK = false
	}
	for _, id := range endedOther {
		g.line("end c=%d", id)
	}
	g.observeFull("NewPool")

	for i, op := range c.Ops {
		if g.broken {
			break
		}
		name := fmt.Sprintf("op %d (%s)", i, opStr(op))
		switch op.K {
		case "end":
			for _, id := range op.C {
				if g.end(id) {
					g.line("end c=%d", id)
				}
			}
			g.observeFull(name)
		case "add":
			g.start("add", op.C[0])
			g.collect(true)
			if !g.broken {
				g.line("add c=%d", op.C[0])
				g.observeFull(name)
			}
		case "cancel":
			g.start("cancel", -1)
			g.collect(true)
			if !g.broken {
				g.line("cancel")
				g.observeFull(name)
			}
		case "gadd":
			g.gatedAdd(op, name)
		}
	}

	// cleanup, also a check
	gt.disarm()
	gt.releaseParked()
	if !g.broken {
		g.collect(true)
	}
	if !g.broken {
		g.start("cancel", -1)
		g.collect(true)
	}
	if !g.broken {
		g.line("cancel")
		g.observeFull("final Cancel")
	}
	for _, p := range g.ctxs {
		p.cancel()
	}
	return out
}

// ---------------------------------------------------------------- generator

type GateSpec struct {
	Nth int  `json:"nth"`
	In  []Op `json:"in,omitempty"`
}

func genGated(tier string, seed uint64, search bool) []*Case {
	var cs []*Case
	maxK := 3
	bs := bases(maxK)
	thorough := tier == "thorough" || search
	type variant struct {
		name string
		in   func(rest []int, c int) []Op
	}
	ends := func(ids []int) []Op {
		var o []Op
		for _, id := range ids {
			o = append(o, Op{K: "end", C: []int{id}})
		}
		return o
	}
	variants := []variant{
		{"nothing", func(rest []int, c int) []Op { return nil }},
		{"end-rest", func(rest []int, c int) []Op { return ends(rest) }},
		{"end-next", func(rest []int, c int) []Op {
			if len(rest) == 0 {
				return nil
			}
			return ends(rest[:1])
		}},
		{"end-rest-together", func(rest []int, c int) []Op { return []Op{{K: "end", C: append([]int{}, rest...)}} }},
		{"end-rest+self", func(rest []int, c int) []Op { return append(ends(rest), Op{K: "end", C: []int{c}}) }},
		{"end-self", func(rest []int, c int) []Op { return []Op{{K: "end", C: []int{c}}} }},
		{"end-rest+size", func(rest []int, c int) []Op { return append(ends(rest), Op{K: "size"}) }},
		{"size+end-rest", func(rest []int, c int) []Op { return append([]Op{{K: "size"}}, ends(rest)...) }},
		{"end-rest+cancel", func(rest []int, c int) []Op { return append(ends(rest), Op{K: "cancel"}) }},
		{"cancel", func(rest []int, c int) []Op { return []Op{{K: "cancel"}} }},
		{"cancel+end-rest", func(rest []int, c int) []Op { return append([]Op{{K: "cancel"}}, ends(rest)...) }},
		{"end-rest+add", func(rest []int, c int) []Op { return append(ends(rest), Op{K: "add", C: []int{7}}) }},
		{"add+end-rest", func(rest []int, c int) []Op { return append([]Op{{K: "add", C: []int{7}}}, ends(rest)...) }},
		{"end-rest+add-ended", func(rest []int, c int) []Op {
			return append(ends(rest), Op{K: "end", C: []int{8}}, Op{K: "add", C: []int{8}})
		}},
	}
	type addKind struct {
		name string
		id   int
		pre  []Op
	}
	kinds := []addKind{
		{"live", 5, nil},
		{"ended", 6, []Op{{K: "end", C: []int{6}}}},
		{"background", 0, nil},
		{"duplicate", 1, nil},
	}
	tailG := []Op{{K: "end", C: []int{5}}, {K: "end", C: []int{7}}, {K: "end", C: []int{9}}}
	// G1: one gated Add at every position of every base scenario × what happens inside the window
	for _, b := range bs {
		for pos := 0; pos <= len(b.order); pos++ {
			rest := b.order[pos:]
			for _, k := range kinds {
				for vi, v := range variants {
					if !thorough && (len(b.init) == 3 && len(b.order) == 3 && vi >= 6 && k.name != "live") {
						continue
					}
					for nth := 0; nth <= 1; nth++ {
						if nth == 1 && !(v.name == "end-rest" || v.name == "end-next") {
							continue
						}
						ops := append([]Op{}, endOps(b.order[:pos])...)
						ops = append(ops, k.pre...)
						ops = append(ops, Op{K: "gadd", C: []int{k.id}, Nth: nth, In: v.in(rest, k.id)})
						ops = append(ops, endOps(rest)...)
						ops = append(ops, tailG...)
						cs = append(cs, &Case{Family: "gate:add-" + k.name + ":" + v.name, Init: b.init, Ended: b.ended, Ops: ops})
					}
				}
			}
		}
	}
	// G2: two gated Adds: the second one straddles the end of the context the first one added
	for _, b := range bs {
		if len(b.order) == 0 {
			continue
		}
		m := len(b.order)
		for _, first := range []string{"plain", "gated"} {
			for _, in2 := range [][]Op{ends([]int{5}), {{K: "end", C: []int{5}}, {K: "size"}}, {{K: "end", C: []int{5}}, {K: "add", C: []int{7}}}, nil} {
				ops := append([]Op{}, endOps(b.order[:m-1])...)
				if first == "plain" {
					ops = append(ops, Op{K: "add", C: []int{5}}, Op{K: "end", C: []int{b.order[m-1]}})
				} else {
					ops = append(ops, Op{K: "gadd", C: []int{5}, In: ends([]int{b.order[m-1]})})
				}
				ops = append(ops, Op{K: "gadd", C: []int{9}, In: in2})
				ops = append(ops, tailG...)
				cs = append(cs, &Case{Family: "gate:add-twice:" + first, Init: b.init, Ended: b.ended, Ops: ops})
			}
		}
	}
	// G3: NewPool parked inside each of its call-outs while contexts end
	for _, b := range bs {
		if len(b.init) == 0 {
			continue
		}
		for nth := 0; nth < 2*len(b.init)+1; nth++ {
			var ins [][]Op
			ins = append(ins, nil)
			for _, id := range b.order {
				ins = append(ins, ends([]int{id}))
			}
			if len(b.order) >= 2 {
				ins = append(ins, ends(b.order))
			}
			for _, in := range ins {
				ops := append([]Op{}, endOps(b.order)...)
				cs = append(cs, &Case{Family: "gate:newpool", Init: b.init, Ended: b.ended, Gate: &GateSpec{Nth: nth, In: in}, Ops: ops})
				if len(b.order) >= 1 {
					// and an Add right afterwards, gated, straddling the end of what is left
					ops2 := []Op{{K: "gadd", C: []int{5}, In: ends(b.order)}}
					ops2 = append(ops2, tailG...)
					cs = append(cs, &Case{Family: "gate:newpool+add", Init: b.init, Ended: b.ended, Gate: &GateSpec{Nth: nth, In: in}, Ops: ops2})
				}
			}
		}
	}
	// G4: random sequences over wrapper contexts
	rng := lib.NewRand(seed ^ 0x9a7e)
	nRand := 300
	if tier == "thorough" {
		nRand = 4000
	}
	if search {
		nRand *= 5
	}
	for i := 0; i < nRand; i++ {
		k := rng.Intn(4)
		var init, ended []int
		for j := 0; j < k; j++ {
			id := rng.Range(0, 4)
			init = append(init, id)
			if id != 0 && rng.Intn(3) == 0 {
				ended = append(ended, id)
			}
		}
		var gate *GateSpec
		if k > 0 && rng.Intn(5) == 0 {
			gate = &GateSpec{Nth: rng.Intn(2 * k), In: []Op{{K: "end", C: []int{rng.Range(1, 4)}}}}
		}
		randIn := func() []Op {
			var in []Op
			for n := rng.Intn(4); n > 0; n-- {
				switch x := rng.Intn(10); {
				case x < 6:
					in = append(in, Op{K: "end", C: []int{rng.Range(1, 9)}})
				case x < 7:
					in = append(in, Op{K: "size"})
				case x < 8:
					in = append(in, Op{K: "cancel"})
				default:
					in = append(in, Op{K: "add", C: []int{rng.Range(0, 9)}})
				}
			}
			return in
		}
		var ops []Op
		for n := rng.Range(1, 10); n > 0; n-- {
			switch x := rng.Intn(20); {
			case x < 7:
				ops = append(ops, Op{K: "end", C: []int{rng.Range(1, 9)}})
			case x < 10:
				ops = append(ops, Op{K: "add", C: []int{rng.Range(0, 9)}})
			case x < 11:
				ops = append(ops, Op{K: "cancel"})
			default:
				ops = append(ops, Op{K: "gadd", C: []int{rng.Range(0, 9)}, Nth: rng.Intn(5) / 4, In: randIn()})
			}
		}
		cs = append(cs, &Case{Family: "gate:random", Init: init, Ended: dedup(ended), Gate: gate, Ops: ops})
	}
	return cs
}
