// Command c20 ties the Lean model of context.Pool (lean/KitModel/Pool.lean) to the real code by
// trace inclusion and runs model-independent monitors for property C20.
//
// A case is a scenario: NewPool over some contexts (some already cancelled), then a list of
// operations (end a context, Add, Cancel, arm a trap at one of the watcher's hook points, release
// the parked watcher, race the end of a context against Add/Cancel).  After every operation the
// harness waits until the watcher goroutine is quiescent (blocked in its select, parked at a hook,
// or gone — read from the runtime's goroutine dump) and records an observation (Err()!=nil,
// Size(), watcher alive).  The event lines are replayed through `kitdrv C20`, which must accept
// every one of them.
package main

import (
	"bufio"
	"bytes"
	"context"
	"encoding/json"
	"fmt"
	"os"
	"os/exec"
	"path/filepath"
	"runtime"
	"sort"
	"strings"
	"sync"
	"sync/atomic"
	"time"

	kitctx "github.com/dapr/kit/context"
	"github.com/dapr/kit/verifhook"

	"verifharness/lib"
)

const rule = "a scenario is non-trivial when the pool was observed live at least once and observed done later (so a done transition caused by member ends or Cancel was watched); distinct = distinct (initial contexts, initially ended, pre-armed trap, operation list)"

// ---------------------------------------------------------------- cases

type Op struct {
	K  string `json:"k"`            // end | add | cancel | arm | release | race
	C  []int  `json:"c,omitempty"`  // end: contexts to end back-to-back; add: [ctx]; race: [ctx to end, ctx to add (or -1 = Cancel)]
	At string `json:"at,omitempty"` // arm: afterWait | beforeCancel
	// gated family (gate.go): gadd = Add(C[0]) parked inside the (Nth+1)-th method call the pool
	// makes on a context during that Add; In = what happens meanwhile (end | size | cancel | add)
	Nth int  `json:"nth,omitempty"`
	In  []Op `json:"in,omitempty"`
}

type Case struct {
	Family string    `json:"family"`
	Init   []int     `json:"init"`
	Ended  []int     `json:"ended"`            // contexts cancelled before NewPool
	PreArm string    `json:"prearm,omitempty"` // trap armed before NewPool
	Ops    []Op      `json:"ops"`
	Seed   uint64    `json:"seed,omitempty"` // storm: seed of the goroutines' yields
	Gate   *GateSpec `json:"gate,omitempty"` // gated family: NewPool itself parked inside one of its call-outs
}

func (c *Case) key() string {
	b, _ := json.Marshal(struct {
		I, E []int
		P    string
		O    []Op
		S    uint64
		G    *GateSpec
	}{c.Init, c.Ended, c.PreArm, c.Ops, c.Seed, c.Gate})
	return string(b)
}

// ---------------------------------------------------------------- hook trap (forced schedules)

type trap struct {
	mu        sync.Mutex
	armed     map[string]bool
	parkedAt  string
	parkedI   int
	parkedSig chan struct{}
	release   chan struct{}
	passes    map[string]int
}

var tr = &trap{armed: map[string]bool{}, passes: map[string]int{}, parkedSig: make(chan struct{}, 1)}

func hookCB(name string, args ...any) {
	if !strings.HasPrefix(name, "pool.watch.") {
		return
	}
	short := strings.TrimPrefix(name, "pool.watch.")
	tr.mu.Lock()
	tr.passes[short]++
	if !tr.armed[short] {
		tr.mu.Unlock()
		return
	}
	tr.armed[short] = false
	tr.parkedAt = short
	tr.parkedI = -1
	if len(args) > 0 {
		if i, ok := args[0].(int); ok {
			tr.parkedI = i
		}
	}
	rel := make(chan struct{})
	tr.release = rel
	tr.mu.Unlock()
	<-rel
}

func (t *trap) arm(at string) { t.mu.Lock(); t.armed[at] = true; t.mu.Unlock() }
func (t *trap) disarmAll() {
	t.mu.Lock()
	for k := range t.armed {
		t.armed[k] = false
	}
	t.mu.Unlock()
}
func (t *trap) parked() (string, int) {
	t.mu.Lock()
	defer t.mu.Unlock()
	return t.parkedAt, t.parkedI
}
func (t *trap) releaseParked() bool {
	t.mu.Lock()
	defer t.mu.Unlock()
	if t.parkedAt == "" {
		return false
	}
	t.parkedAt = ""
	close(t.release)
	return true
}

// ---------------------------------------------------------------- watcher goroutine inspection

// watchers returns the wait states of all goroutines created by context.NewPool.
func watchers() []string {
	buf := make([]byte, 1<<16)
	for {
		n := runtime.Stack(buf, true)
		if n < len(buf) {
			buf = buf[:n]
			break
		}
		buf = make([]byte, 2*len(buf))
	}
	var out []string
	for _, blk := range strings.Split(string(buf), "\n\n") {
		if !strings.Contains(blk, "created by github.com/dapr/kit/context.NewPool") {
			continue
		}
		st := "?"
		if i := strings.IndexByte(blk, '['); i >= 0 {
			if j := strings.IndexByte(blk[i:], ']'); j > 0 {
				st = blk[i+1 : i+j]
				if k := strings.IndexByte(st, ','); k >= 0 {
					st = st[:k]
				}
			}
		}
		out = append(out, st)
	}
	return out
}

const settleDeadline = 10 * time.Second

// settle waits until the (single) watcher is blocked in its select, parked by the trap, or gone.
func settle() (quiet bool, alive bool, nWatchers int) {
	t0 := time.Now()
	for spin := 0; ; spin++ {
		ws := watchers()
		at, _ := tr.parked()
		switch {
		case len(ws) == 0:
			return true, false, 0
		case len(ws) == 1 && at != "" && ws[0] == "chan receive":
			return true, true, 1
		case len(ws) == 1 && at == "" && (ws[0] == "select" || strings.HasPrefix(ws[0], "chan receive")):
			// blocked in `select { case <-ch: case <-p.closed: }` (a one-case select shows as a receive)
			return true, true, 1
		}
		if time.Since(t0) > settleDeadline {
			return false, len(ws) > 0, len(ws)
		}
		if spin < 50 {
			runtime.Gosched()
		} else {
			time.Sleep(50 * time.Microsecond)
		}
	}
}

// ---------------------------------------------------------------- running one scenario

const opDeadline = 20 * time.Second

// call runs f under recover and a deadline.
func call(f func()) string {
	done := make(chan string, 1)
	go func() {
		defer func() {
			if r := recover(); r != nil {
				done <- fmt.Sprintf("panic: %v", r)
			}
		}()
		f()
		done <- "ok"
	}()
	select {
	case s := <-done:
		return s
	case <-time.After(opDeadline):
		return "timeout"
	}
}

type ctxPair struct {
	ctx    context.Context
	cancel context.CancelFunc
	ended  bool
}

type viol struct{ id, what string }

type outcome struct {
	lines     []string
	viols     []viol
	hits      []string
	sawLive   bool
	doneAfter bool // observed done after having been observed live
	notes     []string
}

type scenario struct {
	c    *Case
	out  *outcome
	ctxs map[int]*ctxPair
	pool *kitctx.Pool

	// monitor state (independent of the Lean model)
	member       map[int]bool // definitely a member in the sense of the statement
	maybe        map[int]bool // possibly a member: its Add raced the end of a member
	offered      map[int]bool // every context ever passed to NewPool/Add
	cancelCalled bool
	expSize      int
	sizeAmbig    bool
	lateAdd      bool // the last Add was offered when every current context of the pool was done
	broken       bool
}

func (s *scenario) ctx(id int) *ctxPair {
	if p, ok := s.ctxs[id]; ok {
		return p
	}
	var p *ctxPair
	if id == 0 {
		// context.Background(): Done() is a nil channel, it never ends
		p = &ctxPair{ctx: context.Background(), cancel: func() {}}
	} else {
		c, cancel := context.WithCancel(context.Background())
		p = &ctxPair{ctx: c, cancel: cancel}
	}
	s.ctxs[id] = p
	return p
}

func (s *scenario) violate(id, what string) {
	s.out.viols = append(s.out.viols, viol{id, what})
}

func (s *scenario) liveMember() (int, bool) {
	ids := make([]int, 0, len(s.member))
	for id := range s.member {
		ids = append(ids, id)
	}
	sort.Ints(ids)
	for _, id := range ids {
		if !s.ctx(id).ended {
			return id, true
		}
	}
	return 0, false
}

func (s *scenario) liveMaybe() bool {
	for id := range s.maybe {
		if !s.ctx(id).ended {
			return true
		}
	}
	return false
}

func (s *scenario) allOfferedEnded() bool {
	for id := range s.offered {
		if !s.ctx(id).ended {
			return false
		}
	}
	return true
}

func (s *scenario) endCtx(id int) {
	p := s.ctx(id)
	if id != 0 {
		p.cancel()
		p.ended = true
	}
}

// observe settles, reads the pool and runs the monitors.
func (s *scenario) observe(after string) {
	quiet, alive, nw := settle()
	if nw > 1 {
		s.violate("watcher-leak", fmt.Sprintf("%d watcher goroutines exist although only one pool is alive (after %s)", nw, after))
	}
	at, pi := tr.parked()
	park := 0
	switch at {
	case "afterWait":
		park = 1
	case "beforeCancel":
		park = 2
	}
	var done bool
	var size int
	r := call(func() { done = s.pool.Err() != nil; size = s.pool.Size() })
	if r != "ok" {
		s.violate("op-"+strings.SplitN(r, ":", 2)[0], "Err()/Size() after "+after+": "+r)
		s.broken = true
		return
	}
	if pi < 0 {
		pi = 0
	}
	b := func(x bool) int {
		if x {
			return 1
		}
		return 0
	}
	s.out.lines = append(s.out.lines, fmt.Sprintf("obs quiet=%d park=%d pi=%d done=%d size=%d alive=%d", b(quiet), park, pi, b(done), size, b(alive)))
	if !quiet {
		s.out.hits = append(s.out.hits, "settle:timeout")
	}
	if !done {
		s.out.sawLive = true
	} else if s.out.sawLive {
		s.out.doneAfter = true
	}

	// M1 never early
	if done && !s.cancelCalled {
		if id, ok := s.liveMember(); ok {
			s.violate("done-while-member-live", fmt.Sprintf("pool context is done after %s although member ctx%d has not ended and Cancel was not called", after, id))
		}
	}
	// M2 eventually done
	if !done && park == 0 && (s.cancelCalled || s.allOfferedEnded()) {
		why := "every context ever offered has ended"
		if s.cancelCalled {
			why = "Cancel was called"
		}
		if quiet {
			s.violate("not-done-after-all-ended", fmt.Sprintf("after %s: %s, the watcher is quiescent (alive=%v) but the pool context is not done", after, why, alive))
		} else {
			s.violate("not-done-within-deadline", fmt.Sprintf("after %s: %s, but the pool context is not done after %v", after, why, settleDeadline))
		}
	}
	// M3 size
	switch {
	case s.cancelCalled:
		if size != 0 {
			s.violate("size-nonzero-after-cancel", fmt.Sprintf("Size()=%d after Cancel (after %s)", size, after))
		}
	case s.sizeAmbig:
		if size != s.expSize && size != s.expSize+1 {
			s.violate("size-mismatch", fmt.Sprintf("Size()=%d, expected %d or %d (after %s)", size, s.expSize, s.expSize+1, after))
		}
		s.expSize = size
		s.sizeAmbig = false
	default:
		if size == s.expSize+1 && s.lateAdd {
			s.violate("size-counts-late-add", fmt.Sprintf("Size()=%d counts a context that was offered when every current context of the pool was done (expected %d, after %s)", size, s.expSize, after))
			s.expSize = size
		} else if size != s.expSize {
			s.violate("size-mismatch", fmt.Sprintf("Size()=%d, expected %d tracked contexts (after %s)", size, s.expSize, after))
			s.expSize = size
		}
	}
	s.lateAdd = false
	// M4 watcher ends with the pool
	if quiet && park == 0 {
		if done && alive {
			s.violate("watcher-leak", "pool context is done but the watcher goroutine still exists (blocked) after "+after)
		}
		if !done && !alive {
			s.violate("watcher-gone-pool-live", "watcher goroutine is gone but the pool context is not done after "+after)
		}
	}
	// M6 every member has ended (and some other offered context has not): the pool must be done.
	// A context is a member only if it was passed at creation or its Add took effect while the
	// pool was live and a member was live; a context whose Add raced a member's end may be one.
	if !done && !s.cancelCalled && quiet && park == 0 && !s.allOfferedEnded() {
		if _, ok := s.liveMember(); !ok && !s.liveMaybe() {
			s.violate("late-add-tracked-after-members-ended", fmt.Sprintf("after %s: every member of the pool has ended and the watcher is quiescent, but the pool context is not done: the pool waits for a context that was offered when no member was live", after))
		}
	}
}

// doAdd calls Add(ctx id). racingEnd >= 0: the call runs concurrently with the end of that context.
func (s *scenario) doAdd(id int, racingEnd int) {
	p := s.ctx(id)
	doneBefore := s.pool.Err() != nil
	// a definite member other than the one ending concurrently is live during the whole call
	liveBefore := false
	for m := range s.member {
		if m != racingEnd && !s.ctx(m).ended {
			liveBefore = true
		}
	}
	// undecided: only the context ending concurrently, or a context whose own Add was undecided, is live
	undecided := !liveBefore && (s.liveMaybe() || (racingEnd >= 0 && s.member[racingEnd] && !s.ctx(racingEnd).ended) ||
		(racingEnd >= 0 && s.maybe[racingEnd] && !s.ctx(racingEnd).ended))
	racing := racingEnd >= 0
	r := call(func() { s.pool.Add(p.ctx) })
	if r != "ok" {
		s.violate("op-"+strings.SplitN(r, ":", 2)[0], fmt.Sprintf("Add(ctx%d): %s", id, r))
		s.broken = true
		return
	}
	doneAfter := s.pool.Err() != nil
	s.offered[id] = true
	switch {
	case s.cancelCalled:
	case doneBefore:
		// add_after_done_ignored: Size must not change
	case liveBefore:
		// pool live, a member live: the context is tracked
		s.expSize++
	case undecided:
		s.sizeAmbig = true
	default:
		// every current context of the pool is done: "the context is ignored" (doc of Add)
		s.lateAdd = true
	}
	if !doneAfter && liveBefore {
		s.member[id] = true
	} else if !doneAfter && !doneBefore && undecided && !s.member[id] {
		s.maybe[id] = true
	}
	at, _ := tr.parked()
	kind := "live"
	if p.ended {
		kind = "ended"
	}
	if id == 0 {
		kind = "background"
	}
	where := "plain"
	if at != "" {
		where = "parked@" + at
	}
	if racing {
		where = "racing"
	}
	switch {
	case doneBefore:
		where += ",pool-done"
	case s.cancelCalled:
		where += ",cancelled"
	case !liveBefore:
		where += ",no-live-member"
	default:
		where += ",member-live"
	}
	s.out.hits = append(s.out.hits, "add:"+kind+","+where)
}

func (s *scenario) doCancel() {
	r := call(func() { s.pool.Cancel() })
	if r != "ok" {
		s.violate("op-"+strings.SplitN(r, ":", 2)[0], "Cancel(): "+r)
		s.broken = true
		return
	}
	s.cancelCalled = true
}

func runCase(c *Case) *outcome {
	if c.Family == "storm" {
		return runStorm(c)
	}
	if strings.HasPrefix(c.Family, "gate") {
		return runGated(c)
	}
	out := &outcome{}
	s := &scenario{c: c, out: out, ctxs: map[int]*ctxPair{}, member: map[int]bool{}, maybe: map[int]bool{}, offered: map[int]bool{}}
	// no watcher of an earlier scenario may be around
	if q, _, n := settle(); n != 0 {
		out.notes = append(out.notes, fmt.Sprintf("stale watcher goroutines before scenario: %d quiet=%v", n, q))
	}
	tr.disarmAll()
	endedSet := map[int]bool{}
	for _, id := range c.Ended {
		endedSet[id] = true
	}
	args := make([]context.Context, 0, len(c.Init))
	for _, id := range c.Init {
		p := s.ctx(id)
		if endedSet[id] && id != 0 {
			p.cancel()
			p.ended = true
		}
		args = append(args, p.ctx)
	}
	for _, id := range c.Init {
		s.member[id] = true
		s.offered[id] = true
	}
	seen := 0
	for _, id := range c.Init {
		if !s.ctx(id).ended {
			seen++
		}
	}
	s.expSize = seen
	if c.PreArm != "" {
		tr.arm(c.PreArm)
	}
	r := call(func() { s.pool = kitctx.NewPool(args...) })
	if r != "ok" {
		s.violate("op-"+strings.SplitN(r, ":", 2)[0], "NewPool: "+r)
		return out
	}
	var endedIDs []int
	for _, id := range c.Init {
		if s.ctx(id).ended {
			endedIDs = append(endedIDs, id)
		}
	}
	out.lines = append(out.lines, fmt.Sprintf("new ctxs=%s ended=%s", nats(c.Init), nats(dedup(endedIDs))))
	s.observe("NewPool")

	for i, op := range c.Ops {
		if s.broken {
			break
		}
		name := fmt.Sprintf("op %d (%s %v %s)", i, op.K, op.C, op.At)
		switch op.K {
		case "end":
			for _, id := range op.C {
				if id == 0 || s.ctx(id).ended {
					continue
				}
				s.endCtx(id)
				out.lines = append(out.lines, fmt.Sprintf("end c=%d", id))
			}
			s.observe(name)
		case "add":
			s.doAdd(op.C[0], -1)
			if s.broken {
				break
			}
			out.lines = append(out.lines, fmt.Sprintf("add c=%d", op.C[0]))
			s.observe(name)
		case "cancel":
			s.doCancel()
			if s.broken {
				break
			}
			out.lines = append(out.lines, "cancel")
			s.observe(name)
		case "arm":
			tr.arm(op.At)
		case "release":
			if tr.releaseParked() {
				out.lines = append(out.lines, "release")
				s.observe(name)
			}
		case "race":
			// end of op.C[0] concurrently with Add(op.C[1]) (or Cancel when op.C[1] < 0)
			e, a := op.C[0], op.C[1]
			if e == 0 || s.ctx(e).ended {
				break
			}
			if a >= 0 {
				s.ctx(a) // create before racing
			}
			var wg sync.WaitGroup
			start := make(chan struct{})
			wg.Add(2)
			go func() { defer wg.Done(); <-start; s.ctx(e).cancel() }()
			go func() {
				defer wg.Done()
				<-start
				if a >= 0 {
					s.doAdd(a, e)
				} else {
					s.doCancel()
				}
			}()
			close(start)
			wg.Wait()
			s.ctx(e).ended = true
			// the two linearise in one of the two orders; the driver keeps the union
			if a >= 0 {
				out.lines = append(out.lines, fmt.Sprintf("race e=%d c=%d", e, a))
			} else {
				out.lines = append(out.lines, fmt.Sprintf("race e=%d cancel=1", e))
			}
			s.observe(name)
		}
	}

	// cleanup, also a check: release, Cancel; the pool must end and its watcher with it
	tr.disarmAll()
	if !s.broken {
		if tr.releaseParked() {
			out.lines = append(out.lines, "release")
			s.observe("final release")
		}
		if !s.broken {
			s.doCancel()
		}
		if !s.broken {
			out.lines = append(out.lines, "cancel")
			s.observe("final Cancel")
		}
	} else {
		tr.releaseParked()
	}
	for _, p := range s.ctxs {
		p.cancel()
	}
	return out
}

func nats(xs []int) string {
	ss := make([]string, len(xs))
	for i, x := range xs {
		ss[i] = lib.Itoa(x)
	}
	return strings.Join(ss, ",")
}

func dedup(xs []int) []int {
	seen := map[int]bool{}
	var out []int
	for _, x := range xs {
		if !seen[x] {
			seen[x] = true
			out = append(out, x)
		}
	}
	return out
}

// ---------------------------------------------------------------- storm: unsynchronised goroutines, monitors only
//
// The ends, the Adds, an optional Cancel and a poller run in their own goroutines with seeded
// yields between operations.  No trace is produced (the order of concurrent events is not
// observable); the monitors are phrased so that they are sound under concurrency:
//   * a context is a definite member if it was passed at creation, or if after its Add returned
//     the pool context was still live and some definite member's cancel had not even been started;
//   * never-early: the poller snapshots the definite members, then reads Err(), then reads the
//     "cancel started" flags: done ∧ Cancel not started ∧ a snapshot member whose cancel has not
//     started ⇒ violation;
//   * Size is within [0, live-at-creation + Adds started], 0 once Cancel returned;
//   * at the end (quiescent): Cancel called or every offered context ended ⇒ done and watcher gone.

func runStorm(c *Case) *outcome {
	out := &outcome{}
	if _, _, n := settle(); n != 0 {
		out.notes = append(out.notes, fmt.Sprintf("stale watcher goroutines before storm: %d", n))
	}
	tr.disarmAll()
	const maxID = 16
	type cx struct {
		ctx     context.Context
		cancel  context.CancelFunc
		started atomic.Bool // cancel() about to be called (or context already ended)
	}
	var ctxs [maxID]*cx
	for i := range ctxs {
		ctxs[i] = &cx{}
		if i == 0 {
			ctxs[i].ctx, ctxs[i].cancel = context.Background(), func() {}
		} else {
			ctxs[i].ctx, ctxs[i].cancel = context.WithCancel(context.Background())
		}
	}
	var mu sync.Mutex
	viols := map[string]string{}
	violate := func(id, what string) {
		mu.Lock()
		if _, ok := viols[id]; !ok {
			viols[id] = what
		}
		mu.Unlock()
	}
	var member, maybe [maxID]atomic.Bool
	offered := map[int]bool{}
	ended := map[int]bool{}
	for _, id := range c.Ended {
		if id > 0 && id < maxID {
			ctxs[id].started.Store(true)
			ctxs[id].cancel()
			ended[id] = true
		}
	}
	args := []context.Context{}
	liveAtCreation := 0
	for _, id := range c.Init {
		args = append(args, ctxs[id].ctx)
		member[id].Store(true)
		offered[id] = true
		if !ended[id] {
			liveAtCreation++
		}
	}
	var pool *kitctx.Pool
	if r := call(func() { pool = kitctx.NewPool(args...) }); r != "ok" {
		out.viols = append(out.viols, viol{"op-" + strings.SplitN(r, ":", 2)[0], "NewPool: " + r})
		return out
	}
	var ends, adds []int
	cancelAt := -1
	for i, op := range c.Ops {
		switch op.K {
		case "end":
			ends = append(ends, op.C...)
		case "add":
			adds = append(adds, op.C[0])
			offered[op.C[0]] = true
		case "cancel":
			cancelAt = i
		}
	}
	var cancelStarted, cancelReturned atomic.Bool
	var addsStarted atomic.Int32
	anyLiveMember := func() bool {
		for i := range member {
			if member[i].Load() && !ctxs[i].started.Load() {
				return true
			}
		}
		return false
	}
	yield := func(r *lib.Rand) {
		for n := r.Intn(4); n > 0; n-- {
			runtime.Gosched()
		}
		if r.Intn(8) == 0 {
			time.Sleep(time.Duration(r.Intn(60)) * time.Microsecond)
		}
	}
	var wg sync.WaitGroup
	stopPoll := make(chan struct{})
	run := func(seed uint64, f func(r *lib.Rand)) {
		wg.Add(1)
		go func() {
			defer wg.Done()
			defer func() {
				if r := recover(); r != nil {
					violate("op-panic", fmt.Sprint("storm goroutine: ", r))
				}
			}()
			f(lib.NewRand(seed))
		}()
	}
	run(c.Seed^1, func(r *lib.Rand) {
		for _, id := range ends {
			yield(r)
			if id == 0 {
				continue
			}
			ctxs[id].started.Store(true)
			ctxs[id].cancel()
		}
	})
	run(c.Seed^2, func(r *lib.Rand) {
		for _, id := range adds {
			yield(r)
			addsStarted.Add(1)
			pool.Add(ctxs[id].ctx)
			if pool.Err() == nil {
				if anyLiveMember() {
					member[id].Store(true)
				} else {
					// a member whose cancel had started may still have been live when the Add took effect
					maybe[id].Store(true)
				}
			}
		}
	})
	if cancelAt >= 0 {
		run(c.Seed^3, func(r *lib.Rand) {
			for i := 0; i < cancelAt; i++ {
				yield(r)
			}
			cancelStarted.Store(true)
			pool.Cancel()
			cancelReturned.Store(true)
		})
	}
	var pollWG sync.WaitGroup
	pollWG.Add(1)
	polls := 0
	go func() {
		defer pollWG.Done()
		for {
			select {
			case <-stopPoll:
				return
			default:
			}
			polls++
			var snap []int
			for i := range member {
				if member[i].Load() {
					snap = append(snap, i)
				}
			}
			cancelled := cancelStarted.Load()
			wasReturned := cancelReturned.Load()
			done := pool.Err() != nil
			if done && !cancelled && !cancelStarted.Load() {
				for _, i := range snap {
					if !ctxs[i].started.Load() {
						violate("done-while-member-live", fmt.Sprintf("storm: pool context done although member ctx%d's cancel had not started and Cancel had not been called", i))
					}
				}
			}
			size := pool.Size()
			if size < 0 || size > liveAtCreation+int(addsStarted.Load()) {
				violate("size-mismatch", fmt.Sprintf("storm: Size()=%d outside [0,%d]", size, liveAtCreation+int(addsStarted.Load())))
			}
			if wasReturned && size != 0 {
				violate("size-nonzero-after-cancel", fmt.Sprintf("storm: Size()=%d after Cancel returned", size))
			}
			runtime.Gosched()
		}
	}()
	fin := make(chan struct{})
	go func() { wg.Wait(); close(fin) }()
	select {
	case <-fin:
	case <-time.After(opDeadline):
		violate("op-timeout", "storm: Add/Cancel/ends did not finish within the deadline")
	}
	close(stopPoll)
	pollWG.Wait()
	quiet, alive, _ := settle()
	done := pool.Err() != nil
	allEnded := true
	for id := range offered {
		if !ctxs[id].started.Load() {
			allEnded = false
		}
	}
	if done {
		out.doneAfter = true
	}
	out.sawLive = true
	if !done && (cancelReturned.Load() || allEnded) {
		violate("not-done-after-all-ended", fmt.Sprintf("storm: Cancel returned=%v, every offered context ended=%v, watcher quiet=%v alive=%v, but the pool context is not done", cancelReturned.Load(), allEnded, quiet, alive))
	}
	if done && !cancelStarted.Load() {
		for i := range member {
			if member[i].Load() && !ctxs[i].started.Load() {
				violate("done-while-member-live", fmt.Sprintf("storm (final): pool context done although member ctx%d has not ended", i))
			}
		}
	}
	if quiet && !done && !cancelStarted.Load() && !allEnded {
		undecided := false
		for i := range member {
			if (member[i].Load() || maybe[i].Load()) && !ctxs[i].started.Load() {
				undecided = true
			}
		}
		if !undecided {
			violate("late-add-tracked-after-members-ended", "storm (final): every member (and every context whose Add raced a member's end) has ended, the watcher is quiescent, but the pool context is not done")
		}
	}
	if quiet && done && alive {
		violate("watcher-leak", "storm: pool context done but the watcher goroutine still exists")
	}
	if quiet && !done && !alive {
		violate("watcher-gone-pool-live", "storm: watcher gone but pool context live")
	}
	out.hits = append(out.hits, fmt.Sprintf("storm:done=%v,cancel=%v,allEnded=%v", done, cancelAt >= 0, allEnded))
	if polls > 0 {
		out.hits = append(out.hits, "storm:polled")
	}
	// cleanup
	call(func() { pool.Cancel() })
	for _, x := range ctxs {
		x.cancel()
	}
	if q, a, _ := settle(); !q || a || pool.Err() == nil {
		violate("not-done-after-all-ended", "storm cleanup: after Cancel the pool context is not done or its watcher still exists")
	}
	ids := make([]string, 0, len(viols))
	for id := range viols {
		ids = append(ids, id)
	}
	sort.Strings(ids)
	for _, id := range ids {
		out.viols = append(out.viols, viol{id, viols[id]})
	}
	return out
}

// ---------------------------------------------------------------- generators

func perms(xs []int) [][]int {
	if len(xs) <= 1 {
		return [][]int{append([]int{}, xs...)}
	}
	var out [][]int
	for i := range xs {
		rest := append(append([]int{}, xs[:i]...), xs[i+1:]...)
		for _, p := range perms(rest) {
			out = append(out, append([]int{xs[i]}, p...))
		}
	}
	return out
}

type base struct {
	init, ended, order []int
}

// bases: pools of 0..maxK initial contexts × every subset already cancelled × every order of
// cancelling the live ones.
func bases(maxK int) []base {
	var out []base
	for k := 0; k <= maxK; k++ {
		init := make([]int, k)
		for i := range init {
			init[i] = i + 1
		}
		for mask := 0; mask < 1<<k; mask++ {
			var ended, live []int
			for i := 0; i < k; i++ {
				if mask&(1<<i) != 0 {
					ended = append(ended, i+1)
				} else {
					live = append(live, i+1)
				}
			}
			for _, p := range perms(live) {
				out = append(out, base{init, ended, p})
			}
		}
	}
	return out
}

func endOps(order []int) []Op {
	var ops []Op
	for _, id := range order {
		ops = append(ops, Op{K: "end", C: []int{id}})
	}
	return ops
}

// inserted operations; contexts 5..9 are fresh ones
func inserts() map[string][]Op {
	return map[string][]Op{
		"add-live":         {{K: "add", C: []int{5}}},
		"add-ended":        {{K: "end", C: []int{6}}, {K: "add", C: []int{6}}},
		"add-background":   {{K: "add", C: []int{0}}},
		"add-duplicate":    {{K: "add", C: []int{1}}},
		"add-two":          {{K: "add", C: []int{5}}, {K: "add", C: []int{7}}},
		"cancel":           {{K: "cancel"}},
		"cancel-twice":     {{K: "cancel"}, {K: "cancel"}},
		"add-after-cancel": {{K: "cancel"}, {K: "add", C: []int{5}}},
	}
}

func insertNames() []string {
	m := inserts()
	ns := make([]string, 0, len(m))
	for n := range m {
		ns = append(ns, n)
	}
	sort.Strings(ns)
	return ns
}

// tail ends the fresh contexts so that scenarios finish with a done pool where possible
func tail() []Op { return []Op{{K: "end", C: []int{5}}, {K: "end", C: []int{7}}} }

func genCases(tier string, seed uint64, search bool) []*Case {
	var cs []*Case
	maxK := 4
	bs := bases(maxK)
	ins := inserts()
	names := insertNames()
	// F1: base scenarios, every order of cancellation
	for _, b := range bs {
		cs = append(cs, &Case{Family: "orders", Init: b.init, Ended: b.ended, Ops: endOps(b.order)})
	}
	// F1b: several contexts ending back-to-back (a shared parent), duplicates in the initial list
	for _, b := range bs {
		if len(b.order) >= 2 {
			cs = append(cs, &Case{Family: "end-together", Init: b.init, Ended: b.ended, Ops: []Op{{K: "end", C: b.order}}})
		}
	}
	cs = append(cs,
		&Case{Family: "duplicates", Init: []int{1, 1}, Ops: endOps([]int{1})},
		&Case{Family: "duplicates", Init: []int{1, 2, 1}, Ended: []int{}, Ops: endOps([]int{2, 1})},
		&Case{Family: "background", Init: []int{0}, Ops: nil},
		&Case{Family: "background", Init: []int{1, 0, 2}, Ops: endOps([]int{2, 1})},
	)
	// F2: one inserted operation at every position of every base scenario
	for _, b := range bs {
		if tier == "quick" && !search && len(b.init) == 4 && len(b.order) >= 3 {
			// the 4-context bases with ≥ 3 live members are covered by F1/F3 in the quick tier
			continue
		}
		for pos := 0; pos <= len(b.order); pos++ {
			for _, n := range names {
				ops := append([]Op{}, endOps(b.order[:pos])...)
				ops = append(ops, ins[n]...)
				ops = append(ops, endOps(b.order[pos:])...)
				ops = append(ops, tail()...)
				cs = append(cs, &Case{Family: "insert:" + n, Init: b.init, Ended: b.ended, Ops: ops})
			}
		}
	}
	// F2b (thorough): two inserted operations at every pair of positions, pools of ≤ 3 contexts
	if tier == "thorough" || search {
		shift := func(ops []Op) []Op {
			out := make([]Op, len(ops))
			for i, o := range ops {
				o2 := o
				o2.C = nil
				for _, c := range o.C {
					if c >= 5 {
						c += 5
					}
					o2.C = append(o2.C, c)
				}
				out[i] = o2
			}
			return out
		}
		for _, b := range bs {
			if len(b.init) > 3 {
				continue
			}
			for p1 := 0; p1 <= len(b.order); p1++ {
				for p2 := p1; p2 <= len(b.order); p2++ {
					for _, n1 := range names {
						for _, n2 := range names {
							ops := append([]Op{}, endOps(b.order[:p1])...)
							ops = append(ops, ins[n1]...)
							ops = append(ops, endOps(b.order[p1:p2])...)
							ops = append(ops, shift(ins[n2])...)
							ops = append(ops, endOps(b.order[p2:])...)
							ops = append(ops, tail()...)
							ops = append(ops, Op{K: "end", C: []int{10, 12}})
							cs = append(cs, &Case{Family: "insert2:" + n1 + "+" + n2, Init: b.init, Ended: b.ended, Ops: ops})
						}
					}
				}
			}
		}
	}
	// F3: forced schedules.  Park the watcher right after the select that saw member order[j] end
	// (pool.watch.afterWait), or between its last RUnlock and cancel() (pool.watch.beforeCancel),
	// run an operation there, release.
	for _, b := range bs {
		for j := range b.order {
			for _, n := range append([]string{"nothing"}, names...) {
				ops := append([]Op{}, endOps(b.order[:j])...)
				ops = append(ops, Op{K: "arm", At: "afterWait"}, Op{K: "end", C: []int{b.order[j]}})
				ops = append(ops, ins[n]...)
				ops = append(ops, Op{K: "release"})
				ops = append(ops, endOps(b.order[j+1:])...)
				ops = append(ops, tail()...)
				cs = append(cs, &Case{Family: "park-afterWait:" + n, Init: b.init, Ended: b.ended, Ops: ops})
			}
		}
		for _, n := range append([]string{"nothing"}, names...) {
			if len(b.order) == 0 {
				// zero live contexts: the watcher goes straight to its exit; trap armed before NewPool
				ops := append([]Op{}, ins[n]...)
				ops = append(ops, Op{K: "release"})
				ops = append(ops, tail()...)
				cs = append(cs, &Case{Family: "park-beforeCancel-at-creation:" + n, Init: b.init, Ended: b.ended, PreArm: "beforeCancel", Ops: ops})
				continue
			}
			m := len(b.order)
			ops := append([]Op{}, endOps(b.order[:m-1])...)
			ops = append(ops, Op{K: "arm", At: "beforeCancel"}, Op{K: "end", C: []int{b.order[m-1]}})
			ops = append(ops, ins[n]...)
			ops = append(ops, Op{K: "release"})
			ops = append(ops, tail()...)
			cs = append(cs, &Case{Family: "park-beforeCancel:" + n, Init: b.init, Ended: b.ended, Ops: ops})
			// both traps: first afterWait at the last member, an Add there, then beforeCancel after that Add's context ended
			ops2 := append([]Op{}, endOps(b.order[:m-1])...)
			ops2 = append(ops2, Op{K: "arm", At: "afterWait"}, Op{K: "end", C: []int{b.order[m-1]}}, Op{K: "add", C: []int{8}},
				Op{K: "arm", At: "beforeCancel"}, Op{K: "release"}, Op{K: "end", C: []int{8}})
			ops2 = append(ops2, ins[n]...)
			ops2 = append(ops2, Op{K: "release"})
			ops2 = append(ops2, tail()...)
			cs = append(cs, &Case{Family: "park-both:" + n, Init: b.init, Ended: b.ended, Ops: ops2})
		}
	}
	// F4: races without hooks: the end of the last live member against Add / Cancel
	rng := lib.NewRand(seed ^ 0xc20)
	nRace := 150
	nRand := 400
	if tier == "thorough" {
		nRace, nRand = 3000, 6000
	}
	if search {
		nRace, nRand = nRace*10, nRand*10
	}
	for i := 0; i < nRace; i++ {
		b := bs[rng.Intn(len(bs))]
		if len(b.order) == 0 {
			continue
		}
		m := len(b.order)
		ops := append([]Op{}, endOps(b.order[:m-1])...)
		a := 5
		switch rng.Intn(4) {
		case 0:
			a = -1
		case 1:
			ops = append(ops, Op{K: "end", C: []int{6}})
			a = 6
		}
		ops = append(ops, Op{K: "race", C: []int{b.order[m-1], a}})
		ops = append(ops, tail()...)
		cs = append(cs, &Case{Family: "race", Init: b.init, Ended: b.ended, Ops: ops})
	}
	// F6: storms (monitors only)
	nStorm := 300
	if tier == "thorough" {
		nStorm = 6000
	}
	if search {
		nStorm *= 10
	}
	for i := 0; i < nStorm; i++ {
		b := bs[rng.Intn(len(bs))]
		var ops []Op
		order := append([]int{}, b.order...)
		nAdd := rng.Range(0, 5)
		for j := 0; j < nAdd; j++ {
			id := 5 + j
			ops = append(ops, Op{K: "add", C: []int{id}})
			if rng.Intn(3) != 0 {
				order = append(order, id)
			}
		}
		// shuffle the ends
		for j := len(order) - 1; j > 0; j-- {
			k := rng.Intn(j + 1)
			order[j], order[k] = order[k], order[j]
		}
		ops = append(ops, endOps(order)...)
		if rng.Intn(5) == 0 {
			// position of the Cancel op = number of yields before it
			pos := rng.Intn(len(ops) + 1)
			ops = append(ops[:pos], append([]Op{{K: "cancel"}}, ops[pos:]...)...)
		}
		cs = append(cs, &Case{Family: "storm", Init: b.init, Ended: b.ended, Ops: ops, Seed: rng.U64()})
	}
	// F5: random operation sequences over contexts 0..9 (including malformed shapes for a pool's
	// life: operations after Cancel, release without park, arms that never trigger, duplicates)
	for i := 0; i < nRand; i++ {
		k := rng.Intn(5)
		var init, ended []int
		for j := 0; j < k; j++ {
			id := rng.Range(0, 4)
			init = append(init, id)
			if id != 0 && rng.Intn(3) == 0 {
				ended = append(ended, id)
			}
		}
		pre := ""
		if rng.Intn(6) == 0 {
			pre = []string{"afterWait", "beforeCancel"}[rng.Intn(2)]
		}
		n := rng.Range(1, 14)
		var ops []Op
		for j := 0; j < n; j++ {
			switch x := rng.Intn(20); {
			case x < 8:
				ops = append(ops, Op{K: "end", C: []int{rng.Range(1, 9)}})
			case x < 13:
				ops = append(ops, Op{K: "add", C: []int{rng.Range(0, 9)}})
			case x < 14:
				ops = append(ops, Op{K: "cancel"})
			case x < 16:
				ops = append(ops, Op{K: "arm", At: "afterWait"})
			case x < 17:
				ops = append(ops, Op{K: "arm", At: "beforeCancel"})
			case x < 19:
				ops = append(ops, Op{K: "release"})
			default:
				ops = append(ops, Op{K: "race", C: []int{rng.Range(1, 9), rng.Range(5, 9)}})
			}
		}
		cs = append(cs, &Case{Family: "random", Init: init, Ended: dedup(ended), PreArm: pre, Ops: ops})
	}
	// F8: large pools (large.go)
	cs = append(cs, genLarge(tier, seed, search)...)
	// F7: gated contexts (gate.go)
	cs = append(cs, genGated(tier, seed, search)...)
	return cs
}

// ---------------------------------------------------------------- worker processes
//
// Scenarios run in worker processes (this binary re-executed with C20_WORKER set): the hook
// callback is process-global, so one process runs one scenario at a time, and a panic in the
// pool's own goroutine — which no recover in the harness can catch — kills only the worker; the
// parent reports it as a violation with the scenario that was running.

type wireOutcome struct {
	Index     int            `json:"i"`
	Lines     []string       `json:"lines"`
	Viols     [][2]string    `json:"viols,omitempty"`
	Hits      []string       `json:"hits,omitempty"`
	Notes     []string       `json:"notes,omitempty"`
	SawLive   bool           `json:"live"`
	DoneAfter bool           `json:"done_after"`
	Tainted   bool           `json:"tainted,omitempty"` // a watcher goroutine outlived its scenario: the worker stops
	Passes    map[string]int `json:"passes,omitempty"`
}

func workerMain(path string) {
	verifhook.Set(hookCB)
	b, err := os.ReadFile(path)
	if err != nil {
		fmt.Fprintln(os.Stderr, "worker:", err)
		os.Exit(3)
	}
	var cases []*Case
	if err := json.Unmarshal(b, &cases); err != nil {
		fmt.Fprintln(os.Stderr, "worker:", err)
		os.Exit(3)
	}
	w := bufio.NewWriter(os.Stdout)
	enc := json.NewEncoder(w)
	for i, c := range cases {
		out := runCase(c)
		wo := wireOutcome{Index: i, Lines: out.lines, Hits: out.hits, Notes: out.notes, SawLive: out.sawLive, DoneAfter: out.doneAfter}
		for _, v := range out.viols {
			wo.Viols = append(wo.Viols, [2]string{v.id, v.what})
		}
		// the next scenario needs a process without pool watchers
		if _, _, n := settle(); n != 0 {
			wo.Tainted = true
		}
		tr.mu.Lock()
		wo.Passes = map[string]int{}
		for k, v := range tr.passes {
			wo.Passes[k] = v
			tr.passes[k] = 0
		}
		tr.mu.Unlock()
		enc.Encode(&wo)
		w.Flush()
		if wo.Tainted {
			return
		}
	}
}

// badLimit: after this many failing scenarios no further chunk is started.
const badLimit = 40

type ran struct {
	c       *Case
	out     *wireOutcome
	crashed string
}

// runChunk runs cases[lo:hi] in worker processes, restarting after a crash or a tainted worker.
func runChunk(work string, id int, cases []*Case, results []ran, lo, hi int, stop *int32) {
	gen := 0
	for lo < hi {
		if atomic.LoadInt32(stop) > badLimit {
			return
		}
		gen++
		path := filepath.Join(work, fmt.Sprintf("c20_chunk_%d_%d.json", id, gen))
		b, _ := json.Marshal(cases[lo:hi])
		if err := os.WriteFile(path, b, 0o644); err != nil {
			fmt.Fprintln(os.Stderr, "chunk:", err)
			os.Exit(3)
		}
		cmd := exec.Command(os.Args[0])
		cmd.Env = append(os.Environ(), "C20_WORKER="+path)
		var stderr bytes.Buffer
		cmd.Stderr = &stderr
		stdout, err := cmd.StdoutPipe()
		if err != nil || cmd.Start() != nil {
			fmt.Fprintln(os.Stderr, "worker start failed", err)
			os.Exit(3)
		}
		sc := bufio.NewScanner(stdout)
		sc.Buffer(make([]byte, 1<<20), 1<<26)
		got := 0
		tainted := false
		for sc.Scan() {
			var wo wireOutcome
			if err := json.Unmarshal(sc.Bytes(), &wo); err != nil {
				break
			}
			w := wo
			results[lo+got] = ran{c: cases[lo+got], out: &w}
			got++
			if wo.Tainted {
				tainted = true
			}
		}
		werr := cmd.Wait()
		os.Remove(path)
		if got == hi-lo {
			return
		}
		if !tainted {
			// the worker died while running cases[lo+got]
			tail := stderr.String()
			if len(tail) > 1500 {
				tail = tail[:1500]
			}
			results[lo+got] = ran{c: cases[lo+got], crashed: fmt.Sprintf("worker died (%v): %s", werr, tail)}
			got++
		}
		lo += got
	}
}

// ---------------------------------------------------------------- main

func main() {
	if p := os.Getenv("C20_WORKER"); p != "" {
		workerMain(p)
		return
	}
	fl := lib.ParseFlags()
	res := lib.NewResult(rule)

	var cases []*Case
	if fl.Replay != "" {
		b, err := os.ReadFile(fl.Replay)
		if err != nil {
			fmt.Fprintln(os.Stderr, "replay:", err)
			os.Exit(3)
		}
		var rp struct {
			Case json.RawMessage `json:"case"`
		}
		if err := json.Unmarshal(b, &rp); err != nil || rp.Case == nil {
			fmt.Fprintln(os.Stderr, "replay: no case in file", err)
			os.Exit(3)
		}
		// a case is either a scenario or {case: scenario, trace: …} (a stored disagreement)
		var c Case
		var wrapped struct {
			Case *Case `json:"case"`
		}
		if json.Unmarshal(rp.Case, &wrapped) == nil && wrapped.Case != nil {
			c = *wrapped.Case
		} else if err := json.Unmarshal(rp.Case, &c); err != nil {
			fmt.Fprintln(os.Stderr, "replay: bad case", err)
			os.Exit(3)
		}
		cases = []*Case{&c}
	} else {
		cases = genCases(fl.Tier, fl.Seed, fl.Search)
	}
	work := fl.Work
	if work == "" {
		work = os.TempDir()
	}

	results := make([]ran, len(cases))
	nw := runtime.NumCPU()
	if nw > 8 {
		nw = 8
	}
	if nw > len(cases) {
		nw = len(cases)
	}
	if nw < 1 {
		nw = 1
	}
	var stop int32
	var wg sync.WaitGroup
	// interleaved assignment would balance better, but contiguous chunks keep restarts simple;
	// chunks are small so that all workers stay busy
	chunk := 64
	next := int32(0)
	nChunks := (len(cases) + chunk - 1) / chunk
	for w := 0; w < nw; w++ {
		wg.Add(1)
		go func(w int) {
			defer wg.Done()
			for {
				k := int(atomic.AddInt32(&next, 1)) - 1
				if k >= nChunks {
					return
				}
				lo, hi := k*chunk, (k+1)*chunk
				if hi > len(cases) {
					hi = len(cases)
				}
				runChunk(work, k, cases, results, lo, hi, &stop)
				bad := 0
				for _, r := range results[lo:hi] {
					if r.crashed != "" || (r.out != nil && len(r.out.Viols) > 0) {
						bad++
					}
				}
				if bad > 0 && atomic.AddInt32(&stop, int32(bad)) > badLimit {
					return
				}
			}
		}(w)
	}
	wg.Wait()
	if atomic.LoadInt32(&stop) > badLimit {
		// enough failing scenarios: the rest of the budget is not spent
		res.Note("stopped early: more than 40 scenarios violated a monitor")
	}

	var lines []string
	var ranCases []ran
	passes := map[string]int{}
	for _, r := range results {
		if r.c == nil {
			continue // not run (stopped early)
		}
		c := r.c
		if r.crashed != "" {
			res.Count(c.key(), false)
			res.Violate("pool-goroutine-panic", "the process died while this scenario ran: "+r.crashed, c)
			continue
		}
		out := r.out
		if !traced(c, fl.Tier, fl.Replay != "") {
			// monitors only (large.go): the state-set simulation is quadratic in the pool size
			out.Lines = nil
			res.Hit("large:monitors-only")
		}
		ranCases = append(ranCases, r)
		lines = append(lines, out.Lines...)
		res.Count(c.key(), out.SawLive && out.DoneAfter)
		fam := c.Family
		if i := strings.IndexByte(fam, ':'); i >= 0 {
			fam = fam[:i]
		}
		res.Hit("family:" + fam)
		res.Hit(fmt.Sprintf("initial:%d(ended:%d)", len(c.Init), len(c.Ended)))
		for _, h := range out.Hits {
			res.Hit(h)
		}
		for _, op := range c.Ops {
			res.Hit("op:" + op.K)
		}
		for _, l := range out.Lines {
			if strings.HasPrefix(l, "obs ") && strings.Contains(l, " park=1") {
				res.Hit("parked:afterWait")
			} else if strings.HasPrefix(l, "obs ") && strings.Contains(l, " park=2") {
				res.Hit("parked:beforeCancel")
			}
			if strings.HasPrefix(l, "obs ") && strings.Contains(l, " done=1") {
				res.Hit("obs:done")
			} else if strings.HasPrefix(l, "obs ") {
				res.Hit("obs:live")
			}
		}
		for _, n := range out.Notes {
			res.Note(n)
		}
		for _, v := range out.Viols {
			res.Violate(v[0], v[1], c)
		}
		for k, v := range out.Passes {
			passes[k] += v
		}
		if len(ranCases)%601 == 1 {
			res.Sample(map[string]any{"case": c, "trace": out.Lines})
		}
	}
	for k, v := range passes {
		res.Distribution["hook-pass:"+k] = v
	}

	// kitdrv is shared: another check's `lake build` may be relinking it right now
	for i := 0; fl.Drv != "" && i < 120; i++ {
		if _, err := os.Stat(fl.Drv); err == nil {
			break
		}
		time.Sleep(500 * time.Millisecond)
	}
	drv, err := lib.StartDrv(fl.Drv, "C20")
	if err != nil {
		fmt.Fprintln(os.Stderr, "drv:", err)
		os.Exit(3)
	}
	if drv == nil {
		res.Note("model driver unavailable: monitors only")
	} else {
		answers, err := drv.AskBatch(lines)
		if err != nil {
			res.Disagree("trace-inclusion(kitdrv C20)", nil, "driver failed: "+err.Error(), "")
		} else {
			k := 0
			for _, r := range ranCases {
				rejected := false
				for i, l := range r.out.Lines {
					a := answers[k]
					k++
					if rejected {
						continue
					}
					if !strings.HasPrefix(a, "ok") {
						rejected = true
						res.Disagree("trace-inclusion: the observable trace of the real Pool must be accepted by Kit.Pool's state-set simulation",
							map[string]any{"case": r.c, "trace": r.out.Lines, "at_line": i}, a, l)
					}
				}
				if !rejected && len(r.out.Lines) > 0 {
					res.Traces++
				}
			}
		}
		drv.Close()
	}
	res.Exhaustive = fl.Replay == ""
	res.Write(fl.Out)
}
