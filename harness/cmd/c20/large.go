package main

import (
	"os"
	"strconv"
	"strings"

	"verifharness/lib"
)

// Large-pool family (round 8 follow-up).
//
// Every other family uses pools of 0..4 initial contexts plus a handful of Adds, so the pool's
// member slice never has more than ~10 entries and never reaches the sizes at which a slice
// implementation changes behaviour (growth of the backing array at len == cap, thresholds such as
// 32/64/128, compaction or reuse of slots of ended members). The watcher walks the slice by index
// and re-reads its length after every wait: anything that moves, drops or reorders entries under
// it makes it skip (or wait twice for) a member.
//
// The scenarios are ordinary Case values (Init/Ended/Ops), run by runCase with the same monitors
// and the same trace inclusion against Kit.Pool: pools created with n members for n around the
// powers of two, pools grown by Adds across those sizes, members ended in chosen orders (a prefix
// first, a suffix first, a middle block, random), an Add after every end (cap cannot be read, so
// the Add at len == cap is hit by doing one at every step; bursts of Adds walk len across the
// next capacities), a few members kept alive to the very end (in particular those right behind
// the ended prefix, where the watcher stands), then the kept ones ended one at a time.
// Context ids: initial members 1..n, added contexts n+1, n+2, …

type largeGen struct {
	rng *lib.Rand
	n   int
	ops []Op
	nxt int          // next fresh context id
	add []int        // ids of contexts added so far (live ones)
	end map[int]bool // ids ended so far
}

func (g *largeGen) doEnd(ids ...int) {
	var c []int
	for _, id := range ids {
		if !g.end[id] {
			g.end[id] = true
			c = append(c, id)
		}
	}
	if len(c) > 0 {
		g.ops = append(g.ops, Op{K: "end", C: c})
	}
}

func (g *largeGen) doAdd(k int) {
	for i := 0; i < k; i++ {
		g.ops = append(g.ops, Op{K: "add", C: []int{g.nxt}})
		g.add = append(g.add, g.nxt)
		g.nxt++
	}
}

func shuffled(rng *lib.Rand, xs []int) []int {
	out := append([]int{}, xs...)
	for j := len(out) - 1; j > 0; j-- {
		k := rng.Intn(j + 1)
		out[j], out[k] = out[k], out[j]
	}
	return out
}

func seq(lo, hi int) []int { // lo..hi inclusive
	var out []int
	for i := lo; i <= hi; i++ {
		out = append(out, i)
	}
	return out
}

// largeCase builds one scenario.
//
//	n        initial members (ids 1..n), endedAtStart of them already cancelled before NewPool
//	grow     Adds done before any member ends (walks len over the next capacities)
//	first    ids ended first (in this order), one end op each unless together
//	keep     ids kept alive until everything else (initial and added) has ended
//	addEvery an Add after every addEvery-th end (0 = none); burst = extra Adds after `first`
func largeCase(rng *lib.Rand, fam string, n int, endedAtStart []int, grow int, first []int, together bool, keep []int, addEvery, burst int, keepAdded int, cancelAtEnd bool) *Case {
	g := &largeGen{rng: rng, n: n, nxt: n + 1, end: map[int]bool{}}
	for _, id := range endedAtStart {
		g.end[id] = true
	}
	kept := map[int]bool{}
	for _, id := range keep {
		kept[id] = true
	}
	g.doAdd(grow)
	// phase 1: the chosen ids end first, an Add behind each (or one behind the block)
	if together {
		var blk []int
		for _, id := range first {
			if !kept[id] {
				blk = append(blk, id)
			}
		}
		g.doEnd(blk...)
		if addEvery > 0 {
			g.doAdd(1)
		}
	} else {
		for i, id := range first {
			if kept[id] {
				continue
			}
			g.doEnd(id)
			if addEvery > 0 && (i+1)%addEvery == 0 {
				g.doAdd(1)
			}
		}
	}
	g.doAdd(burst)
	// the first keepAdded contexts added so far are kept as well (members added while live)
	for i := 0; i < keepAdded && i < len(g.add); i++ {
		kept[g.add[i]] = true
	}
	// phase 2: everything else that is not kept ends in random order, Adds in between
	var rest []int
	for id := 1; id < g.nxt; id++ {
		if !g.end[id] && !kept[id] {
			rest = append(rest, id)
		}
	}
	rest = shuffled(rng, rest)
	for i := 0; i < len(rest); i++ {
		g.doEnd(rest[i])
		if addEvery > 0 && i%(2*addEvery+1) == 0 && len(rest)-i > 3 {
			// contexts added now are ended at the end of this phase
			g.ops = append(g.ops, Op{K: "add", C: []int{g.nxt}})
			rest = append(rest, g.nxt)
			g.nxt++
		}
	}
	// phase 3: only kept members are live. The pool must still be live; one more Add must be
	// accepted (a member is live); then the kept ones end one at a time.
	var keptIDs []int
	for id := 1; id < g.nxt; id++ {
		if kept[id] && !g.end[id] {
			keptIDs = append(keptIDs, id)
		}
	}
	if cancelAtEnd {
		g.ops = append(g.ops, Op{K: "cancel"})
	}
	if len(keptIDs) > 0 && addEvery > 0 {
		g.ops = append(g.ops, Op{K: "add", C: []int{g.nxt}})
		keptIDs = append(keptIDs, g.nxt)
		g.nxt++
	}
	for _, id := range shuffled(rng, keptIDs) {
		g.doEnd(id)
	}
	// offered after the pool ended: ignored
	g.ops = append(g.ops, Op{K: "add", C: []int{g.nxt}}, Op{K: "end", C: []int{g.nxt}})
	return &Case{Family: "large:" + fam, Init: seq(1, n), Ended: endedAtStart, Ops: g.ops}
}

var largeSizes = []int{31, 32, 33, 63, 64, 65, 128}

func genLarge(tier string, seed uint64, search bool) []*Case {
	rng := lib.NewRand(seed ^ 0x1a59e)
	thorough := tier == "thorough" || search
	var cs []*Case
	for _, n := range largeSizes {
		for _, p := range []int{1, 2, n / 4, n / 2, n - 2} {
			if p < 1 || p >= n-1 {
				continue
			}
			// a prefix of p members ends first (in index order: the watcher follows), an Add behind
			// each end; kept: the member where the watcher stands and the p members behind it
			hi := p + 1 + p
			if hi > n {
				hi = n
			}
			cs = append(cs, largeCase(rng, "prefix-keep-next", n, nil, 0, seq(1, p), false, seq(p+1, hi), 1, 0, 0, false))
			// kept: only the members behind the one where the watcher stands
			if p+2 <= hi {
				cs = append(cs, largeCase(rng, "prefix-keep-behind", n, nil, 0, seq(1, p), false, seq(p+2, hi), 1, 0, 1, false))
			}
			if !thorough && p != 1 && p != n/4 {
				continue
			}
			// the prefix ends back-to-back, one Add behind it
			cs = append(cs, largeCase(rng, "prefix-together", n, nil, 0, seq(1, p), true, seq(p+2, hi), 1, 0, 0, false))
			// the prefix ends in reverse / random order (the watcher moves only at the last one)
			rev := seq(1, p)
			for i, j := 0, len(rev)-1; i < j; i, j = i+1, j-1 {
				rev[i], rev[j] = rev[j], rev[i]
			}
			cs = append(cs, largeCase(rng, "prefix-reverse", n, nil, 0, rev, false, seq(p+2, hi), 1, 0, 0, false))
			// the pool is grown by Adds first (len walks across the next capacity), then the prefix
			cs = append(cs, largeCase(rng, "grown-prefix", n, nil, n+3, seq(1, p), false, seq(p+2, hi), 1, 2, 2, false))
			// a burst of Adds behind the prefix and no Add elsewhere
			cs = append(cs, largeCase(rng, "prefix-burst", n, nil, 0, seq(1, p), false, seq(p+2, hi), 0, n+2, 1, false))
		}
		// a suffix / a middle block ends first; kept: the last member, the first member
		cs = append(cs, largeCase(rng, "suffix", n, nil, 0, seq(n/2, n-1), false, []int{n}, 1, 0, 1, false))
		cs = append(cs, largeCase(rng, "middle", n, nil, 0, seq(n/4, n/2), false, []int{1, n/2 + 1, n}, 2, 0, 0, false))
		// some members already ended at creation (len < cap after NewPool), then Adds up to cap
		var pre []int
		for id := 2; id <= n; id += 5 {
			pre = append(pre, id)
		}
		cs = append(cs, largeCase(rng, "ended-at-creation", n, pre, len(pre)+1, seq(1, n/4), false, seq(n/4+1, n/4+3), 1, 1, 1, false))
		// Cancel while only kept members are live
		cs = append(cs, largeCase(rng, "cancel", n, nil, 1, seq(1, n/4), false, seq(n/4+2, n/2), 1, 0, 0, true))
	}
	// random: size, prefix, order, kept set, Add density
	nRand := 24
	if thorough {
		nRand = 160
	}
	for i := 0; i < nRand; i++ {
		n := largeSizes[rng.Intn(len(largeSizes))]
		if rng.Intn(4) == 0 {
			n = rng.Range(5, 140)
		}
		p := rng.Range(1, n-2)
		if rng.Intn(2) == 0 {
			p = rng.Range(1, 1+n/8)
		}
		first := seq(1, p)
		switch rng.Intn(4) {
		case 0:
			first = shuffled(rng, first)
		case 1:
			// random subset of all members, random order
			first = shuffled(rng, seq(1, n))[:p]
		}
		var keep []int
		nk := rng.Range(1, 4)
		for j := 0; j < nk; j++ {
			if rng.Intn(3) != 0 {
				// right behind the prefix
				k := p + 1 + rng.Intn(p+1)
				if k > n {
					k = n
				}
				keep = append(keep, k)
			} else {
				keep = append(keep, rng.Range(1, n))
			}
		}
		var pre []int
		if rng.Intn(4) == 0 {
			for id := 1; id <= n; id++ {
				if rng.Intn(6) == 0 {
					pre = append(pre, id)
				}
			}
		}
		grow := 0
		if rng.Intn(3) == 0 {
			grow = rng.Range(1, n+4)
		}
		burst := 0
		if rng.Intn(3) == 0 {
			burst = rng.Range(1, n+4)
		}
		cs = append(cs, largeCase(rng, "random", n, pre, grow, first, rng.Intn(5) == 0, dedup(keep), rng.Range(0, 3), burst, rng.Intn(3), rng.Intn(8) == 0))
	}
	return cs
}

// traced: is the scenario's trace sent to the model driver?  Large pools cost the state-set
// simulation time quadratic in the pool size; only the smaller ones (at most 40 initial members) are
// traced in a generated run (all of them in a replay).  The monitors run on every scenario.
func traced(c *Case, tier string, replay bool) bool {
	if !strings.HasPrefix(c.Family, "large:") || replay {
		return true
	}
	max := 40
	if v, err := strconv.Atoi(os.Getenv("C20_LARGE_TRACE_MAX")); err == nil {
		max = v
	}
	return len(c.Init) <= max
}
