// Command factgen_c13 re-extracts from /repo/concurrency/{fifo,cmap,lock} the facts the lock
// models of property C13 are written against (T1):
//
//   - per method of fifo.Map and cmap.Mutex the sequence of synchronisation-relevant events in
//     source order: acquire/release of the map lock (and in which mode), look-up / insert / delete
//     of the map, counter updates, allocation, schedule points, per-item mutex operations, branches.
//     The models take "look-up + create + count" as ONE critical section of the map lock and put the
//     item-mutex operation outside it, after the schedule point; a split section, a moved hook or a
//     reordered unlock is a changed fact.
//   - per select statement of lock.Context and lock.OuterCancel the communication cases: the models
//     return an error exactly where the code has a ctx.Done()/closeCh case.
//
// Unknown statement shapes make it exit non-zero — it never defaults.
package main

import (
	"bytes"
	"flag"
	"fmt"
	"go/ast"
	"go/parser"
	"go/printer"
	"go/token"
	"os"
	"path/filepath"
	"regexp"
	"strings"
)

var fset = token.NewFileSet()

func die(f string, a ...any) {
	fmt.Fprintf(os.Stderr, "factgen_c13: "+f+"\n", a...)
	os.Exit(1)
}

func render(n ast.Node) string {
	var b bytes.Buffer
	if err := printer.Fprint(&b, fset, n); err != nil {
		die("print: %v", err)
	}
	return strings.Join(strings.Fields(b.String()), " ")
}

func parse(repo, rel string) *ast.File {
	f, err := parser.ParseFile(fset, filepath.Join(repo, rel), nil, 0)
	if err != nil {
		die("%v", err)
	}
	return f
}

func funcs(f *ast.File) []*ast.FuncDecl {
	var out []*ast.FuncDecl
	for _, d := range f.Decls {
		if fd, ok := d.(*ast.FuncDecl); ok && fd.Body != nil {
			out = append(out, fd)
		}
	}
	return out
}

// ---- event extraction for the map-of-mutexes files ----

type rule struct {
	re *regexp.Regexp
	ev string
}

var callRules = []rule{
	{regexp.MustCompile(`^a\.lock\.Lock\(\)$`), "acqW"},
	{regexp.MustCompile(`^a\.lock\.RLock\(\)$`), "acqR"},
	{regexp.MustCompile(`^a\.lock\.Unlock\(\)$`), "relW"},
	{regexp.MustCompile(`^a\.lock\.RUnlock\(\)$`), "relR"},
	{regexp.MustCompile(`^verifhook\.Point\(.*\)$`), "hook"},
	{regexp.MustCompile(`^delete\(a\.items, key\)$`), "delete"},
	{regexp.MustCompile(`^clear\(a\.items\)$`), "clear"},
	{regexp.MustCompile(`^(m\.mutex|mutex)\.Lock\(\)$`), "itemLock"},
	{regexp.MustCompile(`^(m\.mutex|mutex)\.RLock\(\)$`), "itemRLock"},
	{regexp.MustCompile(`^(m\.mutex|mutex)\.Unlock\(\)$`), "itemUnlock"},
	{regexp.MustCompile(`^(m\.mutex|mutex)\.RUnlock\(\)$`), "itemRUnlock"},
	{regexp.MustCompile(`^mutex\.refs\.Add\(1\)$`), "inc"},
	{regexp.MustCompile(`^mutex\.refs\.Add\(-1\)$`), "dec"},
}

func callEvent(src string) (string, bool) {
	for _, r := range callRules {
		if r.re.MatchString(src) {
			return r.ev, true
		}
	}
	return "", false
}

func condEvents(where string, e ast.Expr) []string {
	src := render(e)
	switch {
	case src == "ok":
		return []string{"if:found"}
	case src == "!ok":
		return []string{"if:missing"}
	case src == "m.ilen == 0":
		return []string{"if:zero"}
	case src == "mutex.refs.Add(-1) <= 0":
		return []string{"dec", "if:zero"}
	}
	die("%s: unknown condition %q", where, src)
	return nil
}

func stmtEvents(where string, s ast.Stmt) []string {
	switch s := s.(type) {
	case *ast.ExprStmt:
		src := render(s.X)
		if ev, ok := callEvent(src); ok {
			return []string{ev}
		}
		die("%s: unknown call %q", where, src)
	case *ast.AssignStmt:
		src := render(s)
		switch {
		case regexp.MustCompile(`^(m|mutex), ok :?= a\.items\[key\]$`).MatchString(src),
			regexp.MustCompile(`^m := a\.items\[key\]$`).MatchString(src):
			return []string{"lookup"}
		case regexp.MustCompile(`^(m|mutex) = &(mapItem|mutexItem)\{.*\}$`).MatchString(src):
			return []string{"alloc"}
		case regexp.MustCompile(`^a\.items\[key\] = (m|mutex)$`).MatchString(src):
			return []string{"insert"}
		case regexp.MustCompile(`^mutex := a\.acquire\(key\)$`).MatchString(src):
			return []string{"call:acquire"}
		}
		die("%s: unknown assignment %q", where, src)
	case *ast.IncDecStmt:
		src := render(s)
		switch src {
		case "m.ilen++":
			return []string{"inc"}
		case "m.ilen--":
			return []string{"dec"}
		}
		die("%s: unknown inc/dec %q", where, src)
	case *ast.IfStmt:
		if s.Init != nil || s.Else != nil {
			die("%s: if with init/else: %q", where, render(s))
		}
		out := condEvents(where, s.Cond)
		for _, b := range s.Body.List {
			out = append(out, stmtEvents(where, b)...)
		}
		return append(out, "endif")
	case *ast.ReturnStmt:
		if len(s.Results) == 0 {
			return []string{"return"}
		}
		src := render(s)
		switch src {
		case "return mutex":
			return []string{"return"}
		case "return len(a.items)":
			return []string{"len", "return"}
		}
		die("%s: unknown return %q", where, src)
	case *ast.DeferStmt:
		if render(s.Call) == "a.lock.Unlock()" {
			return []string{"deferRelW"}
		}
		die("%s: unknown defer %q", where, render(s))
	}
	die("%s: unknown statement %q", where, render(s))
	return nil
}

func methodEvents(file string, fd *ast.FuncDecl) []string {
	var out []string
	for _, s := range fd.Body.List {
		out = append(out, stmtEvents(file+":"+fd.Name.Name, s)...)
	}
	return out
}

// ---- select cases ----

func commKind(where string, s ast.Stmt) string {
	if s == nil {
		return "default"
	}
	src := render(s)
	switch {
	case regexp.MustCompile(`^<-o\.closeCh$`).MatchString(src):
		return "recv:closeCh"
	case regexp.MustCompile(`^<-ctx\.Done\(\)$`).MatchString(src):
		return "recv:ctx.Done"
	case regexp.MustCompile(`^<-h\.rctx\.Done\(\)$`).MatchString(src):
		return "recv:hold.ctx.Done"
	case regexp.MustCompile(`^o\.ch <- &h$`).MatchString(src):
		return "send:ch"
	case regexp.MustCompile(`^h := <-o\.ch$`).MatchString(src):
		return "recv:ch"
	case regexp.MustCompile(`^resp := <-h\.respCh$`).MatchString(src):
		return "recv:respCh"
	case regexp.MustCompile(`^o\.lock <- struct\{\}\{\}$`).MatchString(src):
		return "send:lock"
	case regexp.MustCompile(`^c\.locked <- struct\{\}\{\}$`).MatchString(src):
		return "send:locked"
	case regexp.MustCompile(`^<-time\.After\(o\.gracefulTimeout\)$`).MatchString(src):
		return "recv:time.After(grace)"
	case regexp.MustCompile(`^<-doneCh$`).MatchString(src):
		return "recv:doneCh"
	}
	die("%s: unknown select case %q", where, src)
	return ""
}

func selects(file string, fd *ast.FuncDecl) [][]string {
	var out [][]string
	ast.Inspect(fd.Body, func(n ast.Node) bool {
		sel, ok := n.(*ast.SelectStmt)
		if !ok {
			return true
		}
		var cases []string
		for _, c := range sel.Body.List {
			cases = append(cases, commKind(file+":"+fd.Name.Name, c.(*ast.CommClause).Comm))
		}
		out = append(out, cases)
		return true
	})
	return out
}

// ---- fifo/mutex.go: Lock must be exactly one blocking send, Unlock exactly one receive ----

func mutexFacts(repo string, b *strings.Builder) {
	rel := "concurrency/fifo/mutex.go"
	f := parse(repo, rel)
	seen := map[string]bool{}
	for _, fd := range funcs(f) {
		name := fd.Name.Name
		var evs []string
		for _, st := range fd.Body.List {
			src := render(st)
			switch {
			case name == "New" && regexp.MustCompile(`^return &Mutex\{ lock: make\(chan struct\{\}, 1\), \}$`).MatchString(src):
				evs = append(evs, "make:cap1")
			case regexp.MustCompile(`^m\.lock <- struct\{\}\{\}$`).MatchString(src):
				evs = append(evs, "send:lock")
			case regexp.MustCompile(`^<-m\.lock$`).MatchString(src):
				evs = append(evs, "recv:lock")
			default:
				die("%s:%s: unknown statement %q (Lock must be one blocking send, Unlock one receive)", rel, name, src)
			}
		}
		seen[name] = true
		fmt.Fprintf(b, "def fifoMutex_%s : List String := %s\n", name, leanList(evs))
	}
	for _, w := range []string{"New", "Lock", "Unlock"} {
		if !seen[w] {
			die("%s: %s not found", rel, w)
		}
	}
	var names []string
	for _, fd := range funcs(f) {
		names = append(names, fd.Name.Name)
	}
	fmt.Fprintf(b, "def fifoMutex_funcs : List String := %s\n\n", leanList(names))
}

// ---- lock/context.go: every statement of Lock/RLock/Unlock/RUnlock ----
// (select shape, then the inner RWMutex operation, and what each return path does with the token)

func ctxStmt(where string, st ast.Stmt) []string {
	switch st := st.(type) {
	case *ast.SelectStmt:
		out := []string{"select"}
		for _, c := range st.Body.List {
			cc := c.(*ast.CommClause)
			out = append(out, "case:"+commKind(where, cc.Comm))
			for _, b := range cc.Body {
				out = append(out, ctxStmt(where, b)...)
			}
		}
		return append(out, "endselect")
	case *ast.ReturnStmt:
		src := render(st)
		switch src {
		case "return ctx.Err()":
			return []string{"return:ctx.Err"}
		case "return nil":
			return []string{"return:nil"}
		}
		die("%s: unknown return %q", where, src)
	case *ast.ExprStmt:
		src := render(st.X)
		switch src {
		case "c.lock.Lock()":
			return []string{"rw:Lock"}
		case "c.lock.RLock()":
			return []string{"rw:RLock"}
		case "c.lock.Unlock()":
			return []string{"rw:Unlock"}
		case "c.lock.RUnlock()":
			return []string{"rw:RUnlock"}
		case "<-c.locked":
			return []string{"recv:locked"}
		}
		die("%s: unknown statement %q", where, src)
	}
	die("%s: unknown statement %q", where, render(st))
	return nil
}

func contextFacts(repo string, b *strings.Builder) {
	rel := "concurrency/lock/context.go"
	f := parse(repo, rel)
	seen := map[string]bool{}
	var names []string
	for _, fd := range funcs(f) {
		if fd.Recv == nil {
			continue
		}
		names = append(names, fd.Name.Name)
		seen[fd.Name.Name] = true
		var evs []string
		for _, st := range fd.Body.List {
			evs = append(evs, ctxStmt(rel+":"+fd.Name.Name, st)...)
		}
		fmt.Fprintf(b, "def context_%s_body : List String := %s\n", fd.Name.Name, leanList(evs))
	}
	for _, w := range []string{"Lock", "RLock", "Unlock", "RUnlock"} {
		if !seen[w] {
			die("%s: method %s not found", rel, w)
		}
	}
	fmt.Fprintf(b, "def context_methods : List String := %s\n\n", leanList(names))
}

func leanList(xs []string) string {
	q := make([]string, len(xs))
	for i, x := range xs {
		q[i] = fmt.Sprintf("%q", x)
	}
	return "[" + strings.Join(q, ", ") + "]"
}

func main() {
	repo := flag.String("repo", "/repo", "repository root")
	out := flag.String("out", "", "output .lean file")
	flag.Parse()
	if *out == "" {
		die("--out required")
	}
	var b strings.Builder
	b.WriteString("/-! Generated by harness/cmd/factgen_c13 from concurrency/{fifo/map.go, cmap/mutex.go, lock/context.go, lock/outercancel.go}. Do not edit. -/\n")
	b.WriteString("namespace Kit.Generated.C13\n\n")

	emitMethods := func(prefix, rel string, want []string) {
		f := parse(*repo, rel)
		seen := map[string]bool{}
		for _, fd := range funcs(f) {
			if fd.Recv == nil {
				continue
			}
			seen[fd.Name.Name] = true
			fmt.Fprintf(&b, "def %s_%s : List String := %s\n", prefix, fd.Name.Name, leanList(methodEvents(rel, fd)))
		}
		for _, w := range want {
			if !seen[w] {
				die("%s: method %s not found", rel, w)
			}
		}
		var names []string
		for _, fd := range funcs(f) {
			if fd.Recv != nil {
				names = append(names, fd.Name.Name)
			}
		}
		fmt.Fprintf(&b, "def %s_methods : List String := %s\n\n", prefix, leanList(names))
	}
	mutexFacts(*repo, &b)
	emitMethods("fifoMap", "concurrency/fifo/map.go", []string{"Lock", "Unlock"})
	emitMethods("cmapMutex", "concurrency/cmap/mutex.go", []string{"acquire", "Lock", "Unlock", "RLock", "RUnlock", "Delete", "DeleteUnlock", "DeleteRUnlock", "Clear", "ItemCount"})

	emitSelects := func(prefix, rel string) {
		f := parse(*repo, rel)
		for _, fd := range funcs(f) {
			ss := selects(rel, fd)
			if len(ss) == 0 {
				continue
			}
			parts := make([]string, len(ss))
			for i, s := range ss {
				parts[i] = leanList(s)
			}
			fmt.Fprintf(&b, "def %s_%s_selects : List (List String) := [%s]\n", prefix, fd.Name.Name, strings.Join(parts, ", "))
		}
		b.WriteString("\n")
	}
	contextFacts(*repo, &b)
	emitSelects("context", "concurrency/lock/context.go")
	emitSelects("outer", "concurrency/lock/outercancel.go")

	b.WriteString("end Kit.Generated.C13\n")
	if err := os.WriteFile(*out, []byte(b.String()), 0o644); err != nil {
		die("%v", err)
	}
}
