// factgen_c11 extracts from events/broadcaster/broadcaster.go the facts the C11 model is
// parameterised by: the buffer size, and the subscriber-identity discipline — ids are read from
// the field b.currentID which is then incremented and written nowhere else, the registered entry
// carries that id, and the forwarder's removal loop compares ids and removes exactly one entry.
// Any shape it does not recognise makes it exit non-zero (the tie is then reported as broken).
package main

import (
	"flag"
	"fmt"
	"go/ast"
	"go/parser"
	"go/token"
	"go/types"
	"os"
	"path/filepath"
	"strconv"
	"strings"
)

var fset = token.NewFileSet()

func fail(n ast.Node, format string, a ...any) {
	pos := ""
	if n != nil {
		pos = fset.Position(n.Pos()).String() + ": "
	}
	fmt.Fprintf(os.Stderr, "factgen_c11: %sunknown shape: %s\n", pos, fmt.Sprintf(format, a...))
	os.Exit(1)
}

func str(e ast.Node) string { return types.ExprString(e.(ast.Expr)) }

func lowerFirst(s string) string { return strings.ToLower(s[:1]) + s[1:] }

// Subscribe and subscribe differ only in case: the Lean names are subscribeApiBody / subscribeBody.
func suffix(name string) string {
	if name == "Subscribe" {
		return "Api"
	}
	return ""
}

func quoteAll(items []string) string {
	var q []string
	for _, it := range items {
		q = append(q, strconv.Quote(it))
	}
	return strings.Join(q, ",\n  ")
}

func block(b *ast.BlockStmt) string {
	var items []string
	for _, st := range b.List {
		if c := canon(st); c != "" {
			items = append(items, c)
		}
	}
	return "{" + strings.Join(items, "; ") + "}"
}

// canon prints a statement in a canonical one-line form; verifhook.Point calls vanish; any
// statement kind not listed here is an unknown shape.
func canon(st ast.Stmt) string {
	switch n := st.(type) {
	case *ast.ExprStmt:
		if call, ok := n.X.(*ast.CallExpr); ok && str(call.Fun) == "verifhook.Point" {
			return ""
		}
		return str(n.X)
	case *ast.DeferStmt:
		if fl, ok := n.Call.Fun.(*ast.FuncLit); ok {
			return "defer func" + block(fl.Body)
		}
		return "defer " + str(n.Call)
	case *ast.GoStmt:
		fl, ok := n.Call.Fun.(*ast.FuncLit)
		if !ok {
			fail(n, "go statement without a function literal")
		}
		return "go func" + block(fl.Body)
	case *ast.IfStmt:
		if n.Init != nil || n.Else != nil {
			fail(n, "if with init or else")
		}
		return "if " + str(n.Cond) + " " + block(n.Body)
	case *ast.RangeStmt:
		k, v := "_", "_"
		if n.Key != nil {
			k = str(n.Key)
		}
		if n.Value != nil {
			v = str(n.Value)
		}
		return "for " + k + ", " + v + " := range " + str(n.X) + " " + block(n.Body)
	case *ast.ForStmt:
		if n.Init != nil || n.Cond != nil || n.Post != nil {
			fail(n, "for with clauses")
		}
		return "for " + block(n.Body)
	case *ast.SelectStmt:
		var cases []string
		for _, c := range n.Body.List {
			cc := c.(*ast.CommClause)
			if cc.Comm == nil {
				fail(cc, "select with default")
			}
			var body []string
			for _, b := range cc.Body {
				if x := canon(b); x != "" {
					body = append(body, x)
				}
			}
			cases = append(cases, "case "+canon(cc.Comm)+": "+strings.Join(body, "; "))
		}
		return "select{" + strings.Join(cases, " | ") + "}"
	case *ast.SendStmt:
		return str(n.Chan) + " <- " + str(n.Value)
	case *ast.AssignStmt:
		var l, r []string
		for _, e := range n.Lhs {
			l = append(l, str(e))
		}
		for _, e := range n.Rhs {
			r = append(r, str(e))
		}
		return strings.Join(l, ", ") + " " + n.Tok.String() + " " + strings.Join(r, ", ")
	case *ast.IncDecStmt:
		return str(n.X) + n.Tok.String()
	case *ast.ReturnStmt:
		if len(n.Results) != 0 {
			fail(n, "return with results")
		}
		return "return"
	case *ast.BranchStmt:
		return n.Tok.String()
	}
	fail(st, "statement kind %T", st)
	return ""
}

func main() {
	repo := flag.String("repo", "/repo", "")
	out := flag.String("out", "", "")
	flag.Parse()
	path := filepath.Join(*repo, "events/broadcaster/broadcaster.go")
	f, err := parser.ParseFile(fset, path, nil, 0)
	if err != nil {
		fail(nil, "%v", err)
	}
	bufSize := -1
	var subscribe *ast.FuncDecl
	for _, d := range f.Decls {
		switch d := d.(type) {
		case *ast.GenDecl:
			for _, sp := range d.Specs {
				if vs, ok := sp.(*ast.ValueSpec); ok && d.Tok == token.CONST {
					for i, n := range vs.Names {
						if n.Name == "bufferSize" {
							lit, ok := vs.Values[i].(*ast.BasicLit)
							if !ok {
								fail(vs, "bufferSize is not a literal")
							}
							bufSize, err = strconv.Atoi(lit.Value)
							if err != nil {
								fail(lit, "bufferSize %q", lit.Value)
							}
						}
					}
				}
			}
		case *ast.FuncDecl:
			if d.Name.Name == "subscribe" {
				subscribe = d
			}
		}
	}
	if bufSize < 0 {
		fail(nil, "const bufferSize not found")
	}
	if subscribe == nil {
		fail(nil, "func subscribe not found")
	}
	// every write to b.currentID in the whole file
	writes, incs := 0, 0
	ast.Inspect(f, func(n ast.Node) bool {
		switch n := n.(type) {
		case *ast.IncDecStmt:
			if str(n.X) == "b.currentID" {
				writes++
				if n.Tok == token.INC {
					incs++
				}
			}
		case *ast.AssignStmt:
			for _, l := range n.Lhs {
				if str(l) == "b.currentID" {
					writes++
				}
			}
		case *ast.UnaryExpr:
			if n.Op == token.AND && str(n.X) == "b.currentID" {
				fail(n, "address of b.currentID taken")
			}
		}
		return true
	})
	if writes != 1 || incs != 1 {
		fail(subscribe, "b.currentID must be written exactly once, by b.currentID++ (found %d writes, %d increments)", writes, incs)
	}
	// subscribe: `id := b.currentID` immediately followed by `b.currentID++`
	idIdx := -1
	for i, st := range subscribe.Body.List {
		if as, ok := st.(*ast.AssignStmt); ok && as.Tok == token.DEFINE && len(as.Lhs) == 1 && str(as.Lhs[0]) == "id" {
			if str(as.Rhs[0]) != "b.currentID" {
				fail(as, "id is not read from the counter: id := %s", str(as.Rhs[0]))
			}
			idIdx = i
		}
	}
	if idIdx < 0 || idIdx+1 >= len(subscribe.Body.List) {
		fail(subscribe, "no `id := b.currentID`")
	}
	if inc, ok := subscribe.Body.List[idIdx+1].(*ast.IncDecStmt); !ok || str(inc.X) != "b.currentID" || inc.Tok != token.INC {
		fail(subscribe.Body.List[idIdx+1], "`id := b.currentID` is not followed by `b.currentID++`")
	}
	// `id` is never reassigned
	ast.Inspect(subscribe, func(n ast.Node) bool {
		if as, ok := n.(*ast.AssignStmt); ok && as.Tok != token.DEFINE {
			for _, l := range as.Lhs {
				if str(l) == "id" {
					fail(as, "id reassigned")
				}
			}
		}
		return true
	})
	// the registered entry: b.eventChs = append(b.eventChs, &eventCh[T]{id: id, …})
	entryOK := false
	// the removal loop: for i, eventCh := range b.eventChs { if eventCh.id == id { b.eventChs = append(b.eventChs[:i], b.eventChs[i+1:]...); break } }
	removalOK := false
	ast.Inspect(subscribe, func(n ast.Node) bool {
		switch n := n.(type) {
		case *ast.CompositeLit:
			kv := map[string]string{}
			for _, el := range n.Elts {
				if e, ok := el.(*ast.KeyValueExpr); ok {
					kv[str(e.Key)] = str(e.Value)
				}
			}
			if _, ok := kv["id"]; ok {
				if kv["id"] != "id" || kv["ch"] != "bufferedCh" || kv["closeEventCh"] != "closeEventCh" || len(kv) != 3 {
					fail(n, "entry literal is %v", kv)
				}
				entryOK = true
			}
		case *ast.RangeStmt:
			if str(n.X) != "b.eventChs" || n.Key == nil || n.Value == nil {
				return true
			}
			k, v := str(n.Key), str(n.Value)
			if len(n.Body.List) != 1 {
				fail(n, "removal loop body has %d statements", len(n.Body.List))
			}
			ifs, ok := n.Body.List[0].(*ast.IfStmt)
			if !ok || ifs.Init != nil || ifs.Else != nil || str(ifs.Cond) != v+".id == id" {
				fail(n.Body.List[0], "removal loop does not test `%s.id == id`", v)
			}
			if len(ifs.Body.List) != 2 {
				fail(ifs, "removal branch has %d statements", len(ifs.Body.List))
			}
			as, ok := ifs.Body.List[0].(*ast.AssignStmt)
			want := fmt.Sprintf("append(b.eventChs[:%s], b.eventChs[%s + 1:]...)", k, k)
			if !ok || str(as.Lhs[0]) != "b.eventChs" || str(as.Rhs[0]) != want {
				fail(ifs.Body.List[0], "removal is not `b.eventChs = %s` (got %s)", want, str(as.Rhs[0]))
			}
			if br, ok := ifs.Body.List[1].(*ast.BranchStmt); !ok || br.Tok != token.BREAK {
				fail(ifs.Body.List[1], "removal is not followed by break")
			}
			removalOK = true
		}
		return true
	})
	if !entryOK {
		fail(subscribe, "no entry literal with `id: id`")
	}
	if !removalOK {
		fail(subscribe, "no removal loop over b.eventChs")
	}

	// ---- statement shapes of Subscribe, subscribe (incl. the forwarder), Broadcast, Close ----
	funcs := map[string]*ast.FuncDecl{}
	for _, d := range f.Decls {
		if fd, ok := d.(*ast.FuncDecl); ok {
			funcs[fd.Name.Name] = fd
		}
	}
	shapes := ""
	for _, name := range []string{"Subscribe", "subscribe", "Broadcast", "Close"} {
		fd := funcs[name]
		if fd == nil {
			fail(nil, "func %s not found", name)
		}
		var items []string
		for _, st := range fd.Body.List {
			if c := canon(st); c != "" {
				items = append(items, c)
			}
		}
		shapes += fmt.Sprintf("\n/-- body of `%s` (hook points and comments removed), one canonical string per statement -/\ndef %sBody : List String := [%s]\n",
			name, lowerFirst(name)+suffix(name), quoteAll(items))
	}
	src := fmt.Sprintf(`/-! GENERATED by harness/cmd/factgen_c11 from /repo/events/broadcaster/broadcaster.go — do not edit. -/
namespace Kit.Generated.C11

/-- const bufferSize -/
def bufferSize : Nat := %d

/-- subscribe: `+"`id := b.currentID`"+` immediately followed by `+"`b.currentID++`"+`; id never reassigned -/
def idFromCounter : Bool := true

/-- number of statements in the file that write b.currentID (the increment above) -/
def counterWrites : Nat := %d

/-- the entry appended to b.eventChs carries `+"`id: id`"+` -/
def entryCarriesId : Bool := true

/-- the forwarder's removal loop ranges over b.eventChs, tests `+"`eventCh.id == id`"+`, removes that one index and breaks -/
def removalByIdFirstMatch : Bool := true
%s
end Kit.Generated.C11
`, bufSize, writes, shapes)
	if *out == "" {
		fmt.Print(src)
		return
	}
	if err := os.WriteFile(*out, []byte(src), 0o644); err != nil {
		fmt.Fprintln(os.Stderr, err)
		os.Exit(2)
	}
}
