// factgen_c11 extracts from events/broadcaster/broadcaster.go the facts the C11 model is
// parameterised by: the buffer size, and the subscriber-identity discipline — ids are read from
// the field b.currentID which is then incremented and written nowhere else, the registered entry
// carries that id, and the forwarder's removal loop compares ids and removes exactly one entry.
// Any shape it does not recognise makes it exit non-zero (the tie is then reported as broken).
package main

import (
	"flag"
	"fmt"
	"go/ast"
	"go/parser"
	"go/token"
	"go/types"
	"os"
	"path/filepath"
	"strconv"
)

var fset = token.NewFileSet()

func fail(n ast.Node, format string, a ...any) {
	pos := ""
	if n != nil {
		pos = fset.Position(n.Pos()).String() + ": "
	}
	fmt.Fprintf(os.Stderr, "factgen_c11: %sunknown shape: %s\n", pos, fmt.Sprintf(format, a...))
	os.Exit(1)
}

func str(e ast.Node) string { return types.ExprString(e.(ast.Expr)) }

func main() {
	repo := flag.String("repo", "/repo", "")
	out := flag.String("out", "", "")
	flag.Parse()
	path := filepath.Join(*repo, "events/broadcaster/broadcaster.go")
	f, err := parser.ParseFile(fset, path, nil, 0)
	if err != nil {
		fail(nil, "%v", err)
	}
	bufSize := -1
	var subscribe *ast.FuncDecl
	for _, d := range f.Decls {
		switch d := d.(type) {
		case *ast.GenDecl:
			for _, sp := range d.Specs {
				if vs, ok := sp.(*ast.ValueSpec); ok && d.Tok == token.CONST {
					for i, n := range vs.Names {
						if n.Name == "bufferSize" {
							lit, ok := vs.Values[i].(*ast.BasicLit)
							if !ok {
								fail(vs, "bufferSize is not a literal")
							}
							bufSize, err = strconv.Atoi(lit.Value)
							if err != nil {
								fail(lit, "bufferSize %q", lit.Value)
							}
						}
					}
				}
			}
		case *ast.FuncDecl:
			if d.Name.Name == "subscribe" {
				subscribe = d
			}
		}
	}
	if bufSize < 0 {
		fail(nil, "const bufferSize not found")
	}
	if subscribe == nil {
		fail(nil, "func subscribe not found")
	}
	// every write to b.currentID in the whole file
	writes, incs := 0, 0
	ast.Inspect(f, func(n ast.Node) bool {
		switch n := n.(type) {
		case *ast.IncDecStmt:
			if str(n.X) == "b.currentID" {
				writes++
				if n.Tok == token.INC {
					incs++
				}
			}
		case *ast.AssignStmt:
			for _, l := range n.Lhs {
				if str(l) == "b.currentID" {
					writes++
				}
			}
		case *ast.UnaryExpr:
			if n.Op == token.AND && str(n.X) == "b.currentID" {
				fail(n, "address of b.currentID taken")
			}
		}
		return true
	})
	if writes != 1 || incs != 1 {
		fail(subscribe, "b.currentID must be written exactly once, by b.currentID++ (found %d writes, %d increments)", writes, incs)
	}
	// subscribe: `id := b.currentID` immediately followed by `b.currentID++`
	idIdx := -1
	for i, st := range subscribe.Body.List {
		if as, ok := st.(*ast.AssignStmt); ok && as.Tok == token.DEFINE && len(as.Lhs) == 1 && str(as.Lhs[0]) == "id" {
			if str(as.Rhs[0]) != "b.currentID" {
				fail(as, "id is not read from the counter: id := %s", str(as.Rhs[0]))
			}
			idIdx = i
		}
	}
	if idIdx < 0 || idIdx+1 >= len(subscribe.Body.List) {
		fail(subscribe, "no `id := b.currentID`")
	}
	if inc, ok := subscribe.Body.List[idIdx+1].(*ast.IncDecStmt); !ok || str(inc.X) != "b.currentID" || inc.Tok != token.INC {
		fail(subscribe.Body.List[idIdx+1], "`id := b.currentID` is not followed by `b.currentID++`")
	}
	// `id` is never reassigned
	ast.Inspect(subscribe, func(n ast.Node) bool {
		if as, ok := n.(*ast.AssignStmt); ok && as.Tok != token.DEFINE {
			for _, l := range as.Lhs {
				if str(l) == "id" {
					fail(as, "id reassigned")
				}
			}
		}
		return true
	})
	// the registered entry: b.eventChs = append(b.eventChs, &eventCh[T]{id: id, …})
	entryOK := false
	// the removal loop: for i, eventCh := range b.eventChs { if eventCh.id == id { b.eventChs = append(b.eventChs[:i], b.eventChs[i+1:]...); break } }
	removalOK := false
	ast.Inspect(subscribe, func(n ast.Node) bool {
		switch n := n.(type) {
		case *ast.CompositeLit:
			for _, el := range n.Elts {
				if kv, ok := el.(*ast.KeyValueExpr); ok && str(kv.Key) == "id" {
					if str(kv.Value) != "id" {
						fail(kv, "entry id is %s", str(kv.Value))
					}
					entryOK = true
				}
			}
		case *ast.RangeStmt:
			if str(n.X) != "b.eventChs" || n.Key == nil || n.Value == nil {
				return true
			}
			k, v := str(n.Key), str(n.Value)
			if len(n.Body.List) != 1 {
				fail(n, "removal loop body has %d statements", len(n.Body.List))
			}
			ifs, ok := n.Body.List[0].(*ast.IfStmt)
			if !ok || ifs.Init != nil || ifs.Else != nil || str(ifs.Cond) != v+".id == id" {
				fail(n.Body.List[0], "removal loop does not test `%s.id == id`", v)
			}
			if len(ifs.Body.List) != 2 {
				fail(ifs, "removal branch has %d statements", len(ifs.Body.List))
			}
			as, ok := ifs.Body.List[0].(*ast.AssignStmt)
			want := fmt.Sprintf("append(b.eventChs[:%s], b.eventChs[%s + 1:]...)", k, k)
			if !ok || str(as.Lhs[0]) != "b.eventChs" || str(as.Rhs[0]) != want {
				fail(ifs.Body.List[0], "removal is not `b.eventChs = %s` (got %s)", want, str(as.Rhs[0]))
			}
			if br, ok := ifs.Body.List[1].(*ast.BranchStmt); !ok || br.Tok != token.BREAK {
				fail(ifs.Body.List[1], "removal is not followed by break")
			}
			removalOK = true
		}
		return true
	})
	if !entryOK {
		fail(subscribe, "no entry literal with `id: id`")
	}
	if !removalOK {
		fail(subscribe, "no removal loop over b.eventChs")
	}
	src := fmt.Sprintf(`/-! GENERATED by harness/cmd/factgen_c11 from /repo/events/broadcaster/broadcaster.go — do not edit. -/
namespace Kit.Generated.C11

/-- const bufferSize -/
def bufferSize : Nat := %d

/-- subscribe: `+"`id := b.currentID`"+` immediately followed by `+"`b.currentID++`"+`; id never reassigned -/
def idFromCounter : Bool := true

/-- number of statements in the file that write b.currentID (the increment above) -/
def counterWrites : Nat := %d

/-- the entry appended to b.eventChs carries `+"`id: id`"+` -/
def entryCarriesId : Bool := true

/-- the forwarder's removal loop ranges over b.eventChs, tests `+"`eventCh.id == id`"+`, removes that one index and breaks -/
def removalByIdFirstMatch : Bool := true

end Kit.Generated.C11
`, bufSize, writes)
	if *out == "" {
		fmt.Print(src)
		return
	}
	if err := os.WriteFile(*out, []byte(src), 0o644); err != nil {
		fmt.Fprintln(os.Stderr, err)
		os.Exit(2)
	}
}
