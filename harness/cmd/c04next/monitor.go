package main

// Property monitor for C04 (Next half). Independent of the Lean model and of the search
// strategy in spec.go: it finds the earliest matching instant by stepping forward through
// absolute time and reading the wall clock with time.Time accessors only.

import (
	"fmt"
	"time"
)

// Sched mirrors the six bit sets of cron.SpecSchedule.
type Sched struct {
	Second, Minute, Hour, Dom, Month, Dow uint64
}

const starBit = uint64(1) << 63

func has(set uint64, v int) bool { return v >= 0 && v < 64 && set&(uint64(1)<<uint(v)) != 0 }

// dayRule is the documented rule: when either day field is unrestricted (star) both must match,
// when both are restricted either suffices.
func dayRule(s Sched, t time.Time) bool {
	dom := has(s.Dom, t.Day())
	dow := has(s.Dow, int(t.Weekday()))
	if s.Dom&starBit != 0 || s.Dow&starBit != 0 {
		return dom && dow
	}
	return dom || dow
}

// matches: whole second whose wall-clock fields in loc satisfy the schedule.
func matches(s Sched, loc *time.Location, u time.Time) bool {
	if u.Nanosecond() != 0 {
		return false
	}
	l := u.In(loc)
	return has(s.Second, l.Second()) && has(s.Minute, l.Minute()) && has(s.Hour, l.Hour()) &&
		has(s.Month, int(l.Month())) && dayRule(s, l)
}

// constFor reports whether loc's offset is constant on [u, u+d].
func constFor(l time.Time, d time.Duration) bool {
	_, end := l.ZoneBounds()
	return end.IsZero() || end.After(l.Add(d))
}

// bruteNext returns the earliest whole second strictly after t that matches, restricted to
// instants whose local year is <= localYear(t rounded up)+5 (the code's five-year limit);
// ok=false if there is none. steps reports the work done.
//
// Skipping is justified only by "the offset is constant over the skipped stretch, so the local
// date/hour/minute read at its start holds throughout"; near transitions it degrades to
// second-by-second stepping.
func bruteNext(s Sched, loc *time.Location, t time.Time) (res time.Time, ok bool, steps int) {
	u := time.Unix(t.Unix()+1, 0) // first whole second strictly after t (t.Unix() floors)
	limit := u.In(loc).Year() + 5
	// an empty set contains no field value: nothing can ever match
	if s.Second&(1<<60-1) == 0 || s.Minute&(1<<60-1) == 0 || s.Hour&(1<<24-1) == 0 || s.Month&(1<<13-2) == 0 ||
		(s.Dom&(1<<32-2) == 0 && s.Dow&(1<<7-1) == 0) {
		return time.Time{}, false, 0
	}
	for {
		steps++
		l := u.In(loc)
		if l.Year() > limit {
			return time.Time{}, false, steps
		}
		sod := l.Hour()*3600 + l.Minute()*60 + l.Second()
		if !(has(s.Month, int(l.Month())) && dayRule(s, l)) {
			// whole local day cannot match
			rest := time.Duration(86400-sod) * time.Second
			if constFor(l, rest) {
				u = u.Add(rest)
				continue
			}
		}
		if !has(s.Hour, l.Hour()) || !(has(s.Month, int(l.Month())) && dayRule(s, l)) {
			rest := time.Duration(3600-sod%3600) * time.Second
			if constFor(l, rest) {
				u = u.Add(rest)
				continue
			}
		}
		if !has(s.Minute, l.Minute()) || !has(s.Hour, l.Hour()) || !(has(s.Month, int(l.Month())) && dayRule(s, l)) {
			rest := time.Duration(60-sod%60) * time.Second
			if constFor(l, rest) {
				u = u.Add(rest)
				continue
			}
		}
		if matches(s, loc, u) {
			return u, true, steps
		}
		u = u.Add(time.Second)
	}
}

// transition is one change of UTC offset: at instant `at` (unix seconds) the offset goes from
// `before` to `after` (seconds east of UTC).
type transition struct {
	at            int64
	before, after int
}

// classOrder lists the transition classes from harmless to worst.
var classOrder = []string{"none", "wholehour", "midnight", "multihour", "offhour", "subhour", "dayskip"}

func classRank(c string) int {
	for i, x := range classOrder {
		if x == c {
			return i
		}
	}
	return 0
}

// classOf names the kind of wall-clock jump a transition makes:
//
//	dayskip    |shift| >= 20 h (a whole calendar day vanishes or repeats)
//	subhour    shift is not a multiple of 3600 s
//	offhour    whole-hour shift, but the wall clock at the transition is not at a whole hour
//	multihour  |shift| >= 2 h
//	midnight   1-hour shift whose skipped/repeated wall-clock stretch (closed interval) contains a local 00:00
//	wholehour  any other 1-hour shift
//	none       the offset does not change
func classOf(tr transition) string {
	shift := int64(tr.after - tr.before)
	abs := shift
	if abs < 0 {
		abs = -abs
	}
	lo, hi := tr.at+int64(tr.before), tr.at+int64(tr.after)
	if lo > hi {
		lo, hi = hi, lo
	}
	switch {
	case shift == 0:
		return "none"
	case abs >= 20*3600:
		return "dayskip"
	case abs%3600 != 0:
		return "subhour"
	case floorMod(tr.at+int64(tr.before), 3600) != 0:
		return "offhour"
	case abs >= 2*3600:
		return "multihour"
	case floorDiv(hi, 86400)*86400 >= lo:
		return "midnight"
	}
	return "wholehour"
}

const classRadius = 49 * time.Hour

// transitionsNear lists the offset changes of loc within classRadius of `around`
// (ZoneBounds walk in both directions).
func transitionsNear(loc *time.Location, around time.Time) []transition {
	var out []transition
	add := func(tr time.Time) {
		_, o1 := tr.Add(-time.Second).In(loc).Zone()
		_, o2 := tr.In(loc).Zone()
		out = append(out, transition{tr.Unix(), o1, o2})
	}
	cur := around.In(loc)
	for i := 0; i < 8; i++ {
		st, _ := cur.ZoneBounds()
		if st.IsZero() || around.Sub(st) > classRadius {
			break
		}
		add(st)
		cur = st.Add(-time.Second).In(loc)
	}
	cur = around.In(loc)
	for i := 0; i < 8; i++ {
		_, en := cur.ZoneBounds()
		if en.IsZero() || en.Sub(around) > classRadius {
			break
		}
		add(en)
		cur = en.In(loc)
	}
	return out
}

// shiftClass is the worst class among the transitions within 49 h of `around`.
func shiftClass(loc *time.Location, around time.Time) string {
	best := "none"
	for _, tr := range transitionsNear(loc, around) {
		if c := classOf(tr); classRank(c) > classRank(best) {
			best = c
		}
	}
	return best
}

// worstClass is the worst shiftClass over the given instants (zero times are skipped).
func worstClass(loc *time.Location, instants ...time.Time) string {
	best := "none"
	for _, x := range instants {
		if x.IsZero() {
			continue
		}
		if c := shiftClass(loc, x); classRank(c) > classRank(best) {
			best = c
		}
	}
	return best
}

// findingID builds the stable id of a failure class: dst-<class>-<mechanism>, or the bare
// mechanism when no transition is anywhere near. Mechanisms: wrong-time (the returned instant
// does not match the schedule; the description names the field; only dst-midnight-wrong-day keeps
// the field in the id), shift-missed (an earlier matching instant exists), not-after-start,
// zero-but-exists, beyond-limit, hang, panic.
func findingID(class, mech string) string {
	if class == "none" {
		if mech == "shift-missed" {
			return "missed-earlier-match"
		}
		return mech
	}
	return "dst-" + class + "-" + mech
}

func floorMod(a, b int64) int64 { return a - floorDiv(a, b)*b }

func floorDiv(a, b int64) int64 {
	q := a / b
	if a%b != 0 && (a < 0) != (b < 0) {
		q--
	}
	return q
}

// judge compares Next's answer with the brute-force answer. It returns "" when the property
// holds for this case, otherwise (findingID, description).
func judge(s Sched, loc *time.Location, t, got time.Time) (string, string) {
	want, ok, _ := bruteNext(s, loc, t)
	return judgeWant(s, loc, t, got, want, ok)
}

// judgeWant is judge with the brute-force answer (want, ok) already computed. The class in the
// finding id is the worst transition class near the start instant, the returned instant and the
// expected instant.
func judgeWant(s Sched, loc *time.Location, t, got, want time.Time, ok bool) (string, string) {
	f := time.RFC3339
	var mech, what, wrongField string
	switch {
	case got.IsZero() && !ok:
		return "", ""
	case got.IsZero() && ok:
		mech = "zero-but-exists"
		what = fmt.Sprintf("Next(%s) returned the zero time but %s matches", t.In(loc).Format(time.RFC3339Nano), want.In(loc).Format(f))
	case !ok:
		mech = "beyond-limit"
		what = fmt.Sprintf("Next(%s) returned %s, but no matching instant exists within the five-year limit", t.In(loc).Format(time.RFC3339Nano), got.In(loc).Format(time.RFC3339Nano))
	case got.Equal(want):
		return "", ""
	case !got.After(t):
		mech = "not-after-start"
		what = fmt.Sprintf("Next returned %s which is not after %s", got.In(loc).Format(time.RFC3339Nano), t.In(loc).Format(time.RFC3339Nano))
	case !matches(s, loc, got):
		l := got.In(loc)
		field := "second"
		switch {
		case !has(s.Month, int(l.Month())):
			field = "month"
		case !dayRule(s, l):
			field = "day"
		case !has(s.Hour, l.Hour()):
			field = "hour"
		case !has(s.Minute, l.Minute()):
			field = "minute"
		}
		mech = "wrong-time"
		wrongField = field
		what = fmt.Sprintf("Next(%s) returned %s whose %s does not match the schedule; earliest match is %s",
			t.In(loc).Format(time.RFC3339Nano), l.Format(time.RFC3339Nano), field, want.In(loc).Format(f))
	default:
		// got matches but an earlier matching instant exists
		mech = "shift-missed"
		what = fmt.Sprintf("Next(%s) returned %s but the earlier instant %s matches",
			t.In(loc).Format(time.RFC3339Nano), got.In(loc).Format(f), want.In(loc).Format(f))
	}
	class := worstClass(loc, t, got, want)
	if class == "midnight" && wrongField == "day" {
		mech = "wrong-day" // pre-registered id dst-midnight-wrong-day
	}
	return findingID(class, mech), what
}

// judgeAbort names the finding for a call that did not return: mech is "hang" or "panic".
func judgeAbort(loc *time.Location, t, want time.Time, ok bool, mech, detail string) (string, string) {
	w := "no matching instant exists within the limit"
	if ok {
		w = "earliest match is " + want.In(loc).Format(time.RFC3339)
	}
	return findingID(worstClass(loc, t, want), mech),
		fmt.Sprintf("Next(%s) %s; %s", t.In(loc).Format(time.RFC3339Nano), detail, w)
}
