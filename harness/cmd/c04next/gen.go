package main

// Case generation: cron field terms (rendered as text for the real parser, or turned into bit
// sets directly), schedules adjacent to a zone transition, random schedules, instants.

import (
	"strconv"
	"strings"
	"time"

	"github.com/dapr/kit/cron"

	"verifharness/lib"
)

// ---- cron fields ----

type fieldDef struct {
	min, max int
	names    []string // names[i] names value nameBase+i
	nameBase int
}

var (
	fdSec   = fieldDef{0, 59, nil, 0}
	fdMin   = fieldDef{0, 59, nil, 0}
	fdHour  = fieldDef{0, 23, nil, 0}
	fdDom   = fieldDef{1, 31, nil, 0}
	fdMonth = fieldDef{1, 12, []string{"jan", "feb", "mar", "apr", "may", "jun", "jul", "aug", "sep", "oct", "nov", "dec"}, 1}
	fdDow   = fieldDef{0, 6, []string{"sun", "mon", "tue", "wed", "thu", "fri", "sat"}, 0}
)

const (
	kStar = iota
	kQ
	kSingle
	kRange
)

// term is one comma-separated element of a cron field. step < 0 means "no /step".
type term struct {
	kind         int
	lo, hi, step int
	named        int // 0 digits, 1 lower-case name, 2 upper-case name (month/dow only)
}

type field []term

// bits is the documented meaning of a term (doc.go): ranges, steps, N/step = N-max/step,
// star bit for * and ? unless a step > 1 is given.
func (t term) bits(fd fieldDef) uint64 {
	lo, hi, step := t.lo, t.hi, 1
	var extra uint64
	switch t.kind {
	case kStar, kQ:
		lo, hi, extra = fd.min, fd.max, starBit
	case kSingle:
		hi = lo
		if t.step >= 0 {
			hi = fd.max
		}
	}
	if t.step >= 0 {
		step = t.step
		if step > 1 {
			extra = 0
		}
	}
	var b uint64
	for v := lo; v <= hi; v += step {
		b |= uint64(1) << uint(v)
	}
	return b | extra
}

func (t term) val(fd fieldDef, v int) string {
	if t.named != 0 && fd.names != nil && v-fd.nameBase >= 0 && v-fd.nameBase < len(fd.names) {
		n := fd.names[v-fd.nameBase]
		if t.named == 2 {
			n = strings.ToUpper(n)
		}
		return n
	}
	return strconv.Itoa(v)
}

func (t term) text(fd fieldDef) string {
	var s string
	switch t.kind {
	case kStar:
		s = "*"
	case kQ:
		s = "?"
	case kSingle:
		s = t.val(fd, t.lo)
	case kRange:
		s = t.val(fd, t.lo) + "-" + t.val(fd, t.hi)
	}
	if t.step >= 0 {
		s += "/" + strconv.Itoa(t.step)
	}
	return s
}

func (f field) bits(fd fieldDef) uint64 {
	var b uint64
	for _, t := range f {
		b |= t.bits(fd)
	}
	return b
}

func (f field) text(fd fieldDef) string {
	parts := make([]string, len(f))
	for i, t := range f {
		parts[i] = t.text(fd)
	}
	return strings.Join(parts, ",")
}

func single(v int) term { return term{kind: kSingle, lo: v, hi: v, step: -1} }
func star() term        { return term{kind: kStar, step: -1} }
func singles(vs ...int) field {
	f := field{}
	seen := map[int]bool{}
	for _, v := range vs {
		if !seen[v] {
			seen[v] = true
			f = append(f, single(v))
		}
	}
	return f
}

func pick(r *lib.Rand, vs []int) int { return vs[r.Intn(len(vs))] }

// randField draws a non-empty field: singleton, small list, range, steps, full range, star.
// pref are values worth hitting (used for singletons/lists half of the time).
func randField(r *lib.Rand, fd fieldDef, pref []int, allowQ bool) field {
	val := func() int {
		if len(pref) > 0 && r.Intn(2) == 0 {
			return pick(r, pref)
		}
		return r.Range(fd.min, fd.max)
	}
	name := func(t term) term {
		if fd.names != nil && r.Intn(3) == 0 {
			t.named = 1 + r.Intn(2)
		}
		return t
	}
	switch p := r.Intn(100); {
	case p < 25:
		return field{name(single(val()))}
	case p < 45:
		n := r.Range(2, 4)
		f := field{}
		for i := 0; i < n; i++ {
			if r.Intn(5) == 0 {
				a, b := val(), val()
				if a > b {
					a, b = b, a
				}
				f = append(f, name(term{kind: kRange, lo: a, hi: b, step: -1}))
			} else {
				f = append(f, name(single(val())))
			}
		}
		return f
	case p < 58:
		a, b := val(), val()
		if a > b {
			a, b = b, a
		}
		return field{name(term{kind: kRange, lo: a, hi: b, step: -1})}
	case p < 68:
		k := kStar
		if allowQ && r.Intn(4) == 0 {
			k = kQ
		}
		return field{term{kind: k, step: r.Range(1, max(2, (fd.max-fd.min)/2+3))}}
	case p < 74:
		a, b := val(), val()
		if a > b {
			a, b = b, a
		}
		return field{name(term{kind: kRange, lo: a, hi: b, step: r.Range(1, 7)})}
	case p < 79:
		return field{name(term{kind: kSingle, lo: val(), step: r.Range(1, 9)})}
	case p < 84:
		return field{term{kind: kRange, lo: fd.min, hi: fd.max, step: -1}} // full, no star
	default:
		if allowQ && r.Intn(4) == 0 {
			return field{term{kind: kQ, step: -1}}
		}
		return field{star()}
	}
}

// spec is a schedule together with where its bit sets came from.
type spec struct {
	s      Sched
	text   string // six fields (or a descriptor); "" if the sets were adjusted directly
	parsed bool   // bit sets were produced by the real parser from text
}

var theParser = cron.NewParser(cron.Second | cron.Minute | cron.Hour | cron.Dom | cron.Month | cron.Dow | cron.Descriptor)

var descriptors = []string{"@daily", "@hourly", "@weekly", "@monthly", "@yearly", "@midnight", "@annually"}

type fields6 [6]field

func (f fields6) sched() Sched {
	return Sched{f[0].bits(fdSec), f[1].bits(fdMin), f[2].bits(fdHour), f[3].bits(fdDom), f[4].bits(fdMonth), f[5].bits(fdDow)}
}

func (f fields6) text() string {
	return f[0].text(fdSec) + " " + f[1].text(fdMin) + " " + f[2].text(fdHour) + " " + f[3].text(fdDom) + " " + f[4].text(fdMonth) + " " + f[5].text(fdDow)
}

// randFields draws a random schedule. Second/minute/hour/month are never empty; dom and dow are
// never both empty.
func randFields(r *lib.Rand) fields6 {
	var f fields6
	switch r.Intn(10) {
	case 0, 1, 2, 3:
		f[0] = singles(0)
	case 4:
		f[0] = field{star()}
	default:
		f[0] = randField(r, fdSec, []int{0, 30, 59}, false)
	}
	switch r.Intn(10) {
	case 0, 1, 2:
		f[1] = singles(pick(r, []int{0, 15, 30, 45, 59}))
	case 3:
		f[1] = field{star()}
	default:
		f[1] = randField(r, fdMin, []int{0, 30, 59}, false)
	}
	f[2] = randField(r, fdHour, []int{0, 1, 2, 3, 12, 23}, false)
	f[3] = randField(r, fdDom, []int{1, 15, 28, 29, 30, 31}, true)
	f[4] = randField(r, fdMonth, []int{1, 2, 2, 3, 12}, false)
	f[5] = randField(r, fdDow, nil, true)
	switch r.Intn(20) {
	case 0, 1: // February 29/30/31: leap years only / never
		f[4] = singles(2)
		f[3] = singles(pick(r, []int{29, 30, 31}))
		f[5] = field{star()}
	case 2, 3, 4, 5: // one of the day fields starred: both must match
		if r.Bool() {
			f[3] = field{star()}
		} else {
			f[5] = field{star()}
		}
	case 6, 7: // both restricted: either suffices
		f[3] = singles(pick(r, []int{1, 13, 29, 30, 31}))
		f[5] = singles(r.Intn(7))
	case 8:
		f[4] = field{star()}
	}
	return f
}

// adjacentFields draws a schedule whose hour/minute/day/month sit right at the transition tr.
func adjacentFields(r *lib.Rand, tr transition) fields6 {
	wb := time.Unix(tr.at+int64(tr.before), 0).UTC()    // old wall clock at the transition
	wb1 := time.Unix(tr.at-1+int64(tr.before), 0).UTC() // last second of the old regime
	wa := time.Unix(tr.at+int64(tr.after), 0).UTC()     // new wall clock at the transition
	h24 := func(h int) int { return ((h % 24) + 24) % 24 }
	hours := []int{wb1.Hour(), wb.Hour(), wa.Hour(), h24(wb.Hour() - 1), h24(wb.Hour() + 1), h24(wa.Hour() - 1), h24(wa.Hour() + 1), 0, 1, 2, 23}
	mins := []int{0, 30, wb.Minute(), wa.Minute(), wb1.Minute(), 0, 0}
	dayOf := func(d time.Time, k int) int { return d.AddDate(0, 0, k).Day() }
	days := []int{dayOf(wb, -1), dayOf(wb, 0), dayOf(wa, 0), dayOf(wb, 1), dayOf(wa, 1)}
	var f fields6
	switch r.Intn(10) {
	case 0:
		f[0] = field{star()}
	case 1:
		f[0] = singles(pick(r, []int{wb.Second(), wa.Second(), 59, r.Intn(60)}))
	default:
		f[0] = singles(0)
	}
	switch r.Intn(10) {
	case 0:
		f[1] = field{star()}
	case 1:
		f[1] = singles(pick(r, mins), pick(r, mins))
	case 2:
		f[1] = field{term{kind: kStar, step: pick(r, []int{5, 15, 30})}}
	default:
		f[1] = singles(pick(r, mins))
	}
	switch r.Intn(20) {
	case 0, 1, 2:
		f[2] = field{star()}
	case 3, 4, 5, 6, 7:
		f[2] = singles(pick(r, hours), pick(r, hours))
	case 8:
		a := pick(r, hours)
		f[2] = field{term{kind: kRange, lo: min(a, 23), hi: min(a+2, 23), step: -1}}
	default:
		f[2] = singles(pick(r, hours))
	}
	switch r.Intn(10) {
	case 0, 1, 2, 3:
		f[3] = field{star()}
	case 4:
		f[3] = field{term{kind: kQ, step: -1}}
	case 5:
		f[3] = singles(pick(r, days), pick(r, days))
	default:
		f[3] = singles(pick(r, days))
	}
	m, nm := int(wb.Month()), int(wb.Month())%12+1
	switch r.Intn(10) {
	case 0, 1, 2, 3, 4:
		f[4] = field{star()}
	case 5, 6:
		f[4] = singles(m)
	case 7:
		f[4] = singles(nm)
	case 8:
		f[4] = singles(m, nm)
	default:
		f[4] = singles(int(wa.Month()))
	}
	if r.Intn(4) == 0 {
		for i := range f[4] {
			f[4][i].named = 1 + r.Intn(2)
		}
	}
	switch r.Intn(20) {
	case 0, 1:
		f[5] = singles(int(wb.Weekday()))
	case 2:
		f[5] = singles(int(wa.AddDate(0, 0, 1).Weekday()))
	case 3:
		f[5] = singles(r.Intn(7))
	case 4:
		f[5] = field{term{kind: kRange, lo: 0, hi: 6, step: -1}} // full but restricted
	case 5:
		f[5] = field{term{kind: kQ, step: -1}}
	default:
		f[5] = field{star()}
	}
	if r.Intn(4) == 0 {
		for i := range f[5] {
			if f[5][i].kind == kSingle {
				f[5][i].named = 1 + r.Intn(2)
			}
		}
	}
	return f
}

// realise turns drawn fields into a schedule: through the real parser (TZ prefix optional), or
// directly from the documented meaning, occasionally with dom/dow perturbed (junk bits, empty).
func realise(r *lib.Rand, f fields6, viaParser bool, tzName string) (sp spec, parserLoc *time.Location, note string) {
	if viaParser {
		txt := f.text()
		if r.Intn(25) == 0 {
			txt = descriptors[r.Intn(len(descriptors))]
		}
		full := txt
		if tzName != "" {
			pre := "TZ="
			if r.Intn(4) == 0 {
				pre = "CRON_TZ="
			}
			full = pre + tzName + " " + txt
		}
		sch, err := theParser.Parse(full)
		if err == nil {
			if ss, ok := sch.(*cron.SpecSchedule); ok {
				return spec{Sched{ss.Second, ss.Minute, ss.Hour, ss.Dom, ss.Month, ss.Dow}, full, true}, ss.Location, ""
			}
			note = "parser returned a non-SpecSchedule for " + full
		} else {
			note = "parser rejected generated spec " + strconv.Quote(full) + ": " + err.Error()
		}
	}
	s := f.sched()
	txt := f.text()
	switch r.Intn(40) {
	case 0: // junk bits no calendar day can hit
		s.Dom |= 1 | (r.U64() &^ (uint64(1)<<32 - 1) &^ starBit)
		txt = ""
	case 1:
		s.Dow |= r.U64() &^ 0x7f &^ starBit
		txt = ""
	case 2: // empty dom, restricted dow
		if s.Dow&^starBit&0x7f != 0 {
			s.Dom = 0
			txt = ""
		}
	case 3:
		if s.Dom&^starBit != 0 {
			s.Dow = 0
			txt = ""
		}
	case 4: // star bit alone decides the rule: full set with/without it
		s.Dom ^= starBit
		txt = ""
	}
	return spec{s, txt, false}, nil, note
}

// ---- instants ----

func jitter(r *lib.Rand) time.Duration {
	switch r.Intn(5) {
	case 0:
		return 0
	case 1:
		return time.Duration(r.Intn(60)) * time.Minute
	case 2:
		return time.Duration(r.Intn(3600)) * time.Second
	case 3:
		return time.Duration(r.Intn(3600))*time.Second + time.Duration(1+r.Intn(999999999))
	default:
		return time.Duration(r.Intn(60))*time.Minute + time.Duration(1+r.Intn(999999999))
	}
}

// instantNear draws a start instant around transition tr: an hour mark from -26h to +26h plus
// jitter, or the transition itself +-1s / -1ns.
func instantNear(r *lib.Rand, tr transition) time.Time {
	base := time.Unix(tr.at, 0)
	if r.Intn(7) == 0 {
		switch r.Intn(6) {
		case 0:
			return base
		case 1:
			return base.Add(-time.Second)
		case 2:
			return base.Add(time.Second)
		case 3:
			return base.Add(-1)
		case 4:
			return base.Add(-time.Second - time.Duration(r.Intn(999999999)))
		default:
			return base.Add(-2 * time.Second)
		}
	}
	return base.Add(time.Duration(r.Range(-26, 26))*time.Hour + jitter(r))
}

func isLeap(y int) bool { return y%4 == 0 && (y%100 != 0 || y%400 == 0) }

// instantFixed draws an instant for a fixed-offset zone: random in 2001-2037, or a calendar edge
// (end of month/year, Feb 28/29 of leap and common years) within 1990-2080.
func instantFixed(r *lib.Rand, loc *time.Location) time.Time {
	if r.Intn(5) != 0 {
		lo := time.Date(2001, 1, 1, 0, 0, 0, 0, time.UTC).Unix()
		hi := time.Date(2038, 1, 1, 0, 0, 0, 0, time.UTC).Unix()
		sec := lo + int64(r.U64()%uint64(hi-lo))
		var ns int64
		if r.Intn(3) != 0 {
			ns = int64(r.Intn(1000000000))
		}
		return time.Unix(sec, ns)
	}
	y := r.Range(1990, 2079)
	var t time.Time
	switch r.Intn(6) {
	case 0: // last second of the year
		t = time.Date(y, 12, 31, 23, 59, 59, 0, loc)
	case 1: // last seconds of a month
		t = time.Date(y, time.Month(r.Range(1, 12))+1, 1, 0, 0, 0, 0, loc).Add(-time.Duration(r.Range(1, 3)) * time.Second)
	case 2: // Feb 28
		t = time.Date(y, 2, 28, r.Intn(24), r.Intn(60), r.Intn(60), 0, loc)
	case 3: // Feb 29 of a leap year (or Mar 1 otherwise)
		for !isLeap(y) {
			y--
		}
		t = time.Date(y, 2, 29, r.Intn(24), r.Intn(60), r.Intn(60), 0, loc)
	case 4: // exact midnight
		t = time.Date(y, time.Month(r.Range(1, 12)), r.Range(1, 28), 0, 0, 0, 0, loc)
	default: // end of a day
		t = time.Date(y, time.Month(r.Range(1, 12)), r.Range(1, 31), 23, 59, r.Range(58, 59), 0, loc)
	}
	if r.Intn(3) == 0 {
		t = t.Add(time.Duration(r.Intn(1000000000)))
	}
	return t
}
