// Harness for the Next half of property C04 (cron/spec.go SpecSchedule.Next, cron/constantdelay.go).
//
// It calls the REAL Next in-process (each call under recover and a 2 s deadline), sends the same
// case to the Lean model (`kitdrv C04 next`: zone transition table + six bit sets + start instant)
// and compares the answers as instants. Independently of the model it judges every answer against
// a brute-force oracle (monitor.go: earliest whole second after t whose wall-clock fields in the
// schedule's zone match, within the five-year limit), and classifies failures by the kind of zone
// transition nearby: finding id = dst-<class>-<mechanism> with class in dayskip, subhour, offhour,
// multihour, midnight, wholehour (none: bare mechanism) and mechanism in wrong-time, shift-missed,
// not-after-start, zero-but-exists, beyond-limit, hang, panic (see monitor.go). Further monitors:
// result-location (the answer is in the argument's location), result-not-whole-second,
// every-delay-rounding, every-next.
//
// Generation: (1) UTC and fixed offsets, random schedules, random and calendar-edge instants;
// (2) for every zone and every offset change in the tier's years: start instants from -26 h to
// +26 h around the change (and days to weeks ahead of it), schedules whose hour/minute/day/month
// sit at the wall clock just before/after the change, a fifth random schedules; 30 % of the
// schedules go through the real parser ("TZ=<zone> <six fields>" or a descriptor); t is passed in
// the zone, in UTC or in a third zone; (3) constant delays; (4) civil/date lines near the changes.
// Two fixed probe cases sit on the Pacific/Apia day skip of 2011-12-30.
//
// Also tied: the model's zone/calendar layer itself (`civil` = time.Time accessors, `date` =
// time.Date including normalisation of out-of-range fields and gap/overlap resolution) and the
// constant-delay schedule (`every`, `everyd`).
//
// Case kinds in result/replay files:
//
//	{"kind":"next","zone":Z,"sched":[sec,min,hour,dom,month,dow as decimal strings],
//	 "t_unix_ns":"...","t_loc":Z2,"sched_location_local":bool,"spec":"source text if any"}
//	{"kind":"civil","zone":Z,"t_unix":"..."}   {"kind":"date","zone":Z,"date":[y,m,d,h,mi,s]}
//	{"kind":"every","delay_ns":"...","t_unix_ns":"...","t_loc":Z}   {"kind":"everyd","delay_ns":"..."}
//
// Zone names: "UTC", "fixed:<seconds east>", or an IANA name.
package main

import (
	_ "embed"
	"encoding/json"
	"fmt"
	"os"
	"path/filepath"
	"runtime"
	"sort"
	"strconv"
	"strings"
	"sync"
	"time"
	_ "time/tzdata"

	"verifharness/lib"
)

//go:embed zones.txt
var zonesTxt string

const rule = "a next case is non-trivial if the answer differs from t rounded up to the next second (some loop had to advance) — or is zero"

var quickZones = []string{
	"America/Havana", "America/Santiago", "Africa/Cairo", "Asia/Beirut", "America/Sao_Paulo", "America/Asuncion",
	"Asia/Amman", "Asia/Tehran", "Asia/Gaza", "Australia/Lord_Howe", "Asia/Kathmandu", "Pacific/Chatham",
	"Pacific/Apia", "Asia/Pyongyang", "America/Caracas", "Antarctica/Troll", "America/New_York", "Europe/London",
	"Europe/Berlin", "Australia/Sydney", "America/St_Johns", "Asia/Kolkata", "Africa/Casablanca",
	"America/Scoresbysund", "Atlantic/Azores", "Pacific/Auckland", "Asia/Tokyo",
	"America/Los_Angeles", "America/Mexico_City", "Europe/Dublin", "Asia/Damascus", "Asia/Jerusalem",
	"America/Nuuk", "Pacific/Norfolk", "Pacific/Fiji", "America/Campo_Grande", "Europe/Istanbul", "Africa/Juba",
	"Europe/Volgograd", "Pacific/Easter", "Antarctica/Casey", "Australia/Adelaide", "Europe/Chisinau",
}

var fixedOffsets = []int{0, 3600, -3600, 7200, -10800, -18000, 28800, -28800, 32400, 39600, -39600,
	19800, 20700, -34200, 45900, 50400, -43200}

var otherLocs = []string{"America/New_York", "Asia/Kolkata", "fixed:20700", "Pacific/Auckland", "fixed:-34200"}

type config struct {
	zones              []string
	y0, y1             int
	nextDST, nextFixed int
	civil, every       int
	noTrans            int // next cases per zone window without any transition
	model              bool
	empty              []string // empty-set probes (each runs Next into the five-year limit)
}

func tierConfig(f lib.Flags, res *lib.Result) config {
	all := []string{}
	for _, l := range strings.Split(zonesTxt, "\n") {
		if l = strings.TrimSpace(l); l != "" && !strings.HasPrefix(l, "#") {
			all = append(all, l)
		}
	}
	var c config
	switch {
	case f.Search:
		c = config{zones: all, y0: 2005, y1: 2040, nextDST: 660000, nextFixed: 60000, civil: 0, every: 40000, noTrans: 8}
	case f.Tier == "thorough":
		c = config{zones: all, y0: 1970, y1: 2100, nextDST: 800000, nextFixed: 40000, civil: 50000, every: 20000, noTrans: 4,
			empty: []string{"month", "days", "hour", "minute", "second"}}
	default:
		c = config{zones: quickZones, y0: 2015, y1: 2026, nextDST: 150000, nextFixed: 20000, civil: 15000, every: 5000, noTrans: 40,
			empty: []string{"month", "days", "hour", "minute"}}
	}
	ok := c.zones[:0:0]
	for _, z := range c.zones {
		if _, err := resolveLoc(z); err != nil {
			res.Note("zone skipped (does not load): " + z + ": " + err.Error())
			continue
		}
		ok = append(ok, z)
	}
	c.zones = ok
	return c
}

// windows splits [y0,y1] into spans of at most three years whose model table stays small.
func windows(loc *time.Location, y0, y1 int) [][2]int {
	var out [][2]int
	for y := y0; y <= y1; y += 3 {
		e := min(y+2, y1)
		ws, we := window(time.Date(y, 1, 1, 0, 0, 0, 0, time.UTC).Add(-48*time.Hour), time.Date(e+1, 1, 1, 0, 0, 0, 0, time.UTC).Add(48*time.Hour))
		if len(buildTable(loc, ws, we)) > maxTable && e > y {
			for k := y; k <= e; k++ {
				out = append(out, [2]int{k, k})
			}
			continue
		}
		out = append(out, [2]int{y, e})
	}
	return out
}

// enumerate lays out all groups deterministically from the seed (their cases are generated
// later, each from its own forked stream).
func enumerate(c config, r *lib.Rand, res *lib.Result) []*group {
	var groups []*group
	// (1) fixed-offset zones
	nf := len(fixedOffsets) + 1
	per := c.nextFixed / nf
	for i := 0; i < nf; i++ {
		name := "UTC"
		if i > 0 {
			name = "fixed:" + strconv.Itoa(fixedOffsets[i-1])
		}
		loc, _ := resolveLoc(name)
		for left := per; left > 0; left -= 500 {
			groups = append(groups, &group{kind: gFixed, zone: name, loc: loc, y0: 1990, y1: 2079,
				table: []tabEnt{{0, offsetOf(loc)}}, nNext: min(left, 500), nCivil: fixedCivil(c, nf, min(left, 500), per),
				r: r.Fork(), others: otherLocs})
		}
	}
	// (2) zones with transitions
	span0 := time.Date(c.y0-2, 1, 1, 0, 0, 0, 0, time.UTC)
	span1 := time.Date(c.y1+10, 1, 1, 0, 0, 0, 0, time.UTC)
	{
		var wg sync.WaitGroup
		sem := make(chan struct{}, runtime.NumCPU())
		for _, z := range c.zones {
			loc, _ := resolveLoc(z)
			wg.Add(1)
			sem <- struct{}{}
			go func() {
				defer wg.Done()
				prescan(loc, span0, span1)
				<-sem
			}()
		}
		wg.Wait()
		// cross-check the scan against ZoneBounds where the latter is reliable
		chk1 := time.Date(min(c.y1+10, 2037), 1, 1, 0, 0, 0, 0, time.UTC)
		bad := 0
		for _, z := range c.zones {
			loc, _ := resolveLoc(z)
			a, b := buildTable(loc, span0, chk1), zoneBoundsTable(loc, span0, chk1)
			same := len(a) == len(b)
			for i := 0; same && i < len(a); i++ {
				same = a[i] == b[i]
			}
			if !same {
				bad++
				res.Note(fmt.Sprintf("zone table self-check: offset scan and ZoneBounds walk differ for %s (%d vs %d periods)", z, len(a), len(b)))
			}
		}
		if bad == 0 {
			res.Note(fmt.Sprintf("zone table self-check: offset scan = ZoneBounds walk for all %d zones over %d..%d", len(c.zones), c.y0-2, min(c.y1+10, 2037)))
		}
	}
	var dst []*group
	ntr := 0
	maxTab := 0
	for _, z := range c.zones {
		loc, _ := resolveLoc(z)
		for _, w := range windows(loc, c.y0, c.y1) {
			first := time.Date(w[0], 1, 1, 0, 0, 0, 0, time.UTC)
			last := time.Date(w[1]+1, 1, 1, 0, 0, 0, 0, time.UTC)
			ws, we := window(first.Add(-48*time.Hour), last.Add(48*time.Hour))
			g := &group{kind: gDST, zone: z, loc: loc, y0: w[0], y1: w[1], table: buildTable(loc, ws, we), others: otherLocs}
			maxTab = max(maxTab, len(g.table))
			for _, tr := range tableTransitions(g.table) {
				cl := classOf(tr)
				if cl == "dayskip" && !walkDayskips {
					g.dayskips = append(g.dayskips, tr.at)
				}
				if tr.at < first.Unix() || tr.at >= last.Unix() || cl == "none" {
					continue
				}
				if cl == "dayskip" && !walkDayskips {
					res.Note(fmt.Sprintf("%s: day-skip transition at %s excluded from the transition walk (probe cases only)", z, time.Unix(tr.at, 0).UTC().Format(time.RFC3339)))
					continue
				}
				g.trs = append(g.trs, tr)
			}
			ntr += len(g.trs)
			dst = append(dst, g)
		}
	}
	// budget per transition; sample transitions if there are too many
	nNo := 0
	for _, g := range dst {
		if len(g.trs) == 0 {
			nNo++
		}
	}
	budget := c.nextDST - nNo*c.noTrans
	perTr, keep := 0, 1.0
	if ntr > 0 {
		perTr = budget / ntr
		if perTr < 12 {
			keep = float64(budget) / float64(12*ntr)
			perTr = 12
		}
		perTr = min(perTr, 80)
	}
	civPerTr := 0
	if ntr > 0 && c.civil > 0 {
		civPerTr = max(1, int(float64(c.civil)*0.85/(float64(ntr)*keep)))
	}
	kept := 0
	for _, g := range dst {
		if keep < 1 {
			sel := g.trs[:0:0]
			for _, tr := range g.trs {
				if float64(r.U64()%1000000)/1e6 < keep {
					sel = append(sel, tr)
				}
			}
			g.trs = sel
		}
		kept += len(g.trs)
		g.perTr, g.civPerTr = perTr, civPerTr
		if len(g.trs) == 0 {
			g.nNext = c.noTrans
			if c.civil > 0 {
				g.nCivil = 2
			}
		} else {
			g.nNext = max(1, perTr/10) // plus a few random instants inside the window
		}
		g.r = r.Fork()
		groups = append(groups, g)
	}
	res.Note(fmt.Sprintf("layout: %d zones, years %d-%d, %d zone windows, %d transitions (%d used, %d next cases each), largest model zone table %d entries",
		len(c.zones), c.y0, c.y1, len(dst), ntr, kept, perTr, maxTab))
	// (3) constant delay
	for left := c.every; left > 0; left -= 2000 {
		groups = append(groups, &group{kind: gEvery, zone: "UTC", loc: time.UTC, nEvery: min(left, 2000), r: r.Fork(), others: otherLocs})
	}
	// (3b) empty-set probes: UTC gets all of them, one hour zone the cheap ones
	if len(c.empty) > 0 {
		groups = append(groups, &group{kind: gEmpty, zone: "UTC", loc: time.UTC, y0: 2021, y1: 2021,
			table: []tabEnt{{0, 0}}, r: r.Fork(), emptyFields: c.empty})
		if loc, err := resolveLoc("America/New_York"); err == nil {
			cheap := []string{}
			for _, f := range c.empty {
				if f != "second" {
					cheap = append(cheap, f)
				}
			}
			t := time.Date(2021, 3, 4, 0, 0, 0, 0, time.UTC)
			ws, we := window(t, t)
			groups = append(groups, &group{kind: gEmpty, zone: "America/New_York", loc: loc, y0: 2021, y1: 2021,
				table: buildTable(loc, ws, we), r: r.Fork(), emptyFields: cheap})
		}
	}
	// (4) the two deliberate day-skip probes
	if loc, err := resolveLoc("Pacific/Apia"); err == nil {
		t := time.Date(2011, 12, 29, 0, 0, 0, 0, time.UTC)
		ws, we := window(t, t)
		groups = append(groups, &group{kind: gProbe, zone: "Pacific/Apia", loc: loc, y0: 2011, y1: 2011, table: buildTable(loc, ws, we), r: r.Fork()})
	}
	return groups
}

func fixedCivil(c config, nf, n, per int) int {
	if c.civil == 0 {
		return 0
	}
	return max(1, c.civil/10/nf*n/per)
}

func offsetOf(loc *time.Location) int {
	_, off := time.Unix(0, 0).In(loc).Zone()
	return off
}

// ---- reporting ----

func (it *item) caseJSON(zone string) map[string]any {
	c := map[string]any{"kind": it.kind}
	switch it.kind {
	case "next":
		s := it.sp.s
		c["zone"] = zone
		c["sched"] = []string{u(s.Second), u(s.Minute), u(s.Hour), u(s.Dom), u(s.Month), u(s.Dow)}
		c["t_unix_ns"] = strconv.FormatInt(it.t.UnixNano(), 10)
		c["t_loc"] = it.tLoc
		if it.local {
			c["sched_location_local"] = true
		}
		if it.sp.text != "" {
			c["spec"] = it.sp.text
		}
		c["t"] = it.t.Format(time.RFC3339Nano)
	case "civil":
		c["zone"] = zone
		c["t_unix"] = strconv.FormatInt(it.unix, 10)
	case "date":
		c["zone"] = zone
		c["date"] = it.date[:]
	case "every":
		c["delay_ns"] = strconv.FormatInt(it.delay, 10)
		c["t_unix_ns"] = strconv.FormatInt(it.t.UnixNano(), 10)
		c["t_loc"] = it.tLoc
	case "everyd":
		c["delay_ns"] = strconv.FormatInt(it.delay, 10)
	}
	return c
}

func u(x uint64) string { return strconv.FormatUint(x, 10) }

// advanced names the coarsest wall-clock field that differs between the first candidate second
// and the answer.
func advanced(loc *time.Location, t, got time.Time) string {
	a := time.Unix(t.Unix()+1, 0).In(loc)
	b := got.In(loc)
	switch {
	case a.Year() != b.Year() || a.Month() != b.Month():
		return "month"
	case a.Day() != b.Day():
		return "day"
	case a.Hour() != b.Hour():
		return "hour"
	case a.Minute() != b.Minute():
		return "minute"
	case a.Second() != b.Second():
		return "second"
	case !a.Equal(b):
		return "repeated-wall-clock"
	}
	return "none"
}

func agree(model, impl string) bool {
	return model == impl || (model == "fuel" && impl == "timeout")
}

type sampler struct {
	res  *lib.Result
	seen map[string]int
}

// offer keeps at most four next cases (of different zone/transition classes) and one case of each
// other kind.
func (s *sampler) offer(tag string, v any) {
	if s.seen[tag] >= 1 {
		return
	}
	if strings.HasPrefix(tag, "zone:") {
		if s.seen["#next"] >= 4 {
			return
		}
		s.seen["#next"]++
	}
	s.seen[tag]++
	s.res.Sample(v)
}

// report walks the groups in order and fills the result (sequential, so deterministic).
func report(groups []*group, res *lib.Result) {
	sm := &sampler{res, map[string]int{}}
	for _, g := range groups {
		for _, n := range g.notes {
			res.Note(n)
		}
		if g.drvErr != "" {
			res.Disagree(corrNext, map[string]any{"kind": "driver", "zone": g.zone, "years": []int{g.y0, g.y1}}, "driver error: "+g.drvErr, "")
		}
		zc := "zone:dst"
		switch {
		case g.kind == gFixed:
			zc = "zone:fixed"
		case g.kind == gDST && len(g.trs) == 0:
			zc = "zone:iana-no-transition-in-window"
		case g.kind == gProbe:
			zc = "zone:dayskip-probe"
		case g.kind == gEmpty:
			zc = "zone:empty-set-probe"
		}
		thm := "theorem:" + theoremClass(g.table)
		for _, it := range g.items {
			if it.slow {
				res.Hit("empty-set:" + strings.TrimPrefix(it.sp.text, "empty "))
				res.Note(fmt.Sprintf("empty-set probe (%s, %s empty): real Next answered %s after %s; model %q",
					g.zone, strings.TrimPrefix(it.sp.text, "empty "), it.impl, it.dur.Round(time.Microsecond), it.model))
			}
			if it.kind == "next" && it.skipped == "" {
				res.Hit(thm)
			}
			c := it.caseJSON(g.zone)
			if it.skipped != "" {
				res.Hit("skipped:" + it.skipped)
				continue
			}
			for _, v := range it.vids {
				id, what := v[0], v[1]
				// The recorded (known) DST findings are identified by the behaviour of the code as it is: the
				// model reproduces it (and the translated Next is proved equal to the model). A wrong answer in
				// one of those zone classes that is NOT the model's answer is a different violation.
				for _, cls := range []string{"dst-subhour-", "dst-offhour-", "dst-multihour-"} {
					if strings.HasPrefix(id, cls) && it.kind == "next" && it.model != "" && it.model != it.impl {
						id += "-not-the-recorded-behaviour"
						what += fmt.Sprintf(" [the code as recorded (model) answers %q here, this tree answers %q]", it.model, it.impl)
						break
					}
				}
				res.Hit("finding:" + id)
				res.Violate(id, what, c)
			}
			switch it.kind {
			case "next":
				key := g.zone + "|" + strings.Join(c["sched"].([]string), ",") + "|" + c["t_unix_ns"].(string)
				nontriv := it.impl == "zero" || (strings.HasPrefix(it.impl, "at ") && it.got.Unix() != it.t.Unix()+1)
				res.Count(key, nontriv)
				res.Hit(zc)
				res.Hit("class:" + it.class)
				res.Hit("answer:" + strings.SplitN(it.impl, " ", 2)[0])
				if strings.HasPrefix(it.impl, "at ") {
					res.Hit("advance:" + advanced(g.loc, it.t, it.got))
				}
				switch {
				case it.sp.parsed && strings.Contains(it.sp.text, "@"):
					res.Hit("spec:parser-descriptor")
				case it.sp.parsed:
					res.Hit("spec:parser-derived")
				default:
					res.Hit("spec:direct")
				}
				if it.sp.s.Dom&starBit != 0 || it.sp.s.Dow&starBit != 0 {
					res.Hit("rule:both")
				} else {
					res.Hit("rule:either")
				}
				if it.t.Nanosecond() == 0 {
					res.Hit("nanos:zero")
				} else {
					res.Hit("nanos:non-zero")
				}
				switch {
				case it.local:
					res.Hit("tloc:schedule-location-local")
				case it.tLoc == g.zone:
					res.Hit("tloc:same")
				case it.tLoc == "UTC":
					res.Hit("tloc:utc")
				default:
					res.Hit("tloc:other-zone")
				}
				if it.asked {
					res.Traces++
					res.Hit("model:" + strings.SplitN(it.model, " ", 2)[0])
					if !agree(it.model, it.impl) {
						res.Hit("disagree:next")
						res.Disagree(corrNext, c, it.model, it.impl)
					}
				}
				if it.asked2 {
					res.Traces++
					res.Hit("composed:parse-then-next")
					want := it.impl
					if strings.HasPrefix(want, "at ") {
						want += "000000000"
					}
					if !agree(it.model2, want) {
						res.Hit("disagree:pnext")
						res.Disagree(corrPNext, c, it.model2, want)
					}
				}
				tag := zc + "/" + it.class
				if it.sp.parsed {
					tag += "/parsed"
				}
				sm.offer(tag, map[string]any{"case": c, "impl": it.impl, "model": it.model, "oracle": oracleText(it)})
			default:
				res.Count(it.kind+"|"+g.zone+"|"+it.line, false)
				res.Hit(it.kind)
				if it.asked {
					res.Traces++
					if it.model != it.impl {
						res.Hit("disagree:" + it.kind)
						corr := corrEvery
						switch it.kind {
						case "civil":
							corr = corrCivil
						case "date":
							corr = corrDate
						}
						res.Disagree(corr, c, it.model, it.impl)
					}
				}
				if it.kind == "date" {
					d := it.date
					if d[1] < 1 || d[1] > 12 || d[2] < 1 || d[2] > 28 || d[3] < 0 || d[3] > 23 {
						res.Hit("date:out-of-range-field")
					}
				}
				sm.offer(it.kind, map[string]any{"case": c, "impl": it.impl, "model": it.model})
			}
		}
	}
}

func oracleText(it *item) string {
	if !it.wantOK {
		return "zero"
	}
	return "at " + strconv.FormatInt(it.want.Unix(), 10)
}

// ---- replay ----

type replayFile struct {
	Property  string          `json:"property"`
	FindingID string          `json:"finding_id"`
	Case      json.RawMessage `json:"case"`
}

type replayCase struct {
	Kind    string   `json:"kind"`
	Zone    string   `json:"zone"`
	Sched   []string `json:"sched"`
	TNs     string   `json:"t_unix_ns"`
	TLoc    string   `json:"t_loc"`
	Local   bool     `json:"sched_location_local"`
	Spec    string   `json:"spec"`
	TUnix   string   `json:"t_unix"`
	Date    []int    `json:"date"`
	DelayNs string   `json:"delay_ns"`
}

// caseGroup turns a stored case (replay file or corpus file) into a one-item group.
func caseGroup(raw json.RawMessage) (*group, *item, error) {
	var err error
	var rc replayCase
	if err := json.Unmarshal(raw, &rc); err != nil {
		return nil, nil, fmt.Errorf("replay case: %w", err)
	}
	if rc.Zone == "" {
		rc.Zone = "UTC"
	}
	loc, err := resolveLoc(rc.Zone)
	if err != nil {
		return nil, nil, err
	}
	g := &group{kind: gDST, zone: rc.Zone, loc: loc}
	it := &item{kind: rc.Kind}
	var anchor time.Time
	switch rc.Kind {
	case "next":
		if len(rc.Sched) != 6 {
			return nil, nil, fmt.Errorf("replay: sched needs six sets")
		}
		var v [6]uint64
		for i, s := range rc.Sched {
			if v[i], err = strconv.ParseUint(s, 10, 64); err != nil {
				return nil, nil, err
			}
		}
		ns, err := strconv.ParseInt(rc.TNs, 10, 64)
		if err != nil {
			return nil, nil, err
		}
		tl := loc
		if rc.TLoc != "" && !rc.Local {
			if tl, err = resolveLoc(rc.TLoc); err != nil {
				return nil, nil, err
			}
		} else {
			rc.TLoc = rc.Zone
		}
		it.sp = spec{s: Sched{v[0], v[1], v[2], v[3], v[4], v[5]}, text: rc.Spec}
		it.t, it.tLoc, it.local, it.probe = time.Unix(0, ns).In(tl), rc.TLoc, rc.Local, true
		anchor = it.t
	case "civil":
		if it.unix, err = strconv.ParseInt(rc.TUnix, 10, 64); err != nil {
			return nil, nil, err
		}
		anchor = time.Unix(it.unix, 0)
	case "date":
		if len(rc.Date) != 6 {
			return nil, nil, fmt.Errorf("replay: date needs six fields")
		}
		copy(it.date[:], rc.Date)
		anchor = time.Date(rc.Date[0], 6, 1, 0, 0, 0, 0, time.UTC)
	case "every", "everyd":
		g.kind = gEvery
		if it.delay, err = strconv.ParseInt(rc.DelayNs, 10, 64); err != nil {
			return nil, nil, err
		}
		if rc.Kind == "every" {
			ns, err := strconv.ParseInt(rc.TNs, 10, 64)
			if err != nil {
				return nil, nil, err
			}
			tl := time.UTC
			if rc.TLoc != "" {
				if l, err := resolveLoc(rc.TLoc); err == nil {
					tl = l
				}
			}
			it.t, it.tLoc = time.Unix(0, ns).In(tl), rc.TLoc
		}
	default:
		return nil, nil, fmt.Errorf("replay: unknown case kind %q", rc.Kind)
	}
	if g.kind != gEvery {
		ws, we := window(anchor.Add(-48*time.Hour), anchor.Add(48*time.Hour))
		g.table = buildTable(loc, ws, we)
	}
	g.items = []*item{it}
	g.pregen = true
	return g, it, nil
}

// corpusGroups loads $VERIF_DIR/corpus/C04Next/*.json (past findings and disagreements, one
// `case` object per file); they are run before the generated cases on every run.
func corpusGroups(res *lib.Result) []*group {
	dir := os.Getenv("VERIF_DIR")
	if dir == "" {
		dir = "/verif"
	}
	files, _ := filepath.Glob(filepath.Join(dir, "corpus", "C04Next", "*.json"))
	sort.Strings(files)
	var out []*group
	for _, fn := range files {
		b, err := os.ReadFile(fn)
		if err != nil {
			res.Note("corpus: " + err.Error())
			continue
		}
		g, _, err := caseGroup(b)
		if err != nil {
			res.Note("corpus: " + fn + ": " + err.Error())
			continue
		}
		res.Hit("corpus-case")
		out = append(out, g)
	}
	return out
}

func replay(f lib.Flags, res *lib.Result) error {
	b, err := os.ReadFile(f.Replay)
	if err != nil {
		return err
	}
	var rf replayFile
	if err := json.Unmarshal(b, &rf); err != nil {
		return err
	}
	g, it, err := caseGroup(rf.Case)
	if err != nil {
		return err
	}
	pool, closeAll := startPool(f.Drv, 1, res)
	defer closeAll()
	g.run(pool)
	report([]*group{g}, res)
	res.Note(fmt.Sprintf("replay of %s/%s: impl=%s model=%q oracle=%s", rf.Property, rf.FindingID, it.impl, it.model, oracleText(it)))
	return nil
}

func startPool(path string, n int, res *lib.Result) (chan *lib.Drv, func()) {
	if path == "" {
		return nil, func() {}
	}
	pool := make(chan *lib.Drv, n)
	for i := 0; i < n; i++ {
		d, err := lib.StartDrv(path, "C04", "next")
		if err != nil || d == nil {
			fmt.Fprintln(os.Stderr, "c04next: cannot start model driver:", err)
			os.Exit(2)
		}
		pool <- d
	}
	return pool, func() {
		for i := 0; i < n; i++ {
			if d := <-pool; d != nil {
				d.Close()
			}
		}
	}
}

func main() {
	f := lib.ParseFlags()
	res := lib.NewResult(rule)
	if f.Replay != "" {
		if err := replay(f, res); err != nil {
			fmt.Fprintln(os.Stderr, "c04next: replay:", err)
			os.Exit(2)
		}
		res.Write(f.Out)
		return
	}
	if f.Search {
		f.Drv = ""
	}
	start := time.Now()
	c := tierConfig(f, res)
	groups := append(corpusGroups(res), enumerate(c, lib.NewRand(f.Seed), res)...)
	workers := runtime.NumCPU()
	pool, closeAll := startPool(f.Drv, max(1, min(8, workers/2)), res)
	runAll(groups, pool, workers)
	closeAll()
	report(groups, res)
	if f.Drv == "" {
		res.Note("model driver not given: monitors only")
	}
	if n := globalTimeouts.Load(); n > 2 {
		res.Note(fmt.Sprintf("%d calls of Next timed out in total (2 are the deliberate Pacific/Apia probes)", n))
	}
	if n := slowCalls.Load(); n > 0 {
		res.Note(fmt.Sprintf("%d calls of Next exceeded %s but returned (slowest retry %s)", n, callDeadline, time.Duration(slowestCall.Load()).Round(time.Millisecond)))
	}
	res.Note(fmt.Sprintf("wall time %.1fs", time.Since(start).Seconds()))
	res.Write(f.Out)
	os.Exit(0) // do not wait for goroutines stuck in a non-terminating Next
}
