package main

// Groups of cases (one zone + one time window each), their execution against the real code
// (under recover and a deadline), the oracle, and the model driver.

import (
	"fmt"
	"runtime"
	"strconv"
	"strings"
	"sync"
	"sync/atomic"
	"time"

	"github.com/dapr/kit/cron"

	"verifharness/lib"
)

const (
	corrNext  = "C04Next.next: model next = SpecSchedule.Next"
	corrPNext = "C04Bridge.pnext: model Parse then model Next = Parser.Parse then SpecSchedule.Next"
	corrCivil = "C04Next.civil: model civil = time.Time accessors"
	corrDate  = "C04Next.date: model goDate = time.Date"
	corrEvery = "C04Next.every: model everyNext/everyDelay = ConstantDelaySchedule.Next/Every"

	callDeadline     = 2 * time.Second
	slowDeadline     = 120 * time.Second
	maxGroupTimeouts = 3
	maxTable         = 40

	// walkDayskips: generate cases around transitions that skip or repeat a whole calendar day
	// (Pacific/Apia and Pacific/Fakaofo, 2011-12-30) like around any other transition. Before the
	// repo fix "cron Next never returned where the next local day does not exist" the real code
	// spun forever there; set this to false to restrict such zone windows to the two probe cases
	// (cases whose search would cross the day-skip are then skipped as "dayskip-hazard").
	walkDayskips = true
)

// maxGlobalTimeouts: a timed-out call cannot be killed and keeps a core busy; once this many
// calls have timed out no further next cases are started.
var maxGlobalTimeouts = int64(max(3, min(12, runtime.NumCPU()/2)))

// ---- locations ----

var (
	locMu    sync.Mutex
	locCache = map[string]*time.Location{}
)

// resolveLoc maps a zone name of a case ("UTC", "fixed:<seconds east>", IANA name) to a
// *time.Location; the same name always yields the same pointer.
func resolveLoc(name string) (*time.Location, error) {
	locMu.Lock()
	defer locMu.Unlock()
	if l, ok := locCache[name]; ok {
		return l, nil
	}
	var l *time.Location
	switch {
	case name == "UTC":
		l = time.UTC
	case strings.HasPrefix(name, "fixed:"):
		off, err := strconv.Atoi(name[len("fixed:"):])
		if err != nil {
			return nil, err
		}
		l = time.FixedZone(fmt.Sprintf("fixed%+d", off), off)
	default:
		var err error
		if l, err = time.LoadLocation(name); err != nil {
			return nil, err
		}
	}
	locCache[name] = l
	return l, nil
}

// ---- zone tables for the model ----

type tabEnt struct {
	start int64
	off   int
}

// scanTransitions finds the offset changes of loc in (from, to] by sampling the offset every six
// hours and bisecting. (ZoneBounds is not used here: past the last transition stored in the zone
// file it reports artificial year boundaries and, at the end of leap years, an interval that does
// not contain the instant asked about.)
func scanTransitions(loc *time.Location, from, to time.Time) []transition {
	offAt := func(u int64) int {
		_, o := time.Unix(u, 0).In(loc).Zone()
		return o
	}
	const step = 6 * 3600
	var out []transition
	prev, prevOff := from.Unix(), offAt(from.Unix())
	for u := prev + step; prev < to.Unix(); u = prev + step {
		if u > to.Unix() {
			u = to.Unix()
		}
		if offAt(u) == prevOff {
			prev = u
			continue
		}
		lo, hi := prev, u
		for hi-lo > 1 {
			mid := lo + (hi-lo)/2
			if offAt(mid) == prevOff {
				lo = mid
			} else {
				hi = mid
			}
		}
		o := offAt(hi)
		out = append(out, transition{hi, prevOff, o})
		prev, prevOff = hi, o
	}
	return out
}

type zoneScan struct {
	from, to time.Time
	trs      []transition
}

var (
	scanMu    sync.Mutex
	scanCache = map[*time.Location]*zoneScan{}
)

// prescan caches the transitions of loc over [from, to] for buildTable.
func prescan(loc *time.Location, from, to time.Time) {
	z := &zoneScan{from, to, scanTransitions(loc, from, to)}
	scanMu.Lock()
	scanCache[loc] = z
	scanMu.Unlock()
}

// buildTable lists loc's offset periods covering [ws, we]: the first entry is the period
// containing ws (its start is reported as ws), then one entry per offset change up to we.
func buildTable(loc *time.Location, ws, we time.Time) []tabEnt {
	scanMu.Lock()
	z := scanCache[loc]
	scanMu.Unlock()
	var trs []transition
	if z != nil && !ws.Before(z.from) && !we.After(z.to) {
		trs = z.trs
	} else {
		trs = scanTransitions(loc, ws, we)
	}
	_, off := ws.In(loc).Zone()
	tab := []tabEnt{{ws.Unix(), off}}
	for _, tr := range trs {
		if tr.at > ws.Unix() && tr.at <= we.Unix() {
			tab = append(tab, tabEnt{tr.at, tr.after})
		}
	}
	return tab
}

// zoneBoundsTable is the same table obtained from time.Time.ZoneBounds; used as a cross-check of
// scanTransitions where ZoneBounds is reliable (instants before 2037).
func zoneBoundsTable(loc *time.Location, ws, we time.Time) []tabEnt {
	_, off := ws.In(loc).Zone()
	tab := []tabEnt{{ws.Unix(), off}}
	cur := ws
	for i := 0; i < 4000; i++ {
		_, en := cur.In(loc).ZoneBounds()
		if en.IsZero() || en.After(we) || !en.After(cur) {
			break
		}
		_, o := en.In(loc).Zone()
		if o != tab[len(tab)-1].off {
			tab = append(tab, tabEnt{en.Unix(), o})
		}
		cur = en
	}
	return tab
}

// theoremClass says which Lean theorem covers `next` on this zone table: "fixed" (one entry,
// offset a multiple of 60 s: next_post_fixed), "hour-zone" (Lean's `hourTable` check:
// whole-hour offsets within ±26 h, transitions on whole UTC hours, each by exactly one hour, at
// least 1801 h apart: next_dst_tables), or "tie-only".
func theoremClass(tab []tabEnt) string {
	if len(tab) == 0 {
		return "tie-only"
	}
	if len(tab) == 1 {
		if tab[0].off%60 == 0 {
			return "fixed"
		}
		return "tie-only"
	}
	c := ((tab[0].off % 3600) + 3600) % 3600 // constant sub-hour part of the offsets
	for i, e := range tab {
		if ((e.off%3600)+3600)%3600 != c || c%60 != 0 || e.off < -93600 || e.off > 93600 {
			return "tie-only"
		}
		if i == 0 {
			continue
		}
		d := e.off - tab[i-1].off
		if (((e.start+int64(c))%3600)+3600)%3600 != 0 || (d != 3600 && d != -3600) {
			return "tie-only"
		}
		if i >= 2 && tab[i-1].start+6483600 > e.start {
			return "tie-only"
		}
	}
	if c != 0 {
		return "tie-only(shifted-hour-grid)"
	}
	return "hour-zone"
}

func tableLine(tab []tabEnt) string {
	var b strings.Builder
	b.WriteString("zone tab=")
	for i, e := range tab {
		if i > 0 {
			b.WriteByte(',')
		}
		b.WriteString(strconv.FormatInt(e.start, 10))
		b.WriteByte(':')
		b.WriteString(strconv.Itoa(e.off))
	}
	return b.String()
}

func tableTransitions(tab []tabEnt) []transition {
	var out []transition
	for i := 1; i < len(tab); i++ {
		out = append(out, transition{tab[i].start, tab[i-1].off, tab[i].off})
	}
	return out
}

// window of the model's zone table for instants in [first, last].
func window(first, last time.Time) (time.Time, time.Time) {
	return first.Add(-400 * 24 * time.Hour), last.AddDate(7, 0, 0).Add(400 * 24 * time.Hour)
}

// ---- items ----

type item struct {
	kind string // next | civil | date | every | everyd

	// next
	sp        spec
	parserLoc *time.Location // Location the real parser chose (nil: not parser-derived)
	t         time.Time      // carries the location it is passed in
	tLoc      string
	local     bool // SpecSchedule.Location = time.Local, t passed in the zone
	probe     bool

	// civil / date / every
	unix  int64
	date  [6]int
	delay int64

	// outcomes
	skipped string
	want    time.Time
	wantOK  bool
	got     time.Time
	impl    string // at <unix> | zero | timeout | panic: ... ; civil/date/every: the real answer
	class   string
	vids    [][2]string // monitor failures (finding id, what)
	line    string
	model   string
	asked   bool
	slow    bool          // empty-set probe: the real call may legitimately take seconds
	dur     time.Duration // wall time of the real call (slow items)
	// composed path: model Parse then model Next on the spec text (parser-derived cases only)
	line2  string
	model2 string
	asked2 bool
}

const (
	gFixed = iota
	gDST
	gEvery
	gProbe
	gEmpty // schedules with an empty set: Next runs into the five-year limit
)

type group struct {
	kind     int
	zone     string
	loc      *time.Location
	y0, y1   int
	table    []tabEnt
	trs      []transition // transitions to generate around
	dayskips []int64
	r        *lib.Rand
	nNext    int // fixed: cases; dst without transitions: cases
	perTr    int
	civPerTr int
	nCivil   int // fixed / no-transition groups
	nEvery   int
	others   []string // alternative locations to pass t in
	items    []*item
	notes    []string
	drvErr   string
	pregen   bool // items are given (replay)

	emptyFields []string // gEmpty: which set is empty in each case
}

// ---- the real calls ----

type callRes struct {
	t   time.Time
	pan string
}

var slowCalls, slowestCall atomic.Int64

// callNext runs the real Next under recover and a deadline.
func callNext(s *cron.SpecSchedule, t time.Time) (got time.Time, impl string) {
	return callNextWithin(s, t, callDeadline)
}

func callNextWithin(s *cron.SpecSchedule, t time.Time, deadline time.Duration) (got time.Time, impl string) {
	ch := make(chan callRes, 1)
	go func() {
		defer func() {
			if p := recover(); p != nil {
				ch <- callRes{pan: fmt.Sprint(p)}
			}
		}()
		ch <- callRes{t: s.Next(t)}
	}()
	timer := time.NewTimer(deadline)
	defer timer.Stop()
	select {
	case r := <-ch:
		switch {
		case r.pan != "":
			return time.Time{}, "panic: " + r.pan
		case r.t.IsZero():
			return r.t, "zero"
		}
		return r.t, "at " + strconv.FormatInt(r.t.Unix(), 10)
	case <-timer.C:
		return time.Time{}, "timeout"
	}
}

func protect(f func() string) (out string) {
	defer func() {
		if p := recover(); p != nil {
			out = "panic: " + fmt.Sprint(p)
		}
	}()
	return f()
}

var globalTimeouts atomic.Int64

func (g *group) hazard(t, want time.Time, ok bool) bool {
	if len(g.dayskips) == 0 {
		return false
	}
	lo := t.Unix() - 3*86400
	hi := t.AddDate(6, 0, 0).Unix()
	if ok {
		hi = want.Unix() + 3*86400
	}
	for _, d := range g.dayskips {
		if d >= lo && d <= hi {
			return true
		}
	}
	return false
}

// pathClass is the worst class among the table's transitions from 49 h before the earliest to
// 49 h after the latest of the given instants.
func (g *group) pathClass(instants ...time.Time) string {
	var lo, hi int64
	first := true
	for _, x := range instants {
		if x.IsZero() {
			continue
		}
		u := x.Unix()
		if first || u < lo {
			lo = u
		}
		if first || u > hi {
			hi = u
		}
		first = false
	}
	best := "none"
	for _, tr := range tableTransitions(g.table) {
		if tr.at < lo-int64(classRadius/time.Second) || tr.at > hi+int64(classRadius/time.Second) {
			continue
		}
		if c := classOf(tr); classRank(c) > classRank(best) {
			best = c
		}
	}
	return best
}

func (it *item) schedule(loc *time.Location) *cron.SpecSchedule {
	l := loc
	switch {
	case it.local:
		l = time.Local
	case it.parserLoc != nil:
		l = it.parserLoc
	}
	s := it.sp.s
	return &cron.SpecSchedule{Second: s.Second, Minute: s.Minute, Hour: s.Hour, Dom: s.Dom, Month: s.Month, Dow: s.Dow, Location: l}
}

// runNext: oracle, real call, verdict, model line.
func (g *group) runNext(it *item, timeouts *int) {
	if *timeouts >= maxGroupTimeouts && !it.probe {
		it.skipped = "group-timeouts"
		return
	}
	if globalTimeouts.Load() >= maxGlobalTimeouts {
		it.skipped = "global-timeouts"
		return
	}
	it.want, it.wantOK, _ = bruteNext(it.sp.s, g.loc, it.t)
	if !it.probe && g.hazard(it.t, it.want, it.wantOK) {
		it.skipped = "dayskip-hazard"
		return
	}
	if it.slow {
		st := time.Now()
		it.got, it.impl = callNextWithin(it.schedule(g.loc), it.t, slowDeadline)
		it.dur = time.Since(st)
	} else {
		it.got, it.impl = callNext(it.schedule(g.loc), it.t)
		if it.impl == "timeout" {
			// slow is not hung (zone lookups past 2037 evaluate the TZ rule string on every call;
			// the machine may be loaded): only a call that also exceeds the long deadline is a hang
			st := time.Now()
			it.got, it.impl = callNextWithin(it.schedule(g.loc), it.t, slowDeadline)
			if it.impl != "timeout" {
				slowCalls.Add(1)
				if d := time.Since(st); d > time.Duration(slowestCall.Load()) {
					slowestCall.Store(int64(d))
				}
			}
		}
	}
	var id, what string
	switch {
	case it.impl == "timeout":
		*timeouts++
		globalTimeouts.Add(1)
		id, what = judgeAbort(g.loc, it.t, it.want, it.wantOK, "hang", fmt.Sprintf("did not return within %s", callDeadline))
		it.class = worstClass(g.loc, it.t, it.want)
	case strings.HasPrefix(it.impl, "panic"):
		id, what = judgeAbort(g.loc, it.t, it.want, it.wantOK, "panic", "panicked: "+it.impl[len("panic: "):])
		it.class = worstClass(g.loc, it.t, it.want)
	default:
		id, what = judgeWant(it.sp.s, g.loc, it.t, it.got, it.want, it.wantOK)
		it.class = worstClass(g.loc, it.t, it.got, it.want)
		if !it.got.IsZero() && it.got.Location() != it.t.Location() {
			it.vids = append(it.vids, [2]string{"result-location",
				fmt.Sprintf("Next returned a time in location %s, the argument was in %s", it.got.Location(), it.t.Location())})
		}
		if !it.got.IsZero() && it.got.Nanosecond() != 0 {
			it.vids = append(it.vids, [2]string{"result-not-whole-second", "Next returned " + it.got.Format(time.RFC3339Nano)})
		}
	}
	if id != "" && it.class == "none" {
		// no transition within 49 h of the three instants: classify by the transitions the search
		// passed between the start and the later of answer / expected answer
		if c := g.pathClass(it.t, it.got, it.want); c != "none" {
			mech := id
			if id == "missed-earlier-match" {
				mech = "shift-missed"
			}
			it.class, id = c, findingID(c, mech)
		}
	}
	if id != "" {
		it.vids = append(it.vids, [2]string{id, what})
	}
	s := it.sp.s
	it.line = fmt.Sprintf("next sec=%d min=%d hour=%d dom=%d month=%d dow=%d t=%d", s.Second, s.Minute, s.Hour, s.Dom, s.Month, s.Dow, it.t.UnixNano())
	if it.sp.parsed && it.sp.text != "" {
		it.line2 = fmt.Sprintf("pnext o=%d z=1 d=none r=%s t=%d", parserOpts, runes(it.sp.text), it.t.UnixNano())
	}
}

// parserOpts is theParser's option set as the model's Opts.ofNat expects it.
const parserOpts = int(cron.Second | cron.Minute | cron.Hour | cron.Dom | cron.Month | cron.Dow | cron.Descriptor)

// runes encodes a string as dot-separated decimal code points ("-" = empty), the parser driver's format.
func runes(s string) string {
	if s == "" {
		return "-"
	}
	var b strings.Builder
	for i, r := range []rune(s) {
		if i > 0 {
			b.WriteByte('.')
		}
		b.WriteString(strconv.Itoa(int(r)))
	}
	return b.String()
}

func (g *group) runOther(it *item) {
	switch it.kind {
	case "civil":
		it.impl = protect(func() string {
			l := time.Unix(it.unix, 0).In(g.loc)
			_, off := l.Zone()
			return fmt.Sprintf("%d %d %d %d %d %d %d %d", l.Year(), int(l.Month()), l.Day(), l.Hour(), l.Minute(), l.Second(), int(l.Weekday()), off)
		})
		it.line = "civil t=" + strconv.FormatInt(it.unix, 10)
	case "date":
		d := it.date
		it.impl = protect(func() string {
			return strconv.FormatInt(time.Date(d[0], time.Month(d[1]), d[2], d[3], d[4], d[5], 0, g.loc).Unix(), 10)
		})
		it.line = fmt.Sprintf("date y=%d m=%d d=%d h=%d mi=%d s=%d", d[0], d[1], d[2], d[3], d[4], d[5])
	case "everyd":
		d := time.Duration(it.delay)
		it.impl = protect(func() string { return "delay " + strconv.FormatInt(int64(cron.Every(d).Delay), 10) })
		// monitor: max(d, 1s) truncated to whole seconds
		w := it.delay
		if w < 1e9 {
			w = 1e9
		}
		w -= w % 1e9
		if it.impl != "delay "+strconv.FormatInt(w, 10) {
			it.vids = append(it.vids, [2]string{"every-delay-rounding", fmt.Sprintf("Every(%dns): %s, want delay %d", it.delay, it.impl, w)})
		}
		it.line = "everyd d=" + strconv.FormatInt(it.delay, 10)
	case "every":
		d := time.Duration(it.delay)
		var got time.Time
		it.impl = protect(func() string {
			got = cron.ConstantDelaySchedule{Delay: d}.Next(it.t)
			return "at " + strconv.FormatInt(got.UnixNano(), 10)
		})
		// monitor: t truncated to the second + Delay
		ns := it.t.UnixNano()
		w := ns - floorMod(ns, 1e9) + it.delay
		if it.impl != "at "+strconv.FormatInt(w, 10) {
			it.vids = append(it.vids, [2]string{"every-next", fmt.Sprintf("ConstantDelaySchedule{%dns}.Next(%dns): %s, want at %d", it.delay, ns, it.impl, w)})
		} else if got.Location() != it.t.Location() {
			it.vids = append(it.vids, [2]string{"result-location", "ConstantDelaySchedule.Next changed the location"})
		}
		// Every(d).Next(t) as composed by users of the API
		if it.delay%1e9 != 0 || it.delay < 1e9 {
			e := cron.Every(d)
			g2 := e.Next(it.t)
			if g2.Nanosecond() != 0 || !g2.After(it.t) {
				it.vids = append(it.vids, [2]string{"every-next", fmt.Sprintf("Every(%dns).Next(%dns) = %s", it.delay, ns, g2.Format(time.RFC3339Nano))})
			}
		}
		it.line = fmt.Sprintf("every delay=%d t=%d", it.delay, ns)
	}
}

// run executes one group: generate, real code + monitors, then the model.
func (g *group) run(pool chan *lib.Drv) {
	g.generate()
	timeouts := 0
	for _, it := range g.items {
		if it.kind == "next" {
			g.runNext(it, &timeouts)
		} else {
			g.runOther(it)
		}
	}
	if timeouts >= maxGroupTimeouts {
		g.notes = append(g.notes, fmt.Sprintf("%s %d-%d: %d calls timed out; remaining next cases of this zone window skipped", g.zone, g.y0, g.y1, timeouts))
	}
	if pool == nil {
		return
	}
	lines := []string{}
	idx := []*item{}
	second := []bool{}
	if g.kind != gEvery {
		lines = append(lines, tableLine(g.table))
	}
	for _, it := range g.items {
		if it.skipped == "" && it.line != "" {
			lines = append(lines, it.line)
			idx = append(idx, it)
			second = append(second, false)
			if it.line2 != "" {
				lines = append(lines, it.line2)
				idx = append(idx, it)
				second = append(second, true)
			}
		}
	}
	if len(idx) == 0 {
		return
	}
	d := <-pool
	if d == nil {
		pool <- d
		g.drvErr = "model driver unavailable (died earlier)"
		return
	}
	outs, err := d.AskBatch(lines)
	if err != nil {
		g.drvErr = err.Error()
		d.Close()
		pool <- nil
		return
	}
	pool <- d
	if g.kind != gEvery {
		if want := fmt.Sprintf("ok n=%d", len(g.table)); outs[0] != want {
			g.drvErr = fmt.Sprintf("zone line answered %q, want %q", outs[0], want)
		}
		outs = outs[1:]
	}
	for i, it := range idx {
		if second[i] {
			it.model2, it.asked2 = outs[i], true
		} else {
			it.model, it.asked = outs[i], true
		}
	}
}

// runAll runs the groups on NumCPU workers; probes (which burn a core each) come last.
func runAll(groups []*group, pool chan *lib.Drv, workers int) {
	ch := make(chan *group)
	var wg sync.WaitGroup
	for w := 0; w < workers; w++ {
		wg.Add(1)
		go func() {
			defer wg.Done()
			for g := range ch {
				g.run(pool)
			}
		}()
	}
	var probes []*group
	for _, g := range groups { // the slow empty-set probes start first so they overlap with the rest
		if g.kind == gEmpty {
			ch <- g
		}
	}
	for _, g := range groups {
		if g.kind == gEmpty {
			continue
		}
		if g.kind == gProbe {
			probes = append(probes, g)
			continue
		}
		ch <- g
	}
	close(ch)
	wg.Wait()
	for _, g := range probes {
		g.run(pool)
	}
}

// ---- generation of a group's items ----

func (g *group) addNext(r *lib.Rand, f fields6, t time.Time) {
	it := &item{kind: "next"}
	viaParser := r.Intn(10) < 3
	tz := ""
	if viaParser && g.kind != gFixed && r.Intn(4) != 0 {
		tz = g.zone
	}
	var note string
	it.sp, it.parserLoc, note = realise(r, f, viaParser, tz)
	if note != "" {
		g.notes = append(g.notes, note)
	}
	if !it.sp.parsed && r.Intn(14) == 0 {
		it.local = true
	}
	if it.sp.parsed && it.parserLoc == time.Local {
		it.local = true
	}
	it.tLoc = g.zone
	it.t = t.In(g.loc)
	if !it.local {
		switch p := r.Intn(20); {
		case p < 3:
			it.tLoc, it.t = "UTC", t.In(time.UTC)
		case p < 6 && len(g.others) > 0:
			n := g.others[r.Intn(len(g.others))]
			if l, err := resolveLoc(n); err == nil && n != g.zone {
				it.tLoc, it.t = n, t.In(l)
			}
		}
	}
	g.items = append(g.items, it)
}

func daysIn(y, m int) int { return time.Date(y, time.Month(m)+1, 0, 0, 0, 0, 0, time.UTC).Day() }

func (g *group) randDate(r *lib.Rand) [6]int {
	return [6]int{r.Range(g.y0, g.y1), r.Range(-2, 15), r.Range(-3, 35), r.Range(-3, 27), r.Intn(60), r.Intn(60)}
}

// dateNear draws time.Date arguments whose normalised wall clock is within a few hours of the
// transition (so it may fall into the gap or the repeated stretch), half of the time written with
// an out-of-range month, day or hour.
func (g *group) dateNear(r *lib.Rand, tr transition) [6]int {
	if r.Intn(8) == 0 {
		return g.randDate(r)
	}
	off := tr.before
	if r.Bool() {
		off = tr.after
	}
	span := 3 * 3600
	if d := tr.after - tr.before; d > span || -d > span {
		span = 30 * 3600
	}
	w := time.Unix(tr.at+int64(off)+int64(r.Range(-span, span)), 0).UTC()
	if r.Intn(4) == 0 { // exactly at the edge of the jump
		w = time.Unix(tr.at+int64(off)+int64(r.Range(-1, 1)), 0).UTC()
	}
	y, m, d, h, mi, s := w.Year(), int(w.Month()), w.Day(), w.Hour(), w.Minute(), w.Second()
	switch r.Intn(12) {
	case 0:
		m, y = m+12, y-1
	case 1:
		m, y = m-12, y+1
	case 2: // day <= 0 of the following month
		d, m = d-daysIn(y, m), m+1
	case 3: // day > 31-ish of the preceding month
		m = m - 1
		d += daysIn(y, m)
	case 4:
		h, d = h+24, d-1
	case 5:
		h, d = h-24, d+1
	}
	return [6]int{y, m, d, h, mi, s}
}

func (g *group) generate() {
	if g.pregen {
		return
	}
	r := g.r
	switch g.kind {
	case gFixed:
		for i := 0; i < g.nNext; i++ {
			g.addNext(r, randFields(r), instantFixed(r, g.loc))
		}
		for i := 0; i < g.nCivil; i++ {
			t := instantFixed(r, g.loc)
			g.items = append(g.items, &item{kind: "civil", unix: t.Unix()})
			g.items = append(g.items, &item{kind: "date", date: g.randDate(r)})
		}
	case gDST:
		for _, tr := range g.trs {
			n := g.perTr
			if classOf(tr) == "dayskip" {
				n *= 6 // only two such transitions exist in the zone set
			}
			for i := 0; i < n; i++ {
				t := instantNear(r, tr)
				if r.Intn(10) == 0 { // start days or weeks ahead: the search has to land on the transition
					t = time.Unix(tr.at, 0).Add(-time.Duration(r.Range(27*3600, 40*86400))*time.Second + time.Duration(r.Intn(2))*time.Duration(r.Intn(1000000000)))
				}
				var f fields6
				if r.Intn(5) == 0 {
					f = randFields(r)
				} else {
					f = adjacentFields(r, tr)
				}
				g.addNext(r, f, t)
			}
			for i := 0; i < g.civPerTr; i++ {
				u := tr.at + int64(r.Range(-3*3600, 3*3600))
				if r.Intn(4) == 0 {
					u = tr.at + int64(r.Range(-1, 1))
				}
				g.items = append(g.items, &item{kind: "civil", unix: u})
				g.items = append(g.items, &item{kind: "date", date: g.dateNear(r, tr)})
			}
		}
		lo := time.Date(g.y0, 1, 1, 0, 0, 0, 0, time.UTC).Unix()
		hi := time.Date(g.y1+1, 1, 1, 0, 0, 0, 0, time.UTC).Unix()
		for i := 0; i < g.nNext; i++ {
			t := time.Unix(lo+int64(r.U64()%uint64(hi-lo)), int64(r.Intn(2))*int64(r.Intn(1000000000)))
			g.addNext(r, randFields(r), t)
		}
		for i := 0; i < g.nCivil; i++ {
			g.items = append(g.items, &item{kind: "civil", unix: lo + int64(r.U64()%uint64(hi-lo))})
			g.items = append(g.items, &item{kind: "date", date: g.randDate(r)})
		}
	case gEvery:
		lo := time.Date(2001, 1, 1, 0, 0, 0, 0, time.UTC).UnixNano()
		hi := time.Date(2038, 1, 1, 0, 0, 0, 0, time.UTC).UnixNano()
		delay := func() int64 {
			switch r.Intn(8) {
			case 0:
				return int64(r.Intn(1000000000)) // < 1 s
			case 1:
				return int64(r.Range(1, 120)) * 1e9
			case 2:
				return int64(r.Range(1, 48)) * 3600e9
			case 3:
				return int64(r.Range(1, 600))*1e9 + int64(r.Intn(1000000000)) // non-whole seconds
			case 4:
				return int64(r.Range(1, 90)) * 60e9
			case 5:
				return -int64(r.U64() % uint64(3600e9)) // negative
			case 6:
				return int64(r.Intn(3)) * int64(r.Intn(2)) // 0, 1, 2 ns
			default:
				return int64(r.U64() % uint64(400*86400e9))
			}
		}
		for i := 0; i < g.nEvery; i++ {
			ns := lo + int64(r.U64()%uint64(hi-lo))
			switch r.Intn(6) {
			case 0:
				ns -= ns % 1e9 // exact second
			case 1:
				ns = -int64(r.U64() % uint64(30*365*86400e9)) // before 1970
			}
			loc := time.UTC
			if r.Intn(3) == 0 && len(g.others) > 0 {
				if l, err := resolveLoc(g.others[r.Intn(len(g.others))]); err == nil {
					loc = l
				}
			}
			g.items = append(g.items, &item{kind: "every", delay: delay(), t: time.Unix(0, ns).In(loc), tLoc: loc.String()})
			if i%3 == 0 {
				g.items = append(g.items, &item{kind: "everyd", delay: delay()})
			}
		}
	case gEmpty:
		// An empty second/minute/hour/month set (the parser accepts ","), or both day sets empty:
		// nothing ever matches, Next iterates up to the five-year limit. Measured, and tied.
		all := func(fd fieldDef) uint64 { return field{star()}.bits(fd) }
		full := Sched{all(fdSec), all(fdMin), all(fdHour), all(fdDom), all(fdMonth), all(fdDow)}
		t := time.Date(2021, 3, 4, 5, 6, 7, 0, g.loc)
		for _, f := range g.emptyFields {
			s := full
			switch f {
			case "second":
				s.Second = 0
			case "minute":
				s.Minute = 0
			case "hour":
				s.Hour = 0
			case "month":
				s.Month = 0
			case "days":
				s.Dom, s.Dow = 0, 0
			}
			g.items = append(g.items, &item{kind: "next", sp: spec{s: s, text: "empty " + f}, t: t, tLoc: g.zone, probe: true, slow: true})
		}
	case gProbe:
		// Pacific/Apia skipped 2011-12-30 entirely; the day loop of Next cannot get past 12-29.
		mk := func(sp spec, t time.Time, tloc string, pl *time.Location) {
			g.items = append(g.items, &item{kind: "next", sp: sp, t: t, tLoc: tloc, probe: true, parserLoc: pl})
		}
		all := func(fd fieldDef) uint64 { return field{star()}.bits(fd) }
		t1 := time.Date(2011, 12, 28, 21, 30, 0, 0, g.loc)
		mk(spec{s: Sched{1, 1, 1, 1 << 31, all(fdMonth), all(fdDow)}, text: "0 0 0 31 * *"}, t1, g.zone, nil)
		full := "TZ=" + g.zone + " 0 0 6 * * sat"
		if sch, err := theParser.Parse(full); err == nil {
			ss := sch.(*cron.SpecSchedule)
			t2 := time.Date(2011, 12, 29, 12, 0, 0, 500, g.loc).In(time.UTC)
			mk(spec{Sched{ss.Second, ss.Minute, ss.Hour, ss.Dom, ss.Month, ss.Dow}, full, true}, t2, "UTC", ss.Location)
		} else {
			g.notes = append(g.notes, "probe spec rejected: "+err.Error())
		}
	}
}
