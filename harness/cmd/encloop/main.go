// encloop is the part of the C01/C02 harnesses that needs in-package access to schemes/enc/v1
// (build overlay harness/overlay/enc_zz_verif.go): the real, unexported processSegments and
// readHeader driven in small scope against the Lean model. It is built and run by
// encx.RunLoop from cmd/c01 and cmd/c02, so that a change of those unexported signatures breaks
// only this tie (reported as a T2 disagreement) while the API-level monitors keep running.
//
//	encloop --mode c01|c02 --tier … --seed … --drv … --out … --work … [--search] [--replay f]
package main

import (
	"bytes"
	"encoding/hex"
	"encoding/json"
	"errors"
	"flag"
	"fmt"
	"io"
	"os"
	"strconv"
	"strings"
	"time"

	enc "github.com/dapr/kit/schemes/enc/v1"

	"verifharness/encx"
	"verifharness/lib"
)

const rule = "loop case: content non-empty or script has a zero-length read/failure; header case: any; toy-AEAD loop case: a mutation or a failing source. Complete enumerations (independent of the seed): segment loop with segSize in {1,2,3,4,8}, content length 0..3*seg+1: every composition of the content into read sizes up to length 4/7/10/9/8 (quick) resp. 4/7/10/13/13 (thorough), times both EOF styles, times terminal eof/failOnce/failSticky, one zero-length read at every position (content <= 7 quick, all thorough), two zero-length reads at every pair of positions (content <= 4 quick, <= 7 thorough), a failing processFn at every call; header reader: every subset of cut points over the last 12 bytes of the small well-formed headers with 0..3 payload bytes and every truncation offset, times EOF styles and terminals. Everything else (longer contents, extra zero-length reads, oversized headers, mutated headers, the fourth reader script of each toy-AEAD case) is drawn from the seed, hence exhaustive=false for the run as a whole."

type psCase struct {
	Kind     string      `json:"kind"` // ps
	Seg      int         `json:"seg"`
	Len      int         `json:"len"`
	Script   encx.Script `json:"script"`
	FailCall int         `json:"failcall"` // -1 = never
	// ResumeLen > 0 (failOnce only): the failure is transient, the source goes on with that many more bytes
	ResumeLen int `json:"resume_len,omitempty"`
}

func content(n int) []byte {
	b := make([]byte, n)
	for i := range b {
		b[i] = byte(i%250 + 1)
	}
	return b
}

func (c psCase) line() string {
	s := c.Script
	s.Data = content(c.Len)
	fc := "none"
	if c.FailCall >= 0 {
		fc = strconv.Itoa(c.FailCall)
	}
	return fmt.Sprintf("ps seg=%d %s failcall=%s", c.Seg, s.Line("data"), fc)
}

// runPS executes the real processSegments and renders the observation in the driver's format.
func runPS(c psCase) string {
	s := c.Script
	s.Data = content(c.Len)
	if c.ResumeLen > 0 && s.Term == "failOnce" {
		s.ResumeData = content(c.Len + c.ResumeLen)[c.Len:]
	}
	var calls []string
	fn := func(out io.Writer, data []byte, num uint32, last bool) error {
		l := 0
		if last {
			l = 1
		}
		calls = append(calls, fmt.Sprintf("%s:%d:%d", hex.EncodeToString(data), num, l))
		if c.FailCall >= 0 && uint32(c.FailCall) == num {
			return encx.ErrProc
		}
		_, err := out.Write(data)
		return err
	}
	var out []byte
	var terr error
	var src *encx.ScriptReader
	gerr := encx.Guard(20*time.Second, func() error {
		src = s.Reader()
		r := enc.VerifProcessSegments(src, c.Seg, fn)
		out, terr = encx.Drain(r, nil)
		return nil
	})
	if gerr != nil {
		return "term=" + encx.Canon(gerr)
	}
	return fmt.Sprintf("calls=%s out=%s term=%s", strings.Join(calls, ";"), hex.EncodeToString(out), encx.CanonSrc(terr, s, src))
}

// compositions calls f with every composition of n (ordered chunk sizes summing to n).
func compositions(n int, f func([]int)) {
	if n == 0 {
		f(nil)
		return
	}
	for mask := 0; mask < 1<<(n-1); mask++ {
		var parts []int
		cur := 1
		for i := 0; i < n-1; i++ {
			if mask&(1<<i) != 0 {
				parts = append(parts, cur)
				cur = 1
			} else {
				cur++
			}
		}
		parts = append(parts, cur)
		f(parts)
	}
}

func insertZero(caps []int, pos int) []int {
	out := make([]int, 0, len(caps)+1)
	out = append(out, caps[:pos]...)
	out = append(out, 0)
	out = append(out, caps[pos:]...)
	return out
}

func genPS(tier string, rng *lib.Rand, search bool) []psCase {
	var cases []psCase
	terms := []string{"eof", "failOnce", "failSticky"}
	add := func(seg, n int, caps []int, fail int) {
		for _, ewd := range []bool{false, true} {
			for _, t := range terms {
				cases = append(cases, psCase{"ps", seg, n, encx.Script{Caps: append([]int(nil), caps...), EWD: ewd, Term: t}, fail, 0})
			}
		}
	}
	maxFull := map[int]int{1: 4, 2: 7, 3: 10, 4: 9, 8: 8} // all compositions up to this length
	if tier == "thorough" || search {
		maxFull = map[int]int{1: 4, 2: 7, 3: 10, 4: 13, 8: 13}
	}
	for _, seg := range []int{1, 2, 3, 4, 8} {
		for n := 0; n <= 3*seg+1; n++ {
			if n <= maxFull[seg] {
				compositions(n, func(parts []int) {
					add(seg, n, parts, -1)
					// one zero-length read at every position
					if n <= 7 || tier == "thorough" {
						for p := 0; p <= len(parts); p++ {
							z := insertZero(parts, p)
							add(seg, n, z, -1)
							if n <= 4 || (tier == "thorough" && n <= 7) {
								for q := p; q <= len(z); q++ {
									add(seg, n, insertZero(z, q), -1)
								}
							}
						}
					} else {
						z := insertZero(parts, rng.Intn(len(parts)+1))
						add(seg, n, z, -1)
						add(seg, n, insertZero(z, rng.Intn(len(z)+1)), -1)
					}
				})
			} else {
				k := 120
				if tier == "thorough" || search {
					k = 1500
				}
				for j := 0; j < k; j++ {
					var parts []int
					left := n
					for left > 0 {
						var c int
						switch rng.Intn(4) {
						case 0:
							c = 1
						case 1:
							c = seg + rng.Range(-1, 1)
						case 2:
							c = rng.Range(1, left)
						default:
							c = rng.Range(1, 2*seg+2)
						}
						if c < 1 {
							c = 1
						}
						if c > left && rng.Bool() {
							c = left
						}
						parts = append(parts, c)
						left -= c
					}
					for z := rng.Intn(3); z > 0; z-- {
						parts = insertZero(parts, rng.Intn(len(parts)+1))
					}
					add(seg, n, parts, -1)
				}
			}
			// transient failures: the source fails once (with or without the data of that call) after n bytes
			// and then goes on; every n, i.e. also exactly on a segment boundary + 1
			for _, rl := range []int{1, seg, seg + 2} {
				for _, ewd := range []bool{false, true} {
					for k, caps := range [][]int{nil, {1, 1, 1, 1, 1, 1, 1, 1, 1, 1, 1, 1, 1, 1, 1, 1, 1, 1, 1, 1, 1, 1, 1, 1, 1, 1}, {seg + 1}, {seg, 1, seg, 1, seg, 1}, {seg + 1, seg, seg, seg}} {
						cases = append(cases, psCase{"ps", seg, n, encx.Script{Caps: append([]int(nil), caps...), EWD: ewd, Term: "failOnce",
							Err: encx.ErrKinds[(n+k+rl)%len(encx.ErrKinds)]}, -1, rl})
					}
				}
			}
			// caps larger than what is left, unlimited reads, aligned reads
			add(seg, n, nil, -1)
			add(seg, n, []int{seg}, -1)
			add(seg, n, []int{seg + 1}, -1)
			add(seg, n, []int{seg, 0, 1, 0}, -1)
			// a failing processFn at every call
			for fc := 0; fc*seg < n; fc++ {
				add(seg, n, nil, fc)
				add(seg, n, []int{1, seg, 1}, fc)
			}
		}
	}
	return cases
}

// ---- readHeader ----

type rhCase struct {
	Kind   string      `json:"kind"` // rh
	Doc    string      `json:"doc_hex"`
	Script encx.Script `json:"script"`
}

func (c rhCase) line() string {
	s := c.Script
	s.Data, _ = hex.DecodeString(c.Doc)
	return "rh " + s.Line("data") + " fix=1"
}

func runRH(c rhCase) string {
	s := c.Script
	s.Data, _ = hex.DecodeString(c.Doc)
	var res string
	gerr := encx.Guard(20*time.Second, func() error {
		m, mac, rest, err := enc.VerifReadHeader(s.Reader())
		if err != nil {
			res = "err=" + encx.Canon(err)
			return nil
		}
		b, rerr := encx.Drain(rest, nil)
		rt := "eof"
		if rerr != nil {
			rt = "fail"
		}
		res = fmt.Sprintf("ok manifest=%s mac=%s rest=%s restterm=%s", hex.EncodeToString(m), hex.EncodeToString(mac), hex.EncodeToString(b), rt)
		return nil
	})
	if gerr != nil {
		return "err=" + encx.Canon(gerr)
	}
	return res
}

func genRH(tier string, rng *lib.Rand, search bool) []rhCase {
	var cases []rhCase
	terms := []string{"eof", "failOnce", "failSticky"}
	add := func(doc []byte, caps []int) {
		for _, ewd := range []bool{false, true} {
			for _, t := range terms {
				cases = append(cases, rhCase{"rh", hex.EncodeToString(doc), encx.Script{Caps: append([]int(nil), caps...), EWD: ewd, Term: t}})
			}
		}
	}
	// well-formed small headers with 0..3 payload bytes; cuts enumerated around the three newlines
	for extra := 0; extra <= 3; extra++ {
		doc := []byte("dapr.io/enc/v1\nmf\nc\n")
		doc = append(doc, []byte{0xAA, '\n', 0xBB}[:extra]...)
		tail := len(doc) - 12 // enumerate all cut subsets over the last 12 positions
		nb := len(doc) - tail - 1
		if nb > 11 {
			nb = 11
		}
		for mask := 0; mask < 1<<nb; mask++ {
			var caps []int
			cur := tail + 1
			for i := 0; i < nb; i++ {
				if mask&(1<<i) != 0 {
					caps = append(caps, cur)
					cur = 1
				} else {
					cur++
				}
			}
			caps = append(caps, cur)
			add(doc, caps)
			if mask%7 == 0 {
				add(doc, insertZero(caps, rng.Intn(len(caps)+1)))
			}
		}
		// every truncation (= failure / EOF at every offset)
		for cut := 0; cut <= len(doc); cut++ {
			add(doc[:cut], nil)
			add(doc[:cut], []int{1, 1, 1, 1, 1, 1, 1, 1, 1, 1, 1, 1, 1, 1, 1, 1, 1, 1, 1, 1, 1, 1, 1, 1})
			add(doc[:cut], []int{14, 1, 0, 1, 2})
		}
	}
	// malformed stream
	bad := [][]byte{
		[]byte(""), []byte("\n"), []byte("\n\n\n"), []byte("dapr.io/enc/v1\n\nmac\n"), []byte("dapr.io/enc/v1\nm\n\n"),
		[]byte("dapr.io/enc/v2\nm\nc\n"), []byte("dapr.io/enc/v1"), []byte("dapr.io/enc/v1\n"), []byte("dapr.io/enc/v1\nm"),
		[]byte("dapr.io/enc/v1\nm\n"), []byte("dapr.io/enc/v1\nm\nc"), []byte("dapr.io/enc/v1\r\nm\nc\n"), []byte("xdapr.io/enc/v1\nm\nc\n"),
		[]byte("dapr.io/enc/v1\nm\nc\n\n\n"), []byte("dapr.io/enc/v1\nm\nc\nrest\nmore\n"),
	}
	for _, b := range bad {
		add(b, nil)
		add(b, []int{1, 1, 1, 1, 1, 1, 1, 1, 1, 1, 1, 1, 1, 1, 1, 1, 1, 1, 1, 1, 1})
		add(b, []int{15, 0, 1, 1, 1, 1, 1})
	}
	// long headers: exactly at, below and above the 64 KiB limit; no newline at all
	nLong := 2
	if tier == "thorough" || search {
		nLong = 8
	}
	for j := 0; j < nLong; j++ {
		for _, total := range []int{65535, 65536, 65537} {
			mlen := total - len("dapr.io/enc/v1\n") - len("\nc\n")
			doc := []byte("dapr.io/enc/v1\n")
			doc = append(doc, bytes.Repeat([]byte{'m'}, mlen)...)
			doc = append(doc, "\nc\n"...)
			doc = append(doc, "xyz"...)
			sc := encx.RandomScript(rng, len(doc), 4096)
			cases = append(cases, rhCase{"rh", hex.EncodeToString(doc), sc})
		}
		cases = append(cases, rhCase{"rh", hex.EncodeToString(bytes.Repeat([]byte{'q'}, 65536+rng.Intn(3))), encx.RandomScript(rng, 65538, 8000)})
	}
	// random mutations of a well-formed header
	nMut := 300
	if tier == "thorough" || search {
		nMut = 5000
	}
	for j := 0; j < nMut; j++ {
		doc := []byte("dapr.io/enc/v1\n{\"kw\":1}\nbWFj\npayload")
		for k := rng.Range(1, 3); k > 0; k-- {
			p := rng.Intn(len(doc))
			switch rng.Intn(4) {
			case 0:
				doc[p] = '\n'
			case 1:
				doc = append(doc[:p], doc[p+1:]...)
			case 2:
				doc = append(doc[:p], append([]byte{'\n'}, doc[p:]...)...)
			default:
				doc[p] ^= 1 << uint(rng.Intn(8))
			}
		}
		sc := encx.RandomScript(rng, len(doc), 5)
		sc.Term = terms[rng.Intn(3)]
		cases = append(cases, rhCase{"rh", hex.EncodeToString(doc), sc})
	}
	return cases
}

func kvGet(line, k string) string { return encx.KV(line)[k] }

// checkPSMonitor: model-independent facts about one run of the loop: the calls are the pure
// split of the delivered content (prefix of it when something failed), numbered from 0, only the
// final one flagged last; a clean end processed everything.
func checkPSMonitor(res *lib.Result, c psCase, impl string) {
	kv := encx.KV(impl)
	term := kv["term"]
	if term == "panic" || term == "timeout" {
		res.Violate("loop-"+term, "processSegments did not return normally", c)
		return
	}
	data := content(c.Len)
	if c.ResumeLen > 0 && c.Script.Term == "failOnce" && c.Script.Fails() {
		data = content(c.Len + c.ResumeLen) // a transient failure: whatever is processed must still be a prefix of what the source holds
	}
	var got []byte
	callsStr := kv["calls"]
	var calls []string
	if callsStr != "" {
		calls = strings.Split(callsStr, ";")
	}
	for i, cs := range calls {
		p := strings.Split(cs, ":")
		d, _ := hex.DecodeString(p[0])
		if p[1] != strconv.Itoa(i) {
			res.Violate("loop-numbering", "segment numbers are not 0,1,2,…", c)
		}
		isLast := p[2] == "1"
		if (isLast && i != len(calls)-1) || (term == "ok" && i == len(calls)-1 && !isLast) {
			res.Violate("loop-last-flag", "last flag on a non-final segment or missing on the final one", c)
		}
		if !isLast && len(d) != c.Seg {
			res.Violate("loop-short-nonfinal", "a non-final segment is not full", c)
		}
		if len(d) == 0 || len(d) > c.Seg {
			res.Violate("loop-segment-size", "empty or oversized segment", c)
		}
		got = append(got, d...)
	}
	if !encx.IsPrefix(got, data) {
		res.Violate("loop-not-prefix", "processed bytes are not a prefix of the content", c)
	}
	if term == "ok" && c.Script.Fails() && c.FailCall < 0 {
		res.Violate("loop-source-error-lost", "source failed but the pipe closed cleanly", c)
	} else if term == "ok" && !bytes.Equal(got, data) {
		res.Violate("loop-silent-truncation", "clean end without processing all content", c)
	}
	if !c.Script.Fails() && c.FailCall < 0 && term != "ok" {
		res.Violate("loop-spurious-error", "non-failing source and processFn but terminal "+term, c)
	}
}

// ---- small-scale loop tie with a toy AEAD (same functions as Kit.Enc.Drv.toySeal/toyOpen) ----

func toyTag(key int, p []byte, i uint32, last bool) byte {
	s := 0
	for _, b := range p {
		s += int(b)
	}
	l := 0
	if last {
		l = 7
	}
	return byte((s + 31*int(i) + l + key) % 256)
}

func toySealSeg(key int, p []byte, i uint32, last bool) []byte {
	out := make([]byte, 0, len(p)+1)
	pad := byte((key + int(i)) % 256)
	for _, b := range p {
		out = append(out, b^pad)
	}
	return append(out, toyTag(key, p, i, last))
}

type toyCase struct {
	Kind   string      `json:"kind"` // toy
	Seg    int         `json:"seg"`
	Len    int         `json:"len"`
	Mut    string      `json:"mutation"`
	Doc    string      `json:"doc_hex"`
	Script encx.Script `json:"script"`
	Resume string      `json:"resume_hex,omitempty"` // failOnce only: delivered after the transient failure
}

func runToy(c toyCase) string {
	sc := c.Script
	sc.Data, _ = hex.DecodeString(c.Doc)
	if c.Resume != "" && sc.Term == "failOnce" {
		sc.ResumeData, _ = hex.DecodeString(c.Resume)
	}
	const key = 5
	ncalls := 0
	fn := func(out io.Writer, d []byte, i uint32, last bool) error {
		ncalls++
		if len(d) == 0 {
			return errors.New("input ciphertext is empty")
		}
		body := d[:len(d)-1]
		pad := byte((key + int(i)) % 256)
		p := make([]byte, len(body))
		for j, b := range body {
			p[j] = b ^ pad
		}
		if d[len(d)-1] != toyTag(key, p, i, last) {
			return enc.ErrDecryptionFailed
		}
		_, err := out.Write(p)
		return err
	}
	var out []byte
	var terr error
	var src *encx.ScriptReader
	gerr := encx.Guard(20*time.Second, func() error {
		src = sc.Reader()
		r := enc.VerifProcessSegments(src, c.Seg+1, fn)
		out, terr = encx.Drain(r, nil)
		return nil
	})
	if gerr != nil {
		return "term=" + encx.Canon(gerr)
	}
	return fmt.Sprintf("out=%s ncalls=%d term=%s", hex.EncodeToString(out), ncalls, encx.CanonSrc(terr, sc, src))
}

func genToy(tier string, rng *lib.Rand) []toyCase {
	var cases []toyCase
	const key = 5
	for _, seg := range []int{1, 2, 3} {
		for n := 0; n <= 3*seg+1; n++ {
			p := make([]byte, n)
			for i := range p {
				p[i] = byte(17*i + 3)
			}
			var segs [][]byte
			for i := 0; i*seg < n; i++ {
				e := (i + 1) * seg
				if e > n {
					e = n
				}
				segs = append(segs, toySealSeg(key, p[i*seg:e], uint32(i), e == n))
			}
			join := func(ss [][]byte) []byte { return bytes.Join(ss, nil) }
			doc := join(segs)
			add := func(mut string, d []byte) {
				scripts := []encx.Script{{}, {Caps: []int{1, 1, 1, 1, 1, 1, 1, 1, 1, 1, 1, 1, 1, 1, 1, 1}, EWD: true}, {Caps: []int{seg + 1, 0, seg + 2}}, encx.RandomScript(rng, len(d), seg+1)}
				for _, sc := range scripts {
					sc.Term = "eof"
					cases = append(cases, toyCase{Kind: "toy", Seg: seg, Len: n, Mut: mut, Doc: hex.EncodeToString(d), Script: sc})
					// a failing source: the error value rotates through the palette
					sc.Term = []string{"failOnce", "failSticky"}[len(cases)%2]
					sc.Err = encx.ErrKinds[(len(cases)/2)%len(encx.ErrKinds)]
					cases = append(cases, toyCase{Kind: "toy", Seg: seg, Len: n, Mut: mut, Doc: hex.EncodeToString(d), Script: sc})
				}
			}
			add("none", doc)
			// a transient source failure at every offset of the untouched document, with and without data
			for k := 0; k <= len(doc); k++ {
				for _, ewd := range []bool{false, true} {
					for _, caps := range [][]int{nil, {1, 1, 1, 1, 1, 1, 1, 1, 1, 1, 1, 1, 1, 1, 1, 1}, {seg + 2, seg + 1, seg + 1}} {
						cases = append(cases, toyCase{"toy", seg, n, fmt.Sprintf("transient@%d", k), hex.EncodeToString(doc[:k]),
							encx.Script{Caps: caps, EWD: ewd, Term: "failOnce", Err: encx.ErrKinds[k%len(encx.ErrKinds)]}, hex.EncodeToString(doc[k:])})
					}
				}
			}
			for cut := 0; cut < len(doc); cut++ {
				add(fmt.Sprintf("trunc@%d", cut), doc[:cut])
			}
			for pos := 0; pos < len(doc); pos++ {
				d := append([]byte(nil), doc...)
				d[pos] ^= 1 << uint(pos%8)
				add(fmt.Sprintf("flip@%d", pos), d)
			}
			for i := range segs {
				var del, dup [][]byte
				for j, s := range segs {
					if j != i {
						del = append(del, s)
					}
					dup = append(dup, s)
					if j == i {
						dup = append(dup, s)
					}
				}
				add(fmt.Sprintf("segdel@%d", i), join(del))
				add(fmt.Sprintf("segdup@%d", i), join(dup))
				for j := i + 1; j < len(segs); j++ {
					sw := append([][]byte(nil), segs...)
					sw[i], sw[j] = sw[j], sw[i]
					add(fmt.Sprintf("segswap@%d,%d", i, j), join(sw))
				}
			}
			add("append-byte", append(append([]byte(nil), doc...), 9))
			if len(segs) > 0 {
				add("append-last", append(append([]byte(nil), doc...), segs[len(segs)-1]...))
				// a correctly sealed extra non-final / final segment at the next index
				add("append-sealed-final", append(append([]byte(nil), doc...), toySealSeg(key, []byte{1}, uint32(len(segs)), true)...))
			}
		}
	}
	return cases
}

func toyLine(c toyCase) string {
	sc := c.Script
	sc.Data, _ = hex.DecodeString(c.Doc)
	return fmt.Sprintf("pst dir=open seg=%d key=5 %s", c.Seg, sc.Line("data"))
}

func runC01(f lib.Flags, res *lib.Result, drv *lib.Drv, rng *lib.Rand) {
	var err error
	// ---------- T2a: segment loop ----------
	ps := genPS(f.Tier, rng.Fork(), f.Search)
	var lines []string
	for _, c := range ps {
		lines = append(lines, c.line())
	}
	var answers []string
	if drv != nil {
		answers, err = drv.AskBatch(lines)
		if err != nil {
			res.Note("driver: " + err.Error())
			res.Disagree("driver-alive", "ps batch", err.Error(), "")
			answers = nil
		}
	}
	for i, c := range ps {
		if i%64 == 0 {
			encx.Inflight(c)
		}
		impl := runPS(c)
		checkPSMonitor(res, c, impl)
		nontrivial := c.Len > 0 || c.Script.Term != "eof"
		for _, z := range c.Script.Caps {
			if z == 0 {
				nontrivial = true
			}
		}
		res.Count(lines[i], nontrivial)
		res.Hit(fmt.Sprintf("ps.seg=%d", c.Seg))
		res.Hit("ps.term=" + kvGet(impl, "term"))
		res.Hit("ps.script.term=" + c.Script.Term)
		if c.Len%c.Seg == 0 && c.Len > 0 {
			res.Hit("ps.len=multiple-of-seg")
		} else if c.Len%c.Seg == 1 && c.Len > 1 {
			res.Hit("ps.len=multiple+1")
		} else if c.Len == 0 {
			res.Hit("ps.len=0")
		} else {
			res.Hit("ps.len=other")
		}
		if i%9973 == 0 {
			res.Sample(c)
		}
		if answers != nil {
			res.Traces++
			if answers[i] != impl {
				res.Disagree("processSegments(real, overlay) = Kit.Enc.processSegments", c, answers[i], impl)
			}
		}
	}

	// ---------- T2a: readHeader ----------
	rh := genRH(f.Tier, rng.Fork(), f.Search)
	lines = lines[:0]
	for _, c := range rh {
		lines = append(lines, c.line())
	}
	answers = nil
	if drv != nil {
		answers, err = drv.AskBatch(lines)
		if err != nil {
			res.Note("driver: " + err.Error())
			res.Disagree("driver-alive", "rh batch", err.Error(), "")
			answers = nil
		}
	}
	for i, c := range rh {
		if i%16 == 0 {
			encx.Inflight(c)
		}
		impl := runRH(c)
		res.Count(lines[i], true)
		if strings.HasPrefix(impl, "ok") {
			res.Hit("rh.ok")
		} else {
			res.Hit("rh." + impl)
		}
		if i%4999 == 0 {
			res.Sample(c)
		}
		if strings.Contains(impl, "panic") || strings.Contains(impl, "timeout") {
			res.Violate("readheader-"+strings.TrimPrefix(impl, "err="), "readHeader did not return normally", c)
		}
		if answers != nil {
			res.Traces++
			if answers[i] != impl {
				res.Disagree("readHeader(real, overlay) = Kit.Enc.readHeader", c, answers[i], impl)
			}
		}
	}

}

func runC02(f lib.Flags, res *lib.Result, drv *lib.Drv, rng *lib.Rand) {
	var err error
	// small-scale loop tie
	toys := genToy(f.Tier, rng.Fork())
	var lines []string
	for _, c := range toys {
		lines = append(lines, toyLine(c))
	}
	var answers []string
	if drv != nil {
		answers, err = drv.AskBatch(lines)
		if err != nil {
			res.Disagree("driver-alive", "toy batch", err.Error(), "")
			answers = nil
		}
	}
	for i, c := range toys {
		if i%16 == 0 {
			encx.Inflight(c)
		}
		impl := runToy(c)
		res.Count(lines[i], c.Mut != "none" || c.Script.Term != "eof")
		if c.Script.Fails() && encx.KV(impl)["term"] == "ok" {
			k := c.Script.Err
			if k == "" {
				k = "custom"
			}
			res.Violate("loop-source-error-lost", fmt.Sprintf("processSegments: the source failed with %q but the pipe was closed cleanly", encx.SourceErr(c.Script.Err).Error()), c)
		}
		res.Hit("toy." + strings.SplitN(c.Mut, "@", 2)[0])
		res.Hit("toy.term=" + encx.KV(impl)["term"])
		if i%2999 == 0 {
			res.Sample(c)
		}
		if answers != nil {
			res.Traces++
			if answers[i] != impl {
				res.Disagree("processSegments(real, toy AEAD) = Kit.Enc.processSegments", c, answers[i], impl)
			}
		}
	}

}

func replay(f lib.Flags, res *lib.Result, drv *lib.Drv) {
	b, err := os.ReadFile(f.Replay)
	if err != nil {
		res.Note("replay: " + err.Error())
		return
	}
	var rf struct {
		Case json.RawMessage `json:"case"`
	}
	json.Unmarshal(b, &rf)
	var kind struct {
		Kind string `json:"kind"`
	}
	json.Unmarshal(rf.Case, &kind)
	switch kind.Kind {
	case "ps":
		var c psCase
		json.Unmarshal(rf.Case, &c)
		impl := runPS(c)
		checkPSMonitor(res, c, impl)
		res.Count(c.line(), true)
		res.Note("replay impl: " + impl)
		if drv != nil {
			if a, err := drv.Ask(c.line()); err == nil {
				res.Note("replay model: " + a)
				if a != impl {
					res.Disagree("processSegments(real, overlay) = Kit.Enc.processSegments", c, a, impl)
				}
			}
		}
	case "rh":
		var c rhCase
		json.Unmarshal(rf.Case, &c)
		impl := runRH(c)
		res.Count(c.line(), true)
		res.Note("replay impl: " + impl)
		if drv != nil {
			if a, err := drv.Ask(c.line()); err == nil {
				res.Note("replay model: " + a)
				if a != impl {
					res.Disagree("readHeader(real, overlay) = Kit.Enc.readHeader", c, a, impl)
				}
			}
		}
	case "toy":
		var c toyCase
		json.Unmarshal(rf.Case, &c)
		impl := runToy(c)
		res.Count(c.Doc, true)
		res.Note("replay impl: " + impl)
		if c.Script.Fails() && encx.KV(impl)["term"] == "ok" {
			res.Violate("loop-source-error-lost", "processSegments: the source failed but the pipe was closed cleanly", c)
		}
		if drv != nil {
			a, _ := drv.Ask(toyLine(c))
			res.Note("replay model: " + a)
			if a != impl {
				res.Disagree("processSegments(real, toy AEAD) = Kit.Enc.processSegments", c, a, impl)
			}
		}
	}
}

func errKindOf(s encx.Script) string {
	if s.Err == "" {
		return "custom"
	}
	return s.Err
}

func main() {
	mode := flag.String("mode", "c01", "c01|c02")
	f := lib.ParseFlags()
	res := lib.NewResult(rule)
	id := "C01"
	if *mode == "c02" {
		id = "C02"
	}
	drv, err := lib.StartDrv(f.Drv, id)
	if err != nil {
		res.Note("model driver could not be started: " + err.Error())
		drv = nil
	}
	defer drv.Close()
	if f.Replay != "" {
		replay(f, res, drv)
		res.Write(f.Out)
		return
	}
	rng := lib.NewRand(f.Seed)
	if *mode == "c02" {
		runC02(f, res, drv, rng)
	} else {
		runC01(f, res, drv, rng)
	}
	res.Exhaustive = false // the run mixes complete small-scope enumerations with seeded families: see rule
	res.Write(f.Out)
}

var _ = bytes.Equal
var _ = errors.New
var _ = io.EOF
var _ = strconv.Itoa
var _ = strings.Join
var _ = time.Second
var _ = hex.EncodeToString
var _ = fmt.Sprintf
