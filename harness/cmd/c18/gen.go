package main

import (
	"encoding/hex"
	"fmt"

	"verifharness/lib"
)

func hx(s string) string { return hex.EncodeToString([]byte(s)) }

// file-set pool: empty set, overlapping names, same name/different bytes, empty file, cert-like set
func pool(rng *lib.Rand) []map[string]string {
	big := rng.Bytes(3000 + rng.Intn(3000))
	return []map[string]string{
		{"a": hx("1")},
		{"a": hx("22"), "b": hx("x")},
		{},
		{"b": hx("y"), "c": ""},
		{"a": hx("1"), "b": hx("x"), "c": hx("zz")},
		{"tls.crt": hex.EncodeToString(big), "tls.key": hex.EncodeToString(rng.Bytes(64)), "ca.crt": hx("anchors")},
		{"a": hx("1")}, // identical to the first set (same bytes under the same name)
	}
}

func hookPoints(files map[string]string) int {
	// hooks 0,1,2, one per file, 4,5,6,7; one more index = "no crash happens" (Write completes)
	return len(files) + 7 + 1
}

func write(f map[string]string) Ev         { return Ev{Kind: "write", Files: f} }
func crash(f map[string]string, at int) Ev { return Ev{Kind: "crash", Files: f, CrashAt: at} }
func kill(f map[string]string, at int) Ev {
	return Ev{Kind: "crash", Files: f, CrashAt: at, Kill: true}
}
func restart() Ev { return Ev{Kind: "restart"} }
func mk(fam, base string, evs ...Ev) Case {
	return Case{Family: fam, Base: base, TName: "certs", Events: evs}
}
func cloneEvs(evs []Ev, more ...Ev) []Ev                  { return append(append([]Ev(nil), evs...), more...) }
func pick(p []map[string]string, i int) map[string]string { return p[((i%len(p))+len(p))%len(p)] }

func generate(tier string, search bool, rng *lib.Rand) []Case {
	var cs []Case
	p := pool(rng)
	off := rng.Intn(len(p))
	bases := []string{"b", "x/y/z", ""}
	maxN := 3
	if tier == "thorough" || search {
		maxN = 4
	}

	// (A) crash-free histories of 1..4 Writes (clause 3), several rotations of the pool
	for n := 1; n <= 4; n++ {
		for r := 0; r < len(p); r++ {
			var evs []Ev
			for i := 0; i < n; i++ {
				evs = append(evs, write(pick(p, off+r+i)))
			}
			cs = append(cs, mk("nocrash", bases[(n+r)%len(bases)], evs...))
		}
	}

	// (B) exhaustive single crash: history of n Writes, Write i killed at every hook point, the
	// remaining Writes and one more done by a fresh Dir
	rots := 2
	if tier == "thorough" || search {
		rots = len(p)
	}
	for n := 1; n <= maxN; n++ {
		for r := 0; r < rots; r++ {
			for i := 0; i < n; i++ {
				fi := pick(p, off+r+i)
				for at := 0; at < hookPoints(fi); at++ {
					var evs []Ev
					for j := 0; j < i; j++ {
						evs = append(evs, write(pick(p, off+r+j)))
					}
					evs = append(evs, crash(fi, at))
					for j := i + 1; j < n; j++ {
						evs = append(evs, write(pick(p, off+r+j)))
					}
					evs = append(evs, write(pick(p, off+r+n)))
					cs = append(cs, mk("crash1", bases[(n+i+at)%len(bases)], evs...))
				}
			}
		}
	}

	// (C) exhaustive double crash: [W] crash(p) crash(q) W W
	for lead := 0; lead <= 1; lead++ {
		f1, f2 := pick(p, off+1), pick(p, off+4)
		for a := 0; a < hookPoints(f1); a++ {
			for b := 0; b < hookPoints(f2); b++ {
				var evs []Ev
				if lead == 1 {
					evs = append(evs, write(pick(p, off)))
				}
				evs = append(evs, crash(f1, a), crash(f2, b), write(pick(p, off+3)), write(pick(p, off+2)))
				cs = append(cs, mk("crash2", "b", evs...))
			}
		}
	}

	// (B') the same with REAL process death (child process SIGKILLs itself at the hook): every hook
	// point of every Write in histories of 1..2 Writes (thorough/search: 1..3, all rotations);
	// the Writes before the killed one run in the same child (same Dir: prev is set), recovery and
	// one more Write in-process by a fresh Dir
	killN, killRots := 2, 2
	if tier == "thorough" || search {
		killN, killRots = 3, len(p)
	}
	for n := 1; n <= killN; n++ {
		for r := 0; r < killRots; r++ {
			for i := 0; i < n; i++ {
				fi := pick(p, off+r+i)
				for at := 0; at < hookPoints(fi)-1; at++ {
					var evs []Ev
					for j := 0; j < i; j++ {
						evs = append(evs, write(pick(p, off+r+j)))
					}
					evs = append(evs, kill(fi, at))
					for j := i + 1; j < n; j++ {
						evs = append(evs, write(pick(p, off+r+j)))
					}
					evs = append(evs, write(pick(p, off+r+n)))
					cs = append(cs, mk("kill1", bases[(n+i+at)%len(bases)], evs...))
				}
			}
		}
	}
	// double real death: kill(p) kill(q) W
	{
		f1, f2 := pick(p, off+1), pick(p, off+3)
		stepA, stepB := 1, 1
		if tier == "quick" && !search {
			stepA, stepB = 2, 2
		}
		for a := 0; a < hookPoints(f1)-1; a += stepA {
			for b := 0; b < hookPoints(f2)-1; b += stepB {
				cs = append(cs, mk("kill2", "b", kill(f1, a), kill(f2, b), write(pick(p, off+4))))
			}
		}
	}
	// real death with a relative target
	{
		c := mk("kill-reltarget", "a", write(p[1]), kill(p[4], 6), write(p[0]))
		c.RelTgt = true
		cs = append(cs, c)
	}

	// (D) clean restarts (fresh Dir without a crash): model comparison; leftovers are counted, the
	// property has no clause about them
	cs = append(cs,
		mk("restart", "b", write(p[0]), restart(), write(p[1]), write(p[3])),
		mk("restart", "x/y/z", write(p[1]), write(p[2]), restart(), write(p[4]), restart(), write(p[0])),
	)

	// (E) foreign entries planted before the first Write: only the model comparison is meaningful
	// (POSIX error cases of the fs model as seen through Write)
	foreign := [][]RawOp{
		{{Op: "mkdirAll", P: "b"}, {Op: "writeFile", P: "b/@T.new", B: hx("junk")}},
		{{Op: "mkdirAll", P: "b/@T.new"}},
		{{Op: "mkdirAll", P: "b/@T.new/sub"}},
		{{Op: "mkdirAll", P: "b"}, {Op: "symlink", To: "b/nowhere", P: "b/@T.new"}},
		{{Op: "mkdirAll", P: "b/@T"}},
		{{Op: "mkdirAll", P: "b/@T/sub"}},
		{{Op: "mkdirAll", P: "b"}, {Op: "writeFile", P: "b/@T", B: hx("file")}},
		{{Op: "writeFile", P: "b", B: hx("base is a file")}},
		{{Op: "mkdirAll", P: "b"}, {Op: "symlink", To: "b/nowhere", P: "b/@T"}},
		{{Op: "mkdirAll", P: "b/other"}, {Op: "writeFile", P: "b/other/f", B: hx("1")}, {Op: "writeFile", P: "unrelated", B: hx("2")}},
	}
	for i, pre := range foreign {
		c := mk("foreign", "b", write(pick(p, off+i)), write(pick(p, off+i+1)))
		c.Pre, c.Foreign = pre, true
		cs = append(cs, c)
	}

	// (E') states an EARLIER process left (Prior): old version directories (@v<n>, ids below
	// clock0), the target still linking to one of them / dangling / a plain file, a stale .new;
	// the first Write of the new process is killed at every hook point (panic and real death),
	// then recovery. Model comparison (the pre-existing entries must stay untouched until the
	// rename) — the property monitors are off, the sets of earlier processes are not "Write calls"
	priors := []struct {
		clock0 int
		pre    []RawOp
	}{
		{1, []RawOp{{Op: "mkdirAll", P: "b/@v0"}, {Op: "writeFile", P: "b/@v0/old", B: hx("7")}, {Op: "symlink", To: "b/@v0", P: "b/@T"}}},
		{1, []RawOp{{Op: "mkdirAll", P: "b"}, {Op: "symlink", To: "b/@v0", P: "b/@T"}}}, // dangling
		{3, []RawOp{{Op: "mkdirAll", P: "b/@v1"}, {Op: "writeFile", P: "b/@v1/a", B: hx("old")}, {Op: "mkdirAll", P: "b/@v0"},
			{Op: "symlink", To: "b/@v1", P: "b/@T"}, {Op: "symlink", To: "b/@v2", P: "b/@T.new"}}},
		{0, []RawOp{{Op: "mkdirAll", P: "b"}, {Op: "writeFile", P: "b/@T", B: hx("plain file")}}},
		{0, []RawOp{{Op: "mkdirAll", P: "b"}, {Op: "writeFile", P: "b/@T.new", B: hx("plain file at .new")}}},
		{2, []RawOp{{Op: "mkdirAll", P: "elsewhere/d"}, {Op: "writeFile", P: "elsewhere/d/f", B: hx("1")}, {Op: "mkdirAll", P: "b"},
			{Op: "symlink", To: "elsewhere/d", P: "b/@T"}}},
	}
	for pi, pr := range priors {
		f := pick(p, off+pi+1)
		for at := 0; at < hookPoints(f); at++ {
			c := mk("prior", "b", crash(f, at), write(pick(p, off+pi+2)), write(pick(p, off+pi+3)))
			c.Pre, c.Foreign, c.Clock0 = pr.pre, true, pr.clock0
			cs = append(cs, c)
			if at%2 == pi%2 || tier == "thorough" {
				k := mk("prior-kill", "b", kill(f, at), write(pick(p, off+pi+2)))
				k.Pre, k.Foreign, k.Clock0 = pr.pre, true, pr.clock0
				cs = append(cs, k)
			}
		}
	}

	// (F) malformed stream: file names that are not one path component. Model: the Write fails at
	// that file (BADNAME; the concrete errno is not compared), trees are compared; monitors: the
	// target must stay one complete set and a later valid Write must succeed
	bad := []map[string]string{
		{"sub/x": hx("1"), "a": hx("2")},
		{"": hx("1")},
		{".": hx("1")},
		{"..": hx("1")},
	}
	for i, b := range bad {
		c := mk("badname", "b", write(p[1]), write(b), write(pick(p, i)))
		c.BadName = true
		cs = append(cs, c)
		c2 := mk("badname", "b", write(b), write(pick(p, i)))
		c2.BadName = true
		cs = append(cs, c2)
		c3 := mk("badname", "b", write(p[4]), crash(p[1], 6), write(b), write(pick(p, i+1)))
		c3.BadName = true
		cs = append(cs, c3)
	}

	// (G) odd but valid names and sizes
	odd := map[string]string{"with space": hx("1"), "ünï": hx("2"), ".hidden": hx("3"), "a=b,c:d": hx("4"), "-": ""}
	cs = append(cs, mk("oddnames", "b", write(odd), crash(p[1], 5), write(odd), write(p[2])))

	// (K) Options.Target given as a relative path (working directory = sandbox root)
	for i, b := range []string{"", "a", "x/y"} {
		f := pick(p, off+i)
		c := mk("reltarget", b, write(f), write(pick(p, off+i+1)), crash(pick(p, off+i+2), 4+i), write(pick(p, off+i+3)))
		c.RelTgt = true
		cs = append(cs, c)
	}

	// (H) raw file-system operations: the model's POSIX operations against the real os.* calls
	nraw := 60
	if tier == "thorough" {
		nraw = 400
	}
	if search {
		nraw = 0
	}
	for i := 0; i < nraw; i++ {
		cs = append(cs, rawCase(rng.Fork()))
	}

	// (I) seeded random histories: 1..4 Writes interleaved with crashes/restarts, random sets
	nrand := 150
	if tier == "thorough" {
		nrand = 2500
	}
	if search {
		nrand = 6000
	}
	for i := 0; i < nrand; i++ {
		cs = append(cs, randomCase(rng.Fork(), p))
	}

	// (L) ALIASING between the arguments of consecutive Writes (alias.go): every alias mode crossed
	// with crash-free histories, every hook point of a Write that follows two aliased ones (panic and
	// real death), a failing Write in between, and seeded random histories
	cs = append(cs, aliasCases(tier, search, rng, p)...)

	// (J) concurrent reader goroutine while a Dir writes repeatedly
	nreader := 2
	if tier == "thorough" {
		nreader = 10
	}
	for i := 0; i < nreader; i++ {
		var evs []Ev
		for j := 0; j < 40; j++ {
			evs = append(evs, write(pick(p, off+i+j)))
		}
		c := mk("reader", "b", evs...)
		c.Reader = true
		cs = append(cs, c)
	}
	for i, mode := range []string{"map", "buf", "after-next"} {
		if i >= nreader {
			break
		}
		ap := aliasPool(p)
		var evs []Ev
		for j := 0; j < 40; j++ {
			evs = append(evs, write(pick(ap, off+i+j)))
		}
		c := mk("alias-reader", "b", evs...)
		c.Reader, c.Alias = true, mode
		cs = append(cs, c)
	}
	return cs
}

func randomFiles(rng *lib.Rand, p []map[string]string) map[string]string {
	if rng.Intn(3) == 0 {
		return p[rng.Intn(len(p))]
	}
	names := []string{"a", "b", "c", "d", "tls.crt", "tls.key", "x y", ".dot"}
	n := rng.Intn(5)
	m := map[string]string{}
	for i := 0; i < n; i++ {
		sz := rng.Intn(4)
		if rng.Intn(10) == 0 {
			sz = rng.Intn(70000)
		}
		m[names[rng.Intn(len(names))]] = hex.EncodeToString(rng.Bytes(sz))
	}
	return m
}

func randomCase(rng *lib.Rand, p []map[string]string) Case {
	bases := []string{"b", "x/y", "", "deep/er/base/dir"}
	nw := rng.Range(1, 4)
	var evs []Ev
	writes := 0
	for writes < nw {
		switch r := rng.Intn(10); {
		case r < 4:
			f := randomFiles(rng, p)
			evs = append(evs, crash(f, rng.Intn(hookPoints(f))))
		case r < 5:
			evs = append(evs, restart())
		default:
			evs = append(evs, write(randomFiles(rng, p)))
			writes++
		}
	}
	return mk("random", bases[rng.Intn(len(bases))], evs...)
}

func rawCase(rng *lib.Rand) Case {
	names := []string{"a", "b", "c"}
	path := func() string {
		d := rng.Range(1, 3)
		s := ""
		for i := 0; i < d; i++ {
			if i > 0 {
				s += "/"
			}
			s += names[rng.Intn(len(names))]
		}
		return s
	}
	var ops []RawOp
	n := rng.Range(5, 25)
	for i := 0; i < n; i++ {
		switch rng.Intn(9) {
		case 0, 1:
			ops = append(ops, RawOp{Op: "mkdirAll", P: path()})
		case 2, 3:
			ops = append(ops, RawOp{Op: "writeFile", P: path(), B: hex.EncodeToString(rng.Bytes(rng.Intn(3)))})
		case 4:
			ops = append(ops, RawOp{Op: "remove", P: path()})
		case 5:
			ops = append(ops, RawOp{Op: "removeIfExists", P: path()})
		case 6:
			ops = append(ops, RawOp{Op: "symlink", To: path(), P: path()})
		case 7:
			ops = append(ops, RawOp{Op: "rename", O: path(), N: path()})
		case 8:
			ops = append(ops, RawOp{Op: "removeAll", P: path()})
		}
	}
	return Case{Family: "rawfs", Base: "", TName: fmt.Sprintf("t%d", rng.Intn(10)), Raw: ops, Foreign: true}
}

// ---------- aliasing families ----------

// aliasPool: rotation-like sets — same names with same-length new contents (what a reused buffer
// or an in-place update needs to look "unchanged"), one file unchanged, a name dropped, a name
// added, the empty set, different lengths, a set identical to an earlier one — followed by some
// sets of the general pool.
func aliasPool(p []map[string]string) []map[string]string {
	ap := []map[string]string{
		{"cert.pem": hx("cert-1"), "key.pem": hx("key-1"), "ca.pem": hx("ca-1")},
		{"cert.pem": hx("cert-2"), "key.pem": hx("key-2"), "ca.pem": hx("ca-1")},
		{"cert.pem": hx("cert-3"), "ca.pem": hx("ca-3")},
		{},
		{"cert.pem": hx("cert-2"), "key.pem": hx("key-5"), "new.pem": hx("n")},
		{"cert.pem": hx("a-longer-cert-6"), "key.pem": ""},
		{"cert.pem": hx("cert-1"), "key.pem": hx("key-1"), "ca.pem": hx("ca-1")},
		{"key.pem": hx("key-8")},
		{"cert.pem": hx("cert-9"), "key.pem": hx("key-8")},
	}
	return append(ap, p[0], p[1], p[3], p[5], p[4])
}

func withAlias(c Case, mode string) Case {
	c.Alias = mode
	return c
}

func aliasCases(tier string, search bool, rng *lib.Rand, p []map[string]string) []Case {
	var cs []Case
	ap := aliasPool(p)
	full := tier == "thorough" || search
	off := rng.Intn(len(ap))
	bases := []string{"b", "x/y/z", ""}

	// crash-free histories of 2..4 Writes, every rotation of the pool, every mode
	for mi, mode := range aliasModes {
		for n := 2; n <= 4; n++ {
			for r := 0; r < len(ap); r++ {
				var evs []Ev
				for i := 0; i < n; i++ {
					evs = append(evs, write(pick(ap, r+i)))
				}
				cs = append(cs, withAlias(mk("alias-nocrash", bases[(n+r+mi)%len(bases)], evs...), mode))
			}
		}
		// the same set again and again, and A B A
		cs = append(cs,
			withAlias(mk("alias-nocrash", "b", write(ap[0]), write(ap[0]), write(ap[1]), write(ap[1])), mode),
			withAlias(mk("alias-nocrash", "b", write(ap[0]), write(ap[1]), write(ap[0]), write(ap[4])), mode),
			withAlias(mk("alias-nocrash", "b", write(ap[3]), write(ap[0]), write(ap[3]), write(ap[1])), mode))
	}

	// a Write killed at every hook point (panic) after one / two aliased Writes; the same caller goes
	// on with a fresh Dir (two more Writes, aliased with everything before)
	rots := 2
	if full {
		rots = len(ap)
	}
	for mi, mode := range aliasModes {
		for r := 0; r < rots; r++ {
			for lead := 1; lead <= 2; lead++ {
				f := pick(ap, off+r+lead)
				for at := 0; at < hookPoints(f); at++ {
					var evs []Ev
					for j := 0; j < lead; j++ {
						evs = append(evs, write(pick(ap, off+r+j)))
					}
					evs = append(evs, crash(f, at), write(pick(ap, off+r+lead+1)), write(pick(ap, off+r+lead+2)))
					cs = append(cs, withAlias(mk("alias-crash", bases[(mi+at)%len(bases)], evs...), mode))
				}
			}
		}
	}

	// real process death after two aliased Writes of the same Dir (all three in the child), then
	// recovery and one more Write in-process
	krots, kstep := 1, 2
	if full {
		krots, kstep = 4, 1
	}
	for mi, mode := range aliasModes {
		for r := 0; r < krots; r++ {
			f := pick(ap, off+r+2)
			for at := (mi + r) % kstep; at < hookPoints(f)-1; at += kstep {
				cs = append(cs, withAlias(mk("alias-kill", "b",
					write(pick(ap, off+r)), write(pick(ap, off+r+1)), kill(f, at), write(pick(ap, off+r+3)), write(pick(ap, off+r+4))), mode))
			}
		}
	}

	// a Write that FAILS (invalid name) between aliased Writes of one Dir: the Dir stays, whatever
	// it remembers about its last successful Write is one call older than the caller's memory
	bad := []map[string]string{
		{"cert.pem": hx("cert-7"), "sub/x": hx("1")},
		{"": hx("1")},
	}
	for _, mode := range aliasModes {
		for bi, b := range bad {
			c := mk("alias-badname", "b", write(ap[0]), write(b), write(ap[1]), write(b), write(pick(ap, 4+bi)))
			c.BadName = true
			cs = append(cs, withAlias(c, mode))
		}
	}

	// relative target, restart (clean, same caller)
	for mi, mode := range aliasModes {
		c := mk("alias-reltarget", "a", write(pick(ap, mi)), write(pick(ap, mi+1)), write(pick(ap, mi+2)))
		c.RelTgt = true
		cs = append(cs, withAlias(c, mode))
		cs = append(cs, withAlias(mk("alias-restart", "b", write(pick(ap, mi)), write(pick(ap, mi+1)), restart(), write(pick(ap, mi+2)), write(pick(ap, mi+3))), mode))
	}

	// seeded random: a random walk over sets (each derived from the previous one by same-length
	// value changes, dropped / added names, or a pool set), random mode, crashes and restarts
	nrand := 120
	if tier == "thorough" {
		nrand = 1500
	}
	if search {
		nrand = 3000
	}
	for i := 0; i < nrand; i++ {
		cs = append(cs, aliasRandomCase(rng.Fork(), ap))
	}
	return cs
}

func aliasRandomCase(rng *lib.Rand, ap []map[string]string) Case {
	bases := []string{"b", "x/y", ""}
	names := []string{"cert.pem", "key.pem", "ca.pem", "new.pem", "a", "b"}
	cur := map[string]string{}
	for k, v := range ap[rng.Intn(len(ap))] {
		cur[k] = v
	}
	step := func() map[string]string {
		switch r := rng.Intn(10); {
		case r == 0:
			cur = map[string]string{}
			for k, v := range ap[rng.Intn(len(ap))] {
				cur[k] = v
			}
		case r == 1:
			// unchanged set
		default:
			nxt := map[string]string{}
			for k, v := range cur {
				switch rng.Intn(6) {
				case 0: // dropped
				case 1, 2: // unchanged
					nxt[k] = v
				case 3: // different length
					nxt[k] = hex.EncodeToString(rng.Bytes(rng.Intn(12)))
				default: // same length, other bytes
					nxt[k] = hex.EncodeToString(rng.Bytes(len(v) / 2))
				}
			}
			if rng.Intn(3) == 0 {
				nxt[names[rng.Intn(len(names))]] = hex.EncodeToString(rng.Bytes(rng.Intn(8)))
			}
			cur = nxt
		}
		out := map[string]string{}
		for k, v := range cur {
			out[k] = v
		}
		return out
	}
	nw := rng.Range(2, 5)
	var evs []Ev
	writes := 0
	for writes < nw {
		switch r := rng.Intn(10); {
		case r < 2:
			f := step()
			evs = append(evs, crash(f, rng.Intn(hookPoints(f))))
		case r < 3:
			evs = append(evs, restart())
		default:
			evs = append(evs, write(step()))
			writes++
		}
	}
	return withAlias(mk("alias-random", bases[rng.Intn(len(bases))], evs...), aliasModes[rng.Intn(len(aliasModes))])
}
