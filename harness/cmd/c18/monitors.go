package main

import (
	"fmt"
	"os"
	"path/filepath"
	"strings"
	"sync"
	"time"
)

// Property monitors. They look only at the real file system and at what the harness itself asked
// for (the file maps it passed to Write); they never consult the Lean model.
//
//  (1) monitorReader — "target is absent (only before the first completed rename) or resolves to
//      a directory holding exactly the files of ONE Write call". Called at every hook point (the
//      reader of the property's quantifier), after every crash and after every Write.
//  (2) monitorAfterWrite — "after any crash a fresh Dir can Write successfully, after which the
//      target shows the new set" (checked for every Write of every history: all generated file
//      sets are valid, so an error is a failure of the property).
//  (3) monitorAfterWrite, pure histories — "without crashes only the current version directory
//      remains after each Write" (and no <target>.new).

func (w *world) monitorReader(when string) {
	if w.c.Foreign {
		return
	}
	w.readerOb++
	desc, m := w.observeTarget()
	switch {
	case desc == "absent":
		if w.renamed {
			w.res.Violate("target-absent-after-rename", "target is absent "+when+" although a Write already completed its Rename", w.c)
		}
		w.res.Hit("reader.absent")
	case desc == "dangling":
		w.res.Violate("target-dangling", "target is a dangling symlink "+when, w.c)
	case strings.HasPrefix(desc, "dir:") && m != nil:
		for _, s := range w.sets {
			if sameMap(s, m) {
				w.res.Hit("reader.complete-set")
				return
			}
		}
		w.res.Violate("target-partial-or-mixed", "target resolves to "+desc+" "+when+", which is not the file set of any single Write call", w.c)
	default:
		w.res.Violate("target-not-a-file-directory", "target resolves to "+desc+" "+when, w.c)
	}
}

func (w *world) monitorAfterWrite(i int, files map[string][]byte, cr callResult) {
	if w.c.Foreign {
		return
	}
	if w.c.BadName {
		// names outside the model (path separators): Write may fail, the target must stay complete
		w.monitorReader(fmt.Sprintf("after write #%d with an invalid file name (err=%s)", i, cr.errName))
		if cr.errName == "nil" && allValid(files) {
			// a Write with valid names that returned nil (also after a failed one on the same Dir):
			// "after which the target shows the new set"
			if desc, m := w.observeTarget(); m == nil || !sameMap(m, files) {
				w.res.Violate("target-not-new-set", fmt.Sprintf("Write #%d returned nil but target resolves to %s", i, desc), w.c)
			}
		}
		return
	}
	if cr.errName != "nil" {
		id := "write-fails"
		if cr.errName == "EEXIST" && strings.Contains(cr.errText, ".new") {
			id = "stale-new-blocks-writes"
		}
		fresh := "the same Dir"
		if !w.pure {
			fresh = "a Dir created after a crash/restart"
		}
		w.res.Violate(id, fmt.Sprintf("Write #%d by %s returned %s", i, fresh, cr.errText), w.c)
		w.monitorReader(fmt.Sprintf("after failed write #%d", i))
		return
	}
	desc, m := w.observeTarget()
	if m == nil || !sameMap(m, files) {
		w.res.Violate("target-not-new-set", fmt.Sprintf("Write #%d returned nil but target resolves to %s", i, desc), w.c)
	}
	des, _ := os.ReadDir(w.base)
	vers, stale := 0, false
	for _, de := range des {
		if _, ok := w.verIdx[de.Name()]; ok {
			vers++
		}
		if de.Name() == w.c.TName+".new" {
			stale = true
		}
	}
	if w.pure {
		cur, _ := filepath.EvalSymlinks(w.target)
		if vers != 1 || stale || filepath.Dir(cur) != mustEval(w.base) {
			w.res.Violate("leftover-version-dir-no-crash",
				fmt.Sprintf("after crash-free Write #%d: %d version directories, stale .new=%v", i, vers, stale), w.c)
		}
		w.res.Hit("nocrash.single-version-checked")
	} else {
		w.res.Hit(fmt.Sprintf("aftercrash.versions-left.%d", vers))
	}
}

func mustEval(p string) string {
	q, err := filepath.EvalSymlinks(p)
	if err != nil {
		return p
	}
	return q
}

// startReader runs a reader goroutine concurrently with the Writes: it resolves the symlink once
// (EvalSymlinks) and reads the directory it points to. A directory that disappears while being
// read (the old version being removed after the switch) is not a property failure — the sample is
// discarded; a snapshot that was read completely must be the set of one Write call.
func (w *world) startReader() func() {
	stop := make(chan struct{})
	var wg sync.WaitGroup
	wg.Add(1)
	go func() {
		defer wg.Done()
		for {
			select {
			case <-stop:
				return
			default:
			}
			real, err := filepath.EvalSymlinks(w.target)
			if err != nil {
				w.res.Hit("creader.unresolved")
				time.Sleep(20 * time.Microsecond)
				continue
			}
			des, err := os.ReadDir(real)
			if err != nil {
				w.res.Hit("creader.discarded")
				continue
			}
			m := map[string][]byte{}
			ok := true
			for _, de := range des {
				b, err := os.ReadFile(filepath.Join(real, de.Name()))
				if err != nil {
					ok = false
					break
				}
				m[de.Name()] = b
			}
			if !ok {
				w.res.Hit("creader.discarded")
				continue
			}
			// sets only grows and is appended before the Write starts; take a snapshot
			w.res.Hit("creader.snapshots")
			match := false
			for _, s := range w.snapshotSets() {
				if sameMap(s, m) {
					match = true
				}
			}
			if !match {
				// the target may have been switched (and the old version removed) during the read:
				// removal only ever follows the switch, so an unchanged resolution means the
				// directory was stable while we read it
				if real2, err := filepath.EvalSymlinks(w.target); err != nil || real2 != real {
					w.res.Hit("creader.discarded")
					continue
				}
				w.res.Violate("target-partial-or-mixed", fmt.Sprintf("concurrent reader saw %d files in %s that are not the set of a single Write", len(m), filepath.Base(real)), w.c)
			}
		}
	}()
	return func() { close(stop); wg.Wait() }
}

var setsMu sync.Mutex

func (w *world) snapshotSets() []map[string][]byte {
	setsMu.Lock()
	defer setsMu.Unlock()
	return append([]map[string][]byte(nil), w.sets...)
}
