package main

// Aliasing dimension of the write-sequence generators.
//
// The property speaks about "the complete set of files of a single Write call": the set is the
// VALUE of the argument at the time of the call. Go passes a map header and slice headers, so an
// implementation that keeps the argument (or its byte slices) beyond the call, and consults it
// later, silently follows whatever the caller does to that memory afterwards. Nothing in the API
// says Write keeps its argument, so every way of building the argument below is a legal caller.
// Cases with Case.Alias != "" build the argument of every Write of the history (across crashes and
// restarts: the caller survives a panic; after a real process death the caller is new too) with one
// `caller`:
//
//	map             one map object for all calls; before each call the caller deletes the names
//	                that are gone and assigns the entries whose content changed (files[k] = newV)
//	map-inplace     one map object; values of the same length are overwritten IN PLACE (copy into
//	                the slice passed before), others assigned
//	buf             a new map per call, the value of each name rendered into a per-name buffer
//	                that is reused (append(buf[:0], content...))
//	arena           a new map per call, all values sub-slices of ONE reused byte arena
//	after-next      fresh map and slices per call, but right AFTER Write returned the caller turns
//	                the map it had passed into the next set (entries deleted/added/assigned,
//	                same-length values overwritten in place) — and then passes a fresh copy
//	after-scribble  fresh map and slices per call; right AFTER Write returned the caller inverts
//	                every byte of every slice it had passed, deletes every entry and adds a junk one
//	fresh           a deep copy per call (control; same code path as the other modes)
//
// The monitors judge against SNAPSHOTS (decoded from the case, never handed to Write): after each
// successful Write, and again after the caller touched the memory it had passed, the target must
// resolve to exactly the set passed to THAT call as it was at the time of the call.

import (
	"bytes"
	"sort"
	"strconv"
)

var aliasModes = []string{"map", "map-inplace", "buf", "arena", "after-next", "after-scribble", "fresh"}

type caller struct {
	mode  string
	m     map[string][]byte
	bufs  map[string][]byte
	arena []byte
	last  map[string][]byte // the argument of the most recent call
}

func newCaller(mode string) *caller {
	if mode == "" {
		return nil
	}
	return &caller{mode: mode, bufs: map[string][]byte{}}
}

func cpBytes(b []byte) []byte { return append([]byte{}, b...) }

// arg builds the argument for a Write of the set `files` (a snapshot the caller only reads).
func (c *caller) arg(files map[string][]byte) map[string][]byte {
	var m map[string][]byte
	switch c.mode {
	case "map", "map-inplace":
		if c.m == nil {
			c.m = map[string][]byte{}
		}
		for k := range c.m {
			if _, ok := files[k]; !ok {
				delete(c.m, k)
			}
		}
		for k, v := range files {
			old, ok := c.m[k]
			switch {
			case ok && c.mode == "map-inplace" && len(old) == len(v):
				copy(old, v)
			case ok && c.mode == "map" && bytes.Equal(old, v):
				// unchanged entry: the caller does not touch it
			default:
				c.m[k] = cpBytes(v)
			}
		}
		m = c.m
	case "buf":
		m = map[string][]byte{}
		for k, v := range files {
			b := append(c.bufs[k][:0], v...)
			if b == nil {
				b = []byte{}
			}
			c.bufs[k] = b
			m[k] = b
		}
	case "arena":
		m = map[string][]byte{}
		if c.arena == nil {
			c.arena = make([]byte, 0, 1<<16)
		}
		names := make([]string, 0, len(files))
		for k := range files {
			names = append(names, k)
		}
		sort.Strings(names)
		a := c.arena[:0]
		for _, k := range names {
			v := files[k]
			if len(a)+len(v) <= cap(a) {
				s := len(a)
				a = append(a, v...)
				m[k] = a[s:len(a):len(a)]
			} else {
				m[k] = cpBytes(v)
			}
		}
	default: // fresh, after-next, after-scribble
		m = map[string][]byte{}
		for k, v := range files {
			m[k] = cpBytes(v)
		}
	}
	c.last = m
	return m
}

// after is what the caller does with the memory it had passed, right after Write returned (or
// died by a panic). next = the set of the caller's next Write, if there is one.
func (c *caller) after(next map[string][]byte, hasNext bool) {
	if c.last == nil {
		return
	}
	switch c.mode {
	case "after-scribble":
		for k, v := range c.last {
			for i := range v {
				v[i] ^= 0xff
			}
			delete(c.last, k)
		}
		c.last["junk"] = []byte("junk")
	case "after-next":
		if !hasNext {
			return
		}
		for k := range c.last {
			if _, ok := next[k]; !ok {
				delete(c.last, k)
			}
		}
		for k, v := range next {
			if old, ok := c.last[k]; ok && len(old) == len(v) {
				copy(old, v)
			} else {
				c.last[k] = cpBytes(v)
			}
		}
	}
}

// nextFiles: the set of the next write/crash event after index i (the caller's next call).
func nextFiles(evs []Ev, i int) (map[string][]byte, bool) {
	for j := i + 1; j < len(evs); j++ {
		if evs[j].Kind == "write" || evs[j].Kind == "crash" {
			return decodeFiles(evs[j].Files), true
		}
	}
	return nil, false
}

// monitorAfterCallerMutation: the caller has just modified the map / slices it had passed to
// Write #i (or the next call's preparation did). The target must be unaffected: still one
// complete set of a single Write call, and — if Write #i returned nil — still exactly ITS set.
func (w *world) monitorAfterCallerMutation(i int, files map[string][]byte, cr callResult) {
	if w.c.Foreign {
		return
	}
	when := "after the caller modified the map/slices it had passed to write #" + itoa(i) + " (alias mode " + w.c.Alias + ")"
	w.monitorReader(when)
	if !cr.crashed && cr.errName == "nil" && allValid(files) {
		desc, m := w.observeTarget()
		if m == nil || !sameMap(m, files) {
			w.res.Violate("target-not-new-set", "Write #"+itoa(i)+" returned nil but "+when+" the target resolves to "+desc, w.c)
		}
	}
}

func allValid(files map[string][]byte) bool {
	for k := range files {
		if !validName(k) {
			return false
		}
	}
	return true
}

func itoa(i int) string { return strconv.Itoa(i) }
