package main

// Real process death. A panic from the hook callback unwinds the goroutine: deferred functions of
// Write run, so a "cleanup in defer" looks crash-safe to the panic family although it never runs
// when the process is killed. For crash events with kill=true the Writes of the dying Dir are
// therefore executed by a CHILD process (this same binary, `--child-write <spec.json>`) which
// sends itself SIGKILL from the hook callback; nothing after the hook runs, no defer, no exit
// handler. The child appends one line per hook invocation to a trace file BEFORE it dies (the
// write(2) has completed, the data survives the death); the parent reads the trace, inspects the
// real tree, diffs it with the model and applies the same monitors.

import (
	"bufio"
	"encoding/hex"
	"encoding/json"
	"fmt"
	"io"
	"os"
	"os/exec"
	"path/filepath"
	"strconv"
	"strings"
	"syscall"
	"time"

	"github.com/dapr/kit/concurrency/dir"
	"github.com/dapr/kit/logger"
	"github.com/dapr/kit/verifhook"

	"verifharness/lib"
)

type childSpec struct {
	Target  string              `json:"target"` // as passed to dir.Options (absolute, or relative to Cwd)
	Cwd     string              `json:"cwd"`
	Writes  []map[string]string `json:"writes"`   // consecutive Writes of ONE Dir instance
	CrashAt int                 `json:"crash_at"` // hook invocation of the LAST Write at which the process kills itself (-1: never)
	Trace   string              `json:"trace"`
	Alias   string              `json:"alias,omitempty"` // how the caller builds the arguments (alias.go)
}

// childMain is the whole child process.
func childMain(specPath string) {
	b, err := os.ReadFile(specPath)
	var sp childSpec
	if err != nil || json.Unmarshal(b, &sp) != nil {
		fmt.Fprintln(os.Stderr, "child: bad spec")
		os.Exit(3)
	}
	if sp.Cwd != "" {
		if err := os.Chdir(sp.Cwd); err != nil {
			fmt.Fprintln(os.Stderr, "child:", err)
			os.Exit(3)
		}
	}
	tr, err := os.OpenFile(sp.Trace, os.O_CREATE|os.O_WRONLY|os.O_APPEND, 0o644)
	if err != nil {
		fmt.Fprintln(os.Stderr, "child:", err)
		os.Exit(3)
	}
	line := func(f string, a ...any) {
		// one write(2) per line, unbuffered: complete before anything else happens
		tr.WriteString(fmt.Sprintf(f, a...) + "\n")
	}
	log := logger.NewLogger("verif-c18-child")
	log.SetOutput(io.Discard)
	log.SetOutputLevel(logger.FatalLevel)
	d := dir.New(dir.Options{Log: log, Target: sp.Target})
	cl := newCaller(sp.Alias)
	for i, fs := range sp.Writes {
		last := i == len(sp.Writes)-1
		inv := 0
		verifhook.Set(func(name string, args ...any) {
			if name != "dir.write.step" || len(args) == 0 {
				return
			}
			k, _ := args[0].(int)
			arg := ""
			if len(args) > 1 {
				if s, ok := args[1].(string); ok {
					arg = s
				}
			}
			line("H %d %d %s", k, inv, hex.EncodeToString([]byte(arg)))
			if last && inv == sp.CrashAt {
				line("K %d", inv)
				syscall.Kill(os.Getpid(), syscall.SIGKILL)
				select {} // never reached further: the signal is not catchable
			}
			inv++
		})
		line("B %d", i)
		arg := decodeFiles(fs)
		if cl != nil {
			arg = cl.arg(arg)
		}
		err := d.Write(arg)
		if cl != nil {
			if !last {
				cl.after(decodeFiles(sp.Writes[i+1]), true)
			} else {
				cl.after(nil, false)
			}
		}
		txt := ""
		if err != nil {
			txt = err.Error()
		}
		line("R %d %s %s", i, errName(err), hex.EncodeToString([]byte(txt)))
	}
	verifhook.Set(nil)
	os.Exit(0)
}

// killSegment: if the events from i on are Writes followed by a crash with kill=true (no restart
// in between), return the index of that crash, else -1.
func killSegment(evs []Ev, i int) int {
	for j := i; j < len(evs); j++ {
		switch evs[j].Kind {
		case "write":
		case "crash":
			if evs[j].Kill {
				return j
			}
			return -1
		default:
			return -1
		}
	}
	return -1
}

// childSegment runs events i..j (Writes, then the killed Write) of one fresh Dir in a child.
func (w *world) childSegment(drv *lib.Drv, i, j int, nontrivial *bool) bool {
	c, res := w.c, w.res
	sp := childSpec{Target: w.target, CrashAt: c.Events[j].CrashAt, Alias: c.Alias,
		Trace: filepath.Join(filepath.Dir(w.root), fmt.Sprintf("%s.trace.%d", filepath.Base(w.root), i))}
	if c.RelTgt {
		sp.Target = filepath.Join(append(append([]string{}, w.baseRel...), c.TName)...)
		sp.Cwd = w.root
	}
	var fileSets []map[string][]byte
	for e := i; e <= j; e++ {
		sp.Writes = append(sp.Writes, c.Events[e].Files)
		fs := decodeFiles(c.Events[e].Files)
		fileSets = append(fileSets, fs)
		setsMu.Lock()
		w.sets = append(w.sets, fs)
		setsMu.Unlock()
		res.Hit("event." + c.Events[e].Kind)
		res.Hit(fmt.Sprintf("files.%d", len(fs)))
	}
	specPath := sp.Trace + ".spec.json"
	b, _ := json.Marshal(sp)
	os.WriteFile(specPath, b, 0o644)
	os.Remove(sp.Trace)
	defer os.Remove(specPath)
	defer os.Remove(sp.Trace)

	cmd := exec.Command(os.Args[0], "--child-write", specPath)
	cmd.Stderr = os.Stderr
	if err := cmd.Start(); err != nil {
		res.Note("cannot start child process: " + err.Error())
		return false
	}
	done := make(chan error, 1)
	go func() { done <- cmd.Wait() }()
	timedOut := false
	select {
	case <-done:
	case <-time.After(60 * time.Second):
		cmd.Process.Kill()
		<-done
		timedOut = true
	}
	killed := false
	if ws, ok := cmd.ProcessState.Sys().(syscall.WaitStatus); ok && ws.Signaled() && ws.Signal() == syscall.SIGKILL && !timedOut {
		killed = true
		res.Hit("child.died-by-SIGKILL")
	} else if cmd.ProcessState.ExitCode() == 0 {
		res.Hit("child.exited-normally")
	} else if !timedOut {
		res.Note(fmt.Sprintf("child process failed: %v", cmd.ProcessState))
		return false
	}

	// read the trace
	calls := make([]callResult, len(fileSets))
	began := make([]bool, len(fileSets))
	returned := make([]bool, len(fileSets))
	cur := -1
	hadPrev := false
	if f, err := os.Open(sp.Trace); err == nil {
		sc := bufio.NewScanner(f)
		sc.Buffer(make([]byte, 1<<20), 1<<20)
		for sc.Scan() {
			fl := strings.Fields(sc.Text())
			if len(fl) < 2 {
				continue
			}
			switch fl[0] {
			case "B":
				cur, _ = strconv.Atoi(fl[1])
				if cur >= 0 && cur < len(calls) {
					began[cur] = true
				}
			case "H":
				if cur < 0 || cur >= len(calls) || len(fl) < 3 {
					continue
				}
				k, _ := strconv.Atoi(fl[1])
				arg := ""
				if len(fl) > 3 {
					ab, _ := hex.DecodeString(fl[3])
					arg = string(ab)
				}
				cr := &calls[cur]
				cr.hookIDs = append(cr.hookIDs, k)
				cr.invs++
				switch k {
				case 0:
					name := filepath.Base(arg)
					w.verIdx[name] = i + cur + w.shift
					if m := verRe.FindStringSubmatch(name); m != nil {
						st, _ := strconv.ParseInt(m[1], 10, 64)
						w.stamps = append(w.stamps, st)
					}
				case 3:
					cr.opsDone++
					cr.written = append(cr.written, arg)
				case 7:
					if hadPrev {
						cr.opsDone++
					}
				default:
					cr.opsDone++
				}
				if k == 6 {
					w.renamed = true
				}
			case "R":
				idx, _ := strconv.Atoi(fl[1])
				if idx >= 0 && idx < len(calls) && len(fl) >= 3 {
					returned[idx] = true
					calls[idx].errName = fl[2]
					if len(fl) > 3 {
						tb, _ := hex.DecodeString(fl[3])
						calls[idx].errText = string(tb)
					}
					if fl[2] == "nil" {
						hadPrev = true
					}
				}
			}
		}
		f.Close()
	}
	for e := range calls {
		if timedOut && began[e] && !returned[e] {
			calls[e].timeout = true
		}
		if killed && began[e] && !returned[e] {
			calls[e].crashed = true
		}
		if !began[e] {
			// the process died before this Write started (only possible after a kill): nothing to judge
			res.Note(fmt.Sprintf("child: write #%d never started", i+e))
			return false
		}
	}
	if killed {
		res.Hit("crash.real-death")
	}
	// judge: earlier Writes of the segment only advance the model; the tree is observable now,
	// after the last one
	for e := range calls {
		last := e == len(calls)-1
		if !w.afterCall(drv, i+e, fileSets[e], calls[e], last, nontrivial) {
			return false
		}
	}
	// the process is gone in any case: whatever follows is done by a fresh Dir
	if !calls[len(calls)-1].crashed {
		// the child ran to its end (crash point beyond the last hook): tell the model that the Dir
		// is gone nevertheless; this consumes one model event index
		w.compare(drv, "crash k=0 files=", "nil", "restart")
		w.res.Count("", false)
		w.shift++
	}
	w.d, w.hasPrev, w.pure = nil, false, false
	return true
}
