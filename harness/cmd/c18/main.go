// Harness for property C18 (concurrency/dir: Dir.Write).
//
// Runs the REAL dir.Write in-process against a sandbox directory below --work, kills it at every
// verifhook point "dir.write.step" (panic from the hook callback, recovered at the call
// boundary), recovers with a fresh Dir, and after every step compares the real directory tree
// with the tree of the Lean model (kitdrv C18). Version-directory names are canonicalised to the
// index of the Write call that created them. Independent of the model, three monitors decide the
// clauses of the property on the implementation (see monitors.go).
package main

import (
	"encoding/hex"
	"encoding/json"
	"errors"
	"fmt"
	"io"
	"io/fs"
	"os"
	"path/filepath"
	"regexp"
	"sort"
	"strconv"
	"strings"
	"syscall"
	"time"

	"github.com/dapr/kit/concurrency/dir"
	"github.com/dapr/kit/logger"
	"github.com/dapr/kit/verifhook"

	"verifharness/lib"
)

// ---------- cases ----------

type Ev struct {
	Kind    string            `json:"kind"`               // write | crash | restart
	Files   map[string]string `json:"files,omitempty"`    // name -> hex(bytes)
	CrashAt int               `json:"crash_at,omitempty"` // hook invocation (0-based) at which the Write is killed
	Kill    bool              `json:"kill,omitempty"`     // crash = real process death: the Writes of this Dir run in a child process that SIGKILLs itself at the hook (otherwise: panic from the hook, recovered at the call boundary)
}

type RawOp struct {
	Op string `json:"op"`
	P  string `json:"p,omitempty"`
	To string `json:"to,omitempty"`
	O  string `json:"o,omitempty"`
	N  string `json:"n,omitempty"`
	B  string `json:"b,omitempty"`
}

type Case struct {
	Family  string     `json:"family"`
	Base    string     `json:"base"`  // base directory below the sandbox root ("" = the root)
	TName   string     `json:"tname"` // last component of the target
	Pre     []RawOp    `json:"pre,omitempty"`
	Events  []Ev       `json:"events,omitempty"`
	Raw     []RawOp    `json:"raw,omitempty"`
	Foreign bool       `json:"foreign,omitempty"`    // foreign entries planted: property monitors off, model comparison on
	BadName bool       `json:"bad_name,omitempty"`   // some file name is not a single path component: the model says the Write fails at that file (BADNAME), the implementation's concrete errno is not compared
	Clock0  int        `json:"clock0,omitempty"`     // version ids below this belong to earlier processes (pre-planted as @v<n>); the first Write of the case gets id clock0
	Reader  bool       `json:"reader,omitempty"`     // run a concurrent reader goroutine
	RelTgt  bool       `json:"rel_target,omitempty"` // Options.Target is given relative to the working directory (= sandbox root)
	Multi   *MultiCase `json:"multi,omitempty"`      // several targets in one base directory (multi.go); the single-target fields above are unused
	Alias   string     `json:"alias,omitempty"`      // how the caller builds the argument of consecutive Writes (see alias.go): shared map, reused buffers, mutation after return; "" = a fresh map per call, never touched again
}

func (c Case) key() string {
	b, _ := json.Marshal(c)
	return string(b)
}

type crashSignal struct{}

// ---------- the world of one case ----------

type world struct {
	c        Case
	root     string
	base     string
	target   string
	baseRel  []string
	verIdx   map[string]int      // real version dir name -> index of the creating Write call
	stamps   []int64             // stamps in creation order
	sets     []map[string][]byte // file maps of every Write call started so far
	renamed  bool                // some Write got past Rename
	pure     bool                // no crash/restart so far (single Dir history)
	d        *dir.Dir
	hasPrev  bool // live Dir completed a Write before
	evIdx    int
	shift    int // model events inserted by the harness (restart after a child that exited normally)
	res      *lib.Result
	log      logger.Logger
	readerOb int
}

var verRe = regexp.MustCompile(`^(\d+)-(.*)$`)

func safeName(s string) string {
	ok := s != ""
	for _, r := range s {
		if !(r >= 'a' && r <= 'z' || r >= 'A' && r <= 'Z' || r >= '0' && r <= '9' || r == '.' || r == '_' || r == '-') {
			ok = false
		}
	}
	if ok {
		return s
	}
	return "%" + hex.EncodeToString([]byte(s))
}

func (w *world) canonComps(comps []string) string {
	out := make([]string, len(comps))
	for i, c := range comps {
		out[i] = safeName(c)
	}
	if len(comps) > len(w.baseRel) {
		inBase := true
		for i := range w.baseRel {
			if comps[i] != w.baseRel[i] {
				inBase = false
			}
		}
		if inBase {
			n := comps[len(w.baseRel)]
			switch {
			case n == w.c.TName:
				out[len(w.baseRel)] = "@T"
			case n == w.c.TName+".new":
				out[len(w.baseRel)] = "@T.new"
			default:
				if idx, ok := w.verIdx[n]; ok {
					out[len(w.baseRel)] = "@v" + strconv.Itoa(idx)
				}
			}
		}
	}
	return strings.Join(out, "/")
}

func splitRel(rel string) []string {
	if rel == "" || rel == "." {
		return nil
	}
	return strings.Split(filepath.ToSlash(rel), "/")
}

func (w *world) canonAbs(p string) string {
	rel, err := filepath.Rel(w.root, p)
	if err != nil || strings.HasPrefix(rel, "..") {
		return "!outside:" + safeName(p)
	}
	return w.canonComps(splitRel(rel))
}

func (w *world) scan() string {
	var ents []string
	filepath.WalkDir(w.root, func(p string, de fs.DirEntry, err error) error {
		if err != nil || p == w.root {
			return nil
		}
		info, err := os.Lstat(p)
		if err != nil {
			return nil
		}
		cp := w.canonAbs(p)
		switch {
		case info.Mode()&os.ModeSymlink != 0:
			to, _ := os.Readlink(p)
			if !filepath.IsAbs(to) {
				// a relative link is resolved against the directory that holds it
				to = filepath.Join(filepath.Dir(p), to)
			}
			ents = append(ents, cp+"|l:"+w.canonAbs(to))
		case info.IsDir():
			ents = append(ents, cp+"|d")
		default:
			b, _ := os.ReadFile(p)
			ents = append(ents, cp+"|f:"+hex.EncodeToString(b))
		}
		return nil
	})
	sort.Strings(ents)
	return strings.Join(ents, ";")
}

func (w *world) versions() string {
	des, _ := os.ReadDir(w.base)
	var ids []int
	for _, de := range des {
		if idx, ok := w.verIdx[de.Name()]; ok {
			ids = append(ids, idx)
		}
	}
	sort.Ints(ids)
	s := make([]string, len(ids))
	for i, v := range ids {
		s[i] = strconv.Itoa(v)
	}
	return strings.Join(s, ",")
}

// observeTarget is what a reader sees through the symlink: os.Stat + ReadDir + ReadFile.
// Returns the canonical description and, when it is a directory of regular files, the file map.
func (w *world) observeTarget() (string, map[string][]byte) {
	st, err := os.Stat(w.target)
	if err != nil {
		if _, lerr := os.Lstat(w.target); lerr == nil {
			return "dangling", nil
		}
		return "absent", nil
	}
	if !st.IsDir() {
		return "other", nil
	}
	des, err := os.ReadDir(w.target)
	if err != nil {
		return "unreadable:" + errName(err), nil
	}
	m := map[string][]byte{}
	var ents []string
	plain := true
	for _, de := range des {
		p := filepath.Join(w.target, de.Name())
		info, err := os.Lstat(p)
		if err != nil {
			return "unreadable:" + errName(err), nil
		}
		switch {
		case info.Mode().IsRegular():
			b, err := os.ReadFile(p)
			if err != nil {
				return "unreadable:" + errName(err), nil
			}
			m[de.Name()] = b
			ents = append(ents, safeName(de.Name())+"=f:"+hex.EncodeToString(b))
		case info.IsDir():
			plain = false
			ents = append(ents, safeName(de.Name())+"=d")
		default:
			plain = false
			to, _ := os.Readlink(p)
			ents = append(ents, safeName(de.Name())+"=l:"+w.canonAbs(to))
		}
	}
	sort.Strings(ents)
	if !plain {
		m = nil
	}
	return "dir:" + strings.Join(ents, ","), m
}

func errName(err error) string {
	if err == nil {
		return "nil"
	}
	for _, e := range []struct {
		no   syscall.Errno
		name string
	}{{syscall.EEXIST, "EEXIST"}, {syscall.ENOENT, "ENOENT"}, {syscall.ENOTDIR, "ENOTDIR"}, {syscall.EISDIR, "EISDIR"},
		{syscall.ENOTEMPTY, "ENOTEMPTY"}, {syscall.EINVAL, "EINVAL"}, {syscall.EBUSY, "EBUSY"}, {syscall.ELOOP, "ELOOP"}} {
		if errors.Is(err, e.no) {
			return e.name
		}
	}
	return "OTHER(" + strings.ReplaceAll(err.Error(), " ", "_") + ")"
}

func decodeFiles(f map[string]string) map[string][]byte {
	m := map[string][]byte{}
	for k, v := range f {
		b, _ := hex.DecodeString(v)
		m[k] = b
	}
	return m
}

func sameMap(a, b map[string][]byte) bool {
	if len(a) != len(b) {
		return false
	}
	for k, v := range a {
		w, ok := b[k]
		if !ok || string(v) != string(w) {
			return false
		}
	}
	return true
}

// ---------- one Write call under hooks ----------

type callResult struct {
	err      error
	errName  string // canonical errno name ("nil" = success); filled for in-process and child calls
	errText  string
	crashed  bool
	panicVal any
	timeout  bool
	opsDone  int
	written  []string
	hookIDs  []int
	invs     int
}

func (w *world) callWrite(files map[string][]byte, crashAt int) callResult {
	var cr callResult
	hadPrev := w.hasPrev
	evIdx := w.evIdx
	verifhook.Set(func(name string, args ...any) {
		if name != "dir.write.step" || len(args) == 0 {
			return
		}
		k, _ := args[0].(int)
		cr.hookIDs = append(cr.hookIDs, k)
		switch k {
		case 0:
			if len(args) > 1 {
				if nd, ok := args[1].(string); ok {
					name := filepath.Base(nd)
					w.verIdx[name] = evIdx + w.shift
					if m := verRe.FindStringSubmatch(name); m != nil {
						st, _ := strconv.ParseInt(m[1], 10, 64)
						w.stamps = append(w.stamps, st)
					}
				}
			}
		case 3:
			cr.opsDone++
			if len(args) > 1 {
				if f, ok := args[1].(string); ok {
					cr.written = append(cr.written, f)
				}
			}
		case 7:
			if hadPrev {
				cr.opsDone++
			}
		default:
			cr.opsDone++
		}
		if k == 6 {
			w.renamed = true
		}
		w.monitorReader(fmt.Sprintf("during write #%d at hook %d (invocation %d)", evIdx, k, cr.invs))
		inv := cr.invs
		cr.invs++
		if inv == crashAt {
			panic(crashSignal{})
		}
	})
	defer verifhook.Set(nil)
	done := make(chan struct{})
	d := w.d
	go func() {
		defer func() {
			if r := recover(); r != nil {
				if _, ok := r.(crashSignal); ok {
					cr.crashed = true
				} else {
					cr.panicVal = r
				}
			}
			close(done)
		}()
		cr.err = d.Write(files)
	}()
	select {
	case <-done:
	case <-time.After(30 * time.Second):
		cr.timeout = true
	}
	cr.errName = errName(cr.err)
	if cr.err != nil {
		cr.errText = cr.err.Error()
	}
	return cr
}

// ---------- model side ----------

func filesArg(order []string, files map[string][]byte) string {
	seen := map[string]bool{}
	var parts []string
	add := func(n string) {
		if seen[n] {
			return
		}
		seen[n] = true
		parts = append(parts, hex.EncodeToString([]byte(n))+":"+hex.EncodeToString(files[n]))
	}
	for _, n := range order {
		add(n)
	}
	rest := make([]string, 0, len(files))
	for n := range files {
		rest = append(rest, n)
	}
	sort.Strings(rest)
	// a Write stops at the first invalid name: it is the next one after those written
	for _, n := range rest {
		if !validName(n) {
			add(n)
		}
	}
	for _, n := range rest {
		add(n)
	}
	return strings.Join(parts, ",")
}

// validName mirrors Kit.Dir.validName: one path component.
func validName(n string) bool {
	return n != "" && n != "." && n != ".." && !strings.ContainsAny(n, "/\x00")
}

func parseAnswer(s string) map[string]string {
	m := map[string]string{}
	for _, f := range strings.Fields(s) {
		if i := strings.IndexByte(f, '='); i >= 0 {
			m[f[:i]] = f[i+1:]
		}
	}
	return m
}

func (w *world) compare(drv *lib.Drv, line, implErr, what string) {
	w.compareObs(drv, line, implErr, what, true)
}

// compareObs advances the model by one event; with observe=false (the real tree is not observable
// now: the event happened inside a child process that went on) only the error is compared.
func (w *world) compareObs(drv *lib.Drv, line, implErr, what string, observe bool) {
	if drv == nil {
		return
	}
	ans, err := drv.Ask(line)
	if err != nil {
		w.res.Disagree("C18/driver", map[string]any{"case": w.c, "line": line}, "driver error: "+err.Error(), "")
		return
	}
	m := parseAnswer(ans)
	if m["err"] == "BADNAME" && implErr != "nil" {
		implErr = "BADNAME" // the model does not say which errno an invalid name produces
	}
	if !observe {
		if m["err"] != implErr {
			w.res.Disagree("C18/"+what+"/err", map[string]any{"case": w.c, "event": w.evIdx, "line": line}, "err="+m["err"], "err="+implErr)
		}
		return
	}
	tgt, _ := w.observeTarget()
	impl := map[string]string{"err": implErr, "tree": w.scan(), "target": tgt, "vers": w.versions()}
	for _, k := range []string{"err", "tree", "target", "vers"} {
		if m[k] != impl[k] {
			w.res.Disagree("C18/"+what+"/"+k, map[string]any{"case": w.c, "event": w.evIdx, "line": line},
				k+"="+m[k], k+"="+impl[k])
			return
		}
	}
	w.res.Traces++
}

// ---------- running a case ----------

func newWorld(c Case, work string, n int, res *lib.Result) (*world, error) {
	root := filepath.Join(work, fmt.Sprintf("c18-sandbox-%d", n))
	os.RemoveAll(root)
	if err := os.MkdirAll(root, 0o777); err != nil {
		return nil, err
	}
	w := &world{c: c, root: root, verIdx: map[string]int{}, pure: true, res: res}
	w.baseRel = splitRel(c.Base)
	w.base = filepath.Join(append([]string{root}, w.baseRel...)...)
	w.target = filepath.Join(w.base, c.TName)
	w.log = logger.NewLogger("verif-c18")
	w.log.SetOutput(io.Discard)
	w.log.SetOutputLevel(logger.FatalLevel)
	return w, nil
}

func (w *world) abs(p string) string {
	// model path syntax -> real path: @T, @T.new are names in base
	comps := splitRel(p)
	for i, c := range comps {
		switch c {
		case "@T":
			comps[i] = w.c.TName
		case "@T.new":
			comps[i] = w.c.TName + ".new"
		default:
			// @v<n>: version directory of an earlier process (small stamp n+1)
			if strings.HasPrefix(c, "@v") {
				if n, err := strconv.Atoi(c[2:]); err == nil {
					name := fmt.Sprintf("%d-%s", n+1, w.c.TName)
					w.verIdx[name] = n
					comps[i] = name
				}
			}
		}
	}
	return filepath.Join(append([]string{w.root}, comps...)...)
}

func (w *world) applyRaw(op RawOp) error {
	switch op.Op {
	case "mkdirAll":
		return os.MkdirAll(w.abs(op.P), 0o777)
	case "writeFile":
		b, _ := hex.DecodeString(op.B)
		return os.WriteFile(w.abs(op.P), b, 0o777)
	case "remove":
		return os.Remove(w.abs(op.P))
	case "removeIfExists":
		if err := os.Remove(w.abs(op.P)); err != nil && !os.IsNotExist(err) {
			return err
		}
		return nil
	case "symlink":
		return os.Symlink(w.abs(op.To), w.abs(op.P))
	case "rename":
		return os.Rename(w.abs(op.O), w.abs(op.N))
	case "removeAll":
		return os.RemoveAll(w.abs(op.P))
	}
	return fmt.Errorf("unknown raw op %q", op.Op)
}

func rawLine(op RawOp) string {
	s := "raw op=" + op.Op
	if op.P != "" || op.Op != "rename" {
		s += " p=" + op.P
	}
	if op.Op == "symlink" {
		s += " to=" + op.To
	}
	if op.Op == "rename" {
		s += " o=" + op.O + " n=" + op.N
	}
	if op.Op == "writeFile" {
		s += " b=" + op.B
	}
	return s
}

// rawStep applies one raw op to model and implementation. The model is asked first: operations
// it declares outside its scope (UNMODELLED: symlinked ancestors, writes through symlinks) are
// not applied to the real file system either.
func (w *world) rawStep(drv *lib.Drv, op RawOp, what string) {
	w.res.Hit("raw." + op.Op)
	if drv != nil {
		ans, err := drv.Ask(rawLine(op))
		if err != nil {
			w.res.Disagree("C18/driver", map[string]any{"case": w.c, "op": op}, err.Error(), "")
			return
		}
		m := parseAnswer(ans)
		if m["err"] == "UNMODELLED" {
			w.res.Hit("raw.skipped-unmodelled")
			return
		}
		err = w.applyRaw(op)
		w.res.Hit("raw.err." + errName(err))
		impl := map[string]string{"err": errName(err), "tree": w.scan()}
		for _, k := range []string{"err", "tree"} {
			if m[k] != impl[k] {
				w.res.Disagree("C18/"+what+"/"+k, map[string]any{"case": w.c, "op": op}, k+"="+m[k], k+"="+impl[k])
				return
			}
		}
		w.res.Traces++
		return
	}
	err := w.applyRaw(op)
	w.res.Hit("raw.err." + errName(err))
}

func runCase(c Case, drv *lib.Drv, res *lib.Result, work string, n int) {
	if c.Multi != nil {
		runMulti(c, res, work, n)
		return
	}
	w, err := newWorld(c, work, n, res)
	if err != nil {
		res.Note("sandbox: " + err.Error())
		return
	}
	defer os.RemoveAll(w.root)
	res.Hit("family." + c.Family)
	w.shift = c.Clock0
	if c.RelTgt {
		if cwd, err := os.Getwd(); err == nil {
			defer os.Chdir(cwd)
		}
		if err := os.Chdir(w.root); err != nil {
			res.Note("chdir: " + err.Error())
			return
		}
	}
	if drv != nil {
		if _, err := drv.Ask(fmt.Sprintf("reset base=%s clock=%d", w.canonComps(w.baseRel), c.Clock0)); err != nil {
			res.Disagree("C18/driver", c, err.Error(), "")
			return
		}
	}
	for _, op := range c.Pre {
		w.rawStep(drv, op, "pre")
		res.Count("", false)
	}
	for _, op := range c.Raw {
		w.rawStep(drv, op, "rawfs")
		res.Count("", false)
	}
	var stopReader func()
	if c.Reader {
		stopReader = w.startReader()
	}
	nontrivial := false
	skipTo := 0
	cl := newCaller(c.Alias)
	if cl != nil {
		res.Hit("alias." + c.Alias)
	}
	for i, ev := range c.Events {
		if i < skipTo {
			continue
		}
		w.evIdx = i
		// a run of Writes by one fresh Dir that ends in a real process death: done by a child
		if j := killSegment(c.Events, i); j >= 0 && w.d == nil {
			if !w.childSegment(drv, i, j, &nontrivial) {
				return
			}
			skipTo = j + 1
			// the caller died with its process: the Writes that follow come from a new one
			cl = newCaller(c.Alias)
			continue
		}
		res.Hit("event." + ev.Kind)
		files := decodeFiles(ev.Files)
		switch ev.Kind {
		case "restart":
			w.d, w.hasPrev, w.pure = nil, false, false
			w.compare(drv, "crash k=0 files=", "nil", "restart")
			res.Count("", false)
			continue
		case "write", "crash":
		default:
			res.Note("unknown event kind " + ev.Kind)
			continue
		}
		if w.d == nil {
			tg := w.target
			if c.RelTgt {
				tg = filepath.Join(append(append([]string{}, w.baseRel...), c.TName)...)
			}
			w.d = dir.New(dir.Options{Log: w.log, Target: tg})
			w.hasPrev = false
		}
		setsMu.Lock()
		w.sets = append(w.sets, files)
		setsMu.Unlock()
		res.Hit(fmt.Sprintf("files.%d", len(files)))
		crashAt := -1
		if ev.Kind == "crash" {
			crashAt = ev.CrashAt
		}
		// files is the snapshot the monitors judge against; with an alias mode the argument is
		// built by the caller object and shares memory with the arguments of its other calls
		arg := files
		if cl != nil {
			arg = cl.arg(files)
			if !sameMap(arg, files) {
				res.Note(fmt.Sprintf("harness bug: alias mode %s built an argument that differs from the set of write #%d", c.Alias, i))
				return
			}
		}
		cr := w.callWrite(arg, crashAt)
		if !w.afterCall(drv, i, files, cr, true, &nontrivial) {
			return
		}
		if cl != nil {
			nf, has := nextFiles(c.Events, i)
			cl.after(nf, has)
			w.monitorAfterCallerMutation(i, files, cr)
		}
	}
	if stopReader != nil {
		stopReader()
	}
	if len(c.Events) >= 2 {
		nontrivial = nontrivial || overlapping(c.Events)
	}
	res.Count(c.key(), nontrivial)
	res.Evaluations-- // the case itself is not an extra evaluation; events were counted
	if nontrivial {
		res.Sample(c)
	}
}

// afterCall judges one finished/killed Write: model comparison and monitors. observe=false: the
// call happened earlier inside a child process, only the model is advanced (error compared).
func (w *world) afterCall(drv *lib.Drv, i int, files map[string][]byte, cr callResult, observe bool, nontrivial *bool) bool {
	c, res := w.c, w.res
	w.evIdx = i
	switch {
	case cr.timeout:
		res.Violate("write-hangs", fmt.Sprintf("Write #%d did not return within 30s", i), c)
		return false
	case cr.panicVal != nil:
		res.Violate("write-panics", fmt.Sprintf("Write #%d panicked: %v", i, cr.panicVal), c)
		return false
	}
	if len(w.stamps) >= 2 && w.stamps[len(w.stamps)-1] <= w.stamps[len(w.stamps)-2] {
		res.Violate("version-stamp-not-increasing",
			fmt.Sprintf("Write #%d got UnixNano stamp %d after %d: version directory names are not fresh (model assumption broken)",
				i, w.stamps[len(w.stamps)-1], w.stamps[len(w.stamps)-2]), c)
	}
	total := len(files) + 5
	if w.hasPrev {
		total++
	}
	if cr.crashed {
		if len(cr.hookIDs) > 0 {
			res.Hit(fmt.Sprintf("crash.afterHook%d", cr.hookIDs[len(cr.hookIDs)-1]))
		}
		if cr.opsDone > 0 && cr.opsDone < total {
			*nontrivial = true
		}
		w.d, w.hasPrev, w.pure = nil, false, false
		w.compareObs(drv, fmt.Sprintf("crash k=%d files=%s", cr.opsDone, filesArg(cr.written, files)), "nil", "crash", observe)
		if observe {
			w.monitorReader(fmt.Sprintf("after crash of write #%d (%d fs operations done)", i, cr.opsDone))
		}
	} else {
		res.Hit("write.err." + cr.errName)
		if cr.errName == "nil" {
			w.hasPrev = true
		}
		w.compareObs(drv, "write files="+filesArg(cr.written, files), cr.errName, "write", observe)
		if observe {
			w.monitorAfterWrite(i, files, cr)
		} else if cr.errName != "nil" && !c.Foreign && !c.BadName {
			w.monitorAfterWrite(i, files, cr) // a failed Write is a finding whether or not the tree is observable
		}
	}
	res.Count("", false)
	return true
}

func overlapping(evs []Ev) bool {
	seen := map[string]bool{}
	for _, e := range evs {
		for k := range e.Files {
			if seen[k] {
				return true
			}
		}
		for k := range e.Files {
			seen[k] = true
		}
	}
	return false
}

// ---------- main ----------

func main() {
	if len(os.Args) == 3 && os.Args[1] == "--child-write" {
		childMain(os.Args[2])
		return
	}
	fl := lib.ParseFlags()
	res := lib.NewResult("unit of evaluations = one step applied to the implementation (a Write/crash/restart event, a pre-planted or raw os.* operation); traces_validated_against_impl = those steps whose result (err, whole tree, reader's view, version ids) was compared with the model and agreed (<= evaluations; steps the model declares UNMODELLED are evaluated but not compared). distinct_nontrivial counts distinct HISTORIES: non-trivial if a Write in it is killed strictly inside its file-system steps (0 < done < all) or two Writes of it share a file name; raw-operation cases are never counted as non-trivial. Alias families (Case.alias: the arguments of consecutive Writes share the map / byte slices, or the caller modifies them right after Write returned) are judged against snapshots of the sets. Complete enumerations (every hook point of every Write of the family's histories): crash1, crash2, kill1, kill2 (quick: every 2nd point pair), prior, prior-kill (quick: every 2nd point), nocrash, foreign, badname, reltarget, restart, corpus, alias-nocrash, alias-crash, alias-kill (quick: every 2nd point), alias-badname, alias-reltarget, alias-restart; seeded random samples: random, alias-random, rawfs, reader, alias-reader (real scheduling); multi-target families (Case.multi: several Dir instances whose targets share one base directory, names that are suffixes/prefixes of one another; judged by the model-independent monitors of multi.go only, never compared with the model; a multi case counts as non-trivial when it has >= 2 targets): multi-pair, multi-all, multi-crash (complete over the hook points of the killed Write; quick: a third of the ordered name pairs), multi-random (seeded) — hence exhaustive=false for the run as a whole")
	work := fl.Work
	if work == "" {
		work, _ = os.MkdirTemp("", "c18")
		defer os.RemoveAll(work)
	}
	drv, err := lib.StartDrv(fl.Drv, "C18")
	if err != nil {
		res.Note("cannot start model driver: " + err.Error())
		drv = nil
	}
	defer drv.Close()
	n := 0
	runOne := func(c Case) {
		n++
		runCase(c, drv, res, work, n)
	}
	if fl.Replay != "" {
		b, err := os.ReadFile(fl.Replay)
		if err != nil {
			fmt.Fprintln(os.Stderr, "replay:", err)
			os.Exit(2)
		}
		var rf struct {
			Case json.RawMessage `json:"case"`
		}
		var c Case
		if err := json.Unmarshal(b, &rf); err != nil || json.Unmarshal(rf.Case, &c) != nil {
			fmt.Fprintln(os.Stderr, "replay: cannot decode case")
			os.Exit(2)
		}
		runOne(c)
		res.Write(fl.Out)
		return
	}
	// corpus: minimised past findings, run first
	if vd := os.Getenv("VERIF_DIR"); vd != "" {
		files, _ := filepath.Glob(filepath.Join(vd, "corpus", "C18", "*.json"))
		sort.Strings(files)
		for _, f := range files {
			b, err := os.ReadFile(f)
			var rf struct {
				Case Case `json:"case"`
			}
			if err != nil || json.Unmarshal(b, &rf) != nil {
				res.Note("corpus file unreadable: " + f)
				continue
			}
			rf.Case.Family = "corpus"
			runOne(rf.Case)
		}
	}
	rng := lib.NewRand(fl.Seed)
	for _, c := range generate(fl.Tier, fl.Search, rng) {
		runOne(c)
	}
	for _, c := range multiCases(fl.Tier, fl.Search, rng.Fork()) {
		runOne(c)
	}
	res.Exhaustive = false
	res.Note("complete-enumeration part: every hook point of every Write in histories of 1..3 (quick) / 1..4 (thorough) Writes, single and double crashes; random part seeded")
	res.Write(fl.Out)
}
