package main

// Multi-target families (round 8 follow-up): several Dir instances whose targets live in ONE base
// directory, with names that are "-"-suffixes / prefixes of one another (id, sidecar-id, a-id,
// id-a, x, x-x). The Writes of the targets are interleaved, including FIRST Writes of fresh
// instances (process start / restart) while the other targets are populated, with and without
// crash points (panic from the hook, recovered at the call boundary).
//
// Model-independent monitor, run at every hook point of every Write and after every step, for
// EVERY target of the case (not only the one being written):
//   - a target is absent only before the first completed Rename of one of ITS OWN Writes;
//     otherwise it resolves to a directory holding exactly the file set of one of its own Writes
//     (sibling-target-dangling / -absent / -partial-or-mixed / -not-a-file-directory; for the
//     target being written the ids are multi-target-*)
//   - a step on target A does not change what another target B shows (sibling-target-changed)
//   - a Write with valid names returns nil and the target then shows its set (multi-write-fails,
//     multi-target-not-new-set)
//   - a target whose history has no crash/restart has exactly one version directory of its own
//     and no <target>.new after each of its Writes (multi-leftover-version-dir-no-crash)
//   - entries of the base directory that were not created by Dir (plain files, directories with
//     content, live and dangling symlinks, some with names ending in "-"+target) are unchanged
//     (unrelated-entry-changed)
//
// The Lean model is not consulted for these cases (it describes one target).

import (
	"encoding/hex"
	"fmt"
	"io/fs"
	"os"
	"path/filepath"
	"sort"
	"strconv"
	"strings"
	"time"

	"github.com/dapr/kit/concurrency/dir"
	"github.com/dapr/kit/logger"
	"github.com/dapr/kit/verifhook"

	"verifharness/lib"
)

type MStep struct {
	T       int               `json:"t"`    // index into Targets
	Kind    string            `json:"kind"` // write | crash | restart
	Files   map[string]string `json:"files,omitempty"`
	CrashAt int               `json:"crash_at,omitempty"`
}

type Unrel struct {
	Name string `json:"name"`
	Kind string `json:"kind"`         // file | dir | link
	To   string `json:"to,omitempty"` // link destination (relative to the base)
}

type MultiCase struct {
	Targets   []string `json:"targets"`
	Unrelated []Unrel  `json:"unrelated,omitempty"`
	Steps     []MStep  `json:"steps"`
}

type mTarget struct {
	name    string
	path    string
	d       *dir.Dir
	sets    []map[string][]byte
	vers    map[string]bool // version directory names created by Writes on this target
	renamed bool
	pure    bool
	view    string // last observed description (after the last step)
}

type mworld struct {
	c    Case
	root string
	base string
	ts   []*mTarget
	res  *lib.Result
	log  logger.Logger
	unre string
}

func observePath(p string) (string, map[string][]byte) {
	st, err := os.Stat(p)
	if err != nil {
		if _, lerr := os.Lstat(p); lerr == nil {
			return "dangling", nil
		}
		return "absent", nil
	}
	if !st.IsDir() {
		return "other", nil
	}
	des, err := os.ReadDir(p)
	if err != nil {
		return "unreadable:" + errName(err), nil
	}
	m := map[string][]byte{}
	var ents []string
	plain := true
	for _, de := range des {
		q := filepath.Join(p, de.Name())
		info, err := os.Lstat(q)
		if err != nil {
			return "unreadable:" + errName(err), nil
		}
		if info.Mode().IsRegular() {
			b, err := os.ReadFile(q)
			if err != nil {
				return "unreadable:" + errName(err), nil
			}
			m[de.Name()] = b
			ents = append(ents, safeName(de.Name())+"=f:"+hex.EncodeToString(b))
		} else {
			plain = false
			ents = append(ents, safeName(de.Name())+"=?")
		}
	}
	sort.Strings(ents)
	if !plain {
		m = nil
	}
	return "dir:" + strings.Join(ents, ","), m
}

// unrelatedState describes every planted entry (and what is below it) without following links.
func (w *mworld) unrelatedState() string {
	var out []string
	for _, u := range w.c.Multi.Unrelated {
		p := filepath.Join(w.base, u.Name)
		info, err := os.Lstat(p)
		if err != nil {
			out = append(out, u.Name+"|missing")
			continue
		}
		switch {
		case info.Mode()&os.ModeSymlink != 0:
			to, _ := os.Readlink(p)
			out = append(out, u.Name+"|l:"+to)
		case info.IsDir():
			filepath.WalkDir(p, func(q string, de fs.DirEntry, err error) error {
				if err != nil {
					return nil
				}
				rel, _ := filepath.Rel(w.base, q)
				if de.IsDir() {
					out = append(out, rel+"|d")
				} else {
					b, _ := os.ReadFile(q)
					out = append(out, rel+"|f:"+hex.EncodeToString(b))
				}
				return nil
			})
		default:
			b, _ := os.ReadFile(p)
			out = append(out, u.Name+"|f:"+hex.EncodeToString(b))
		}
	}
	return strings.Join(out, ";")
}

// monitorAll judges every target. acting = index of the target being written (-1: none);
// stable = the acting target too must show what it showed before (not used during a Write).
func (w *mworld) monitorAll(acting int, when string) {
	for i, t := range w.ts {
		pre := "sibling-target-"
		who := fmt.Sprintf("target %q (not being written; step is on %q)", t.name, "-")
		if acting >= 0 {
			who = fmt.Sprintf("target %q (not being written; the step is on target %q)", t.name, w.ts[acting].name)
		}
		if i == acting {
			pre = "multi-target-"
			who = fmt.Sprintf("target %q (being written)", t.name)
		}
		desc, m := observePath(t.path)
		switch {
		case desc == "absent":
			if t.renamed {
				w.res.Violate(pre+"absent", who+" is absent "+when+" although one of its Writes already completed its Rename", w.c)
			}
			w.res.Hit("multi.reader.absent")
		case desc == "dangling":
			w.res.Violate(pre+"dangling", who+" is a dangling symlink "+when, w.c)
		case strings.HasPrefix(desc, "dir:") && m != nil:
			ok := false
			for _, s := range t.sets {
				if sameMap(s, m) {
					ok = true
				}
			}
			if !ok {
				w.res.Violate(pre+"partial-or-mixed", who+" resolves to "+desc+" "+when+", which is not the file set of any single Write call on that target", w.c)
			} else {
				w.res.Hit("multi.reader.complete-set")
			}
		default:
			w.res.Violate(pre+"not-a-file-directory", who+" resolves to "+desc+" "+when, w.c)
		}
		if i != acting {
			if desc != t.view {
				w.res.Violate("sibling-target-changed", who+" showed "+t.view+" before and shows "+desc+" "+when, w.c)
			}
			w.res.Hit("multi.sibling-checked")
		}
	}
	if len(w.c.Multi.Unrelated) > 0 {
		if now := w.unrelatedState(); now != w.unre {
			w.res.Violate("unrelated-entry-changed", "entries of the base directory not created by Dir changed "+when+": before "+w.unre+" ; now "+now, w.c)
			w.unre = now
		}
		w.res.Hit("multi.unrelated-checked")
	}
}

func (w *mworld) refreshViews() {
	for _, t := range w.ts {
		t.view, _ = observePath(t.path)
	}
}

func (w *mworld) callWrite(ti, si int, files map[string][]byte, crashAt int) callResult {
	var cr callResult
	t := w.ts[ti]
	verifhook.Set(func(name string, args ...any) {
		if name != "dir.write.step" || len(args) == 0 {
			return
		}
		k, _ := args[0].(int)
		cr.hookIDs = append(cr.hookIDs, k)
		if k == 0 && len(args) > 1 {
			if nd, ok := args[1].(string); ok {
				t.vers[filepath.Base(nd)] = true
			}
		}
		if k == 6 {
			t.renamed = true
		}
		w.monitorAll(ti, fmt.Sprintf("during step #%d (Write on %q) at hook %d (invocation %d)", si, t.name, k, cr.invs))
		inv := cr.invs
		cr.invs++
		if inv == crashAt {
			panic(crashSignal{})
		}
	})
	defer verifhook.Set(nil)
	done := make(chan struct{})
	d := t.d
	go func() {
		defer func() {
			if r := recover(); r != nil {
				if _, ok := r.(crashSignal); ok {
					cr.crashed = true
				} else {
					cr.panicVal = r
				}
			}
			close(done)
		}()
		cr.err = d.Write(files)
	}()
	select {
	case <-done:
	case <-time.After(60 * time.Second):
		cr.timeout = true
	}
	cr.errName = errName(cr.err)
	if cr.err != nil {
		cr.errText = cr.err.Error()
	}
	return cr
}

func runMulti(c Case, res *lib.Result, work string, n int) {
	mc := c.Multi
	root := filepath.Join(work, fmt.Sprintf("c18-sandbox-%d", n))
	os.RemoveAll(root)
	if err := os.MkdirAll(root, 0o777); err != nil {
		res.Note("sandbox: " + err.Error())
		return
	}
	defer os.RemoveAll(root)
	res.Hit("family." + c.Family)
	w := &mworld{c: c, root: root, res: res}
	w.base = filepath.Join(append([]string{root}, splitRel(c.Base)...)...)
	w.log = logger.NewLogger("verif-c18-multi")
	w.log.SetOutput(discard{})
	w.log.SetOutputLevel(logger.FatalLevel)
	seen := map[string]bool{}
	for _, name := range mc.Targets {
		if !validName(name) || seen[name] || strings.HasSuffix(name, ".new") || seen[name+".new"] {
			res.Note("multi case with unusable target names: " + strings.Join(mc.Targets, ","))
			return
		}
		seen[name] = true
		w.ts = append(w.ts, &mTarget{name: name, path: filepath.Join(w.base, name), vers: map[string]bool{}, pure: true, view: "absent"})
	}
	if len(mc.Unrelated) > 0 {
		if err := os.MkdirAll(w.base, 0o777); err != nil {
			res.Note("sandbox: " + err.Error())
			return
		}
		for _, u := range mc.Unrelated {
			p := filepath.Join(w.base, u.Name)
			var err error
			switch u.Kind {
			case "file":
				err = os.WriteFile(p, []byte("unrelated "+u.Name), 0o666)
			case "dir":
				if err = os.MkdirAll(filepath.Join(p, "sub"), 0o777); err == nil {
					err = os.WriteFile(filepath.Join(p, "keep.txt"), []byte("kept "+u.Name), 0o666)
				}
				if err == nil {
					err = os.WriteFile(filepath.Join(p, "sub", "deep"), []byte("deep"), 0o666)
				}
			case "link":
				err = os.Symlink(u.To, p)
			default:
				err = fmt.Errorf("unknown kind %q", u.Kind)
			}
			if err != nil {
				res.Note("planting unrelated entry: " + err.Error())
				return
			}
		}
		w.unre = w.unrelatedState()
	}
	crashedInside := false
	for si, st := range mc.Steps {
		if st.T < 0 || st.T >= len(w.ts) {
			res.Note("multi case: step with unknown target index")
			return
		}
		t := w.ts[st.T]
		res.Hit("multi.event." + st.Kind)
		switch st.Kind {
		case "restart":
			t.d, t.pure = nil, false
			w.monitorAll(-1, fmt.Sprintf("after step #%d (restart of %q)", si, t.name))
			res.Count("", false)
			continue
		case "write", "crash":
		default:
			res.Note("unknown step kind " + st.Kind)
			continue
		}
		first := t.d == nil
		if first {
			t.d = dir.New(dir.Options{Log: w.log, Target: t.path})
			populated := 0
			for j, o := range w.ts {
				if j != st.T && o.renamed {
					populated++
				}
			}
			res.Hit("multi.first-write.siblings-populated." + strconv.Itoa(populated))
		}
		files := decodeFiles(st.Files)
		t.sets = append(t.sets, files)
		crashAt := -1
		if st.Kind == "crash" {
			crashAt = st.CrashAt
		}
		cr := w.callWrite(st.T, si, files, crashAt)
		switch {
		case cr.timeout:
			res.Violate("write-hangs", fmt.Sprintf("step #%d: Write on %q did not return within 60s", si, t.name), c)
			return
		case cr.panicVal != nil:
			res.Violate("write-panics", fmt.Sprintf("step #%d: Write on %q panicked: %v", si, t.name, cr.panicVal), c)
			return
		}
		if cr.crashed {
			t.d, t.pure = nil, false
			if len(cr.hookIDs) > 1 && cr.hookIDs[len(cr.hookIDs)-1] < 7 {
				crashedInside = true
			}
			res.Hit(fmt.Sprintf("multi.crash.afterHook%d", cr.hookIDs[len(cr.hookIDs)-1]))
			w.monitorAll(st.T, fmt.Sprintf("after step #%d (Write on %q killed at hook invocation %d)", si, t.name, crashAt))
		} else {
			when := fmt.Sprintf("after step #%d (Write on %q, first Write of its Dir: %v)", si, t.name, first)
			res.Hit("multi.write.err." + cr.errName)
			if cr.errName != "nil" {
				res.Violate("multi-write-fails", fmt.Sprintf("step #%d: Write on %q returned %s", si, t.name, cr.errText), c)
				t.pure = false
			} else {
				desc, m := observePath(t.path)
				if m == nil || !sameMap(m, files) {
					res.Violate("multi-target-not-new-set", fmt.Sprintf("step #%d: Write on %q returned nil but the target resolves to %s", si, t.name, desc), c)
				}
				if t.pure {
					des, _ := os.ReadDir(w.base)
					vers, stale := 0, false
					for _, de := range des {
						if t.vers[de.Name()] {
							vers++
						}
						if de.Name() == t.name+".new" {
							stale = true
						}
					}
					if vers != 1 || stale {
						res.Violate("multi-leftover-version-dir-no-crash",
							fmt.Sprintf("after crash-free Write on %q (step #%d): %d version directories of that target, stale .new=%v", t.name, si, vers, stale), c)
					}
					res.Hit("multi.nocrash.single-version-checked")
				}
			}
			w.monitorAll(st.T, when)
		}
		w.refreshViews()
		res.Count("", false)
	}
	res.Count(c.key(), crashedInside || len(mc.Targets) >= 2)
	res.Evaluations--
	if len(res.Samples) < 8 && n%97 == 0 {
		res.Sample(c)
	}
}

type discard struct{}

func (discard) Write(p []byte) (int, error) { return len(p), nil }

// ---------- generation ----------

var multiNames = []string{"id", "sidecar-id", "a-id", "id-a", "x", "x-x"}

func multiUnrelated() []Unrel {
	return []Unrel{
		{Name: "keep", Kind: "file"},
		{Name: "readme-id", Kind: "file"},
		{Name: "notes-id", Kind: "dir"},
		{Name: "backup-sidecar-id", Kind: "dir"},
		{Name: "old-x", Kind: "dir"},
		{Name: "x-", Kind: "dir"},
		{Name: "12-idx", Kind: "dir"},
		{Name: "id-12", Kind: "dir"},
		{Name: "link-id", Kind: "link", To: "notes-id"},
		{Name: "dangling-x", Kind: "link", To: "nowhere"},
		{Name: "outside-a-id", Kind: "link", To: ".."},
	}
}

func mcase(fam, base string, targets []string, unrelated bool, steps ...MStep) Case {
	mc := &MultiCase{Targets: targets, Steps: steps}
	if unrelated {
		mc.Unrelated = multiUnrelated()
	}
	return Case{Family: fam, Base: base, TName: "-", Multi: mc}
}

func mw(t int, f map[string]string) MStep { return MStep{T: t, Kind: "write", Files: f} }
func mcr(t int, f map[string]string, at int) MStep {
	return MStep{T: t, Kind: "crash", Files: f, CrashAt: at}
}
func mrs(t int) MStep { return MStep{T: t, Kind: "restart"} }

// per-target, per-call file sets: distinct between targets so that a target showing the set of
// ANOTHER target is told apart; names overlap between the calls of one target
func mfiles(target string, call int) map[string]string {
	switch call % 4 {
	case 0:
		return map[string]string{"cert.pem": hx(target + "#0"), "key.pem": hx("k0" + target)}
	case 1:
		return map[string]string{"cert.pem": hx(target + "#1")}
	case 2:
		return map[string]string{"cert.pem": hx(target + "#2"), "key.pem": hx("k2" + target), "ca.pem": hx("ca" + target)}
	}
	return map[string]string{"only-" + target: ""}
}

func multiCases(tier string, search bool, rng *lib.Rand) []Case {
	var cs []Case
	big := tier == "thorough" || search
	bases := []string{"b", "x/y/z", ""}
	names := multiNames
	nb := 0
	nextBase := func() string { nb++; return bases[nb%len(bases)] }

	// (M1) every ordered pair (A,B): B is started, restarted and written while A is populated, and
	// the other way round; no crash
	for a := range names {
		for b := range names {
			if a == b {
				continue
			}
			tg := []string{names[a], names[b]}
			for _, unrel := range []bool{false, true} {
				if !unrel && !big && (a+b)%2 == 0 {
					continue
				}
				cs = append(cs, mcase("multi-pair", nextBase(), tg, unrel,
					mw(0, mfiles(tg[0], 0)), mw(1, mfiles(tg[1], 0)), mw(0, mfiles(tg[0], 1)), mw(1, mfiles(tg[1], 1)),
					mrs(1), mw(1, mfiles(tg[1], 2)), mrs(0), mw(0, mfiles(tg[0], 2)), mw(1, mfiles(tg[1], 3)), mw(0, mfiles(tg[0], 3))))
			}
		}
	}

	// (M2) all six targets in one base: rounds in several orders, restarts of each while the
	// others are populated
	orders := [][]int{{0, 1, 2, 3, 4, 5}, {5, 4, 3, 2, 1, 0}, {1, 0, 3, 2, 5, 4}, {2, 5, 0, 4, 1, 3}}
	for oi, ord := range orders {
		var st []MStep
		for _, t := range ord {
			st = append(st, mw(t, mfiles(names[t], 0)))
		}
		for _, t := range ord {
			st = append(st, mw(t, mfiles(names[t], 1)))
		}
		for i := len(ord) - 1; i >= 0; i-- {
			st = append(st, mrs(ord[i]), mw(ord[i], mfiles(names[ord[i]], 2)))
		}
		for _, t := range ord {
			st = append(st, mw(t, mfiles(names[t], 3)))
		}
		cs = append(cs, mcase("multi-all", nextBase(), names, oi%2 == 0, st...))
	}

	// (M3) crash points: A populated (one or two Writes); B's first / second Write killed at every
	// hook point, a fresh B writes; then A is restarted and writes, then B again
	stride := 1
	for a := range names {
		for b := range names {
			if a == b {
				continue
			}
			if !big && (a*len(names)+b)%3 != 0 && !(names[a] == "sidecar-id" && names[b] == "id") && !(names[a] == "id" && names[b] == "sidecar-id") {
				continue
			}
			tg := []string{names[a], names[b]}
			for second := 0; second < 2; second++ {
				fb := mfiles(tg[1], second)
				for at := 0; at < hookPoints(fb)-1; at += stride {
					st := []MStep{mw(0, mfiles(tg[0], 0))}
					if second == 1 {
						st = append(st, mw(1, mfiles(tg[1], 0)), mw(0, mfiles(tg[0], 1)))
					}
					st = append(st, mcr(1, fb, at), mw(1, mfiles(tg[1], 2)), mw(0, mfiles(tg[0], 2)),
						mrs(0), mw(0, mfiles(tg[0], 3)), mw(1, mfiles(tg[1], 3)))
					cs = append(cs, mcase("multi-crash", nextBase(), tg, (at+second)%2 == 0, st...))
				}
			}
		}
	}

	// (M4) seeded random interleavings over 2..6 targets
	nrand := 150
	if big {
		nrand = 1500
	}
	for i := 0; i < nrand; i++ {
		k := rng.Range(2, len(names))
		perm := append([]string(nil), names...)
		for j := len(perm) - 1; j > 0; j-- {
			q := rng.Intn(j + 1)
			perm[j], perm[q] = perm[q], perm[j]
		}
		tg := perm[:k]
		calls := make([]int, k)
		var st []MStep
		for s, ns := 0, rng.Range(4, 14); s < ns; s++ {
			t := rng.Intn(k)
			f := mfiles(tg[t], calls[t]+rng.Intn(2))
			switch r := rng.Intn(10); {
			case r < 6:
				st = append(st, mw(t, f))
				calls[t]++
			case r < 8:
				st = append(st, mcr(t, f, rng.Intn(hookPoints(f)-1)))
				calls[t]++
			default:
				st = append(st, mrs(t))
			}
		}
		cs = append(cs, mcase("multi-random", nextBase(), tg, rng.Intn(3) != 0, st...))
	}
	return cs
}
