package main

// Streamed many-segment documents through the public API (after seeded change C02-r4m1): the segment
// counter is 32 bits wide, so a document has to be longer than 256 segments (16 MiB) before the second
// counter byte of the nonce changes and longer than 65536 segments (4 GiB) before the third one does.
// Nothing large is kept in memory: the plaintext is generated on the fly (every segment carries its
// number), the document comes out of the real Encrypt, passes a filter that exchanges two segments or
// replaces one by a copy of another, goes into the real Decrypt, and the released bytes are compared
// on the fly with the regenerated plaintext.
//
// monitor (model independent): every released byte belongs to a prefix of the plaintext; the stream of
// a document with displaced segments does not end in a clean EOF.

import (
	"bufio"
	"bytes"
	crand "crypto/rand"
	"encoding/binary"
	"encoding/json"
	"errors"
	"fmt"
	"io"
	"time"

	enc "github.com/dapr/kit/schemes/enc/v1"

	"verifharness/encx"
	"verifharness/lib"
)

type bigCase struct {
	Kind   string `json:"kind"` // bigdoc
	Cipher string `json:"cipher"`
	Seed   uint64 `json:"seed"`
	Full   int    `json:"full_segments"` // number of full, non-final segments
	Tail   int    `json:"tail"`          // plaintext bytes of the final segment (>= 1)
	Mut    string `json:"mutation"`      // segswap: segments a and b exchanged | segreplace: segment b replaced by a copy of segment a
	A      int    `json:"a"`
	B      int    `json:"b"`
}

// bigPlain generates the plaintext: segment i is a seeded 64 KiB pattern whose every 4 KiB block
// starts with i+1.
type bigPlain struct {
	full, tail int
	seg, off   int
	base, cur  []byte
}

func newBigPlain(c bigCase) *bigPlain {
	p := &bigPlain{full: c.Full, tail: c.Tail, base: lib.NewRand(c.Seed ^ 0xb16).Bytes(S), cur: make([]byte, S)}
	p.load()
	return p
}

func (p *bigPlain) load() {
	copy(p.cur, p.base)
	for o := 0; o < S; o += 4096 {
		binary.BigEndian.PutUint64(p.cur[o:], uint64(p.seg)+1)
	}
}

func (p *bigPlain) segLen() int {
	if p.seg < p.full {
		return S
	}
	return p.tail
}

func (p *bigPlain) total() int64 { return int64(p.full)*S + int64(p.tail) }

func (p *bigPlain) Read(b []byte) (int, error) {
	if p.seg > p.full {
		return 0, io.EOF
	}
	n := copy(b, p.cur[p.off:p.segLen()])
	p.off += n
	if p.off == p.segLen() {
		p.seg++
		p.off = 0
		if p.seg <= p.full {
			p.load()
		}
	}
	return n, nil
}

// bigChecker compares what Decrypt releases with the regenerated plaintext.
type bigChecker struct {
	want     *bigPlain
	n        int64
	mismatch int64 // offset of the first released byte that is not the plaintext byte of that offset; -1 = none
	tmp      []byte
}

func (c *bigChecker) Write(b []byte) (int, error) {
	total := len(b)
	for len(b) > 0 {
		if cap(c.tmp) < len(b) {
			c.tmp = make([]byte, len(b))
		}
		m, err := c.want.Read(c.tmp[:len(b)])
		if err != nil || !bytes.Equal(c.tmp[:m], b[:m]) {
			if c.mismatch < 0 {
				c.mismatch = c.n
				for i := 0; i < m; i++ {
					if c.tmp[i] != b[i] {
						c.mismatch = c.n + int64(i)
						break
					}
				}
			}
			c.n += int64(len(b))
			return total, nil
		}
		c.n += int64(m)
		b = b[m:]
	}
	return total, nil
}

func bigEncrypt(c bigCase) (io.Reader, error) {
	old := crand.Reader
	crand.Reader = seeded{lib.NewRand(c.Seed)} // Encrypt draws its 39 random bytes before it returns
	defer func() { crand.Reader = old }()
	ci := enc.Cipher(c.Cipher)
	return enc.Encrypt(newBigPlain(c), enc.EncryptOptions{Algorithm: enc.KeyAlgorithmAES256KW, KeyName: "kek", Cipher: &ci,
		WrapKeyFn: func(k []byte, alg, kn string, nonce []byte) ([]byte, []byte, error) { return mask(k, 0x5c), nil, nil }})
}

func bigHeader(r *bufio.Reader) ([]byte, error) {
	var hdr []byte
	for nl := 0; nl < 3; {
		b, err := r.ReadByte()
		if err != nil {
			return hdr, err
		}
		hdr = append(hdr, b)
		if b == '\n' {
			nl++
		}
		if len(hdr) > 1<<17 {
			return hdr, errors.New("no header")
		}
	}
	return hdr, nil
}

func closeReader(r io.Reader) {
	if c, ok := r.(io.Closer); ok {
		c.Close()
	}
}

// bigFilter yields the document with the mutation applied, segment by segment.
type bigFilter struct {
	src   *bufio.Reader
	hdr   []byte
	c     bigCase
	front []byte // segswap: segment b (captured in a first pass)
	saved []byte // segment a
	seg   int
	cur   []byte
	off   int
	done  bool
}

func (s *bigFilter) Read(b []byte) (int, error) {
	if len(s.hdr) > 0 {
		n := copy(b, s.hdr)
		s.hdr = s.hdr[n:]
		return n, nil
	}
	if s.off == len(s.cur) {
		if s.done {
			return 0, io.EOF
		}
		buf := make([]byte, SS)
		n, err := io.ReadFull(s.src, buf)
		if err == io.ErrUnexpectedEOF || err == io.EOF {
			s.done = true
			err = nil
		}
		if err != nil {
			return 0, err
		}
		buf = buf[:n]
		switch {
		case s.seg == s.c.A:
			s.saved = buf
			if s.c.Mut == "segswap" {
				buf = s.front
			}
		case s.seg == s.c.B:
			buf = s.saved
		}
		s.seg++
		s.cur, s.off = buf, 0
	}
	n := copy(b, s.cur[s.off:])
	s.off += n
	return n, nil
}

type bigObs struct {
	released int64
	mismatch int64
	term     string
	terr     error
	skipped  string
}

func runBigOnce(c bigCase) (o bigObs) {
	o.mismatch = -1
	var front []byte
	var hdr1 []byte
	if c.Mut == "segswap" {
		// first pass: the same document (same seeded randomness) up to segment b
		r, err := bigEncrypt(c)
		if err != nil {
			o.skipped = "Encrypt: " + err.Error()
			return
		}
		br := bufio.NewReaderSize(r, 1<<20)
		hdr1, err = bigHeader(br)
		if err != nil {
			closeReader(r)
			o.skipped = "first pass, header: " + err.Error()
			return
		}
		buf := make([]byte, SS)
		for i := 0; i <= c.B; i++ {
			if _, err := io.ReadFull(br, buf); err != nil {
				closeReader(r)
				o.skipped = fmt.Sprintf("first pass, segment %d: %v", i, err)
				return
			}
		}
		front = append([]byte(nil), buf...)
		closeReader(r)
	}
	r, err := bigEncrypt(c)
	if err != nil {
		o.skipped = "Encrypt: " + err.Error()
		return
	}
	defer closeReader(r) // lets the encrypting goroutine go if Decrypt stopped early
	br := bufio.NewReaderSize(r, 1<<20)
	hdr, err := bigHeader(br)
	if err != nil {
		o.skipped = "header: " + err.Error()
		return
	}
	if hdr1 != nil && !bytes.Equal(hdr, hdr1) {
		o.skipped = "the two passes of Encrypt did not produce the same header"
		return
	}
	flt := &bigFilter{src: br, hdr: hdr, c: c, front: front}
	dec, err := enc.Decrypt(flt, enc.DecryptOptions{UnwrapKeyFn: func(w []byte, alg, kn string, nonce, tag []byte) ([]byte, error) {
		return mask(w, 0x5c), nil
	}})
	if err != nil {
		o.term, o.terr = encx.Canon(err), err
		return
	}
	chk := &bigChecker{want: newBigPlain(c), mismatch: -1}
	_, cerr := io.CopyBuffer(chk, struct{ io.Reader }{dec}, make([]byte, 256<<10))
	o.released, o.mismatch, o.term, o.terr = chk.n, chk.mismatch, encx.Canon(cerr), cerr
	return
}

func genBig(tier string, rng *lib.Rand, search bool) []bigCase {
	ciphers := []string{"AES-GCM", "CHACHA20-POLY1305"}
	var cases []bigCase
	add := func(full, a, b int, mut string) {
		cases = append(cases, bigCase{"bigdoc", ciphers[len(cases)%2], rng.U64(), full, 1 + rng.Intn(S), mut, a, b})
	}
	// framework sanity at small distances, then the first counter-byte boundary (256 segments = 16 MiB)
	add(4, 0, 1, "segswap")
	add(4, 1, 3, "segreplace")
	add(258, 0, 256, "segswap")
	add(258, 1, 257, "segreplace")
	add(259, 2, 258, "segswap")
	add(258, 0, 256, "segreplace")
	add(515, 1, 513, "segswap")
	if tier == "thorough" || search {
		// the second counter-byte boundary: 65536 segments = 4 GiB
		add(65538, 0, 65536, "segswap")
		add(65539, 1, 65537, "segreplace")
		add(600, 255, 511, "segswap")
		add(600, 44, 300, "segreplace")
	}
	return cases
}

func checkBig(res *lib.Result, c bigCase, idx int) {
	if encx.TooStuck() {
		res.Hit("skipped-after-timeouts")
		return
	}
	encx.Inflight(c)
	key, _ := json.Marshal(c)
	res.Count(string(key), true)
	res.Hit("bigdoc.mut=" + c.Mut)
	switch {
	case c.B-c.A >= 65536:
		res.Hit("bigdoc.distance>=65536")
	case c.B-c.A >= 256:
		res.Hit("bigdoc.distance>=256")
	default:
		res.Hit("bigdoc.distance<256")
	}
	if idx%4 == 0 {
		res.Sample(c)
	}
	if c.Mut != "segswap" && c.Mut != "segreplace" || c.A < 0 || c.A >= c.B || c.B >= c.Full || c.Tail < 1 || c.Tail > S {
		res.Note(fmt.Sprintf("bigdoc: malformed case %s", key))
		return
	}
	var o bigObs
	limit := 3*time.Minute + time.Duration(c.Full)*10*time.Millisecond // 4 GiB: 14 min; only a note when exceeded
	start := time.Now()
	gerr := encx.Guard(limit, func() error { o = runBigOnce(c); return nil })
	if gerr != nil {
		t := encx.Canon(gerr)
		if t == "panic" {
			res.Violate("decrypt-panic", "a streamed document with displaced segments: "+gerr.Error(), c)
			return
		}
		encx.Stuck-- // a slow machine, not a hang of the code: not counted against the other families
		res.Hit("bigdoc.gave-up-after-" + limit.String())
		res.Note(fmt.Sprintf("bigdoc: %s did not finish within %s on this machine; not judged", key, limit))
		return
	}
	if o.skipped != "" {
		res.Hit("bigdoc.not-judged")
		res.Note("bigdoc: " + o.skipped + fmt.Sprintf(" (%s)", key))
		return
	}
	res.Hit("bigdoc.term=" + o.term)
	res.Hit(fmt.Sprintf("bigdoc.seconds<=%d", 1+int(time.Since(start).Seconds())))
	total := newBigPlain(c).total()
	what := fmt.Sprintf("%s document of %d segments (%d plaintext bytes), segment %d %s segment %d", c.Cipher, c.Full+1, total, c.B,
		map[string]string{"segswap": "exchanged with", "segreplace": "replaced by a copy of"}[c.Mut], c.A)
	if o.term == "panic" || o.term == "timeout" {
		res.Violate("decrypt-"+o.term, what+": Decrypt did not return normally", c)
		return
	}
	if o.mismatch >= 0 {
		res.Violate("released-not-prefix:"+c.Mut, fmt.Sprintf("%s: %d bytes were released, of which the byte at offset %d (and what follows) is not the plaintext byte of that offset; terminal %s", what, o.released, o.mismatch, o.term), c)
		return
	}
	if o.term == "ok" && o.released != total {
		res.Violate("silent-truncation:"+c.Mut, fmt.Sprintf("%s: the stream ended in a clean EOF after %d of %d bytes", what, o.released, total), c)
	}
}
