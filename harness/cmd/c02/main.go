// Harness for property C02 (enc/v1: tampered or truncated documents never decrypt silently).
//
//	documents  valid documents made by the real Encrypt (crypto/rand.Reader replaced by a seeded
//	           stream so that a case replays exactly) × single and compound mutations × scripts:
//	           bit flips per position class (scheme line, manifest, MAC, segment body, tag),
//	           truncation at every offset class, segment delete/duplicate/swap/append, splices and
//	           header swaps with a second document (same / different wrapping key), edited header
//	           fields (with and without a recomputed MAC), a different unwrapped key, source
//	           failures at every offset class.
//	monitor    (model independent) released bytes are a prefix of an original's plaintext, and a
//	           clean EOF implies equality; a failing source never ends in a clean EOF.
//	T2         (released, terminal) of the real Decrypt = Kit.Enc.decryptImpl over the Lean-native
//	           primitives on the same mutated bytes, script and unwrapped key; plus the small-scale
//	           loop tie `pst`: the real processSegments with a toy AEAD over exhaustive segment
//	           level mutations against the model.
package main

import (
	"bytes"
	crand "crypto/rand"
	"encoding/base64"
	"encoding/json"
	"errors"
	"fmt"
	"io"
	"os"
	"runtime"
	"strings"
	"sync"
	"time"

	enc "github.com/dapr/kit/schemes/enc/v1"

	"verifharness/encx"
	"verifharness/lib"
)

const rule = "history case: distinct (tamper, lengths, bytes read first, mode, GOMAXPROCS); document case: distinct (base seeds, plaintext length, cipher, mutation list, script, unwrap mode) with at least one mutation or a failing source; loop case: distinct (segment size, length, mutation, script). Complete enumerations (independent of the seed): toy-AEAD loop tie over segSize in {1,2,3}, content length 0..3*seg+1: truncation at every offset, one bit flip at every byte position, deletion and duplication of every segment (and the swaps/appends listed in the generator), a transient source failure at every offset, each under three fixed reader scripts and one seeded script; real documents: every mutation kind x offset/flip class of the class tables, every unwrap mode, source failure at every offset class x delivery style x failure kind x error value of the palette are each covered at least once per run, but the position inside a class, bits, reader scripts, multi-mutation lists, zero-key cases and histories are drawn from the seed, hence exhaustive=false for the run. Units: `evaluations` counts cases; `traces_validated_against_impl` counts comparisons of an implementation observable (released bytes + terminal error class) with the Lean model's value; cases the model does not cover (histories, pool probe, streamed many-segment documents) have monitors only and add no trace. Segment-level family (cmd/c02nonce, in-package overlay): nonce case: distinct (prefix, n, last, m, last') with (n, last) != (m, last'); segpos case: distinct (cipher, seed, length, sealed at, presented at); window case: distinct (cipher, seed, segment size, base, replaced index, distance, script); complete per base number of the fixed boundary list (0, 1, 2, 127, 128, 255, 256, 257, 2000, 65535, 65536, 65537, 2^16*255, 2^24-1, 2^24, 2^24+1, 0x01020304, 2^31-1, 2^31, 2^31+1, 2^32-2, 2^32-1): all 32 one-bit and 496 two-bit differences of the counter, the 23 other orders of its bytes, distances +-{1,255,256,257,65535,65536,65537,2^24,2^31}, the other last flag, all pairs of the list, under three nonce prefixes. bigdoc case: distinct (cipher, seed, segments, mutation, a, b): streamed documents of 5..516 segments (quick) and of 65539 segments = 4 GiB (thorough) with two segments exchanged or one replaced by a copy of another at distances 1, 2, 256, 512 and 65536."

const S = 65536
const SS = S + 16

type Mut struct {
	Kind  string `json:"kind"`            // flip trunc segdel segdup segswap append splice hdrswap edit
	Class string `json:"class,omitempty"` // position class / field
	A     int    `json:"a,omitempty"`
	B     int    `json:"b,omitempty"`
	Bit   int    `json:"bit,omitempty"`
	Sign  bool   `json:"resign,omitempty"`
}

func (m Mut) id() string {
	s := m.Kind
	if m.Class != "" {
		s += "@" + m.Class
	}
	if m.Sign {
		s += "+resign"
	}
	return s
}

type Case struct {
	Kind     string      `json:"kind"` // doc
	SeedA    uint64      `json:"seed_a"`
	SeedB    uint64      `json:"seed_b"`
	LenA     int         `json:"len_a"`
	LenB     int         `json:"len_b"`
	Cipher   string      `json:"cipher"`
	SameKey  bool        `json:"same_wrapping_key"`
	Muts     []Mut       `json:"mutations"`
	Unwrap   string      `json:"unwrap"` // ok other short error long
	Script   encx.Script `json:"script"`
	FailAt   int         `json:"fail_at"`                        // -1 = source does not fail, else offset into the mutated document
	FailCls  string      `json:"fail_class"`                     // offset class of FailAt
	Resume   bool        `json:"resume_after_failure,omitempty"` // failOnce only: the source goes on delivering the rest of the document after its transient failure
	Consumer []int       `json:"consumer_bufs"`
}

type seeded struct{ r *lib.Rand }

func (s seeded) Read(p []byte) (int, error) {
	copy(p, s.r.Bytes(len(p)))
	return len(p), nil
}

func mask(k []byte, m byte) []byte {
	o := make([]byte, len(k))
	for i := range k {
		o[i] = k[i] ^ (m + byte(i))
	}
	return o
}

type orig struct {
	plain, doc, fk []byte
	hdrLen         int
}

// mkDoc runs the real Encrypt with a seeded crypto/rand.Reader.
func mkDoc(seed uint64, n int, ciph string, wrapByte byte) (orig, error) {
	var o orig
	rng := lib.NewRand(seed)
	o.plain = rng.Bytes(n)
	old := crand.Reader
	crand.Reader = seeded{rng.Fork()}
	defer func() { crand.Reader = old }()
	opts := enc.EncryptOptions{Algorithm: enc.KeyAlgorithmAES256KW, KeyName: "kek",
		WrapKeyFn: func(k []byte, alg, kn string, nonce []byte) ([]byte, []byte, error) {
			o.fk = append([]byte(nil), k...)
			return mask(k, wrapByte), nil, nil
		}}
	if ciph != "" {
		c := enc.Cipher(ciph)
		opts.Cipher = &c
	}
	err := encx.Guard(60*time.Second, func() error {
		r, err := enc.Encrypt(bytes.NewReader(o.plain), opts)
		if err != nil {
			return err
		}
		var terr error
		o.doc, terr = encx.Drain(r, nil)
		return terr
	})
	if err != nil {
		return o, err
	}
	_, _, _, payload, err := encx.SplitHeader(o.doc)
	if err != nil {
		return o, err
	}
	o.hdrLen = len(o.doc) - len(payload)
	return o, nil
}

// layout of a (possibly already mutated) document
type layout struct {
	l1, l2, l3 [2]int // [start,end) of the three lines without their newline; -1 if absent
	hdrEnd     int    // offset after the third newline (len(doc) if fewer than three newlines)
	segs       [][2]int
}

func layoutOf(doc []byte) layout {
	var l layout
	pos := 0
	lines := [][2]int{{-1, -1}, {-1, -1}, {-1, -1}}
	for i := 0; i < 3; i++ {
		j := bytes.IndexByte(doc[pos:], '\n')
		if j < 0 {
			pos = len(doc)
			break
		}
		lines[i] = [2]int{pos, pos + j}
		pos += j + 1
	}
	l.l1, l.l2, l.l3 = lines[0], lines[1], lines[2]
	l.hdrEnd = pos
	for p := pos; p < len(doc); p += SS {
		e := p + SS
		if e > len(doc) {
			e = len(doc)
		}
		l.segs = append(l.segs, [2]int{p, e})
	}
	return l
}

func splice(doc []byte, from, to int, repl []byte) []byte {
	out := make([]byte, 0, len(doc)-(to-from)+len(repl))
	out = append(out, doc[:from]...)
	out = append(out, repl...)
	out = append(out, doc[to:]...)
	return out
}

func resign(doc, fk []byte) []byte {
	l := layoutOf(doc)
	if l.l3[0] < 0 {
		return doc
	}
	hdr := encx.IndepEncrypt(fk, make([]byte, 7), doc[l.l2[0]:l.l2[1]], 1, nil)
	return splice(doc, 0, l.hdrEnd, hdr)
}

// classRange returns the byte range of a position class in doc.
func classRange(doc []byte, l layout, class string, seg int) (int, int) {
	pick := func() [2]int {
		if len(l.segs) == 0 {
			return [2]int{len(doc), len(doc)}
		}
		return l.segs[((seg%len(l.segs))+len(l.segs))%len(l.segs)]
	}
	switch class {
	case "scheme":
		return l.l1[0], l.l1[1] + 1
	case "manifest":
		return l.l2[0], l.l2[1] + 1
	case "mac":
		return l.l3[0], l.l3[1] + 1
	case "body":
		s := pick()
		if s[1]-s[0] > 16 {
			return s[0], s[1] - 16
		}
		return s[0], s[0]
	case "tag":
		s := pick()
		if s[1]-s[0] >= 16 {
			return s[1] - 16, s[1]
		}
		return s[0], s[1]
	}
	return 0, len(doc)
}

// offsetOf maps an offset class to an absolute offset of doc.
func offsetOf(doc []byte, class string, a int) int {
	l := layoutOf(doc)
	switch class {
	case "start":
		return 0
	case "in-scheme", "in-manifest", "in-mac":
		lo, hi := classRange(doc, l, strings.TrimPrefix(class, "in-"), 0)
		if lo < 0 || hi-lo < 2 {
			return 0
		}
		return lo + 1 + a%(hi-lo-1)
	case "header-end-1":
		if l.hdrEnd > 0 {
			return l.hdrEnd - 1
		}
		return 0
	case "header-end":
		return l.hdrEnd
	case "header-end+1":
		if l.hdrEnd < len(doc) {
			return l.hdrEnd + 1
		}
		return len(doc)
	case "in-body":
		lo, hi := classRange(doc, l, "body", a)
		if hi <= lo {
			return lo
		}
		return lo + (a*7919)%(hi-lo)
	case "body-end":
		_, hi := classRange(doc, l, "body", a)
		return hi
	case "in-tag":
		lo, hi := classRange(doc, l, "tag", a)
		if hi-lo < 2 {
			return lo
		}
		return lo + 1 + a%(hi-lo-1)
	case "seg-boundary":
		if len(l.segs) == 0 {
			return len(doc)
		}
		return l.segs[a%len(l.segs)][1]
	case "seg-boundary+1": // the byte that completes segmentSize+1 in the loop's buffer (look-ahead byte of the next segment)
		if len(l.segs) == 0 {
			return len(doc)
		}
		o := l.segs[a%len(l.segs)][1] + 1
		if len(l.segs) > 1 {
			o = l.segs[a%(len(l.segs)-1)][1] + 1
		}
		if o > len(doc) {
			o = len(doc)
		}
		return o
	case "end-1":
		if len(doc) > 0 {
			return len(doc) - 1
		}
		return 0
	case "end":
		return len(doc)
	}
	return a % (len(doc) + 1)
}

var offsetClasses = []string{"start", "in-scheme", "in-manifest", "in-mac", "header-end-1", "header-end", "header-end+1", "in-body", "body-end", "in-tag", "seg-boundary", "seg-boundary+1", "end-1", "end"}

func editManifest(doc []byte, field string, a int) []byte {
	l := layoutOf(doc)
	if l.l2[0] < 0 {
		return doc
	}
	var m map[string]json.RawMessage
	if json.Unmarshal(doc[l.l2[0]:l.l2[1]], &m) != nil {
		return doc
	}
	var im encx.IndepManifest
	json.Unmarshal(doc[l.l2[0]:l.l2[1]], &im)
	switch field {
	case "cph":
		im.Cph = 3 - im.Cph
	case "cph-bad":
		im.Cph = 3 + a%5
	case "kw":
		im.KW = 1 + (im.KW+a)%5
	case "kw-bad":
		im.KW = 6 + a%3
	case "k":
		im.K = "other-key"
	case "k-drop":
		im.K = ""
	case "np":
		if len(im.NP) > 0 {
			im.NP[a%len(im.NP)] ^= 1 << uint(a%8)
		}
	case "np-short":
		if len(im.NP) > 0 {
			im.NP = im.NP[:len(im.NP)-1]
		}
	case "wfk":
		if len(im.WFK) > 0 {
			im.WFK[a%len(im.WFK)] ^= 1 << uint(a%8)
		}
	case "wfk-empty":
		im.WFK = nil
	}
	out := []byte("{")
	if im.K != "" {
		kb, _ := json.Marshal(im.K)
		out = append(out, `"k":`...)
		out = append(out, kb...)
		out = append(out, ',')
	}
	out = append(out, fmt.Sprintf(`"kw":%d,"wfk":"%s","cph":%d,"np":"%s"}`, im.KW, base64.StdEncoding.EncodeToString(im.WFK), im.Cph, base64.StdEncoding.EncodeToString(im.NP))...)
	return splice(doc, l.l2[0], l.l2[1], out)
}

func applyMut(doc []byte, m Mut, A, B orig) []byte {
	l := layoutOf(doc)
	switch m.Kind {
	case "flip":
		lo, hi := classRange(doc, l, m.Class, m.B)
		if lo < 0 || hi <= lo {
			return doc
		}
		out := append([]byte(nil), doc...)
		out[lo+m.A%(hi-lo)] ^= 1 << uint(m.Bit%8)
		return out
	case "trunc":
		return append([]byte(nil), doc[:offsetOf(doc, m.Class, m.A)]...)
	case "segdel":
		if len(l.segs) == 0 {
			return doc
		}
		s := l.segs[m.A%len(l.segs)]
		return splice(doc, s[0], s[1], nil)
	case "segdup":
		if len(l.segs) == 0 {
			return doc
		}
		s := l.segs[m.A%len(l.segs)]
		return splice(doc, s[1], s[1], doc[s[0]:s[1]])
	case "segswap":
		if len(l.segs) < 2 {
			return doc
		}
		i, j := m.A%len(l.segs), m.B%len(l.segs)
		if i == j {
			j = (i + 1) % len(l.segs)
		}
		if i > j {
			i, j = j, i
		}
		si, sj := l.segs[i], l.segs[j]
		out := append([]byte(nil), doc[:si[0]]...)
		out = append(out, doc[sj[0]:sj[1]]...)
		out = append(out, doc[si[1]:sj[0]]...)
		out = append(out, doc[si[0]:si[1]]...)
		out = append(out, doc[sj[1]:]...)
		return out
	case "append":
		switch m.Class {
		case "byte":
			return append(append([]byte(nil), doc...), byte(m.A))
		case "zeros17":
			return append(append([]byte(nil), doc...), make([]byte, 17)...)
		case "last-segment":
			if len(l.segs) == 0 {
				return doc
			}
			s := l.segs[len(l.segs)-1]
			return append(append([]byte(nil), doc...), doc[s[0]:s[1]]...)
		default: // a segment of the other document
			lb := layoutOf(B.doc)
			if len(lb.segs) == 0 {
				return doc
			}
			s := lb.segs[m.A%len(lb.segs)]
			return append(append([]byte(nil), doc...), B.doc[s[0]:s[1]]...)
		}
	case "splice":
		lb := layoutOf(B.doc)
		if len(lb.segs) == 0 {
			return doc
		}
		sb := lb.segs[m.B%len(lb.segs)]
		if len(l.segs) == 0 {
			return append(append([]byte(nil), doc...), B.doc[sb[0]:sb[1]]...)
		}
		sa := l.segs[m.A%len(l.segs)]
		if m.Class == "insert" {
			return splice(doc, sa[0], sa[0], B.doc[sb[0]:sb[1]])
		}
		return splice(doc, sa[0], sa[1], B.doc[sb[0]:sb[1]])
	case "hdrswap":
		return splice(doc, 0, l.hdrEnd, B.doc[:B.hdrLen])
	case "edit":
		out := editManifest(doc, m.Class, m.A)
		if m.Sign {
			out = resign(out, A.fk)
		}
		return out
	}
	return doc
}

type obs struct {
	released []byte
	term     string
	unwrapFK []byte
	unwrapN  int
	// failedInHeader: the scripted failure had already been returned to the code under test when
	// Decrypt returned without error (so it was delivered to readHeader)
	failedInHeader bool
}

func runDecrypt(c Case, doc []byte, A, B orig) obs {
	var o obs
	sc := c.Script
	sc.Data = doc
	if c.FailAt >= 0 {
		if c.FailAt < len(doc) {
			sc.Data = doc[:c.FailAt]
			if c.Resume && sc.Term == "failOnce" {
				sc.ResumeData = doc[c.FailAt:]
			}
		}
	} else {
		sc.Term = "eof"
	}
	other := lib.NewRand(c.SeedA ^ 0xabcdef).Bytes(32)
	unwrap := func(w []byte, alg, kn string, nonce, tag []byte) ([]byte, error) {
		o.unwrapN++
		var k []byte
		var err error
		switch c.Unwrap {
		case "other":
			k = other
		case "short":
			k = mask(w, 0x5c)[:16]
		case "long":
			k = append(mask(w, 0x5c), 0)
		case "error":
			k, err = nil, errors.New("vault says no")
		default:
			k = mask(w, 0x5c)
		}
		o.unwrapFK = append([]byte(nil), k...)
		return k, err
	}
	gerr := encx.Guard(60*time.Second, func() error {
		src := sc.Reader()
		r, err := enc.Decrypt(src, enc.DecryptOptions{UnwrapKeyFn: unwrap})
		if err != nil {
			o.term = encx.CanonSrc(err, sc, src)
			return nil
		}
		o.failedInHeader = src.Failed
		var terr error
		o.released, terr = encx.Drain(r, c.Consumer)
		o.term = encx.CanonSrc(terr, sc, src)
		return nil
	})
	if gerr != nil {
		o.term = encx.Canon(gerr)
	}
	return o
}

func build(c Case) (A, B orig, doc []byte, err error) {
	A, err = mkDoc(c.SeedA, c.LenA, c.Cipher, 0x5c)
	if err != nil {
		return
	}
	wb := byte(0x5c)
	if !c.SameKey {
		wb = 0x33
	}
	B, err = mkDoc(c.SeedB, c.LenB, c.Cipher, wb)
	if err != nil {
		return
	}
	doc = A.doc
	for _, m := range c.Muts {
		doc = applyMut(doc, m, A, B)
	}
	return
}

func mutIDs(c Case) string {
	var ids []string
	for _, m := range c.Muts {
		ids = append(ids, m.id())
	}
	if c.FailAt >= 0 {
		if c.Resume {
			ids = append(ids, "srcfail-transient@"+c.FailCls)
		} else {
			ids = append(ids, "srcfail@"+c.FailCls)
		}
	}
	if c.Unwrap != "ok" && c.Unwrap != "" {
		ids = append(ids, "unwrap="+c.Unwrap)
	}
	if len(ids) == 0 {
		return "none"
	}
	return strings.Join(ids, "+")
}

// firstKind is the coarse cause used in finding ids: the first mutation kind, else the source
// failure, else the unwrap mode.
func firstKind(c Case) string {
	if len(c.Muts) > 0 {
		return c.Muts[0].Kind
	}
	if c.FailAt >= 0 {
		return "srcfail"
	}
	if c.Unwrap != "ok" && c.Unwrap != "" {
		return "unwrap"
	}
	return "none"
}

func errKind(c Case) string {
	if c.Script.Err == "" {
		return "custom"
	}
	return c.Script.Err
}

// monitor decides, without the model, whether this run violates C02.
func monitor(res *lib.Result, c Case, A, B orig, doc []byte, o obs) {
	if o.term == "panic" || o.term == "timeout" {
		res.Violate("decrypt-"+o.term, "Decrypt did not return normally on "+mutIDs(c), c)
		return
	}
	// which original may the released bytes belong to?
	okA := encx.IsPrefix(o.released, A.plain)
	okB := encx.IsPrefix(o.released, B.plain)
	if !okA && !okB {
		res.Violate("released-not-prefix:"+firstKind(c), fmt.Sprintf("released %d bytes that are not a prefix of the original plaintext (%s)", len(o.released), mutIDs(c)), c)
		return
	}
	// a genuine source failure (any error value for which errors.Is(err, io.EOF) does not hold) must
	// never end in a clean EOF; an EOF-class error is an end-of-stream signal and is judged as a
	// truncation at that offset below
	if c.FailAt >= 0 && c.Script.Fails() && o.term == "ok" {
		id := "source-error-lost"
		if c.Resume {
			id = "source-error-lost:transient"
		}
		if o.failedInHeader {
			id = "header-read-error-swallowed"
		}
		res.Violate(id, fmt.Sprintf("the source reader failed with %q at offset %d (%s, offset class %s, %s, data-with-error=%v) but the stream ended in a clean EOF after %d bytes", encx.SourceErr(c.Script.Err).Error(), c.FailAt, mutIDs(c), c.FailCls, c.Script.Term, c.Script.EWD, len(o.released)), c)
		return
	}
	if o.term == "ok" {
		full := (okA && len(o.released) == len(A.plain)) || (okB && len(o.released) == len(B.plain))
		if !full {
			id := "silent-truncation:" + firstKind(c)
			eff := doc
			if c.FailAt >= 0 && c.FailAt < len(doc) {
				eff = doc[:c.FailAt]
			}
			// the only way to a clean EOF with nothing released is a document that ends right after
			// a header that verifies (the honest one, the other document's, or one re-signed by the
			// harness with the file key): the format-level finding. Anything else keeps its own id.
			le := layoutOf(eff)
			if len(o.released) == 0 && le.l3[0] >= 0 && le.hdrEnd == len(eff) {
				id = "truncate-at-header-end"
			}
			res.Violate(id, fmt.Sprintf("clean EOF after %d of %d plaintext bytes (document of %d bytes, effective %d bytes; %s)", len(o.released), len(A.plain), len(A.doc), len(eff), mutIDs(c)), c)
		}
	}
}

func gen(tier string, rng *lib.Rand, search bool) []Case {
	var cases []Case
	lens := []int{0, 1, 40, 300, S - 1, S, S + 1, 2 * S, 2*S + 1}
	weights := []int{1, 2, 6, 6, 1, 2, 2, 1, 1}
	if tier == "thorough" || search {
		lens = append(lens, 3*S, 3*S+1, 4*S+5)
		weights = append(weights, 1, 1, 1)
	}
	pickLen := func() int {
		tot := 0
		for _, w := range weights {
			tot += w
		}
		x := rng.Intn(tot)
		for i, w := range weights {
			if x < w {
				return lens[i]
			}
			x -= w
		}
		return 1
	}
	ciphers := []string{"AES-GCM", "CHACHA20-POLY1305"}
	flipClasses := []string{"scheme", "manifest", "mac", "body", "tag"}
	edits := []string{"cph", "cph-bad", "kw", "kw-bad", "k", "k-drop", "np", "np-short", "wfk", "wfk-empty"}
	appends := []string{"byte", "zeros17", "last-segment", "other-segment"}
	randMut := func() Mut {
		switch rng.Intn(10) {
		case 0, 1:
			return Mut{Kind: "flip", Class: flipClasses[rng.Intn(5)], A: rng.Intn(1 << 20), B: rng.Intn(4), Bit: rng.Intn(8)}
		case 2, 3:
			return Mut{Kind: "trunc", Class: offsetClasses[rng.Intn(len(offsetClasses))], A: rng.Intn(1 << 16)}
		case 4:
			return Mut{Kind: "segdel", A: rng.Intn(4)}
		case 5:
			return Mut{Kind: "segdup", A: rng.Intn(4)}
		case 6:
			return Mut{Kind: "segswap", A: rng.Intn(4), B: rng.Intn(4)}
		case 7:
			return Mut{Kind: "append", Class: appends[rng.Intn(4)], A: rng.Intn(256)}
		case 8:
			if rng.Bool() {
				return Mut{Kind: "hdrswap"}
			}
			return Mut{Kind: "splice", Class: []string{"replace", "insert"}[rng.Intn(2)], A: rng.Intn(4), B: rng.Intn(4)}
		default:
			return Mut{Kind: "edit", Class: edits[rng.Intn(len(edits))], A: rng.Intn(256), Sign: rng.Bool()}
		}
	}
	base := func(i int) Case {
		c := Case{Kind: "doc", SeedA: rng.U64(), SeedB: rng.U64(), LenA: pickLen(), LenB: pickLen(), Cipher: ciphers[i%2], SameKey: rng.Intn(3) != 0, Unwrap: "ok", FailAt: -1}
		if c.LenB > S+1 && (tier == "quick" && !search) {
			c.LenB = S + 1
		}
		c.Script = encx.RandomScript(rng, c.LenA+200, SS)
		if rng.Intn(3) == 0 {
			c.Consumer = []int{[]int{1, 13, 4096, 65536, 1 << 20}[rng.Intn(5)]}
		}
		return c
	}
	// systematic single mutations: every kind × class, on a small and on a multi-segment document
	sysLens := []int{300, S + 1}
	if tier == "thorough" || search {
		sysLens = []int{0, 1, 300, S, S + 1, 2*S + 1}
	}
	i := 0
	for _, n := range sysLens {
		var singles []Mut
		for _, cl := range flipClasses {
			for k := 0; k < 2; k++ {
				singles = append(singles, Mut{Kind: "flip", Class: cl, A: rng.Intn(1 << 20), B: k, Bit: rng.Intn(8)})
			}
		}
		for _, cl := range offsetClasses {
			singles = append(singles, Mut{Kind: "trunc", Class: cl, A: rng.Intn(1 << 16)})
			singles = append(singles, Mut{Kind: "trunc", Class: cl, A: rng.Intn(1 << 16)})
		}
		for k := 0; k < 3; k++ {
			singles = append(singles, Mut{Kind: "segdel", A: k}, Mut{Kind: "segdup", A: k}, Mut{Kind: "segswap", A: k, B: k + 1},
				Mut{Kind: "splice", Class: "replace", A: k, B: k}, Mut{Kind: "splice", Class: "insert", A: k, B: 0})
		}
		for _, a := range appends {
			singles = append(singles, Mut{Kind: "append", Class: a, A: 7})
		}
		singles = append(singles, Mut{Kind: "hdrswap"})
		for _, e := range edits {
			singles = append(singles, Mut{Kind: "edit", Class: e, A: rng.Intn(256)}, Mut{Kind: "edit", Class: e, A: rng.Intn(256), Sign: true})
		}
		for _, m := range singles {
			c := base(i)
			i++
			c.LenA = n
			if m.Kind == "splice" || m.Kind == "hdrswap" || m.Class == "other-segment" {
				c.LenB = []int{300, S + 1}[i%2]
			}
			c.Muts = []Mut{m}
			cases = append(cases, c)
		}
		// unwrap modes without and with a mutation
		for _, u := range []string{"other", "short", "long", "error"} {
			c := base(i)
			i++
			c.LenA = n
			c.Unwrap = u
			cases = append(cases, c)
		}
		// source failures at every offset class × both delivery styles × both failure kinds × every
		// error value of the palette (custom, io.ErrUnexpectedEOF, io.ErrClosedPipe, io.ErrNoProgress,
		// context.Canceled, os.ErrDeadlineExceeded, an error wrapping io.EOF)
		for _, cl := range offsetClasses {
			for _, ewd := range []bool{false, true} {
				for _, t := range []string{"failOnce", "failSticky"} {
					for _, ek := range encx.ErrKinds {
						c := base(i)
						i++
						c.LenA = n
						c.FailCls = cl
						c.FailAt = -2 // resolved against the document in runCase
						c.Script.EWD = ewd
						c.Script.Term = t
						c.Script.Err = ek
						if i%3 == 0 {
							c.Script.Caps = nil
						}
						cases = append(cases, c)
						if t == "failOnce" {
							// the same failure as a transient one: the source goes on with the rest of the document
							c2 := c
							c2.Resume = true
							cases = append(cases, c2)
						}
					}
				}
			}
		}
	}
	// random single / compound mutations
	n := 1500
	if tier == "thorough" {
		n = 8000
	}
	if search {
		n = 20000
	}
	for j := 0; j < n; j++ {
		c := base(i)
		i++
		k := 1
		if rng.Intn(3) == 0 {
			k = 2
		}
		if rng.Intn(12) == 0 {
			k = 3
		}
		for ; k > 0; k-- {
			c.Muts = append(c.Muts, randMut())
		}
		if rng.Intn(8) == 0 {
			c.Unwrap = []string{"other", "short", "long", "error"}[rng.Intn(4)]
		}
		if rng.Intn(5) == 0 {
			c.FailCls = offsetClasses[rng.Intn(len(offsetClasses))]
			c.FailAt = -2
			c.Script.Term = []string{"failOnce", "failSticky"}[rng.Intn(2)]
			c.Script.Err = encx.ErrKinds[rng.Intn(len(encx.ErrKinds))]
			c.Resume = c.Script.Term == "failOnce" && rng.Bool()
		}
		cases = append(cases, c)
	}
	return cases
}

func lenClass(n int) string {
	switch {
	case n == 0:
		return "0"
	case n < S:
		return "<1seg"
	case n%S == 0:
		return "k*65536"
	case n%S == 1:
		return "k*65536+1"
	case n%S == S-1:
		return "k*65536-1"
	}
	return "multi"
}

func runCase(res *lib.Result, drv *lib.Drv, real bool, c Case, idx int) {
	if encx.TooStuck() {
		res.Hit("skipped-after-timeouts")
		return
	}
	encx.Inflight(c)
	A, B, doc, err := build(c)
	if err != nil {
		res.Violate("encrypt-fails", "Encrypt failed while preparing a valid document: "+err.Error(), c)
		return
	}
	if c.FailAt == -2 {
		c.FailAt = offsetOf(doc, c.FailCls, int(c.SeedA%65521))
	}
	o := runDecrypt(c, doc, A, B)
	if o.term == "timeout" {
		// a genuine hang reproduces; a stall of a heavily loaded machine does not
		if o2 := runDecrypt(c, doc, A, B); o2.term != "timeout" {
			o = o2
			encx.Stuck--
			res.Hit("retried-after-timeout")
		}
	}
	key, _ := json.Marshal(c)
	nontrivial := len(c.Muts) > 0 || c.FailAt >= 0 || c.Unwrap != "ok"
	if nontrivial && bytes.Equal(doc, A.doc) && c.FailAt < 0 && c.Unwrap == "ok" {
		nontrivial = false // the mutation list was a no-op on this document
		res.Hit("mutation.noop")
	}
	res.Count(string(key), nontrivial)
	for _, m := range c.Muts {
		res.Hit("mut." + m.id())
	}
	if c.FailAt >= 0 {
		res.Hit("srcfail@" + c.FailCls)
		res.Hit("srcerr=" + errKind(c))
		if c.Resume {
			res.Hit("srcfail-transient")
		}
	}
	res.Hit("unwrap=" + c.Unwrap)
	res.Hit("len=" + lenClass(c.LenA))
	res.Hit("cipher=" + c.Cipher)
	res.Hit("term=" + o.term)
	if len(o.released) > 0 && o.term != "ok" {
		res.Hit("released-then-error")
	}
	if idx%97 == 0 {
		res.Sample(c)
	}
	monitor(res, c, A, B, doc, o)
	if real && drv != nil {
		sc := c.Script
		sc.Data = doc
		if c.FailAt >= 0 {
			if c.FailAt < len(doc) {
				sc.Data = doc[:c.FailAt]
			}
		} else {
			sc.Term = "eof"
		}
		fk := "none"
		if o.unwrapN > 0 {
			fk = encx.Hex(o.unwrapFK)
		}
		ans, err := drv.Ask(fmt.Sprintf("dec fk=%s keyname= %s", fk, sc.Line("data")))
		if err != nil {
			res.Disagree("driver-alive", c, err.Error(), "")
			return
		}
		kv := encx.KV(ans)
		if kv["unmodelled"] != "" {
			res.Hit("lean=unmodelled:" + kv["unmodelled"])
			return
		}
		res.Traces++
		if kv["term"] != o.term || kv["out"] != encx.Hex(o.released) {
			res.Disagree("Decrypt(real) = Kit.Enc.decryptImpl over Lean-native primitives on a mutated document", c,
				fmt.Sprintf("term=%s released=%d bytes", kv["term"], len(kv["out"])/2), fmt.Sprintf("term=%s released=%d bytes", o.term, len(o.released)))
		}
	}
}

// ---- histories: a rejected document first, then overlapping streams (pool hygiene) ----

type histCase struct {
	Kind      string `json:"kind"` // history
	SeedT     uint64 `json:"seed_tampered"`
	SeedB     uint64 `json:"seed_b"`
	SeedC     uint64 `json:"seed_c"`
	LenT      int    `json:"len_tampered"`
	LenB      int    `json:"len_b"`
	LenC      int    `json:"len_c"`
	Cipher    string `json:"cipher"`
	Tamper    Mut    `json:"tamper"`
	Rejected  int    `json:"rejected_documents"` // how many tampered documents are decrypted to their error first
	ReadFirst int    `json:"read_first"`         // bytes of B consumed before C starts
	Mode      string `json:"mode"`               // same | parallel
	CKind     string `json:"c_kind"`             // decrypt | roundtrip (Encrypt then Decrypt) | tampered
	Procs     int    `json:"gomaxprocs"`         // 0 = unchanged
	Probe     bool   `json:"pool_probe"`         // instead of B/C: drain BufPool and look for one buffer handed out twice
}

func histDec(doc []byte) (io.Reader, error) {
	return enc.Decrypt(bytes.NewReader(doc), enc.DecryptOptions{UnwrapKeyFn: func(w []byte, alg, kn string, nonce, tag []byte) ([]byte, error) {
		return mask(w, 0x5c), nil
	}})
}

func settle() {
	for i := 0; i < 50; i++ {
		runtime.Gosched()
	}
	time.Sleep(2 * time.Millisecond)
	for i := 0; i < 50; i++ {
		runtime.Gosched()
	}
}

// judge one stream against its original: prefix always; a valid document must come out whole.
func judgeStream(name string, got []byte, terr error, plain []byte, valid bool) (string, string) {
	if !encx.IsPrefix(got, plain) {
		return "released-not-prefix:after-rejected-document", fmt.Sprintf("stream %s released %d bytes that are not a prefix of its plaintext (first difference at %d)%s", name, len(got), firstDiff(got, plain), map[bool]string{true: ", WITHOUT error", false: ", then " + fmt.Sprint(terr)}[terr == nil])
	}
	if terr == nil && len(got) != len(plain) {
		return "silent-truncation:after-rejected-document", fmt.Sprintf("stream %s ended cleanly after %d of %d bytes", name, len(got), len(plain))
	}
	if valid && terr != nil {
		return "valid-stream-error:after-rejected-document", fmt.Sprintf("stream %s of an untouched document failed after %d bytes: %v", name, len(got), terr)
	}
	return "", ""
}

func firstDiff(a, b []byte) int {
	for i := 0; i < len(a) && i < len(b); i++ {
		if a[i] != b[i] {
			return i
		}
	}
	if len(a) < len(b) {
		return len(a)
	}
	return len(b)
}

func runHistory(c histCase) (problems [][2]string, err error) {
	if c.Procs > 0 {
		old := runtime.GOMAXPROCS(c.Procs)
		defer runtime.GOMAXPROCS(old)
	}
	T, err := mkDoc(c.SeedT, c.LenT, c.Cipher, 0x5c)
	if err != nil {
		return nil, err
	}
	B, err := mkDoc(c.SeedB, c.LenB, c.Cipher, 0x5c)
	if err != nil {
		return nil, err
	}
	C, err := mkDoc(c.SeedC, c.LenC, c.Cipher, 0x5c)
	if err != nil {
		return nil, err
	}
	tampered := applyMut(T.doc, c.Tamper, T, T)
	var mu sync.Mutex
	add := func(id, what string) {
		if id != "" {
			mu.Lock()
			problems = append(problems, [2]string{id, what})
			mu.Unlock()
		}
	}
	// 1. rejected documents, each read to its terminal
	for i := 0; i < c.Rejected; i++ {
		r, derr := histDec(tampered)
		if derr != nil {
			continue
		}
		got, terr := encx.Drain(r, nil)
		add(judgeStream(fmt.Sprintf("T%d (tampered)", i), got, terr, T.plain, false))
		settle()
	}
	// 2a. pool hygiene: no buffer may be in the pool twice
	if c.Probe {
		seen := map[*[]byte]int{}
		var order []*[]byte
		for i := 0; i < 8; i++ {
			b, _ := enc.BufPool.Get().(*[]byte)
			if b == nil {
				continue
			}
			seen[b]++
			if seen[b] == 1 {
				order = append(order, b)
			}
		}
		for b, n := range seen {
			if n > 1 {
				add("bufpool-double-put", fmt.Sprintf("after %d rejected document(s) BufPool handed out the same buffer %p %d times without a Put in between (it was Put twice)", c.Rejected, b, n))
			}
		}
		for _, b := range order {
			enc.BufPool.Put(b)
		}
		return problems, nil
	}
	// 2b. overlapping streams
	runC := func() {
		switch c.CKind {
		case "roundtrip":
			er, eerr := enc.Encrypt(bytes.NewReader(C.plain), enc.EncryptOptions{Algorithm: enc.KeyAlgorithmAES256KW, KeyName: "kek",
				WrapKeyFn: func(k []byte, alg, kn string, nonce []byte) ([]byte, []byte, error) { return mask(k, 0x5c), nil, nil }})
			if eerr != nil {
				add("valid-stream-error:after-rejected-document", "Encrypt C: "+eerr.Error())
				return
			}
			doc, terr := encx.Drain(er, nil)
			if terr != nil {
				add("valid-stream-error:after-rejected-document", "Encrypt stream C: "+terr.Error())
				return
			}
			r, derr := histDec(doc)
			if derr != nil {
				add("valid-stream-error:after-rejected-document", "Decrypt C (of a fresh Encrypt): "+derr.Error())
				return
			}
			got, terr := encx.Drain(r, nil)
			add(judgeStream("C (round trip)", got, terr, C.plain, true))
		case "tampered":
			r, derr := histDec(applyMut(C.doc, c.Tamper, C, C))
			if derr != nil {
				return
			}
			got, terr := encx.Drain(r, nil)
			add(judgeStream("C (tampered)", got, terr, C.plain, false))
		default:
			r, derr := histDec(C.doc)
			if derr != nil {
				add("valid-stream-error:after-rejected-document", "Decrypt C: "+derr.Error())
				return
			}
			got, terr := encx.Drain(r, []int{4096})
			add(judgeStream("C", got, terr, C.plain, true))
		}
	}
	rB, derr := histDec(B.doc)
	if derr != nil {
		add("valid-stream-error:after-rejected-document", "Decrypt B: "+derr.Error())
		return problems, nil
	}
	head := make([]byte, c.ReadFirst)
	n, rerr := io.ReadFull(rB, head)
	head = head[:n]
	if rerr != nil && rerr != io.EOF && rerr != io.ErrUnexpectedEOF {
		add(judgeStream("B", head, rerr, B.plain, true))
		return problems, nil
	}
	settle()
	var wg sync.WaitGroup
	if c.Mode == "parallel" {
		wg.Add(1)
		go func() { defer wg.Done(); runC() }() // C runs while B is being drained
	} else {
		runC()
	}
	rest, terr := encx.Drain(rB, []int{1000})
	wg.Wait()
	add(judgeStream("B (partly read while C ran)", append(head, rest...), terr, B.plain, true))
	return problems, nil
}

func genHistory(tier string, rng *lib.Rand, search bool) []histCase {
	var cases []histCase
	tampers := []Mut{{Kind: "flip", Class: "body", A: 12345, Bit: 3}, {Kind: "flip", Class: "tag", A: 5, Bit: 0}, {Kind: "trunc", Class: "in-body", A: 7}, {Kind: "segdup", A: 0}}
	i := 0
	for _, tm := range tampers {
		for _, procs := range []int{1, 0} {
			cases = append(cases, histCase{Kind: "history", SeedT: rng.U64(), LenT: []int{300, 70000}[i%2], LenB: 1, LenC: 1, Cipher: "AES-GCM",
				Tamper: tm, Rejected: 1 + i%2, Procs: procs, Probe: true})
			for _, rf := range []int{0, 10, 40000} {
				for _, ck := range []string{"decrypt", "roundtrip", "tampered"} {
					for _, mode := range []string{"same", "parallel"} {
						i++
						if tier == "quick" && !search && i%3 != 0 && !(procs == 1 && mode == "same" && ck == "decrypt") {
							continue
						}
						cases = append(cases, histCase{Kind: "history", SeedT: rng.U64(), SeedB: rng.U64(), SeedC: rng.U64(),
							LenT: []int{300, 70000}[i%2], LenB: []int{100000, 300, 131073}[i%3], LenC: []int{70000, 500}[i%2],
							Cipher: []string{"AES-GCM", "CHACHA20-POLY1305"}[i%2], Tamper: tm, Rejected: 1 + i%2, ReadFirst: rf,
							Mode: mode, CKind: ck, Procs: procs})
					}
				}
			}
		}
	}
	return cases
}

func checkHistory(res *lib.Result, c histCase, idx int) {
	if encx.TooStuck() {
		return
	}
	encx.Inflight(c)
	var problems [][2]string
	var herr error
	gerr := encx.Guard(120*time.Second, func() error { problems, herr = runHistory(c); return nil })
	key, _ := json.Marshal(c)
	res.Count(string(key), true)
	if c.Probe {
		res.Hit("history.pool-probe")
	} else {
		res.Hit("history.c=" + c.CKind)
		res.Hit("history.mode=" + c.Mode)
	}
	res.Hit(fmt.Sprintf("history.gomaxprocs=%d", c.Procs))
	res.Hit("history.tamper=" + c.Tamper.id())
	if idx%23 == 0 {
		res.Sample(c)
	}
	if gerr != nil {
		res.Violate("history-"+encx.Canon(gerr), "a history of streams did not finish: "+gerr.Error(), c)
		return
	}
	if herr != nil {
		res.Violate("encrypt-fails", "Encrypt failed while preparing a valid document: "+herr.Error(), c)
		return
	}
	for _, p := range problems {
		res.Violate(p[0], p[1], c)
	}
	if len(problems) == 0 {
		res.Hit("history.ok")
	}
}

// ---- forgery under the substituted key: the unwrap fails, the attacker built the document for 0^32 ----

type zkCase struct {
	Kind   string      `json:"kind"` // zerokey
	Seed   uint64      `json:"seed"`
	Len    int         `json:"plain_len"`
	Cipher int         `json:"cipher_id"`
	Key    string      `json:"document_key"` // zero (the public constant Decrypt substitutes) | random
	Unwrap string      `json:"unwrap"`       // error | short | long | nil | error-with-32-zero-bytes | error-with-32-random-bytes
	Script encx.Script `json:"script"`
}

func runZeroKey(res *lib.Result, drv *lib.Drv, real bool, c zkCase, idx int) {
	if encx.TooStuck() {
		return
	}
	encx.Inflight(c)
	rng := lib.NewRand(c.Seed)
	plain := append([]byte("attacker chosen plaintext "), rng.Bytes(c.Len)...)
	docKey := make([]byte, 32)
	if c.Key == "random" {
		docKey = rng.Bytes(32)
	}
	np := rng.Bytes(7)
	manifest := []byte(fmt.Sprintf(`{"k":"victim-key","kw":1,"wfk":"%s","cph":%d,"np":"%s"}`,
		base64.StdEncoding.EncodeToString(rng.Bytes(40)), c.Cipher, base64.StdEncoding.EncodeToString(np)))
	doc := encx.IndepEncrypt(docKey, np, manifest, c.Cipher, plain)
	var ret []byte
	var rerr error
	calls := 0
	unwrap := func(w []byte, alg, kn string, nonce, tag []byte) ([]byte, error) {
		calls++
		switch c.Unwrap {
		case "error":
			ret, rerr = nil, errors.New("vault: key not found")
		case "short":
			ret, rerr = rng.Bytes(16), nil
		case "long":
			ret, rerr = make([]byte, 33), nil
		case "nil":
			ret, rerr = nil, nil
		case "error-with-32-zero-bytes":
			ret, rerr = make([]byte, 32), errors.New("vault: unwrap failed")
		default:
			ret, rerr = append([]byte(nil), docKey...), errors.New("vault: unwrap failed")
		}
		return ret, rerr
	}
	sc := c.Script
	sc.Data = doc
	sc.Term = "eof"
	var released []byte
	term := ""
	gerr := encx.Guard(60*time.Second, func() error {
		r, err := enc.Decrypt(sc.Reader(), enc.DecryptOptions{UnwrapKeyFn: unwrap})
		if err != nil {
			term = encx.Canon(err)
			return nil
		}
		var terr error
		released, terr = encx.Drain(r, nil)
		term = encx.Canon(terr)
		return nil
	})
	if gerr != nil {
		term = encx.Canon(gerr)
	}
	key, _ := json.Marshal(c)
	res.Count(string(key), true)
	res.Hit("zerokey.unwrap=" + c.Unwrap)
	res.Hit("zerokey.term=" + term)
	if idx%7 == 0 {
		res.Sample(c)
	}
	if term == "panic" || term == "timeout" {
		res.Violate("decrypt-"+term, "Decrypt did not return normally on a document built for the substituted key", c)
		return
	}
	// monitor: the unwrap function failed (error, or no 32-byte key) — nothing may be released and the
	// stream must not end cleanly, whatever the document says
	failed := rerr != nil || len(ret) != 32
	if calls > 0 && failed && (term == "ok" || len(released) > 0) {
		res.Violate("zero-key-forgery", fmt.Sprintf("UnwrapKeyFn failed (%d bytes, err=%v) but Decrypt released %d bytes (%q…) and ended with %s: the document was MACed and sealed under the public all-zero key that Decrypt substitutes",
			len(ret), rerr, len(released), string(released[:min(len(released), 26)]), term), c)
	}
	if real && drv != nil {
		uerr := "0"
		if rerr != nil {
			uerr = "1"
		}
		fk := "none"
		if calls > 0 {
			fk = encx.Hex(ret)
			if len(ret) == 0 {
				fk = "empty"
			}
		}
		ans, err := drv.Ask(fmt.Sprintf("dec fk=%s uerr=%s keyname= %s", fk, uerr, sc.Line("data")))
		if err != nil {
			res.Disagree("driver-alive", c, err.Error(), "")
			return
		}
		kv := encx.KV(ans)
		if kv["unmodelled"] != "" {
			res.Hit("lean=unmodelled:" + kv["unmodelled"])
			return
		}
		res.Traces++
		if kv["term"] != term || kv["out"] != encx.Hex(released) {
			res.Disagree("Decrypt(real) = Kit.Enc.decryptImpl when UnwrapKeyFn fails", c,
				fmt.Sprintf("term=%s released=%d bytes", kv["term"], len(kv["out"])/2), fmt.Sprintf("term=%s released=%d bytes", term, len(released)))
		}
	}
}

func genZeroKey(tier string, rng *lib.Rand) []zkCase {
	var cases []zkCase
	for _, key := range []string{"zero", "random"} {
		for _, u := range []string{"error", "short", "long", "nil", "error-with-32-zero-bytes", "error-with-32-document-key"} {
			for _, n := range []int{0, 3, 70000} {
				for cph := 1; cph <= 2; cph++ {
					if tier == "quick" && n == 70000 && cph == 2 && key == "random" {
						continue
					}
					cases = append(cases, zkCase{Kind: "zerokey", Seed: rng.U64(), Len: n, Cipher: cph, Key: key, Unwrap: u,
						Script: encx.RandomScript(rng, n+300, SS)})
				}
			}
		}
	}
	return cases
}

func main() {
	f := lib.ParseFlags()
	encx.Supervise(f.Out, rule, func() { run(f) })
}

func run(f lib.Flags) {
	res := lib.NewResult(rule)
	rng := lib.NewRand(f.Seed)
	drv, err := lib.StartDrv(f.Drv, "C02")
	if err != nil {
		res.Note("model driver could not be started: " + err.Error())
		drv = nil
	}
	defer drv.Close()
	real := false
	if drv != nil {
		a, err := drv.Ask("caps")
		real = err == nil && strings.Contains(a, "real=1")
		if !real {
			res.Note("kitdrv has no Lean-native primitives linked in: mutated documents are judged by the monitor only (" + a + ")")
		}
	}

	if f.Replay != "" {
		b, err := os.ReadFile(f.Replay)
		if err != nil {
			res.Note("replay: " + err.Error())
			res.Write(f.Out)
			return
		}
		var rf struct {
			Case json.RawMessage `json:"case"`
		}
		json.Unmarshal(b, &rf)
		var kind struct {
			Kind string `json:"kind"`
		}
		json.Unmarshal(rf.Case, &kind)
		if kind.Kind == "toy" {
			encx.RunLoop("c02", f, res)
		} else if kind.Kind == "nonce" || kind.Kind == "segpos" || kind.Kind == "window" {
			runNonceHarness(f, res)
		} else if kind.Kind == "bigdoc" {
			var c bigCase
			json.Unmarshal(rf.Case, &c)
			checkBig(res, c, 1)
		} else if kind.Kind == "zerokey" {
			var c zkCase
			json.Unmarshal(rf.Case, &c)
			runZeroKey(res, drv, real, c, 1)
		} else if kind.Kind == "history" {
			var c histCase
			json.Unmarshal(rf.Case, &c)
			checkHistory(res, c, 1)
		} else {
			var c Case
			if err := json.Unmarshal(rf.Case, &c); err != nil {
				res.Note("replay: " + err.Error())
			} else {
				runCase(res, drv, real, c, 1)
			}
		}
		res.Write(f.Out)
		return
	}

	// small-scale loop tie (separate binary built with the overlay)
	encx.RunLoop("c02", f, res)
	// segment-level tie at chosen segment numbers (separate binary built with its own overlay)
	runNonceHarness(f, res)
	rng.Fork()
	cases := gen(f.Tier, rng.Fork(), f.Search)
	for i, c := range cases {
		runCase(res, drv, real, c, i)
	}
	for i, c := range genZeroKey(f.Tier, rng.Fork()) {
		runZeroKey(res, drv, real, c, i)
	}
	for i, c := range genHistory(f.Tier, rng.Fork(), f.Search) {
		checkHistory(res, c, i)
	}
	// streamed many-segment documents (drawn after every other family: their seeds do not move)
	for i, c := range genBig(f.Tier, rng.Fork(), f.Search) {
		checkBig(res, c, i)
	}
	res.Write(f.Out)
}
