package main

// Segment-level family of C02 (after seeded change C02-r4m1): cmd/c02nonce is built with its own build
// overlay (harness/overlay/enc_c02_nonce_zz_verif.go: the unexported nonceForSegment, the segment
// functions of an imported file key, the segment loop) and run as a separate process, its result merged
// into this one. If the overlay no longer compiles against the package (the unexported signatures
// changed), only this tie is reported as broken; the API-level monitors of this harness still run.

import (
	"encoding/json"
	"fmt"
	"io"
	"os"
	"os/exec"
	"path/filepath"
	"strconv"
	"strings"

	"verifharness/lib"
)

type tail struct{ b []byte }

func (t *tail) Write(p []byte) (int, error) {
	t.b = append(t.b, p...)
	if len(t.b) > 1500 {
		t.b = t.b[len(t.b)-1500:]
	}
	return len(p), nil
}

func runNonceHarness(f lib.Flags, res *lib.Result) {
	repo := os.Getenv("VERIF_REPO")
	if repo == "" {
		repo = "/repo"
	}
	verif := os.Getenv("VERIF_DIR")
	if verif == "" {
		verif = "/verif"
	}
	work := f.Work
	if work == "" {
		work = os.TempDir()
	}
	harness := filepath.Join(verif, "harness")
	dir := filepath.Join(work, "c02nonce")
	os.MkdirAll(dir, 0o755)
	corr := "build: cmd/c02nonce + harness/overlay/enc_c02_nonce_zz_verif.go against schemes/enc/v1 (nonceForSegment, importFileKey, EncryptSegment, DecryptSegment, processSegments signatures)"
	ov, _ := json.Marshal(map[string]any{"Replace": map[string]string{
		filepath.Join(repo, "schemes/enc/v1/zz_verif_c02nonce.go"): filepath.Join(harness, "overlay/enc_c02_nonce_zz_verif.go")}})
	ovPath := filepath.Join(dir, "overlay.json")
	if err := os.WriteFile(ovPath, ov, 0o644); err != nil {
		res.Disagree(corr, "c02nonce", "", err.Error())
		return
	}
	bin := filepath.Join(dir, "c02nonce")
	args := []string{"build", "-tags", "verif unit", "-overlay", ovPath, "-o", bin}
	if repo != "/repo" {
		gm, err := os.ReadFile(filepath.Join(harness, "go.mod"))
		if err != nil {
			res.Disagree(corr, "c02nonce", "", err.Error())
			return
		}
		os.WriteFile(filepath.Join(dir, "go.mod"), []byte(strings.ReplaceAll(string(gm), "=> /repo", "=> "+repo)), 0o644)
		if gs, err := os.ReadFile(filepath.Join(repo, "go.sum")); err == nil {
			os.WriteFile(filepath.Join(dir, "go.sum"), gs, 0o644)
		}
		args = append(args, "-modfile", filepath.Join(dir, "go.mod"))
	}
	args = append(args, "./cmd/c02nonce")
	cmd := exec.Command("go", args...)
	cmd.Dir = harness
	if out, err := cmd.CombinedOutput(); err != nil {
		msg := string(out)
		if len(msg) > 1500 {
			msg = msg[:1500]
		}
		res.Disagree(corr, map[string]string{"kind": "build", "mode": "c02nonce"}, "the overlay compiles (unexported API as modelled)", "go build failed: "+msg)
		res.Note("the segment-level tie (nonceForSegment / EncryptSegment / DecryptSegment at chosen segment numbers) could not be built; API-level monitors only")
		return
	}
	out := filepath.Join(dir, "result.json")
	os.Remove(out)
	rargs := []string{"--tier", f.Tier, "--seed", strconv.FormatUint(f.Seed, 10), "--drv", f.Drv, "--out", out, "--work", dir}
	if f.Search {
		rargs = append(rargs, "--search")
	}
	if f.Replay != "" {
		rargs = append(rargs, "--replay", f.Replay)
	}
	run := exec.Command(bin, rargs...)
	run.Dir = harness
	var tl tail
	run.Stdout = os.Stderr
	run.Stderr = io.MultiWriter(os.Stderr, &tl)
	rerr := run.Run()
	b, err := os.ReadFile(out)
	if err != nil {
		res.Violate("crash-in-segment-harness", fmt.Sprintf("the segment-level harness died without a result (%v): %s", rerr, string(tl.b)), map[string]string{"kind": "build", "mode": "c02nonce"})
		return
	}
	var sub struct {
		Evaluations   int               `json:"evaluations"`
		Nontrivial    int               `json:"distinct_nontrivial"`
		Samples       []json.RawMessage `json:"samples"` // raw: 64-bit seeds must not pass through float64
		Distribution  map[string]int    `json:"distribution"`
		Traces        int               `json:"traces_validated_against_impl"`
		Disagreements []struct {
			Correspondence string          `json:"correspondence"`
			Case           json.RawMessage `json:"case"`
			Model          string          `json:"model"`
			Impl           string          `json:"impl"`
		} `json:"disagreements"`
		Violations []struct {
			FindingID string          `json:"finding_id"`
			What      string          `json:"what"`
			Case      json.RawMessage `json:"case"`
		} `json:"violations"`
		Notes []string `json:"notes"`
	}
	if err := json.Unmarshal(b, &sub); err != nil {
		res.Disagree(corr, "c02nonce", "", "unreadable result: "+err.Error())
		return
	}
	res.Evaluations += sub.Evaluations
	res.Nontrivial += sub.Nontrivial
	res.Traces += sub.Traces
	for k, v := range sub.Distribution {
		res.Distribution[k] += v
	}
	for i, s := range sub.Samples {
		if i < 3 {
			res.Samples = append(res.Samples, s)
		}
	}
	for _, d := range sub.Disagreements {
		res.Disagree(d.Correspondence, d.Case, d.Model, d.Impl)
	}
	for _, v := range sub.Violations {
		res.Violate(v.FindingID, v.What, v.Case)
	}
	for _, n := range sub.Notes {
		res.Note(n)
	}
}
