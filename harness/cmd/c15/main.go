// Command c15 ties the Lean model of package ttlcache (lean/KitModel/TTLCache.lean) to the real
// code and runs model-independent monitors for property C15.
//
// Modes (all run on every invocation):
//
//	seq    seeded histories of Set/Get/Delete/Cleanup/Reset/Advance on the real cache under a
//	       deterministic clock (build overlay), exact diff of every answer and of the stored
//	       state against `kitdrv C15`; reference monitor written from the property statement.
//	sched  forced interleavings: Cleanup/Reset goroutines (manual callers and the periodic
//	       cleaner) parked at the verifhook point between key snapshot and bulk delete while
//	       Set/Get/Delete/Advance run; exact diff against the concurrent LTS of the model.
//	free   free-running goroutines + periodic cleaner, judged by the hit_is_fresh /
//	       miss-only-by-documented-race monitors.
//	stop   Stop returns only after the cleaner goroutine has exited.
package main

import (
	"encoding/hex"
	"encoding/json"
	"fmt"
	"os"
	"runtime"
	"sort"
	"strconv"
	"strings"
	"sync"
	"time"
	"unicode/utf8"

	"github.com/dapr/kit/ttlcache"
	"github.com/dapr/kit/verifhook"

	"verifharness/lib"
)

const rule = "a case (history / schedule) is non-trivial when it contains at least one successful Set and one Get that hits and one Get that misses a key that had been set; distinct = distinct (config, op-line sequence)"

const (
	t0Sec       = 1_000_000_000 // fake clock start: 2001-09-09
	maxSafeTTL  = 9223372036    // largest ttl with ttl*1e9 < 2^63
	nsPerSecond = int64(time.Second)
)

var t0 = time.Unix(t0Sec, 0)

// Case is what is stored in replay files.
type Case struct {
	Mode  string   `json:"mode"` // seq | sched
	Seed  uint64   `json:"seed,omitempty"`
	Lines []string `json:"lines"`
}

type kvs map[string]string

func parseLine(s string) (op string, kv kvs) {
	f := strings.Fields(s)
	kv = kvs{}
	if len(f) == 0 {
		return "", kv
	}
	for _, w := range f[1:] {
		if i := strings.IndexByte(w, '='); i >= 0 {
			kv[w[:i]] = w[i+1:]
		} else {
			kv[w] = ""
		}
	}
	return f[0], kv
}

func (k kvs) i64(name string) (int64, bool) {
	v, err := strconv.ParseInt(k[name], 10, 64)
	return v, err == nil
}

func showTime(t time.Time) string { return fmt.Sprintf("%d.%d", t.Unix(), t.Nanosecond()) }

func showDump(c *ttlcache.Cache[int]) string {
	d := c.VerifDump()
	sort.SliceStable(d, func(i, j int) bool { return keyToken(d[i].Key) < keyToken(d[j].Key) }) // the model sorts by token
	parts := make([]string, len(d))
	for i, e := range d {
		parts[i] = fmt.Sprintf("%s:%d:%s", keyToken(e.Key), e.Val, showTime(e.Exp))
	}
	return fmt.Sprintf("n=%d e=%s", c.VerifLen(), strings.Join(parts, ";"))
}

// ---------------------------------------------------------------------------------------------
// key tokens. The protocol lines (and the Lean model, whose keys are abstract) carry key TOKENS:
// printable words without blanks or `= : ; ,`. The real cache is driven with realKey(token), so a
// case can use keys that cannot be written into a line: the empty string (the Go zero value), NUL,
// invalid UTF-8, trailing blanks, very long keys. The mapping is injective on the tokens the
// generators use, so model and implementation talk about the same finite map.
//
//	a, ab, A, w3 …        the token itself
//	~                     "" (empty string)
//	~x<hex>               the bytes <hex>
//	~r<n>x<hex>[s<hex>]   the bytes <hex> repeated n times, then the optional suffix

var tokOf sync.Map // real key -> token (for keys that have no canonical short token: the long ones)

func realKey(tok string) string {
	if !strings.HasPrefix(tok, "~") {
		return tok
	}
	real, ok := func() (string, bool) {
		body := tok[1:]
		switch {
		case body == "":
			return "", true
		case body[0] == 'x':
			b, err := hex.DecodeString(body[1:])
			return string(b), err == nil && len(b) > 0
		case body[0] == 'r':
			i := strings.IndexByte(body, 'x')
			if i < 0 {
				return "", false
			}
			n, err := strconv.Atoi(body[1:i])
			rest, suffix := body[i+1:], ""
			if j := strings.IndexByte(rest, 's'); j >= 0 {
				rest, suffix = rest[:j], rest[j+1:]
			}
			b, err2 := hex.DecodeString(rest)
			sfx, err3 := hex.DecodeString(suffix)
			if err != nil || err2 != nil || err3 != nil || n < 1 || n > 1<<20 || len(b) == 0 {
				return "", false
			}
			return strings.Repeat(string(b), n) + string(sfx), true
		}
		return "", false
	}()
	if !ok {
		return tok // not a token of the scheme: the word itself is the key
	}
	if keyTokenCanonical(real) != tok {
		tokOf.Store(real, tok)
	}
	return real
}

func plainKey(k string) bool {
	if k == "" || len(k) > 48 {
		return false
	}
	for i := 0; i < len(k); i++ {
		c := k[i]
		if !(c >= 'a' && c <= 'z' || c >= 'A' && c <= 'Z' || c >= '0' && c <= '9' || c == '_' || c == '-' || c == '.') {
			return false
		}
	}
	return true
}

func keyTokenCanonical(real string) string {
	switch {
	case real == "":
		return "~"
	case plainKey(real):
		return real
	}
	return "~x" + hex.EncodeToString([]byte(real))
}

// keyToken is the inverse of realKey on the generators' alphabet (and total: any other key is hex).
func keyToken(real string) string {
	if t, ok := tokOf.Load(real); ok {
		return t.(string)
	}
	return keyTokenCanonical(real)
}

func keyTokens(reals []string) []string {
	out := make([]string, len(reals))
	for i, k := range reals {
		out[i] = keyToken(k)
	}
	sort.Strings(out)
	return out
}

// unusualKeys: legal keys the usual a/b/c/d never exercise. Empty string = Go zero value; a single
// NUL; bytes that are not UTF-8; a blank, a newline; keys differing only in case or by a trailing
// blank; keys that are prefixes of one another (the empty key is a prefix of all); multi-byte
// UTF-8; very long keys differing in the last byte / by one byte of length.
var unusualKeys = []string{
	"~", "~x00", "~x0000", "~xff", "~xc328", "~x20", "~x0a", "~x6120", "~x612020", "~x6100",
	"a", "A", "ab", "abc", "aB", "~xe29c93", "~xf09f9880", "~x7e", "~x3d", "~x2c3a3b",
	"~r4096x6b", "~r4097x6b", "~r4096x6bs00", "~r300x00", "~r70000x6162",
}

// pickKeySet: the keys one generated case works on. One third of the cases keep a/b/c/d; the
// others draw from unusualKeys, the empty key being forced into half of those.
func pickKeySet(r *lib.Rand, nk int) []string {
	if r.Intn(3) == 0 {
		return append([]string(nil), keys[:nk]...)
	}
	pool := append([]string(nil), unusualKeys...)
	for i := len(pool) - 1; i > 0; i-- {
		j := r.Intn(i + 1)
		pool[i], pool[j] = pool[j], pool[i]
	}
	ks := pool[:nk]
	if r.Intn(2) == 0 {
		has := false
		for _, k := range ks {
			has = has || k == "~"
		}
		if !has {
			ks[r.Intn(nk)] = "~"
		}
	}
	return ks
}

// guarded runs f under recover and a deadline; a panic or hang in the real code becomes an outcome.
func guarded(d time.Duration, f func() string) (out string) {
	ch := make(chan string, 1)
	go func() {
		defer func() {
			if r := recover(); r != nil {
				ch <- "panic"
			}
		}()
		ch <- f()
	}()
	select {
	case s := <-ch:
		return s
	case <-time.After(d):
		return "timeout"
	}
}

// ---------------------------------------------------------------------------------------------
// reference monitor (written from the property statement; independent of the Lean model)

type setRec struct {
	val     int
	eff     int64 // ttl after the MaxTTL cap, seconds
	at      time.Time
	gen     int
	lostBy  string // "" or "race": removed by a cleaner whose snapshot predates this Set (documented)
	unknown bool   // ttl beyond the stated overflow bound: excluded by hypothesis
}

type monitor struct {
	maxTTL int64
	last   map[string]*setRec
	gen    int
	res    *lib.Result
	c      *Case
	hits   int
	misses int
	sets   int
	seq    bool                 // sequential family: no cleaner runs concurrently, so every miss of a live entry is a defect
	hist   map[string][]*setRec // every successful Set per key (the snapshot monitor needs more than the last one)
}

func newMonitor(maxTTL int64, res *lib.Result, c *Case) *monitor {
	return &monitor{maxTTL: maxTTL, last: map[string]*setRec{}, hist: map[string][]*setRec{}, res: res, c: c}
}

func (m *monitor) effTTL(ttl int64) int64 {
	if m.maxTTL > 0 && ttl > m.maxTTL {
		return m.maxTTL
	}
	return ttl
}

func (m *monitor) onSet(k string, v int, ttl int64, now time.Time) {
	m.gen++
	m.sets++
	eff := m.effTTL(ttl)
	r := &setRec{val: v, eff: eff, at: now, gen: m.gen}
	if eff > maxSafeTTL {
		r.unknown = true
		m.res.Hit("monitor:ttl-beyond-overflow-bound(excluded)")
	}
	m.last[k] = r
	m.hist[k] = append(m.hist[k], r)
}

// expiredBy: the entry stored by r carries an expiry strictly before now (what Cleanup may remove).
func expiredBy(r *setRec, now time.Time) bool {
	return r.unknown || int64(now.Sub(r.at)) > r.eff*nsPerSecond
}

// onCleanupSnapshot judges the key list a Cleanup hands to its bulk delete (observed at the
// verifhook point between snapshot and delete; `now` is the cache clock at or after the Cleanup's own
// clock reading — the clock never goes back). "Cleanup removes only entries that have expired": every
// listed key must have held, at some time, an entry whose expiry lies before now. A key that was
// never set, or whose every entry is still unexpired, has no business in that list — whatever is
// stored under it when the bulk delete runs disappears although it is live and nobody touched it.
// Computed from the harness's own op log and the fake clock only. If `stored` is given (sequential
// use: the state right before the call) the demand is the exact one: the key is stored and that
// entry's expiry is before now.
func (m *monitor) onCleanupSnapshot(who string, snap []string, now time.Time, stored []ttlcache.VerifEntry[int]) {
	var sm map[string]ttlcache.VerifEntry[int]
	if stored != nil {
		sm = map[string]ttlcache.VerifEntry[int]{}
		for _, e := range stored {
			sm[e.Key] = e
		}
	}
	seen := map[string]bool{}
	for _, k := range snap {
		m.res.Hit("monitor:cleanup-snapshot-key-checked")
		if seen[k] {
			m.res.Hit("monitor:cleanup-snapshot-duplicate-key")
		}
		seen[k] = true
		everExpired := false
		for _, r := range m.hist[k] {
			everExpired = everExpired || expiredBy(r, now)
		}
		switch {
		case len(m.hist[k]) == 0:
			m.res.Violate("cleanup-snapshot-holds-unexpired-key",
				fmt.Sprintf("%s at %s hands %q (token %s) to its bulk delete although that key was never set: the list must hold expired entries only; a live entry stored under %q disappears at this cleanup (list: %q)", who, showTime(now), k, keyToken(k), k, shortKeys(snap)), m.c)
		case !everExpired:
			m.res.Violate("cleanup-snapshot-holds-unexpired-key",
				fmt.Sprintf("%s at %s hands %q (token %s) to its bulk delete although no entry ever stored under it has expired (%d Sets; the last one: v=%d ttl %d s at %s)", who, showTime(now), k, keyToken(k), len(m.hist[k]), m.hist[k][len(m.hist[k])-1].val, m.hist[k][len(m.hist[k])-1].eff, showTime(m.hist[k][len(m.hist[k])-1].at)), m.c)
		case sm != nil:
			if e, ok := sm[k]; !ok || !e.Exp.Before(now) {
				m.res.Violate("cleanup-snapshot-holds-unexpired-key",
					fmt.Sprintf("sequential %s at %s hands %q (token %s) to its bulk delete; stored=%v exp=%s: not an expired stored entry", who, showTime(now), k, keyToken(k), ok, showTime(e.Exp)), m.c)
			}
		}
	}
}

func shortKeys(ks []string) []string {
	out := make([]string, 0, len(ks))
	for i, k := range ks {
		if i == 12 {
			out = append(out, fmt.Sprintf("… %d more", len(ks)-i))
			break
		}
		if len(k) > 24 {
			k = k[:24] + "…"
		}
		out = append(out, k)
	}
	return out
}
func (m *monitor) onDelete(k string) { delete(m.last, k) }
func (m *monitor) onReset()          { m.last = map[string]*setRec{} }

// live says whether the statement demands a hit for r at time now.
func live(r *setRec, now time.Time) bool {
	el := now.Sub(r.at) // saturates at MaxInt64, which is > eff*1e9 for every eff within the bound
	return int64(el) < r.eff*nsPerSecond
}

func (m *monitor) onGet(k string, hit bool, v int, now time.Time) {
	r := m.last[k]
	if r != nil && r.unknown {
		return
	}
	want := r != nil && live(r, now)
	if r != nil && want && r.at.Nanosecond() != 0 {
		if rest := r.eff*nsPerSecond - int64(now.Sub(r.at)); rest > 0 && rest <= nsPerSecond {
			m.res.Hit("monitor:get-in-last-second-before-expiry(set at non-whole-second clock)")
		}
	}
	idHit, idMiss := "get-returned-expired-deleted-or-reset-value", "get-missed-live-entry"
	if m.seq {
		idHit, idMiss = "get-hit-expired", "get-missed-live-entry-sequential"
	}
	if r == nil {
		idHit = "get-hit-deleted-or-reset"
	}
	switch {
	case hit && !want:
		m.res.Violate(idHit,
			fmt.Sprintf("Get(%q) hit v=%d although the statement demands a miss (rec=%+v now=%s)", k, v, r, showTime(now)), m.c)
	case hit && v != r.val:
		m.res.Violate("get-returned-superseded-value",
			fmt.Sprintf("Get(%q) = %d, most recent Set stored %d", k, v, r.val), m.c)
	case !hit && want:
		if r.lostBy == "race" {
			m.res.Hit("monitor:miss-by-documented-cleanup/refresh-race")
			m.misses++
			return
		}
		m.res.Violate(idMiss,
			fmt.Sprintf("Get(%q) missed although v=%d was set %s ago (at %s, read at %s) with ttl %ds and not deleted/reset", k, r.val, now.Sub(r.at), showTime(r.at), showTime(now), r.eff), m.c)
	}
	if hit {
		m.hits++
	} else if r != nil {
		m.misses++
	}
}

// onCleanupDiff: Cleanup may remove only expired entries (Get would miss them) and nothing else changes.
func (m *monitor) onCleanupDiff(before, after []ttlcache.VerifEntry[int], now time.Time) {
	am := map[string]ttlcache.VerifEntry[int]{}
	for _, e := range after {
		am[e.Key] = e
	}
	bm := map[string]ttlcache.VerifEntry[int]{}
	for _, e := range before {
		bm[e.Key] = e
		a, ok := am[e.Key]
		if !ok {
			if e.Exp.After(now) {
				m.res.Violate("cleanup-removed-live-entry",
					fmt.Sprintf("Cleanup at %s removed %q (exp %s)", showTime(now), e.Key, showTime(e.Exp)), m.c)
			}
			m.res.Hit("monitor:cleanup-removed-expired")
			continue
		}
		if a != e {
			m.res.Violate("cleanup-changed-entry", fmt.Sprintf("Cleanup changed %q: %+v -> %+v", e.Key, e, a), m.c)
		}
		if !e.Exp.After(now) {
			if e.Exp.Equal(now) {
				m.res.Hit("monitor:cleanup-kept-entry-with-exp==now")
			} else {
				m.res.Violate("cleanup-kept-expired-entry",
					fmt.Sprintf("sequential Cleanup at %s kept %q (exp %s)", showTime(now), e.Key, showTime(e.Exp)), m.c)
			}
		}
	}
	for k := range am {
		if _, ok := bm[k]; !ok {
			m.res.Violate("cleanup-changed-entry", fmt.Sprintf("Cleanup created %q", k), m.c)
		}
	}
}

func (m *monitor) nontrivial() bool { return m.sets > 0 && m.hits > 0 && m.misses > 0 }

// ---------------------------------------------------------------------------------------------
// seq mode

var keys = []string{"a", "b", "c", "d"}

// curMon is the monitor of the case being generated (its op log drives some probes).
var curMon *monitor

var maxTTLs = []int64{0, 0, -3, 1, 2, 5, 15, 15, 60, maxSafeTTL, maxSafeTTL + 1, 1 << 40}

type seqExec struct {
	c   *ttlcache.Cache[int]
	clk *ttlcache.VerifClock
	mon *monitor
	res *lib.Result
}

func newSeqExec(maxTTL int64, res *lib.Result, cs *Case) *seqExec {
	clk := ttlcache.NewVerifClock(t0)
	c := ttlcache.VerifNewCache[int](ttlcache.CacheOptions{
		MaxTTL:          maxTTL,
		CleanupInterval: 100 * 365 * 24 * time.Hour, // the periodic cleaner never fires in seq mode
	}, clk)
	mon := newMonitor(maxTTL, res, cs)
	mon.seq = true
	return &seqExec{c: c, clk: clk, mon: mon, res: res}
}

// exec runs one protocol line against the real cache and returns the canonical answer.
func (x *seqExec) exec(line string) string {
	op, kv := parseLine(line)
	return guarded(5*time.Second, func() string {
		switch op {
		case "set":
			v, ok1 := kv.i64("v")
			ttl, ok2 := kv.i64("ttl")
			if !ok1 || !ok2 || v < 0 {
				return "error"
			}
			now := x.clk.Now()
			k := realKey(kv["k"])
			x.c.Set(k, int(v), ttl) // ttl <= 0 panics (documented misuse) -> "panic"
			x.mon.onSet(k, int(v), ttl, now)
			x.res.Hit("op:set")
			hitKeyClass(x.res, k)
			return "ok"
		case "get":
			k := realKey(kv["k"])
			v, ok := x.c.Get(k)
			x.mon.onGet(k, ok, v, x.clk.Now())
			if ok {
				x.res.Hit("op:get-hit")
				return "hit v=" + strconv.Itoa(v)
			}
			x.res.Hit("op:get-miss")
			return "miss"
		case "del":
			x.c.Delete(realKey(kv["k"]))
			x.mon.onDelete(realKey(kv["k"]))
			x.res.Hit("op:delete")
			return "ok"
		case "cleanup":
			before := x.c.VerifDump()
			snap, seen := x.observeSnapshot(func() { x.c.Cleanup() })
			now := x.clk.Now()
			if seen {
				x.mon.onCleanupSnapshot("Cleanup", snap, now, before)
			}
			x.mon.onCleanupDiff(before, x.c.VerifDump(), now)
			x.res.Hit("op:cleanup")
			return "ok"
		case "reset":
			x.c.Reset()
			x.mon.onReset()
			if n := x.c.VerifLen(); n != 0 {
				x.res.Violate("reset-left-entries", fmt.Sprintf("sequential Reset left %d entries", n), x.mon.c)
			}
			x.res.Hit("op:reset")
			return "ok"
		case "adv":
			d, ok := kv.i64("d")
			if !ok || d < 0 {
				return "error"
			}
			x.clk.Advance(time.Duration(d))
			x.res.Hit("op:advance")
			return "ok"
		case "dump":
			return showDump(x.c)
		}
		return "error"
	})
}

// observeSnapshot runs f (a Cleanup) with a verifhook callback that records the key list the
// cache is about to bulk-delete.
func (x *seqExec) observeSnapshot(f func()) (snap []string, seen bool) {
	verifhook.Set(func(name string, args ...any) {
		if name != "ttlcache.cleanup.afterSnapshot" || len(args) < 2 {
			return
		}
		if c, ok := args[0].(*ttlcache.Cache[int]); !ok || c != x.c {
			return
		}
		ks, _ := args[1].([]string)
		snap, seen = append([]string(nil), ks...), true
	})
	defer verifhook.Set(nil)
	f()
	return snap, seen
}

// hitKeyClass records which kind of key a Set used (distribution).
func hitKeyClass(res *lib.Result, k string) {
	switch {
	case k == "":
		res.Hit("key:empty-string")
	case strings.IndexByte(k, 0) >= 0:
		res.Hit("key:contains-NUL")
	case len(k) > 1000:
		res.Hit("key:long(>1000 bytes)")
	case !utf8.ValidString(k):
		res.Hit("key:invalid-utf8")
	case !plainKey(k):
		res.Hit("key:blank/punctuation/multibyte")
	default:
		res.Hit("key:plain")
	}
}

func (x *seqExec) close() {
	done := make(chan struct{})
	go func() { x.c.Stop(); close(done) }()
	select {
	case <-done:
	case <-time.After(5 * time.Second):
		x.res.Violate("stop-hangs", "Stop did not return within 5s on an idle cache", x.mon.c)
	}
}

func pickTTL(r *lib.Rand, maxTTL int64) int64 {
	switch r.Intn(20) {
	case 0:
		return int64(r.Range(-2, 0)) // documented misuse: panics
	case 1:
		return []int64{maxSafeTTL - 1, maxSafeTTL, maxSafeTTL + 1, 1 << 33, 1 << 34, 1 << 62, 1<<63 - 1}[r.Intn(7)]
	}
	if maxTTL > 0 && maxTTL < 1<<32 && r.Intn(3) > 0 {
		c := []int64{maxTTL - 1, maxTTL, maxTTL + 1, 2 * maxTTL, maxTTL / 2}
		if t := c[r.Intn(len(c))]; t > 0 {
			return t
		}
	}
	return int64(r.Range(1, 20))
}

// pickAdvance: mostly to just before / exactly at / just after the expiry of a stored entry.
func pickAdvance(r *lib.Rand, c *ttlcache.Cache[int], now time.Time, res *lib.Result) int64 {
	if mon := curMon; mon != nil && r.Intn(3) == 0 {
		// probes computed from the harness's own op log: into the last second before the true expiry
		var cands []int64
		for _, rec := range mon.last {
			if rec.unknown {
				continue
			}
			rest := rec.eff*nsPerSecond - int64(now.Sub(rec.at))
			if rest > 1 && rec.eff <= 1<<31 {
				cands = append(cands, rest)
			}
		}
		if len(cands) > 0 {
			rest := cands[r.Intn(len(cands))]
			res.Hit("advance:into-last-second-before-true-expiry")
			back := int64(r.Range(1, 999_999_999))
			if back >= rest {
				back = 1
			}
			return rest - back
		}
	}
	if r.Intn(4) > 0 {
		d := c.VerifDump()
		var cands []time.Duration
		for _, e := range d {
			g := e.Exp.Sub(now)
			if g > 0 && g < 1<<62 {
				cands = append(cands, g)
			}
		}
		if len(cands) > 0 {
			g := cands[r.Intn(len(cands))]
			switch r.Intn(5) {
			case 0:
				res.Hit("advance:to-expiry-minus-1ns")
				return int64(g - 1)
			case 1, 2:
				res.Hit("advance:exactly-to-expiry")
				return int64(g)
			case 3:
				res.Hit("advance:to-expiry-plus-1ns")
				return int64(g + 1)
			default:
				res.Hit("advance:half-way")
				return int64(g / 2)
			}
		}
	}
	res.Hit("advance:random")
	switch r.Intn(7) {
	case 0:
		return 0
	case 1:
		return 1
	case 2:
		return nsPerSecond - 1
	case 3, 4:
		res.Hit("advance:sub-second-offset")
		return int64(r.Range(1, 999_999_999)) // leaves the clock at a non-whole-second value
	default:
		return int64(r.Range(1, 40)) * nsPerSecond / 4
	}
}

// genSeq generates a history adaptively on the real cache and returns lines + real answers.
func genSeq(r *lib.Rand, res *lib.Result, n int) (*Case, []string, *monitor) {
	maxTTL := maxTTLs[r.Intn(len(maxTTLs))]
	cs := &Case{Mode: "seq", Seed: r.S}
	x := newSeqExec(maxTTL, res, cs)
	defer x.close()
	curMon = x.mon
	defer func() { curMon = nil }()
	nk := r.Range(1, len(keys))
	ks := pickKeySet(r, nk)
	var outs []string
	emit := func(l string) {
		cs.Lines = append(cs.Lines, l)
		outs = append(outs, x.exec(l))
	}
	emit(fmt.Sprintf("new max=%d t0=%d", maxTTL, t0.UnixNano()))
	outs[0] = "ok"
	if r.Intn(4) > 0 { // most histories start at a non-whole-second clock value
		emit(fmt.Sprintf("adv d=%d", r.Range(1, 999_999_999)))
		res.Hit("seq:starts-at-sub-second-offset")
	}
	val := 0
	for i := 0; i < n; i++ {
		k := ks[r.Intn(nk)]
		switch p := r.Intn(100); {
		case p < 30:
			val++
			emit(fmt.Sprintf("set k=%s v=%d ttl=%d", k, val, pickTTL(r, maxTTL)))
		case p < 55:
			emit("get k=" + k)
		case p < 62:
			emit("del k=" + k)
		case p < 72:
			emit("cleanup")
			emit("dump")
		case p < 76:
			emit("reset")
			emit("dump")
		default:
			emit(fmt.Sprintf("adv d=%d", pickAdvance(r, x.c, x.clk.Now(), res)))
			for _, kk := range ks {
				emit("get k=" + kk)
			}
		}
		if r.Intn(6) == 0 {
			emit("dump")
		}
	}
	emit("dump")
	return cs, outs, x.mon
}

// runLines executes stored lines (replay / corpus) on the real code.
func runSeqLines(cs *Case, res *lib.Result) []string {
	var x *seqExec
	var outs []string
	for _, l := range cs.Lines {
		op, kv := parseLine(l)
		if op == "new" {
			if x != nil {
				x.close()
			}
			mx, _ := kv.i64("max")
			x = newSeqExec(mx, res, cs)
			outs = append(outs, "ok")
			continue
		}
		if x == nil {
			outs = append(outs, "error")
			continue
		}
		outs = append(outs, x.exec(l))
	}
	if x != nil {
		x.close()
	}
	return outs
}

// diff sends the lines to the model and compares answer by answer.
func diff(drv *lib.Drv, res *lib.Result, corr string, cs *Case, impl []string) bool {
	if drv == nil {
		return true
	}
	model, err := drv.AskBatch(cs.Lines)
	if err != nil {
		res.Disagree(corr, cs, "driver error: "+err.Error(), "")
		return false
	}
	for i := range cs.Lines {
		if model[i] != impl[i] {
			short := &Case{Mode: cs.Mode, Seed: cs.Seed, Lines: cs.Lines[:i+1]}
			res.Disagree(corr, short, fmt.Sprintf("line %d %q -> %s", i, cs.Lines[i], model[i]),
				fmt.Sprintf("line %d %q -> %s", i, cs.Lines[i], impl[i]))
			return false
		}
	}
	return true
}

// fixed boundary family (always run): exp == now is missed by Get and kept by Cleanup.
func boundaryCases() []*Case {
	var out []*Case
	for _, mx := range []int64{0, 3, 10} {
		for _, ttl := range []int64{1, 3, 4, 10, 11} {
			eff := ttl
			if mx > 0 && ttl > mx {
				eff = mx
			}
			cs := &Case{Mode: "seq"}
			add := func(s string) { cs.Lines = append(cs.Lines, s) }
			add(fmt.Sprintf("new max=%d t0=%d", mx, t0.UnixNano()))
			add(fmt.Sprintf("set k=a v=7 ttl=%d", ttl))
			add(fmt.Sprintf("adv d=%d", eff*nsPerSecond-1))
			add("get k=a") // hit
			add("cleanup")
			add("dump")
			add("adv d=1")
			add("get k=a") // miss: exp == now
			add("cleanup")
			add("dump") // still stored
			add("adv d=1")
			add("get k=a")
			add("cleanup")
			add("dump") // gone
			out = append(out, cs)
		}
	}
	return out
}

// unusual keys, sequential (always run): per key K a live entry next to an expired plain one through
// Cleanup (kept, still served), the exp == now boundary, expiry and Reset; plus one history holding
// ALL unusual keys at once (prefixes of one another, case / trailing-blank twins, the two long
// keys) where each must keep its own value through a Cleanup that removes one expired neighbour.
func unusualKeySeqCases() []*Case {
	var out []*Case
	adv := func(ns int64) string { return fmt.Sprintf("adv d=%d", ns) }
	for _, mx := range []int64{0, 5} {
		for _, K := range unusualKeys {
			g := "get k=" + K
			out = append(out, &Case{Mode: "seq", Lines: []string{
				fmt.Sprintf("new max=%d t0=%d", mx, t0.UnixNano()),
				"cleanup", "dump", // Cleanup of an empty cache
				"set k=" + K + " v=7 ttl=4", "cleanup", g, "set k=zz v=1 ttl=1", adv(2 * nsPerSecond), "cleanup", "dump", g, "get k=zz",
				adv(2*nsPerSecond - 1), "cleanup", g, adv(1), g, "cleanup", "dump", adv(1), "cleanup", "dump", g,
				"set k=" + K + " v=8 ttl=3", "cleanup", g, "del k=" + K, g, "set k=" + K + " v=9 ttl=3", "reset", g, "dump"}})
		}
	}
	all := &Case{Mode: "seq", Lines: []string{fmt.Sprintf("new max=0 t0=%d", t0.UnixNano())}}
	for i, K := range unusualKeys {
		all.Lines = append(all.Lines, fmt.Sprintf("set k=%s v=%d ttl=%d", K, 100+i, 50+i))
	}
	all.Lines = append(all.Lines, "set k=zz v=1 ttl=1", adv(2*nsPerSecond), "cleanup", "dump")
	for _, K := range unusualKeys {
		all.Lines = append(all.Lines, "get k="+K)
	}
	all.Lines = append(all.Lines, "del k=~", "cleanup", "dump", "get k=~", "get k=~x00", adv(60*nsPerSecond), "cleanup", "dump", adv(60*nsPerSecond), "cleanup", "dump")
	// every key deleted in turn: exactly that key misses, every other key keeps its own value
	// (a Delete / Cleanup / lookup that normalises, truncates or prefix-matches keys shows here)
	each := &Case{Mode: "seq", Lines: []string{fmt.Sprintf("new max=0 t0=%d", t0.UnixNano())}}
	for i, K := range unusualKeys {
		each.Lines = append(each.Lines, fmt.Sprintf("set k=%s v=%d ttl=%d", K, 100+i, 500+i))
	}
	for i, K := range unusualKeys {
		each.Lines = append(each.Lines, "del k="+K, "cleanup")
		for _, K2 := range unusualKeys {
			each.Lines = append(each.Lines, "get k="+K2)
		}
		each.Lines = append(each.Lines, fmt.Sprintf("set k=%s v=%d ttl=%d", K, 200+i, 500+i), adv(nsPerSecond/2))
	}
	each.Lines = append(each.Lines, "dump")
	return append(out, all, each)
}

func runSeq(f lib.Flags, res *lib.Result, drv *lib.Drv, r *lib.Rand) {
	for _, cs := range unusualKeySeqCases() {
		outs := runSeqLines(cs, res) // judged by the reference monitor (onGet / onCleanupSnapshot / onCleanupDiff)
		diff(drv, res, "seq: kitdrv C15 (KitModel.TTLCache.step) vs ttlcache.Cache under VerifClock", cs, outs)
		res.Count(strings.Join(cs.Lines, "|"), true)
		res.Hit("family:unusual-key-sequential")
		res.Traces++
	}
	for _, cs := range boundaryCases() {
		outs := runSeqLines(cs, res)
		want := []string{"ok", "ok", "ok", "hit v=7", "ok", "", "ok", "miss", "ok", "", "ok", "miss", "ok", "n=0 e="}
		for i, w := range want {
			if w != "" && outs[i] != w {
				res.Violate("boundary-behaviour", fmt.Sprintf("line %d %q answered %q, expected %q", i, cs.Lines[i], outs[i], w), cs)
			}
		}
		if !strings.HasPrefix(outs[9], "n=1 ") {
			res.Violate("boundary-behaviour", "Cleanup at exp == now removed the entry: "+outs[9], cs)
		}
		diff(drv, res, "seq: kitdrv C15 (KitModel.TTLCache.step) vs ttlcache.Cache under VerifClock", cs, outs)
		res.Count(strings.Join(cs.Lines, "|"), true)
		res.Hit("family:boundary")
	}
	n := 400
	if f.Tier == "thorough" {
		n = 6000
	}
	if f.Search {
		n *= 20
	}
	for i := 0; i < n; i++ {
		cr := r.Fork()
		cs, outs, mon := genSeq(cr, res, cr.Range(10, 70))
		diff(drv, res, "seq: kitdrv C15 (KitModel.TTLCache.step) vs ttlcache.Cache under VerifClock", cs, outs)
		res.Count(strings.Join(cs.Lines, "|"), mon.nontrivial())
		res.Hit("family:seq-random")
		res.Hit("seq-len:" + bucket(len(cs.Lines)))
		if i < 2 {
			res.Sample(map[string]any{"case": cs, "impl": outs})
		}
		res.Traces++
	}
}

func bucket(n int) string {
	switch {
	case n < 30:
		return "<30"
	case n < 80:
		return "30-79"
	case n < 160:
		return "80-159"
	}
	return ">=160"
}

// ---------------------------------------------------------------------------------------------

func goroutineCount() int { return runtime.NumGoroutine() }

func sortedCopy(s []string) []string {
	o := append([]string(nil), s...)
	sort.Strings(o)
	return o
}

func replay(f lib.Flags, res *lib.Result, drv *lib.Drv) {
	b, err := os.ReadFile(f.Replay)
	if err != nil {
		fmt.Fprintln(os.Stderr, "replay:", err)
		os.Exit(3)
	}
	var rp struct {
		Case json.RawMessage `json:"case"`
	}
	var cs Case
	if json.Unmarshal(b, &rp) != nil || json.Unmarshal(rp.Case, &cs) != nil || len(cs.Lines) == 0 {
		// differing_cases form written by bin/check for disagreements
		var alt struct {
			Cases []struct {
				Case Case `json:"case"`
			} `json:"differing_cases"`
		}
		if json.Unmarshal(b, &alt) != nil || len(alt.Cases) == 0 {
			res.Note("replay file holds no executable case")
			return
		}
		cs = alt.Cases[0].Case
	}
	var outs []string
	switch cs.Mode {
	case "pair":
		if len(cs.Lines) >= 2 {
			n := 200000
			if len(cs.Lines) >= 3 {
				if x, err := strconv.Atoi(cs.Lines[2]); err == nil {
					n = x
				}
			}
			pairScenario(res, &cs, cs.Lines[0], cs.Lines[1], n)
		}
		res.Sample(map[string]any{"case": cs})
		return
	case "stopnow":
		runStopImmediately(f, res, drv)
		return
	case "free", "stop":
		res.Note("replay of a " + cs.Mode + " scenario: re-running the whole family with the stored seed")
		if cs.Mode == "free" {
			runFree(f, res, lib.NewRand(cs.Seed))
		} else {
			runStop(f, res, lib.NewRand(cs.Seed))
		}
		return
	case "sched":
		outs = runSchedLines(&cs, res)
		diff(drv, res, "sched: kitdrv C15 (KitModel.TTLCache.cstep) vs ttlcache.Cache with cleaners parked at verifhook points", &cs, outs)
	default:
		outs = runSeqLines(&cs, res)
		diff(drv, res, "seq: kitdrv C15 (KitModel.TTLCache.step) vs ttlcache.Cache under VerifClock", &cs, outs)
	}
	res.Count(strings.Join(cs.Lines, "|"), true)
	res.Sample(map[string]any{"case": cs, "impl": outs})
}

func main() {
	f := lib.ParseFlags()
	res := lib.NewResult(rule)
	drv, err := lib.StartDrv(f.Drv, "C15")
	if err != nil {
		fmt.Fprintln(os.Stderr, "c15: cannot start model driver:", err)
		drv = nil
		res.Note("model driver could not be started: " + err.Error())
	}
	if drv == nil {
		res.Note("model driver unavailable: monitors only")
	}
	defer drv.Close()
	if f.Replay != "" {
		replay(f, res, drv)
		res.Write(f.Out)
		return
	}
	r := lib.NewRand(f.Seed*0x9e3779b97f4a7c15 + 15)
	runSeq(f, res, drv, r.Fork())
	runSched(f, res, drv, r.Fork())
	runStop(f, res, r.Fork())
	runStopImmediately(f, res, drv)
	runPairs(f, res) // first: its bare-haxmap control gates the free-run known ids
	runFree(f, res, r.Fork())
	res.Exhaustive = false
	res.Note("exhaustive=false: the fixed families (boundary, forced races, split Get/Set, Reset during a sweep, concurrent Stop, stop-immediately scripts) are complete lists by construction, but histories, schedules and free-running interleavings are sampled, not enumerated")
	res.Write(f.Out)
}
