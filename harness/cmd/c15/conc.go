package main

import (
	"bytes"
	"fmt"
	"runtime"
	"strconv"
	"strings"
	"sync"
	"sync/atomic"
	"time"

	"github.com/alphadose/haxmap"
	"github.com/dapr/kit/ttlcache"
	"github.com/dapr/kit/verifhook"

	"verifharness/lib"
)

// waitTicker: NewCache creates its ticker inside the cleaner goroutine; the first tick is due one
// interval after THAT moment on the cache's clock, so scenarios start once the ticker exists.
func waitTicker(clk *ttlcache.VerifClock) bool {
	for i := 0; i < 50000; i++ {
		if clk.TickerMade.Load() > 0 {
			return true
		}
		time.Sleep(20 * time.Microsecond)
	}
	return false
}

func goid() int64 {
	var b [64]byte
	n := runtime.Stack(b[:], false)
	f := bytes.Fields(b[:n])
	if len(f) < 2 {
		return -1
	}
	id, _ := strconv.ParseInt(string(f[1]), 10, 64)
	return id
}

// ---------------------------------------------------------------------------------------------
// sched mode: cleaners parked at the hook between snapshot and bulk delete

type parkEvent struct {
	id      int
	kind    string
	keys    []string
	release chan struct{}
}

type schedExec struct {
	c   *ttlcache.Cache[int]
	clk *ttlcache.VerifClock
	res *lib.Result
	cs  *Case
	mon *monitor

	mu       sync.Mutex
	reg      map[int64]int // goroutine id -> cleaner id (manual callers); unknown goroutine = periodic cleaner (0)
	parkCh   chan *parkEvent
	parked   map[int]*parkEvent
	done     map[int]chan string
	snapGen  map[int]map[string]int // cleaner id -> key -> generation of the Set the snapshot saw (monitor)
	bgParked bool
	stopped  bool
	stopCalled bool
	stops    map[int]chan struct{} // concurrent Stop callers

	role map[int64]roleT     // goroutine -> split Get / Set caller it runs
	gets map[int]*pendingGet // Gets parked between map read and clock read
	sets map[int]*pendingSet // Sets parked between clock read and store
}

type roleT struct {
	kind string // "get" | "set"
	id   int
}

type pendingGet struct {
	key       string
	ev        *parkEvent
	done      chan string
	recAtRead *setRec // monitor: the key's record when the Get read the map
	early     string  // the key was absent: Get returned without reading the clock
}

type pendingSet struct {
	key  string
	val  int
	ttl  int64
	at   time.Time // clock value the Set read
	ev   *parkEvent
	done chan string
}

func newSchedExec(maxTTL int64, iv time.Duration, res *lib.Result, cs *Case) *schedExec {
	return newSchedExecOpt(maxTTL, iv, res, cs, true)
}

// waitStart=false: return right after NewCache (the periodic goroutine may not have run yet).
func newSchedExecOpt(maxTTL int64, iv time.Duration, res *lib.Result, cs *Case, waitStart bool) *schedExec {
	x := &schedExec{res: res, cs: cs, reg: map[int64]int{}, parkCh: make(chan *parkEvent, 16),
		parked: map[int]*parkEvent{}, done: map[int]chan string{}, snapGen: map[int]map[string]int{},
		stops: map[int]chan struct{}{}, role: map[int64]roleT{}, gets: map[int]*pendingGet{}, sets: map[int]*pendingSet{}}
	x.clk = ttlcache.NewVerifClock(t0)
	x.mon = newMonitor(maxTTL, res, cs)
	verifhook.Set(x.hook)
	before := func() { x.clockHook("get") } // a Get has read the map and is about to read the clock
	after := func() { x.clockHook("set") }  // a Set has read the clock and is about to store
	x.clk.NowHook.Store(&before)
	x.clk.AfterNowHook.Store(&after)
	x.c = ttlcache.VerifNewCache[int](ttlcache.CacheOptions{MaxTTL: maxTTL, CleanupInterval: iv}, x.clk)
	if waitStart && !waitTicker(x.clk) {
		res.Note("sched: the cleaner goroutine never created its ticker")
	}
	return x
}

func (x *schedExec) hook(name string, args ...any) {
	if !strings.HasPrefix(name, "ttlcache.") || len(args) < 2 {
		return
	}
	if c, ok := args[0].(*ttlcache.Cache[int]); !ok || c != x.c {
		return
	}
	ks, _ := args[1].([]string)
	x.mu.Lock()
	id := x.reg[goid()] // 0 = not registered = the cache's own goroutine
	x.mu.Unlock()
	ev := &parkEvent{id: id, kind: name, keys: sortedCopy(ks), release: make(chan struct{})}
	x.parkCh <- ev
	select {
	case <-ev.release:
	case <-time.After(20 * time.Second):
		x.res.Note("hook: cleaner " + strconv.Itoa(id) + " was never released (harness problem)")
	}
}

// clockHook parks the goroutine of a split Get (before its clock read) or Set (after it).
func (x *schedExec) clockHook(kind string) {
	x.mu.Lock()
	r, ok := x.role[goid()]
	if ok && r.kind == kind {
		delete(x.role, goid()) // park once
	}
	x.mu.Unlock()
	if !ok || r.kind != kind {
		return
	}
	ev := &parkEvent{id: r.id, kind: kind, release: make(chan struct{})}
	x.parkCh <- ev
	select {
	case <-ev.release:
	case <-time.After(20 * time.Second):
		x.res.Note(kind + " caller was never released (harness problem)")
	}
}

func (x *schedExec) waitPark(want int) (*parkEvent, bool) {
	select {
	case ev := <-x.parkCh:
		if ev.id != want {
			x.res.Note(fmt.Sprintf("sched: expected cleaner %d at the hook, got %d", want, ev.id))
		}
		x.parked[ev.id] = ev
		return ev, true
	case <-time.After(3 * time.Second):
		return nil, false
	}
}

// monitor bookkeeping for the documented race: remember which Set generation each snapshot saw.
func (x *schedExec) noteSnapshot(id int, ev *parkEvent) {
	g := map[string]int{}
	for _, k := range ev.keys {
		if r := x.mon.last[k]; r != nil {
			g[k] = r.gen
		} else {
			g[k] = -1
		}
	}
	x.snapGen[id] = g
}

func (x *schedExec) noteFinish(id int, isReset bool) {
	for k, g := range x.snapGen[id] {
		r := x.mon.last[k]
		if r == nil {
			continue
		}
		if r.gen != g {
			// a Set of k happened between this cleaner's snapshot and its delete: documented race
			r.lostBy = "race"
			x.res.Hit("sched:set-between-snapshot-and-delete")
		} else if isReset {
			delete(x.mon.last, k)
		}
	}
	delete(x.snapGen, id)
}

func (x *schedExec) exec(line string) string {
	op, kv := parseLine(line)
	return guarded(8*time.Second, func() string {
		switch op {
		case "set":
			v, ok1 := kv.i64("v")
			ttl, ok2 := kv.i64("ttl")
			if !ok1 || !ok2 || v < 0 {
				return "error"
			}
			now := x.clk.Now()
			k := realKey(kv["k"])
			x.c.Set(k, int(v), ttl)
			x.mon.onSet(k, int(v), ttl, now)
			x.res.Hit("op:set")
			hitKeyClass(x.res, k)
			return "ok"
		case "get":
			k := realKey(kv["k"])
			v, ok := x.c.Get(k)
			x.mon.onGet(k, ok, v, x.clk.Now())
			if ok {
				x.res.Hit("op:get-hit")
				return "hit v=" + strconv.Itoa(v)
			}
			x.res.Hit("op:get-miss")
			return "miss"
		case "del":
			x.c.Delete(realKey(kv["k"]))
			x.mon.onDelete(realKey(kv["k"]))
			x.res.Hit("op:delete")
			return "ok"
		case "adv":
			d, ok := kv.i64("d")
			if !ok || d < 0 {
				return "error"
			}
			drop0 := x.clk.TicksDrop.Load()
			n := x.clk.Advance(time.Duration(d))
			x.res.Hit("op:advance")
			switch {
			case n > 0:
				x.res.Hit("tick:sent")
				return "ok tick=sent"
			case x.clk.TicksDrop.Load() > drop0:
				x.res.Hit("tick:dropped")
				return "ok tick=drop"
			}
			return "ok tick=none"
		case "cbegin":
			id64, ok := kv.i64("id")
			id := int(id64)
			kind := kv["kind"]
			if !ok || id <= 0 || (kind != "cleanup" && kind != "reset") || x.done[id] != nil {
				return "error"
			}
			done := make(chan string, 1)
			x.done[id] = done
			ready := make(chan struct{})
			// nothing else runs until the cleaner parks: this is the state its ForEach walks
			storedBefore, nowBefore := x.c.VerifDump(), x.clk.Now()
			if storedBefore == nil {
				storedBefore = []ttlcache.VerifEntry[int]{}
			}
			go func() {
				defer func() {
					if r := recover(); r != nil {
						done <- "panic"
					}
				}()
				x.mu.Lock()
				x.reg[goid()] = id
				x.mu.Unlock()
				close(ready)
				if kind == "reset" {
					x.c.Reset()
				} else {
					x.c.Cleanup()
				}
				done <- "ok"
			}()
			<-ready
			var ev *parkEvent
			select {
			case ev = <-x.parkCh:
				if ev.id != id {
					x.res.Note(fmt.Sprintf("sched: expected cleaner %d at the hook, got %d", id, ev.id))
				}
				x.parked[ev.id] = ev
			case out := <-done:
				// the call returned without ever reaching the point between snapshot and bulk delete
				delete(x.done, id)
				if kind == "reset" {
					x.mon.onReset() // it returned: by the statement everything set before is "reset since"
					if d := x.c.VerifDump(); len(d) > 0 {
						x.res.Violate("reset-left-entries", fmt.Sprintf("Reset returned (%s) without snapshotting although %d entries are stored (another sweep in flight: %v)", out, len(d), x.bgParked || len(x.parked) > 0), x.cs)
					}
				}
				return "returned-without-snapshot"
			case <-time.After(3 * time.Second):
				return "timeout"
			}
			x.noteSnapshot(id, ev)
			if kind == "cleanup" {
				x.mon.onCleanupSnapshot(fmt.Sprintf("manual Cleanup (caller %d, parked between snapshot and bulk delete)", id), ev.keys, nowBefore, storedBefore)
			}
			x.res.Hit("op:cbegin-" + kind)
			return "snap keys=" + strings.Join(keyTokens(ev.keys), ",")
		case "cfinish":
			id64, ok := kv.i64("id")
			id := int(id64)
			ev := x.parked[id]
			if !ok || id <= 0 || ev == nil {
				return "error"
			}
			delete(x.parked, id)
			close(ev.release)
			select {
			case s := <-x.done[id]:
				delete(x.done, id)
				x.noteFinish(id, strings.Contains(ev.kind, "reset"))
				x.res.Hit("op:cfinish")
				return s
			case <-time.After(3 * time.Second):
				return "timeout"
			}
		case "bgsnap":
			if x.bgParked {
				return "error"
			}
			ev, ok := x.waitPark(0)
			if !ok {
				return "error"
			}
			x.bgParked = true
			x.noteSnapshot(0, ev)
			x.mon.onCleanupSnapshot("periodic Cleanup (parked between snapshot and bulk delete)", ev.keys, x.clk.Now(), nil)
			x.res.Hit("op:bgsnap")
			return "snap keys=" + strings.Join(keyTokens(ev.keys), ",")
		case "bgfinish":
			ev := x.parked[0]
			if !x.bgParked || ev == nil {
				return "error"
			}
			delete(x.parked, 0)
			x.bgParked = false
			n0 := x.clk.NowCalls.Load()
			pending := x.clk.TickPending()
			close(ev.release)
			x.noteFinish(0, false)
			if x.stopCalled {
				// stopCh is closed: the released cleaner finishes its delete, sees stopCh and exits
				// (deferred ticker.Stop, close(runningCh)); wait for that instead of for its select.
				for i := 0; i < 40000 && x.clk.TickerStops.Load() == 0; i++ {
					time.Sleep(50 * time.Microsecond)
				}
			} else if !pending {
				// the cleaner goes back to its select; nothing observable follows. Give it a moment so
				// that its bulk delete has happened before the next scripted operation.
				x.settleBg(n0)
			}
			x.res.Hit("op:bgfinish")
			return "ok"
		case "bgstart": // the periodic goroutine gets scheduled for the first time (creates its ticker)
			if !waitTicker(x.clk) {
				return "timeout"
			}
			return "ok"
		case "gbegin": // a Get parked between its map read and its clock read
			id64, ok := kv.i64("id")
			id := int(id64)
			k := realKey(kv["k"])
			if !ok || id <= 0 || x.gets[id] != nil {
				return "error"
			}
			pg := &pendingGet{key: k, done: make(chan string, 1), recAtRead: x.mon.last[k]}
			ready := make(chan struct{})
			go func() {
				defer func() {
					if r := recover(); r != nil {
						pg.done <- "panic"
					}
				}()
				x.mu.Lock()
				x.role[goid()] = roleT{"get", id}
				x.mu.Unlock()
				close(ready)
				v, hit := x.c.Get(k)
				if hit {
					pg.done <- "hit v=" + strconv.Itoa(v)
				} else {
					pg.done <- "miss"
				}
			}()
			<-ready
			select {
			case ev := <-x.parkCh:
				if ev.kind != "get" || ev.id != id {
					x.res.Note(fmt.Sprintf("sched: expected Get %d at the clock, got %s %d", id, ev.kind, ev.id))
				}
				pg.ev = ev
			case out := <-pg.done:
				// `!ok ||` short-circuits: with the key absent Get never reads the clock
				pg.early = out
				x.mu.Lock()
				for g, r := range x.role {
					if r.kind == "get" && r.id == id {
						delete(x.role, g)
					}
				}
				x.mu.Unlock()
				x.res.Hit("op:gbegin-key-absent(no clock read)")
			case <-time.After(3 * time.Second):
				return "timeout"
			}
			x.gets[id] = pg
			x.res.Hit("op:gbegin")
			return "ok"
		case "gend":
			id64, ok := kv.i64("id")
			pg := x.gets[int(id64)]
			if !ok || pg == nil || pg.key != realKey(kv["k"]) {
				return "error"
			}
			delete(x.gets, int(id64))
			now := x.clk.Now() // the value the released Get will read: nothing else runs in between
			out := pg.early
			if out == "" {
				close(pg.ev.release)
				select {
				case out = <-pg.done:
				case <-time.After(3 * time.Second):
					return "timeout"
				}
			}
			x.checkSplitGet(pg, out, now)
			x.res.Hit("op:gend")
			return out
		case "sbegin": // a Set parked between its clock read and its store
			id64, ok := kv.i64("id")
			id := int(id64)
			v, ok1 := kv.i64("v")
			ttl, ok2 := kv.i64("ttl")
			if !ok || !ok1 || !ok2 || id <= 0 || v < 0 || x.sets[id] != nil {
				return "error"
			}
			ps := &pendingSet{key: realKey(kv["k"]), val: int(v), ttl: ttl, at: x.clk.Now(), done: make(chan string, 1)}
			ready := make(chan struct{})
			go func() {
				defer func() {
					if r := recover(); r != nil {
						ps.done <- "panic"
					}
				}()
				x.mu.Lock()
				x.role[goid()] = roleT{"set", id}
				x.mu.Unlock()
				close(ready)
				x.c.Set(ps.key, ps.val, ps.ttl)
				ps.done <- "ok"
			}()
			<-ready
			select {
			case ev := <-x.parkCh:
				if ev.kind != "set" || ev.id != id {
					x.res.Note(fmt.Sprintf("sched: expected Set %d at the clock, got %s %d", id, ev.kind, ev.id))
				}
				ps.ev = ev
			case out := <-ps.done: // ttl <= 0 panics before the clock is read
				x.mu.Lock()
				for g, r := range x.role {
					if r.kind == "set" && r.id == id {
						delete(x.role, g)
					}
				}
				x.mu.Unlock()
				return out
			case <-time.After(3 * time.Second):
				return "timeout"
			}
			x.sets[id] = ps
			x.res.Hit("op:sbegin")
			return "ok"
		case "send":
			id64, ok := kv.i64("id")
			ps := x.sets[int(id64)]
			if !ok || ps == nil || ps.key != realKey(kv["k"]) {
				return "error"
			}
			delete(x.sets, int(id64))
			close(ps.ev.release)
			select {
			case out := <-ps.done:
				// the entry's expiry is stamped from the clock value read at sbegin
				x.mon.onSet(ps.key, ps.val, ps.ttl, ps.at)
				x.res.Hit("op:send")
				return out
			case <-time.After(3 * time.Second):
				return "timeout"
			}
		case "stopcall": // a concurrent Stop caller
			id64, ok := kv.i64("id")
			id := int(id64)
			if !ok || x.stops[id] != nil {
				return "error"
			}
			ch := make(chan struct{})
			x.stops[id] = ch
			x.stopCalled = true
			go func() { x.c.Stop(); close(ch) }()
			wait := 3 * time.Second
			if x.bgParked {
				wait = 5 * time.Millisecond // it must block: the periodic cleaner is inside Cleanup
			}
			select {
			case <-ch:
				x.res.Hit("op:stopcall-returned")
				if x.bgParked {
					x.res.Violate("stop-returned-before-cleaner-exit",
						fmt.Sprintf("concurrent Stop caller %d returned while the periodic cleaner was still inside Cleanup (parked between snapshot and bulk delete); %d Stop call(s) were already waiting", id, len(x.stops)-1), x.cs)
				} else if x.clk.TickerStops.Load() != 1 {
					x.res.Violate("stop-returned-before-cleaner-exit", "Stop returned but the cleaner's deferred ticker.Stop had not run", x.cs)
				}
				x.stopped = true
				return "returned"
			case <-time.After(wait):
				x.res.Hit("op:stopcall-blocked")
				if !x.bgParked {
					x.res.Violate("stop-hangs", fmt.Sprintf("Stop caller %d did not return within 3s although the cleaner was idle", id), x.cs)
				}
				return "blocked"
			}
		case "stopwait":
			id64, ok := kv.i64("id")
			ch := x.stops[int(id64)]
			if !ok || ch == nil {
				return "error"
			}
			select {
			case <-ch:
				if x.clk.TickerStops.Load() != 1 {
					x.res.Violate("stop-returned-before-cleaner-exit", "Stop returned but the cleaner's deferred ticker.Stop had not run", x.cs)
				}
				x.stopped = true
				x.res.Hit("op:stopwait")
				return "ok"
			case <-time.After(3 * time.Second):
				x.res.Violate("stop-hangs", fmt.Sprintf("Stop caller %d still blocked 3s after the cleaner was released", id64), x.cs)
				return "timeout"
			}
		case "stop":
			if x.bgParked || len(x.parked) > 0 {
				return "error"
			}
			x.c.Stop()
			x.stopped = true
			x.stopCalled = true
			if x.clk.TickerMade.Load() == 0 {
				x.res.Violate("stop-returned-before-cleaner-exit", "Stop returned although the cleaner goroutine had not even started (no ticker created yet)", x.cs)
			}
			if x.clk.TickerStops.Load() != 1 {
				x.res.Violate("stop-returned-before-cleaner-exit", "Stop returned but the cleaner's deferred ticker.Stop had not run", x.cs)
			}
			x.res.Hit("op:stop")
			return "ok"
		case "dump":
			return showDump(x.c)
		}
		return "error"
	})
}

// checkSplitGet judges a Get that was parked between its map read and its clock read. By the
// statement's headline clause a hit must be the value that was current when the map was read and
// must still be unexpired when the Get returns; a miss is correct if that entry had expired by then.
// A miss although the key's CURRENT entry is live and was stored after the map read is the
// get/refresh race (no cleaner involved): reported under its own id.
func (x *schedExec) checkSplitGet(pg *pendingGet, out string, now time.Time) {
	r := pg.recAtRead
	if r != nil && r.unknown {
		return
	}
	hit := strings.HasPrefix(out, "hit")
	switch {
	case hit && r == nil:
		x.res.Violate("get-hit-deleted-or-reset", fmt.Sprintf("split Get(%q) = %s although no entry existed when it read the map", pg.key, out), x.cs)
	case hit && out != "hit v="+strconv.Itoa(r.val):
		x.res.Violate("get-returned-superseded-value", fmt.Sprintf("split Get(%q) = %s, the entry current at its map read held %d", pg.key, out, r.val), x.cs)
	case hit && !live(r, now):
		x.res.Violate("get-returned-expired-deleted-or-reset-value", fmt.Sprintf("split Get(%q) = %s although that entry had expired when the Get read the clock", pg.key, out), x.cs)
	case !hit && r != nil && live(r, now) && r.lostBy == "":
		x.res.Violate("get-missed-live-entry", fmt.Sprintf("split Get(%q) missed although the entry it read (v=%d) was still unexpired", pg.key, r.val), x.cs)
	}
	if !hit {
		cur := x.mon.last[pg.key]
		if cur != nil && cur != r && !cur.unknown && live(cur, now) && cur.lostBy == "" {
			x.res.Hit("monitor:miss-by-get/refresh-race")
			x.res.Violate("get-refresh-race-miss",
				fmt.Sprintf("Get(%q) read the map (entry v=%v), the key was then refreshed (v=%d, live) and the clock passed the old entry's expiry before the Get read the clock: the Get MISSES a key that was live throughout; no Cleanup/Reset involved", pg.key, valOf(r), cur.val), x.cs)
		}
	}
}

func valOf(r *setRec) any {
	if r == nil {
		return "none"
	}
	return r.val
}

// settleBg waits until the periodic goroutine has finished the bulk delete it was released into.
// There is no hook after Del, so we wait for the goroutine to be blocked in its select again.
func (x *schedExec) settleBg(_ int64) {
	deadline := time.Now().Add(2 * time.Second)
	for time.Now().Before(deadline) {
		if bgInSelect() {
			return
		}
		time.Sleep(50 * time.Microsecond)
	}
	x.res.Note("sched: periodic cleaner did not return to its select within 2s")
}

// bgInSelect reports whether a ttlcache background goroutine is parked in its select statement.
func bgInSelect() bool {
	buf := make([]byte, 1<<16)
	n := runtime.Stack(buf, true)
	for _, g := range bytes.Split(buf[:n], []byte("\n\n")) {
		if bytes.Contains(g, []byte("startBackgroundCleanup")) && bytes.Contains(g, []byte("[select")) &&
			!bytes.Contains(g, []byte("]).Cleanup(")) {
			return true
		}
	}
	return false
}

func (x *schedExec) close() {
	verifhookRelease := func() {
		for id, ev := range x.parked {
			close(ev.release)
			delete(x.parked, id)
		}
	}
	verifhookRelease()
	for id, pg := range x.gets {
		if pg.early == "" {
			close(pg.ev.release)
			<-pg.done
		}
		delete(x.gets, id)
	}
	for id, ps := range x.sets {
		close(ps.ev.release)
		<-ps.done
		delete(x.sets, id)
	}
	var nilHook *func()
	x.clk.NowHook.Store(nilHook)
	x.clk.AfterNowHook.Store(nilHook)
	// late parks (a pending tick taken after release)
	stopDone := make(chan struct{})
	go func() {
		if !x.stopped {
			x.c.Stop()
		}
		close(stopDone)
	}()
	for {
		select {
		case ev := <-x.parkCh:
			close(ev.release)
			continue
		case <-stopDone:
		case <-time.After(5 * time.Second):
			x.res.Violate("stop-hangs", "Stop did not return within 5s after all cleaners were released", x.cs)
		}
		break
	}
	for id, ch := range x.stops {
		select {
		case <-ch:
		case <-time.After(3 * time.Second):
			x.res.Violate("stop-hangs", fmt.Sprintf("Stop caller %d never returned", id), x.cs)
		}
	}
	verifhook.Set(nil)
}

func runSchedLines(cs *Case, res *lib.Result) []string {
	var x *schedExec
	var outs []string
	for _, l := range cs.Lines {
		op, kv := parseLine(l)
		if op == "cnew" || op == "cnewraw" {
			if x != nil {
				x.close()
			}
			mx, _ := kv.i64("max")
			iv, _ := kv.i64("iv")
			x = newSchedExecOpt(mx, time.Duration(iv), res, cs, op == "cnew")
			outs = append(outs, "ok")
			continue
		}
		if x == nil {
			outs = append(outs, "error")
			continue
		}
		outs = append(outs, x.exec(l))
	}
	if x != nil {
		x.close()
	}
	return outs
}

const schedCorr = "sched: kitdrv C15 (KitModel.TTLCache.cstep) vs ttlcache.Cache with cleaners parked at verifhook points"

// split Get / Set families (always run): callers parked between map read and clock read (Get) or
// between clock read and store (Set).
func splitCases() []*Case {
	mk := func(lines ...string) *Case {
		return &Case{Mode: "sched", Lines: append([]string{fmt.Sprintf("cnew max=0 t0=%d iv=%d", t0.UnixNano(), 1000*nsPerSecond)}, lines...)}
	}
	adv := func(ns int64) string { return fmt.Sprintf("adv d=%d", ns) }
	return []*Case{
		// the get/refresh race: a key that is live throughout is missed
		mk("set k=a v=1 ttl=1", "gbegin id=1 k=a", "set k=a v=2 ttl=50", adv(2*nsPerSecond), "gend id=1 k=a", "get k=a", "dump", "stop"),
		// same without refresh: the miss is simply an expiry
		mk("set k=a v=1 ttl=1", "gbegin id=1 k=a", adv(2*nsPerSecond), "gend id=1 k=a", "stop"),
		// exactly at the boundary, and 1 ns before
		mk("set k=a v=1 ttl=1", "gbegin id=1 k=a", adv(nsPerSecond-1), "gend id=1 k=a", "gbegin id=2 k=a", adv(1), "gend id=2 k=a", "stop"),
		// Delete between map read and clock read: the Get returns the value current at its map read
		mk("set k=a v=1 ttl=9", "gbegin id=1 k=a", "del k=a", "gend id=1 k=a", "get k=a", "stop"),
		// overwrite between map read and clock read
		mk("set k=a v=1 ttl=9", "gbegin id=1 k=a", "set k=a v=2 ttl=9", "gend id=1 k=a", "get k=a", "stop"),
		// Set parked after its clock read: the expiry is stamped from the earlier clock value
		mk("sbegin id=1 k=c v=9 ttl=1", adv(2*nsPerSecond), "send id=1 k=c v=9 ttl=1", "get k=c", "dump", "stop"),
		mk("sbegin id=1 k=c v=9 ttl=3", adv(2*nsPerSecond), "send id=1 k=c v=9 ttl=3", "get k=c", adv(nsPerSecond-1), "get k=c", adv(1), "get k=c", "stop"),
		// two Sets racing: the later STORE wins whatever the order of the clock reads
		mk("sbegin id=1 k=d v=1 ttl=5", "set k=d v=2 ttl=5", "send id=1 k=d v=1 ttl=5", "get k=d", "dump", "stop"),
		// key absent at the map read, set meanwhile: the Get misses (it never reads the clock)
		mk("gbegin id=1 k=e", "set k=e v=1 ttl=9", "gend id=1 k=e", "get k=e", "stop"),
		// misuse inside a split Set
		mk("sbegin id=1 k=d v=1 ttl=0", "get k=d", "stop"),
		// a cleaner and a split Get/Set interleaved
		mk("set k=a v=1 ttl=1", adv(2*nsPerSecond), "cbegin id=1 kind=cleanup", "sbegin id=2 k=a v=5 ttl=9", "gbegin id=3 k=a", "send id=2 k=a v=5 ttl=9", "cfinish id=1", "gend id=3 k=a", "get k=a", "dump", "stop"),
	}
}

// a concurrent Reset must empty the cache even while a Cleanup is in flight (always run)
func resetCases() []*Case {
	first := true
	mk := func(lines ...string) *Case {
		iv := 1000 * nsPerSecond
		if first { // only the first case lets the periodic cleaner tick
			iv, first = nsPerSecond, false
		}
		return &Case{Mode: "sched", Lines: append([]string{fmt.Sprintf("cnew max=0 t0=%d iv=%d", t0.UnixNano(), iv)}, lines...)}
	}
	adv := func(ns int64) string { return fmt.Sprintf("adv d=%d", ns) }
	return []*Case{
		// periodic cleaner parked at afterSnapshot; Reset; a live key must miss
		mk("set k=a v=1 ttl=60", "set k=b v=2 ttl=1", adv(2*nsPerSecond), "bgsnap", "cbegin id=1 kind=reset", "cfinish id=1", "get k=a", "get k=b", "dump", "bgfinish", "dump", "stop"),
		// manual Cleanup parked; Reset; then the Cleanup finishes
		mk("set k=a v=1 ttl=60", "set k=b v=2 ttl=1", adv(2*nsPerSecond), "cbegin id=1 kind=cleanup", "cbegin id=2 kind=reset", "cfinish id=2", "get k=a", "dump", "cfinish id=1", "stop"),
		// two Resets in flight
		mk("set k=a v=1 ttl=60", "cbegin id=1 kind=reset", "cbegin id=2 kind=reset", "cfinish id=2", "get k=a", "set k=a v=2 ttl=60", "cfinish id=1", "get k=a", "stop"),
	}
}

// the documented race, written out (always run): the model must predict the miss exactly.
func raceCases() []*Case {
	var out []*Case
	for _, kind := range []string{"cleanup", "reset"} {
		cs := &Case{Mode: "sched"}
		add := func(s string) { cs.Lines = append(cs.Lines, s) }
		add(fmt.Sprintf("cnew max=0 t0=%d iv=%d", t0.UnixNano(), 1000*nsPerSecond))
		add("set k=a v=1 ttl=1")
		add("set k=b v=2 ttl=50") // nobody touches b again
		add(fmt.Sprintf("adv d=%d", 2*nsPerSecond))
		add("cbegin id=1 kind=" + kind) // snapshot sees a (expired / everything)
		add("set k=a v=3 ttl=50")       // refresh between snapshot and delete
		add("get k=a")                  // hit 3
		add("cfinish id=1")
		add("get k=a") // miss: the documented race
		add("get k=b") // cleanup: hit 2 (untouched key); reset: miss
		add("dump")
		add("stop")
		out = append(out, cs)
	}
	return out
}

// concurrent Stop callers (always run): the periodic cleaner is parked inside Cleanup; EVERY Stop
// caller must stay blocked until it is released; afterwards all return and the cleaner deletes nothing more.
func stopCases() []*Case {
	var out []*Case
	for n := 2; n <= 4; n++ {
		cs := &Case{Mode: "sched"}
		add := func(s string) { cs.Lines = append(cs.Lines, s) }
		add(fmt.Sprintf("cnew max=0 t0=%d iv=%d", t0.UnixNano(), nsPerSecond))
		add("set k=a v=1 ttl=1")
		add("set k=b v=2 ttl=60")
		add(fmt.Sprintf("adv d=%d", 2*nsPerSecond)) // tick
		add("bgsnap")                              // periodic cleaner parked between snapshot and delete
		for i := 1; i <= n; i++ {
			add(fmt.Sprintf("stopcall id=%d", i)) // all must block
		}
		add("set k=a v=3 ttl=60")
		add("get k=a")
		add("bgfinish") // cleaner deletes a (documented race), exits
		for i := n; i >= 1; i-- {
			add(fmt.Sprintf("stopwait id=%d", i))
		}
		add(fmt.Sprintf("stopcall id=%d", n+1)) // sequential Stop after exit: returns at once
		add("get k=a")
		add("set k=a v=4 ttl=1")
		add(fmt.Sprintf("adv d=%d", 5*nsPerSecond)) // no tick any more: ticker stopped
		add("get k=b")
		add("dump") // a is expired but nobody cleans any more
		out = append(out, cs)
	}
	// default interval: CleanupInterval 0 means 150 s (first tick exactly then)
	d := &Case{Mode: "sched"}
	d.Lines = []string{fmt.Sprintf("cnew max=0 t0=%d iv=0", t0.UnixNano()), "set k=a v=1 ttl=1",
		fmt.Sprintf("adv d=%d", 150*nsPerSecond-1), fmt.Sprintf("adv d=%d", 1), "bgsnap", "bgfinish", "dump", "stop"}
	out = append(out, d)
	// Stop on an idle cleaner, then more Stops
	cs := &Case{Mode: "sched"}
	cs.Lines = []string{fmt.Sprintf("cnew max=0 t0=%d iv=%d", t0.UnixNano(), nsPerSecond), "set k=a v=1 ttl=1",
		"stopcall id=1", "stopcall id=2", fmt.Sprintf("adv d=%d", 3*nsPerSecond), "get k=a", "dump", "stop"}
	out = append(out, cs)
	return out
}

// unusual keys under the cleaners (always run): a live entry stored under an unusual-but-legal key
// (empty string, NUL, invalid UTF-8, very long, …) next to an expired plain one, while (a) the periodic
// cleaner, (b) a manual Cleanup is parked between snapshot and bulk delete and after it has finished.
// "get k=<K>" before the Reset must always hit 7: nobody touches K.
func unusualKeySchedCases() []*Case {
	var out []*Case
	adv := func(ns int64) string { return fmt.Sprintf("adv d=%d", ns) }
	for _, K := range unusualKeys {
		g := "get k=" + K
		out = append(out, &Case{Mode: "sched", Lines: []string{
			fmt.Sprintf("cnew max=0 t0=%d iv=%d", t0.UnixNano(), nsPerSecond),
			"set k=" + K + " v=7 ttl=1000", "set k=zz v=1 ttl=1", adv(2 * nsPerSecond), "bgsnap", g, "bgfinish", g, "get k=zz", "dump",
			adv(nsPerSecond), "bgsnap", "bgfinish", g, "dump", "stop"}})
		out = append(out, &Case{Mode: "sched", Lines: []string{
			fmt.Sprintf("cnew max=0 t0=%d iv=%d", t0.UnixNano(), 1000*nsPerSecond),
			"set k=" + K + " v=7 ttl=1000", "set k=zz v=1 ttl=1", adv(2 * nsPerSecond), "cbegin id=1 kind=cleanup", g, "cfinish id=1", g, "get k=zz", "dump",
			"cbegin id=2 kind=cleanup", "cfinish id=2", g, "cbegin id=3 kind=reset", "cfinish id=3", "get k=" + K, "dump", "stop"}})
	}
	return out
}

func runUnusualKeySched(res *lib.Result, drv *lib.Drv) {
	for _, cs := range unusualKeySchedCases() {
		outs := runSchedLines(cs, res)
		K := strings.TrimPrefix(cs.Lines[1], "set k=")
		K = K[:strings.IndexByte(K, ' ')]
		resetSeen := false
		for i, l := range cs.Lines {
			resetSeen = resetSeen || strings.Contains(l, "kind=reset")
			if l == "get k="+K && !resetSeen && outs[i] != "hit v=7" {
				res.Violate("untouched-live-key-missed",
					fmt.Sprintf("line %d: Get(%q) answered %q; the entry (v=7, ttl 1000 s, at most 3 s old) is live and nobody touched the key — only a cleaner ran", i, realKey(K), outs[i]), cs)
			}
		}
		diff(drv, res, schedCorr, cs, outs)
		res.Count(strings.Join(cs.Lines, "|"), true)
		res.Hit("family:unusual-key-under-parked-cleaner")
		res.Traces++
	}
}

func genSched(r *lib.Rand, res *lib.Result, n int) (*Case, []string, *monitor) {
	maxTTL := []int64{0, 0, 2, 4}[r.Intn(4)]
	iv := int64(r.Range(2, 8)) * nsPerSecond / 2
	cs := &Case{Mode: "sched", Seed: r.S}
	x := newSchedExec(maxTTL, time.Duration(iv), res, cs)
	defer x.close()
	curMon = x.mon
	defer func() { curMon = nil }()
	var outs []string
	aborted := false
	emit := func(l string) string {
		if aborted {
			return "aborted"
		}
		cs.Lines = append(cs.Lines, l)
		o := x.exec(l)
		outs = append(outs, o)
		if o == "timeout" || o == "error" || o == "returned-without-snapshot" {
			aborted = true // the real code left the script's schedule: stop here, the diff reports it
		}
		return o
	}
	cs.Lines = append(cs.Lines, fmt.Sprintf("cnew max=%d t0=%d iv=%d", maxTTL, t0.UnixNano(), iv))
	outs = append(outs, "ok")
	nk := r.Range(2, 3)
	ks := pickKeySet(r, nk)
	val, nextID := 0, 1
	inflight := []int{}
	type sp struct {
		id   int
		line string
	}
	var gsp, ssp []sp
	afterAdv := func(o string) {
		if o == "ok tick=sent" && !x.bgParked {
			emit("bgsnap")
		}
	}
	for i := 0; i < n; i++ {
		k := ks[r.Intn(nk)]
		switch p := r.Intn(100); {
		case p < 20:
			val++
			emit(fmt.Sprintf("set k=%s v=%d ttl=%d", k, val, r.Range(1, 5)))
		case p < 25: // split Set / Get
			switch q := r.Intn(4); {
			case q == 0 && len(ssp) < 2:
				val++
				args := fmt.Sprintf("id=%d k=%s v=%d ttl=%d", nextID, k, val, r.Range(1, 5))
				if emit("sbegin "+args) == "ok" {
					ssp = append(ssp, sp{nextID, "send " + args})
				}
				nextID++
			case q == 1 && len(gsp) < 2:
				args := fmt.Sprintf("id=%d k=%s", nextID, k)
				if emit("gbegin "+args) == "ok" {
					gsp = append(gsp, sp{nextID, "gend " + args})
				}
				nextID++
			case q == 2 && len(ssp) > 0:
				j := r.Intn(len(ssp))
				emit(ssp[j].line)
				ssp = append(ssp[:j], ssp[j+1:]...)
			case len(gsp) > 0:
				j := r.Intn(len(gsp))
				emit(gsp[j].line)
				gsp = append(gsp[:j], gsp[j+1:]...)
			}
		case p < 50:
			emit("get k=" + k)
		case p < 55:
			emit("del k=" + k)
		case p < 72:
			afterAdv(emit(fmt.Sprintf("adv d=%d", pickAdvance(r, x.c, x.clk.Now(), res))))
		case p < 82:
			if len(inflight) < 3 {
				kind := "cleanup"
				if r.Intn(4) == 0 {
					kind = "reset"
				}
				emit(fmt.Sprintf("cbegin id=%d kind=%s", nextID, kind))
				inflight = append(inflight, nextID)
				nextID++
			}
		case p < 92:
			if len(inflight) > 0 {
				j := r.Intn(len(inflight))
				emit(fmt.Sprintf("cfinish id=%d", inflight[j]))
				inflight = append(inflight[:j], inflight[j+1:]...)
			}
		default:
			if x.bgParked {
				pending := x.clk.TickPending()
				emit("bgfinish")
				if pending {
					emit("bgsnap")
				}
			}
		}
		if r.Intn(8) == 0 {
			emit("dump")
		}
	}
	for _, q := range ssp {
		emit(q.line)
	}
	for _, q := range gsp {
		emit(q.line)
	}
	for _, id := range inflight {
		emit(fmt.Sprintf("cfinish id=%d", id))
	}
	for x.bgParked && !aborted {
		pending := x.clk.TickPending()
		emit("bgfinish")
		if pending {
			emit("bgsnap")
		}
	}
	for _, kk := range ks {
		emit("get k=" + kk)
	}
	emit("dump")
	emit("stop")
	return cs, outs, x.mon
}

func runSched(f lib.Flags, res *lib.Result, drv *lib.Drv, r *lib.Rand) {
	for _, cs := range raceCases() {
		outs := runSchedLines(cs, res)
		if outs[6] != "hit v=3" || outs[8] != "miss" {
			res.Note(fmt.Sprintf("race family: expected hit then miss around the forced race, got %q then %q", outs[6], outs[8]))
		}
		if strings.Contains(cs.Lines[4], "cleanup") && outs[9] != "hit v=2" {
			res.Violate("untouched-live-key-missed", "a live key nobody touched disappeared during a Cleanup: "+outs[9], cs)
		}
		diff(drv, res, schedCorr, cs, outs)
		res.Count(strings.Join(cs.Lines, "|"), true)
		res.Hit("family:forced-documented-race")
		res.Traces++
	}
	for _, cs := range append(splitCases(), resetCases()...) {
		outs := runSchedLines(cs, res)
		diff(drv, res, schedCorr, cs, outs)
		res.Count(strings.Join(cs.Lines, "|"), true)
		res.Hit("family:forced-split-get/set+reset-during-cleanup")
		res.Traces++
	}
	for _, cs := range stopCases() {
		outs := runSchedLines(cs, res)
		for i, l := range cs.Lines {
			if strings.HasPrefix(l, "stopcall") && i > 0 && outs[i] == "returned" {
				// every stopcall issued while the cleaner is parked must have blocked (monitor in exec); here
				// only bookkeeping for the distribution
				res.Hit("stop:concurrent-caller-returned")
			}
			if outs[i] == "blocked" {
				res.Hit("stop:concurrent-caller-blocked-while-cleaner-mid-Cleanup")
			}
		}
		diff(drv, res, schedCorr, cs, outs)
		res.Count(strings.Join(cs.Lines, "|"), true)
		res.Hit("family:forced-concurrent-stop")
		res.Traces++
	}
	runUnusualKeySched(res, drv)
	n := 150
	if f.Tier == "thorough" {
		n = 2500
	}
	if f.Search {
		n *= 10
	}
	for i := 0; i < n; i++ {
		cr := r.Fork()
		cs, outs, mon := genSched(cr, res, cr.Range(15, 60))
		diff(drv, res, schedCorr, cs, outs)
		res.Count(strings.Join(cs.Lines, "|"), mon.nontrivial())
		res.Hit("family:sched-random")
		if i < 2 {
			res.Sample(map[string]any{"case": cs, "impl": outs})
		}
		res.Traces++
	}
}

// ---------------------------------------------------------------------------------------------
// stop mode

func runStop(f lib.Flags, res *lib.Result, r *lib.Rand) {
	n := 20
	if f.Tier == "thorough" {
		n = 200
	}
	for i := 0; i < n; i++ {
		midCleanup := i%2 == 1
		cs := &Case{Mode: "stop", Lines: []string{fmt.Sprintf("stop-scenario mid-cleanup=%v", midCleanup)}}
		out := guarded(10*time.Second, func() string { return stopScenario(res, cs, midCleanup, r) })
		if out != "ok" {
			res.Violate("stop-scenario-"+out, "Stop scenario ended with "+out, cs)
		}
		res.Count(fmt.Sprintf("stop/%v/%d", midCleanup, i), true)
		res.Hit(fmt.Sprintf("family:stop mid-cleanup=%v", midCleanup))
	}
}

func stopScenario(res *lib.Result, cs *Case, midCleanup bool, r *lib.Rand) string {
	base := goroutineCount()
	clk := ttlcache.NewVerifClock(t0)
	var gate chan struct{}
	entered := make(chan struct{}, 4)
	if midCleanup {
		gate = make(chan struct{})
		// The cleaner's Cleanup starts with clock.Now(): block it there (forced schedule without
		// a source hook). The harness goroutine itself does not call Now while the gate is installed.
		h := func() {
			entered <- struct{}{}
			<-gate
		}
		clk.NowHook.Store(&h)
	}
	c := ttlcache.VerifNewCache[int](ttlcache.CacheOptions{CleanupInterval: time.Second, MaxTTL: int64(r.Intn(3))}, clk)
	if !waitTicker(clk) {
		return "cleaner-never-created-ticker"
	}
	if goroutineCount() != base+1 {
		res.Hit("stop:goroutine-count-after-new-not-base+1(other goroutines running)")
	}
	ret := make(chan struct{})
	if midCleanup {
		clk.Advance(time.Second) // tick -> the cleaner enters Cleanup and blocks in Now()
		select {
		case <-entered:
		case <-time.After(3 * time.Second):
			return "cleaner-never-ticked"
		}
		go func() { c.Stop(); close(ret) }()
		select {
		case <-ret:
			res.Violate("stop-returned-before-cleaner-exit", "Stop returned while the cleaner goroutine was inside Cleanup", cs)
			close(gate)
			return "ok"
		case <-time.After(3 * time.Millisecond):
		}
		if clk.TickerStops.Load() != 0 {
			res.Violate("stop-returned-before-cleaner-exit", "ticker stopped while the cleaner was still inside Cleanup", cs)
		}
		// more concurrent Stop callers: none may return while the cleaner is inside Cleanup
		for j := 2; j <= 3; j++ {
			rj := make(chan struct{})
			go func() { c.Stop(); close(rj) }()
			select {
			case <-rj:
				res.Violate("stop-returned-before-cleaner-exit", fmt.Sprintf("concurrent Stop call #%d returned while the cleaner goroutine was inside Cleanup (Stop #1 still waiting)", j), cs)
			case <-time.After(2 * time.Millisecond):
			}
			defer func() {
				select {
				case <-rj:
				case <-time.After(3 * time.Second):
					res.Violate("stop-hangs", "a concurrent Stop never returned", cs)
				}
			}()
		}
		var none *func()
		clk.NowHook.Store(none)
		close(gate)
	} else {
		go func() { c.Stop(); close(ret) }()
	}
	select {
	case <-ret:
	case <-time.After(5 * time.Second):
		return "stop-hangs"
	}
	// the cleaner's deferred ticker.Stop() runs before close(runningCh): it must be visible now
	if clk.TickerStops.Load() != 1 {
		res.Violate("stop-returned-before-cleaner-exit", fmt.Sprintf("Stop returned, ticker.Stop calls = %d", clk.TickerStops.Load()), cs)
	}
	// the goroutine itself is gone (allow the scheduler a moment: it exits right after closing the channel)
	okGone := false
	for t := 0; t < 2000; t++ {
		if goroutineCount() <= base {
			okGone = true
			break
		}
		time.Sleep(100 * time.Microsecond)
	}
	if !okGone {
		res.Violate("stop-returned-before-cleaner-exit", fmt.Sprintf("goroutines before NewCache %d, 200ms after Stop %d", base, goroutineCount()), cs)
	}
	// a second Stop returns too, and the cache stays usable
	second := make(chan struct{})
	go func() { c.Stop(); close(second) }()
	select {
	case <-second:
	case <-time.After(2 * time.Second):
		return "second-stop-hangs"
	}
	c.Set("k", 1, 5)
	if v, ok := c.Get("k"); !ok || v != 1 {
		res.Violate("get-missed-live-entry", "Get after Stop missed a fresh entry", cs)
	}
	return "ok"
}

// ---------------------------------------------------------------------------------------------
// free mode: nothing is parked; judged by monitors only

type cleanerRun struct {
	begin, hook, end int64 // global sequence numbers; end = 0 while unknown/in flight
	keys             map[string]bool
	reset            bool
}

type freeKey struct {
	name      string
	started   atomic.Int64 // value number whose Set has started
	completed atomic.Int64 // value number whose Set has returned
	minExp    atomic.Int64 // smallest lower bound (unix ns) of the expiry of any Set of this key; 0 = never set
}

func runFree(f lib.Flags, res *lib.Result, r *lib.Rand) {
	n := 6
	if f.Tier == "thorough" {
		n = 60
	}
	if f.Search {
		n *= 5
	}
	for i := 0; i < n; i++ {
		withReset := i%3 == 2
		cs := &Case{Mode: "free", Seed: r.S, Lines: []string{fmt.Sprintf("free-run reset=%v", withReset)}}
		out := guarded(60*time.Second, func() string { freeRun(res, cs, r.Fork(), withReset, f.Tier == "thorough"); return "ok" })
		if out != "ok" {
			res.Violate("free-run-"+out, "free-running scenario ended with "+out, cs)
		}
		res.Hit(fmt.Sprintf("family:free reset=%v", withReset))
	}
}

func freeRun(res *lib.Result, cs *Case, r *lib.Rand, withReset, long bool) {
	var seq atomic.Int64
	var mu sync.Mutex
	var runs []*cleanerRun
	cur := map[int64]*cleanerRun{} // goroutine -> run in progress
	var lastBg *cleanerRun
	var ops atomic.Int64
	clk := ttlcache.NewVerifClock(t0)
	var c *ttlcache.Cache[int]
	const workers = 4
	// static: set once with a TTL that outlasts the run, never touched again — among them the empty
	// key (Go zero value), a NUL, invalid UTF-8 and a 4 KiB key
	static := []string{"s0", "s1", "", "\x00", "\xff\xfe", strings.Repeat("k", 4096)}
	isStatic := map[string]bool{}
	for _, k := range static {
		isStatic[k] = true
	}
	fks := make([]*freeKey, workers)
	fkOf := map[string]*freeKey{}
	for w := range fks {
		fks[w] = &freeKey{name: fmt.Sprintf("w%d", w)}
		fkOf[fks[w].name] = fks[w]
	}
	verifhook.Set(func(name string, args ...any) {
		if len(args) < 2 {
			return
		}
		if cc, ok := args[0].(*ttlcache.Cache[int]); !ok || cc != c {
			return
		}
		ks, _ := args[1].([]string)
		if strings.Contains(name, "cleanup") {
			// "Cleanup removes only entries that have expired": every key handed to the bulk delete must
			// have held an entry whose expiry lies before the clock value read now (≥ the Cleanup's own reading)
			hookNow := clk.Now().UnixNano()
			for _, k := range ks {
				res.Hit("monitor:cleanup-snapshot-key-checked")
				fk := fkOf[k]
				switch {
				case isStatic[k]:
					res.Violate("cleanup-snapshot-holds-unexpired-key", fmt.Sprintf("free run: a Cleanup hands the untouched key %q (ttl 1e6 s, at most minutes old) to its bulk delete (list: %q)", k, shortKeys(ks)), cs)
				case fk == nil:
					res.Violate("cleanup-snapshot-holds-unexpired-key", fmt.Sprintf("free run: a Cleanup hands %q to its bulk delete, a key nobody ever set (list: %q)", k, shortKeys(ks)), cs)
				default:
					if me := fk.minExp.Load(); me == 0 || me >= hookNow {
						res.Violate("cleanup-snapshot-holds-unexpired-key", fmt.Sprintf("free run: a Cleanup at %d hands %q to its bulk delete although the earliest expiry any Set of that key can have stamped is %d (0 = never set)", hookNow, k, me), cs)
					}
				}
			}
		}
		g := goid()
		mu.Lock()
		cr := cur[g]
		h := seq.Add(1)
		if cr == nil { // the periodic cleaner: its previous run had ended before this one began
			cr = &cleanerRun{begin: 0}
			if lastBg != nil {
				lastBg.end = h
				cr.begin = lastBg.hook
			}
			lastBg = cr
			runs = append(runs, cr)
		}
		delete(cur, g)
		cr.hook = h
		cr.keys = map[string]bool{}
		for _, k := range ks {
			cr.keys[k] = true
		}
		cr.reset = strings.Contains(name, "reset")
		mu.Unlock()
		if len(ks) > 0 {
			res.Hit("free:snapshot-nonempty")
		}
		for i := 0; i < 3; i++ {
			runtime.Gosched() // widen the window between snapshot and delete
		}
	})
	defer verifhook.Set(nil)
	c = ttlcache.VerifNewCache[int](ttlcache.CacheOptions{CleanupInterval: 700 * time.Millisecond, MaxTTL: 1_000_000}, clk)
	waitTicker(clk)
	// stillStored: is the entry (k, v) physically in the map (ForEach walks the list, not the index)?
	stillStored := func(k string, v int) bool {
		for _, e := range c.VerifDump() {
			if e.Key == k && e.Val == v {
				return true
			}
		}
		return false
	}

	for _, k := range static {
		c.Set(k, 99, 1<<40) // capped to MaxTTL = 1e6 s: live for the whole run (simulated time stays far below)
	}
	iters := 1500
	if long {
		iters = 6000
	}
	stepNs := int64(600_000_000) // simulated time per worker operation: own entries (ttl 1-2s) expire regularly
	var wg sync.WaitGroup
	stopAdv := make(chan struct{})
	var advWG sync.WaitGroup
	advWG.Add(1)
	go func() { // clock goroutine
		defer advWG.Done()
		var total int64
		for {
			select {
			case <-stopAdv:
				return
			default:
			}
			if target := ops.Load() * stepNs; total < target {
				clk.Advance(time.Duration(target - total))
				total = target
			}
			runtime.Gosched()
		}
	}()
	type viol struct{ id, what string }
	var vmu sync.Mutex
	var viols []viol
	report := func(id, what string) {
		vmu.Lock()
		viols = append(viols, viol{id, what})
		vmu.Unlock()
	}
	for w := 0; w < workers; w++ {
		wg.Add(1)
		wr := r.Fork()
		go func(w int, wr *lib.Rand) {
			defer wg.Done()
			own := fks[w]
			type lastSet struct {
				val      int64
				ttl      int64
				tb, ta   time.Time
				s0, s1   int64
				deleted  bool
				resetMay bool
			}
			var last *lastSet
			for i := 0; i < iters; i++ {
				ops.Add(1)
				switch p := wr.Intn(100); {
				case p < 30: // Set own key with a short ttl (1s) — often expired by the time it is read
					v := own.started.Add(1)
					ttl := int64(wr.Range(1, 2))
					ls := &lastSet{val: v, ttl: ttl, tb: clk.Now(), s0: seq.Add(1)}
					// lower bound of the expiry this Set stamps (its own clock read comes later)
					if lb := ls.tb.Add(time.Duration(ttl) * time.Second).UnixNano(); own.minExp.Load() == 0 || lb < own.minExp.Load() {
						own.minExp.Store(lb)
					}
					c.Set(own.name, int(v), ttl)
					ls.ta, ls.s1 = clk.Now(), seq.Add(1)
					own.completed.Store(v)
					last = ls
				case p < 60: // Get own key: exact expectations in the owner's program order
					tb := clk.Now()
					g0 := seq.Add(1)
					v, ok := c.Get(own.name)
					ta := clk.Now()
					g1 := seq.Add(1)
					_ = g0
					if last == nil {
						if ok {
							report("get-returned-expired-deleted-or-reset-value", fmt.Sprintf("Get(%s) hit %d before any Set", own.name, v))
						}
						continue
					}
					expEarliest := last.tb.Add(time.Duration(last.ttl) * time.Second)
					expLatest := last.ta.Add(time.Duration(last.ttl) * time.Second)
					if ok {
						res.Hit("free:own-get-hit")
						if int64(v) != last.val {
							report("get-returned-superseded-value", fmt.Sprintf("Get(%s)=%d, owner's last Set stored %d", own.name, v, last.val))
						}
						if last.deleted {
							report("get-returned-expired-deleted-or-reset-value", fmt.Sprintf("Get(%s) hit after the owner's Delete", own.name))
						}
						if !expLatest.After(tb) {
							report("get-returned-expired-deleted-or-reset-value", fmt.Sprintf("Get(%s) hit although the entry had expired before the call", own.name))
						}
						continue
					}
					res.Hit("free:own-get-miss")
					if last.deleted || !expEarliest.After(ta) {
						continue // legitimately gone
					}
					// a live entry was missed: only the documented race (or a concurrent Reset) explains it
					mu.Lock()
					explained := false
					for _, cr := range runs {
						if cr.hook == 0 || !cr.keys[own.name] {
							continue
						}
						// the cleaner's delete lies after its hook and before this Get returned, and after the
						// Set began; a Cleanup must have visited the key before the Set returned (it saw an
						// older, expired entry); a Reset removing it is "reset since".
						if cr.hook < g1 && (cr.end == 0 || cr.end > last.s0) && (cr.reset || cr.begin < last.s1) {
							explained = true
						}
					}
					mu.Unlock()
					if explained {
						res.Hit("free:miss-explained-by-documented-race")
					} else if stillStored(own.name, int(last.val)) {
						// stored and live, yet missed. Whose miss? Ask the raw map and the cache again.
						_, rexp, rok := c.VerifMapGet(own.name)
						_, ok2 := c.Get(own.name)
						if rok && !ok2 && rexp.After(clk.Now()) {
							// the map finds it, the entry is unexpired, the cache still says miss: ttlcache's own logic
							report("get-missed-live-entry", fmt.Sprintf("Get(%s) keeps missing v=%d although the map lookup finds the entry and it expires at %s (now %s)", own.name, last.val, showTime(rexp), showTime(clk.Now())))
						} else {
							report("free-run-lookup-missed-stored-entry", fmt.Sprintf("Get(%s) missed v=%d although the entry is live and still stored and no cleaner removed it; raw map lookup afterwards ok=%v, cache retry ok=%v: the map lookup itself failed", own.name, last.val, rok, ok2))
						}
					} else {
						report("free-run-live-entry-lost", fmt.Sprintf("Get(%s) missed v=%d (ttl %ds, set at +%s, read at +%s): the entry is live, its owner did not delete it, no Cleanup/Reset snapshot holding the key overlaps the Set (ttlcache never asked the map to delete it), and it is no longer stored",
							own.name, last.val, last.ttl, last.tb.Sub(t0), ta.Sub(t0)))
					}
				case p < 65:
					if last != nil {
						c.Delete(own.name)
						last.deleted = true
					}
				case p < 80: // Get a foreign key: the value must lie between completed-before and started-after
					o := fks[wr.Intn(workers)]
					c0 := o.completed.Load()
					v, ok := c.Get(o.name)
					s1 := o.started.Load()
					if ok && (int64(v) < c0 || int64(v) > s1) {
						report("get-returned-superseded-value", fmt.Sprintf("Get(%s)=%d outside [%d,%d] (completed before / started after)", o.name, v, c0, s1))
					}
					res.Hit("free:foreign-get")
				case p < 90: // untouched static key
					k := static[wr.Intn(len(static))]
					kq := strconv.Quote(shortKeys([]string{k})[0])
					if v, ok := c.Get(k); !withReset && (!ok || v != 99) {
						if stillStored(k, 99) {
							_, rexp, rok := c.VerifMapGet(k)
							v2, ok2 := c.Get(k)
							if rok && !ok2 && rexp.After(clk.Now()) {
								report("untouched-live-key-missed", fmt.Sprintf("Get(%s) keeps missing although the map lookup finds the untouched entry and it expires at %s (now %s)", kq, showTime(rexp), showTime(clk.Now())))
							} else {
								report("free-run-lookup-missed-stored-entry", fmt.Sprintf("Get(%s) = (%d,%v) although nobody touched the key, it is live and still stored; raw map lookup ok=%v, retry = (%d,%v)", kq, v, ok, rok, v2, ok2))
							}
						} else {
							report("untouched-live-key-missed", fmt.Sprintf("Get(%s) = (%d,%v) while cleaners ran; nobody touched the key, it is live, and it is no longer stored", kq, v, ok))
						}
					}
					res.Hit("free:static-get")
				case p < 97: // manual Cleanup
					cr := &cleanerRun{begin: seq.Add(1)}
					g := goid()
					mu.Lock()
					cur[g] = cr
					runs = append(runs, cr)
					mu.Unlock()
					c.Cleanup()
					mu.Lock()
					cr.end = seq.Add(1)
					mu.Unlock()
					res.Hit("free:manual-cleanup")
				default:
					if withReset {
						cr := &cleanerRun{begin: seq.Add(1)}
						g := goid()
						mu.Lock()
						cur[g] = cr
						runs = append(runs, cr)
						mu.Unlock()
						c.Reset()
						mu.Lock()
						cr.end = seq.Add(1)
						mu.Unlock()
						res.Hit("free:manual-reset")
					}
				}
			}
		}(w, wr)
	}
	wg.Wait()
	close(stopAdv)
	advWG.Wait()
	done := make(chan struct{})
	go func() { c.Stop(); close(done) }()
	select {
	case <-done:
	case <-time.After(5 * time.Second):
		report("stop-hangs", "Stop did not return within 5s after a free run")
	}
	for _, v := range viols {
		id := v.id
		// the free-run known ids are attributed to the map only if the bare-haxmap control of the pair
		// family (which runs first) has shown that class of defect in THIS run
		switch {
		case id == "free-run-live-entry-lost" && !mapDefectSeen.lost.Load():
			id += "-not-explained-by-map"
		case id == "free-run-lookup-missed-stored-entry" && !mapDefectSeen.lookup.Load():
			id += "-not-explained-by-map"
		}
		res.Violate(id, v.what, cs)
	}
	res.Count(fmt.Sprintf("free/%d", cs.Seed), true)
	res.Traces++
}

// ---------------------------------------------------------------------------------------------
// pair mode: two callers, two different keys, no Cleanup/Reset at all, periodic cleaner idle.
// Caller 1 repeats Set(a)/Delete(a); caller 2 repeats Set(b,i); Get(b); Delete(b).
// By the property every Get(b) must hit i (nothing else touches b and the clock stands still).

var pairNames = []string{"w0", "w1", "w2", "w3", "s0", "s1"}

// pairStore is what the two callers operate on: the real ttlcache, or — as the CONTROL — a bare
// haxmap of the same version with the same keys and no ttlcache code at all.
type pairStore interface {
	set(k string, v int)
	get(k string) (int, bool)
	del(k string)
	stored(k string, v int) bool
	lenWrapped() bool
	close()
}

type cacheStore struct{ c *ttlcache.Cache[int] }

func newCacheStore() *cacheStore {
	clk := ttlcache.NewVerifClock(t0)
	return &cacheStore{ttlcache.VerifNewCache[int](ttlcache.CacheOptions{CleanupInterval: 100 * 365 * 24 * time.Hour}, clk)}
}
func (s *cacheStore) set(k string, v int)      { s.c.Set(k, v, 1000) }
func (s *cacheStore) get(k string) (int, bool) { return s.c.Get(k) }
func (s *cacheStore) del(k string)             { s.c.Delete(k) }
func (s *cacheStore) stored(k string, v int) bool {
	for _, e := range s.c.VerifDump() {
		if e.Key == k && e.Val == v {
			return true
		}
	}
	return false
}
func (s *cacheStore) lenWrapped() bool { n := s.c.VerifLen(); return n < 0 || n > 1<<40 }
func (s *cacheStore) close()           { s.c.Stop() }

type bareEntry struct {
	val int
	exp time.Time
}
type bareStore struct {
	m *haxmap.Map[string, bareEntry]
}

func newBareStore() *bareStore { return &bareStore{haxmap.New[string, bareEntry]()} }
func (s *bareStore) set(k string, v int) { s.m.Set(k, bareEntry{v, t0.Add(1000 * time.Second)}) }
func (s *bareStore) get(k string) (int, bool) {
	e, ok := s.m.Get(k)
	return e.val, ok
}
func (s *bareStore) del(k string) { s.m.Del(k) }
func (s *bareStore) stored(k string, v int) bool {
	found := false
	s.m.ForEach(func(kk string, e bareEntry) bool {
		if kk == k && e.val == v {
			found = true
		}
		return true
	})
	return found
}
func (s *bareStore) lenWrapped() bool { n := int(s.m.Len()); return n < 0 || n > 1<<40 }
func (s *bareStore) close()           {}

type pairCounts struct{ iters, transient, lost, wrong, lenWrapped int }

func (p *pairCounts) add(q pairCounts) {
	p.iters += q.iters
	p.transient += q.transient
	p.lost += q.lost
	p.wrong += q.wrong
	p.lenWrapped += q.lenWrapped
}

// pairRound: caller 1 repeats Set(a)/Delete(a); caller 2 repeats Set(b,i); Get(b); Delete(b).
func pairRound(st pairStore, a, b string, iters int) pairCounts {
	defer st.close()
	var stop atomic.Bool
	var wg sync.WaitGroup
	wg.Add(1)
	go func() {
		defer wg.Done()
		for !stop.Load() {
			st.set(a, 1)
			st.del(a)
		}
	}()
	c := pairCounts{iters: iters}
	for i := 0; i < iters; i++ {
		st.set(b, i)
		if st.lenWrapped() {
			c.lenWrapped++ // the map's item counter wrapped around: the pre-fix Cleanup sized make() with it and panicked
		}
		v, ok := st.get(b)
		switch {
		case ok && v != i:
			c.wrong++
		case !ok:
			if st.stored(b, i) {
				c.transient++
			} else {
				c.lost++
			}
		}
		st.del(b)
	}
	stop.Store(true)
	wg.Wait()
	return c
}

// what the bare-haxmap control has shown in THIS run (gates the free-run known ids too)
var mapDefectSeen struct{ lost, lookup atomic.Bool }

const (
	ctlWant   = 3  // stop the control once it has shown this many events of each needed class
	ctlBudget = 12 // … or after this many control rounds of the same size
)

// excess: the cache loses at a rate the map alone does not explain (needs a meaningful sample)
func excess(n, iters, ctlN, ctlIters int) bool {
	return n >= 20 && float64(n)/float64(iters) > 10*float64(ctlN+1)/float64(ctlIters)
}

// pairScenario runs the workload on ttlcache and, as control, on a bare haxmap. A loss class is
// reported under its `known:` id only if the control shows the same class in this run for the same
// key pair at a comparable rate; otherwise it is a ttlcache defect and gets a different id.
func pairScenario(res *lib.Result, cs *Case, a, b string, iters int) {
	tc := pairRound(newCacheStore(), a, b, iters)
	res.Count("pair/"+a+"/"+b, true)
	res.Hit("family:pair(two callers, two keys, no cleaner)")
	if tc.lenWrapped > 0 {
		res.Hit("pair:map-Len()-wrapped-around(pre-fix Cleanup panicked on it)")
	}
	if tc.wrong > 0 {
		res.Violate("get-returned-superseded-value", fmt.Sprintf("pair %s/%s: %d Gets returned a value other than the one just set", a, b, tc.wrong), cs)
	}
	var ctl pairCounts
	rounds := 1
	ctl.add(pairRound(newBareStore(), a, b, iters)) // always once, for the record
	for (tc.lost > 0 && ctl.lost < ctlWant || tc.transient > 0 && ctl.transient < ctlWant) && rounds < ctlBudget {
		ctl.add(pairRound(newBareStore(), a, b, iters))
		rounds++
	}
	res.Hit("pair:control-rounds-on-bare-haxmap:" + strconv.Itoa(rounds))
	if ctl.lost > 0 {
		mapDefectSeen.lost.Store(true)
		res.Hit("pair:control(bare haxmap)-entry-lost")
	}
	if ctl.transient > 0 {
		mapDefectSeen.lookup.Store(true)
		res.Hit("pair:control(bare haxmap)-lookup-missed-stored-entry")
	}
	desc := fmt.Sprintf("caller 1 loops Set(%q)/Delete(%q); caller 2 does Set(%q,i); Get(%q); Delete(%q)", a, a, b, b, b)
	ctlDesc := func(n int) string {
		return fmt.Sprintf("control = identical workload on a bare haxmap, same keys, no ttlcache code: %d of %d in %d round(s)", n, ctl.iters, rounds)
	}
	if tc.transient > 0 {
		res.Hit("pair:lookup-missed-stored-entry")
		what := fmt.Sprintf("%s: %d of %d Gets missed although the entry was stored and live (no Cleanup/Reset involved); %s", desc, tc.transient, iters, ctlDesc(ctl.transient))
		if ctl.transient > 0 && !excess(tc.transient, iters, ctl.transient, ctl.iters) {
			res.Violate("concurrent-lookup-missed-stored-entry", what, cs)
		} else {
			res.Violate("concurrent-lookup-missed-stored-entry-not-explained-by-map", what, cs)
		}
	}
	if tc.lost > 0 {
		res.Hit("pair:entry-lost")
		what := fmt.Sprintf("%s: %d of %d Sets were lost entirely (Get misses, entry not stored; no Cleanup/Reset involved); %s", desc, tc.lost, iters, ctlDesc(ctl.lost))
		if ctl.lost > 0 && !excess(tc.lost, iters, ctl.lost, ctl.iters) {
			res.Violate("concurrent-live-entry-lost", what, cs)
		} else {
			res.Violate("concurrent-live-entry-lost-not-explained-by-map", what, cs)
		}
	}
}

func runPairs(f lib.Flags, res *lib.Result) {
	iters := 20000
	if f.Tier == "thorough" || f.Search {
		iters = 200000
	}
	for _, a := range pairNames {
		for _, b := range pairNames {
			if a == b {
				continue
			}
			cs := &Case{Mode: "pair", Lines: []string{a, b, strconv.Itoa(iters)}}
			out := guarded(300*time.Second, func() string { pairScenario(res, cs, a, b, iters); return "ok" })
			if out != "ok" {
				res.Violate("pair-scenario-"+out, "pair scenario "+a+"/"+b+" ended with "+out, cs)
			}
		}
	}
}

// ---------------------------------------------------------------------------------------------
// stop-immediately: NewCache; Stop back to back — the cleaner goroutine may not have been scheduled
// yet when Stop runs. Stop must still wait for it: when Stop returns the goroutine has started AND
// exited (its ticker was created and stopped), and afterwards nothing may start, tick or clean.

func stopImmediatelyRound(res *lib.Result, cs *Case, procs int) string {
	if procs > 0 {
		defer runtime.GOMAXPROCS(runtime.GOMAXPROCS(procs))
	}
	base := goroutineCount()
	clk := ttlcache.NewVerifClock(t0)
	var hookFired atomic.Int64
	var c *ttlcache.Cache[int]
	verifhook.Set(func(name string, args ...any) {
		if len(args) >= 1 {
			if cc, ok := args[0].(*ttlcache.Cache[int]); ok && cc == c {
				hookFired.Add(1)
			}
		}
	})
	defer verifhook.Set(nil)
	c = ttlcache.VerifNewCache[int](ttlcache.CacheOptions{CleanupInterval: time.Second}, clk)
	ret := make(chan struct{})
	go func() { c.Stop(); close(ret) }()
	if procs == 0 {
		// default scheduling: also try the inline form (same goroutine as NewCache)
	}
	select {
	case <-ret:
	case <-time.After(5 * time.Second):
		return "stop-hangs"
	}
	made, stops := clk.TickerMade.Load(), clk.TickerStops.Load()
	if made != 1 || stops != 1 {
		res.Violate("stop-returned-before-cleaner-exit",
			fmt.Sprintf("NewCache(); Stop(): Stop returned with tickers created=%d stopped=%d (the cleaner goroutine must have started and exited: 1/1)", made, stops), cs)
	}
	// entries that a cleaner would remove
	c.Set("x", 1, 1)
	c.Set("y", 2, 1)
	for i := 0; i < 6; i++ {
		clk.Advance(1500 * time.Millisecond)
		runtime.Gosched()
		time.Sleep(100 * time.Microsecond)
	}
	if m2 := clk.TickerMade.Load(); m2 != made {
		res.Violate("cleaner-started-after-stop", fmt.Sprintf("a ticker was created AFTER Stop had returned (created before/after: %d/%d): the cleaner goroutine started after Stop", made, m2), cs)
	}
	if n := clk.TicksSent.Load(); n > 0 {
		res.Violate("cleaner-started-after-stop", fmt.Sprintf("%d ticks were delivered to a cleaner after Stop had returned", n), cs)
	}
	if n := hookFired.Load(); n > 0 {
		res.Violate("stop-returned-before-cleaner-exit", fmt.Sprintf("Cleanup ran %d time(s) after Stop had returned", n), cs)
	}
	if n := c.VerifLen(); n != 2 {
		res.Violate("stop-returned-before-cleaner-exit", fmt.Sprintf("expired entries were cleaned after Stop had returned (stored: %d of 2)", n), cs)
	}
	gone := false
	for t := 0; t < 2000; t++ {
		if goroutineCount() <= base {
			gone = true
			break
		}
		time.Sleep(100 * time.Microsecond)
	}
	if !gone {
		res.Violate("stop-returned-before-cleaner-exit", fmt.Sprintf("goroutines before NewCache %d, 200ms after Stop %d", base, goroutineCount()), cs)
	}
	return "ok"
}

// same, but Stop is called inline right after NewCache on the same goroutine
func stopInlineRound(res *lib.Result, cs *Case, procs int) string {
	if procs > 0 {
		defer runtime.GOMAXPROCS(runtime.GOMAXPROCS(procs))
	}
	clk := ttlcache.NewVerifClock(t0)
	c := ttlcache.VerifNewCache[int](ttlcache.CacheOptions{CleanupInterval: time.Second}, clk)
	c.Stop()
	made, stops := clk.TickerMade.Load(), clk.TickerStops.Load()
	if made != 1 || stops != 1 {
		res.Violate("stop-returned-before-cleaner-exit",
			fmt.Sprintf("NewCache(); Stop() inline: Stop returned with tickers created=%d stopped=%d", made, stops), cs)
	}
	for i := 0; i < 4; i++ {
		clk.Advance(1500 * time.Millisecond)
		runtime.Gosched()
	}
	time.Sleep(200 * time.Microsecond)
	if m2 := clk.TickerMade.Load(); m2 != made || clk.TicksSent.Load() > 0 {
		res.Violate("cleaner-started-after-stop", fmt.Sprintf("after an inline Stop a ticker was created or ticked (created %d->%d, ticks %d)", made, m2, clk.TicksSent.Load()), cs)
	}
	return "ok"
}

func runStopImmediately(f lib.Flags, res *lib.Result, drv *lib.Drv) {
	// the schedule as a script, diffed against the LTS (the goroutine is `spawned` when Stop is called)
	for _, n := range []int{1, 3} {
		cs := &Case{Mode: "sched"}
		cs.Lines = []string{fmt.Sprintf("cnewraw max=0 t0=%d iv=%d", t0.UnixNano(), nsPerSecond), "stop",
			"set k=a v=1 ttl=1", fmt.Sprintf("adv d=%d", int64(n)*3*nsPerSecond), fmt.Sprintf("adv d=%d", 2*nsPerSecond), "get k=a", "dump"}
		outs := runSchedLines(cs, res)
		diff(drv, res, schedCorr, cs, outs)
		res.Count(strings.Join(cs.Lines, "|"), true)
		res.Traces++
	}
	rounds := 300
	if f.Tier == "thorough" || f.Search {
		rounds = 3000
	}
	for i := 0; i < rounds; i++ {
		procs := 0
		if i%2 == 0 {
			procs = 1
		}
		cs := &Case{Mode: "stopnow", Lines: []string{fmt.Sprintf("NewCache; Stop back to back, GOMAXPROCS=%d (0 = default), round %d", procs, i)}}
		fn := stopImmediatelyRound
		if i%4 >= 2 {
			fn = stopInlineRound
		}
		out := guarded(15*time.Second, func() string { return fn(res, cs, procs) })
		if out != "ok" {
			res.Violate("stop-"+out, "stop-immediately round ended with "+out, cs)
		}
		res.Count(fmt.Sprintf("stopnow/%d", i), true)
		res.Hit(fmt.Sprintf("family:stop-immediately GOMAXPROCS=%d", procs))
	}
}
