// Command factgen_c16 re-extracts from /repo/streams the facts the Lean model of property C16 is
// parameterised by (T1): which conditions guard the too-large error and the buffer clip in
// LimitReadCloser.Read, whether MultiReaderCloser.WriteTo closes the streams it copied, and the
// copy buffer size.  Unknown shapes make it exit non-zero — it never defaults.
package main

import (
	"bytes"
	"flag"
	"fmt"
	"go/ast"
	"go/constant"
	"go/parser"
	"go/printer"
	"go/token"
	"go/types"
	"os"
	"path/filepath"
	"sort"
	"strings"
)

var fset = token.NewFileSet()

func die(f string, a ...any) {
	fmt.Fprintf(os.Stderr, "factgen_c16: "+f+"\n", a...)
	os.Exit(1)
}

func render(n ast.Node) string {
	var b bytes.Buffer
	if err := printer.Fprint(&b, fset, n); err != nil {
		die("print: %v", err)
	}
	return strings.Join(strings.Fields(b.String()), " ")
}

func method(f *ast.File, recv, name string) *ast.FuncDecl {
	for _, d := range f.Decls {
		fd, ok := d.(*ast.FuncDecl)
		if !ok || fd.Name.Name != name || fd.Recv == nil || len(fd.Recv.List) != 1 {
			continue
		}
		if strings.TrimPrefix(render(fd.Recv.List[0].Type), "*") == recv {
			return fd
		}
	}
	die("method (%s).%s not found", recv, name)
	return nil
}

func parse(repo, file string) *ast.File {
	f, err := parser.ParseFile(fset, filepath.Join(repo, "streams", file), nil, 0)
	if err != nil {
		die("%v", err)
	}
	return f
}

// ifsAssigning returns the conditions of all `if` statements whose body's first statement renders as want.
func ifsWithBody(fd *ast.FuncDecl, want string) []string {
	var out []string
	ast.Inspect(fd.Body, func(n ast.Node) bool {
		is, ok := n.(*ast.IfStmt)
		if ok && len(is.Body.List) >= 1 && render(is.Body.List[0]) == want {
			out = append(out, render(is.Cond))
		}
		return true
	})
	return out
}

func main() {
	repo := flag.String("repo", "/repo", "repository root")
	out := flag.String("out", "", "output .lean file")
	flag.Parse()

	// --- limitreadcloser.go ---
	lf := parse(*repo, "limitreadcloser.go")
	read := method(lf, "limitReadCloser", "Read")
	conds := ifsWithBody(read, "err = ErrStreamTooLarge")
	if len(conds) != 1 {
		die("expected exactly one `if … { err = ErrStreamTooLarge }` in limitReadCloser.Read, found %d", len(conds))
	}
	var tooLargeOnEOF string
	switch conds[0] {
	case "err == nil":
		tooLargeOnEOF = "false"
	case "err == nil || err == io.EOF", "err == nil || errors.Is(err, io.EOF)", "err == io.EOF || err == nil":
		tooLargeOnEOF = "true"
	default:
		die("unknown too-large condition %q", conds[0])
	}
	clips := ifsWithBody(read, "p = p[0:(l.N + 1)]")
	if len(clips) != 1 {
		clips = ifsWithBody(read, "p = p[0 : l.N+1]")
	}
	if len(clips) != 1 {
		clips = ifsWithBody(read, "p = p[:l.N+1]")
	}
	if len(clips) != 1 {
		die("expected exactly one buffer clip `p = p[0:l.N+1]` in limitReadCloser.Read")
	}
	var clipSafe string
	switch clips[0] {
	case "int64(len(p)) > (l.N + 1)", "int64(len(p)) > l.N+1":
		clipSafe = "false"
	case "int64(len(p))-1 > l.N":
		clipSafe = "true"
	default:
		die("unknown clip condition %q", clips[0])
	}

	// --- multireadercloser.go ---
	mf := parse(*repo, "multireadercloser.go")
	wt := method(mf, "MultiReaderCloser", "WriteTo")
	bufSize := int64(-1)
	ast.Inspect(wt.Body, func(n ast.Node) bool {
		ce, ok := n.(*ast.CallExpr)
		if ok && render(ce.Fun) == "make" && len(ce.Args) == 2 && render(ce.Args[0]) == "[]byte" {
			tv, err := types.Eval(fset, nil, token.NoPos, render(ce.Args[1]))
			if err != nil || tv.Value == nil {
				die("cannot evaluate WriteTo buffer size %q", render(ce.Args[1]))
			}
			v, exact := constant.Int64Val(tv.Value)
			if !exact {
				die("WriteTo buffer size not an int")
			}
			bufSize = v
		}
		return true
	})
	if bufSize <= 0 {
		die("WriteTo buffer size not found")
	}
	wtb := method(mf, "MultiReaderCloser", "writeToWithBuffer")
	var loop *ast.RangeStmt
	ast.Inspect(wtb.Body, func(n ast.Node) bool {
		if rs, ok := n.(*ast.RangeStmt); ok && render(rs.X) == "mr.readers" {
			loop = rs
		}
		return true
	})
	if loop == nil {
		die("writeToWithBuffer: `range mr.readers` loop not found")
	}
	// shape of the loop body: copy; sum; if err != nil { …; return }; [close-if-closer]; mr.readers[i] = nil
	var shape []string
	for _, st := range loop.Body.List {
		switch s := st.(type) {
		case *ast.IfStmt:
			if s.Init != nil && strings.HasSuffix(render(s.Init), ":= r.(io.Closer)") && len(s.Body.List) == 1 &&
				strings.HasSuffix(render(s.Body.List[0]), ".Close()") {
				shape = append(shape, "close-if-closer")
			} else if render(s.Cond) == "err != nil" {
				shape = append(shape, "return-on-error")
			} else {
				die("writeToWithBuffer: unknown if statement %q", render(s))
			}
		default:
			shape = append(shape, render(st))
		}
	}
	var writeToCloses string
	switch strings.Join(shape, "; ") {
	case "n, err = io.CopyBuffer(w, r, buf); sum += n; return-on-error; mr.readers[i] = nil":
		writeToCloses = "false"
	case "n, err = io.CopyBuffer(w, r, buf); sum += n; return-on-error; close-if-closer; mr.readers[i] = nil":
		writeToCloses = "true"
	default:
		die("writeToWithBuffer: unknown loop body shape %q", strings.Join(shape, "; "))
	}

	// --- method sets: io.Copy / io.CopyBuffer pick WriteTo / ReadFrom when they exist, so which
	// methods the three reader types have is part of their behaviour.  All non-test files of the
	// package are scanned; embedded fields (which promote methods) are listed too. ---
	types3 := []string{"limitReadCloser", "MultiReaderCloser", "TeeReadCloser"}
	methods := map[string][]string{}
	embedded := map[string][]string{}
	found := map[string]bool{}
	ctors := map[string][]string{"LimitReadCloser": nil, "NewMultiReaderCloser": nil, "NewTeeReadCloser": nil}
	files, err := filepath.Glob(filepath.Join(*repo, "streams", "*.go"))
	if err != nil || len(files) == 0 {
		die("no go files in %s/streams", *repo)
	}
	sort.Strings(files)
	for _, fn := range files {
		if strings.HasSuffix(fn, "_test.go") {
			continue
		}
		f, err := parser.ParseFile(fset, fn, nil, 0)
		if err != nil {
			die("%v", err)
		}
		if f.Name.Name != "streams" {
			die("%s: unexpected package %s", fn, f.Name.Name)
		}
		for _, d := range f.Decls {
			switch d := d.(type) {
			case *ast.FuncDecl:
				if d.Recv == nil {
					// constructors: which concrete type do callers get?
					if _, ok := ctors[d.Name.Name]; ok {
						ast.Inspect(d.Body, func(n ast.Node) bool {
							if _, isLit := n.(*ast.FuncLit); isLit {
								die("constructor %s contains a function literal", d.Name.Name)
							}
							rs, ok := n.(*ast.ReturnStmt)
							if !ok {
								return true
							}
							if len(rs.Results) != 1 {
								die("constructor %s: unexpected return %q", d.Name.Name, render(rs))
							}
							ue, ok := rs.Results[0].(*ast.UnaryExpr)
							if !ok || ue.Op != token.AND {
								die("constructor %s: unexpected return %q", d.Name.Name, render(rs))
							}
							cl, ok := ue.X.(*ast.CompositeLit)
							if !ok {
								die("constructor %s: unexpected return %q", d.Name.Name, render(rs))
							}
							ctors[d.Name.Name] = append(ctors[d.Name.Name], render(cl.Type))
							return true
						})
					}
					continue
				}
				if len(d.Recv.List) != 1 {
					continue
				}
				recv := strings.TrimPrefix(render(d.Recv.List[0].Type), "*")
				for _, t := range types3 {
					if recv == t {
						methods[t] = append(methods[t], d.Name.Name)
					}
				}
			case *ast.GenDecl:
				for _, sp := range d.Specs {
					ts, ok := sp.(*ast.TypeSpec)
					if !ok {
						continue
					}
					for _, t := range types3 {
						if ts.Name.Name != t {
							continue
						}
						st, ok := ts.Type.(*ast.StructType)
						if !ok || ts.Assign != token.NoPos || ts.TypeParams != nil {
							die("type %s is no longer a plain struct type: %s", t, render(ts))
						}
						found[t] = true
						for _, fld := range st.Fields.List {
							if len(fld.Names) == 0 {
								embedded[t] = append(embedded[t], render(fld.Type))
							}
						}
					}
				}
			}
		}
	}
	leanList := func(xs []string) string {
		sort.Strings(xs)
		q := make([]string, len(xs))
		for i, x := range xs {
			q[i] = fmt.Sprintf("%q", x)
		}
		return "[" + strings.Join(q, ", ") + "]"
	}
	for _, t := range types3 {
		if !found[t] {
			die("type %s not found in package streams", t)
		}
	}

	var b strings.Builder
	b.WriteString("/-! GENERATED by harness/cmd/factgen_c16 from /repo/streams — do not edit. -/\n")
	b.WriteString("namespace Kit.Generated.C16\n\n")
	fmt.Fprintf(&b, "/-- limitReadCloser.Read: the too-large guard is `%s` -/\n", conds[0])
	fmt.Fprintf(&b, "def limitTooLargeOnEOF : Bool := %s\n\n", tooLargeOnEOF)
	fmt.Fprintf(&b, "/-- limitReadCloser.Read: the buffer clip guard is `%s` -/\n", clips[0])
	fmt.Fprintf(&b, "def limitClipOverflowSafe : Bool := %s\n\n", clipSafe)
	fmt.Fprintf(&b, "/-- MultiReaderCloser.writeToWithBuffer loop body: %s -/\n", strings.Join(shape, "; "))
	fmt.Fprintf(&b, "def writeToClosesCopied : Bool := %s\n\n", writeToCloses)
	fmt.Fprintf(&b, "/-- MultiReaderCloser.WriteTo: buffer size -/\n")
	fmt.Fprintf(&b, "def writeToBufSize : Nat := %d\n\n", bufSize)
	for _, t := range types3 {
		name := strings.ToLower(t[:1]) + t[1:]
		fmt.Fprintf(&b, "/-- methods declared on `%s` (all non-test files of package streams), sorted -/\n", t)
		fmt.Fprintf(&b, "def %sMethods : List String := %s\n\n", name, leanList(methods[t]))
		fmt.Fprintf(&b, "/-- embedded fields of `%s` (they would promote methods) -/\n", t)
		fmt.Fprintf(&b, "def %sEmbedded : List String := %s\n\n", name, leanList(embedded[t]))
	}
	for _, c := range []string{"LimitReadCloser", "NewMultiReaderCloser", "NewTeeReadCloser"} {
		if len(ctors[c]) == 0 {
			die("constructor %s not found or has no return", c)
		}
		name := strings.ToLower(c[:1]) + c[1:]
		fmt.Fprintf(&b, "/-- concrete types `%s` returns a pointer to (one entry per return statement) -/\n", c)
		fmt.Fprintf(&b, "def %sReturns : List String := %s\n\n", name, leanList(ctors[c]))
	}
	b.WriteString("end Kit.Generated.C16\n")
	if *out == "" {
		fmt.Print(b.String())
		return
	}
	if err := os.WriteFile(*out, []byte(b.String()), 0o644); err != nil {
		die("%v", err)
	}
}
