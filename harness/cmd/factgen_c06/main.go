// factgen_c06 re-extracts from events/queue/processor.go the facts the C06 model is built on:
// the lock discipline that justifies modelling Enqueue/Dequeue bodies and the loop's two critical
// sections as single atomic actions, the shape of process(), where the running token is released,
// the order of Close's steps, the "run now" margin, the channel capacities and the hook sites.
// Stdlib only (go/parser, go/ast, go/printer). An unknown shape makes it exit non-zero.
package main

import (
	"bytes"
	"flag"
	"fmt"
	"go/ast"
	"go/parser"
	"go/printer"
	"go/token"
	"os"
	"path/filepath"
	"regexp"
	"strconv"
	"strings"
)

var fset = token.NewFileSet()

func die(format string, a ...any) {
	fmt.Fprintf(os.Stderr, "factgen_c06: "+format+"\n", a...)
	os.Exit(1)
}

var ws = regexp.MustCompile(`\s+`)

func txt(n ast.Node) string {
	var b bytes.Buffer
	if err := printer.Fprint(&b, fset, n); err != nil {
		die("print: %v", err)
	}
	return strings.TrimSpace(ws.ReplaceAllString(b.String(), " "))
}

func isHook(s ast.Stmt) bool {
	es, ok := s.(*ast.ExprStmt)
	return ok && strings.HasPrefix(txt(es.X), "verifhook.Point(")
}

// stmts renders a statement list without the hook call sites.
func stmts(list []ast.Stmt) (out []string, nodes []ast.Stmt) {
	for _, s := range list {
		if isHook(s) {
			continue
		}
		out = append(out, txt(s))
		nodes = append(nodes, s)
	}
	return
}

func index(xs []string, pred func(string) bool) int {
	for i, x := range xs {
		if pred(x) {
			return i
		}
	}
	return -1
}

func eq(s string) func(string) bool { return func(x string) bool { return x == s } }
func contains(s string) func(string) bool {
	return func(x string) bool { return strings.Contains(x, s) }
}

func hasReturn(n ast.Node) bool {
	found := false
	ast.Inspect(n, func(m ast.Node) bool {
		if _, ok := m.(*ast.FuncLit); ok {
			return false
		}
		if _, ok := m.(*ast.ReturnStmt); ok {
			found = true
		}
		return true
	})
	return found
}

// bodyAtomic: the function locks once and unlocks once at top level, every statement that touches
// p.queue or calls p.process lies strictly between, and nothing in between returns.
func bodyAtomic(fn *ast.FuncDecl) bool {
	ss, nodes := stmts(fn.Body.List)
	lock, unlock := index(ss, eq("p.lock.Lock()")), index(ss, eq("p.lock.Unlock()"))
	if lock < 0 || unlock < lock {
		die("%s: no top-level p.lock.Lock()/Unlock() pair", fn.Name.Name)
	}
	for i, s := range ss {
		touches := strings.Contains(s, "p.queue.") || strings.Contains(s, "p.process(")
		if touches && !(lock < i && i < unlock) {
			return false
		}
		if lock < i && i < unlock && hasReturn(nodes[i]) {
			return false
		}
		if i != lock && i != unlock && (strings.Contains(s, "p.lock.Lock()") || strings.Contains(s, "p.lock.Unlock()")) {
			return false
		}
	}
	return true
}

func main() {
	repo := flag.String("repo", "/repo", "")
	out := flag.String("out", "", "")
	flag.Parse()
	path := filepath.Join(*repo, "events", "queue", "processor.go")
	f, err := parser.ParseFile(fset, path, nil, parser.ParseComments)
	if err != nil {
		die("%v", err)
	}
	fns := map[string]*ast.FuncDecl{}
	for _, d := range f.Decls {
		if fd, ok := d.(*ast.FuncDecl); ok {
			fns[fd.Name.Name] = fd
		}
	}
	need := func(name string) *ast.FuncDecl {
		fd := fns[name]
		if fd == nil || fd.Body == nil {
			die("function %s not found", name)
		}
		return fd
	}

	// hook sites, in source order
	var hooks []string
	ast.Inspect(f, func(n ast.Node) bool {
		if c, ok := n.(*ast.CallExpr); ok && txt(c.Fun) == "verifhook.Point" && len(c.Args) > 0 {
			if lit, ok := c.Args[0].(*ast.BasicLit); ok && lit.Kind == token.STRING {
				s, _ := strconv.Unquote(lit.Value)
				hooks = append(hooks, s)
			} else {
				die("verifhook.Point with a non-literal name at %s", fset.Position(c.Pos()))
			}
		}
		return true
	})

	// drop the hook call sites (and their comments) from the tree: the facts are about the rest
	f.Comments = nil
	filter := func(list []ast.Stmt) []ast.Stmt {
		var out []ast.Stmt
		for _, s := range list {
			if !isHook(s) {
				out = append(out, s)
			}
		}
		return out
	}
	ast.Inspect(f, func(n ast.Node) bool {
		switch v := n.(type) {
		case *ast.BlockStmt:
			v.List = filter(v.List)
		case *ast.CaseClause:
			v.Body = filter(v.Body)
		case *ast.CommClause:
			v.Body = filter(v.Body)
		}
		return true
	})

	// channel capacities (NewProcessor)
	caps := map[string]int{}
	ast.Inspect(need("NewProcessor"), func(n ast.Node) bool {
		kv, ok := n.(*ast.KeyValueExpr)
		if !ok {
			return true
		}
		v := txt(kv.Value)
		if m := regexp.MustCompile(`^make\(chan struct\{\}(?:, (\d+))?\)$`).FindStringSubmatch(v); m != nil {
			c := 0
			if m[1] != "" {
				c, _ = strconv.Atoi(m[1])
			}
			caps[txt(kv.Key)] = c
		}
		return true
	})
	for _, ch := range []string{"processorRunningCh", "stopCh", "resetCh"} {
		if _, ok := caps[ch]; !ok {
			die("NewProcessor does not make channel %s in a recognised way", ch)
		}
	}
	_, hasClosedCh := caps["closedCh"]

	enqAtomic := bodyAtomic(need("Enqueue"))
	deqAtomic := bodyAtomic(need("Dequeue"))
	// both check p.stopped.Load() before taking the lock
	stoppedCheckOutsideLock := true
	for _, name := range []string{"Enqueue", "Dequeue"} {
		ss, _ := stmts(need(name).Body.List)
		c, l := index(ss, contains("p.stopped.Load()")), index(ss, eq("p.lock.Lock()"))
		if c < 0 || c > l {
			stoppedCheckOutsideLock = false
		}
	}

	// process(): select { case token<- : default: if isNext { select { case reset<- : default: } } return }; wg.Add; go
	processShape := "unknown"
	{
		ss, nodes := stmts(need("process").Body.List)
		if len(ss) == 3 && strings.HasPrefix(ss[1], "p.wg.Add(1)") && strings.HasPrefix(ss[2], "go func()") {
			if sel, ok := nodes[0].(*ast.SelectStmt); ok && len(sel.Body.List) == 2 {
				c0 := sel.Body.List[0].(*ast.CommClause)
				c1 := sel.Body.List[1].(*ast.CommClause)
				if c0.Comm != nil && txt(c0.Comm) == "p.processorRunningCh <- struct{}{}" && c1.Comm == nil {
					b0, _ := stmts(c0.Body)
					b1, n1 := stmts(c1.Body)
					if len(b0) == 0 && len(b1) == 2 && b1[1] == "return" {
						if ifs, ok := n1[0].(*ast.IfStmt); ok && txt(ifs.Cond) == "isNext" && ifs.Else == nil {
							ib, in := stmts(ifs.Body.List)
							if len(ib) == 1 {
								if s2, ok := in[0].(*ast.SelectStmt); ok && len(s2.Body.List) == 2 {
									d0 := s2.Body.List[0].(*ast.CommClause)
									d1 := s2.Body.List[1].(*ast.CommClause)
									e0, _ := stmts(d0.Body)
									e1, _ := stmts(d1.Body)
									if d0.Comm != nil && txt(d0.Comm) == "p.resetCh <- struct{}{}" && d1.Comm == nil && len(e0) == 0 && len(e1) == 0 {
										processShape = "tokenElseResetIfNext"
									}
								}
							}
						}
					}
				}
			}
		}
	}
	if processShape == "unknown" {
		die("process(): unrecognised shape")
	}

	// processLoop
	loop := need("processLoop")
	deferredRelease, deferredGuarded := false, false
	var forStmt *ast.ForStmt
	for _, s := range loop.Body.List {
		switch v := s.(type) {
		case *ast.DeferStmt:
			t := txt(v)
			if strings.Contains(t, "<-p.processorRunningCh") {
				deferredRelease = true
				deferredGuarded = strings.Contains(t, "if !released {")
			}
		case *ast.ForStmt:
			forStmt = v
		}
	}
	if forStmt == nil || forStmt.Cond != nil {
		die("processLoop: no `for {` loop")
	}
	fs, fnodes := stmts(forStmt.Body.List)
	if len(fs) < 4 || fs[0] != "p.lock.Lock()" || fs[1] != "r, ok = p.queue.Peek()" {
		die("processLoop: the loop body does not start with lock; Peek")
	}
	emptyReleaseUnderLock := false
	peekUnderLock := false
	margin := int64(-1)
	pollBeforeClock := false
	switch {
	case fs[2] == "p.lock.Unlock()" && strings.HasPrefix(fs[3], "if !ok {"):
		// as found: unlock, then `if !ok { return }`
		peekUnderLock = true
		b, _ := stmts(fnodes[3].(*ast.IfStmt).Body.List)
		if len(b) != 1 || b[0] != "return" {
			die("processLoop: unrecognised empty-queue exit %v", b)
		}
	case strings.HasPrefix(fs[2], "if !ok {") && fs[3] == "p.lock.Unlock()":
		peekUnderLock = true
		b, _ := stmts(fnodes[2].(*ast.IfStmt).Body.List)
		rcv, unl, ret := index(b, eq("<-p.processorRunningCh")), index(b, eq("p.lock.Unlock()")), index(b, eq("return"))
		if unl < 0 || ret != len(b)-1 {
			die("processLoop: unrecognised empty-queue exit %v", b)
		}
		emptyReleaseUnderLock = rcv >= 0 && rcv < unl && index(b, eq("released = true")) >= 0 && deferredGuarded
	default:
		die("processLoop: unrecognised statements after Peek: %q %q", fs[2], fs[3])
	}
	// the stop/reset poll comes before the clock is read, and the margin
	poll := index(fs, func(s string) bool {
		return strings.HasPrefix(s, "select {") && strings.Contains(s, "case <-p.stopCh:") && strings.Contains(s, "case <-p.resetCh:") && strings.Contains(s, "default:")
	})
	clock := index(fs, eq("deadline = scheduledTime.Sub(p.clock.Now())"))
	pollBeforeClock = poll >= 0 && clock > poll
	for i, s := range fs {
		if m := regexp.MustCompile(`^if deadline < (\d+)\*time\.(Microsecond|Millisecond|Nanosecond) \{ p\.execute\(r\) continue \}$`).FindStringSubmatch(s); m != nil && i > clock && clock >= 0 {
			n, _ := strconv.ParseInt(m[1], 10, 64)
			margin = n * map[string]int64{"Nanosecond": 1, "Microsecond": 1000, "Millisecond": 1000000}[m[2]]
		}
	}
	if margin < 0 {
		die("processLoop: `if deadline < N*time.Unit { p.execute(r); continue }` not found")
	}
	arm := index(fs, eq("t = p.clock.NewTimer(deadline)"))
	waitSel := index(fs, func(s string) bool {
		return strings.HasPrefix(s, "select {") && strings.Contains(s, "case <-t.C(): p.execute(r)") && strings.Contains(s, "case <-p.resetCh:") && strings.Contains(s, "case <-p.stopCh:")
	})
	if arm < 0 || waitSel != arm+1 || waitSel != len(fs)-1 {
		die("processLoop: NewTimer followed by the 3-way select not found at the end of the loop body")
	}

	// execute: lock; peek; if stale {unlock; return}; pop; unlock; ...; executeFn outside the lock
	exe, _ := stmts(need("execute").Body.List)
	iLock, iPeek := index(exe, eq("p.lock.Lock()")), index(exe, eq("peek, ok := p.queue.Peek()"))
	iStale := index(exe, func(s string) bool { return strings.HasPrefix(s, "if !ok || peek != r { p.lock.Unlock() return }") })
	iPop, iUnlock, iCall := index(exe, eq("r, ok = p.queue.Pop()")), index(exe, eq("p.lock.Unlock()")), index(exe, eq("p.executeFn(r)"))
	executeShape := iLock == 0 && iPeek == 1 && iStale == 2 && iPop == 3 && iUnlock == 4 && iCall > iUnlock
	if !executeShape {
		die("execute: unrecognised shape %q", exe)
	}

	// Close
	cl := need("Close")
	cs, cn := stmts(cl.Body.List)
	if len(cs) < 2 || cs[0] != "defer p.wg.Wait()" || !strings.HasPrefix(cs[1], "if p.stopped.CompareAndSwap(false, true) {") {
		die("Close: unrecognised shape")
	}
	wb, _ := stmts(cn[1].(*ast.IfStmt).Body.List)
	iStop, iTok := index(wb, eq("close(p.stopCh)")), index(wb, eq("p.processorRunningCh <- struct{}{}"))
	iClosed := index(wb, eq("close(p.closedCh)"))
	if iStop < 0 || iTok < iStop {
		die("Close: winner does not close stopCh and then take the running token")
	}
	loserWaits := hasClosedCh && iClosed > iTok && index(cs[2:], eq("<-p.closedCh")) >= 0

	// queue.go: the heap order must be decided on time.Time values (Before/After/Compare), never on
	// integers derived from them (UnixNano overflows outside 1677..2262), and a heap entry must hold
	// nothing but the value and its index (no cached key that could go stale or wrap).
	qpath := filepath.Join(*repo, "events", "queue", "queue.go")
	qf, err := parser.ParseFile(fset, qpath, nil, 0)
	if err != nil {
		die("%v", err)
	}
	lessShape := ""
	var itemFields []string
	for _, d := range qf.Decls {
		switch v := d.(type) {
		case *ast.FuncDecl:
			if v.Name.Name == "Less" && v.Recv != nil && strings.Contains(txt(v.Recv.List[0].Type), "queueHeap") {
				if len(v.Body.List) != 1 {
					die("queueHeap.Less: body is not a single return statement")
				}
				ret, ok := v.Body.List[0].(*ast.ReturnStmt)
				if !ok || len(ret.Results) != 1 {
					die("queueHeap.Less: body is not a single return statement")
				}
				switch txt(ret.Results[0]) {
				case "pq[i].value.ScheduledTime().Before(pq[j].value.ScheduledTime())",
					"pq[j].value.ScheduledTime().After(pq[i].value.ScheduledTime())",
					"pq[i].value.ScheduledTime().Compare(pq[j].value.ScheduledTime()) < 0":
					lessShape = "timeBefore"
				default:
					die("queueHeap.Less: order is not decided by Before/After/Compare on ScheduledTime() values: %s", txt(ret.Results[0]))
				}
			}
		case *ast.GenDecl:
			for _, sp := range v.Specs {
				ts, ok := sp.(*ast.TypeSpec)
				if !ok || ts.Name.Name != "queueItem" {
					continue
				}
				st, ok := ts.Type.(*ast.StructType)
				if !ok {
					die("queueItem is not a struct")
				}
				for _, f := range st.Fields.List {
					for _, n := range f.Names {
						itemFields = append(itemFields, n.Name+" "+txt(f.Type))
					}
				}
			}
		}
	}
	if lessShape == "" {
		die("queueHeap.Less not found")
	}
	if strings.Join(itemFields, ";") != "value T;index int" {
		die("queueItem has fields %v, expected exactly {value T; index int}", itemFields)
	}

	b := func(x bool) string {
		if x {
			return "true"
		}
		return "false"
	}
	var o strings.Builder
	o.WriteString("/-\nGENERATED by harness/cmd/factgen_c06 from events/queue/processor.go.\n")
	o.WriteString("Do not edit: bin/check C06 rewrites this file from the working tree of /repo on every run.\n-/\n")
	o.WriteString("namespace Kit.Generated.C06\n\n")
	fmt.Fprintf(&o, "/-- `if deadline < N*time.Unit { p.execute(r); continue }`: the margin in nanoseconds. -/\ndef runNowMarginNs : Int := %d\n\n", margin)
	fmt.Fprintf(&o, "/-- capacities of `processorRunningCh`, `resetCh`, `stopCh` in `NewProcessor`. -/\ndef tokenCap : Nat := %d\ndef resetCap : Nat := %d\ndef stopCap : Nat := %d\n\n", caps["processorRunningCh"], caps["resetCh"], caps["stopCh"])
	fmt.Fprintf(&o, "/-- `Enqueue`/`Dequeue`: one top-level Lock/Unlock pair, every use of `p.queue` and the call of\n`p.process` strictly between them, no return in between: the body is one atomic action. -/\ndef enqueueBodyAtomic : Bool := %s\ndef dequeueBodyAtomic : Bool := %s\n\n", b(enqAtomic), b(deqAtomic))
	fmt.Fprintf(&o, "/-- both check `p.stopped.Load()` before (outside) the lock. -/\ndef stoppedCheckOutsideLock : Bool := %s\n\n", b(stoppedCheckOutsideLock))
	fmt.Fprintf(&o, "/-- `process`: non-blocking send on the running token and start a loop; else, if `isNext`, a\nnon-blocking send on `resetCh`. -/\ndef processShape : String := %q\n\n", processShape)
	fmt.Fprintf(&o, "/-- `processLoop`: `Peek` is called between Lock and Unlock. -/\ndef loopPeekUnderLock : Bool := %s\n", b(peekUnderLock))
	fmt.Fprintf(&o, "/-- the empty-queue exit receives from `processorRunningCh` BEFORE `p.lock.Unlock()` (and the\ndeferred release is guarded by `released`). -/\ndef emptyExitReleasesTokenUnderLock : Bool := %s\n", b(emptyReleaseUnderLock))
	fmt.Fprintf(&o, "/-- the deferred function releases the token on the other exits. -/\ndef deferredRelease : Bool := %s\n", b(deferredRelease))
	fmt.Fprintf(&o, "/-- stop/reset are polled before the clock is read; `NewTimer` is followed by the 3-way select. -/\ndef pollBeforeClock : Bool := %s\n\n", b(pollBeforeClock))
	fmt.Fprintf(&o, "/-- `execute`: lock; Peek; `if !ok || peek != r {unlock; return}`; Pop; unlock; then `executeFn` outside the lock. -/\ndef executeShape : Bool := %s\n\n", b(executeShape))
	fmt.Fprintf(&o, "/-- `Close`: the CAS winner closes `stopCh`, then takes the running token, then closes `closedCh`;\na call that lost the CAS waits for `closedCh`. -/\ndef closeLoserWaits : Bool := %s\n\n", b(loserWaits))
	fmt.Fprintf(&o, "/-- queue.go: `queueHeap.Less` decides the order by `Before`/`After`/`Compare` on the `time.Time`\nvalues returned by `ScheduledTime()` (not on integers derived from them), and a heap entry holds exactly\n`value` and `index`. -/\ndef heapLessShape : String := %q\ndef queueItemFields : List String := [\"value\", \"index\"]\n\n", lessShape)
	o.WriteString("/-- `verifhook.Point` call sites in source order. -/\ndef hookSites : List String := [\n")
	for i, h := range hooks {
		sep := ","
		if i == len(hooks)-1 {
			sep = ""
		}
		fmt.Fprintf(&o, "  %q%s\n", h, sep)
	}
	o.WriteString("]\n\nend Kit.Generated.C06\n")
	if *out == "" {
		fmt.Print(o.String())
		return
	}
	if err := os.WriteFile(*out, []byte(o.String()), 0o644); err != nil {
		die("%v", err)
	}
}
