package main

import (
	"time"

	"verifharness/lib"
)

// firstCallOrders lists every order of the first calls {run, reply, g×a, y×b} with reply after run
// (identical consumers are not distinguished).
func firstCallOrders(a, b int) [][]string {
	var out [][]string
	var rec func(cur []string, run, rep bool, g, y int)
	rec = func(cur []string, run, rep bool, g, y int) {
		if run && rep && g == 0 && y == 0 {
			out = append(out, append([]string(nil), cur...))
			return
		}
		if !run {
			rec(append(cur, "run"), true, rep, g, y)
		}
		if run && !rep {
			rec(append(cur, "reply"), run, true, g, y)
		}
		if g > 0 {
			rec(append(cur, "g"), run, rep, g-1, y)
		}
		if y > 0 {
			rec(append(cur, "y"), run, rep, g, y-1)
		}
	}
	rec(nil, false, false, a, b)
	return out
}

func buildOrder(order []string, reply string, park bool) RScenario {
	return buildOrderH(order, reply, park, false)
}

// buildOrderH: with holdRun, Run is held at spiffe.run.afterCloseReady and released at the end.
func buildOrderH(order []string, reply string, park, holdRun bool) RScenario {
	var sc RScenario
	n := 0
	var parked []int
	for _, o := range order {
		switch o {
		case "run":
			if holdRun {
				sc.Ops = append(sc.Ops, ROp{Op: "runp"})
			} else {
				sc.Ops = append(sc.Ops, ROp{Op: "run"})
			}
		case "reply":
			sc.Ops = append(sc.Ops, ROp{Op: reply})
		case "g":
			if park {
				sc.Ops = append(sc.Ops, ROp{Op: "getp"})
				parked = append(parked, n)
			} else {
				sc.Ops = append(sc.Ops, ROp{Op: "get"})
			}
			n++
		case "y":
			sc.Ops = append(sc.Ops, ROp{Op: "ready"})
			n++
		}
	}
	if holdRun {
		sc.Ops = append(sc.Ops, ROp{Op: "q"}, ROp{Op: "rrel"})
	}
	if park {
		sc.Ops = append(sc.Ops, ROp{Op: "q"})
		for _, i := range parked {
			sc.Ops = append(sc.Ops, ROp{Op: "rel", I: i})
		}
	}
	return sc
}

func ops(s ...string) RScenario {
	var sc RScenario
	for _, w := range s {
		op := ROp{Op: w}
		for _, p := range []string{"cancel", "rel"} {
			if len(w) > len(p) && w[:len(p)] == p {
				op = ROp{Op: p, I: int(w[len(p)] - '0')}
			}
		}
		sc.Ops = append(sc.Ops, op)
	}
	return sc
}

func specialReady() []RScenario {
	return []RScenario{
		ops("get", "ready", "q"),              // Run never called: the calls legitimately wait
		ops("run", "get", "ready", "q"),       // issuer has not answered yet
		ops("get", "run", "ready", "q", "ok"), // the schedule that deadlocked before the repair
		ops("getp", "run", "q", "rel0", "ok"), //   … with the reader held at the hook (old code) / not reaching it (new code)
		ops("getp", "get", "run", "ready", "fail"),
		ops("readyc", "cancel0", "run", "ok"),
		ops("readyc", "run", "cancel0", "ok"),
		ops("readyc", "run", "ok", "cancel0"),
		ops("run", "run2", "ok"),
		ops("run", "ok", "run2"),
		ops("run", "fail", "get", "ready"),
		// rotation swaps while a reader holds the read lock: the pending writer blocks new readers
		ops("run", "ok", "getp", "step", "ok", "get", "q", "rel0"),
		ops("run", "ok", "getp", "getp", "step", "ok", "get", "ready", "q", "rel0", "q", "rel1"),
		ops("run", "ok", "getp", "step", "fail", "get", "q", "rel0"),
		ops("run", "ok", "step", "getp", "get", "q", "ok", "q", "rel0", "get"),
		ops("get", "run", "ok", "step", "ok", "get", "step", "ok", "get"),
		// Run held between close(readyCh) and Unlock: Ready returns, readers wait for the lock
		ops("get", "ready", "runp", "ok", "get", "q", "rrel"),
		ops("runp", "fail", "get", "ready", "q", "rrel"),
		ops("getp", "runp", "ok", "ready", "q", "rrel", "q", "rel0"),
		ops("runp", "get", "ok", "q", "run2", "rrel", "get"),
	}
}

func randomReady(r *lib.Rand) RScenario {
	var sc RScenario
	n := r.Range(3, 9)
	run, outstanding, inited := false, false, false
	ncons := 0
	var parked, ctxs []int
	for i := 0; i < n; i++ {
		k := r.Intn(10)
		if ncons >= 5 && k >= 1 && k <= 5 {
			k = 9 // at most five consumer calls per scenario (the model's state set is 5^width)
		}
		switch k {
		case 0:
			if !run {
				sc.Ops = append(sc.Ops, ROp{Op: "run"})
				run, outstanding = true, true
			}
		case 1, 2:
			sc.Ops = append(sc.Ops, ROp{Op: "get"})
			ncons++
		case 3:
			sc.Ops = append(sc.Ops, ROp{Op: "getp"})
			parked = append(parked, ncons)
			ncons++
		case 4:
			sc.Ops = append(sc.Ops, ROp{Op: "ready"})
			ncons++
		case 5:
			sc.Ops = append(sc.Ops, ROp{Op: "readyc"})
			ctxs = append(ctxs, ncons)
			ncons++
		case 6:
			if outstanding {
				k := "ok"
				if r.Intn(3) == 0 {
					k = "fail"
				}
				sc.Ops = append(sc.Ops, ROp{Op: k})
				outstanding = false
				if !inited {
					inited = true
					if k == "fail" {
						run = true // Run returned; no more requests
					}
				}
			} else if !run {
				sc.Ops = append(sc.Ops, ROp{Op: "run"})
				run, outstanding = true, true
			}
		case 7:
			if len(parked) > 0 {
				j := r.Intn(len(parked))
				sc.Ops = append(sc.Ops, ROp{Op: "rel", I: parked[j]})
				parked = append(parked[:j], parked[j+1:]...)
			}
		case 8:
			if len(ctxs) > 0 {
				j := r.Intn(len(ctxs))
				sc.Ops = append(sc.Ops, ROp{Op: "cancel", I: ctxs[j]})
				ctxs = append(ctxs[:j], ctxs[j+1:]...)
			}
		case 9:
			sc.Ops = append(sc.Ops, ROp{Op: "q"})
		}
	}
	if !run {
		sc.Ops = append(sc.Ops, ROp{Op: "run"})
		outstanding = true
	}
	if outstanding {
		sc.Ops = append(sc.Ops, ROp{Op: "ok"})
	}
	for _, i := range parked {
		sc.Ops = append(sc.Ops, ROp{Op: "rel", I: i})
	}
	return sc
}

const (
	sec = int64(time.Second)
	mnt = int64(time.Minute)
	hr  = int64(time.Hour)
	day = 24 * hr
)

func okItem(a, b int64) Item { return Item{Kind: kOK, A: a, B: b} }

func steps(ds ...int64) []NStep {
	var s []NStep
	for _, d := range ds {
		s = append(s, NStep{D: d})
	}
	return s
}

func wakes(n int) []NStep {
	s := make([]NStep, n)
	for i := range s {
		s[i] = NStep{W: true}
	}
	return s
}

func fixedRenew() []NScenario {
	year := 365 * day
	return []NScenario{
		// the two windows of the package's own tests, and the boundaries around half-life
		{Script: []Item{okItem(0, hr), okItem(0, hr)}, Steps: steps(30*mnt-sec, sec, sec)},
		{Script: []Item{okItem(0, hr), {Kind: kFail}, {Kind: kFail}, okItem(0, hr)}, Steps: steps(30*mnt, 5*sec, 5*sec, 1, 10*sec, 29*mnt)},
		{Dir: true, Script: []Item{okItem(-mnt, hr), okItem(-mnt, hr), okItem(-mnt, hr)}, Steps: []NStep{{D: 29 * mnt}, {D: 30 * sec}, {Anch: 7}, {D: 31 * mnt}}},
		// already past half-life when issued: renewed at once, as long as the issuer keeps doing it
		{Dir: true, Script: []Item{okItem(-hr, mnt), okItem(-hr, 10*sec), okItem(-2*sec, 2*sec), okItem(0, hr)}, Steps: steps(sec, 10*mnt, 30*mnt)},
		// not yet valid
		{Script: []Item{okItem(hr, 3*hr), okItem(0, hr)}, Steps: steps(hr, 59*mnt, mnt, mnt)},
		// seconds … years
		{Script: []Item{okItem(0, 2*sec), okItem(0, 4*sec), okItem(0, 10*year)}, Steps: steps(sec, sec, sec, sec, 6*hr, 5*year, mnt)},
		{Script: []Item{okItem(0, year), okItem(0, year)}, Steps: steps(100*day, 82*day, 12*hr, 6*hr, 6*hr)},
		// failures only; retries exactly every 10 s and with coarse steps
		{Script: []Item{okItem(0, 20*sec), {Kind: kFail}, {Kind: kFail}, {Kind: kFail}, {Kind: kEmpty}, {Kind: kNoID}}, Steps: steps(10*sec, 10*sec, 10*sec, 9*sec, sec, hr, 3*sec, 7*sec)},
		// initial failure
		{Script: []Item{{Kind: kFail}, okItem(0, hr)}, Steps: steps(hr)},
		{Dir: true, Script: []Item{{Kind: kAnchorErr, A: 0, B: hr}}, Steps: steps(hr)},
		// trust anchors fail during a renewal: nothing published, SVID kept
		{Dir: true, Script: []Item{okItem(0, hr), {Kind: kAnchorErr, A: 0, B: hr}, okItem(0, hr)}, Steps: []NStep{{D: 30 * mnt}, {Anch: 2}, {D: 10 * sec}}},
		{Dir: false, Script: []Item{okItem(0, hr), {Kind: kAnchorErr, A: 0, B: hr}, okItem(0, hr)}, Steps: steps(30*mnt, 10*sec, 30*mnt)},
		// the clock advanced exactly to every armed deadline (δ = 0): renewal stamped exactly at half-life
		{Script: []Item{okItem(0, 100*sec), okItem(0, 10*mnt), okItem(0, 10*mnt)}, Steps: wakes(9)},
		{Dir: true, Script: []Item{okItem(-mnt, 5*mnt), {Kind: kFail}, {Kind: kFail}, okItem(0, 3*mnt), okItem(hr, 2*hr)}, Steps: wakes(12)},
		{Script: []Item{okItem(0, 2*hr), okItem(0, hr)}, Steps: wakes(64)},
		// dir.Write fails during a renewal (and as the very first fetch): nothing published, SVID kept, retried
		{Dir: true, Script: []Item{okItem(0, hr), {Kind: kWriteErr, A: 0, B: hr}, {Kind: kWriteErr, A: 0, B: hr}, okItem(0, hr)}, Steps: steps(30*mnt, 10*sec, 5*sec, 5*sec, 31*mnt)},
		{Dir: true, Script: []Item{{Kind: kWriteErr, A: 0, B: hr}}, Steps: steps(hr)},
		{Dir: false, Script: []Item{okItem(0, hr), {Kind: kWriteErr, A: 0, B: hr}}, Steps: steps(30*mnt, 30*mnt)},
		// a fetch takes time: the issuer holds each request while the clock advances; GetX509SVID is called
		// at every step (it must return the current SVID at once); answers arrive seconds … hours later
		{Hold: true, Script: []Item{okItem(0, hr), okItem(0, hr), okItem(0, hr)},
			Steps: []NStep{{Ans: true}, {D: 30 * mnt}, {D: 5 * sec}, {D: 20 * sec}, {Ans: true}, {D: 29 * mnt}, {D: 2 * mnt}, {D: hr}, {Ans: true}, {D: mnt}}},
		// … a failure answered late: the retry is due 10 s after the ANSWER
		{Hold: true, Dir: true, Script: []Item{okItem(0, hr), {Kind: kFail}, {Kind: kFail}, okItem(0, hr)},
			Steps: []NStep{{Ans: true}, {D: 30 * mnt}, {D: 7 * sec}, {Ans: true}, {D: 9 * sec}, {D: sec}, {D: 3 * sec}, {Anch: 5}, {Ans: true}, {D: 10 * sec}, {Ans: true}, {D: mnt}}},
		// … an answer that arrives after the new certificate's own half-life: renewed again at once
		{Hold: true, Script: []Item{okItem(0, 2*mnt), okItem(-10*mnt, 2*mnt), okItem(0, hr)},
			Steps: []NStep{{Ans: true}, {W: true}, {D: 3 * hr}, {Ans: true}, {D: sec}, {Ans: true}, {D: 29 * mnt}}},
		// … the initial request is never answered / answered late
		{Hold: true, Script: []Item{okItem(0, hr)}, Steps: []NStep{{D: sec}, {D: hr}, {D: 6 * hr}}},
		{Hold: true, Dir: true, Script: []Item{okItem(0, hr), okItem(0, hr)}, Steps: []NStep{{D: 40 * mnt}, {Ans: true}, {D: sec}, {Ans: true}}},
		// sub-second clock steps
		{Script: []Item{okItem(0, 3*sec), okItem(0, 3*sec)}, Steps: steps(700*int64(time.Millisecond), 700*int64(time.Millisecond), 700*int64(time.Millisecond), 700*int64(time.Millisecond))},
	}
}

// smallScopeRenew: every script over {short, past-half-life, fail, fail with an error wrapping
// context.DeadlineExceeded} and every step sequence over
// {5 s, 10 s, 60 s, 1 h} up to the given length.
func smallScopeRenew(depth int) []NScenario {
	items := []Item{okItem(0, 20*sec), okItem(-hr, mnt), {Kind: kFail}, {Kind: kFail, Err: "wrap-deadline"}}
	ds := []int64{5 * sec, 10 * sec, 60 * sec, hr}
	var scripts [][]Item
	var recS func(cur []Item)
	recS = func(cur []Item) {
		if len(cur) > 0 {
			scripts = append(scripts, append([]Item(nil), cur...))
		}
		if len(cur) == depth {
			return
		}
		for _, it := range items {
			recS(append(cur, it))
		}
	}
	recS(nil)
	var seqs [][]NStep
	var recD func(cur []NStep)
	recD = func(cur []NStep) {
		if len(cur) > 0 {
			seqs = append(seqs, append([]NStep(nil), cur...))
		}
		if len(cur) == depth {
			return
		}
		for _, d := range ds {
			recD(append(cur, NStep{D: d}))
		}
		recD(append(cur, NStep{W: true}))
	}
	recD(nil)
	var out []NScenario
	for i, s := range scripts {
		for j, q := range seqs {
			out = append(out, NScenario{Dir: (i+j)%3 == 0, Script: append([]Item{okItem(0, 20*sec)}, s...), Steps: q})
		}
	}
	return out
}

func failItem(kind string) Item {
	if kind == "plain" {
		kind = ""
	}
	return Item{Kind: kFail, Err: kind}
}

// errKindRenew: issuer errors of EVERY kind (errkinds.go) at every renewal index, while the context
// given to Run stays alive.  Per kind k:
//
//	A. p good fetches (20 s certificates, renewed at their half-life), then m consecutive failures of kind
//	   k, then successes; the clock is advanced exactly to every armed deadline (δ = 0), so each retry
//	   must be stamped exactly 10 s after the failure and the new SVID must be served after the success;
//	B. 1 h certificate, coarse steps (5 s, 5 s, 10 s, 3 s, 7 s …): k, plain, k, then success; write dir on
//	   every second kind;
//	C. a fetch takes time (Hold): the failing answer arrives 7 s after the request, the retry is due 10 s
//	   after the ANSWER; GetX509SVID is called at every step;
//	D. the INITIAL fetch fails with kind k: Run must return an error, nothing is served, no further request;
//	E. with a write dir, the TRUST-ANCHOR source fails with kind k during a renewal (the fetch fails after
//	   the issuer answered): retried 10 s later, nothing published, SVID kept;
//
// plus F. every kind one after another in one script (both orders), and G. kinds alternating with
// successes.  maxP / maxM bound the renewal index and the number of consecutive failures.
func errKindRenew(maxP, maxM int) []NScenario {
	var out []NScenario
	short := func() Item { return okItem(0, 20*sec) }
	for ki, k := range errKinds {
		for p := 1; p <= maxP; p++ {
			for m := 1; m <= maxM; m++ {
				var script []Item
				for i := 0; i < p; i++ {
					script = append(script, short())
				}
				for i := 0; i < m; i++ {
					script = append(script, failItem(k.Name))
				}
				script = append(script, short(), short())
				out = append(out, NScenario{Dir: (ki+p+m)%4 == 0, Script: script, Steps: wakes(p + m + 3)})
			}
		}
		// B
		out = append(out, NScenario{Dir: ki%2 == 0, Anch: 1,
			Script: []Item{okItem(0, hr), failItem(k.Name), failItem("plain"), failItem(k.Name), okItem(0, hr), okItem(0, hr)},
			Steps:  steps(30*mnt, 5*sec, 5*sec, 10*sec, 3*sec, 7*sec, sec, 29*mnt, mnt, 10*sec)})
		// C
		out = append(out, NScenario{Hold: true, Dir: ki%3 == 0,
			Script: []Item{okItem(0, hr), failItem(k.Name), failItem(k.Name), okItem(0, hr)},
			Steps: []NStep{{Ans: true}, {D: 30 * mnt}, {D: 7 * sec}, {Ans: true}, {D: 9 * sec}, {D: sec}, {D: 2 * sec}, {Ans: true},
				{D: 10 * sec}, {D: 5 * sec}, {Ans: true}, {D: mnt}, {D: 30 * mnt}}})
		// D
		out = append(out, NScenario{Script: []Item{failItem(k.Name), okItem(0, hr)}, Steps: steps(10*sec, hr)})
		// E
		out = append(out, NScenario{Dir: true, Anch: 2,
			Script: []Item{short(), {Kind: kAnchorErr, A: 0, B: 20 * sec, Err: k.Name}, short(), short()}, Steps: wakes(5)})
	}
	// F
	var all, rev []Item
	all = append(all, short())
	rev = append(rev, short())
	for i := range errKinds {
		all = append(all, failItem(errKinds[i].Name))
		rev = append(rev, failItem(errKinds[len(errKinds)-1-i].Name))
	}
	all = append(all, short(), short())
	rev = append(rev, short(), short())
	out = append(out, NScenario{Script: all, Steps: wakes(len(all) + 2)}, NScenario{Dir: true, Script: rev, Steps: wakes(len(rev) + 2)})
	// G
	var alt []Item
	alt = append(alt, short())
	for i := range errKinds {
		alt = append(alt, failItem(errKinds[i].Name), short())
	}
	var tenS []NStep
	for i := 0; i < 2*len(alt)+2; i++ {
		tenS = append(tenS, NStep{D: 10 * sec})
	}
	out = append(out, NScenario{Script: alt, Steps: wakes(len(alt) + 2)}, NScenario{Script: alt, Steps: tenS})
	return out
}

var lifetimes = []int64{2 * sec, 10 * sec, 90 * sec, 10 * mnt, hr, day, 30 * day, 365 * day, 3650 * day}
var stepSizes = []int64{sec, 3 * sec, 5 * sec, 10 * sec, 11 * sec, 30 * sec, 59 * sec, 60 * sec, 61 * sec, 5 * mnt, hr, 6 * hr,
	1500 * int64(time.Millisecond), 250 * int64(time.Millisecond)}

func randomRenew(r *lib.Rand) NScenario {
	sc := NScenario{Dir: r.Intn(3) == 0, Anch: r.Intn(3)}
	n := r.Range(1, 8)
	var firstLife int64
	for i := 0; i < n; i++ {
		k := r.Intn(20)
		switch {
		case k < 12 || i == 0 && k < 18:
			life := lifetimes[r.Intn(len(lifetimes))]
			if r.Intn(3) == 0 {
				life = lifetimes[r.Intn(4)] // favour short ones: more renewals per scenario
			}
			var a int64
			switch r.Intn(6) {
			case 0: // already past half-life
				a = -(life/2 + int64(r.Intn(int(life/2/sec)+1))*sec)
			case 1: // not yet valid
				a = []int64{sec, 10 * sec, hr}[r.Intn(3)]
			case 2:
				a = -mnt
			}
			if firstLife == 0 {
				firstLife = life
			}
			sc.Script = append(sc.Script, okItem(a, a+life))
		case k < 16:
			// an issuer error of a random kind (half of them plain)
			it := Item{Kind: kFail}
			if r.Bool() {
				it = failItem(errKinds[r.Intn(len(errKinds))].Name)
			}
			sc.Script = append(sc.Script, it)
		case k < 17:
			kind := kAnchorErr
			if r.Bool() {
				kind = kWriteErr
			}
			it := Item{Kind: kind, A: 0, B: lifetimes[r.Intn(len(lifetimes))]}
			if kind == kAnchorErr && r.Bool() {
				it.Err = errKinds[r.Intn(len(errKinds))].Name
			}
			sc.Script = append(sc.Script, it)
		case k < 18:
			sc.Script = append(sc.Script, Item{Kind: kEmpty})
		default:
			sc.Script = append(sc.Script, Item{Kind: kNoID, A: 0, B: hr})
		}
	}
	if r.Intn(6) == 0 { // δ = 0: only exact wakes
		sc.Steps = wakes(r.Range(5, 40))
		return sc
	}
	sc.Hold = r.Intn(3) == 0 // a fetch takes time: answers only at explicit Ans steps
	m := r.Range(3, 14)
	for i := 0; i < m; i++ {
		if sc.Hold && (i == 0 || r.Intn(3) == 0) {
			sc.Steps = append(sc.Steps, NStep{Ans: true})
		}
		switch k := r.Intn(12); {
		case k == 0:
			sc.Steps = append(sc.Steps, NStep{Anch: r.Range(1, 9)})
		case k <= 2 && firstLife > 0:
			// aim at the half-life of a lifetime in play
			d := firstLife/2 + []int64{-sec, 0, sec, 30 * sec}[r.Intn(4)]
			if d <= 0 {
				d = sec
			}
			sc.Steps = append(sc.Steps, NStep{D: d})
		case k == 3:
			sc.Steps = append(sc.Steps, NStep{D: lifetimes[r.Intn(len(lifetimes)-2)]})
		case k == 4 || k == 5:
			sc.Steps = append(sc.Steps, NStep{W: true})
		default:
			sc.Steps = append(sc.Steps, NStep{D: stepSizes[r.Intn(len(stepSizes))]})
		}
	}
	return sc
}

// ---- trust-anchor source (trustanchors.FromFile)

// taFirstCallOrders: every order of the first calls {run, file, bundle×a, anchors×b, watch×c}.
func taFirstCallOrders(a, b, c int) [][]string {
	var out [][]string
	var rec func(cur []string, run, file bool, a, b, c int)
	rec = func(cur []string, run, file bool, a, b, c int) {
		if run && file && a == 0 && b == 0 && c == 0 {
			out = append(out, append([]string(nil), cur...))
			return
		}
		if !run {
			rec(append(cur, "run"), true, file, a, b, c)
		}
		if !file {
			rec(append(cur, "file"), run, true, a, b, c)
		}
		if a > 0 {
			rec(append(cur, "bundle"), run, file, a-1, b, c)
		}
		if b > 0 {
			rec(append(cur, "anchors"), run, file, a, b-1, c)
		}
		if c > 0 {
			rec(append(cur, "watch"), run, file, a, b, c-1)
		}
	}
	rec(nil, false, false, a, b, c)
	return out
}

// taBuild: the first calls in the given order (first file version 1, or garbage), then — if the
// source came up — an update, a reader, the end of Run, a reader after the end.
func taBuild(order []string, good bool) TScenario {
	var sc TScenario
	for _, o := range order {
		if o == "file" {
			v := 1
			if !good {
				v = 0
			}
			sc.Ops = append(sc.Ops, TOp{Op: "file", V: v})
		} else {
			sc.Ops = append(sc.Ops, TOp{Op: o})
		}
	}
	sc.Ops = append(sc.Ops, TOp{Op: "q"})
	if good {
		sc.Ops = append(sc.Ops, TOp{Op: "file", V: 2}, TOp{Op: "bundle"}, TOp{Op: "q"})
	}
	sc.Ops = append(sc.Ops, TOp{Op: "stop"}, TOp{Op: "anchors"}, TOp{Op: "bundle"})
	return sc
}

func tops(s ...string) TScenario {
	var sc TScenario
	for _, w := range s {
		switch {
		case len(w) == 5 && w[:4] == "file":
			sc.Ops = append(sc.Ops, TOp{Op: "file", V: int(w[4] - '0')})
		case len(w) == 7 && w[:6] == "cancel":
			sc.Ops = append(sc.Ops, TOp{Op: "cancel", I: int(w[6] - '0')})
		default:
			sc.Ops = append(sc.Ops, TOp{Op: w})
		}
	}
	return sc
}

func specialTA() []TScenario {
	return []TScenario{
		tops("bundle", "anchors", "q"),                // Run never called: the calls legitimately wait
		tops("bundle", "anchorsc", "cancel1", "q"),    // … only the ctx ends one of them
		tops("run", "bundle", "anchors", "q", "stop"), // file never appears: Run ends with an error, closeCh releases the readers
		tops("run", "bundle", "q", "file1", "q", "file2", "q", "file3", "bundle", "q"),
		tops("file1", "run", "watch", "watch", "bundle", "q", "file2", "q", "anchors", "file0", "q", "bundle", "anchors"),
		tops("watch", "bundle", "run", "file0", "q", "anchors"), // garbage as first content: Run returns an error
		tops("file1", "run", "q", "stop", "bundle", "anchors", "bundle", "anchors"),
		tops("file1", "run", "anchorsc", "q", "cancel0", "stop"),
	}
}

func randomTA(r *lib.Rand) TScenario {
	var sc TScenario
	n := r.Range(4, 10)
	run, stopped := false, false
	ncons := 0
	var ctxs []int
	ver := 0
	for i := 0; i < n; i++ {
		k := r.Intn(9)
		if ncons >= 5 && k >= 1 && k <= 5 {
			k = 6
		}
		switch k {
		case 0:
			if !run && !stopped {
				sc.Ops = append(sc.Ops, TOp{Op: "run"})
				run = true
			}
		case 1, 2:
			sc.Ops = append(sc.Ops, TOp{Op: "bundle"})
			ncons++
		case 3:
			sc.Ops = append(sc.Ops, TOp{Op: "anchors"})
			ncons++
		case 4:
			sc.Ops = append(sc.Ops, TOp{Op: "anchorsc"})
			ctxs = append(ctxs, ncons)
			ncons++
		case 5:
			sc.Ops = append(sc.Ops, TOp{Op: "watch"})
			ncons++
		case 6:
			if r.Intn(6) == 0 {
				sc.Ops = append(sc.Ops, TOp{Op: "q"}, TOp{Op: "file", V: 0}, TOp{Op: "q"})
			} else if ver < 3 {
				ver++
				sc.Ops = append(sc.Ops, TOp{Op: "q"}, TOp{Op: "file", V: ver}, TOp{Op: "q"})
			}
		case 7:
			if len(ctxs) > 0 {
				j := r.Intn(len(ctxs))
				sc.Ops = append(sc.Ops, TOp{Op: "cancel", I: ctxs[j]})
				ctxs = append(ctxs[:j], ctxs[j+1:]...)
			}
		case 8:
			if run && !stopped && r.Intn(3) == 0 {
				sc.Ops = append(sc.Ops, TOp{Op: "q"}, TOp{Op: "stop"})
				stopped = true
			}
		}
	}
	if !run && !stopped {
		sc.Ops = append(sc.Ops, TOp{Op: "run"})
	}
	return sc
}
