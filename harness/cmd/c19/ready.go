package main

import (
	"context"
	"fmt"
	"io"
	"runtime"
	"sort"
	"strconv"
	"strings"
	"sync"
	"time"

	"github.com/dapr/kit/crypto/spiffe"
	spiffectx "github.com/dapr/kit/crypto/spiffe/context"
	"github.com/dapr/kit/logger"
	"github.com/dapr/kit/verifhook"
)

// ROp is one operation of a readiness scenario (first calls from different goroutines).
//
//	run     call Run in a new goroutine (the fake issuer holds the request until "ok"/"fail")
//	runp    same, but Run parks at hook spiffe.run.afterCloseReady (readyCh closed, write lock still
//	        held) until "rrel"
//	get     call GetX509SVID in a new goroutine             (consumer index = order of get/getp/ready/readyc)
//	getp    same, but the goroutine parks at hook spiffe.svid.afterRLock until "rel"
//	ready   call Ready(ctx) in a new goroutine; readyc: its ctx can be cancelled with "cancel"
//	cancel  cancel the ctx of consumer I
//	rel     release consumer I from the hook
//	ok/fail answer the outstanding issuer request (success with a long-lived cert / failure).  In a
//	        readiness scenario the issuer keeps a request parked until one of these ops, also when the
//	        ctx of the fetch (= Run's ctx) is done meanwhile.  E names the error VALUE of a failure
//	        (errkinds.go; "own-ctx" / "own-ctx-wrapped" / "own-ctx-cause" = the Err() of the fetch ctx
//	        itself, as returned by an issuer client that honours its ctx).  X: Run's ctx is ended INSIDE
//	        the issuer callback, immediately before it returns (the answer coincides with the shutdown);
//	        S = how ("" cancelled, "deadline" = its deadline passed)
//	stoprun Run's ctx ends now (S as above): before Run is called, while the request is in flight, after
//	        the issuer returned, while Run is held at the hook, after Run returned
//	step    advance the fake clock past the half-life of the served cert (rotation issues a request)
//	run2    call Run a second time
//	q       settle and report which calls are pending
type ROp struct {
	Op string `json:"op"`
	I  int    `json:"i,omitempty"`
	E  string `json:"e,omitempty"`
	X  bool   `json:"x,omitempty"`
	S  string `json:"s,omitempty"`
}

// hctx is the context handed to Run in scenarios whose Run ctx ends by a passed deadline: done when the
// harness says so, with the error the harness says (scenarios that only cancel use context.WithCancel).
type hctx struct {
	context.Context
	done chan struct{}
	mu   sync.Mutex
	err  error
}

func newHctx() *hctx { return &hctx{Context: context.Background(), done: make(chan struct{})} }

func (c *hctx) Done() <-chan struct{} { return c.done }
func (c *hctx) Err() error {
	c.mu.Lock()
	defer c.mu.Unlock()
	return c.err
}
func (c *hctx) finish(err error) {
	c.mu.Lock()
	if c.err == nil {
		c.err = err
		close(c.done)
	}
	c.mu.Unlock()
}

// endsRunCtx: the op ends Run's ctx (stoprun, or an answer with X).
func (o ROp) endsRunCtx() bool {
	return o.Op == "stoprun" || ((o.Op == "ok" || o.Op == "fail") && o.X)
}

type RScenario struct {
	Ops []ROp `json:"ops"`
}

func (s RScenario) String() string {
	var b []string
	for _, o := range s.Ops {
		if o.Op == "cancel" || o.Op == "rel" {
			b = append(b, o.Op+strconv.Itoa(o.I))
		} else {
			w := o.Op
			if o.E != "" {
				w += "[" + o.E + "]"
			}
			if o.X {
				w += "+stoprun-inside-issuer"
			}
			if o.S != "" {
				w += "(" + o.S + ")"
			}
			b = append(b, w)
		}
	}
	return strings.Join(b, " ")
}

type rOutcome struct {
	Events     []string       `json:"events"`
	Rets       map[int]string `json:"rets"`
	Kinds      []string       `json:"kinds"` // kind of each consumer
	Pending    []int          `json:"pending"`
	RunPending bool           `json:"run_pending"`
	RunRet     string         `json:"run_ret"`
	Run2Ret    string         `json:"run2_ret"`
	// CalledBeforeRun: consumers whose call was made before Run was called.
	BeforeRun []int  `json:"before_run"`
	NoRequest bool   `json:"no_request"` // an ok/fail op found no outstanding issuer request by the deadline
	// RunCtxEnded: Run's ctx was ended by the scenario (not by the clean-up)
	RunCtxEnded bool `json:"run_ctx_ended,omitempty"`
	Panic     string `json:"panic,omitempty"`
}

var quietLog = func() logger.Logger {
	l := logger.NewLogger("c19")
	l.SetOutput(io.Discard)
	l.SetOutputLevel(logger.FatalLevel)
	return l
}()

func goid() int64 {
	var buf [64]byte
	n := runtime.Stack(buf[:], false)
	f := strings.Fields(string(buf[:n]))
	if len(f) < 2 {
		return -1
	}
	id, _ := strconv.ParseInt(f[1], 10, 64)
	return id
}

var T0 = time.Unix(1_700_000_000, 0).UTC()

// runReady executes one readiness scenario against the real package.
func runReady(sc RScenario, ca *fakeCA, settle, deadline time.Duration) rOutcome {
	// `out` is written by the goroutines of the scenario; the value returned is a snapshot taken
	// before the clean-up (an unnamed result: deferred functions and late goroutines cannot alter it)
	var out rOutcome
	out.Rets = map[int]string{}
	var mu sync.Mutex
	ev := func(s string) {
		mu.Lock()
		out.Events = append(out.Events, s)
		mu.Unlock()
	}
	clk := newVClock(T0)
	is := &issuer{ca: ca, clk: clk, gate: make(chan Item), reqCh: make(chan int, 64), ignoreCtx: true, quit: make(chan struct{})}
	is.onReq = func(idx int) { ev("req:" + strconv.Itoa(idx)) }
	s := spiffe.New(spiffe.Options{Log: quietLog, RequestSVIDFn: is.fn})
	spiffe.VerifSetClock(s, clk)
	src, _ := spiffectx.From(spiffectx.With(context.Background(), s))

	var parkIdx sync.Map // goid -> consumer index
	relCh := map[int]chan struct{}{}
	var runHold chan struct{} // non-nil: Run stops at spiffe.run.afterCloseReady until it is closed
	runReleased := false
	verifhook.Set(func(name string, _ ...any) {
		if name == "spiffe.run.afterCloseReady" {
			mu.Lock()
			ch := runHold
			mu.Unlock()
			if ch == nil {
				return
			}
			select {
			case <-ch:
				return
			default:
			}
			ev("rpark")
			<-ch
			return
		}
		if name != "spiffe.svid.afterRLock" {
			return
		}
		v, ok := parkIdx.Load(goid())
		if !ok {
			return
		}
		i := v.(int)
		mu.Lock()
		ch := relCh[i]
		mu.Unlock()
		select {
		case <-ch: // already released: the hook does not stop the goroutine
			return
		default:
		}
		ev("park:" + strconv.Itoa(i))
		<-ch
	})
	defer verifhook.Set(nil)

	// Run's ctx: context.WithCancel, or (scenarios in which it ends by a deadline) a ctx whose Err() is
	// context.DeadlineExceeded once the harness ends it
	var runCtx context.Context
	var endRun func(how string)
	{
		byDeadline := false
		for _, op := range sc.Ops {
			if op.endsRunCtx() && op.S == "deadline" {
				byDeadline = true
			}
		}
		if byDeadline {
			h := newHctx()
			runCtx = h
			endRun = func(how string) {
				if how == "deadline" {
					h.finish(context.DeadlineExceeded)
				} else {
					h.finish(context.Canceled)
				}
			}
		} else {
			c, cancel := context.WithCancel(context.Background())
			runCtx = c
			endRun = func(string) { cancel() }
		}
	}
	runCancel := func() { endRun("") }
	// stopRun: the scenario ends Run's ctx (event "sx" first: whatever the code does because of it
	// comes later in the trace)
	stopRun := func(how string) {
		mu.Lock()
		out.RunCtxEnded = true
		mu.Unlock()
		ev("sx")
		endRun(how)
	}
	is.beforeReturn = func(_ int, it Item) {
		if it.endRun != "" {
			stopRun(it.endRun)
		}
	}
	cancels := map[int]context.CancelFunc{}
	released := map[int]bool{}
	cancelled := map[int]bool{}
	runCalled := false
	runDone := make(chan struct{})
	ncons := 0
	var wg sync.WaitGroup
	doneSet := func() map[int]bool {
		mu.Lock()
		defer mu.Unlock()
		m := map[int]bool{}
		for i := range out.Rets {
			m[i] = true
		}
		return m
	}
	guard := func(what string, f func()) {
		defer func() {
			if r := recover(); r != nil {
				mu.Lock()
				out.Panic = fmt.Sprintf("%s: %v", what, r)
				mu.Unlock()
			}
		}()
		f()
	}
	pendingNow := func() []int {
		d := doneSet()
		var p []int
		for i := 0; i < ncons; i++ {
			if !d[i] {
				p = append(p, i)
			}
		}
		return p
	}
	// waitStable waits until the pending set has not changed for `settle`, at most `deadline`.
	waitStable := func(stopWhenEmpty bool) []int {
		dl := time.Now().Add(deadline)
		last := pendingNow()
		lastChange := time.Now()
		for time.Now().Before(dl) {
			if stopWhenEmpty && len(last) == 0 {
				return last
			}
			time.Sleep(500 * time.Microsecond)
			cur := pendingNow()
			if fmt.Sprint(cur) != fmt.Sprint(last) {
				last, lastChange = cur, time.Now()
			} else if !stopWhenEmpty && time.Since(lastChange) >= 10*settle {
				return last
			}
		}
		return last
	}

	for _, op := range sc.Ops {
		switch op.Op {
		case "rrel":
			mu.Lock()
			ch := runHold
			mu.Unlock()
			if ch != nil && !runReleased {
				runReleased = true
				ev("rrel")
				close(ch)
			}
		case "run", "runp":
			runCalled = true
			if op.Op == "runp" {
				mu.Lock()
				runHold = make(chan struct{})
				mu.Unlock()
				ev("crp")
			} else {
				ev("cr")
			}
			go guard("Run", func() {
				err := s.Run(runCtx)
				r := "nil"
				if err != nil {
					r = "err"
				}
				mu.Lock()
				out.RunRet = r
				mu.Unlock()
				ev("rret:" + r)
				close(runDone)
			})
		case "run2":
			ev("cr2")
			ch := make(chan string, 1)
			go guard("Run2", func() {
				err := s.Run(runCtx)
				if err != nil && strings.Contains(err.Error(), "already running") {
					ch <- "already"
				} else if err != nil {
					ch <- "err"
				} else {
					ch <- "nil"
				}
			})
			select {
			case r := <-ch:
				out.Run2Ret = r
			case <-time.After(deadline):
				out.Run2Ret = "pending"
			}
			ev("rret2:" + out.Run2Ret)
		case "get", "getp":
			i := ncons
			ncons++
			out.Kinds = append(out.Kinds, op.Op)
			if !runCalled {
				out.BeforeRun = append(out.BeforeRun, i)
			}
			park := op.Op == "getp"
			if park {
				mu.Lock()
				relCh[i] = make(chan struct{})
				mu.Unlock()
				ev("cgp")
			} else {
				ev("cg")
			}
			wg.Add(1)
			go guard("GetX509SVID", func() {
				defer wg.Done()
				if park {
					id := goid()
					parkIdx.Store(id, i)
					defer parkIdx.Delete(id)
				}
				svid, err := src.GetX509SVID()
				r := "e"
				if err == nil && svid != nil && len(svid.Certificates) > 0 {
					r = "s" + strconv.FormatInt(svid.Certificates[0].SerialNumber.Int64()-1000, 10)
				}
				mu.Lock()
				out.Rets[i] = r
				mu.Unlock()
				ev("ret:" + strconv.Itoa(i) + ":" + r)
			})
		case "ready", "readyc":
			i := ncons
			ncons++
			out.Kinds = append(out.Kinds, op.Op)
			if !runCalled {
				out.BeforeRun = append(out.BeforeRun, i)
			}
			ctx, c := context.WithCancel(context.Background())
			cancels[i] = c
			ev("cy")
			wg.Add(1)
			go guard("Ready", func() {
				defer wg.Done()
				err := s.Ready(ctx)
				r := "ok"
				if err != nil {
					r = "ctx"
				}
				mu.Lock()
				out.Rets[i] = r
				mu.Unlock()
				ev("ret:" + strconv.Itoa(i) + ":" + r)
			})
		case "cancel":
			if c := cancels[op.I]; c != nil {
				ev("cx:" + strconv.Itoa(op.I))
				cancelled[op.I] = true
				c()
			}
		case "rel":
			mu.Lock()
			ch := relCh[op.I]
			mu.Unlock()
			if ch != nil && !released[op.I] {
				released[op.I] = true
				ev("rel:" + strconv.Itoa(op.I))
				close(ch)
			}
		case "ok", "fail":
			select {
			case <-is.reqCh:
				ev("rep:" + map[string]string{"ok": "1", "fail": "0"}[op.Op])
				// gated certs are valid [-1 min, +1 h] from the moment of the answer
				it := Item{Kind: op.Op, A: -int64(time.Minute), B: int64(time.Hour), Err: op.E}
				if op.X {
					it.endRun = "cancel"
					if op.S != "" {
						it.endRun = op.S
					}
				}
				is.gate <- it
			case <-time.After(deadline):
				out.NoRequest = true
			}
		case "stoprun":
			how := "cancel"
			if op.S != "" {
				how = op.S
			}
			stopRun(how)
		case "step":
			clk.Step(45 * time.Minute) // gated certs are valid [-1 min, +1 h]: half-life at +29.5 min
		case "q":
			p := waitStable(false)
			ev("q:" + joinInts(p))
		}
		time.Sleep(settle)
	}
	// final: wait until every consumer returned, or the deadline
	p := waitStable(true)
	out.Pending = p
	// … and, where Run is about to return (the initial fetch failed, or the scenario ended Run's ctx),
	// until it has: the consumers are released by close(readyCh), BEFORE Run's Unlock and return, so on
	// a slow machine the snapshot could otherwise be taken between the two ("Run returned ''")
	{
		firstFail, seen := false, false
		for _, op := range sc.Ops {
			if (op.Op == "ok" || op.Op == "fail") && !seen {
				seen, firstFail = true, op.Op == "fail"
			}
		}
		mu.Lock()
		ended, noReq := out.RunCtxEnded, out.NoRequest
		mu.Unlock()
		if runCalled && !noReq && ((seen && firstFail) || ended) {
			select {
			case <-runDone:
			case <-time.After(deadline):
			}
		}
	}
	select {
	case <-runDone:
	default:
		out.RunPending = runCalled
	}
	ev("q:" + joinInts(p))

	mu.Lock()
	evs := append([]string(nil), out.Events...)
	rets := map[int]string{}
	for k, v := range out.Rets {
		rets[k] = v
	}
	snap := out
	snap.Events, snap.Rets = evs, rets
	snap.Kinds = append([]string(nil), out.Kinds...)
	snap.BeforeRun = append([]int(nil), out.BeforeRun...)
	snap.Pending = append([]int(nil), out.Pending...)
	sort.Ints(snap.Pending)
	mu.Unlock()

	// clean up what can be cleaned up (after the snapshot: calls that return only because of the
	// clean-up are not results of the scenario)
	runCancel()
	close(is.quit)
	mu.Lock()
	for i, ch := range relCh {
		if !released[i] {
			close(ch)
		}
	}
	if runHold != nil && !runReleased {
		close(runHold)
	}
	mu.Unlock()
	for _, c := range cancels {
		c()
	}
	return snap
}

func joinInts(p []int) string {
	s := make([]string, len(p))
	for i, v := range p {
		s[i] = strconv.Itoa(v)
	}
	return strings.Join(s, "+")
}
