package main

import (
	"context"
	"fmt"
	"io"
	"runtime"
	"sort"
	"strconv"
	"strings"
	"sync"
	"time"

	"github.com/dapr/kit/crypto/spiffe"
	spiffectx "github.com/dapr/kit/crypto/spiffe/context"
	"github.com/dapr/kit/logger"
	"github.com/dapr/kit/verifhook"
)

// ROp is one operation of a readiness scenario (first calls from different goroutines).
//
//	run     call Run in a new goroutine (the fake issuer holds the request until "ok"/"fail")
//	runp    same, but Run parks at hook spiffe.run.afterCloseReady (readyCh closed, write lock still
//	        held) until "rrel"
//	get     call GetX509SVID in a new goroutine             (consumer index = order of get/getp/ready/readyc)
//	getp    same, but the goroutine parks at hook spiffe.svid.afterRLock until "rel"
//	ready   call Ready(ctx) in a new goroutine; readyc: its ctx can be cancelled with "cancel"
//	cancel  cancel the ctx of consumer I
//	rel     release consumer I from the hook
//	ok/fail answer the outstanding issuer request (success with a long-lived cert / failure)
//	step    advance the fake clock past the half-life of the served cert (rotation issues a request)
//	run2    call Run a second time
//	q       settle and report which calls are pending
type ROp struct {
	Op string `json:"op"`
	I  int    `json:"i,omitempty"`
}

type RScenario struct {
	Ops []ROp `json:"ops"`
}

func (s RScenario) String() string {
	var b []string
	for _, o := range s.Ops {
		if o.Op == "cancel" || o.Op == "rel" {
			b = append(b, o.Op+strconv.Itoa(o.I))
		} else {
			b = append(b, o.Op)
		}
	}
	return strings.Join(b, " ")
}

type rOutcome struct {
	Events     []string       `json:"events"`
	Rets       map[int]string `json:"rets"`
	Kinds      []string       `json:"kinds"` // kind of each consumer
	Pending    []int          `json:"pending"`
	RunPending bool           `json:"run_pending"`
	RunRet     string         `json:"run_ret"`
	Run2Ret    string         `json:"run2_ret"`
	// CalledBeforeRun: consumers whose call was made before Run was called.
	BeforeRun []int  `json:"before_run"`
	NoRequest bool   `json:"no_request"` // an ok/fail op found no outstanding issuer request by the deadline
	Panic     string `json:"panic,omitempty"`
}

var quietLog = func() logger.Logger {
	l := logger.NewLogger("c19")
	l.SetOutput(io.Discard)
	l.SetOutputLevel(logger.FatalLevel)
	return l
}()

func goid() int64 {
	var buf [64]byte
	n := runtime.Stack(buf[:], false)
	f := strings.Fields(string(buf[:n]))
	if len(f) < 2 {
		return -1
	}
	id, _ := strconv.ParseInt(f[1], 10, 64)
	return id
}

var T0 = time.Unix(1_700_000_000, 0).UTC()

// runReady executes one readiness scenario against the real package.
func runReady(sc RScenario, ca *fakeCA, settle, deadline time.Duration) rOutcome {
	// `out` is written by the goroutines of the scenario; the value returned is a snapshot taken
	// before the clean-up (an unnamed result: deferred functions and late goroutines cannot alter it)
	var out rOutcome
	out.Rets = map[int]string{}
	var mu sync.Mutex
	ev := func(s string) {
		mu.Lock()
		out.Events = append(out.Events, s)
		mu.Unlock()
	}
	clk := newVClock(T0)
	is := &issuer{ca: ca, clk: clk, gate: make(chan Item), reqCh: make(chan int, 64)}
	is.onReq = func(idx int) { ev("req:" + strconv.Itoa(idx)) }
	s := spiffe.New(spiffe.Options{Log: quietLog, RequestSVIDFn: is.fn})
	spiffe.VerifSetClock(s, clk)
	src, _ := spiffectx.From(spiffectx.With(context.Background(), s))

	var parkIdx sync.Map // goid -> consumer index
	relCh := map[int]chan struct{}{}
	var runHold chan struct{} // non-nil: Run stops at spiffe.run.afterCloseReady until it is closed
	runReleased := false
	verifhook.Set(func(name string, _ ...any) {
		if name == "spiffe.run.afterCloseReady" {
			mu.Lock()
			ch := runHold
			mu.Unlock()
			if ch == nil {
				return
			}
			select {
			case <-ch:
				return
			default:
			}
			ev("rpark")
			<-ch
			return
		}
		if name != "spiffe.svid.afterRLock" {
			return
		}
		v, ok := parkIdx.Load(goid())
		if !ok {
			return
		}
		i := v.(int)
		mu.Lock()
		ch := relCh[i]
		mu.Unlock()
		select {
		case <-ch: // already released: the hook does not stop the goroutine
			return
		default:
		}
		ev("park:" + strconv.Itoa(i))
		<-ch
	})
	defer verifhook.Set(nil)

	runCtx, runCancel := context.WithCancel(context.Background())
	cancels := map[int]context.CancelFunc{}
	released := map[int]bool{}
	cancelled := map[int]bool{}
	runCalled := false
	runDone := make(chan struct{})
	ncons := 0
	var wg sync.WaitGroup
	doneSet := func() map[int]bool {
		mu.Lock()
		defer mu.Unlock()
		m := map[int]bool{}
		for i := range out.Rets {
			m[i] = true
		}
		return m
	}
	guard := func(what string, f func()) {
		defer func() {
			if r := recover(); r != nil {
				mu.Lock()
				out.Panic = fmt.Sprintf("%s: %v", what, r)
				mu.Unlock()
			}
		}()
		f()
	}
	pendingNow := func() []int {
		d := doneSet()
		var p []int
		for i := 0; i < ncons; i++ {
			if !d[i] {
				p = append(p, i)
			}
		}
		return p
	}
	// waitStable waits until the pending set has not changed for `settle`, at most `deadline`.
	waitStable := func(stopWhenEmpty bool) []int {
		dl := time.Now().Add(deadline)
		last := pendingNow()
		lastChange := time.Now()
		for time.Now().Before(dl) {
			if stopWhenEmpty && len(last) == 0 {
				return last
			}
			time.Sleep(500 * time.Microsecond)
			cur := pendingNow()
			if fmt.Sprint(cur) != fmt.Sprint(last) {
				last, lastChange = cur, time.Now()
			} else if !stopWhenEmpty && time.Since(lastChange) >= 10*settle {
				return last
			}
		}
		return last
	}

	for _, op := range sc.Ops {
		switch op.Op {
		case "rrel":
			mu.Lock()
			ch := runHold
			mu.Unlock()
			if ch != nil && !runReleased {
				runReleased = true
				ev("rrel")
				close(ch)
			}
		case "run", "runp":
			runCalled = true
			if op.Op == "runp" {
				mu.Lock()
				runHold = make(chan struct{})
				mu.Unlock()
				ev("crp")
			} else {
				ev("cr")
			}
			go guard("Run", func() {
				err := s.Run(runCtx)
				r := "nil"
				if err != nil {
					r = "err"
				}
				mu.Lock()
				out.RunRet = r
				mu.Unlock()
				ev("rret:" + r)
				close(runDone)
			})
		case "run2":
			ev("cr2")
			ch := make(chan string, 1)
			go guard("Run2", func() {
				err := s.Run(runCtx)
				if err != nil && strings.Contains(err.Error(), "already running") {
					ch <- "already"
				} else if err != nil {
					ch <- "err"
				} else {
					ch <- "nil"
				}
			})
			select {
			case r := <-ch:
				out.Run2Ret = r
			case <-time.After(deadline):
				out.Run2Ret = "pending"
			}
			ev("rret2:" + out.Run2Ret)
		case "get", "getp":
			i := ncons
			ncons++
			out.Kinds = append(out.Kinds, op.Op)
			if !runCalled {
				out.BeforeRun = append(out.BeforeRun, i)
			}
			park := op.Op == "getp"
			if park {
				mu.Lock()
				relCh[i] = make(chan struct{})
				mu.Unlock()
				ev("cgp")
			} else {
				ev("cg")
			}
			wg.Add(1)
			go guard("GetX509SVID", func() {
				defer wg.Done()
				if park {
					id := goid()
					parkIdx.Store(id, i)
					defer parkIdx.Delete(id)
				}
				svid, err := src.GetX509SVID()
				r := "e"
				if err == nil && svid != nil && len(svid.Certificates) > 0 {
					r = "s" + strconv.FormatInt(svid.Certificates[0].SerialNumber.Int64()-1000, 10)
				}
				mu.Lock()
				out.Rets[i] = r
				mu.Unlock()
				ev("ret:" + strconv.Itoa(i) + ":" + r)
			})
		case "ready", "readyc":
			i := ncons
			ncons++
			out.Kinds = append(out.Kinds, op.Op)
			if !runCalled {
				out.BeforeRun = append(out.BeforeRun, i)
			}
			ctx, c := context.WithCancel(context.Background())
			cancels[i] = c
			ev("cy")
			wg.Add(1)
			go guard("Ready", func() {
				defer wg.Done()
				err := s.Ready(ctx)
				r := "ok"
				if err != nil {
					r = "ctx"
				}
				mu.Lock()
				out.Rets[i] = r
				mu.Unlock()
				ev("ret:" + strconv.Itoa(i) + ":" + r)
			})
		case "cancel":
			if c := cancels[op.I]; c != nil {
				ev("cx:" + strconv.Itoa(op.I))
				cancelled[op.I] = true
				c()
			}
		case "rel":
			mu.Lock()
			ch := relCh[op.I]
			mu.Unlock()
			if ch != nil && !released[op.I] {
				released[op.I] = true
				ev("rel:" + strconv.Itoa(op.I))
				close(ch)
			}
		case "ok", "fail":
			select {
			case <-is.reqCh:
				ev("rep:" + map[string]string{"ok": "1", "fail": "0"}[op.Op])
				// gated certs are valid [-1 min, +1 h] from the moment of the answer
				is.gate <- Item{Kind: op.Op, A: -int64(time.Minute), B: int64(time.Hour)}
			case <-time.After(deadline):
				out.NoRequest = true
			}
		case "step":
			clk.Step(45 * time.Minute) // gated certs are valid [-1 min, +1 h]: half-life at +29.5 min
		case "q":
			p := waitStable(false)
			ev("q:" + joinInts(p))
		}
		time.Sleep(settle)
	}
	// final: wait until every consumer returned, or the deadline
	p := waitStable(true)
	out.Pending = p
	select {
	case <-runDone:
	default:
		out.RunPending = runCalled
	}
	ev("q:" + joinInts(p))

	mu.Lock()
	evs := append([]string(nil), out.Events...)
	rets := map[int]string{}
	for k, v := range out.Rets {
		rets[k] = v
	}
	snap := out
	snap.Events, snap.Rets = evs, rets
	snap.Kinds = append([]string(nil), out.Kinds...)
	snap.BeforeRun = append([]int(nil), out.BeforeRun...)
	snap.Pending = append([]int(nil), out.Pending...)
	sort.Ints(snap.Pending)
	mu.Unlock()

	// clean up what can be cleaned up (after the snapshot: calls that return only because of the
	// clean-up are not results of the scenario)
	runCancel()
	mu.Lock()
	for i, ch := range relCh {
		if !released[i] {
			close(ch)
		}
	}
	if runHold != nil && !runReleased {
		close(runHold)
	}
	mu.Unlock()
	for _, c := range cancels {
		c()
	}
	return snap
}

func joinInts(p []int) string {
	s := make([]string, len(p))
	for i, v := range p {
		s[i] = strconv.Itoa(v)
	}
	return strings.Join(s, "+")
}
