package main

import (
	"fmt"
	"os"
	"time"
)

func main() {
	if len(os.Args) > 1 && os.Args[1] == "probe" {
		ca := newFakeCA()
		for _, sc := range []RScenario{
			{Ops: []ROp{{Op: "run"}, {Op: "ok"}, {Op: "get"}, {Op: "ready"}}},
			{Ops: []ROp{{Op: "getp"}, {Op: "run"}, {Op: "rel", I: 0}, {Op: "ok"}, {Op: "ready"}}},
			{Ops: []ROp{{Op: "get"}, {Op: "run"}, {Op: "ok"}, {Op: "ready"}}},
			{Ops: []ROp{{Op: "ready"}, {Op: "run"}, {Op: "get"}, {Op: "fail"}}},
			{Ops: []ROp{{Op: "run"}, {Op: "ok"}, {Op: "getp"}, {Op: "step"}, {Op: "ok"}, {Op: "get"}, {Op: "q"}, {Op: "rel", I: 0}}},
		} {
			t := time.Now()
			o := runReady(sc, ca, 2*time.Millisecond, 300*time.Millisecond)
			fmt.Printf("%s\n  -> %v pending=%v runPending=%v rets=%v noreq=%v (%v)\n", sc, o.Events, o.Pending, o.RunPending, o.Rets, o.NoRequest, time.Since(t))
		}
		return
	}
}
