// Harness for property C19 (crypto/spiffe): readiness never deadlocks whatever the order of first
// calls; the latest good SVID is served, renewed at half-life, retried every 10 s; every fetch uses a
// fresh key published with its chain and the trust anchors as one file set.
//
// Two scenario families run against the REAL package, in-process:
//   - readiness: operations run/get/getp/ready/readyc/cancel/rel/ok/fail/step/run2/stoprun/q executed
//     from different goroutines in a forced order (hook spiffe.svid.afterRLock parks a reader holding
//     the read lock; the fake issuer holds the request until told to answer — also when the context of
//     the fetch, Run's own, is ended meanwhile by stoprun or inside the issuer callback);
//   - renewal: Run on a fake clock with a scripted issuer (validity windows from seconds to years,
//     already past half-life, not yet valid; failures; malformed answers), clock steps from
//     milliseconds to hours, optional write directory and changing trust anchors.
//
// Each execution is (1) judged by model-independent monitors and (2) compared with the Lean model
// (`kitdrv C19`): trace inclusion for readiness, exact equality of request times / served tokens /
// armed timers / published sets for renewal.
package main

import (
	"context"
	"encoding/json"
	"fmt"
	"os"
	"path/filepath"
	"strings"
	"time"

	"github.com/spiffe/go-spiffe/v2/spiffeid"

	"github.com/dapr/kit/crypto/spiffe/trustanchors"
	"verifharness/lib"
)

type Case struct {
	Kind  string     `json:"kind"` // "ready" | "renew" | "ta"
	Ready *RScenario `json:"ready,omitempty"`
	Renew *NScenario `json:"renew,omitempty"`
	TA    *TScenario `json:"ta,omitempty"`
}

type runner struct {
	roots    *taRoots
	f        lib.Flags
	res      *lib.Result
	drv      *lib.Drv
	ca       *fakeCA
	settle   time.Duration
	deadline time.Duration
	n        int
	nta      int
	// hangs: renewal scenarios that ended in a hang (each costs a full call deadline); after maxHangs of
	// them the remaining renewal scenarios are not executed (the violations are already reported) so
	// that a tree on which every renewal hangs cannot exhaust the check's time budget
	hangs int
	// confirmed: readiness hang findings reproduced by a re-run with a generous deadline (the first
	// maxConfirm candidates are re-run; a candidate that does not reproduce is dropped);
	// ctxHangs: scenarios of the Run-ctx-done family that ended in a confirmed hang
	confirmed int
	ctxHangs  int
}

const maxConfirm = 6
const maxCtxHangs = 8

const maxHangs = 60

// width is the largest number of consumer calls in flight at once in an event trace; the model's
// state set grows like 5^width (every interleaving of their statements), so wide traces are judged by
// the monitors only (width 5 costs the driver about 0.2 s, width 6 about 6 s).
func width(events []string, callPrefixes ...string) int {
	cur, max := 0, 0
	for _, e := range events {
		for _, p := range callPrefixes {
			if e == p {
				cur++
			}
		}
		if strings.HasPrefix(e, "ret:") {
			cur--
		}
		if cur > max {
			max = cur
		}
	}
	return max
}

const maxModelWidth = 5

func (r *runner) ask(line string) (string, bool) {
	if r.drv == nil {
		return "", false
	}
	a, err := r.drv.Ask(line)
	if err != nil {
		r.res.Note("model driver failed: " + err.Error())
		r.drv = nil
		return "", false
	}
	return a, true
}

func (r *runner) doReady(sc RScenario) {
	o := runReady(sc, r.ca, r.settle, r.deadline)
	c := Case{Kind: "ready", Ready: &sc}
	vs := monitorReady(sc, o)
	hasHang := func(vs []viol) bool {
		for _, v := range vs {
			if hangFinding(v.ID) {
				return true
			}
		}
		return false
	}
	if hasHang(vs) && r.confirmed < maxConfirm {
		// a call that has not returned by the (short) deadline: before this is reported, the same
		// schedule is executed again with a generous deadline (seconds); only a hang that shows again
		// is a finding — a slow machine is not
		o2 := runReady(sc, r.ca, r.settle, 8*r.deadline)
		vs2 := monitorReady(sc, o2)
		if hasHang(vs2) {
			r.confirmed++
			r.res.Hit("ready:hang-reproduced-with-generous-deadline")
		} else {
			r.res.Hit("ready:hang-not-reproduced-with-generous-deadline(dropped)")
		}
		o, vs = o2, vs2
	}
	if len(vs) > 0 {
		// "stuck" is decided by the deadline plus a re-run of the same calls alone, in the order the
		// package's own tests use (Run first): if they return there, the schedule is the cause.
		var alone, alive *rOutcome
		for _, v := range vs {
			what := v.What
			if strings.Contains(v.ID, "deadlock") {
				if alone == nil {
					a := runReady(canonical(sc), r.ca, r.settle, r.deadline)
					alone = &a
				}
				what += fmt.Sprintf(" | same calls with Run first: pending=%v", alone.Pending)
			}
			if v.ID == "ready-not-signalled-run-ctx-done" {
				if alive == nil {
					a := runReady(withoutRunCtxEnd(sc), r.ca, r.settle, r.deadline)
					alive = &a
				}
				what += fmt.Sprintf(" | same schedule with Run's ctx left alive: pending=%v", alive.Pending)
			}
			r.res.Violate(v.ID, what, c)
		}
		if hasHang(vs) && o.RunCtxEnded {
			r.ctxHangs++
		}
	}
	nontrivial := false
	seenRep := false
	for _, e := range o.Events {
		if strings.HasPrefix(e, "rep:") {
			seenRep = true
		}
		if (e == "cg" || e == "cgp" || e == "cy") && !seenRep {
			nontrivial = true
		}
		if strings.HasPrefix(e, "park:") {
			nontrivial = true
			r.res.Hit("ready:parked-at-hook")
		}
		if e == "rpark" {
			nontrivial = true
			r.res.Hit("ready:run-held-between-close-and-unlock")
		}
	}
	if ph := runCtxPhase(sc); ph != "" && o.RunCtxEnded {
		nontrivial = true
		r.res.Hit("ready:run-ctx-ended " + ph)
		for _, op := range sc.Ops {
			if op.Op == "ok" || op.Op == "fail" {
				a := op.Op
				if op.E != "" {
					a += "[" + op.E + "]"
				}
				r.res.Hit("ready:run-ctx-ended, initial answer " + a)
				break
			}
		}
		if o.RunRet != "" {
			r.res.Hit("ready:run-ctx-ended, Run returned " + o.RunRet)
		}
	}
	r.res.Count("ready:"+sc.String(), nontrivial)
	r.res.Hit("ready:scenarios")
	if len(o.BeforeRun) > 0 {
		r.res.Hit("ready:consumer-before-Run")
	}
	if len(o.Pending) > 0 {
		r.res.Hit("ready:ends-with-pending-calls")
	}
	for _, v := range o.Rets {
		r.res.Hit("ready:ret-" + strings.TrimRight(v, "0123456789"))
	}
	if w := width(o.Events, "cg", "cgp", "cy"); w > maxModelWidth {
		r.res.Hit("ready:model-skipped-width>5")
	} else if ans, ok := r.ask("lts v=fixed ev=" + strings.Join(o.Events, ",")); ok {
		r.res.Traces++
		if !strings.HasPrefix(ans, "accept") {
			r.res.Disagree("readiness LTS trace inclusion (KitModel.Spiffe.accept, variant fixed)", c, ans, strings.Join(o.Events, ","))
		}
	}
	if r.n < 4 {
		r.res.Sample(map[string]any{"case": c, "events": o.Events})
		r.n++
	}
}

// canonical reorders a readiness scenario: Run and the issuer's answer first, then the rest.
func canonical(sc RScenario) RScenario {
	var head, tail []ROp
	for _, op := range sc.Ops {
		switch op.Op {
		case "run", "runp":
			head = append([]ROp{{Op: "run"}}, head...)
		case "ok", "fail":
			if len(head) < 2 {
				head = append(head, op)
			} else {
				tail = append(tail, op)
			}
		default:
			tail = append(tail, op)
		}
	}
	return RScenario{Ops: append(head, tail...)}
}

func (r *runner) doRenew(sc NScenario, label string) {
	if r.hangs >= maxHangs && label != "replay" {
		r.res.Hit("renew:not-executed-after-" + fmt.Sprint(maxHangs) + "-hanging-scenarios")
		return
	}
	work := filepath.Join(r.f.Work, fmt.Sprintf("c19-renew-%d", r.res.Evaluations))
	o := runRenew(sc, r.ca, work, 5*time.Second, r.deadline)
	if o.Hang != "" {
		r.hangs++
		if r.hangs == maxHangs {
			r.res.Note(fmt.Sprintf("%d renewal scenarios ended in a hang (reported as violations); the remaining renewal scenarios are not executed", maxHangs))
		}
	}
	c := Case{Kind: "renew", Renew: &sc}
	for _, v := range monitorRenew(sc, o, r.res.Hit) {
		r.res.Violate(v.ID, v.What, c)
	}
	r.res.Count("renew:"+scString(sc), len(o.Reqs) >= 2)
	r.res.Hit("renew:scenarios-" + label)
	r.res.Hit(fmt.Sprintf("renew:requests=%s", bucket(len(o.Reqs))))
	for k, q := range o.Reqs {
		if k > 0 {
			r.res.Hit("renew:reply-" + q.Kind)
		}
	}
	if sc.Dir {
		r.res.Hit("renew:with-write-dir")
	}
	if o.Hang == "" && o.Panic == "" {
		if ans, ok := r.ask(modelLine(sc, o)); ok {
			r.res.Traces++
			impl := implLine(sc, o)
			if i := strings.Index(ans, ";writes="); i >= 0 {
				ans = ans[:i]
			}
			if ans != impl {
				r.res.Disagree("renewal automaton (KitModel.Spiffe.start/advance) = observed requests, served SVID, timers, published sets", c, ans, impl)
			}
		}
	}
	if r.n < 8 {
		r.res.Sample(map[string]any{"case": c, "observed": implLine(sc, o)})
		r.n++
	}
}

func (r *runner) doTA(sc TScenario) {
	if r.roots == nil {
		r.roots = newTARoots(3)
	}
	work := filepath.Join(r.f.Work, fmt.Sprintf("c19-ta-%d", r.res.Evaluations))
	o := runTA(sc, r.roots, work, 2*time.Millisecond, r.deadline)
	c := Case{Kind: "ta", TA: &sc}
	for _, v := range monitorTA(sc, o) {
		r.res.Violate(v.ID, v.What, c)
	}
	// non-trivial: a reader or Watch call is made before Run has made the source ready
	nontrivial := false
	seenUp := false
	for _, e := range o.Events {
		if strings.HasPrefix(e, "ret:") && strings.Contains(e, ":b") || strings.HasPrefix(e, "rret") {
			seenUp = true
		}
		if (e == "cb" || e == "ca" || e == "cw") && !seenUp {
			nontrivial = true
		}
	}
	r.res.Count("ta:"+sc.String(), nontrivial)
	r.res.Hit("ta:scenarios")
	for _, v := range o.Rets {
		r.res.Hit("ta:ret-" + strings.TrimRight(v, "0123456789"))
	}
	if len(o.Pending) > 0 {
		r.res.Hit("ta:ends-with-pending-calls")
	}
	if w := width(o.Events, "cb", "ca", "cw"); w > maxModelWidth {
		r.res.Hit("ta:model-skipped-width>5")
	} else if ans, ok := r.ask("ta ev=" + strings.Join(o.Events, ",")); ok {
		r.res.Traces++
		if !strings.HasPrefix(ans, "accept") {
			r.res.Disagree("trust-bundle source LTS trace inclusion (KitModel.SpiffeTA.accept)", c, ans, strings.Join(o.Events, ","))
		}
	}
	if r.nta < 2 {
		r.res.Sample(map[string]any{"case": c, "events": o.Events})
		r.nta++
	}
}

func bucket(n int) string {
	switch {
	case n <= 1:
		return "1"
	case n <= 3:
		return "2-3"
	case n <= 8:
		return "4-8"
	default:
		return "9+"
	}
}

func probeTA() {
	roots := newTARoots(3)
	t := func(ops ...TOp) TScenario { return TScenario{Ops: ops} }
	for _, sc := range []TScenario{
		t(TOp{Op: "file", V: 1}, TOp{Op: "run"}, TOp{Op: "bundle"}, TOp{Op: "anchors"}, TOp{Op: "q"}, TOp{Op: "file", V: 2}, TOp{Op: "bundle"}, TOp{Op: "stop"}, TOp{Op: "bundle"}),
		t(TOp{Op: "bundle"}, TOp{Op: "anchors"}, TOp{Op: "watch"}, TOp{Op: "run"}, TOp{Op: "q"}, TOp{Op: "file", V: 1}, TOp{Op: "q"}, TOp{Op: "file", V: 3}, TOp{Op: "q"}),
		t(TOp{Op: "bundle"}, TOp{Op: "file", V: 0}, TOp{Op: "run"}, TOp{Op: "anchors"}),
		t(TOp{Op: "bundle"}, TOp{Op: "anchorsc"}, TOp{Op: "cancel", I: 1}, TOp{Op: "q"}),
		t(TOp{Op: "run"}, TOp{Op: "bundle"}, TOp{Op: "stop"}, TOp{Op: "anchors"}),
	} {
		t0 := time.Now()
		o := runTA(sc, roots, "/tmp/c19-ta-probe", 2*time.Millisecond, 400*time.Millisecond)
		fmt.Printf("%s\n  -> %v pending=%v run=%s watched=%v (%v)\n", sc, o.Events, o.Pending, o.RunRet, o.Watched, time.Since(t0))
	}
}

// probeStall: a Watch subscriber whose consumer never reads; the file is updated repeatedly; does a
// reader still get through?  (Observation recorded in design/C19.md; outside the property statement.)
func probeStall() {
	roots := newTARoots(3)
	dir, _ := os.MkdirTemp("", "c19-stall-")
	defer os.RemoveAll(dir)
	path := filepath.Join(dir, "ca.pem")
	os.WriteFile(path, roots.pems[1], 0o644)
	ta := trustanchors.VerifFromFile(trustanchors.OptionsFile{Log: quietLog, Path: path}, 3*time.Millisecond, 2*time.Millisecond)
	ctx, cancel := context.WithCancel(context.Background())
	defer cancel()
	go ta.Run(ctx)
	if _, err := ta.CurrentTrustAnchors(ctx); err != nil {
		fmt.Println("source did not come up:", err)
		return
	}
	go ta.Watch(ctx, make(chan []byte)) // nobody ever receives
	time.Sleep(20 * time.Millisecond)
	for i := 0; i < 12; i++ {
		tmp := path + ".tmp"
		os.WriteFile(tmp, roots.pems[1+i%3], 0o644)
		os.Rename(tmp, path)
		time.Sleep(30 * time.Millisecond)
		done := make(chan struct{})
		go func() {
			ta.GetX509BundleForTrustDomain(spiffeid.RequireTrustDomainFromString("example.org"))
			close(done)
		}()
		select {
		case <-done:
			fmt.Printf("update %d: reader returned\n", i+1)
		case <-time.After(500 * time.Millisecond):
			fmt.Printf("update %d: reader BLOCKED for 500 ms (updateAnchors holds the write lock waiting for the subscriber)\n", i+1)
			return
		}
	}
}

func main() {
	if len(os.Args) > 1 && os.Args[1] == "probestall" {
		probeStall()
		return
	}
	if len(os.Args) > 1 && os.Args[1] == "probeta" {
		probeTA()
		return
	}
	f := lib.ParseFlags()
	res := lib.NewResult("non-trivial — readiness: a consumer call is made before the issuer answers the initial request, or a reader is parked at the hook holding the read lock, or Run is held between close(readyCh) and Unlock, or the scenario ends Run's own context (before Run is called / while the initial request is in flight / inside the issuer callback as it returns / after the answer / while Run is held); renewal: at least two issuer requests (a renewal or retry happened); bundle source: a reader or Watch call is made before the source is up. COMPLETE ENUMERATIONS (every run): all orders of first calls of Run/issuer answer/GetX509SVID/Ready for the listed (gets, readys) shapes x issuer ok/fail x {readers parked, not parked, Run held}; the Run-ctx-done family of ctxfam.go = every skeleton (ctx ended before Run / in flight / as the issuer returns / after the answer / while Run is held; control: ctx alive but the error looks like a context error) x initial answer {ok, plain error, the ctx's own Err() bare and wrapped, ...} x every placement of GetX509SVID / Ready (own live context) / a parked GetX509SVID over the positions of the skeleton, both orders, ctx cancelled or deadline passed; all orders of first calls of Run/file appearing/bundle/anchors/watch for the listed shapes; renewal small scope = every script over {short, past-half-life, fail, fail with an error wrapping context.DeadlineExceeded} and every step sequence over {5 s, 10 s, 60 s, 1 h, exact wake} up to the tier's depth; the error-kind family = every error kind of errkinds.go (plain; wrapping / joining / custom Is / Unwrap of context.Canceled and context.DeadlineExceeded; the bare sentinels; the Err() of a child context the issuer created itself and waited for; look-alikes) x renewal index 1..P x 1..M consecutive failures with exact wakes, x coarse steps, x held answers, x as the initial fetch, x as the trust-anchor source's error, while Run's context stays alive; plus the fixed lists. SEEDED RANDOM (not exhaustive): random readiness op sequences, random renewal scenarios, random bundle-source scenarios — hence exhaustive=false overall. traces_validated_against_impl counts model queries: one per executed scenario (its observed trace / run compared with the Lean driver) plus the 3 corpus traces recorded on the pre-fix tree and the 8 corpus traces recorded with Run's ctx done (checked against the model but not executions, so it exceeds evaluations by 11)")
	if f.Work == "" {
		f.Work, _ = os.MkdirTemp("", "c19-")
		defer os.RemoveAll(f.Work)
	}
	drv, err := lib.StartDrv(f.Drv, "C19")
	if err != nil {
		res.Note("cannot start model driver: " + err.Error())
	}
	defer drv.Close()
	r := &runner{f: f, res: res, drv: drv, ca: newFakeCA(), settle: 1500 * time.Microsecond, deadline: 400 * time.Millisecond}
	if f.Tier == "thorough" || f.Search {
		r.deadline = 800 * time.Millisecond
	}
	rng := lib.NewRand(f.Seed)

	if f.Replay != "" {
		var rp struct {
			Case Case `json:"case"`
		}
		b, err := os.ReadFile(f.Replay)
		if err == nil {
			err = json.Unmarshal(b, &rp)
		}
		if err != nil {
			res.Note("cannot read replay file: " + err.Error())
		} else if rp.Case.Kind == "ready" && rp.Case.Ready != nil {
			r.doReady(*rp.Case.Ready)
		} else if rp.Case.Kind == "renew" && rp.Case.Renew != nil {
			r.doRenew(*rp.Case.Renew, "replay")
		} else if rp.Case.Kind == "ta" && rp.Case.TA != nil {
			r.doTA(*rp.Case.TA)
		}
		res.Write(f.Out)
		return
	}

	// ---- corpus: traces recorded on the unchanged tree; the model of the old code accepts them, the
	// model of the repaired code does not (ties getsvid_before_run_witness to what really happened)
	if b, err := os.ReadFile(filepath.Join(os.Getenv("VERIF_DIR"), "corpus", "C19", "getsvid-before-run.case")); err == nil {
		for _, ln := range strings.Split(string(b), "\n") {
			ln = strings.TrimSpace(ln)
			if ln == "" || strings.HasPrefix(ln, "#") {
				continue
			}
			if a, ok := r.ask("lts v=cur ev=" + ln); ok {
				res.Traces++
				res.Hit("corpus:old-code-trace")
				if !strings.HasPrefix(a, "accept") {
					res.Disagree("recorded deadlock trace of the old code vs model variant cur", ln, a, "accepted by the real old code")
				}
			}
			if a, ok := r.ask("lts v=fixed ev=" + ln); ok && strings.HasPrefix(a, "accept") {
				res.Disagree("recorded deadlock trace of the old code vs model variant fixed", ln, a, "must be rejected: the repaired model has no such deadlock")
			}
		}
	} else {
		res.Note("corpus/C19 not readable: " + err.Error())
	}

	// ---- corpus: traces recorded with Run's ctx done — on a tree with the change "no close(readyCh)
	// when the initial fetch fails during a shutdown" (must be rejected by the model of the code as it
	// is) and on the unchanged tree (must be accepted)
	if b, err := os.ReadFile(filepath.Join(os.Getenv("VERIF_DIR"), "corpus", "C19", "run-ctx-done.case")); err == nil {
		for _, ln := range strings.Split(string(b), "\n") {
			ln = strings.TrimSpace(ln)
			want, tr, ok := strings.Cut(ln, " ")
			if ln == "" || strings.HasPrefix(ln, "#") || !ok || (want != "accept" && want != "reject") {
				continue
			}
			if a, ok := r.ask("lts v=fixed ev=" + tr); ok {
				res.Traces++
				res.Hit("corpus:run-ctx-done-trace-" + want)
				if strings.HasPrefix(a, "accept") != (want == "accept") {
					res.Disagree("recorded trace with Run's ctx done vs model variant fixed", tr, a, "must "+want)
				}
			}
		}
	} else {
		res.Note("corpus/C19/run-ctx-done.case not readable: " + err.Error())
	}

	// ---- readiness: every order of first calls
	shapes := [][2]int{{1, 0}, {0, 1}, {1, 1}, {2, 1}, {1, 2}}
	if f.Tier == "thorough" || f.Search {
		shapes = append(shapes, [2]int{2, 2}, [2]int{3, 1})
	}
	for _, sh := range shapes {
		for _, order := range firstCallOrders(sh[0], sh[1]) {
			for _, reply := range []string{"ok", "fail"} {
				for park := 0; park < 2; park++ {
					if park == 1 && sh[0] == 0 {
						continue
					}
					r.doReady(buildOrder(order, reply, park == 1))
				}
				// the same order with Run held between close(readyCh) and Unlock
				r.doReady(buildOrderH(order, reply, false, true))
			}
		}
	}
	for _, sc := range specialReady() {
		r.doReady(sc)
	}
	// ---- readiness while Run's own context is done (before Run / during the initial request / as the
	// issuer returns / after it / while Run is held), consumers at every position
	lvl := 0
	if f.Tier == "thorough" || f.Search {
		lvl = 1
	}
	fam := runCtxReady(lvl)
	for i, sc := range fam {
		if r.ctxHangs >= maxCtxHangs {
			r.res.Note(fmt.Sprintf("%d scenarios of the Run-ctx-done readiness family ended in a hang (reported as violations); the remaining %d of %d are not executed", maxCtxHangs, len(fam)-i, len(fam)))
			r.res.Hit("ready:run-ctx-family-not-executed-after-hanging-scenarios")
			break
		}
		r.doReady(sc)
	}
	nCtx := 60
	if f.Tier == "thorough" {
		nCtx = 600
	}
	if f.Search {
		nCtx = 1500
	}
	rngCtx := lib.NewRand(f.Seed + 0xC19C7) // its own stream: the older random families keep their scenarios per seed
	for i := 0; i < nCtx && r.ctxHangs < maxCtxHangs; i++ {
		r.doReady(randomRunCtx(rngCtx.Fork()))
	}
	nRand := 40
	if f.Tier == "thorough" {
		nRand = 400
	}
	if f.Search {
		nRand = 1500
	}
	for i := 0; i < nRand; i++ {
		r.doReady(randomReady(rng.Fork()))
	}
	res.Exhaustive = false // complete enumerations (named in the rule) are mixed with seeded random families

	// ---- trust-bundle source: every order of first calls of Run / file appearing / readers / Watch
	taShapes := [][3]int{{1, 1, 0}, {1, 0, 1}, {2, 0, 0}}
	if f.Tier == "thorough" || f.Search {
		taShapes = append(taShapes, [3]int{1, 1, 1}, [3]int{2, 1, 0}, [3]int{0, 2, 1})
	}
	for _, sh := range taShapes {
		for _, order := range taFirstCallOrders(sh[0], sh[1], sh[2]) {
			r.doTA(taBuild(order, true))
			if f.Tier == "thorough" || f.Search {
				r.doTA(taBuild(order, false))
			}
		}
	}
	for _, sc := range specialTA() {
		r.doTA(sc)
	}
	nTA := 15
	if f.Tier == "thorough" {
		nTA = 150
	}
	if f.Search {
		nTA = 600
	}
	for i := 0; i < nTA; i++ {
		r.doTA(randomTA(rng.Fork()))
	}

	// ---- renewal
	r.n = 4
	for _, sc := range fixedRenew() {
		r.doRenew(sc, "fixed")
	}
	// issuer errors of every kind at every renewal index while Run's context is alive
	maxP, maxM := 3, 2
	if f.Tier == "thorough" || f.Search {
		maxP, maxM = 5, 4
	}
	for _, sc := range errKindRenew(maxP, maxM) {
		r.doRenew(sc, "error-kinds")
	}
	depth := 2
	if f.Tier == "thorough" || f.Search {
		depth = 3
	}
	for _, sc := range smallScopeRenew(depth) {
		r.doRenew(sc, "small-scope")
	}
	nR := 150
	if f.Tier == "thorough" {
		nR = 1500
	}
	if f.Search {
		nR = 5000
	}
	for i := 0; i < nR; i++ {
		r.doRenew(randomRenew(rng.Fork()), "random")
	}
	res.Write(f.Out)
}
