package main

import (
	"context"
	"errors"
	"fmt"
	"io"
	"os"
	"time"
)

// Error kinds of the fake issuer (Item.Err) — the VALUE a failed fetch returns.  The property's retry
// clause quantifies over "all finite sequences of issuer failures": nothing in it depends on what the
// error says, so every kind below must be handled like a plain error while Run's own context is alive:
// logged, retried after 10 s, Run keeps running, the served SVID stays.
//
// The neighbourhood covered: plain errors; errors whose chain contains context.Canceled /
// context.DeadlineExceeded (fmt.Errorf %w, doubly wrapped, errors.Join, custom types with Is / Unwrap /
// Unwrap() []error); the bare sentinels; the Err() of a child context the issuer created ITSELF (a
// per-request timeout, an expired deadline, its own cancel, with a cause; as a child of the fetch ctx or of
// context.Background) — in which case the issuer really blocks until that child context is done;
// look-alikes that are NOT context errors (a gRPC-status-like message, a net.Error with Timeout(),
// os.ErrDeadlineExceeded, io.EOF / io.ErrUnexpectedEOF).

type isErr struct {
	target error
	msg    string
}

func (e *isErr) Error() string   { return e.msg }
func (e *isErr) Is(t error) bool { return t == e.target }
func (e *isErr) Temporary() bool { return true }
func (e *isErr) Timeout() bool   { return e.target == context.DeadlineExceeded }

type unwrapErr struct {
	inner error
	msg   string
}

func (e *unwrapErr) Error() string { return e.msg + ": " + e.inner.Error() }
func (e *unwrapErr) Unwrap() error { return e.inner }

type multiErr struct{ inner []error }

func (e *multiErr) Error() string   { return fmt.Sprint("multiple errors: ", e.inner) }
func (e *multiErr) Unwrap() []error { return e.inner }

// textErr only LOOKS like a context error (what a gRPC status error is: errors.Is(err,
// context.DeadlineExceeded) is false for it).
type textErr struct{ msg string }

func (e *textErr) Error() string { return e.msg }

type netTimeoutErr struct{}

func (netTimeoutErr) Error() string   { return "read tcp 10.0.0.1:50001: i/o timeout" }
func (netTimeoutErr) Timeout() bool   { return true }
func (netTimeoutErr) Temporary() bool { return true }

// childWait blocks until the child context is done (a generous real-time bound keeps a broken
// runtime from hanging the harness; it is never reached: the children below expire within 1 ms).
func childWait(c context.Context) {
	select {
	case <-c.Done():
	case <-time.After(10 * time.Second):
	}
}

type errKind struct {
	Name string
	Make func(ctx context.Context) error
}

var errKinds = []errKind{
	{"plain", func(context.Context) error { return errors.New("scripted issuer failure") }},
	{"wrap-canceled", func(context.Context) error { return fmt.Errorf("sign csr: %w", context.Canceled) }},
	{"wrap-deadline", func(context.Context) error { return fmt.Errorf("sign csr: %w", context.DeadlineExceeded) }},
	{"wrap2-canceled", func(context.Context) error {
		return fmt.Errorf("sentry: %w", fmt.Errorf("rpc SignCertificate: %w", context.Canceled))
	}},
	{"wrap2-deadline", func(context.Context) error {
		return fmt.Errorf("sentry: %w", fmt.Errorf("rpc SignCertificate: %w", context.DeadlineExceeded))
	}},
	{"join-canceled", func(context.Context) error { return errors.Join(errors.New("rpc failed"), context.Canceled) }},
	{"join-deadline", func(context.Context) error { return errors.Join(context.DeadlineExceeded, errors.New("rpc failed")) }},
	{"join-both", func(context.Context) error { return errors.Join(context.Canceled, context.DeadlineExceeded) }},
	{"custom-is-canceled", func(context.Context) error { return &isErr{context.Canceled, "rpc error: code = Canceled desc = client gave up"} }},
	{"custom-is-deadline", func(context.Context) error {
		return &isErr{context.DeadlineExceeded, "rpc error: code = DeadlineExceeded desc = request timed out"}
	}},
	{"custom-unwrap-canceled", func(context.Context) error { return &unwrapErr{context.Canceled, "issuer client"} }},
	{"custom-unwrap-deadline", func(context.Context) error { return &unwrapErr{context.DeadlineExceeded, "issuer client"} }},
	{"custom-multi", func(context.Context) error {
		return &multiErr{[]error{errors.New("attempt 1: connection refused"), context.DeadlineExceeded, context.Canceled}}
	}},
	{"bare-canceled", func(context.Context) error { return context.Canceled }},
	{"bare-deadline", func(context.Context) error { return context.DeadlineExceeded }},
	// the issuer blocks until a child context it created itself expires; Run's context stays alive
	{"child-timeout", func(ctx context.Context) error {
		c, cancel := context.WithTimeout(ctx, time.Millisecond)
		defer cancel()
		childWait(c)
		return c.Err()
	}},
	{"child-timeout-wrapped", func(ctx context.Context) error {
		c, cancel := context.WithTimeout(ctx, time.Millisecond)
		defer cancel()
		childWait(c)
		return fmt.Errorf("request to sentry: %w", c.Err())
	}},
	{"child-deadline-past", func(ctx context.Context) error {
		c, cancel := context.WithDeadline(ctx, time.Now().Add(-time.Second))
		defer cancel()
		childWait(c)
		return c.Err()
	}},
	{"child-cancel", func(ctx context.Context) error {
		c, cancel := context.WithCancel(ctx)
		cancel()
		childWait(c)
		return c.Err()
	}},
	{"child-cancel-cause", func(ctx context.Context) error {
		c, cancel := context.WithCancelCause(ctx)
		cancel(errors.New("circuit breaker open"))
		childWait(c)
		return fmt.Errorf("%w (%w)", c.Err(), context.Cause(c))
	}},
	{"child-cause-only", func(ctx context.Context) error {
		c, cancel := context.WithTimeoutCause(ctx, time.Millisecond, errors.New("issuer too slow"))
		defer cancel()
		childWait(c)
		return context.Cause(c) // a plain error although the child context timed out
	}},
	{"background-child-timeout", func(context.Context) error {
		c, cancel := context.WithTimeout(context.Background(), time.Millisecond)
		defer cancel()
		childWait(c)
		return fmt.Errorf("dial sentry: %w", c.Err())
	}},
	// look-alikes that are not context errors
	{"text-deadline", func(context.Context) error {
		return &textErr{"rpc error: code = DeadlineExceeded desc = context deadline exceeded"}
	}},
	{"text-canceled", func(context.Context) error { return &textErr{"rpc error: code = Canceled desc = context canceled"} }},
	{"net-timeout", func(context.Context) error { return netTimeoutErr{} }},
	{"os-deadline", func(context.Context) error { return fmt.Errorf("read: %w", os.ErrDeadlineExceeded) }},
	{"eof", func(context.Context) error { return io.EOF }},
	{"unexpected-eof", func(context.Context) error { return fmt.Errorf("recv: %w", io.ErrUnexpectedEOF) }},
}

func errKindIndex(name string) int {
	if name == "" {
		return 0
	}
	for i, k := range errKinds {
		if k.Name == name {
			return i
		}
	}
	return -1
}

// makeErr builds the error value of the named kind ("" = plain; an unknown name = a plain error naming it).
func makeErr(name string, ctx context.Context) error {
	// the error of the ctx handed to the fetch itself (what an issuer client that honours its ctx returns
	// when that ctx is done: Run's ctx was cancelled / its deadline passed while the request was in
	// flight); with a live ctx these degrade to a plain error.  Used by the readiness family only.
	switch name {
	case "own-ctx", "own-ctx-wrapped", "own-ctx-cause":
		e := ctx.Err()
		if e == nil {
			return errors.New("scripted issuer failure (the fetch ctx is alive)")
		}
		switch name {
		case "own-ctx-wrapped":
			return fmt.Errorf("rpc SignCertificate: %w", e)
		case "own-ctx-cause":
			return fmt.Errorf("request abandoned: %w", context.Cause(ctx))
		}
		return e
	}
	i := errKindIndex(name)
	if i < 0 {
		return errors.New("scripted issuer failure (unknown error kind " + name + ")")
	}
	return errKinds[i].Make(ctx)
}

// errClass is what errors.Is says about the value of that kind, measured on a real value (not
// declared): (errors.Is(err, context.Canceled), errors.Is(err, context.DeadlineExceeded)).
var errClassCache = map[string][2]bool{}

func errClass(name string) [2]bool {
	if c, ok := errClassCache[name]; ok {
		return c
	}
	err := makeErr(name, context.Background())
	c := [2]bool{errors.Is(err, context.Canceled), errors.Is(err, context.DeadlineExceeded)}
	errClassCache[name] = c
	return c
}

// errModelWord is the script word of the model driver for a failure of that kind:
// f:<Is Canceled><Is DeadlineExceeded>:<tag>.
func errModelWord(name string) string {
	if name == "" {
		return "f"
	}
	c := errClass(name)
	b := func(x bool) string {
		if x {
			return "1"
		}
		return "0"
	}
	tag := errKindIndex(name)
	if tag < 0 {
		tag = 999
	}
	return fmt.Sprintf("f:%s%s:%d", b(c[0]), b(c[1]), tag)
}
