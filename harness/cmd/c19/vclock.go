package main

import (
	"sync"
	"time"

	kclock "k8s.io/utils/clock"
)

// vclock is a deterministic clock.Clock: a timer fires into its 1-slot channel as soon as
// now >= created + d (immediately when d <= 0, unlike the k8s fake clock).
type vclock struct {
	mu      sync.Mutex
	now     time.Time
	pending []*vtimer
	// Armed records every After/NewTimer call: (clock value at the call, duration).
	Armed []armRec
	sig   chan struct{}
}

type armRec struct {
	At time.Time
	D  time.Duration
}

type vtimer struct {
	c        *vclock
	ch       chan time.Time
	deadline time.Time
	armed    bool
}

var _ kclock.Clock = (*vclock)(nil)

func newVClock(t time.Time) *vclock { return &vclock{now: t, sig: make(chan struct{}, 1)} }

func (c *vclock) notify() {
	select {
	case c.sig <- struct{}{}:
	default:
	}
}

func (c *vclock) Now() time.Time {
	c.mu.Lock()
	defer c.mu.Unlock()
	return c.now
}
func (c *vclock) Since(t time.Time) time.Duration { return c.Now().Sub(t) }

func (c *vclock) newTimer(d time.Duration) *vtimer {
	c.mu.Lock()
	defer c.mu.Unlock()
	t := &vtimer{c: c, ch: make(chan time.Time, 1), deadline: c.now.Add(d)}
	c.Armed = append(c.Armed, armRec{c.now, d})
	if d <= 0 {
		t.ch <- c.now
	} else {
		t.armed = true
		c.pending = append(c.pending, t)
	}
	c.notify()
	return t
}

func (c *vclock) After(d time.Duration) <-chan time.Time { return c.newTimer(d).ch }
func (c *vclock) NewTimer(d time.Duration) kclock.Timer  { return c.newTimer(d) }
func (c *vclock) Sleep(d time.Duration)                  { <-c.After(d) }
func (c *vclock) Tick(d time.Duration) <-chan time.Time  { panic("vclock: Tick not supported") }

func (t *vtimer) C() <-chan time.Time { return t.ch }
func (t *vtimer) Stop() bool {
	t.c.mu.Lock()
	defer t.c.mu.Unlock()
	was := t.armed
	t.armed = false
	t.c.drop(t)
	return was
}
func (t *vtimer) Reset(d time.Duration) bool {
	t.c.mu.Lock()
	defer t.c.mu.Unlock()
	was := t.armed
	t.c.drop(t)
	t.deadline = t.c.now.Add(d)
	if d <= 0 {
		t.armed = false
		select {
		case t.ch <- t.c.now:
		default:
		}
	} else {
		t.armed = true
		t.c.pending = append(t.c.pending, t)
	}
	return was
}

func (c *vclock) drop(t *vtimer) {
	for i, p := range c.pending {
		if p == t {
			c.pending = append(c.pending[:i], c.pending[i+1:]...)
			return
		}
	}
}

// Step advances the clock and fires every timer whose deadline has been reached.
// It returns the number of timers fired.
func (c *vclock) Step(d time.Duration) int {
	c.mu.Lock()
	defer c.mu.Unlock()
	c.now = c.now.Add(d)
	n := 0
	keep := c.pending[:0]
	for _, t := range c.pending {
		if !t.deadline.After(c.now) {
			t.armed = false
			t.ch <- c.now
			n++
		} else {
			keep = append(keep, t)
		}
	}
	c.pending = keep
	return n
}

// NextDeadline is the earliest deadline among the armed timers.
func (c *vclock) NextDeadline() (time.Time, bool) {
	c.mu.Lock()
	defer c.mu.Unlock()
	var best time.Time
	ok := false
	for _, t := range c.pending {
		if !ok || t.deadline.Before(best) {
			best, ok = t.deadline, true
		}
	}
	return best, ok
}

// Pending is the number of armed timers that have not fired.
func (c *vclock) Pending() int {
	c.mu.Lock()
	defer c.mu.Unlock()
	return len(c.pending)
}

// ArmedLog returns a copy of the arm log.
func (c *vclock) ArmedLog() []armRec {
	c.mu.Lock()
	defer c.mu.Unlock()
	return append([]armRec(nil), c.Armed...)
}

// WaitPending waits (real time) until at least one timer is armed and unfired, i.e. the single
// goroutine using this clock has armed its next wait. Returns false on timeout.
func (c *vclock) WaitPending(timeout time.Duration) bool {
	dl := time.Now().Add(timeout)
	for {
		if c.Pending() > 0 {
			return true
		}
		left := time.Until(dl)
		if left <= 0 {
			return false
		}
		select {
		case <-c.sig:
		case <-time.After(minDur(left, 2*time.Millisecond)):
		}
	}
}

func minDur(a, b time.Duration) time.Duration {
	if a < b {
		return a
	}
	return b
}
