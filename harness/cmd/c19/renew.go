package main

import (
	"bytes"
	"context"
	"crypto/ecdsa"
	"crypto/x509"
	"encoding/pem"
	"fmt"
	"os"
	"path/filepath"
	"strconv"
	"strings"
	"sync"
	"time"

	"github.com/dapr/kit/crypto/spiffe"
)

// NStep is one environment action of a renewal scenario: advance the fake clock by D ns, or (D == 0)
// switch the trust-anchor bundle to version Anch.
// W: advance exactly to the deadline of the armed timer (no overshoot); after a failed renewal at most
// to 10 s after the failure.
// Ans: the issuer answers the outstanding request (only meaningful in a Hold scenario).
type NStep struct {
	D    int64 `json:"d,omitempty"`
	Anch int   `json:"anch,omitempty"`
	W    bool  `json:"w,omitempty"`
	Ans  bool  `json:"ans,omitempty"`
}

// Hold: the issuer holds every request until an Ans step (a fetch takes time: the clock advances
// while the request is in flight).  Without Hold every request is answered as soon as it is made.
type NScenario struct {
	Dir    bool    `json:"dir"`
	Anch   int     `json:"anch"`
	Hold   bool    `json:"hold,omitempty"`
	Script []Item  `json:"script"`
	Steps  []NStep `json:"steps"`
}

// pubObs is the file set found in the write directory at one observation point.
type pubObs struct {
	When    string // "req<k>" | "step<j>"
	Present bool
	Ver     string // version directory the target pointed to
	KeyTok  int    // index of the request whose CSR key equals key.pem (-1: none)
	CertTok int    // serial-1000 of the leaf in cert.pem
	ChainN  int
	Anchors int // version parsed from ca.pem (-1: unparsable)
	Err     string
}

type nOutcome struct {
	Reqs     []reqRec
	Served   []string // after start and after each step: token or "none"
	ServedOK []bool   // key of the served SVID matches its certificate and the CSR of that request
	Timers   []armRec
	Pub      []pubObs // observations at step ends (index-aligned with Served) when Dir
	PubAtReq []pubObs // observations at request arrivals
	StepEnd  []time.Time
	// Overshoot[j]: how far step j ended beyond the deadline of the timer that was armed before it
	// (capped by the step's length; 0 for a step that fired nothing or landed exactly).
	Overshoot []time.Duration
	// Acts: the environment actions actually performed, in the model's vocabulary (a:<ns>, t:<v>, w,
	// ans); Served/Pub/StepEnd have one entry for the start and one per act.
	Acts     []string
	InFlight []bool // a request was outstanding at that observation
	NAns     []int  // number of requests answered before that observation
	InitErr  bool
	// HangInFlight: the GetX509SVID call that hung was made while a renewal request was outstanding
	HangInFlight bool
	Hang         string
	Panic        string
	RunRet       string
	// ReturnedAlive: Run returned BEFORE the harness cancelled its context (observed while the
	// scenario was still running); ReturnedAt: number of environment actions performed by then;
	// ReturnedReqs: number of issuer requests made by then.
	ReturnedAlive bool
	ReturnedAt    int
	ReturnedReqs  int
}

func readPub(target, when string, reqs []reqRec) pubObs {
	o := pubObs{When: when, KeyTok: -1, CertTok: -1, Anchors: -1}
	ver, err := os.Readlink(target)
	if err != nil {
		return o // nothing published yet
	}
	if !filepath.IsAbs(ver) {
		ver = filepath.Join(filepath.Dir(target), ver)
	}
	o.Present = true
	o.Ver = filepath.Base(ver)
	kb, err1 := os.ReadFile(filepath.Join(ver, "key.pem"))
	cb, err2 := os.ReadFile(filepath.Join(ver, "cert.pem"))
	ab, err3 := os.ReadFile(filepath.Join(ver, "ca.pem"))
	if err1 != nil || err2 != nil || err3 != nil {
		o.Err = fmt.Sprint("incomplete file set: ", err1, err2, err3)
		return o
	}
	ents, _ := os.ReadDir(ver)
	if len(ents) != 3 {
		o.Err = fmt.Sprintf("version directory holds %d entries, want 3", len(ents))
	}
	if blk, _ := pem.Decode(kb); blk != nil {
		var pub any
		if k, err := x509.ParsePKCS8PrivateKey(blk.Bytes); err == nil {
			if ek, ok := k.(*ecdsa.PrivateKey); ok {
				pub = &ek.PublicKey
			}
		} else if ek, err := x509.ParseECPrivateKey(blk.Bytes); err == nil {
			pub = &ek.PublicKey
		}
		if pub != nil {
			der, _ := x509.MarshalPKIXPublicKey(pub)
			for _, r := range reqs {
				if bytes.Equal(r.PubDER, der) {
					o.KeyTok = r.Idx
				}
			}
		}
	}
	rest := cb
	for {
		var blk *pem.Block
		blk, rest = pem.Decode(rest)
		if blk == nil {
			break
		}
		if c, err := x509.ParseCertificate(blk.Bytes); err == nil {
			if o.ChainN == 0 {
				o.CertTok = int(c.SerialNumber.Int64() - 1000)
			}
			o.ChainN++
		}
	}
	s := string(ab)
	if strings.HasPrefix(s, "-----FAKE ANCHORS v") {
		if v, err := strconv.Atoi(strings.TrimSuffix(strings.TrimPrefix(strings.TrimSpace(s), "-----FAKE ANCHORS v"), "-----")); err == nil {
			o.Anchors = v
		}
	}
	return o
}

func (o pubObs) String() string {
	if !o.Present {
		return "none"
	}
	return fmt.Sprintf("%d/%d/%d", o.KeyTok, o.CertTok, o.Anchors)
}

// runRenew executes one renewal scenario against the real package on the fake clock.
func runRenew(sc NScenario, ca *fakeCA, workdir string, deadline, callDeadline time.Duration) nOutcome {
	// `out` is written by callbacks on other goroutines; the value returned is built at the end
	var out nOutcome
	clk := newVClock(T0)
	is := &issuer{ca: ca, clk: clk, script: append([]Item(nil), sc.Script...), gate: make(chan Item), reqCh: make(chan int, 64)}
	ta := &fakeTA{is: is, version: sc.Anch}
	opts := spiffe.Options{Log: quietLog, RequestSVIDFn: is.fn, TrustAnchors: ta}
	var target string
	if sc.Dir {
		target = filepath.Join(workdir, "id")
		opts.WriteIdentityToFile = &target
		defer os.RemoveAll(workdir)
	}
	// a scripted dir.Write failure: when that fetch is answered, the base directory is moved away and a
	// regular file takes its place (MkdirAll then fails); it is put back once the loop is quiet again
	away := workdir + ".away"
	blocked := false
	restore := func() {
		if blocked {
			os.Remove(workdir)
			os.Rename(away, workdir)
			blocked = false
		}
	}
	defer restore()
	defer os.RemoveAll(away)
	var omu sync.Mutex
	is.onReq = func(idx int) {
		if sc.Dir {
			p := readPub(target, "req"+strconv.Itoa(idx), is.requests())
			omu.Lock()
			out.PubAtReq = append(out.PubAtReq, p)
			omu.Unlock()
		}
	}
	is.onAnswer = func(idx int, kind string) {
		is.mu.Lock()
		is.reqs[idx].Anchors = func() int { ta.mu.Lock(); defer ta.mu.Unlock(); return ta.version }()
		is.mu.Unlock()
		if sc.Dir && kind == kWriteErr {
			os.MkdirAll(workdir, 0o755)
			if os.Rename(workdir, away) == nil && os.WriteFile(workdir, []byte("not a directory"), 0o644) == nil {
				blocked = true
			}
		}
	}
	s := spiffe.New(opts)
	spiffe.VerifSetClock(s, clk)
	src := s.SVIDSource()

	ctx, cancel := context.WithCancel(context.Background())
	runDone := make(chan error, 1)
	go func() {
		defer func() {
			if r := recover(); r != nil {
				runDone <- fmt.Errorf("panic: %v", r)
			}
		}()
		runDone <- s.Run(ctx)
	}()

	returned := false
	nAnswered := 0
	outstanding := false // a request has been announced and not answered yet
	// quiesce: the rotation goroutine has armed a timer that lies in the future, or is blocked in the
	// issuer, or Run returned.
	quiesce := func() bool {
		dl := time.Now().Add(deadline)
		for time.Now().Before(dl) {
			if outstanding || returned {
				return true
			}
			select {
			case <-is.reqCh:
				outstanding = true
				return true
			default:
			}
			if clk.Pending() > 0 {
				// a timer is armed; a request announced in the meantime would be seen next time
				select {
				case <-is.reqCh:
					outstanding = true
				default:
				}
				return true
			}
			select {
			case <-is.reqCh:
				outstanding = true
				return true
			case err := <-runDone:
				returned = true
				out.ReturnedAlive = true // ctx is cancelled only after the last step (below)
				out.ReturnedAt = len(out.Acts)
				out.ReturnedReqs = len(is.requests())
				if err != nil {
					out.RunRet = "err"
					if strings.HasPrefix(err.Error(), "panic:") {
						out.Panic = err.Error()
					}
				} else {
					out.RunRet = "nil"
				}
				return true
			case <-clk.sig:
			case <-time.After(time.Millisecond):
			}
		}
		return false
	}
	observe := func(label string) {
		if !outstanding {
			restore()
		}
		type res struct {
			tok string
			ok  bool
		}
		ch := make(chan res, 1)
		if len(is.requests()) <= 1 && outstanding && !sc.Hold {
			// the initial request is about to be answered: GetX509SVID legitimately waits for it
			ch <- res{"none", true}
		} else {
			go func() {
				defer func() {
					if r := recover(); r != nil {
						ch <- res{"panic", false}
					}
				}()
				svid, err := src.GetX509SVID()
				if err != nil || svid == nil || len(svid.Certificates) == 0 {
					ch <- res{"none", true}
					return
				}
				tok := int(svid.Certificates[0].SerialNumber.Int64() - 1000)
				ok := false
				if pk, isEC := svid.PrivateKey.(*ecdsa.PrivateKey); isEC {
					der, _ := x509.MarshalPKIXPublicKey(&pk.PublicKey)
					cder, _ := x509.MarshalPKIXPublicKey(svid.Certificates[0].PublicKey)
					rq := is.requests()
					ok = bytes.Equal(der, cder) && tok >= 0 && tok < len(rq) && bytes.Equal(rq[tok].PubDER, der)
				}
				ch <- res{strconv.Itoa(tok), ok}
			}()
		}
		initial := len(is.requests()) <= 1 && outstanding // GetX509SVID legitimately waits for the initial fetch
		select {
		case r := <-ch:
			out.Served = append(out.Served, r.tok)
			out.ServedOK = append(out.ServedOK, r.ok)
		case <-time.After(func() time.Duration {
			if initial {
				return 30 * time.Millisecond
			}
			return callDeadline // a GetX509SVID call that takes this long is reported as blocked
		}()):
			if initial {
				out.Served = append(out.Served, "none")
				out.ServedOK = append(out.ServedOK, true)
			} else {
				out.Served = append(out.Served, "hang")
				out.ServedOK = append(out.ServedOK, false)
				out.Hang = "GetX509SVID did not return after " + label
				if outstanding {
					out.HangInFlight = true
				}
			}
		}
		if sc.Dir {
			out.Pub = append(out.Pub, readPub(target, label, is.requests()))
		}
		out.StepEnd = append(out.StepEnd, clk.Now())
		out.InFlight = append(out.InFlight, outstanding)
		out.NAns = append(out.NAns, nAnswered)
	}
	answerNow := func() {
		outstanding = false
		nAnswered++
		is.gate <- Item{} // next item of the script
		if !quiesce() {
			out.Hang = "the rotation loop neither armed a timer nor issued a request after an answer"
		}
		out.Acts = append(out.Acts, "ans")
		out.Overshoot = append(out.Overshoot, 0)
		observe("ans" + strconv.Itoa(len(out.Acts)))
	}
	autoAnswer := func() {
		for !sc.Hold && outstanding && out.Hang == "" && len(out.Acts) < 400 {
			answerNow()
		}
	}

	if !quiesce() {
		out.Hang = "Run neither returned nor issued its initial request"
	}
	observe("start")
	autoAnswer()
	for j, st := range sc.Steps {
		if out.Hang != "" {
			break
		}
		label := "step" + strconv.Itoa(j+1)
		switch {
		case st.Ans:
			if outstanding {
				answerNow()
			}
			continue
		case !st.W && st.D == 0:
			ta.set(st.Anch)
			out.Acts = append(out.Acts, "t:"+strconv.Itoa(st.Anch))
			out.Overshoot = append(out.Overshoot, 0)
		default:
			d := time.Duration(st.D)
			dl, armed := clk.NextDeadline()
			if st.W {
				d = 0
				if armed && !returned && !outstanding {
					d = dl.Sub(clk.Now())
				}
				// … but never beyond the instant at which the property itself says something is due:
				// 10 s after the newest request, if that was a failed renewal (on a tree that arms its
				// retry timer for exactly 10 s this is the armed deadline; on a tree that armed a longer
				// timer, no timer, or whose Run has returned, the clock still stops at +10 s and the
				// retry monitor sees a reading at which the retry was due)
				if rq := is.requests(); !outstanding && len(rq) >= 2 && !rq[len(rq)-1].Answered.IsZero() && !sc.good(rq[len(rq)-1]) {
					due := rq[len(rq)-1].Answered.Add(10 * time.Second)
					if due.After(clk.Now()) && (returned || !armed || due.Before(dl)) {
						d = due.Sub(clk.Now())
					}
				}
				out.Acts = append(out.Acts, "w")
			} else {
				out.Acts = append(out.Acts, "a:"+strconv.FormatInt(st.D, 10))
			}
			over := time.Duration(0)
			if armed && d > 0 {
				if o := clk.Now().Add(d).Sub(dl); o > 0 {
					over = o
				}
				if over > d {
					over = d
				}
			}
			out.Overshoot = append(out.Overshoot, over)
			if d > 0 {
				fired := clk.Step(d)
				if fired > 0 && !returned {
					if !quiesce() {
						out.Hang = "rotation loop did not arm its next timer after " + label
					}
				}
			}
		}
		observe(label)
		autoAnswer()
	}
	// clean-up: cancel; an outstanding request returns through ctx.Done
	omu.Lock()
	res := out
	res.PubAtReq = append([]pubObs(nil), out.PubAtReq...)
	omu.Unlock()
	res.InitErr = returned && len(is.requests()) <= 1
	res.Reqs = is.requests()
	res.Timers = clk.ArmedLog()
	cancel()
	if !returned {
		select {
		case err := <-runDone:
			if err != nil && !outstanding {
				res.RunRet = "err"
			} else {
				res.RunRet = "nil"
			}
		case <-time.After(deadline):
			res.RunRet = "pending"
		}
	}
	return res
}

func rel(t time.Time) int64 { return t.Sub(T0).Nanoseconds() }

// good says whether request r made fetchIdentityCertificate return an SVID.
func (sc NScenario) good(r reqRec) bool {
	return r.Kind == kOK || ((r.Kind == kAnchorErr || r.Kind == kWriteErr) && !sc.Dir)
}

// implLine canonicalises what was observed, in the format of the model driver's answer.
func implLine(sc NScenario, o nOutcome) string {
	var reqs, timers, pub []string
	for _, r := range o.Reqs {
		if r.Answered.IsZero() {
			reqs = append(reqs, fmt.Sprintf("%d:p", rel(r.Stamp)))
			continue
		}
		g := "0"
		if sc.good(r) {
			g = "1"
		}
		reqs = append(reqs, fmt.Sprintf("%d:%s:%d", rel(r.Stamp), g, rel(r.Answered)))
	}
	for _, t := range o.Timers {
		timers = append(timers, fmt.Sprintf("%d:%d", rel(t.At), int64(t.D)))
	}
	for i := range o.Served {
		if sc.Dir && i < len(o.Pub) {
			pub = append(pub, o.Pub[i].String())
		} else {
			pub = append(pub, "none")
		}
	}
	return fmt.Sprintf("reqs=%s;served=%s;timers=%s;pub=%s", strings.Join(reqs, ","), strings.Join(o.Served, ","),
		strings.Join(timers, ","), strings.Join(pub, ","))
}

// modelLine is the request for the model driver: the script carries the validity windows the fake
// issuer really signed (absolute, ns from T0); the steps are the actions actually performed.
func modelLine(sc NScenario, o nOutcome) string {
	var script []string
	for i, it := range sc.Script {
		nb, na := it.A, it.B
		if i < len(o.Reqs) && !o.Reqs[i].NB.IsZero() {
			nb, na = rel(o.Reqs[i].NB), rel(o.Reqs[i].NA)
		}
		switch it.Kind {
		case kOK:
			script = append(script, fmt.Sprintf("o:%d:%d", nb, na))
		case kAnchorErr, kWriteErr:
			script = append(script, fmt.Sprintf("a:%d:%d", nb, na))
		case kFail:
			script = append(script, errModelWord(it.Err)) // the error kind is a parameter of the model's script
		default:
			script = append(script, "f")
		}
	}
	d := "0"
	if sc.Dir {
		d = "1"
	}
	return fmt.Sprintf("renew dir=%s anch=%d t0=0 script=%s steps=%s", d, sc.Anch, strings.Join(script, ","), strings.Join(o.Acts, ","))
}
