package main

import (
	"bytes"
	"context"
	"crypto/ecdsa"
	"crypto/x509"
	"encoding/pem"
	"fmt"
	"os"
	"path/filepath"
	"strconv"
	"strings"
	"time"

	"github.com/dapr/kit/crypto/spiffe"
)

// NStep is one environment action of a renewal scenario: advance the fake clock by D ns, or (D == 0)
// switch the trust-anchor bundle to version Anch.
// W: advance exactly to the deadline of the armed timer (no overshoot).
type NStep struct {
	D    int64 `json:"d,omitempty"`
	Anch int   `json:"anch,omitempty"`
	W    bool  `json:"w,omitempty"`
}

type NScenario struct {
	Dir    bool    `json:"dir"`
	Anch   int     `json:"anch"`
	Script []Item  `json:"script"`
	Steps  []NStep `json:"steps"`
}

// pubObs is the file set found in the write directory at one observation point.
type pubObs struct {
	When    string // "req<k>" | "step<j>"
	Present bool
	Ver     string // version directory the target pointed to
	KeyTok  int    // index of the request whose CSR key equals key.pem (-1: none)
	CertTok int    // serial-1000 of the leaf in cert.pem
	ChainN  int
	Anchors int // version parsed from ca.pem (-1: unparsable)
	Err     string
}

type nOutcome struct {
	Reqs     []reqRec
	Served   []string // after start and after each step: token or "none"
	ServedOK []bool   // key of the served SVID matches its certificate and the CSR of that request
	Timers   []armRec
	Pub      []pubObs // observations at step ends (index-aligned with Served) when Dir
	PubAtReq []pubObs // observations at request arrivals
	StepEnd  []time.Time
	// Overshoot[j]: how far step j ended beyond the deadline of the timer that was armed before it
	// (capped by the step's length; 0 for a step that fired nothing or landed exactly).
	Overshoot []time.Duration
	InitErr   bool
	Hang      string
	Panic     string
	RunRet    string
}

func readPub(target, when string, reqs []reqRec) pubObs {
	o := pubObs{When: when, KeyTok: -1, CertTok: -1, Anchors: -1}
	ver, err := os.Readlink(target)
	if err != nil {
		return o // nothing published yet
	}
	if !filepath.IsAbs(ver) {
		ver = filepath.Join(filepath.Dir(target), ver)
	}
	o.Present = true
	o.Ver = filepath.Base(ver)
	kb, err1 := os.ReadFile(filepath.Join(ver, "key.pem"))
	cb, err2 := os.ReadFile(filepath.Join(ver, "cert.pem"))
	ab, err3 := os.ReadFile(filepath.Join(ver, "ca.pem"))
	if err1 != nil || err2 != nil || err3 != nil {
		o.Err = fmt.Sprint("incomplete file set: ", err1, err2, err3)
		return o
	}
	ents, _ := os.ReadDir(ver)
	if len(ents) != 3 {
		o.Err = fmt.Sprintf("version directory holds %d entries, want 3", len(ents))
	}
	if blk, _ := pem.Decode(kb); blk != nil {
		var pub any
		if k, err := x509.ParsePKCS8PrivateKey(blk.Bytes); err == nil {
			if ek, ok := k.(*ecdsa.PrivateKey); ok {
				pub = &ek.PublicKey
			}
		} else if ek, err := x509.ParseECPrivateKey(blk.Bytes); err == nil {
			pub = &ek.PublicKey
		}
		if pub != nil {
			der, _ := x509.MarshalPKIXPublicKey(pub)
			for _, r := range reqs {
				if bytes.Equal(r.PubDER, der) {
					o.KeyTok = r.Idx
				}
			}
		}
	}
	rest := cb
	for {
		var blk *pem.Block
		blk, rest = pem.Decode(rest)
		if blk == nil {
			break
		}
		if c, err := x509.ParseCertificate(blk.Bytes); err == nil {
			if o.ChainN == 0 {
				o.CertTok = int(c.SerialNumber.Int64() - 1000)
			}
			o.ChainN++
		}
	}
	s := string(ab)
	if strings.HasPrefix(s, "-----FAKE ANCHORS v") {
		if v, err := strconv.Atoi(strings.TrimSuffix(strings.TrimPrefix(strings.TrimSpace(s), "-----FAKE ANCHORS v"), "-----")); err == nil {
			o.Anchors = v
		}
	}
	return o
}

func (o pubObs) String() string {
	if !o.Present {
		return "none"
	}
	return fmt.Sprintf("%d/%d/%d", o.KeyTok, o.CertTok, o.Anchors)
}

// runRenew executes one renewal scenario against the real package on the fake clock.
func runRenew(sc NScenario, ca *fakeCA, workdir string, deadline time.Duration) (out nOutcome) {
	defer func() {
		if r := recover(); r != nil {
			out.Panic = fmt.Sprint(r)
		}
	}()
	clk := newVClock(T0)
	is := &issuer{ca: ca, clk: clk, script: append([]Item(nil), sc.Script...)}
	ta := &fakeTA{is: is, version: sc.Anch}
	opts := spiffe.Options{Log: quietLog, RequestSVIDFn: is.fn, TrustAnchors: ta}
	var target string
	if sc.Dir {
		target = filepath.Join(workdir, "id")
		opts.WriteIdentityToFile = &target
		defer os.RemoveAll(workdir)
	}
	// a scripted dir.Write failure: while that fetch runs, the base directory is moved away and a
	// regular file takes its place (MkdirAll then fails); it is put back once the loop is quiet again
	away := workdir + ".away"
	blocked := false
	restore := func() {
		if blocked {
			os.Remove(workdir)
			os.Rename(away, workdir)
			blocked = false
		}
	}
	defer restore()
	defer os.RemoveAll(away)
	is.onReq = func(idx int) {
		is.mu.Lock()
		is.reqs[idx].Anchors = func() int { ta.mu.Lock(); defer ta.mu.Unlock(); return ta.version }()
		reqs := append([]reqRec(nil), is.reqs...)
		is.mu.Unlock()
		if sc.Dir {
			out.PubAtReq = append(out.PubAtReq, readPub(target, "req"+strconv.Itoa(idx), reqs))
		}
		if sc.Dir && idx < len(sc.Script) && sc.Script[idx].Kind == kWriteErr {
			os.MkdirAll(workdir, 0o755)
			if os.Rename(workdir, away) == nil && os.WriteFile(workdir, []byte("not a directory"), 0o644) == nil {
				blocked = true
			}
		}
	}
	s := spiffe.New(opts)
	spiffe.VerifSetClock(s, clk)
	src := s.SVIDSource()

	ctx, cancel := context.WithCancel(context.Background())
	runDone := make(chan error, 1)
	go func() {
		defer func() {
			if r := recover(); r != nil {
				runDone <- fmt.Errorf("panic: %v", r)
			}
		}()
		runDone <- s.Run(ctx)
	}()

	returned := false
	// quiesce: the rotation goroutine has armed a timer that lies in the future, or Run returned.
	quiesce := func() bool {
		dl := time.Now().Add(deadline)
		for time.Now().Before(dl) {
			if clk.Pending() > 0 {
				return true
			}
			select {
			case err := <-runDone:
				returned = true
				if err != nil {
					out.RunRet = "err"
					if strings.HasPrefix(err.Error(), "panic:") {
						out.Panic = err.Error()
					}
				} else {
					out.RunRet = "nil"
				}
				return true
			case <-clk.sig:
			case <-time.After(time.Millisecond):
			}
		}
		return false
	}
	observe := func(j int) {
		restore()
		type res struct {
			tok string
			ok  bool
		}
		ch := make(chan res, 1)
		go func() {
			defer func() {
				if r := recover(); r != nil {
					ch <- res{"panic", false}
				}
			}()
			svid, err := src.GetX509SVID()
			if err != nil || svid == nil || len(svid.Certificates) == 0 {
				ch <- res{"none", true}
				return
			}
			tok := int(svid.Certificates[0].SerialNumber.Int64() - 1000)
			ok := false
			if pk, isEC := svid.PrivateKey.(*ecdsa.PrivateKey); isEC {
				der, _ := x509.MarshalPKIXPublicKey(&pk.PublicKey)
				cder, _ := x509.MarshalPKIXPublicKey(svid.Certificates[0].PublicKey)
				rq := is.requests()
				ok = bytes.Equal(der, cder) && tok >= 0 && tok < len(rq) && bytes.Equal(rq[tok].PubDER, der)
			}
			ch <- res{strconv.Itoa(tok), ok}
		}()
		select {
		case r := <-ch:
			out.Served = append(out.Served, r.tok)
			out.ServedOK = append(out.ServedOK, r.ok)
		case <-time.After(deadline):
			out.Served = append(out.Served, "hang")
			out.ServedOK = append(out.ServedOK, false)
			out.Hang = "GetX509SVID did not return after step " + strconv.Itoa(j)
		}
		if sc.Dir {
			out.Pub = append(out.Pub, readPub(target, "step"+strconv.Itoa(j), is.requests()))
		}
		out.StepEnd = append(out.StepEnd, clk.Now())
	}

	if !quiesce() {
		out.Hang = "Run neither returned nor armed a timer after the initial fetch"
	}
	out.InitErr = returned
	observe(0)
	for j, st := range sc.Steps {
		if out.Hang != "" {
			break
		}
		d := time.Duration(st.D)
		dl, armed := clk.NextDeadline()
		if st.W {
			d = 0
			if armed && !returned {
				d = dl.Sub(clk.Now())
			}
		}
		over := time.Duration(0)
		if armed && d > 0 {
			if o := clk.Now().Add(d).Sub(dl); o > 0 {
				over = o
			}
			if over > d {
				over = d
			}
		}
		out.Overshoot = append(out.Overshoot, over)
		if !st.W && st.D == 0 {
			ta.set(st.Anch)
		} else if d <= 0 {
			// nothing armed: the clock stays
		} else if !returned {
			if fired := clk.Step(d); fired > 0 {
				if !quiesce() {
					out.Hang = "rotation loop did not arm its next timer after step " + strconv.Itoa(j+1)
				}
			}
		} else {
			clk.Step(d)
		}
		observe(j + 1)
	}
	cancel()
	if !returned {
		select {
		case err := <-runDone:
			if err != nil {
				out.RunRet = "err"
			} else {
				out.RunRet = "nil"
			}
		case <-time.After(deadline):
			out.RunRet = "pending"
		}
	}
	out.Reqs = is.requests()
	out.Timers = clk.ArmedLog()
	return out
}

func rel(t time.Time) int64 { return t.Sub(T0).Nanoseconds() }

// good says whether request r made fetchIdentityCertificate return an SVID.
func (sc NScenario) good(r reqRec) bool {
	return r.Kind == kOK || ((r.Kind == kAnchorErr || r.Kind == kWriteErr) && !sc.Dir)
}

// implLine canonicalises what was observed, in the format of the model driver's answer.
func implLine(sc NScenario, o nOutcome) string {
	var reqs, timers, pub []string
	for _, r := range o.Reqs {
		g := "0"
		if sc.good(r) {
			g = "1"
		}
		reqs = append(reqs, fmt.Sprintf("%d:%s", rel(r.Stamp), g))
	}
	for _, t := range o.Timers {
		timers = append(timers, fmt.Sprintf("%d:%d", rel(t.At), int64(t.D)))
	}
	for i := range o.Served {
		if sc.Dir && i < len(o.Pub) {
			pub = append(pub, o.Pub[i].String())
		} else {
			pub = append(pub, "none")
		}
	}
	return fmt.Sprintf("reqs=%s;served=%s;timers=%s;pub=%s", strings.Join(reqs, ","), strings.Join(o.Served, ","),
		strings.Join(timers, ","), strings.Join(pub, ","))
}

// modelLine is the request for the model driver: the script carries the validity windows the fake
// issuer really signed (absolute, ns from T0).
func modelLine(sc NScenario, o nOutcome) string {
	var script, steps []string
	for i, it := range sc.Script {
		nb, na := it.A, it.B
		if i < len(o.Reqs) && !o.Reqs[i].NB.IsZero() {
			nb, na = rel(o.Reqs[i].NB), rel(o.Reqs[i].NA)
		}
		switch it.Kind {
		case kOK:
			script = append(script, fmt.Sprintf("o:%d:%d", nb, na))
		case kAnchorErr, kWriteErr:
			script = append(script, fmt.Sprintf("a:%d:%d", nb, na))
		default:
			script = append(script, "f")
		}
	}
	for _, st := range sc.Steps {
		if st.W {
			steps = append(steps, "w")
		} else if st.D == 0 {
			steps = append(steps, "t:"+strconv.Itoa(st.Anch))
		} else {
			steps = append(steps, "a:"+strconv.FormatInt(st.D, 10))
		}
	}
	d := "0"
	if sc.Dir {
		d = "1"
	}
	return fmt.Sprintf("renew dir=%s anch=%d t0=0 script=%s steps=%s", d, sc.Anch, strings.Join(script, ","), strings.Join(steps, ","))
}
