package main

import (
	"verifharness/lib"
)

// The "Run's context is done" readiness family.
//
// The property's first clause — once the initial fetch finishes, Ready and GetX509SVID return,
// GetX509SVID with the SVID if it succeeded and an error otherwise — says nothing about the context
// that was given to Run: it holds just the same when that context is already done while the initial
// fetch runs (a shutdown during the first issuer request, an issuer failure that coincides with the
// cancellation, a Run started with a context that is already over).  GetX509SVID takes no context at
// all and a Ready caller brings its OWN context, so neither can be released by Run's.
//
// Skeletons (where Run's ctx ends relative to the initial fetch; the issuer of a readiness scenario
// keeps the request parked until the harness answers it, whatever happens to the ctx meanwhile):
//
//	A  stoprun, run, ANSWER            the ctx is over before Run is called
//	B  run, stoprun, ANSWER            it ends while the request is in flight; the issuer then returns
//	                                   success / an error of its own / the ctx's Err() (bare, wrapped, cause)
//	C  run, ANSWER+stoprun             it is ended inside the issuer callback, immediately before the
//	                                   answer is returned (the failure coincides with the shutdown)
//	D  run, ANSWER, stoprun            it ends right after the issuer returned
//	E  runp, ANSWER, stoprun, rrel     … while Run is held between close(readyCh) and Unlock
//	F  runp, stoprun, ANSWER, rrel     in flight, and Run would be held at the hook afterwards
//	G  runp, ANSWER+stoprun, rrel
//	N  run, ANSWER                     control: the ctx stays alive, but the ERROR looks like a context
//	                                   error (bare / wrapped sentinels, a child ctx of the issuer's own)
//
// crossed with the consumers — GetX509SVID, GetX509SVID parked at the hook, Ready with its own live
// context — each placed at EVERY position of the skeleton (before everything, before Run, during the
// request, after the answer, after Run returned), in both orders when two share a position; and with how
// the ctx ends (cancelled / deadline passed).
type skeleton struct {
	name string
	ops  []ROp
}

func ansOp(kind, errKind string) ROp {
	return ROp{Op: kind, E: errKind}
}

// answers whose error value depends on the ctx being done at the time of the answer
var ctxAnswers = [][2]string{{"ok", ""}, {"fail", ""}, {"fail", "own-ctx"}, {"fail", "own-ctx-wrapped"}}
var ctxAnswersMore = [][2]string{{"fail", "own-ctx-cause"}, {"fail", "bare-canceled"}, {"fail", "wrap-deadline"}, {"fail", "child-timeout"}}

// answers given while the ctx is (still) alive
var liveAnswers = [][2]string{{"ok", ""}, {"fail", ""}}
var liveAnswersMore = [][2]string{{"fail", "bare-canceled"}, {"fail", "wrap-canceled"}}

// control answers: errors that look like context errors although Run's ctx is alive throughout
var lookAlikeAnswers = [][2]string{{"fail", "bare-canceled"}, {"fail", "wrap-deadline"}, {"fail", "custom-is-canceled"}, {"fail", "child-timeout"}}
var lookAlikeAnswersMore = [][2]string{{"fail", "bare-deadline"}, {"fail", "join-both"}, {"fail", "child-cancel"}, {"fail", "text-canceled"}}

func skeletons(how string, more bool) []skeleton {
	var out []skeleton
	stop := ROp{Op: "stoprun", S: how}
	withX := func(a ROp) ROp { a.X, a.S = true, how; return a }
	ca, la := ctxAnswers, liveAnswers
	if more {
		ca = append(append([][2]string(nil), ca...), ctxAnswersMore...)
		la = append(append([][2]string(nil), la...), liveAnswersMore...)
	}
	for _, a := range ca {
		ans := ansOp(a[0], a[1])
		out = append(out,
			skeleton{"A:ctx-done-before-Run", []ROp{stop, {Op: "run"}, ans}},
			skeleton{"B:ctx-done-in-flight", []ROp{{Op: "run"}, stop, ans}},
			skeleton{"C:ctx-done-as-issuer-returns", []ROp{{Op: "run"}, withX(ans)}})
		if more {
			out = append(out,
				skeleton{"F:ctx-done-in-flight,Run-held", []ROp{{Op: "runp"}, stop, ans, {Op: "rrel"}}},
				skeleton{"G:ctx-done-as-issuer-returns,Run-held", []ROp{{Op: "runp"}, withX(ans), {Op: "rrel"}}})
		}
	}
	for _, a := range la {
		ans := ansOp(a[0], a[1])
		out = append(out,
			skeleton{"D:ctx-done-after-answer", []ROp{{Op: "run"}, ans, stop}},
			skeleton{"E:ctx-done-while-Run-held", []ROp{{Op: "runp"}, ans, stop, {Op: "rrel"}}})
	}
	return out
}

func controlSkeletons(more bool) []skeleton {
	var out []skeleton
	as := lookAlikeAnswers
	if more {
		as = append(append([][2]string(nil), as...), lookAlikeAnswersMore...)
	}
	for _, a := range as {
		out = append(out, skeleton{"N:ctx-alive,error-looks-like-ctx-error", []ROp{{Op: "run"}, ansOp(a[0], a[1])}})
	}
	return out
}

// place inserts the consumers (kind, slot) into the skeleton: slot k = before skeleton op k, slot
// len(skeleton) = after the last op.  Consumers sharing a slot are called in the order given.  Parked
// readers are released at the end (after a q).
func place(sk []ROp, cons [][2]any) RScenario {
	var sc RScenario
	n := 0
	var parked []int
	emit := func(slot int) {
		for _, c := range cons {
			if c[1].(int) != slot {
				continue
			}
			k := c[0].(string)
			sc.Ops = append(sc.Ops, ROp{Op: k})
			if k == "getp" {
				parked = append(parked, n)
			}
			n++
		}
	}
	for i, op := range sk {
		emit(i)
		sc.Ops = append(sc.Ops, op)
	}
	emit(len(sk))
	if len(parked) > 0 {
		sc.Ops = append(sc.Ops, ROp{Op: "q"})
		for _, i := range parked {
			sc.Ops = append(sc.Ops, ROp{Op: "rel", I: i})
		}
	}
	return sc
}

// placements: every assignment of the consumer kinds to slots 0..nslots-1; with sameSlotOnly only the
// assignments that put all of them at one position.
func placements(kinds []string, nslots int, sameSlotOnly bool) [][][2]any {
	var out [][][2]any
	var rec func(i int, cur [][2]any)
	rec = func(i int, cur [][2]any) {
		if i == len(kinds) {
			out = append(out, append([][2]any(nil), cur...))
			return
		}
		for s := 0; s < nslots; s++ {
			if sameSlotOnly && i > 0 && cur[0][1].(int) != s {
				continue
			}
			rec(i+1, append(cur, [2]any{kinds[i], s}))
		}
	}
	rec(0, nil)
	return out
}

// runCtxReady enumerates the family.  level 0 = quick, 1 = thorough / search.
func runCtxReady(level int) []RScenario {
	more := level > 0
	var out []RScenario
	seen := map[string]bool{}
	add := func(sc RScenario) {
		k := sc.String()
		if !seen[k] {
			seen[k] = true
			out = append(out, sc)
		}
	}
	shapes := [][]string{{"get"}, {"ready"}, {"get", "ready"}, {"ready", "get"}, {"getp"}}
	if more {
		shapes = append(shapes, []string{"getp", "ready"}, []string{"get", "get", "ready"}, []string{"ready", "getp", "get"})
	}
	for _, sk := range append(skeletons("", more), controlSkeletons(more)...) {
		for _, sh := range shapes {
			for _, pl := range placements(sh, len(sk.ops)+1, len(sh) > 2) {
				add(place(sk.ops, pl))
			}
		}
	}
	// the ctx ends because its deadline passed (ctx.Err() = context.DeadlineExceeded)
	for _, sk := range skeletons("deadline", more) {
		for _, sh := range [][]string{{"get", "ready"}, {"getp"}} {
			for _, pl := range placements(sh, len(sk.ops)+1, !more) {
				add(place(sk.ops, pl))
			}
		}
	}
	// a second Run after the first one ended on the ctx-done path answers "already running": nothing
	// will ever signal readiness again, the waiting calls must already have been released
	for _, a := range ctxAnswers {
		for _, how := range []string{"", "deadline"} {
			add(RScenario{Ops: []ROp{{Op: "get"}, {Op: "ready"}, {Op: "run"}, {Op: "stoprun", S: how}, ansOp(a[0], a[1]), {Op: "run2"}, {Op: "get"}, {Op: "ready"}}})
			add(RScenario{Ops: []ROp{{Op: "stoprun", S: how}, {Op: "run"}, {Op: "readyc"}, {Op: "get"}, ansOp(a[0], a[1]), {Op: "q"}, {Op: "cancel", I: 0}, {Op: "run2"}}})
		}
	}
	// a renewal in flight when the ctx ends: the answer (ok / error / the ctx's error) arrives afterwards
	for _, a := range ctxAnswers {
		add(RScenario{Ops: []ROp{{Op: "run"}, {Op: "ok"}, {Op: "getp"}, {Op: "step"}, {Op: "stoprun"}, {Op: "get"}, ansOp(a[0], a[1]), {Op: "get"}, {Op: "ready"}, {Op: "q"}, {Op: "rel", I: 0}}})
	}
	return out
}

// randomRunCtx: a random skeleton, answer, way of ending the ctx, and 1..4 consumers of random kinds at
// random positions, with q observations, a second Run and cancellations of consumers' own contexts.
func randomRunCtx(r *lib.Rand) RScenario {
	how := ""
	if r.Intn(3) == 0 {
		how = "deadline"
	}
	sks := append(skeletons(how, true), controlSkeletons(true)...)
	sk := append([]ROp(nil), sks[r.Intn(len(sks))].ops...)
	// any error kind for the answer, now and then
	if r.Intn(3) == 0 {
		for i := range sk {
			if sk[i].Op == "fail" {
				sk[i].E = errKinds[r.Intn(len(errKinds))].Name
			}
		}
	}
	nc := r.Range(1, 4)
	var cons [][2]any
	for i := 0; i < nc; i++ {
		cons = append(cons, [2]any{[]string{"get", "get", "getp", "ready", "readyc"}[r.Intn(5)], r.Intn(len(sk) + 1)})
	}
	sc := place(sk, cons)
	// sprinkle observations, a second Run and cancellations of the consumers' own contexts
	var ops []ROp
	ncons, seenRun := 0, false
	var ctxs []int
	for _, op := range sc.Ops {
		switch op.Op {
		case "get", "getp", "ready":
			ncons++
		case "readyc":
			ctxs = append(ctxs, ncons)
			ncons++
		case "run", "runp":
			seenRun = true
		}
		ops = append(ops, op)
		switch r.Intn(8) {
		case 0:
			ops = append(ops, ROp{Op: "q"})
		case 1:
			if seenRun {
				ops = append(ops, ROp{Op: "run2"})
			}
		case 2:
			if len(ctxs) > 0 {
				j := r.Intn(len(ctxs))
				ops = append(ops, ROp{Op: "cancel", I: ctxs[j]})
				ctxs = append(ctxs[:j], ctxs[j+1:]...)
			}
		}
	}
	// "rel" ops were appended by place after a q; keep them last
	sc.Ops = ops
	return sc
}
