package main

import (
	"bytes"
	"context"
	"crypto/ecdsa"
	"crypto/elliptic"
	"crypto/rand"
	"crypto/x509"
	"crypto/x509/pkix"
	"encoding/pem"
	"fmt"
	"math/big"
	"os"
	"path/filepath"
	"strconv"
	"strings"
	"sync"
	"time"

	"github.com/spiffe/go-spiffe/v2/spiffeid"

	"github.com/dapr/kit/crypto/spiffe/trustanchors"
)

// TOp is one operation of a trust-anchor-source scenario (trustanchors.FromFile):
//
//	run / stop        call Run in a new goroutine / cancel its ctx
//	file (V>0)        write trust-anchor file version V; V == 0: garbage; V < 0: remove nothing, write empty
//	bundle            GetX509BundleForTrustDomain in a new goroutine     (consumer index = order of calls)
//	anchors, anchorsc CurrentTrustAnchors(ctx) in a new goroutine; anchorsc: ctx cancellable by "cancel"
//	watch             Watch(ctx, ch) in a new goroutine (ch is drained by the harness)
//	cancel            cancel the ctx of consumer I
//	q                 settle and report which calls are pending
type TOp struct {
	Op string `json:"op"`
	I  int    `json:"i,omitempty"`
	V  int    `json:"v,omitempty"`
}

type TScenario struct {
	Ops []TOp `json:"ops"`
}

func (s TScenario) String() string {
	var b []string
	for _, o := range s.Ops {
		switch o.Op {
		case "file":
			b = append(b, "file"+strconv.Itoa(o.V))
		case "cancel":
			b = append(b, "cancel"+strconv.Itoa(o.I))
		default:
			b = append(b, o.Op)
		}
	}
	return strings.Join(b, " ")
}

type tOutcome struct {
	Events  []string       `json:"events"`
	Rets    map[int]string `json:"rets"`
	Kinds   []string       `json:"kinds"`
	Pending []int          `json:"pending"`
	RunRet  string         `json:"run_ret"`
	Watched []string       `json:"watched"`
	Panic   string         `json:"panic,omitempty"`
}

// rootsPEM[v] is trust-anchor file version v (v >= 1): one self-signed root.
type taRoots struct {
	pems [][]byte
	ders [][]byte
}

func newTARoots(n int) *taRoots {
	r := &taRoots{pems: make([][]byte, n+1), ders: make([][]byte, n+1)}
	for v := 1; v <= n; v++ {
		key, err := ecdsa.GenerateKey(elliptic.P256(), rand.Reader)
		if err != nil {
			panic(err)
		}
		tmpl := &x509.Certificate{SerialNumber: big.NewInt(int64(v)), Subject: pkix.Name{CommonName: "c19 root v" + strconv.Itoa(v)},
			NotBefore: time.Unix(0, 0), NotAfter: time.Unix(1<<34, 0), IsCA: true, BasicConstraintsValid: true, KeyUsage: x509.KeyUsageCertSign}
		der, err := x509.CreateCertificate(rand.Reader, tmpl, tmpl, &key.PublicKey, key)
		if err != nil {
			panic(err)
		}
		r.ders[v] = der
		r.pems[v] = pem.EncodeToMemory(&pem.Block{Type: "CERTIFICATE", Bytes: der})
	}
	return r
}

func (r *taRoots) versionOfPEM(b []byte) string {
	for v := 1; v < len(r.pems); v++ {
		if bytes.Equal(b, r.pems[v]) {
			return strconv.Itoa(v)
		}
	}
	return "?"
}

func (r *taRoots) versionOfDER(b []byte) string {
	for v := 1; v < len(r.ders); v++ {
		if bytes.Equal(b, r.ders[v]) {
			return strconv.Itoa(v)
		}
	}
	return "?"
}

// runTA executes one trust-anchor-source scenario against the real package (real files, real
// fswatcher with a short batching interval).
func runTA(sc TScenario, roots *taRoots, workdir string, settle, deadline time.Duration) tOutcome {
	// `out` is written by the goroutines of the scenario; the value returned is a snapshot taken
	// before the clean-up (an unnamed result: deferred functions and late goroutines cannot alter it)
	var out tOutcome
	out.Rets = map[int]string{}
	var mu sync.Mutex
	ev := func(s string) {
		mu.Lock()
		out.Events = append(out.Events, s)
		mu.Unlock()
	}
	os.MkdirAll(workdir, 0o755)
	defer os.RemoveAll(workdir)
	path := filepath.Join(workdir, "ca.pem")
	ta := trustanchors.VerifFromFile(trustanchors.OptionsFile{Log: quietLog, Path: path}, 3*time.Millisecond, 2*time.Millisecond)
	td := spiffeid.RequireTrustDomainFromString("example.org")

	runCtx, runCancel := context.WithCancel(context.Background())
	defer runCancel()
	runDone := make(chan struct{})
	runCalled := false
	cancels := map[int]context.CancelFunc{}
	ncons := 0
	guard := func(what string, f func()) {
		defer func() {
			if r := recover(); r != nil {
				mu.Lock()
				out.Panic = fmt.Sprintf("%s: %v", what, r)
				mu.Unlock()
			}
		}()
		f()
	}
	pendingNow := func() []int {
		mu.Lock()
		defer mu.Unlock()
		var p []int
		for i := 0; i < ncons; i++ {
			if _, ok := out.Rets[i]; !ok && out.Kinds[i] != "watch" {
				p = append(p, i)
			}
		}
		return p
	}
	waitStable := func(window time.Duration) []int {
		dl := time.Now().Add(deadline)
		last := pendingNow()
		lastChange := time.Now()
		for time.Now().Before(dl) {
			time.Sleep(time.Millisecond)
			cur := pendingNow()
			if fmt.Sprint(cur) != fmt.Sprint(last) {
				last, lastChange = cur, time.Now()
			} else if time.Since(lastChange) >= window {
				return last
			}
		}
		return last
	}
	ret := func(i int, r string) {
		mu.Lock()
		out.Rets[i] = r
		mu.Unlock()
		ev("ret:" + strconv.Itoa(i) + ":" + r)
	}
	for _, op := range sc.Ops {
		switch op.Op {
		case "run":
			runCalled = true
			ev("cr")
			go guard("Run", func() {
				err := ta.Run(runCtx)
				r := "nil"
				if err != nil {
					r = "err"
				}
				mu.Lock()
				out.RunRet = r
				mu.Unlock()
				ev("rret:" + r)
				close(runDone)
			})
		case "stop":
			ev("stop")
			runCancel()
			if runCalled {
				select {
				case <-runDone:
				case <-time.After(deadline):
				}
			}
		case "file":
			var b []byte
			switch {
			case op.V > 0:
				b = roots.pems[op.V]
			case op.V == 0:
				b = []byte("this is not a PEM file\n")
			}
			ev("file:" + strconv.Itoa(op.V))
			tmp := path + ".tmp"
			os.WriteFile(tmp, b, 0o644)
			os.Rename(tmp, path)
			time.Sleep(10 * settle) // fsnotify + batching interval
		case "bundle":
			i := ncons
			ncons++
			mu.Lock()
			out.Kinds = append(out.Kinds, "bundle")
			mu.Unlock()
			ev("cb")
			go guard("GetX509BundleForTrustDomain", func() {
				b, err := ta.GetX509BundleForTrustDomain(td)
				if err != nil {
					ret(i, "closed")
					return
				}
				if b == nil || len(b.X509Authorities()) != 1 {
					ret(i, "b?")
					return
				}
				ret(i, "b"+roots.versionOfDER(b.X509Authorities()[0].Raw))
			})
		case "anchors", "anchorsc":
			i := ncons
			ncons++
			mu.Lock()
			out.Kinds = append(out.Kinds, op.Op)
			mu.Unlock()
			ctx, c := context.WithCancel(context.Background())
			cancels[i] = c
			ev("ca")
			go guard("CurrentTrustAnchors", func() {
				b, err := ta.CurrentTrustAnchors(ctx)
				switch {
				case err == nil:
					ret(i, "b"+roots.versionOfPEM(b))
				case ctx.Err() != nil && err == ctx.Err():
					ret(i, "ctx")
				default:
					ret(i, "closed")
				}
			})
		case "watch":
			i := ncons
			ncons++
			mu.Lock()
			out.Kinds = append(out.Kinds, "watch")
			mu.Unlock()
			ctx, c := context.WithCancel(context.Background())
			cancels[i] = c
			ch := make(chan []byte)
			ev("cw")
			go func() {
				for {
					select {
					case b := <-ch:
						mu.Lock()
						out.Watched = append(out.Watched, strconv.Itoa(i)+":"+roots.versionOfPEM(b))
						mu.Unlock()
					case <-ctx.Done():
						return
					}
				}
			}()
			go guard("Watch", func() {
				ta.Watch(ctx, ch)
				ret(i, "wret")
			})
		case "cancel":
			if c := cancels[op.I]; c != nil {
				ev("cx:" + strconv.Itoa(op.I))
				c()
			}
		case "q":
			p := waitStable(10 * settle)
			ev("q:" + joinInts(p))
		}
		time.Sleep(settle)
	}
	p := waitStable(10 * settle)
	out.Pending = p
	ev("q:" + joinInts(p))
	mu.Lock()
	evs := append([]string(nil), out.Events...)
	rets := map[int]string{}
	for k, v := range out.Rets {
		rets[k] = v
	}
	kinds := append([]string(nil), out.Kinds...)
	watched := append([]string(nil), out.Watched...)
	snap := tOutcome{Events: evs, Rets: rets, Kinds: kinds, Pending: p, RunRet: out.RunRet, Watched: watched, Panic: out.Panic}
	mu.Unlock()
	runCancel()
	for _, c := range cancels {
		c()
	}
	return snap
}
