package main

import (
	"bytes"
	"fmt"
	"strconv"
	"strings"
	"time"
)

type viol struct {
	ID   string
	What string
}

// monitorReady judges one readiness execution without the model.
func monitorReady(sc RScenario, o rOutcome) (vs []viol) {
	if o.Panic != "" {
		vs = append(vs, viol{"spiffe-panic", "panic in the real code: " + o.Panic})
	}
	runCalled, replied, replyOK := false, false, false
	runHeld := false // Run is (still) held by the harness before its Unlock
	released := map[int]bool{}
	cancelled := map[int]bool{}
	// runCtx: where Run's own ctx was ended by the scenario relative to the initial fetch ("" = never)
	runCtx := runCtxPhase(sc)
	for _, op := range sc.Ops {
		switch op.Op {
		case "run", "runp":
			runCalled = true
			if op.Op == "runp" {
				runHeld = true
			}
		case "rrel":
			runHeld = false
		case "ok", "fail":
			if !replied {
				replied, replyOK = true, op.Op == "ok"
			}
		case "rel":
			released[op.I] = true
		case "cancel":
			cancelled[op.I] = true
		}
	}
	before := map[int]bool{}
	for _, i := range o.BeforeRun {
		before[i] = true
	}
	// clause 1: once the initial fetch finishes, every pending call returns
	if runCalled && replied && !runHeld {
		if o.NoRequest && runCtx != "" && o.RunRet != "" {
			// Run has RETURNED without ever asking the issuer (its ctx was done): nothing will signal
			// readiness any more (a second Run answers "already running"), so a call that is still
			// waiting waits forever — "never deadlock, whatever the order of first calls"
			for _, i := range o.Pending {
				if o.Kinds[i] == "getp" && !released[i] {
					continue
				}
				vs = append(vs, viol{"ready-not-signalled-run-ctx-done", fmt.Sprintf("call %d (%s, own context alive) never returned: Run returned %q without making the initial request and without signalling readiness; Run's own ctx was ended %s: schedule %s",
					i, o.Kinds[i], o.RunRet, runCtx, sc.String())})
			}
		} else if o.NoRequest {
			vs = append(vs, viol{"getsvid-before-run-deadlock",
				"Run was called but its initial request never reached the issuer (Run is blocked): schedule " + sc.String()})
		}
		for _, i := range o.Pending {
			if o.Kinds[i] == "getp" && !released[i] {
				continue // held by the harness at the hook
			}
			if o.NoRequest && runCtx != "" && o.RunRet != "" {
				continue // reported above: there was no initial fetch at all
			}
			id := "ready-deadlock"
			for j := range o.Kinds {
				if before[j] && (o.Kinds[j] == "get" || o.Kinds[j] == "getp") {
					id = "getsvid-before-run-deadlock"
				}
			}
			what := fmt.Sprintf("call %d (%s) never returned although Run was called and the issuer answered: schedule %s",
				i, o.Kinds[i], sc.String())
			if runCtx != "" {
				// the property's clause does not depend on the state of Run's ctx: the initial fetch has
				// finished (the issuer returned: ok=%v), so the call must return
				id = "ready-not-signalled-run-ctx-done"
				what = fmt.Sprintf("call %d (%s, own context alive) never returned although the initial fetch has finished (issuer answered ok=%v, Run returned %q); Run's own ctx was ended %s: schedule %s",
					i, o.Kinds[i], replyOK, o.RunRet, runCtx, sc.String())
			}
			vs = append(vs, viol{id, what})
		}
	}
	// results
	for i, r := range o.Rets {
		switch o.Kinds[i] {
		case "get", "getp":
			if !replied {
				vs = append(vs, viol{"get-returned-before-initial-fetch", fmt.Sprintf("GetX509SVID %d returned %s before the initial fetch finished: %s", i, r, sc.String())})
			} else if replyOK != (r != "e") {
				vs = append(vs, viol{"get-result-wrong", fmt.Sprintf("initial fetch ok=%v but GetX509SVID %d returned %s: %s", replyOK, i, r, sc.String())})
			}
		case "ready", "readyc":
			if r == "ok" && !replied {
				vs = append(vs, viol{"ready-returned-before-initial-fetch", fmt.Sprintf("Ready %d returned nil before the initial fetch finished: %s", i, sc.String())})
			}
			if r == "ctx" && !cancelled[i] {
				vs = append(vs, viol{"ready-ctx-error-without-cancel", fmt.Sprintf("Ready %d returned a ctx error but its ctx was never cancelled: %s", i, sc.String())})
			}
		}
	}
	if o.Run2Ret != "" && o.Run2Ret != "already" {
		vs = append(vs, viol{"second-run-not-rejected", "second Run returned " + o.Run2Ret + ": " + sc.String()})
	}
	if replied && !replyOK && !o.NoRequest && o.RunRet != "err" {
		vs = append(vs, viol{"run-swallowed-initial-error", "initial fetch failed but Run returned " + o.RunRet + ": " + sc.String()})
	}
	return vs
}

// runCtxPhase says where the scenario ends Run's own ctx relative to the initial fetch ("" = it does not).
func runCtxPhase(sc RScenario) string {
	runCalled, replied, runHeld := false, false, false
	for _, op := range sc.Ops {
		if op.endsRunCtx() {
			ph := ""
			switch {
			case op.Op != "stoprun" && replied:
				ph = "inside the issuer callback as a renewal is answered"
			case op.Op != "stoprun":
				ph = "inside the issuer callback, immediately before it returned the initial answer"
			case !runCalled:
				ph = "before Run was called"
			case !replied:
				ph = "while the initial request was in flight at the issuer"
			case runHeld:
				ph = "after the issuer answered, Run held between close(readyCh) and Unlock"
			default:
				ph = "after the issuer answered"
			}
			if op.S != "" {
				ph += " (" + op.S + ")"
			}
			return ph
		}
		switch op.Op {
		case "run":
			runCalled = true
		case "runp":
			runCalled, runHeld = true, true
		case "rrel":
			runHeld = false
		case "ok", "fail":
			replied = true
		}
	}
	return ""
}

// withoutRunCtxEnd is the same schedule with Run's ctx left alive (control for a hang finding).
func withoutRunCtxEnd(sc RScenario) RScenario {
	var out RScenario
	for _, op := range sc.Ops {
		if op.Op == "stoprun" {
			continue
		}
		op.X, op.S = false, ""
		out.Ops = append(out.Ops, op)
	}
	return out
}

// hangFinding: the finding is decided by a deadline (a call that has not returned).
func hangFinding(id string) bool {
	return strings.Contains(id, "deadlock") || id == "ready-not-signalled-run-ctx-done"
}

func half(nb, na time.Time) time.Time { return nb.Add(na.Sub(nb) / 2) }

// monitorRenew judges one renewal execution without the model.
func monitorRenew(sc NScenario, o nOutcome, dist func(string)) (vs []viol) {
	add := func(id, f string, a ...any) {
		vs = append(vs, viol{id, fmt.Sprintf(f, a...) + fmt.Sprintf(" [scenario %s]", scString(sc))})
	}
	if o.Panic != "" {
		add("spiffe-panic", "panic in the real code: %s", o.Panic)
	}
	if o.Hang != "" {
		if o.HangInFlight {
			add("get-blocked-by-renewal-in-flight", "%s: a renewal request was outstanding at the issuer; GetX509SVID must keep returning the current SVID without blocking", o.Hang)
		} else {
			add("rotation-hang", "%s", o.Hang)
		}
		return vs
	}
	if len(o.Reqs) == 0 {
		add("no-initial-request", "Run made no issuer request")
		return vs
	}
	answered := func(k int) bool { return !o.Reqs[k].Answered.IsZero() }
	good := func(k int) bool { return answered(k) && sc.good(o.Reqs[k]) }
	// initial fetch
	if !answered(0) {
		// the issuer never answered the initial request: nothing to judge but that nothing is served
		for j, got := range o.Served {
			if got != "none" {
				add("served-not-latest-good", "observation %d: GetX509SVID served %s although the initial fetch has not finished", j, got)
			}
		}
		return vs
	}
	if !good(0) {
		if !o.InitErr || o.RunRet != "err" {
			add("run-swallowed-initial-error", "initial fetch failed but Run did not return an error (ret=%s)", o.RunRet)
		}
		if len(o.Reqs) != 1 {
			add("request-after-failed-init", "%d requests after a failed initial fetch", len(o.Reqs)-1)
		}
	} else if o.InitErr {
		add("run-returned-early", "Run returned (%s) although the initial fetch succeeded", o.RunRet)
	} else if o.ReturnedAlive && o.Panic == "" {
		// Run has returned while the context it was given is alive (the harness cancels it only after
		// the last step): nothing renews or retries any more, whatever the clock does from here on
		last := "none answered"
		for k := len(o.Reqs) - 1; k >= 0; k-- {
			if answered(k) {
				q := o.Reqs[k]
				last = fmt.Sprintf("last answered request %d: reply %s", k, q.Kind)
				if q.Kind == kFail || q.ErrKind != "" {
					last += fmt.Sprintf(", error kind %s %q (errors.Is Canceled=%v DeadlineExceeded=%v; ctx of the fetch alive=%v)",
						q.ErrKind, q.ErrText, q.ErrIs[0], q.ErrIs[1], q.CtxAlive)
				}
				break
			}
		}
		add("run-returned-while-ctx-alive", "Run returned (%s) after %d issuer requests and %d clock/issuer actions while its context was alive (%s); the certificate is never renewed again",
			o.RunRet, o.ReturnedReqs, o.ReturnedAt, last)
	} else if o.RunRet != "nil" {
		add("run-not-stopped-by-ctx", "Run returned %q after its ctx was cancelled", o.RunRet)
	}
	// served = latest good (clause 2)
	for j, got := range o.Served {
		want := "none"
		for k := range o.Reqs {
			if good(k) && k < o.NAns[j] {
				want = strconv.Itoa(k)
			}
		}
		if got != want {
			add("served-not-latest-good", "after step %d GetX509SVID served %s, latest good fetch is %s", j, got, want)
		} else if got != "none" && !o.ServedOK[j] {
			add("served-key-mismatch", "after step %d the served SVID's private key does not match its certificate / the CSR of request %s", j, got)
		}
	}
	if good(0) {
		// renewal no later than the first wake at/after half-life (clause 3)
		for k := range o.Reqs {
			if !good(k) {
				continue
			}
			r := half(o.Reqs[k].NB, o.Reqs[k].NA)
			tk := o.Reqs[k].Answered // the certificate is in hand when its fetch returns
			var tau time.Time
			var stepLen time.Duration
			found := false
			if !r.After(tk) {
				tau, found = tk, true
				dist("renew:already-past-half-life")
			} else {
				prev := o.StepEnd[0]
				for _, e := range o.StepEnd {
					if e.After(tk) && !e.Before(r) {
						tau, found, stepLen = e, true, e.Sub(prev)
						break
					}
					prev = e
				}
			}
			if !found {
				dist("renew:half-life-not-reached")
				continue
			}
			if k+1 >= len(o.Reqs) {
				add("renewal-late", "cert of request %d (issued %v, half-life %v) passed half-life at clock %v but no renewal request was made", k, rel(tk), rel(r), rel(tau))
				continue
			}
			nx := o.Reqs[k+1].Stamp
			// the statement's form, from the observed times alone: the renewal request is stamped
			// at most δ after max(half-life, issue time), δ = the largest overshoot of a clock step
			// over the armed deadline in this scenario; hence within 1 min + δ of half-life.
			var delta time.Duration
			for _, ov := range o.Overshoot {
				if ov > delta {
					delta = ov
				}
			}
			due := r
			if tk.After(due) {
				due = tk
			}
			late := nx.Sub(due)
			switch {
			case late > delta:
				add("renewal-late", "cert of request %d was due for renewal at %v; the request is stamped %v, %v later, but no clock step overshot a wake by more than %v", k, rel(due), rel(nx), late, delta)
			case late < 0:
				dist("renew:lateness<0(early)")
			case late == 0:
				dist("renew:lateness=0")
			case late <= time.Second:
				dist("renew:lateness<=1s")
			case late <= time.Minute:
				dist("renew:lateness<=1m")
			default:
				dist("renew:lateness>1m(step overshoot)")
			}
			if delta == 0 {
				dist("renew:exact-wake-scenario-renewals")
			}
			if !nx.Equal(tau) {
				add("renewal-late", "cert of request %d: half-life %v, first wake at/after it %v, but the renewal request is stamped %v", k, rel(r), rel(tau), rel(nx))
			} else if stepLen > 0 && stepLen <= time.Minute {
				dist("renew:checked-within-minute")
				if nx.Sub(r) > time.Minute {
					add("renewal-late", "renewal stamped %v is more than a minute after half-life %v", rel(nx), rel(r))
				}
			} else {
				dist("renew:at-first-wake")
			}
			if o.Reqs[k].NB.After(tk) {
				dist("renew:cert-not-yet-valid")
			}
		}
		// failed renewals retried every 10 s (clause 4) — whatever the error says
		for f := 1; f < len(o.Reqs); f++ {
			if good(f) || !answered(f) {
				continue
			}
			if ek := o.Reqs[f].ErrKind; ek != "" {
				dist("renew:failed-renewal-errkind-" + ek)
				if o.Reqs[f].ErrIs[0] || o.Reqs[f].ErrIs[1] {
					dist("renew:failed-renewal-error-is-ctx-error(run-ctx-alive)")
				}
				dist("renew:failed-renewal-at-request-" + bucket(f))
			}
			due := o.Reqs[f].Answered.Add(10 * time.Second) // 10 s after the failed fetch returned
			var tau time.Time
			found := false
			for _, e := range o.StepEnd {
				if !e.Before(due) {
					tau, found = e, true
					break
				}
			}
			if f+1 < len(o.Reqs) {
				nx := o.Reqs[f+1].Stamp
				if nx.Before(due) {
					add("retry-not-10s", "request %d failed (returned at %v); retried at %v, earlier than 10 s", f, rel(o.Reqs[f].Answered), rel(nx))
				} else if found && !nx.Equal(tau) {
					add("retry-not-10s", "request %d failed (returned at %v); first wake at/after +10 s is %v but the retry is stamped %v", f, rel(o.Reqs[f].Answered), rel(tau), rel(nx))
				} else {
					dist("retry:checked")
				}
			} else if found {
				add("retry-not-10s", "request %d failed (returned at %v, reply %s, error kind %q); clock reached %v (>= +10 s) but no retry was made", f, rel(o.Reqs[f].Answered), o.Reqs[f].Kind, o.Reqs[f].ErrKind, rel(tau))
			}
		}
	}
	// fresh key per fetch (clause 5a)
	for i := range o.Reqs {
		if o.Reqs[i].CSRErr != "" {
			add("csr-invalid", "request %d: %s", i, o.Reqs[i].CSRErr)
		}
		for j := 0; j < i; j++ {
			if len(o.Reqs[i].PubDER) > 0 && bytes.Equal(o.Reqs[i].PubDER, o.Reqs[j].PubDER) {
				add("key-reused", "requests %d and %d carry the same public key", j, i)
			}
		}
	}
	// one file set per fetch (clause 5b)
	if sc.Dir {
		check := func(p pubObs, wantLatest int) {
			if !p.Present {
				if wantLatest >= 0 {
					add("fileset-missing", "at %s nothing is published although fetch %d succeeded", p.When, wantLatest)
				}
				return
			}
			switch {
			case p.Err != "":
				add("fileset-mixed", "at %s: %s", p.When, p.Err)
			case p.KeyTok < 0 || p.KeyTok != p.CertTok:
				add("fileset-mixed", "at %s the published key belongs to fetch %d but the chain to fetch %d", p.When, p.KeyTok, p.CertTok)
			case !good(p.KeyTok):
				add("fileset-of-failed-fetch", "at %s the published set belongs to failed fetch %d", p.When, p.KeyTok)
			case p.Anchors != o.Reqs[p.KeyTok].Anchors:
				add("fileset-mixed", "at %s the published anchors are v%d, fetch %d ran with v%d", p.When, p.Anchors, p.KeyTok, o.Reqs[p.KeyTok].Anchors)
			case p.ChainN != 2:
				add("fileset-mixed", "at %s cert.pem holds %d certificates, the issuer returned 2", p.When, p.ChainN)
			case p.KeyTok != wantLatest:
				add("fileset-stale", "at %s the published set is of fetch %d, latest good fetch is %d", p.When, p.KeyTok, wantLatest)
			default:
				dist("fileset:checked")
			}
		}
		for k, p := range o.PubAtReq {
			want := -1
			for i := 0; i < k && i < len(o.Reqs); i++ {
				if good(i) {
					want = i
				}
			}
			check(p, want)
		}
		for j, p := range o.Pub {
			want := -1
			for k := range o.Reqs {
				if good(k) && k < o.NAns[j] {
					want = k
				}
			}
			check(p, want)
		}
	}
	// wakes are at most a minute apart
	for _, t := range o.Timers {
		if t.D > time.Minute {
			add("wake-gap-over-minute", "a timer of %v was armed at %v", t.D, rel(t.At))
		}
	}
	return vs
}

func scString(sc NScenario) string {
	s := fmt.Sprintf("dir=%v hold=%v script=", sc.Dir, sc.Hold)
	for _, it := range sc.Script {
		if it.Kind == kOK || it.Kind == kAnchorErr || it.Kind == kWriteErr || it.Kind == kNoID {
			e := ""
			if it.Err != "" {
				e = "[" + it.Err + "]"
			}
			s += fmt.Sprintf("%s%s(%v,%v) ", it.Kind, e, time.Duration(it.A), time.Duration(it.B))
		} else if it.Err != "" {
			s += it.Kind + "[" + it.Err + "] "
		} else {
			s += it.Kind + " "
		}
	}
	s += "steps="
	for _, st := range sc.Steps {
		if st.Ans {
			s += "answer "
		} else if st.W {
			s += "wake "
		} else if st.D == 0 {
			s += fmt.Sprintf("anch%d ", st.Anch)
		} else {
			s += time.Duration(st.D).String() + " "
		}
	}
	return s
}

// monitorTA judges one trust-anchor-source execution without the model.
func monitorTA(sc TScenario, o tOutcome) (vs []viol) {
	add := func(id, f string, a ...any) {
		vs = append(vs, viol{id, fmt.Sprintf(f, a...) + " [schedule " + sc.String() + "]"})
	}
	if o.Panic != "" {
		add("trustanchors-panic", "panic in the real code: %s", o.Panic)
	}
	runCalled := false
	cancelled := map[int]bool{}
	written := map[string]bool{}
	for _, op := range sc.Ops {
		switch op.Op {
		case "run":
			runCalled = true
		case "cancel":
			cancelled[op.I] = true
		case "file":
			if op.V > 0 {
				written[strconv.Itoa(op.V)] = true
			}
		}
	}
	// the source must be up at the end: Run was called, was not stopped, and the file last written
	// is a good bundle (every file write is followed by a settle period)
	lastFile, stopped := -1, false
	for _, op := range sc.Ops {
		switch op.Op {
		case "file":
			lastFile = op.V
		case "stop":
			stopped = true
		}
	}
	up := runCalled && !stopped && lastFile > 0
	// … or it is seen to be up (some reader got a bundle), or Run ended
	for _, r := range o.Rets {
		if strings.HasPrefix(r, "b") {
			up = true
		}
	}
	if o.RunRet != "" {
		up = true
	}
	for i, r := range o.Rets {
		switch {
		case r == "wret":
		case strings.HasPrefix(r, "b"):
			if !runCalled {
				add("bundle-before-run", "call %d returned %s although Run was never called", i, r)
			}
			if !written[r[1:]] {
				add("bundle-not-a-loaded-version", "call %d returned %s, which is not a version that was written", i, r)
			}
		case r == "closed":
			if o.RunRet == "" {
				add("closed-while-running", "call %d returned 'closed' but Run has not returned", i)
			}
		case r == "ctx":
			if !cancelled[i] {
				add("ctx-error-without-cancel", "call %d returned a ctx error but its ctx was never cancelled", i)
			}
		}
	}
	if up {
		for _, i := range o.Pending {
			add("bundle-source-deadlock", "call %d (%s) never returned although the source is up or Run has ended", i, o.Kinds[i])
		}
	}
	return vs
}
