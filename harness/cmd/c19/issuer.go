package main

import (
	"context"
	"crypto/ecdsa"
	"crypto/elliptic"
	"crypto/rand"
	"crypto/x509"
	"crypto/x509/pkix"
	"errors"
	"fmt"
	"math/big"
	"net/url"
	"sync"
	"time"

	"github.com/spiffe/go-spiffe/v2/bundle/x509bundle"
	"github.com/spiffe/go-spiffe/v2/spiffeid"
)

// fake CA shared by every scenario (one P-256 key for the whole run).
type fakeCA struct {
	key  *ecdsa.PrivateKey
	cert *x509.Certificate
}

func newFakeCA() *fakeCA {
	mk := func(cn string, serial int64, parent *x509.Certificate, parentKey *ecdsa.PrivateKey) (*ecdsa.PrivateKey, *x509.Certificate) {
		key, err := ecdsa.GenerateKey(elliptic.P256(), rand.Reader)
		if err != nil {
			panic(err)
		}
		tmpl := &x509.Certificate{
			SerialNumber:          big.NewInt(serial),
			Subject:               pkix.Name{CommonName: cn},
			NotBefore:             time.Unix(0, 0),
			NotAfter:              time.Unix(1<<34, 0),
			IsCA:                  true,
			BasicConstraintsValid: true,
			KeyUsage:              x509.KeyUsageCertSign,
		}
		if parent == nil {
			parent, parentKey = tmpl, key
		}
		der, err := x509.CreateCertificate(rand.Reader, tmpl, parent, &key.PublicKey, parentKey)
		if err != nil {
			panic(err)
		}
		cert, err := x509.ParseCertificate(der)
		if err != nil {
			panic(err)
		}
		return key, cert
	}
	// root (self-signed; EncodeX509Chain leaves self-signed certificates out) -> issuing CA
	rootKey, root := mk("c19 fake root", 1, nil, nil)
	key, cert := mk("c19 fake issuing ca", 2, root, rootKey)
	return &fakeCA{key: key, cert: cert}
}

// Script item kinds of the fake issuer.
const (
	kOK        = "ok"    // signs a leaf valid [now+A, now+B]
	kFail      = "fail"  // returns an error
	kEmpty     = "empty" // returns an empty chain and no error   (malformed stream)
	kNoID      = "noid"  // returns a leaf without a SPIFFE ID       (malformed stream)
	kAnchorErr = "oka"   // signs a leaf, but the trust-anchor source fails afterwards (needs dir)
	kWriteErr  = "okw"   // signs a leaf, but dir.Write fails (the harness makes the base path a file; needs dir)
)

// Item is one scripted issuer reply. A/B are offsets (ns) of NotBefore/NotAfter from the clock value
// at the time of the request.
// Err names the error VALUE returned (errkinds.go; "" = a plain error): by the issuer for kFail, by the
// trust-anchor source for kAnchorErr.
type Item struct {
	Kind string `json:"k"`
	A    int64  `json:"a,omitempty"`
	B    int64  `json:"b,omitempty"`
	Err  string `json:"e,omitempty"`
	// endRun (readiness scenarios, not serialised): "cancel" / "deadline" = the harness ends Run's ctx
	// inside the issuer callback, immediately before this answer is returned
	endRun string
}

// reqRec is what the issuer saw and answered for one request.
type reqRec struct {
	Idx    int
	Stamp  time.Time // injected clock at the request
	PubDER []byte    // public key of the CSR
	Kind   string
	OK     bool // a usable chain was returned
	NB, NA time.Time
	CSRErr string
	// Published is the file set found in the write directory when this request arrived (i.e. the
	// state left by all earlier fetches).
	Anchors  int       // anchors version current when the fetch returned (when the file set is written)
	Answered time.Time // injected clock when the issuer answered (zero: still in flight)
	// ErrKind / ErrIs: for a scripted failure, the kind of the error value returned and what
	// errors.Is(err, context.Canceled) / errors.Is(err, context.DeadlineExceeded) say about THAT value;
	// CtxAlive: the ctx handed to the fetch (Run's ctx) was not done when the error was returned.
	ErrKind  string
	ErrIs    [2]bool
	ErrText  string
	CtxAlive bool
}

type issuer struct {
	ca  *fakeCA
	clk *vclock

	mu     sync.Mutex
	script []Item
	reqs   []reqRec
	// gate, when non-nil, makes every request announce itself on reqCh and wait for the reply item
	// (an item with an empty kind means: take the next item of the script).
	gate  chan Item
	reqCh chan int
	// onReq is called (outside mu) at the beginning of every request.
	onReq func(idx int)
	// onAnswer is called (outside mu) when the reply item of request idx is known, before it is returned.
	onAnswer func(idx int, kind string)
	// taFailNext: the trust anchor source fails on its next call (set by kAnchorErr), with the error
	// kind taErrKind.
	taFailNext bool
	taErrKind  string
	// ignoreCtx (readiness scenarios): a gated request stays parked until the HARNESS answers it, also
	// when the ctx handed to the fetch is done meanwhile (the issuer then returns what the harness says:
	// success, an error, or that ctx's own Err()); quit releases parked requests at clean-up.
	ignoreCtx bool
	quit      chan struct{}
	// beforeReturn is called (outside mu) with the reply item of request idx immediately before the
	// issuer returns to the caller (used to cancel Run's ctx at the very moment the fetch returns).
	beforeReturn func(idx int, it Item)
}

func (is *issuer) fn(ctx context.Context, csrDER []byte) ([]*x509.Certificate, error) {
	is.mu.Lock()
	idx := len(is.reqs)
	rec := reqRec{Idx: idx, Stamp: is.clk.Now()}
	csr, err := x509.ParseCertificateRequest(csrDER)
	if err != nil {
		rec.CSRErr = err.Error()
	} else if err := csr.CheckSignature(); err != nil {
		rec.CSRErr = "csr signature: " + err.Error()
	} else {
		rec.PubDER, _ = x509.MarshalPKIXPublicKey(csr.PublicKey)
	}
	is.reqs = append(is.reqs, rec)
	gate := is.gate
	onReq := is.onReq
	is.mu.Unlock()

	if onReq != nil {
		onReq(idx)
	}
	var it Item
	if gate != nil {
		is.reqCh <- idx
		if is.ignoreCtx {
			select {
			case it = <-gate:
			case <-is.quit:
				return nil, errors.New("harness clean-up: request abandoned")
			}
		} else {
			select {
			case it = <-gate:
			case <-ctx.Done():
				return nil, ctx.Err()
			}
		}
	}
	if it.Kind == "" {
		is.mu.Lock()
		if len(is.script) > 0 {
			it = is.script[0]
			is.script = is.script[1:]
		} else {
			it = Item{Kind: kFail}
		}
		is.mu.Unlock()
	}
	answeredAt := is.clk.Now()
	if is.onAnswer != nil {
		is.onAnswer(idx, it.Kind)
	}
	if is.beforeReturn != nil {
		is.beforeReturn(idx, it)
	}

	finish := func(ok bool, nb, na time.Time) {
		is.mu.Lock()
		is.reqs[idx].Answered = answeredAt
		is.reqs[idx].Kind = it.Kind
		is.reqs[idx].OK = ok
		is.reqs[idx].NB, is.reqs[idx].NA = nb, na
		is.mu.Unlock()
	}
	switch it.Kind {
	case kFail:
		// the error value is built first (an issuer that blocks until its own child context expires
		// does so here, in real time; the fake clock does not move meanwhile)
		ferr := makeErr(it.Err, ctx)
		is.mu.Lock()
		is.reqs[idx].ErrKind = it.Err
		if it.Err == "" {
			is.reqs[idx].ErrKind = "plain"
		}
		is.reqs[idx].ErrIs = [2]bool{errors.Is(ferr, context.Canceled), errors.Is(ferr, context.DeadlineExceeded)}
		is.reqs[idx].ErrText = ferr.Error()
		is.reqs[idx].CtxAlive = ctx.Err() == nil
		is.mu.Unlock()
		finish(false, time.Time{}, time.Time{})
		return nil, ferr
	case kEmpty:
		finish(false, time.Time{}, time.Time{})
		return nil, nil
	}
	if csr == nil {
		finish(false, time.Time{}, time.Time{})
		return nil, errors.New("bad csr")
	}
	now := answeredAt // the certificate is signed when the issuer answers
	tmpl := &x509.Certificate{
		SerialNumber: big.NewInt(int64(idx) + 1000),
		NotBefore:    now.Add(time.Duration(it.A)),
		NotAfter:     now.Add(time.Duration(it.B)),
		KeyUsage:     x509.KeyUsageDigitalSignature,
	}
	if it.Kind != kNoID {
		tmpl.URIs = []*url.URL{{Scheme: "spiffe", Host: "example.org", Path: "/ns/default/app"}}
	}
	der, err := x509.CreateCertificate(rand.Reader, tmpl, is.ca.cert, csr.PublicKey, is.ca.key)
	if err != nil {
		finish(false, time.Time{}, time.Time{})
		return nil, fmt.Errorf("fake ca: %w", err)
	}
	leaf, err := x509.ParseCertificate(der)
	if err != nil {
		finish(false, time.Time{}, time.Time{})
		return nil, err
	}
	if it.Kind == kAnchorErr {
		is.mu.Lock()
		is.taFailNext = true
		is.taErrKind = it.Err
		is.reqs[idx].ErrKind = "ta:" + it.Err
		is.mu.Unlock()
	}
	finish(it.Kind == kOK || it.Kind == kWriteErr, leaf.NotBefore, leaf.NotAfter)
	return []*x509.Certificate{leaf, is.ca.cert}, nil
}

func (is *issuer) requests() []reqRec {
	is.mu.Lock()
	defer is.mu.Unlock()
	return append([]reqRec(nil), is.reqs...)
}

// fakeTA is a trustanchors.Interface whose PEM bundle is a versioned byte string.
type fakeTA struct {
	is      *issuer
	mu      sync.Mutex
	version int
	calls   int
}

func (t *fakeTA) set(v int) {
	t.mu.Lock()
	t.version = v
	t.mu.Unlock()
}

func anchorsBytes(v int) []byte { return []byte(fmt.Sprintf("-----FAKE ANCHORS v%d-----\n", v)) }

func (t *fakeTA) CurrentTrustAnchors(ctx context.Context) ([]byte, error) {
	t.is.mu.Lock()
	fail := t.is.taFailNext
	kind := t.is.taErrKind
	t.is.taFailNext = false
	t.is.mu.Unlock()
	if fail {
		var ferr error
		if kind == "" {
			ferr = errors.New("scripted trust anchor failure")
		} else {
			ferr = makeErr(kind, ctx)
		}
		t.mu.Lock()
		t.calls++
		t.mu.Unlock()
		return nil, ferr
	}
	t.mu.Lock()
	defer t.mu.Unlock()
	t.calls++
	return anchorsBytes(t.version), nil
}
func (t *fakeTA) GetX509BundleForTrustDomain(spiffeid.TrustDomain) (*x509bundle.Bundle, error) {
	return nil, errors.New("not used")
}
func (t *fakeTA) Watch(ctx context.Context, ch chan<- []byte) { <-ctx.Done() }
func (t *fakeTA) Run(ctx context.Context) error               { <-ctx.Done(); return nil }
