// factgen_c20 extracts from context/pool.go the shape the Lean model Kit.Pool was written from:
// the fields of Pool, the statements of NewPool (initial filter, read lock taken before `go`, the
// watcher's defers in source order, its loop header and body) and the bodies of Add, anyLive,
// Cancel and Size, each statement rendered canonically on one line.  It writes them as
// lean/KitModel/Generated/C20.lean.  Any statement kind it does not know makes it exit non-zero:
// the tie is then reported as broken instead of silently keeping old facts.
package main

import (
	"flag"
	"fmt"
	"go/ast"
	"go/parser"
	"go/token"
	"go/types"
	"os"
	"path/filepath"
	"strings"
)

var fset = token.NewFileSet()

func fail(n ast.Node, format string, a ...any) {
	pos := ""
	if n != nil {
		pos = fset.Position(n.Pos()).String() + ": "
	}
	fmt.Fprintf(os.Stderr, "factgen_c20: %sunknown shape: %s\n", pos, fmt.Sprintf(format, a...))
	os.Exit(1)
}

func ex(e ast.Expr) string {
	if e == nil {
		return ""
	}
	// types.ExprString elides composite literals; `&T{k: v, …}` is rendered in full
	if u, ok := e.(*ast.UnaryExpr); ok && u.Op == token.AND {
		if cl, ok := u.X.(*ast.CompositeLit); ok {
			parts := make([]string, 0, len(cl.Elts))
			for _, el := range cl.Elts {
				kv, ok := el.(*ast.KeyValueExpr)
				if !ok {
					fail(el, "composite literal element without key")
				}
				parts = append(parts, ex(kv.Key)+": "+ex(kv.Value))
			}
			return "&" + ex(cl.Type) + "{" + strings.Join(parts, ", ") + "}"
		}
	}
	s := types.ExprString(e)
	if strings.Contains(s, "…") {
		fail(e, "expression with an elided part: %s", s)
	}
	return s
}

func block(b *ast.BlockStmt) string {
	parts := make([]string, 0, len(b.List))
	for _, s := range b.List {
		parts = append(parts, stmt(s))
	}
	return "{ " + strings.Join(parts, "; ") + " }"
}

func simple(s ast.Stmt) string {
	if s == nil {
		return ""
	}
	return stmt(s)
}

// stmt renders one statement canonically on one line.
func stmt(s ast.Stmt) string {
	switch s := s.(type) {
	case *ast.ExprStmt:
		return ex(s.X)
	case *ast.DeferStmt:
		return "defer " + ex(s.Call)
	case *ast.AssignStmt:
		l := make([]string, len(s.Lhs))
		for i, e := range s.Lhs {
			l[i] = ex(e)
		}
		r := make([]string, len(s.Rhs))
		for i, e := range s.Rhs {
			r[i] = ex(e)
		}
		return strings.Join(l, ", ") + " " + s.Tok.String() + " " + strings.Join(r, ", ")
	case *ast.IncDecStmt:
		return ex(s.X) + s.Tok.String()
	case *ast.ReturnStmt:
		r := make([]string, len(s.Results))
		for i, e := range s.Results {
			r[i] = ex(e)
		}
		return strings.TrimSpace("return " + strings.Join(r, ", "))
	case *ast.IfStmt:
		if s.Init != nil || s.Else != nil {
			fail(s, "if with init or else")
		}
		return "if " + ex(s.Cond) + " " + block(s.Body)
	case *ast.ForStmt:
		return "for " + simple(s.Init) + "; " + ex(s.Cond) + "; " + simple(s.Post) + " " + block(s.Body)
	case *ast.RangeStmt:
		vars := ex(s.Key)
		if s.Value != nil {
			vars += ", " + ex(s.Value)
		}
		return "for " + vars + " " + s.Tok.String() + " range " + ex(s.X) + " " + block(s.Body)
	case *ast.SelectStmt:
		var cs []string
		for _, c := range s.Body.List {
			cc := c.(*ast.CommClause)
			head := "default"
			if cc.Comm != nil {
				head = "case " + stmt(cc.Comm)
			}
			body := make([]string, 0, len(cc.Body))
			for _, b := range cc.Body {
				body = append(body, stmt(b))
			}
			cs = append(cs, head+": "+strings.Join(body, "; "))
		}
		return "select { " + strings.Join(cs, " | ") + " }"
	case *ast.GoStmt:
		fl, ok := s.Call.Fun.(*ast.FuncLit)
		if !ok || len(s.Call.Args) != 0 || fl.Type.Params.NumFields() != 0 {
			fail(s, "go statement that is not `go func() {…}()`")
		}
		return "go func() " + block(fl.Body)
	}
	fail(s, "statement %T", s)
	return ""
}

func lstr(s string) string {
	return "\"" + strings.NewReplacer("\\", "\\\\", "\"", "\\\"").Replace(s) + "\""
}

func llist(xs []string) string {
	q := make([]string, len(xs))
	for i, x := range xs {
		q[i] = lstr(x)
	}
	return "[" + strings.Join(q, ",\n   ") + "]"
}

func main() {
	repo := flag.String("repo", "/repo", "repository root")
	out := flag.String("out", "", "output .lean file")
	flag.Parse()
	path := filepath.Join(*repo, "context", "pool.go")
	f, err := parser.ParseFile(fset, path, nil, 0)
	if err != nil {
		fmt.Fprintln(os.Stderr, "factgen_c20:", err)
		os.Exit(1)
	}
	var fields []string
	funcs := map[string]*ast.FuncDecl{}
	for _, d := range f.Decls {
		switch d := d.(type) {
		case *ast.GenDecl:
			for _, sp := range d.Specs {
				ts, ok := sp.(*ast.TypeSpec)
				if !ok || ts.Name.Name != "Pool" {
					continue
				}
				st, ok := ts.Type.(*ast.StructType)
				if !ok {
					fail(ts, "Pool is not a struct")
				}
				for _, fd := range st.Fields.List {
					if len(fd.Names) == 0 {
						fields = append(fields, "embedded "+ex(fd.Type))
					}
					for _, n := range fd.Names {
						fields = append(fields, n.Name+" "+ex(fd.Type))
					}
				}
			}
		case *ast.FuncDecl:
			name := d.Name.Name
			if d.Recv != nil {
				name = "(" + ex(d.Recv.List[0].Type) + ")." + name
			}
			funcs[name] = d
		}
	}
	if fields == nil {
		fail(nil, "type Pool not found")
	}
	for _, want := range []string{"NewPool", "(*Pool).Add", "(*Pool).anyLive", "(*Pool).Cancel", "(*Pool).Size"} {
		if funcs[want] == nil {
			fail(nil, "function %s not found", want)
		}
	}
	if len(funcs) != 5 {
		names := []string{}
		for n := range funcs {
			names = append(names, n)
		}
		fail(nil, "pool.go declares functions other than NewPool/Add/anyLive/Cancel/Size: %v", names)
	}
	body := func(name string) []string {
		var xs []string
		for _, s := range funcs[name].Body.List {
			xs = append(xs, stmt(s))
		}
		return xs
	}
	// NewPool: split at the go statement
	var before, watcherDefers, watcherLoop, after []string
	seenGo := false
	for _, s := range funcs["NewPool"].Body.List {
		g, ok := s.(*ast.GoStmt)
		if !ok {
			if seenGo {
				after = append(after, stmt(s))
			} else {
				before = append(before, stmt(s))
			}
			continue
		}
		if seenGo {
			fail(s, "second go statement")
		}
		seenGo = true
		fl, ok := g.Call.Fun.(*ast.FuncLit)
		if !ok {
			fail(g, "go statement without function literal")
		}
		for _, ws := range fl.Body.List {
			switch ws := ws.(type) {
			case *ast.DeferStmt:
				if watcherLoop != nil {
					fail(ws, "defer after the loop")
				}
				watcherDefers = append(watcherDefers, ex(ws.Call))
			case *ast.ForStmt:
				if watcherLoop != nil {
					fail(ws, "second loop in the watcher")
				}
				watcherLoop = append(watcherLoop, "for "+simple(ws.Init)+"; "+ex(ws.Cond)+"; "+simple(ws.Post))
				for _, b := range ws.Body.List {
					watcherLoop = append(watcherLoop, stmt(b))
				}
			default:
				fail(ws, "watcher statement %T", ws)
			}
		}
	}
	if !seenGo || watcherLoop == nil {
		fail(nil, "NewPool has no watcher goroutine with a loop")
	}

	var b strings.Builder
	b.WriteString("/-! Generated by harness/cmd/factgen_c20 from /repo/context/pool.go — do not edit. -/\n")
	b.WriteString("namespace Kit.Generated.C20\n\n")
	w := func(name string, xs []string) {
		fmt.Fprintf(&b, "def %s : List String :=\n  %s\n\n", name, llist(xs))
	}
	w("poolFields", fields)
	w("newPoolBeforeGo", before)
	w("watcherDefers", watcherDefers)
	w("watcherLoop", watcherLoop)
	w("newPoolAfterGo", after)
	w("addBody", body("(*Pool).Add"))
	w("anyLiveBody", body("(*Pool).anyLive"))
	w("cancelBody", body("(*Pool).Cancel"))
	w("sizeBody", body("(*Pool).Size"))
	b.WriteString("end Kit.Generated.C20\n")
	if *out == "" {
		os.Stdout.WriteString(b.String())
		return
	}
	if err := os.WriteFile(*out, []byte(b.String()), 0o644); err != nil {
		fmt.Fprintln(os.Stderr, "factgen_c20:", err)
		os.Exit(1)
	}
}
