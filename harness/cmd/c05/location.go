package main

import (
	"fmt"
	"sync"
	"time"

	"github.com/dapr/kit/cron"

	"verifharness/lib"
)

// Location family (monitors only; the model's schedules are functions of the instant and know no
// zone). A Cron built WithLocation(L) whose clock delivers its readings and timer ticks in another
// zone Z must interpret a zone-sensitive spec on L's wall clock at EVERY activation, not only at the
// first one (the first `Next` is computed from c.now(), every later one from the value the timer
// channel delivered). The expected activation chain is computed independently, in L, from the
// parsed schedule: e0 = Next(T0 in L), e(k+1) = Next(e(k)). The clock is advanced to one second
// before each e(k) (nothing may start), then to e(k) itself (exactly one start), and Entries() —
// served by the scheduler goroutine, hence a barrier for the wake-up — must report Prev = e(k),
// Next = e(k+1).

type locZone struct {
	name string
	off  int
}

var locZones = []locZone{
	{"UTC", 0}, {"+05:30", 19800}, {"-03:30", -12600}, {"+05:45", 20700}, {"+13:00", 46800}, {"-11:00", -39600}, {"+00:20", 1200},
}

var locSpecs = []string{"0 * * * *", "30 2 * * *", "15 */6 * * *", "0 0 * * 1", "45 23 1 * *", "*/40 * * * *"}

func runLocationFamily(res *lib.Result, rg *lib.Rand, n int) {
	for it := 0; it < n; it++ {
		lz := locZones[rg.Intn(len(locZones))]
		cz := locZones[rg.Intn(len(locZones))]
		if it < len(locZones)*2 { // the first rounds pair every zone with a UTC clock and with itself
			lz = locZones[it%len(locZones)]
			cz = locZones[0]
			if it >= len(locZones) {
				cz = lz
			}
		}
		spec := locSpecs[rg.Intn(len(locSpecs))]
		if it < len(locSpecs) {
			spec = locSpecs[it]
		}
		loc := time.FixedZone(lz.name, lz.off)
		cloc := time.FixedZone(cz.name, cz.off)
		t0 := time.Date(2024, 3, 9, 21, 0, 7, 0, time.UTC).Add(time.Duration(rg.Intn(72*3600)) * time.Second).In(cloc)
		steps := 5
		cs := map[string]any{"family": "location", "location": lz.name, "location_offset_s": lz.off, "clock_zone": cz.name,
			"clock_zone_offset_s": cz.off, "spec": spec, "start": t0.Format(time.RFC3339), "activations": steps}
		sched, err := cron.ParseStandard(spec)
		if err != nil {
			res.Violate("location-spec-refused", fmt.Sprintf("ParseStandard(%q): %v", spec, err), cs)
			continue
		}
		clk := NewVClock(t0)
		var mu sync.Mutex
		var starts []time.Time
		c := cron.New(cron.WithClock(clk), cron.WithLocation(loc), cron.WithLogger(cron.DiscardLogger))
		id, err := c.AddFunc(spec, func() {
			mu.Lock()
			starts = append(starts, clk.Now())
			mu.Unlock()
		})
		if err != nil {
			res.Violate("location-spec-refused", fmt.Sprintf("AddFunc(%q): %v", spec, err), cs)
			continue
		}
		nStarts := func() int { mu.Lock(); defer mu.Unlock(); return len(starts) }
		waitStarts := func(k int) bool {
			dl := time.Now().Add(waitLimit)
			for time.Now().Before(dl) {
				if nStarts() >= k {
					return true
				}
				time.Sleep(20 * time.Microsecond)
			}
			return nStarts() >= k
		}
		entriesBarrier := func() (cron.Entry, bool) {
			ch := make(chan cron.Entry, 1)
			go func() { ch <- c.Entry(id) }()
			select {
			case e := <-ch:
				return e, true
			case <-time.After(waitLimit):
				return cron.Entry{}, false
			}
		}
		c.Start()
		ok := true
		e, live := entriesBarrier()
		if !live {
			res.Violate("api-hang", "location: Entry() did not return after Start", cs)
			continue
		}
		exp := sched.Next(t0.In(loc))
		if !e.Next.Equal(exp) {
			res.Violate("location-entries-next-wrong", fmt.Sprintf("after Start at %s, Cron in %s, spec %q: Entry.Next = %s, the schedule read on the location's wall clock gives %s",
				t0.Format(time.RFC3339), lz.name, spec, e.Next.Format(time.RFC3339), exp.In(loc).Format(time.RFC3339)), cs)
			ok = false
		}
		for k := 0; k < steps && ok; k++ {
			// one second before the activation: nothing may start
			clk.Advance(exp.Add(-time.Second).In(cloc))
			if _, live = entriesBarrier(); !live {
				res.Violate("api-hang", "location: Entry() did not return", cs)
				ok = false
				break
			}
			if got := nStarts(); got != k {
				mu.Lock()
				at := starts[len(starts)-1]
				mu.Unlock()
				res.Violate("start-before-activation", fmt.Sprintf("Cron in %s (clock ticks in %s), spec %q: a job start at %s, which is before activation #%d at %s (previous activation %d reached; the clock has only reached one second before it)",
					lz.name, cz.name, spec, at.In(loc).Format(time.RFC3339), k, exp.In(loc).Format(time.RFC3339), k-1), cs)
				ok = false
				break
			}
			clk.Advance(exp.In(cloc))
			if !waitStarts(k + 1) {
				res.Violate("location-activation-missed", fmt.Sprintf("Cron in %s (clock ticks in %s), spec %q: no job start when the clock reached activation #%d at %s",
					lz.name, cz.name, spec, k, exp.In(loc).Format(time.RFC3339)), cs)
				ok = false
				break
			}
			e, live = entriesBarrier()
			if !live {
				res.Violate("api-hang", "location: Entry() did not return", cs)
				ok = false
				break
			}
			if got := nStarts(); got != k+1 {
				res.Violate("two-starts-one-activation", fmt.Sprintf("Cron in %s, spec %q: %d starts after activation #%d", lz.name, spec, got, k), cs)
				ok = false
				break
			}
			next := sched.Next(exp.In(loc))
			if !e.Prev.Equal(exp) || !e.Next.Equal(next) {
				res.Violate("location-entries-next-wrong", fmt.Sprintf("Cron in %s (clock ticks in %s), spec %q, after activation #%d at %s: Entry.Prev = %s, Entry.Next = %s; the schedule read on the location's wall clock gives next = %s",
					lz.name, cz.name, spec, k, exp.In(loc).Format(time.RFC3339), e.Prev.In(loc).Format(time.RFC3339), e.Next.In(loc).Format(time.RFC3339), next.In(loc).Format(time.RFC3339)), cs)
				ok = false
				break
			}
			exp = next
		}
		ctx := c.Stop()
		select {
		case <-ctx.Done():
		case <-time.After(waitLimit):
			res.Violate("stop-ctx-never-done", "location: Stop's context did not complete", cs)
		}
		same := "other-zone"
		if lz.off == cz.off {
			same = "same-zone"
		}
		res.Hit("location:clock-" + same)
		res.Hit("location:spec:" + spec)
		res.Count(fmt.Sprintf("location:%s:%s:%s:%d", lz.name, cz.name, spec, t0.Unix()), lz.off != cz.off)
		if it%25 == 0 {
			res.Sample(cs)
		}
	}
}
