// Harness for property C05 (cron scheduler run loop: /repo/cron/cron.go, chain.go, option.go).
//
// It drives the REAL cron.Cron in-process with a deterministic fake clock (cron.WithClock), records
// the observable trace of every generated history — API returns, job starts stamped with the fake
// clock, Entries() snapshots, Done() of the Stop contexts, plus the two quiescence hooks
// cron.run.armed / cron.run.woke — and asks the Lean model (`kitdrv C05`) whether it accepts the
// trace (state-set simulation closed under the loop's internal steps).  Schedules are simple
// periodic functions implemented here AND in the driver, so both sides know `nxt`.
//
// Independently of the model, property monitors watch the same executions:
//
//	start-before-activation      a job started while the clock was before its activation instant
//	two-starts-one-activation    an activation instant started twice
//	start-outside-chain          a start whose activation is not nxt(previous wake) / not due at the wake
//	missed-start                 an activation due at a wake (or reached while the loop was parked with a
//	                             fresh `now`) that was not started
//	start-after-remove           a start of an entry after Remove(id) returned
//	start-after-stop             a start after Stop returned (before a restart)
//	stop-ctx-done-while-job-runs Stop's context done while a job started before that Stop still runs
//	stop-ctx-never-done          all jobs returned but a Stop context does not complete
//	entries-mismatch             Entries() Next/Prev differ from the activations actually used,
//	                             a live entry missing, a removed one present
//	api-hang / api-panic / loop-hang
package main

import (
	"bytes"
	"context"
	"encoding/json"
	"fmt"
	"os"
	"os/exec"
	"runtime"
	"sort"
	"strings"
	"sync"
	"sync/atomic"
	"time"

	"github.com/dapr/kit/cron"
	"github.com/dapr/kit/verifhook"

	"verifharness/lib"
)

// ---- time mapping: model time t (milliseconds after `base`, 0 = zero time.Time); activation
// instants of the generated schedules are whole seconds, clock values may have any fraction ----

var base = time.Date(2020, 1, 1, 0, 0, 0, 0, time.UTC)

func toTime(t int) time.Time {
	if t == 0 {
		return time.Time{}
	}
	return base.Add(time.Duration(t) * time.Millisecond)
}

func toModel(tm time.Time) int {
	if tm.IsZero() {
		return 0
	}
	return int(tm.Sub(base) / time.Millisecond)
}

// ---- schedules ----

type SchedDesc struct {
	K   string `json:"k"` // p periodic | z never | f finite | d constant delay (@every, via AddFunc)
	P   int    `json:"p,omitempty"`
	O   int    `json:"o,omitempty"`
	Lim int    `json:"lim,omitempty"`
}

func periodicNext(p, o, t int) int {
	if t < o {
		return o
	}
	return o + ((t-o)/p+1)*p
}

func (d SchedDesc) next(t int) int {
	switch d.K {
	case "p":
		return periodicNext(d.P, d.O, t)
	case "f":
		x := periodicNext(d.P, d.O, t)
		if x <= d.Lim {
			return x
		}
		return 0
	case "d":
		// ConstantDelaySchedule: t.Add(Delay - t.Nanosecond()), i.e. from the start of t's second
		return t - t%1000 + d.P
	}
	return 0
}

func (d SchedDesc) String() string {
	switch d.K {
	case "p":
		return fmt.Sprintf("p:%d:%d", d.P, d.O)
	case "f":
		return fmt.Sprintf("f:%d:%d:%d", d.P, d.O, d.Lim)
	case "d":
		return fmt.Sprintf("d:%d", d.P)
	}
	return "z"
}

type goSched struct{ d SchedDesc }

func (g goSched) Next(t time.Time) time.Time { return toTime(g.d.next(toModel(t))) }

// ---- scripts ----

type Op struct {
	K     string `json:"k"` // add remove entries start stop adv release race
	Sid   int    `json:"sid,omitempty"`
	Block bool   `json:"block,omitempty"`
	Idx   int    `json:"idx,omitempty"`  // remove: which id; release: which blocked invocation
	Mode  string `json:"mode,omitempty"` // adv: exact before across zero past (= exact + frac)
	N     int    `json:"n,omitempty"`    // adv across: delta (seconds)
	Frac  int    `json:"frac,omitempty"` // adv: extra milliseconds (sub-second landing point)
	Stale int    `json:"stale,omitempty"` // race: second advance by this much while the loop is held
	Inner *Op    `json:"inner,omitempty"` // race: the request issued before the loop is released
}

type Case struct {
	Name   string      `json:"name"`
	Family string      `json:"family"`
	T0     int         `json:"t0"`
	Scheds []SchedDesc `json:"scheds"`
	Ops    []Op        `json:"ops"`
}

// ---- per-case runner ----

type entMon struct {
	id, sid     int
	d           SchedDesc
	removed     bool // Remove(id) returned
	expNext     int  // the Next the scheduler must be using
	prevAct     int
	started     map[int]bool
	launchQueue []int // activations launched, not yet begun
}

type invocation struct {
	id       int
	stamp    int
	launchNo int
	returned bool
	release  chan struct{}
	blocked  bool
}

type ctxMon struct {
	k          int
	ctx        context.Context
	launchedAt int // launches that happened before this Stop returned
	seenDone   bool
}

// pendingOp is an API call routed through the scheduler goroutine. It stays pending until the
// caller has logged its return (logged), the loop has processed it (processed: logger lines
// "added"/"removed"/"stop", or the armed hook that directly follows another armed hook = a served
// snapshot) and — except for stop — the loop has passed the armed hook again.
type pendingOp struct {
	kind      string
	logged    bool
	processed bool
}

type runner struct {
	mu  sync.Mutex
	clk *VClock
	c   *cron.Cron
	cs  Case
	res *lib.Result

	lines []string

	running     bool
	everStarted bool
	stoppedRet  bool // Stop returned and no Start since
	lastArmed   bool // last loop marker was the armed hook
	timerFlag   bool
	curTimer    *vtimer
	armedSeq    int
	holdReq     bool
	held        bool
	releaseCh   chan struct{}
	pending     *pendingOp
	loopNow     int
	armClock    int
	curWake     int
	wakeDue     map[int]bool
	wakeRan     map[int]bool

	launched, begun, returned int
	nAdds                     int
	ents                      map[int]*entMon
	order                     []int
	invs                      []*invocation
	ctxs                      []*ctxMon
	idOf                      []*atomic.Int64

	broken  string // harness-level failure (hang etc.)
	stats   map[string]int
	nStarts int
}

var cur atomic.Pointer[runner]

const waitLimit = 3 * time.Second

// spinLimit bounds the number of select rounds of the scheduler loop in one history.
const spinLimit = 4000

func (r *runner) logf(f string, a ...any) { r.lines = append(r.lines, fmt.Sprintf(f, a...)) }

func (r *runner) violate(id, what string) {
	r.res.Violate(id, what+" | trace tail: "+strings.Join(tail(r.lines, 12), " ; "), r.cs)
}

func tail(s []string, n int) []string {
	if len(s) > n {
		return s[len(s)-n:]
	}
	return s
}

// waitFor polls pred (mu held on entry and exit; released while sleeping).
func (r *runner) waitFor(pred func() bool) bool {
	deadline := time.Now().Add(waitLimit)
	for i := 0; ; i++ {
		if pred() {
			return true
		}
		if time.Now().After(deadline) {
			return false
		}
		r.mu.Unlock()
		if i < 50 {
			runtime.Gosched()
		} else {
			time.Sleep(20 * time.Microsecond)
		}
		r.mu.Lock()
	}
}

func (r *runner) now() int { return toModel(r.clk.Now()) }

// ---- hooks and logger: synchronous taps on the scheduler goroutine ----

func hookCB(name string, args ...any) {
	r := cur.Load()
	if r == nil {
		return
	}
	switch name {
	case "cron.run.armed":
		flag, _ := args[0].(bool)
		r.mu.Lock()
		snapshotCaused := r.lastArmed
		b := 0
		if flag {
			b = 1
		}
		r.logf("armed timer=%d", b)
		if r.armedSeq > spinLimit && r.broken == "" {
			// the loop re-arms without ever parking (e.g. a timer that keeps firing): livelock
			r.violate("loop-hang", fmt.Sprintf("scheduler loop passed its select %d times in one history without settling (busy loop)", r.armedSeq))
			r.broken = "loop-spin"
			cur.Store(nil) // detach the taps; the wind-down stops the loop
			r.mu.Unlock()
			return
		}
		if p := r.pending; snapshotCaused && p != nil && p.kind == "entries" {
			if !r.waitFor(func() bool { return p.logged }) {
				r.broken = "Entries() did not return after its snapshot was served"
			}
			p.processed = true
		}
		// from here to the end no other goroutine can observe a half-updated marker state
		if r.holdReq {
			r.holdReq = false
			r.held = true
			ch := r.releaseCh
			r.mu.Unlock()
			select {
			case <-ch:
			case <-time.After(waitLimit):
			}
			r.mu.Lock()
			r.held = false
		}
		r.lastArmed = true
		r.timerFlag = flag
		if flag {
			r.curTimer = r.clk.Last()
		}
		r.armClock = r.now()
		r.armedSeq++
		if p := r.pending; p != nil && p.processed && p.logged {
			r.pending = nil
		}
		r.mu.Unlock()
	case "cron.run.woke":
		tm, _ := args[0].(time.Time)
		r.mu.Lock()
		r.lastArmed = false
		w := toModel(tm)
		r.logf("woke w=%d", w)
		r.endWake(w)
		r.mu.Unlock()
	}
}

type tapLogger struct{}

func kvGet(kv []any, key string) any {
	for i := 0; i+1 < len(kv); i += 2 {
		if s, ok := kv[i].(string); ok && s == key {
			return kv[i+1]
		}
	}
	return nil
}

func (tapLogger) Error(err error, msg string, kv ...any) {}

func (tapLogger) Info(msg string, kv ...any) {
	r := cur.Load()
	if r == nil {
		return
	}
	r.mu.Lock()
	defer r.mu.Unlock()
	switch msg {
	case "start":
		r.lastArmed = false
		r.loopNow = r.now()
	case "schedule":
		r.loopNow = toModel(kvGet(kv, "now").(time.Time))
	case "wake":
		r.lastArmed = false
		w := toModel(kvGet(kv, "now").(time.Time))
		r.beginWake(w)
	case "run":
		id := int(kvGet(kv, "entry").(cron.EntryID))
		nx := toModel(kvGet(kv, "next").(time.Time))
		r.onLaunch(id, nx)
	case "added", "removed", "stop":
		// ("stop" is logged by a loop that is exiting, possibly after a restarted loop already armed)
		if msg != "stop" {
			r.lastArmed = false
			r.loopNow = r.now()
		}
		want := map[string]string{"added": "add", "removed": "remove", "stop": "stop"}[msg]
		if p := r.pending; p != nil && p.kind == want {
			if !r.waitFor(func() bool { return p.logged }) {
				r.broken = want + " did not return after the loop processed it"
			}
			p.processed = true
			if want == "stop" {
				r.pending = nil
			}
		}
	}
}

// ---- monitors ----

func (r *runner) beginWake(w int) {
	r.curWake = w
	r.loopNow = w
	r.wakeDue = map[int]bool{}
	r.wakeRan = map[int]bool{}
	for _, id := range r.order {
		e := r.ents[id]
		if !e.removed && e.expNext != 0 && e.expNext <= w {
			r.wakeDue[id] = true
		}
	}
	if w > r.now() {
		r.violate("start-before-activation", fmt.Sprintf("loop woke with now=%d ahead of the clock %d", w, r.now()))
	}
}

func (r *runner) onLaunch(id, loggedNext int) {
	r.launched++
	r.nStarts++
	e := r.ents[id]
	clk := r.now()
	if e == nil {
		r.violate("start-after-remove", fmt.Sprintf("entry %d started but is unknown to the harness", id))
		return
	}
	if e.removed {
		r.violate("start-after-remove", fmt.Sprintf("entry %d started at clock %d after Remove(%d) returned", id, clk, id))
	}
	if r.stoppedRet {
		r.violate("start-after-stop", fmt.Sprintf("entry %d started at clock %d after Stop returned", id, clk))
	}
	act := e.expNext
	switch {
	case act == 0 || act > clk:
		r.violate("start-before-activation", fmt.Sprintf("entry %d (%s) started at clock %d, next activation is %d", id, e.d, clk, act))
	case e.started[act]:
		r.violate("two-starts-one-activation", fmt.Sprintf("entry %d activation %d started twice (clock %d)", id, act, clk))
	case act > r.curWake:
		r.violate("start-outside-chain", fmt.Sprintf("entry %d activation %d started at a wake with now=%d", id, act, r.curWake))
	}
	if r.wakeRan[id] {
		r.violate("two-starts-one-activation", fmt.Sprintf("entry %d started twice in one wake-up (now=%d)", id, r.curWake))
	}
	r.wakeRan[id] = true
	e.started[act] = true
	e.prevAct = act
	e.launchQueue = append(e.launchQueue, act)
	e.expNext = e.d.next(r.curWake)
	if loggedNext != e.expNext {
		r.violate("start-outside-chain", fmt.Sprintf("entry %d: Next after the wake at %d is %d, schedule says %d", id, r.curWake, loggedNext, e.expNext))
	}
}

func (r *runner) endWake(w int) {
	if w != r.curWake {
		r.violate("start-outside-chain", fmt.Sprintf("woke hook now=%d differs from logged wake %d", w, r.curWake))
	}
	for id := range r.wakeDue {
		if !r.wakeRan[id] {
			r.violate("missed-start", fmt.Sprintf("entry %d was due at the wake now=%d and was not started", id, w))
		}
	}
}

// job body of entry number slot (the id is known once Schedule returned)
func (r *runner) job(slot int, block bool) func() {
	return func() {
		r.mu.Lock()
		stamp := r.now()
		box := r.idOf[slot]
		if box.Load() == 0 {
			r.waitFor(func() bool { return box.Load() != 0 })
		}
		id := int(box.Load())
		// cron.go logs "run" after startJob: the job may begin before its launch is recorded
		if r.begun+1 > r.launched {
			r.waitFor(func() bool { return r.begun+1 <= r.launched || r.broken != "" })
		}
		inv := &invocation{id: id, stamp: stamp, launchNo: r.begun, release: make(chan struct{}), blocked: block}
		r.invs = append(r.invs, inv)
		r.begun++
		r.logf("begin id=%d c=%d", id, stamp)
		if r.begun > r.launched {
			// a start the scheduler did not log: judge it like a launch
			if r.stoppedRet {
				r.violate("start-after-stop", fmt.Sprintf("entry %d began at %d after Stop returned (no launch record)", id, stamp))
			}
			if e := r.ents[id]; e != nil && e.removed {
				r.violate("start-after-remove", fmt.Sprintf("entry %d began at %d after Remove returned (no launch record)", id, stamp))
			}
		}
		if e := r.ents[id]; e != nil {
			if len(e.launchQueue) > 0 {
				act := e.launchQueue[0]
				e.launchQueue = e.launchQueue[1:]
				if stamp < act {
					r.violate("start-before-activation", fmt.Sprintf("entry %d began at clock %d, activation %d", id, stamp, act))
				}
			}
		}
		r.mu.Unlock()
		if block {
			select {
			case <-inv.release:
			case <-time.After(4 * waitLimit):
			}
		}
		r.mu.Lock()
		inv.returned = true
		r.returned++
		r.logf("done id=%d c=%d", id, stamp)
		r.mu.Unlock()
	}
}

func (r *runner) checkCtxs() {
	for _, cm := range r.ctxs {
		if cm.seenDone {
			continue
		}
		select {
		case <-cm.ctx.Done():
			cm.seenDone = true
			r.logf("ctx k=%d done=1", cm.k)
			// every invocation launched before this Stop returned must have returned
			n := 0
			for _, inv := range r.invs {
				if inv.launchNo < cm.launchedAt && !inv.returned {
					n++
				}
			}
			if r.begun < cm.launchedAt {
				n += cm.launchedAt - r.begun
			}
			if n > 0 {
				r.violate("stop-ctx-done-while-job-runs", fmt.Sprintf("context of Stop #%d is done while %d job(s) started before it still run", cm.k, n))
			}
		default:
		}
	}
}

func (r *runner) checkEntries(got []cron.Entry) string {
	type row struct{ id, next, prev int }
	rows := make([]row, 0, len(got))
	seen := map[int]bool{}
	for _, g := range got {
		rows = append(rows, row{int(g.ID), toModel(g.Next), toModel(g.Prev)})
	}
	sort.Slice(rows, func(i, j int) bool { return rows[i].id < rows[j].id })
	parts := make([]string, 0, len(rows))
	for _, rw := range rows {
		parts = append(parts, fmt.Sprintf("%d:%d:%d", rw.id, rw.next, rw.prev))
		e := r.ents[rw.id]
		switch {
		case e == nil || e.removed:
			r.violate("entries-mismatch", fmt.Sprintf("Entries() lists entry %d which was removed / never added", rw.id))
		case seen[rw.id]:
			r.violate("entries-mismatch", fmt.Sprintf("Entries() lists entry %d twice", rw.id))
		case rw.next != e.expNext || rw.prev != e.prevAct:
			r.violate("entries-mismatch", fmt.Sprintf("Entries() reports entry %d Next=%d Prev=%d, used Next=%d Prev=%d", rw.id, rw.next, rw.prev, e.expNext, e.prevAct))
		}
		seen[rw.id] = true
	}
	for _, id := range r.order {
		if e := r.ents[id]; !e.removed && !seen[id] {
			r.violate("entries-mismatch", fmt.Sprintf("Entries() omits live entry %d", id))
		}
	}
	return strings.Join(parts, ",")
}

// ---- API calls (each in its own goroutine, under recover and a deadline) ----

type callHandle struct{ done chan struct{} }

// startCall issues op against the real Cron from a fresh goroutine; its return is logged (and the
// monitors updated) under r.mu by that goroutine.
func (r *runner) startCall(op Op) *callHandle {
	h := &callHandle{done: make(chan struct{})}
	r.mu.Lock()
	viaLoop := r.running && op.K != "start"
	var p *pendingOp
	if viaLoop {
		p = &pendingOp{kind: op.K}
		r.pending = p
	}
	var slot int
	var d SchedDesc
	if op.K == "add" {
		slot = len(r.idOf)
		r.idOf = append(r.idOf, &atomic.Int64{})
		d = r.cs.Scheds[op.Sid%len(r.cs.Scheds)]
	}
	r.mu.Unlock()
	go func() {
		defer close(h.done)
		defer func() {
			if x := recover(); x != nil {
				r.mu.Lock()
				r.violate("api-panic", fmt.Sprintf("%s panicked: %v", op.K, x))
				r.broken = "panic"
				if p != nil {
					p.logged = true
				}
				r.mu.Unlock()
			}
		}()
		switch op.K {
		case "add":
			var id cron.EntryID
			if d.K == "d" {
				var err error
				id, err = r.c.AddFunc(fmt.Sprintf("@every %ds", d.P/1000), r.job(slot, op.Block))
				if err != nil {
					panic(err)
				}
			} else {
				id = r.c.Schedule(goSched{d}, cron.FuncJob(r.job(slot, op.Block)))
			}
			r.mu.Lock()
			r.idOf[slot].Store(int64(id))
			e := &entMon{id: int(id), sid: op.Sid % len(r.cs.Scheds), d: d, started: map[int]bool{}}
			if r.running {
				e.expNext = d.next(r.now())
			}
			if r.ents[int(id)] != nil {
				r.violate("entries-mismatch", fmt.Sprintf("Schedule returned id %d twice", id))
			}
			r.ents[int(id)] = e
			r.order = append(r.order, int(id))
			r.nAdds++
			r.logf("add sid=%d id=%d", e.sid, id)
		case "remove":
			r.c.Remove(cron.EntryID(op.Idx))
			r.mu.Lock()
			if e := r.ents[op.Idx]; e != nil {
				e.removed = true
			}
			r.logf("remove id=%d", op.Idx)
		case "entries":
			got := r.c.Entries()
			r.mu.Lock()
			r.logf("entries r=%s", r.checkEntries(got))
		case "start":
			r.mu.Lock()
			if !r.running {
				r.running = true
				r.everStarted = true
				r.stoppedRet = false
				r.lastArmed = false
				// Next is recomputed from the clock value the new loop reads first
				t := r.now()
				for _, id := range r.order {
					if e := r.ents[id]; !e.removed {
						e.expNext = e.d.next(t)
					}
				}
			}
			r.logf("start")
			r.mu.Unlock()
			r.c.Start()
			r.mu.Lock()
		case "stop":
			ctx := r.c.Stop()
			r.mu.Lock()
			if r.running {
				r.stoppedRet = true
			}
			r.running = false
			r.ctxs = append(r.ctxs, &ctxMon{k: len(r.ctxs), ctx: ctx, launchedAt: r.launched})
			r.logf("stop")
		}
		if p != nil {
			p.logged = true
		}
		r.mu.Unlock()
	}()
	return h
}

func (r *runner) finishCall(h *callHandle, what string) bool {
	select {
	case <-h.done:
		return true
	case <-time.After(waitLimit):
		r.mu.Lock()
		if os.Getenv("C05_DEBUG") != "" {
			buf := make([]byte, 1<<20)
			buf = buf[:runtime.Stack(buf, true)]
			fmt.Fprintf(os.Stderr, "HANG %s\n%s\n%s\n", what, strings.Join(r.lines, "\n"), buf)
		}
		r.violate("api-hang", what+" did not return within "+waitLimit.String())
		r.broken = "hang"
		r.mu.Unlock()
		return false
	}
}

func (r *runner) quiescentLocked() bool {
	if r.pending != nil || r.begun != r.launched {
		return false
	}
	if !r.running {
		return true
	}
	if !r.lastArmed || r.held {
		return false
	}
	if r.timerFlag && r.curTimer != nil && r.curTimer.Fired() {
		return false
	}
	return true
}

// settle waits until the scheduler goroutine is parked on an unfired timer (or stopped), every
// launched job has begun, and (for instant jobs) returned; then records the `quiet` assertion.
func (r *runner) settle() bool {
	r.mu.Lock()
	defer r.mu.Unlock()
	ok := r.waitFor(func() bool {
		if r.broken != "" {
			return true
		}
		if !r.quiescentLocked() {
			return false
		}
		for _, inv := range r.invs {
			if !inv.blocked && !inv.returned {
				return false
			}
		}
		return true
	})
	if r.broken != "" {
		return false
	}
	if !ok {
		r.violate("loop-hang", fmt.Sprintf("scheduler did not become quiescent (running=%v lastArmed=%v timer=%v launched=%d begun=%d pending=%v)",
			r.running, r.lastArmed, r.timerFlag, r.launched, r.begun, r.pending != nil))
		r.broken = "no-quiescence"
		return false
	}
	r.logf("quiet")
	r.checkCtxs()
	// promptness: parked with a fresh `now` => nothing due is left unstarted
	if r.running && r.loopNow == r.armClock {
		clk := r.now()
		for _, id := range r.order {
			e := r.ents[id]
			if !e.removed && e.expNext != 0 && e.expNext <= clk {
				r.violate("missed-start", fmt.Sprintf("entry %d: activation %d reached (clock %d) while the loop was parked, not started", id, e.expNext, clk))
			}
		}
	}
	return true
}

func (r *runner) seq() int {
	r.mu.Lock()
	defer r.mu.Unlock()
	return r.armedSeq
}

func (r *runner) isRunning() bool {
	r.mu.Lock()
	defer r.mu.Unlock()
	return r.running
}

func (r *runner) seqOp(op Op) bool {
	h := r.startCall(op)
	if !r.finishCall(h, op.K) {
		return false
	}
	return r.settle()
}

func (r *runner) advanceTo(t int) {
	r.mu.Lock()
	if t < r.now() {
		t = r.now()
	}
	r.logf("advance t=%d", t)
	r.mu.Unlock()
	r.clk.Advance(toTime(t))
}

// target resolves an advance mode against what the harness knows about the live entries.
func (r *runner) target(mode string, n, frac int) int {
	r.mu.Lock()
	defer r.mu.Unlock()
	clk := r.now()
	min := 0
	for _, id := range r.order {
		e := r.ents[id]
		if e.removed {
			continue
		}
		nx := e.expNext
		if !r.running || nx == 0 {
			nx = e.d.next(clk)
		}
		if nx > clk && (min == 0 || nx < min) {
			min = nx
		}
	}
	if min == 0 {
		min = clk + 1000
	}
	switch mode {
	case "exact":
		return min
	case "past": // lands after the next instant by a sub-second fraction
		return min + frac
	case "before":
		if min-1 > clk {
			return min - 1
		}
		return clk
	case "zero":
		return clk
	default: // across
		if n < 1 {
			n = 1
		}
		return clk + n*1000 + frac
	}
}

func (r *runner) doRace(op Op) bool {
	if !r.isRunning() || op.Inner == nil {
		// not running: the same operations in sequence
		r.advanceTo(r.target(op.Mode, op.N, op.Frac))
		if !r.settle() {
			return false
		}
		if op.Inner != nil {
			return r.seqOp(*op.Inner)
		}
		return true
	}
	// park the loop at the armed hook (an Entries() call makes it pass the hook again)
	r.mu.Lock()
	r.holdReq = true
	r.releaseCh = make(chan struct{})
	rel := r.releaseCh
	r.mu.Unlock()
	h := r.startCall(Op{K: "entries"})
	if !r.finishCall(h, "entries") {
		close(rel)
		return false
	}
	r.mu.Lock()
	ok := r.waitFor(func() bool { return r.held })
	r.mu.Unlock()
	if !ok {
		close(rel)
		r.mu.Lock()
		r.violate("loop-hang", "loop did not reach the armed hook after Entries()")
		r.broken = "no-hold"
		r.mu.Unlock()
		return false
	}
	t1 := r.target(op.Mode, op.N, op.Frac)
	r.advanceTo(t1)
	if op.Stale > 0 {
		r.advanceTo(t1 + op.Stale*1000 - op.Frac%1000)
	}
	h2 := r.startCall(*op.Inner)
	// let the request goroutine block on its channel send, so that both select cases are ready
	time.Sleep(300 * time.Microsecond)
	r.mu.Lock()
	mark := len(r.lines)
	r.mu.Unlock()
	close(rel)
	if !r.finishCall(h2, "race:"+op.Inner.K) {
		return false
	}
	if !r.settle() {
		return false
	}
	// which select case won?
	r.mu.Lock()
	order := "no-wake"
	for _, l := range r.lines[mark:] {
		if strings.HasPrefix(l, "woke") {
			order = "wake-first"
			break
		}
		if strings.HasPrefix(l, op.Inner.K+" ") || l == op.Inner.K {
			order = "request-first"
			for _, l2 := range r.lines[mark:] {
				if strings.HasPrefix(l2, "woke") {
					order = "request-first-then-wake"
				}
			}
			break
		}
	}
	r.stats["race:"+op.Inner.K+":"+order]++
	if op.Stale > 0 {
		r.stats["race:stale-now"]++
	}
	r.mu.Unlock()
	return true
}

func runCase(cs Case, res *lib.Result) (lines []string, stats map[string]int, broken string, nStarts int) {
	r := &runner{cs: cs, res: res, ents: map[int]*entMon{}, stats: map[string]int{}}
	r.clk = NewVClock(toTime(cs.T0))
	r.c = cron.New(cron.WithClock(r.clk), cron.WithLocation(time.UTC), cron.WithLogger(tapLogger{}))
	descs := make([]string, len(cs.Scheds))
	for i, d := range cs.Scheds {
		descs[i] = d.String()
	}
	r.logf("case scheds=%s t0=%d", strings.Join(descs, ";"), cs.T0)
	cur.Store(r)
	defer cur.Store(nil)

	for _, op := range cs.Ops {
		if r.broken != "" {
			break
		}
		r.stats["op:"+op.K]++
		switch op.K {
		case "add", "entries", "start", "stop":
			r.seqOp(op)
		case "remove":
			r.seqOp(op)
		case "adv":
			r.stats["adv:"+op.Mode]++
			r.advanceTo(r.target(op.Mode, op.N, op.Frac))
			r.settle()
		case "release":
			r.mu.Lock()
			var blocked []*invocation
			for _, inv := range r.invs {
				if inv.blocked && !inv.returned {
					blocked = append(blocked, inv)
				}
			}
			var inv *invocation
			if len(blocked) > 0 {
				inv = blocked[op.Idx%len(blocked)]
			}
			r.mu.Unlock()
			if inv != nil {
				r.mu.Lock()
				inv.blocked = false
				r.mu.Unlock()
				close(inv.release)
				r.settle()
			}
		case "race":
			r.doRace(op)
		}
	}
	// wind down: stop the scheduler, let every job return, every Stop context must complete
	if r.broken == "" && r.isRunning() {
		r.seqOp(Op{K: "stop"})
	}
	r.mu.Lock()
	for _, inv := range r.invs {
		if inv.blocked && !inv.returned {
			inv.blocked = false
			close(inv.release)
		}
	}
	r.mu.Unlock()
	if r.broken == "" {
		r.settle()
		r.mu.Lock()
		ok := r.waitFor(func() bool {
			r.checkCtxs()
			for _, cm := range r.ctxs {
				if !cm.seenDone {
					return false
				}
			}
			return true
		})
		if !ok {
			r.violate("stop-ctx-never-done", "every job returned but a Stop context did not complete")
		}
		r.mu.Unlock()
	} else {
		// do not leave a scheduler goroutine behind: detach the taps, free a held loop, stop it
		cur.Store(nil)
		r.mu.Lock()
		if r.releaseCh != nil {
			select {
			case <-r.releaseCh:
			default:
				close(r.releaseCh)
			}
		}
		r.mu.Unlock()
		stopped := make(chan struct{})
		go func() { r.c.Stop(); close(stopped) }()
		select {
		case <-stopped:
		case <-time.After(waitLimit):
		}
	}
	r.mu.Lock()
	defer r.mu.Unlock()
	r.logf("end")
	return append([]string(nil), r.lines...), r.stats, r.broken, r.nStarts
}

// ---- generation ----

var families = map[string][]SchedDesc{
	"equal":   {{K: "p", P: 3000, O: 3000}, {K: "p", P: 3000, O: 3000}, {K: "p", P: 4000, O: 1000}, {K: "p", P: 4000, O: 1000}},
	"nested":  {{K: "p", P: 2000, O: 2000}, {K: "p", P: 4000, O: 4000}, {K: "p", P: 8000, O: 8000}, {K: "p", P: 4000, O: 2000}},
	"coprime": {{K: "p", P: 3000, O: 3000}, {K: "p", P: 5000, O: 5000}, {K: "p", P: 7000, O: 7000}, {K: "p", P: 2000, O: 1000}},
	"mixed":   {{K: "p", P: 3000, O: 1000}, {K: "z"}, {K: "f", P: 4000, O: 4000, Lim: 40000}, {K: "d", P: 5000}, {K: "p", P: 6000, O: 6000}},
}
var familyNames = []string{"equal", "nested", "coprime", "mixed"}

// sub-second landing points of clock advances (ms); activation instants are whole seconds
var fracs = []int{0, 0, 0, 300, 500, 600, 999}

func genOp(rg *lib.Rand, nScheds, nAdds int, allowRace bool) Op {
	x := rg.Intn(100)
	switch {
	case x < 16:
		return Op{K: "add", Sid: rg.Intn(nScheds), Block: rg.Intn(4) == 0}
	case x < 52:
		m := []string{"exact", "exact", "before", "across", "across", "zero", "past", "past"}[rg.Intn(8)]
		return Op{K: "adv", Mode: m, N: rg.Range(1, 20), Frac: fracs[rg.Intn(len(fracs))]}
	case x < 62:
		return Op{K: "entries"}
	case x < 70:
		id := 99
		if nAdds > 0 && rg.Intn(8) != 0 {
			id = rg.Range(1, nAdds)
		}
		return Op{K: "remove", Idx: id}
	case x < 75:
		return Op{K: "start"}
	case x < 80:
		return Op{K: "stop"}
	case x < 85:
		return Op{K: "release", Idx: rg.Intn(4)}
	default:
		if !allowRace {
			return Op{K: "adv", Mode: "exact"}
		}
		var inner Op
		switch rg.Intn(6) {
		case 0, 1:
			inner = Op{K: "add", Sid: rg.Intn(nScheds), Block: rg.Intn(4) == 0}
		case 2, 3:
			id := 99
			if nAdds > 0 {
				id = rg.Range(1, nAdds)
			}
			inner = Op{K: "remove", Idx: id}
		case 4:
			inner = Op{K: "entries"}
		default:
			inner = Op{K: "stop"}
		}
		st := 0
		if rg.Intn(3) == 0 {
			st = rg.Range(1, 9)
		}
		m := []string{"exact", "exact", "across", "before", "past"}[rg.Intn(5)]
		return Op{K: "race", Mode: m, N: rg.Range(1, 15), Frac: fracs[rg.Intn(len(fracs))], Stale: st, Inner: &inner}
	}
}

func genCase(rg *lib.Rand, i int) Case {
	fam := familyNames[rg.Intn(len(familyNames))]
	cs := Case{Name: fmt.Sprintf("g%d", i), Family: fam, T0: rg.Range(5, 25)*1000 + fracs[rg.Intn(len(fracs))], Scheds: families[fam]}
	n := rg.Range(6, 34)
	nAdds := 0
	// a prefix that makes most cases interesting: some entries, then Start (in either order)
	pre := rg.Intn(4)
	for k := 0; k < pre; k++ {
		cs.Ops = append(cs.Ops, Op{K: "add", Sid: rg.Intn(len(cs.Scheds)), Block: rg.Intn(5) == 0})
		nAdds++
	}
	if rg.Intn(8) != 0 {
		cs.Ops = append(cs.Ops, Op{K: "start"})
	}
	for len(cs.Ops) < n {
		op := genOp(rg, len(cs.Scheds), nAdds, true)
		if op.K == "add" || (op.K == "race" && op.Inner.K == "add") {
			nAdds++
		}
		cs.Ops = append(cs.Ops, op)
	}
	return cs
}

// small-scope enumeration: every sequence of `depth` operations from a fixed alphabet after
// "add; add; start", over one schedule table.
func enumCases(depth int) []Case {
	alpha := []Op{
		{K: "adv", Mode: "exact"},
		{K: "adv", Mode: "across", N: 7, Frac: 600},
		{K: "add", Sid: 1},
		{K: "remove", Idx: 1},
		{K: "entries"},
		{K: "stop"},
		{K: "start"},
		{K: "race", Mode: "exact", Inner: &Op{K: "remove", Idx: 2}},
		{K: "race", Mode: "exact", Stale: 2, Inner: &Op{K: "add", Sid: 2}},
	}
	var out []Case
	var rec func(prefix []Op)
	rec = func(prefix []Op) {
		if len(prefix) == depth {
			ops := append([]Op{{K: "add", Sid: 0}, {K: "add", Sid: 1, Block: true}, {K: "start"}}, prefix...)
			out = append(out, Case{Name: fmt.Sprintf("e%d", len(out)), Family: "coprime", T0: 10000, Scheds: families["coprime"], Ops: append([]Op(nil), ops...)})
			return
		}
		for _, a := range alpha {
			rec(append(append([]Op(nil), prefix...), a))
		}
	}
	rec(nil)
	return out
}

// ---- restart stress (separate process: a panic in a goroutine of the code under test cannot be
// recovered in-process) ----

// stressChild repeats: a job blocks; Stop (its goroutine waits for the job waiter); Start again;
// then the blocked job returns while the restarted loop launches new jobs.
func stressChild(iters int) {
	waitParked := func(clk *VClock, prev *vtimer) *vtimer {
		for i := 0; i < 2000000; i++ {
			if t := clk.Last(); t != nil && t != prev && !t.Fired() {
				return t
			}
			runtime.Gosched()
		}
		return clk.Last()
	}
	for i := 0; i < iters; i++ {
		clk := NewVClock(toTime(10))
		c := cron.New(cron.WithClock(clk), cron.WithLocation(time.UTC), cron.WithLogger(cron.DiscardLogger))
		rel := make(chan struct{})
		began := make(chan struct{}, 64)
		c.Schedule(goSched{SchedDesc{K: "p", P: 1, O: 1}}, cron.FuncJob(func() {
			select {
			case began <- struct{}{}:
			default:
			}
			<-rel
		}))
		c.Start()
		tm := waitParked(clk, nil)
		clk.Advance(toTime(11))
		<-began
		tm = waitParked(clk, tm)
		ctx := c.Stop()
		c.Start()
		tm = waitParked(clk, tm)
		go close(rel)
		for k := 12; k < 15; k++ {
			clk.Advance(toTime(k))
			tm = waitParked(clk, tm)
		}
		select {
		case <-ctx.Done():
		case <-time.After(waitLimit):
			fmt.Fprintln(os.Stderr, "STRESS: stop context never done")
			os.Exit(3)
		}
		<-c.Stop().Done()
	}
}

func runStress(res *lib.Result, iters int) {
	cmd := exec.Command(os.Args[0])
	cmd.Env = append(os.Environ(), fmt.Sprintf("C05_STRESS_CHILD=%d", iters))
	var errb bytes.Buffer
	cmd.Stderr = &errb
	done := make(chan error, 1)
	if err := cmd.Start(); err != nil {
		res.Note("restart stress could not start: " + err.Error())
		return
	}
	go func() { done <- cmd.Wait() }()
	var err error
	select {
	case err = <-done:
	case <-time.After(120 * time.Second):
		cmd.Process.Kill()
		err = fmt.Errorf("timeout")
	}
	res.Hit("restart-stress-iterations:" + fmt.Sprint(iters))
	cs := map[string]any{"family": "restart-stress", "script": "add blocking job; Start; advance (job begins, blocks); Stop; Start; release the job while advancing the clock over the next activations", "iterations": iters}
	if err != nil {
		msg := errb.String()
		if len(msg) > 1200 {
			msg = msg[:1200]
		}
		id := "restart-crash"
		if strings.Contains(msg, "WaitGroup is reused") {
			id = "stop-waitgroup-reuse-panic"
		} else if strings.Contains(msg, "never done") {
			id = "stop-ctx-never-done"
		}
		res.Violate(id, "process running Stop; Start; job return || job launch died: "+err.Error()+": "+msg, cs)
	}
}

// ---- back-to-back Stop/Start (no settling in between) ----
//
//	start-after-stop            after the LAST Stop returned and its context completed, a job started
//	scheduler-alive-after-stop  … a scheduler goroutine still holds an armed timer
//	api-hang                    Stop/Start did not return
func runRapidRestart(res *lib.Result, rg *lib.Rand, n int) {
	waitParked := func(clk *VClock, prev *vtimer) *vtimer {
		for i := 0; i < 400000; i++ {
			if t := clk.Last(); t != nil && t != prev && !t.Fired() {
				return t
			}
			time.Sleep(5 * time.Microsecond)
		}
		return clk.Last()
	}
	for it := 0; it < n; it++ {
		clk := NewVClock(toTime(10000))
		var starts atomic.Int64
		c := cron.New(cron.WithClock(clk), cron.WithLocation(time.UTC), cron.WithLogger(cron.DiscardLogger))
		c.Schedule(goSched{SchedDesc{K: "p", P: 1000, O: 1000}}, cron.FuncJob(func() { starts.Add(1) }))
		k := rg.Range(1, 4)
		settleBeforeLast := rg.Intn(3) == 0
		script := fmt.Sprintf("Schedule(every second); Start; %d x (Stop; Start) back to back; settle=%v; Stop; wait ctx; advance 5 s", k, settleBeforeLast)
		cs := map[string]any{"family": "rapid-restart", "script": script}
		done := make(chan context.Context, 1)
		go func() {
			c.Start()
			waitParked(clk, nil)
			for j := 0; j < k; j++ {
				c.Stop()
				c.Start()
			}
			if settleBeforeLast {
				time.Sleep(200 * time.Microsecond)
			}
			done <- c.Stop()
		}()
		var ctx context.Context
		select {
		case ctx = <-done:
		case <-time.After(waitLimit):
			res.Violate("api-hang", "rapid-restart: Stop/Start sequence did not return: "+script, cs)
			continue
		}
		select {
		case <-ctx.Done():
		case <-time.After(waitLimit):
			res.Violate("stop-ctx-never-done", "rapid-restart: the last Stop's context did not complete: "+script, cs)
		}
		// the exiting scheduler goroutines stop their timers
		alive := true
		for w := 0; w < 4000; w++ {
			if clk.ArmedCount() == 0 {
				alive = false
				break
			}
			time.Sleep(50 * time.Microsecond)
		}
		if alive {
			res.Violate("scheduler-alive-after-stop", "after the last Stop returned and its context completed a scheduler goroutine still has an armed timer: "+script, cs)
		}
		s0 := starts.Load()
		for j := 1; j <= 5; j++ {
			clk.Advance(toTime(10000 + j*1000))
			time.Sleep(100 * time.Microsecond)
		}
		time.Sleep(500 * time.Microsecond)
		if s1 := starts.Load(); s1 > s0 {
			res.Violate("start-after-stop", fmt.Sprintf("%d job start(s) after the last Stop returned and its context completed: %s", s1-s0, script), cs)
		}
		res.Hit(fmt.Sprintf("rapid-restart:stop-start-pairs:%d", k))
		res.Count(fmt.Sprintf("rapid-restart:%d:%v", k, settleBeforeLast), true)
	}
}

// ---- main ----

func main() {
	if v := os.Getenv("C05_STRESS_CHILD"); v != "" {
		n := 0
		fmt.Sscan(v, &n)
		stressChild(n)
		return
	}
	if v := os.Getenv("C05_VIACRON_CHILD"); v != "" {
		var n int
		var seed uint64
		fmt.Sscanf(v, "%d:%d", &n, &seed)
		viaCronChild(n, seed)
		return
	}
	fl := lib.ParseFlags()
	res := lib.NewResult("a history is non-trivial if the scheduler was started, at least one job start was observed, and the history contains a Remove, a Stop or a forced add/remove/stop-vs-wake race; distinct = distinct observable traces")
	verifhook.Set(hookCB)

	var cases []Case
	if fl.Replay != "" {
		b, err := os.ReadFile(fl.Replay)
		if err != nil {
			fmt.Fprintln(os.Stderr, "replay:", err)
			os.Exit(2)
		}
		var gp struct {
			Case map[string]any `json:"case"`
		}
		if json.Unmarshal(b, &gp) == nil {
			switch fam, _ := gp.Case["family"].(string); fam {
			case "rapid-restart":
				runRapidRestart(res, lib.NewRand(fl.Seed), 400)
				res.Write(fl.Out)
				return
			case "location":
				runLocationFamily(res, lib.NewRand(fl.Seed^0x10ca), 400)
				res.Write(fl.Out)
				return
			case "restart-stress":
				runStress(res, 300000)
				res.Write(fl.Out)
				return
			case "chain":
				if k, _ := gp.Case["kind"].(string); strings.HasPrefix(k, "via-cron") {
					runViaCronChild(res, 300, fl.Seed)
					res.Write(fl.Out)
					return
				} else if k == "then" {
					checkThenOrder(res, lib.NewRand(fl.Seed))
					res.Write(fl.Out)
					return
				}
			}
		}
		var cp struct {
			Case ChainCase `json:"case"`
		}
		if json.Unmarshal(b, &cp) == nil && cp.Case.Family == "chain" {
			for i := 0; i < 20; i++ {
				runChainCase(cp.Case, res)
			}
			res.Evaluations = 20
			res.Write(fl.Out)
			return
		}
		var rp struct {
			Case Case `json:"case"`
		}
		if err := json.Unmarshal(b, &rp); err != nil || len(rp.Case.Scheds) == 0 {
			fmt.Fprintln(os.Stderr, "replay: no case in file", err)
			os.Exit(2)
		}
		// a race is a schedule-dependent situation: repeat it so both orders are seen
		for i := 0; i < 40; i++ {
			cases = append(cases, rp.Case)
		}
	} else {
		nRand, depth := 3000, 3
		if fl.Tier == "thorough" {
			nRand, depth = 40000, 4
		}
		if fl.Search {
			nRand *= 6
		}
		cases = append(cases, enumCases(depth)...)
		rg := lib.NewRand(fl.Seed)
		for i := 0; i < nRand; i++ {
			cases = append(cases, genCase(rg.Fork(), i))
		}
	}

	drv, err := lib.StartDrv(fl.Drv, "C05")
	if err != nil {
		fmt.Fprintln(os.Stderr, "drv:", err)
		drv = nil
	}
	defer drv.Close()
	if drv == nil {
		res.Note("model driver unavailable: monitors only")
	}

	type done struct {
		cs    Case
		lines []string
	}
	var batch []done
	flush := func() {
		if drv == nil || len(batch) == 0 {
			batch = nil
			return
		}
		var all []string
		for _, d := range batch {
			all = append(all, d.lines...)
		}
		outs, err := drv.AskBatch(all)
		if err != nil {
			res.Disagree("trace-inclusion(driver died)", batch[0].cs, err.Error(), "")
			batch = nil
			return
		}
		k := 0
		for _, d := range batch {
			okAll := true
			for j, l := range d.lines {
				o := outs[k+j]
				if !strings.HasPrefix(o, "ok") {
					if okAll && strings.HasPrefix(o, "reject") {
						res.Disagree("trace-inclusion: observable trace of cron.Cron must be accepted by Kit.CronSched.step", map[string]any{"case": d.cs, "trace": d.lines[:j+1]}, o, l)
					}
					okAll = false
				}
			}
			if okAll {
				res.Traces++
			}
			k += len(d.lines)
		}
		batch = nil
	}

	t0 := time.Now()
	for i, cs := range cases {
		lines, stats, broken, nStarts := runCase(cs, res)
		key := strings.Join(lines, "\n")
		hasRSR := false
		started := false
		for _, l := range lines {
			if strings.HasPrefix(l, "remove") || l == "stop" {
				hasRSR = true
			}
			if l == "start" {
				started = true
			}
		}
		raced := false
		for k, v := range stats {
			res.Distribution[k] += v
			if strings.HasPrefix(k, "race:") {
				raced = true
			}
		}
		res.Count(key, started && nStarts > 0 && (hasRSR || raced))
		res.Hit("family:" + cs.Family)
		res.Hit(fmt.Sprintf("starts-per-history:%s", bucket(nStarts)))
		res.Hit(fmt.Sprintf("events-per-trace:%s", bucket(len(lines))))
		if broken != "" {
			res.Hit("harness-broken:" + broken)
		}
		if i%97 == 0 {
			res.Sample(map[string]any{"case": cs, "trace": lines})
		}
		batch = append(batch, done{cs, lines})
		if len(batch) >= 200 {
			flush()
		}
	}
	flush()
	if fl.Replay == "" {
		nChain := 600
		if fl.Tier == "thorough" {
			nChain = 8000
		}
		if fl.Search {
			nChain *= 4
		}
		runChainFamily(res, lib.NewRand(fl.Seed^0x5eed), nChain, fl.Drv)
		runRapidRestart(res, lib.NewRand(fl.Seed^0xbacc), nChain/2)
		runLocationFamily(res, lib.NewRand(fl.Seed^0x10ca), nChain/6)
	}
	if fl.Replay == "" {
		it := 20000
		if fl.Tier == "thorough" || fl.Search {
			it = 300000
		}
		runStress(res, it)
	}
	res.Exhaustive = false
	res.Note(fmt.Sprintf("%d histories in %.1fs (small-scope enumeration: %d)", len(cases), time.Since(t0).Seconds(), len(cases)-countRandom(cases)))
	res.Write(fl.Out)
}

func countRandom(cs []Case) int {
	n := 0
	for _, c := range cs {
		if strings.HasPrefix(c.Name, "g") {
			n++
		}
	}
	return n
}

func bucket(n int) string {
	switch {
	case n == 0:
		return "0"
	case n <= 2:
		return "1-2"
	case n <= 5:
		return "3-5"
	case n <= 10:
		return "6-10"
	case n <= 20:
		return "11-20"
	case n <= 50:
		return "21-50"
	default:
		return ">50"
	}
}
