package main

import (
	"sync"
	"time"

	"k8s.io/utils/clock"
)

// VClock is a deterministic clock.Clock: time moves only in Advance; a timer fires as soon as
// now >= deadline (immediately at creation when d <= 0, unlike the k8s fake whose timers wait for
// the next Step) and sends the clock value of that instant into its 1-slot channel.
type VClock struct {
	mu     sync.Mutex
	now    time.Time
	timers []*vtimer
	last   *vtimer
	// nowCalls counts Now() calls (lets a harness see that a goroutine has read the clock)
	nowCalls int
}

type vtimer struct {
	clk      *VClock
	c        chan time.Time
	deadline time.Time
	created  time.Time
	armed    bool // not fired, not stopped
	fired    bool
	firedAt  time.Time
}

var _ clock.Clock = (*VClock)(nil)

func NewVClock(t time.Time) *VClock { return &VClock{now: t} }

func (v *VClock) Now() time.Time {
	v.mu.Lock()
	defer v.mu.Unlock()
	v.nowCalls++
	return v.now
}

// NowCalls returns how many times Now was called.
func (v *VClock) NowCalls() int {
	v.mu.Lock()
	defer v.mu.Unlock()
	return v.nowCalls
}

func (v *VClock) Since(t time.Time) time.Duration { return v.Now().Sub(t) }

func (v *VClock) NewTimer(d time.Duration) clock.Timer {
	v.mu.Lock()
	defer v.mu.Unlock()
	return v.newTimerLocked(d)
}

func (v *VClock) newTimerLocked(d time.Duration) *vtimer {
	t := &vtimer{clk: v, c: make(chan time.Time, 1), deadline: v.now.Add(d), created: v.now, armed: true}
	v.last = t
	if d <= 0 {
		t.fireLocked(v.now)
	} else {
		v.timers = append(v.timers, t)
	}
	return t
}

func (t *vtimer) fireLocked(now time.Time) {
	t.armed = false
	t.fired = true
	t.firedAt = now
	select {
	case t.c <- now:
	default:
	}
}

func (v *VClock) After(d time.Duration) <-chan time.Time { return v.NewTimer(d).C() }

// Sleep blocks until the fake clock has advanced by d.
func (v *VClock) Sleep(d time.Duration) { <-v.After(d) }

// Tick is not used by the code under test; a single-shot channel keeps the interface total.
func (v *VClock) Tick(d time.Duration) <-chan time.Time { return v.After(d) }

// Advance moves the clock to t (never backwards) and fires every armed timer whose deadline has
// been reached. It returns the number of timers fired.
func (v *VClock) Advance(t time.Time) int {
	v.mu.Lock()
	defer v.mu.Unlock()
	if t.Before(v.now) {
		return 0
	}
	v.now = t
	n := 0
	keep := v.timers[:0]
	for _, tm := range v.timers {
		if !tm.armed {
			continue
		}
		if !tm.deadline.After(t) {
			tm.fireLocked(t)
			n++
		} else {
			keep = append(keep, tm)
		}
	}
	v.timers = keep
	return n
}

// ArmedCount returns the number of timers that are armed (created, not fired, not stopped).
func (v *VClock) ArmedCount() int {
	v.mu.Lock()
	defer v.mu.Unlock()
	n := 0
	for _, t := range v.timers {
		if t.armed {
			n++
		}
	}
	return n
}

// Last returns the most recently created timer.
func (v *VClock) Last() *vtimer {
	v.mu.Lock()
	defer v.mu.Unlock()
	return v.last
}

func (t *vtimer) C() <-chan time.Time { return t.c }

func (t *vtimer) Stop() bool {
	t.clk.mu.Lock()
	defer t.clk.mu.Unlock()
	was := t.armed
	t.armed = false
	return was
}

func (t *vtimer) Reset(d time.Duration) bool {
	t.clk.mu.Lock()
	defer t.clk.mu.Unlock()
	was := t.armed
	t.armed = true
	t.fired = false
	t.deadline = t.clk.now.Add(d)
	if d <= 0 {
		t.fireLocked(t.clk.now)
	} else {
		t.clk.timers = append(t.clk.timers, t)
	}
	return was
}

// Fired reports whether the timer has put a value into its channel.
func (t *vtimer) Fired() bool {
	t.clk.mu.Lock()
	defer t.clk.mu.Unlock()
	return t.fired
}

func (t *vtimer) info() (deadline, firedAt time.Time, fired bool) {
	t.clk.mu.Lock()
	defer t.clk.mu.Unlock()
	return t.deadline, t.firedAt, t.fired
}
