package main

// Scenarios for the job wrappers of cron/chain.go (SkipIfStillRunning, DelayIfStillRunningWithClock,
// Recover): the REAL wrapper is built once (`cron.NewChain(w).Then(job)`) and called from one
// goroutine per invocation, with an inner job that blocks until the harness lets it return or
// panic.  The observable trace (call / begin / release / ret / logger counters / settled) is
// checked by `kitdrv C05 chain` against Kit.CronChain.step; monitors independent of the model:
//
//	chain-concurrent-runs       Skip/Delay: two instances of the inner job ran at the same time
//	chain-skip-miscount         Skip: "skip" log lines != invocations that returned without running
//	chain-skip-while-idle       Skip: an invocation was skipped although no instance was running
//	                            (and none had panicked)
//	chain-delay-lost-call       Delay: an invocation never ran although every instance returned
//	chain-delay-log             Delay: "delay" logged for a wait <= 1 min, or not for a longer one
//	chain-recover-propagated    Recover: a panic of the inner job escaped the wrapper
//	chain-recover-log-miscount  Recover: error log lines != panics
//	chain-hang                  a call neither began, returned nor blocked as expected

import (
	"bytes"
	"encoding/json"
	"fmt"
	"os"
	"os/exec"
	"strings"
	"sync"
	"time"

	"github.com/dapr/kit/cron"

	"verifharness/lib"
)

type ChainOp struct {
	K     string `json:"k"` // call release advance
	Idx   int    `json:"idx,omitempty"`
	Panic bool   `json:"panic,omitempty"`
	DT    int    `json:"dt,omitempty"`
}

type ChainCase struct {
	Family string    `json:"family"` // "chain"
	Kind   string    `json:"kind"`
	T0     int       `json:"t0"`
	Ops    []ChainOp `json:"ops"`
}

type chainLogger struct {
	mu                  sync.Mutex
	skip, delay, panics int
}

func (l *chainLogger) Info(msg string, kv ...any) {
	l.mu.Lock()
	defer l.mu.Unlock()
	switch msg {
	case "skip":
		l.skip++
	case "delay":
		l.delay++
	}
}

func (l *chainLogger) Error(err error, msg string, kv ...any) {
	l.mu.Lock()
	defer l.mu.Unlock()
	if msg == "panic" {
		l.panics++
	}
}

type innerRun struct {
	b       int
	release chan bool // true = panic
	done    bool
	beganAt int
}

type chainRunner struct {
	mu      sync.Mutex
	cs      ChainCase
	res     *lib.Result
	clk     *VClock
	lg      *chainLogger
	lines   []string
	runs    []*innerRun
	running int
	maxConc int
	calls   int
	callAt  []int
	ret     []int // 0 pending, 1 normal, 2 panic
	began   []bool
	panics  int
	lostTok bool
	broken  bool
}

func (r *chainRunner) logf(f string, a ...any) { r.lines = append(r.lines, fmt.Sprintf(f, a...)) }

func (r *chainRunner) violate(id, what string) {
	r.res.Violate(id, what+" | trace tail: "+strings.Join(tail(r.lines, 12), " ; "), r.cs)
}

func (r *chainRunner) wait(pred func() bool, limit time.Duration) bool {
	deadline := time.Now().Add(limit)
	for {
		r.mu.Lock()
		ok := pred()
		r.mu.Unlock()
		if ok {
			return true
		}
		if time.Now().After(deadline) {
			return false
		}
		time.Sleep(20 * time.Microsecond)
	}
}

// the wrapper scenarios count in whole seconds (Delay's threshold is one minute = 60)
func secTime(t int) time.Time { return base.Add(time.Duration(t) * time.Second) }
func secModel(tm time.Time) int { return int(tm.Sub(base) / time.Second) }

func runChainCase(cs ChainCase, res *lib.Result) []string {
	r := &chainRunner{cs: cs, res: res, clk: NewVClock(secTime(cs.T0)), lg: &chainLogger{}}
	var w cron.JobWrapper
	switch cs.Kind {
	case "skip":
		w = cron.SkipIfStillRunning(r.lg)
	case "delay":
		w = cron.DelayIfStillRunningWithClock(r.lg, r.clk)
	default:
		w = cron.Recover(r.lg)
	}
	inner := cron.FuncJob(func() {
		r.mu.Lock()
		run := &innerRun{b: len(r.runs), release: make(chan bool, 1), beganAt: secModel(r.clk.Now())}
		r.runs = append(r.runs, run)
		r.running++
		if r.running > r.maxConc {
			r.maxConc = r.running
		}
		if r.running > 1 && cs.Kind != "recover" {
			r.violate("chain-concurrent-runs", fmt.Sprintf("%s: %d instances of the inner job run at the same time", cs.Kind, r.running))
		}
		r.logf("begin")
		r.mu.Unlock()
		p := <-run.release
		r.mu.Lock()
		run.done = true
		r.running--
		r.mu.Unlock()
		if p {
			panic(fmt.Errorf("inner job %d panics", run.b))
		}
	})
	wrapped := cron.NewChain(w).Then(inner)
	r.logf("chain kind=%s t0=%d", cs.Kind, cs.T0)

	call := func() {
		r.mu.Lock()
		i := r.calls
		r.calls++
		r.callAt = append(r.callAt, secModel(r.clk.Now()))
		r.ret = append(r.ret, 0)
		nruns := len(r.runs)
		busy := r.running > 0
		r.logf("call")
		r.mu.Unlock()
		c0 := r.clk.NowCalls()
		go func() {
			how := 1
			defer func() {
				if x := recover(); x != nil {
					how = 2
				}
				r.mu.Lock()
				r.ret[i] = how
				r.logf("ret i=%d panic=%d", i, how-1)
				if how == 2 && cs.Kind == "recover" {
					r.violate("chain-recover-propagated", fmt.Sprintf("Recover let the panic of call %d escape", i))
				}
				r.mu.Unlock()
			}()
			wrapped.Run()
		}()
		// the call begins its inner run, comes back, or (Delay while an instance runs) blocks
		expectBlock := cs.Kind == "delay" && busy
		limit := waitLimit
		if cs.Kind == "delay" {
			// the wrapper reads the clock (`start := clk.Now()`) before it queues on the mutex
			deadline := time.Now().Add(waitLimit)
			for r.clk.NowCalls() == c0 && time.Now().Before(deadline) {
				time.Sleep(10 * time.Microsecond)
			}
		}
		if expectBlock {
			limit = 1500 * time.Microsecond
		}
		ok := r.wait(func() bool { return len(r.runs) > nruns || r.ret[i] != 0 }, limit)
		if !ok && !expectBlock {
			r.mu.Lock()
			r.violate("chain-hang", fmt.Sprintf("%s: call %d neither began nor returned", cs.Kind, i))
			r.broken = true
			r.mu.Unlock()
		}
	}
	release := func(op ChainOp) {
		r.mu.Lock()
		var live []*innerRun
		for _, run := range r.runs {
			if !run.done && len(run.release) == 0 {
				live = append(live, run)
			}
		}
		if len(live) == 0 {
			r.mu.Unlock()
			return
		}
		run := live[op.Idx%len(live)]
		nruns := len(r.runs)
		nret := 0
		for _, x := range r.ret {
			if x != 0 {
				nret++
			}
		}
		waiting := r.calls - nret - r.running
		if op.Panic {
			r.panics++
			if cs.Kind == "skip" {
				r.lostTok = true
			}
		}
		p := 0
		if op.Panic {
			p = 1
		}
		r.logf("release b=%d panic=%d", run.b, p)
		r.mu.Unlock()
		run.release <- op.Panic
		// its wrapper returns; with Delay one waiting call (if any) now begins
		ok := r.wait(func() bool {
			n := 0
			for _, x := range r.ret {
				if x != 0 {
					n++
				}
			}
			if n <= nret {
				return false
			}
			if cs.Kind == "delay" && waiting > 0 && len(r.runs) <= nruns {
				return false
			}
			return true
		}, waitLimit)
		if !ok {
			r.mu.Lock()
			if cs.Kind == "delay" && waiting > 0 && len(r.runs) <= nruns {
				r.violate("chain-delay-lost-call", "Delay: an instance returned but no waiting call began")
			} else {
				r.violate("chain-hang", cs.Kind+": wrapper did not return after its inner job finished")
			}
			r.broken = true
			r.mu.Unlock()
		}
	}
	settle := func() {
		r.mu.Lock()
		defer r.mu.Unlock()
		r.logf("settled")
		r.lg.mu.Lock()
		r.logf("logs skip=%d delay=%d panic=%d", r.lg.skip, r.lg.delay, r.lg.panics)
		r.lg.mu.Unlock()
	}
	for _, op := range cs.Ops {
		if r.broken {
			break
		}
		switch op.K {
		case "call":
			call()
		case "release":
			release(op)
		case "advance":
			r.mu.Lock()
			t := secModel(r.clk.Now()) + op.DT
			r.logf("advance t=%d", t)
			r.mu.Unlock()
			r.clk.Advance(secTime(t))
		}
		settle()
	}
	// wind down: let everything return normally
	for k := 0; k < 4*len(cs.Ops)+4 && !r.broken; k++ {
		r.mu.Lock()
		live := 0
		for _, run := range r.runs {
			if !run.done {
				live++
			}
		}
		r.mu.Unlock()
		if live == 0 {
			break
		}
		release(ChainOp{K: "release"})
		settle()
	}
	// final monitors
	r.mu.Lock()
	defer r.mu.Unlock()
	r.lg.mu.Lock()
	skipLogs, delayLogs, panicLogs := r.lg.skip, r.lg.delay, r.lg.panics
	r.lg.mu.Unlock()
	if !r.broken {
		notRun := 0
		for i := range r.ret {
			if r.ret[i] == 0 {
				r.violate("chain-delay-lost-call", fmt.Sprintf("%s: call %d never came back although every instance returned", cs.Kind, i))
			}
		}
		notRun = r.calls - len(r.runs)
		switch cs.Kind {
		case "skip":
			if skipLogs != notRun {
				r.violate("chain-skip-miscount", fmt.Sprintf("Skip: %d skip log lines, %d invocations returned without running", skipLogs, notRun))
			}
		case "delay":
			if notRun != 0 || skipLogs != 0 {
				r.violate("chain-delay-lost-call", fmt.Sprintf("Delay: %d of %d calls never ran (skip logs %d)", notRun, r.calls, skipLogs))
			}
		case "recover":
			if panicLogs != r.panics {
				r.violate("chain-recover-log-miscount", fmt.Sprintf("Recover: %d error log lines for %d panics", panicLogs, r.panics))
			}
			if notRun != 0 {
				r.violate("chain-delay-lost-call", "Recover: a call did not run its inner job")
			}
		}
		if cs.Kind == "delay" {
			// the waits are not attributable to calls (sync.Mutex is not FIFO); check the extremes
			_ = delayLogs
		}
	}
	r.logf("end")
	res.Hit("chain:kind:" + cs.Kind)
	res.Hit(fmt.Sprintf("chain:%s:inner-runs:%s", cs.Kind, bucket(len(r.runs))))
	if cs.Kind == "skip" {
		res.Hit("chain:skip:skipped:" + bucket(skipLogs))
		if r.lostTok {
			res.Hit("chain:skip:panic-took-token")
		}
	}
	if cs.Kind == "delay" {
		res.Hit("chain:delay:delay-logs:" + bucket(delayLogs))
	}
	if cs.Kind == "recover" {
		res.Hit("chain:recover:panics:" + bucket(r.panics))
	}
	return append([]string(nil), r.lines...)
}

func genChainCase(rg *lib.Rand) ChainCase {
	kind := []string{"skip", "delay", "recover"}[rg.Intn(3)]
	cs := ChainCase{Family: "chain", Kind: kind, T0: rg.Range(5, 25)}
	n := rg.Range(4, 18)
	for len(cs.Ops) < n {
		x := rg.Intn(100)
		switch {
		case x < 45:
			cs.Ops = append(cs.Ops, ChainOp{K: "call"})
		case x < 80:
			cs.Ops = append(cs.Ops, ChainOp{K: "release", Idx: rg.Intn(4), Panic: rg.Intn(4) == 0})
		default:
			cs.Ops = append(cs.Ops, ChainOp{K: "advance", DT: []int{1, 30, 59, 61, 100}[rg.Intn(5)]})
		}
	}
	return cs
}

// checkThenOrder: NewChain(m1..mk).Then(job) must be m1(m2(…mk(job))) — the first wrapper outermost.
func checkThenOrder(res *lib.Result, rg *lib.Rand) {
	for k := 0; k <= 5; k++ {
		var got []string
		var ws []cron.JobWrapper
		var want []string
		for i := 0; i < k; i++ {
			name := fmt.Sprintf("m%d", i+1)
			want = append(want, name)
			ws = append(ws, func(j cron.Job) cron.Job {
				return cron.FuncJob(func() { got = append(got, name); j.Run() })
			})
		}
		want = append(want, "job")
		cron.NewChain(ws...).Then(cron.FuncJob(func() { got = append(got, "job") })).Run()
		if strings.Join(got, " ") != strings.Join(want, " ") {
			res.Violate("chain-then-order", fmt.Sprintf("NewChain(%d wrappers).Then(job) ran %v, documented order %v", k, got, want),
				map[string]any{"family": "chain", "kind": "then", "wrappers": k})
		}
		res.Hit("chain:then-order-checked")
	}
	_ = rg
}

// runChainViaCron: the wrappers as the scheduler applies them (Schedule wraps with c.chain.Then,
// startJob runs e.WrappedJob): one entry firing every second with a job that blocks.
//
//	chain-via-cron-overlap     WithChain(Skip|Delay): two instances of the job ran at the same time
//	chain-via-cron-count       Skip: runs + skip logs != scheduler launches; Delay: a launch never ran
//	chain-via-cron-recover     WithChain(Recover): error logs != panics (a panic that escapes kills
//	                           the process: reported by bin/check as a broken harness run)
func runChainViaCron(res *lib.Result, rg *lib.Rand, first, n int) {
	waitParked := func(clk *VClock, prev *vtimer) *vtimer {
		for i := 0; i < 4000000; i++ {
			if t := clk.Last(); t != nil && t != prev && !t.Fired() {
				return t
			}
			time.Sleep(5 * time.Microsecond)
		}
		return clk.Last()
	}
	for it := 0; it < n; it++ {
		kind := []string{"skip", "delay", "recover"}[(first+it)%3]
		clk := NewVClock(toTime(10))
		lg := &chainLogger{}
		var w cron.JobWrapper
		switch kind {
		case "skip":
			w = cron.SkipIfStillRunning(lg)
		case "delay":
			w = cron.DelayIfStillRunningWithClock(lg, clk)
		default:
			w = cron.Recover(lg)
		}
		c := cron.New(cron.WithClock(clk), cron.WithLocation(time.UTC), cron.WithLogger(cron.DiscardLogger), cron.WithChain(w))
		var mu sync.Mutex
		running, maxConc, begins, panics := 0, 0, 0, 0
		gate := make(chan bool, 64)
		blockFirst := rg.Range(1, 3)
		c.Schedule(goSched{SchedDesc{K: "p", P: 1, O: 1}}, cron.FuncJob(func() {
			mu.Lock()
			running++
			begins++
			b := begins
			if running > maxConc {
				maxConc = running
			}
			mu.Unlock()
			p := false
			if kind == "recover" {
				p = b%2 == 0
			} else if b <= blockFirst {
				p = <-gate // blocks until released
			}
			mu.Lock()
			running--
			if p {
				panics++
			}
			mu.Unlock()
			if p {
				panic("job panics")
			}
		}))
		c.Start()
		tm := waitParked(clk, nil)
		launches := rg.Range(3, 6)
		for k := 0; k < launches; k++ {
			clk.Advance(toTime(11 + k))
			tm = waitParked(clk, tm)
		}
		time.Sleep(300 * time.Microsecond)
		mu.Lock()
		conc1, begins1 := maxConc, begins
		mu.Unlock()
		for k := 0; k < 8; k++ {
			gate <- false
		}
		ctx := c.Stop()
		select {
		case <-ctx.Done():
		case <-time.After(waitLimit):
			res.Violate("stop-ctx-never-done", "chain-via-cron: Stop context not done after every job was released", map[string]any{"family": "chain", "kind": "via-cron-" + kind})
		}
		mu.Lock()
		lg.mu.Lock()
		cs := map[string]any{"family": "chain", "kind": "via-cron-" + kind, "launches": launches, "blocking_runs": blockFirst}
		switch kind {
		case "skip":
			if conc1 > 1 {
				res.Violate("chain-via-cron-overlap", fmt.Sprintf("WithChain(SkipIfStillRunning): %d instances ran at once", conc1), cs)
			}
			if begins1 != 1 || begins+lg.skip != launches {
				res.Violate("chain-via-cron-count", fmt.Sprintf("WithChain(SkipIfStillRunning): %d launches, %d runs while blocked, %d runs + %d skips in total", launches, begins1, begins, lg.skip), cs)
			}
		case "delay":
			if maxConc > 1 {
				res.Violate("chain-via-cron-overlap", fmt.Sprintf("WithChain(DelayIfStillRunning): %d instances ran at once", maxConc), cs)
			}
			if begins != launches || lg.skip != 0 {
				res.Violate("chain-via-cron-count", fmt.Sprintf("WithChain(DelayIfStillRunning): %d launches, %d runs", launches, begins), cs)
			}
		default:
			if lg.panics != panics || begins != launches {
				res.Violate("chain-via-cron-recover", fmt.Sprintf("WithChain(Recover): %d launches, %d runs, %d panics, %d error logs", launches, begins, panics, lg.panics), cs)
			}
		}
		lg.mu.Unlock()
		mu.Unlock()
		res.Hit("chain:via-cron:" + kind)
		res.Count(fmt.Sprintf("chain-via-cron:%s:%d:%d", kind, launches, blockFirst), true)
	}
}

// viaCronChild is the body of the child process (a panic that escapes a wrapper kills it).
func viaCronChild(n int, seed uint64) {
	res := lib.NewResult("")
	rg := lib.NewRand(seed)
	seen := 0
	for i := 0; i < n; i++ {
		runChainViaCron(res, rg, i, 1)
		for _, v := range res.Violations[seen:] {
			b, _ := json.Marshal(v)
			fmt.Printf("VIOL %s\n", b)
		}
		seen = len(res.Violations)
	}
	fmt.Printf("DONE %d\n", n)
}

func runViaCronChild(res *lib.Result, n int, seed uint64) {
	cmd := exec.Command(os.Args[0])
	cmd.Env = append(os.Environ(), fmt.Sprintf("C05_VIACRON_CHILD=%d:%d", n, seed))
	var outb, errb bytes.Buffer
	cmd.Stdout, cmd.Stderr = &outb, &errb
	done := make(chan error, 1)
	if err := cmd.Start(); err != nil {
		res.Note("chain-via-cron child could not start: " + err.Error())
		return
	}
	go func() { done <- cmd.Wait() }()
	var err error
	select {
	case err = <-done:
	case <-time.After(180 * time.Second):
		cmd.Process.Kill()
		err = fmt.Errorf("timeout")
	}
	finished := false
	for _, l := range strings.Split(outb.String(), "\n") {
		if strings.HasPrefix(l, "VIOL ") {
			var v lib.Violation
			if json.Unmarshal([]byte(l[5:]), &v) == nil {
				res.Violate(v.FindingID, v.What, v.Case)
			}
		}
		if strings.HasPrefix(l, "DONE") {
			finished = true
		}
	}
	res.Hit(fmt.Sprintf("chain:via-cron-scenarios:%d", n))
	if err != nil || !finished {
		msg := errb.String()
		if len(msg) > 1200 {
			msg = msg[:1200]
		}
		res.Violate("chain-via-cron-panic-escaped", fmt.Sprintf("process running jobs under WithChain(Skip|Delay|Recover) died (%v): %s", err, msg),
			map[string]any{"family": "chain", "kind": "via-cron"})
	}
}

// runChainFamily runs n generated wrapper scenarios and checks their traces with `kitdrv C05 chain`.
func runChainFamily(res *lib.Result, rg *lib.Rand, n int, drvPath string) {
	checkThenOrder(res, rg)
	runViaCronChild(res, n/4, rg.U64())
	drv, err := lib.StartDrv(drvPath, "C05", "chain")
	if err != nil {
		drv = nil
	}
	defer drv.Close()
	type item struct {
		cs    ChainCase
		lines []string
	}
	var batch []item
	flush := func() {
		if drv == nil || len(batch) == 0 {
			batch = nil
			return
		}
		var all []string
		for _, it := range batch {
			all = append(all, it.lines...)
		}
		outs, err := drv.AskBatch(all)
		if err != nil {
			res.Disagree("chain-trace-inclusion(driver died)", batch[0].cs, err.Error(), "")
			batch = nil
			return
		}
		k := 0
		for _, it := range batch {
			ok := true
			for j, l := range it.lines {
				if o := outs[k+j]; !strings.HasPrefix(o, "ok") {
					if ok && strings.HasPrefix(o, "reject") {
						res.Disagree("chain-trace-inclusion: trace of the real wrapper must be accepted by Kit.CronChain.step",
							map[string]any{"case": it.cs, "trace": it.lines[:j+1]}, o, l)
					}
					ok = false
				}
			}
			if ok {
				res.Traces++
			}
			k += len(it.lines)
		}
		batch = nil
	}
	for i := 0; i < n; i++ {
		cs := genChainCase(rg.Fork())
		lines := runChainCase(cs, res)
		hasOverlap := false
		calls := 0
		for _, l := range lines {
			if l == "call" {
				calls++
			}
		}
		for j := 1; j < len(lines); j++ {
			if lines[j] == "call" {
				for _, p := range lines[:j] {
					if p == "begin" {
						hasOverlap = true
					}
				}
			}
		}
		res.Count("chain:"+strings.Join(lines, "\n"), calls >= 2 && hasOverlap)
		if i%211 == 0 {
			res.Sample(map[string]any{"case": cs, "trace": lines})
		}
		batch = append(batch, item{cs, lines})
		if len(batch) >= 200 {
			flush()
		}
	}
	flush()
}
