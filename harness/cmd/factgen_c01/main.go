// factgen_c01 re-extracts from /repo/schemes/enc/v1 the constants, tables and small code shapes
// the Lean model of enc/v1 (lean/KitModel/Enc.lean) is parameterised by, and writes them as
// lean/KitModel/Generated/C01.lean. Any shape it does not recognise makes it exit non-zero:
// bin/check then reports the T1 tie as broken instead of silently keeping old facts.
//
//	factgen_c01 --repo /repo --out <file.lean>
package main

import (
	"flag"
	"fmt"
	"go/ast"
	"go/parser"
	"go/token"
	"os"
	"path/filepath"
	"reflect"
	"sort"
	"strconv"
	"strings"
)

var fset = token.NewFileSet()

func die(format string, a ...any) {
	fmt.Fprintf(os.Stderr, "factgen_c01: "+format+"\n", a...)
	os.Exit(1)
}

type pkg struct {
	files  map[string]*ast.File
	consts map[string]ast.Expr
	funcs  map[string]*ast.FuncDecl // "Recv.Name" or "Name"
}

func load(dir string) *pkg {
	p := &pkg{files: map[string]*ast.File{}, consts: map[string]ast.Expr{}, funcs: map[string]*ast.FuncDecl{}}
	for _, name := range []string{"scheme.go", "filekey.go", "manifest.go", "ciphers.go", "algorithms.go"} {
		f, err := parser.ParseFile(fset, filepath.Join(dir, name), nil, parser.ParseComments)
		if err != nil {
			die("parse %s: %v", name, err)
		}
		p.files[name] = f
		ast.Inspect(f, func(n ast.Node) bool {
			if gd, ok := n.(*ast.GenDecl); ok && gd.Tok == token.CONST {
				for _, s := range gd.Specs {
					vs := s.(*ast.ValueSpec)
					for i, id := range vs.Names {
						if i < len(vs.Values) {
							p.consts[id.Name] = vs.Values[i]
						}
					}
				}
			}
			return true
		})
		for _, d := range f.Decls {
			if fd, ok := d.(*ast.FuncDecl); ok {
				key := fd.Name.Name
				if fd.Recv != nil && len(fd.Recv.List) == 1 {
					t := fd.Recv.List[0].Type
					if st, ok := t.(*ast.StarExpr); ok {
						t = st.X
					}
					if id, ok := t.(*ast.Ident); ok {
						key = id.Name + "." + key
					}
				}
				p.funcs[key] = fd
			}
		}
	}
	return p
}

func (p *pkg) fn(name string) *ast.FuncDecl {
	f := p.funcs[name]
	if f == nil || f.Body == nil {
		die("function %s not found", name)
	}
	return f
}

// evalInt evaluates a constant integer expression.
func (p *pkg) evalInt(e ast.Expr) int64 {
	switch x := e.(type) {
	case *ast.BasicLit:
		switch x.Kind {
		case token.INT:
			v, err := strconv.ParseInt(x.Value, 0, 64)
			if err != nil {
				die("int literal %s", x.Value)
			}
			return v
		case token.CHAR:
			r, _, _, err := strconv.UnquoteChar(x.Value[1:len(x.Value)-1], '\'')
			if err != nil {
				die("char literal %s", x.Value)
			}
			return int64(r)
		}
	case *ast.ParenExpr:
		return p.evalInt(x.X)
	case *ast.Ident:
		if c, ok := p.consts[x.Name]; ok {
			return p.evalInt(c)
		}
	case *ast.BinaryExpr:
		a, b := p.evalInt(x.X), p.evalInt(x.Y)
		switch x.Op {
		case token.ADD:
			return a + b
		case token.SUB:
			return a - b
		case token.MUL:
			return a * b
		case token.SHL:
			return a << uint(b)
		}
	}
	die("unknown constant integer expression %s at %s", show(e), fset.Position(e.Pos()))
	return 0
}

func (p *pkg) evalStr(e ast.Expr) string {
	switch x := e.(type) {
	case *ast.BasicLit:
		if x.Kind == token.STRING {
			s, err := strconv.Unquote(x.Value)
			if err != nil {
				die("string literal %s", x.Value)
			}
			return s
		}
	case *ast.Ident:
		if c, ok := p.consts[x.Name]; ok {
			return p.evalStr(c)
		}
	case *ast.CallExpr: // []byte("...") or Type("...")
		if len(x.Args) == 1 {
			return p.evalStr(x.Args[0])
		}
	}
	die("unknown constant string expression %s at %s", show(e), fset.Position(e.Pos()))
	return ""
}

func show(e ast.Node) string {
	switch x := e.(type) {
	case *ast.Ident:
		return x.Name
	case *ast.SelectorExpr:
		return show(x.X) + "." + x.Sel.Name
	case *ast.BasicLit:
		return x.Value
	case *ast.CallExpr:
		var as []string
		for _, a := range x.Args {
			as = append(as, show(a))
		}
		return show(x.Fun) + "(" + strings.Join(as, ",") + ")"
	case *ast.ParenExpr:
		return "(" + show(x.X) + ")"
	case *ast.BinaryExpr:
		return show(x.X) + x.Op.String() + show(x.Y)
	case *ast.StarExpr:
		return "*" + show(x.X)
	case *ast.IndexExpr:
		return show(x.X) + "[" + show(x.Index) + "]"
	case *ast.SliceExpr:
		lo, hi := "", ""
		if x.Low != nil {
			lo = show(x.Low)
		}
		if x.High != nil {
			hi = show(x.High)
		}
		return show(x.X) + "[" + lo + ":" + hi + "]"
	case *ast.ArrayType:
		return "[]" + show(x.Elt)
	case *ast.CompositeLit:
		return "{…}"
	case *ast.UnaryExpr:
		return x.Op.String() + show(x.X)
	}
	return reflect.TypeOf(e).String()
}

func calls(n ast.Node, f func(*ast.CallExpr)) {
	ast.Inspect(n, func(x ast.Node) bool {
		if c, ok := x.(*ast.CallExpr); ok {
			f(c)
		}
		return true
	})
}

func leanStr(s string) string { return strconv.Quote(s) }

func leanBytes(s string) string {
	var parts []string
	for _, b := range []byte(s) {
		parts = append(parts, strconv.Itoa(int(b)))
	}
	return "[" + strings.Join(parts, ", ") + "]"
}

// switchTable translates `switch x { case A, B: return R … }` of fn into (case value, result) pairs.
// keyOf renders a case expression, resOf the first result of the return statement.
func (p *pkg) switchTable(fn *ast.FuncDecl, keyOf func(ast.Expr) string, resOf func(caseExpr, res ast.Expr) string) [][2]string {
	var sw *ast.SwitchStmt
	for _, st := range fn.Body.List {
		if s, ok := st.(*ast.SwitchStmt); ok {
			if sw != nil {
				die("%s: more than one switch", fn.Name.Name)
			}
			sw = s
		}
	}
	if sw == nil {
		die("%s: no switch statement", fn.Name.Name)
	}
	var out [][2]string
	sawDefault := false
	for _, c := range sw.Body.List {
		cc := c.(*ast.CaseClause)
		if cc.List == nil {
			sawDefault = true
			continue
		}
		if len(cc.Body) != 1 {
			die("%s: case body is not a single return at %s", fn.Name.Name, fset.Position(cc.Pos()))
		}
		ret, ok := cc.Body[0].(*ast.ReturnStmt)
		if !ok || len(ret.Results) < 1 {
			die("%s: case body is not a return at %s", fn.Name.Name, fset.Position(cc.Pos()))
		}
		for _, e := range cc.List {
			out = append(out, [2]string{keyOf(e), resOf(e, ret.Results[0])})
		}
	}
	if !sawDefault {
		die("%s: switch without default", fn.Name.Name)
	}
	return out
}

func main() {
	repo := flag.String("repo", "/repo", "")
	out := flag.String("out", "", "")
	flag.Parse()
	p := load(filepath.Join(*repo, "schemes/enc/v1"))

	var b strings.Builder
	w := func(format string, a ...any) { fmt.Fprintf(&b, format+"\n", a...) }
	w("/- GENERATED by harness/cmd/factgen_c01 from /repo/schemes/enc/v1 — do not edit.")
	w("   Regenerated by `bin/check C01` / `bin/check C02` on every run (write-if-changed). -/")
	w("namespace Kit.Enc.Gen")
	w("")

	// ---- constants ----
	scheme := p.evalStr(p.consts["SchemeName"])
	w("/-- scheme.go: const SchemeName -/")
	w("def schemeName : String := %s", leanStr(scheme))
	w("/-- the same as UTF-8 bytes -/")
	w("def schemeBytes : List UInt8 := %s", leanBytes(scheme))
	for _, c := range [][2]string{{"SegmentSize", "segmentSize"}, {"SegmentOverhead", "segmentOverhead"}, {"NoncePrefixLength", "noncePrefixLength"}} {
		if p.consts[c[0]] == nil {
			die("const %s not found", c[0])
		}
		w("/-- scheme.go: const %s -/", c[0])
		w("def %s : Nat := %d", c[1], p.evalInt(p.consts[c[0]]))
	}
	if p.consts["bufSize"] == nil {
		die("const bufSize (BufPool.New) not found")
	}
	w("/-- scheme.go: BufPool.New: const bufSize -/")
	w("def bufSize : Nat := %d", p.evalInt(p.consts["bufSize"]))

	// processSegments call sites
	segArg := func(fn, method string) int64 {
		var found []int64
		calls(p.fn(fn), func(c *ast.CallExpr) {
			if id, ok := c.Fun.(*ast.Ident); ok && id.Name == "processSegments" && len(c.Args) == 4 {
				if sel, ok := c.Args[2].(*ast.SelectorExpr); ok && sel.Sel.Name == method {
					found = append(found, p.evalInt(c.Args[3]))
				}
			}
		})
		if len(found) != 1 {
			die("%s: expected exactly one processSegments(…, fk.%s, size) call, found %d", fn, method, len(found))
		}
		return found[0]
	}
	w("/-- scheme.go: Encrypt: processSegments(…, fk.EncryptSegment, <segmentSize>) -/")
	w("def encryptSegmentArg : Nat := %d", segArg("Encrypt", "EncryptSegment"))
	w("/-- scheme.go: Decrypt: processSegments(…, fk.DecryptSegment, <segmentSize>) -/")
	w("def decryptSegmentArg : Nat := %d", segArg("Decrypt", "DecryptSegment"))

	// counter guard
	var maxSeg []int64
	ast.Inspect(p.fn("processSegments"), func(n ast.Node) bool {
		if be, ok := n.(*ast.BinaryExpr); ok && be.Op == token.EQL {
			if id, ok := be.X.(*ast.Ident); ok && id.Name == "segment" {
				maxSeg = append(maxSeg, p.evalInt(be.Y))
			}
		}
		return true
	})
	if len(maxSeg) != 1 {
		die("processSegments: expected one `segment == <max>` guard, found %d", len(maxSeg))
	}
	w("/-- scheme.go: processSegments: `!done && segment == <max>` -/")
	w("def maxSegment : Nat := %d", maxSeg[0])

	// readHeader read limit
	var limits []int64
	calls(p.fn("readHeader"), func(c *ast.CallExpr) {
		if sel, ok := c.Fun.(*ast.SelectorExpr); ok && sel.Sel.Name == "Read" && len(c.Args) == 1 {
			if sl, ok := c.Args[0].(*ast.SliceExpr); ok && sl.High != nil {
				limits = append(limits, p.evalInt(sl.High))
			}
		}
	})
	if len(limits) != 1 {
		die("readHeader: expected one Read(buf[n:<limit>]) call, found %d", len(limits))
	}
	// and the loop gives up when n reaches the same limit: `if ul > <limit> { ul = <limit> }` + `if n == ul { break }`
	okBreak := false
	ast.Inspect(p.fn("readHeader"), func(n ast.Node) bool {
		if is, ok := n.(*ast.IfStmt); ok {
			if be, ok := is.Cond.(*ast.BinaryExpr); ok && be.Op == token.EQL && show(be.X) == "n" && show(be.Y) == "ul" {
				if len(is.Body.List) == 1 {
					if br, ok := is.Body.List[0].(*ast.BranchStmt); ok && br.Tok == token.BREAK {
						okBreak = true
					}
				}
			}
		}
		return true
	})
	if !okBreak {
		die("readHeader: `if n == ul { break }` not found")
	}
	w("/-- scheme.go: readHeader: reads into (*buf)[n:<limit>], gives up when n == <limit> -/")
	w("def headerLimit : Nat := %d", limits[0])

	// file key length check in Decrypt
	var fkLen []int64
	ast.Inspect(p.fn("Decrypt"), func(n ast.Node) bool {
		if be, ok := n.(*ast.BinaryExpr); ok && be.Op == token.NEQ && show(be.X) == "len(fileKeyBytes)" {
			fkLen = append(fkLen, p.evalInt(be.Y))
		}
		return true
	})
	var fkMake []int64
	ast.Inspect(p.fn("Decrypt"), func(n ast.Node) bool {
		if as, ok := n.(*ast.AssignStmt); ok && len(as.Lhs) == 1 && show(as.Lhs[0]) == "fileKeyBytes" && as.Tok == token.ASSIGN {
			if c, ok := as.Rhs[0].(*ast.CallExpr); ok && show(c.Fun) == "make" && len(c.Args) == 2 {
				fkMake = append(fkMake, p.evalInt(c.Args[1]))
			}
		}
		return true
	})
	if len(fkLen) != 1 || len(fkMake) != 1 || fkLen[0] != fkMake[0] {
		die("Decrypt: `len(fileKeyBytes) != n` / make([]byte, n) shape not recognised (%v, %v)", fkLen, fkMake)
	}
	w("/-- scheme.go: Decrypt: `len(fileKeyBytes) != <n>` → make([]byte, <n>) -/")
	w("def fileKeyLength : Nat := %d", fkLen[0])

	// newFileKey split
	var split [2]int64
	capLimited := false
	nSplit := 0
	var rndLen int64 = -1
	ast.Inspect(p.fn("newFileKey"), func(n ast.Node) bool {
		if as, ok := n.(*ast.AssignStmt); ok && len(as.Lhs) == 1 && show(as.Lhs[0]) == "rnd" {
			if c, ok := as.Rhs[0].(*ast.CallExpr); ok && show(c.Fun) == "make" && len(c.Args) == 2 {
				rndLen = p.evalInt(c.Args[1])
			}
		}
		if c, ok := n.(*ast.CallExpr); ok && show(c.Fun) == "importFileKey" && len(c.Args) == 3 {
			s1, ok1 := c.Args[0].(*ast.SliceExpr)
			s2, ok2 := c.Args[1].(*ast.SliceExpr)
			if !ok1 || !ok2 || show(s1.X) != "rnd" || show(s2.X) != "rnd" || p.evalInt(s1.Low) != 0 || p.evalInt(s1.High) != p.evalInt(s2.Low) {
				die("newFileKey: importFileKey(rnd[0:a], rnd[a:b], …) shape not recognised")
			}
			split = [2]int64{p.evalInt(s1.High), p.evalInt(s2.High)}
			capLimited = s1.Slice3 && s2.Slice3 && s1.Max != nil && s2.Max != nil &&
				p.evalInt(s1.Max) == p.evalInt(s1.High) && p.evalInt(s2.Max) == p.evalInt(s2.High)
			nSplit++
		}
		return true
	})
	if nSplit != 1 || rndLen != split[1] {
		die("newFileKey: shape not recognised (make %d, split %v)", rndLen, split)
	}
	w("/-- filekey.go: newFileKey: rnd[0:<a>], rnd[<a>:<b>] of make([]byte, <b>) -/")
	w("def randomSplit : Nat × Nat := (%d, %d)", split[0], split[1])
	w("/-- filekey.go: newFileKey: both slices are full slice expressions rnd[a:b:b] (no spare capacity: an append by the caller's WrapKeyFn cannot reach the neighbouring bytes) -/")
	w("def fileKeySlicesCapLimited : Bool := %v", capLimited)
	w("")

	// ---- nonce layout ----
	nf := p.fn("fileKey.nonceForSegment")
	var nonceLen int64 = -1
	type part struct {
		lo, hi int64
		lean   string
	}
	var parts []part
	for _, st := range nf.Body.List {
		switch s := st.(type) {
		case *ast.AssignStmt:
			if show(s.Lhs[0]) == "nonce" {
				c, ok := s.Rhs[0].(*ast.CallExpr)
				if !ok || show(c.Fun) != "make" || len(c.Args) != 2 {
					die("nonceForSegment: nonce := make([]byte, n) expected")
				}
				nonceLen = p.evalInt(c.Args[1])
			} else {
				die("nonceForSegment: unknown assignment %s", show(s.Lhs[0]))
			}
		case *ast.ExprStmt:
			c, ok := s.X.(*ast.CallExpr)
			if !ok {
				die("nonceForSegment: unknown statement")
			}
			switch show(c.Fun) {
			case "copy":
				sl, ok := c.Args[0].(*ast.SliceExpr)
				if !ok || show(sl.X) != "nonce" || show(c.Args[1]) != "k.noncePrefix" {
					die("nonceForSegment: copy(nonce[a:b], k.noncePrefix) expected, got %s", show(c))
				}
				lo, hi := p.evalInt(sl.Low), p.evalInt(sl.High)
				parts = append(parts, part{lo, hi, fmt.Sprintf(".noncePrefix %d", hi-lo)})
			case "binary.BigEndian.PutUint32":
				sl, ok := c.Args[0].(*ast.SliceExpr)
				if !ok || show(sl.X) != "nonce" || show(c.Args[1]) != "num" {
					die("nonceForSegment: PutUint32(nonce[a:b], num) expected, got %s", show(c))
				}
				lo, hi := p.evalInt(sl.Low), p.evalInt(sl.High)
				if hi-lo != 4 {
					die("nonceForSegment: counter slice of %d bytes", hi-lo)
				}
				parts = append(parts, part{lo, hi, ".counterBE32"})
			default:
				die("nonceForSegment: unknown call %s", show(c))
			}
		case *ast.IfStmt:
			if show(s.Cond) != "last" || s.Else == nil {
				die("nonceForSegment: if last {…} else {…} expected")
			}
			val := func(bl *ast.BlockStmt) (int64, int64) {
				if len(bl.List) != 1 {
					die("nonceForSegment: branch is not a single assignment")
				}
				as, ok := bl.List[0].(*ast.AssignStmt)
				if !ok {
					die("nonceForSegment: branch is not an assignment")
				}
				ix, ok := as.Lhs[0].(*ast.IndexExpr)
				if !ok || show(ix.X) != "nonce" {
					die("nonceForSegment: nonce[i] = v expected")
				}
				return p.evalInt(ix.Index), p.evalInt(as.Rhs[0])
			}
			i1, v1 := val(s.Body)
			i2, v2 := val(s.Else.(*ast.BlockStmt))
			if i1 != i2 {
				die("nonceForSegment: branches write different indices")
			}
			parts = append(parts, part{i1, i1 + 1, fmt.Sprintf(".lastFlag %d %d", v1, v2)})
		case *ast.ReturnStmt:
			if len(s.Results) != 1 || show(s.Results[0]) != "nonce" {
				die("nonceForSegment: return nonce expected")
			}
		default:
			die("nonceForSegment: unknown statement at %s", fset.Position(st.Pos()))
		}
	}
	pos := int64(0)
	var layout []string
	for _, pt := range parts {
		if pt.lo != pos {
			die("nonceForSegment: parts are not contiguous (at %d, expected %d)", pt.lo, pos)
		}
		pos = pt.hi
		layout = append(layout, pt.lean)
	}
	if pos != nonceLen {
		die("nonceForSegment: parts cover %d of %d bytes", pos, nonceLen)
	}
	w("/-- filekey.go: nonceForSegment -/")
	w("inductive NoncePart where")
	w("  | noncePrefix (len : Nat)")
	w("  | counterBE32")
	w("  | lastFlag (ifLast ifNotLast : Nat)")
	w("  deriving Repr, DecidableEq")
	w("/-- filekey.go: nonceForSegment: make([]byte, <nonceLength>); parts fill it contiguously from 0 -/")
	w("def nonceLength : Nat := %d", nonceLen)
	w("def nonceLayout : List NoncePart := [%s]", strings.Join(layout, ", "))
	w("")

	// ---- key derivation ----
	dk := p.fn("fileKey.deriveKey")
	var params []string
	for _, f := range dk.Type.Params.List {
		for _, n := range f.Names {
			params = append(params, n.Name)
		}
	}
	if strings.Join(params, ",") != "size,info,salt" {
		die("deriveKey: parameters %v", params)
	}
	hkdfHash := ""
	calls(dk, func(c *ast.CallExpr) {
		if show(c.Fun) == "hkdf.New" {
			if len(c.Args) != 4 || show(c.Args[1]) != "k.fileKey" || show(c.Args[2]) != "salt" || show(c.Args[3]) != "info" {
				die("deriveKey: hkdf.New(hash, k.fileKey, salt, info) expected, got %s", show(c))
			}
			hkdfHash = strings.TrimSuffix(show(c.Args[0]), ".New")
		}
	})
	if hkdfHash == "" {
		die("deriveKey: hkdf.New not found")
	}
	deriv := map[string]string{}
	ast.Inspect(p.fn("importFileKey"), func(n ast.Node) bool {
		if as, ok := n.(*ast.AssignStmt); ok && len(as.Rhs) == 1 {
			if c, ok := as.Rhs[0].(*ast.CallExpr); ok && show(c.Fun) == "fk.deriveKey" && len(c.Args) == 3 {
				salt := ""
				switch show(c.Args[2]) {
				case "nil":
					salt = "false"
				case "fk.noncePrefix":
					salt = "true"
				default:
					die("importFileKey: unknown salt %s", show(c.Args[2]))
				}
				deriv[show(as.Lhs[0])] = fmt.Sprintf("(%d, %s, %s)", p.evalInt(c.Args[0]), leanStr(p.evalStr(c.Args[1])), salt)
				deriv[show(as.Lhs[0])+"#info"] = p.evalStr(c.Args[1])
			}
		}
		return true
	})
	if deriv["fk.headerKey"] == "" || deriv["fk.payloadKey"] == "" {
		die("importFileKey: deriveKey calls for headerKey/payloadKey not found")
	}
	w("/-- filekey.go: importFileKey: fk.deriveKey(<size>, []byte(<info>), <salt>); salt: false = nil, true = fk.noncePrefix -/")
	w("def headerKeyDerivation : Nat × String × Bool := %s", deriv["fk.headerKey"])
	w("def payloadKeyDerivation : Nat × String × Bool := %s", deriv["fk.payloadKey"])
	w("def headerInfoBytes : List UInt8 := %s", leanBytes(deriv["fk.headerKey#info"]))
	w("def payloadInfoBytes : List UInt8 := %s", leanBytes(deriv["fk.payloadKey#info"]))
	hmacHash := ""
	calls(p.fn("fileKey.computeHeaderSignature"), func(c *ast.CallExpr) {
		if show(c.Fun) == "hmac.New" {
			if len(c.Args) != 2 || show(c.Args[1]) != "k.headerKey" {
				die("computeHeaderSignature: hmac.New(hash, k.headerKey) expected")
			}
			hmacHash = strings.TrimSuffix(show(c.Args[0]), ".New")
		}
	})
	if hmacHash == "" {
		die("computeHeaderSignature: hmac.New not found")
	}
	w("/-- filekey.go: deriveKey: hkdf.New(<hash>.New, k.fileKey, salt, info); computeHeaderSignature: hmac.New(<hash>.New, k.headerKey) -/")
	w("def hkdfHash : String := %s", leanStr(hkdfHash))
	w("def hmacHash : String := %s", leanStr(hmacHash))

	// headerMessage / SignHeader
	var hmParts []string
	var join int64 = -1
	calls(p.fn("fileKey.headerMessage"), func(c *ast.CallExpr) {
		if show(c.Fun) == "bytes.Join" && len(c.Args) == 2 {
			cl, ok := c.Args[0].(*ast.CompositeLit)
			if !ok {
				die("headerMessage: bytes.Join(composite, sep) expected")
			}
			for _, e := range cl.Elts {
				switch x := e.(type) {
				case *ast.CallExpr:
					hmParts = append(hmParts, show(x.Args[0]))
				case *ast.Ident:
					hmParts = append(hmParts, x.Name)
				case *ast.CompositeLit:
					if len(x.Elts) != 0 {
						die("headerMessage: non-empty literal part")
					}
					hmParts = append(hmParts, "")
				default:
					die("headerMessage: unknown part")
				}
			}
			sep, ok := c.Args[1].(*ast.CompositeLit)
			if !ok || len(sep.Elts) != 1 {
				die("headerMessage: separator")
			}
			join = p.evalInt(sep.Elts[0])
		}
	})
	if join < 0 {
		die("headerMessage: bytes.Join not found")
	}
	macEnc := ""
	var term int64 = -1
	sh := p.fn("fileKey.SignHeader")
	calls(sh, func(c *ast.CallExpr) {
		if sel, ok := c.Fun.(*ast.SelectorExpr); ok && sel.Sel.Name == "Encode" {
			macEnc = show(sel.X)
		}
	})
	ast.Inspect(sh, func(n ast.Node) bool {
		if as, ok := n.(*ast.AssignStmt); ok && len(as.Lhs) == 1 && show(as.Lhs[0]) == "res[len(res)-1]" {
			term = p.evalInt(as.Rhs[0])
		}
		return true
	})
	if macEnc == "" || term < 0 {
		die("SignHeader: shape not recognised")
	}
	var q []string
	for _, s := range hmParts {
		q = append(q, leanStr(s))
	}
	w("/-- filekey.go: headerMessage: bytes.Join([SchemeName, manifest, {}], \"\\n\"); SignHeader: msg ‖ base64.StdEncoding(mac) ‖ '\\n' -/")
	w("def headerMessageParts : List String := [%s]", strings.Join(q, ", "))
	w("def headerJoin : Nat := %d", join)
	w("def macEncoding : String := %s", leanStr(macEnc))
	w("def headerTerminator : Nat := %d", term)
	w("")

	// ---- tables ----
	pairsStr := func(t [][2]string, second func(string) string) string {
		var xs []string
		for _, kv := range t {
			xs = append(xs, fmt.Sprintf("(%s, %s)", kv[0], second(kv[1])))
		}
		return "[" + strings.Join(xs, ", ") + "]"
	}
	id := func(s string) string { return s }
	strKey := func(e ast.Expr) string { return leanStr(p.evalStr(e)) }
	intKey := func(e ast.Expr) string { return strconv.FormatInt(p.evalInt(e), 10) }
	recvOrConst := func(recv string) func(c, r ast.Expr) string {
		return func(c, r ast.Expr) string {
			if idn, ok := r.(*ast.Ident); ok && idn.Name == recv {
				return leanStr(p.evalStr(c))
			}
			return leanStr(p.evalStr(r))
		}
	}
	intRes := func(c, r ast.Expr) string { return strconv.FormatInt(p.evalInt(r), 10) }
	strRes := func(c, r ast.Expr) string { return leanStr(p.evalStr(r)) }

	w("/-- algorithms.go: KeyAlgorithm.Validate (name ↦ canonical name) -/")
	w("def keyAlgorithmValidate : List (String × String) :=\n  %s", pairsStr(p.switchTable(p.fn("KeyAlgorithm.Validate"), strKey, recvOrConst("a")), id))
	w("/-- algorithms.go: KeyAlgorithm.ID (name ↦ id; anything else ↦ 0) -/")
	w("def keyAlgorithmID : List (String × Nat) :=\n  %s", pairsStr(p.switchTable(p.fn("KeyAlgorithm.ID"), strKey, intRes), id))
	w("/-- algorithms.go: NewKeyAlgorithmFromID -/")
	w("def keyAlgorithmFromID : List (Nat × String) :=\n  %s", pairsStr(p.switchTable(p.fn("NewKeyAlgorithmFromID"), intKey, strRes), id))
	w("def keyAlgorithmInvalidID : Nat := %d", p.evalInt(p.consts["keyAlgorithmInvalid"]))
	w("")
	w("/-- ciphers.go: Cipher.Validate -/")
	w("def cipherValidate : List (String × String) :=\n  %s", pairsStr(p.switchTable(p.fn("Cipher.Validate"), strKey, recvOrConst("c")), id))
	w("/-- ciphers.go: Cipher.ID -/")
	w("def cipherID : List (String × Nat) :=\n  %s", pairsStr(p.switchTable(p.fn("Cipher.ID"), strKey, intRes), id))
	w("/-- ciphers.go: NewCipherFromID -/")
	w("def cipherFromID : List (Nat × String) :=\n  %s", pairsStr(p.switchTable(p.fn("NewCipherFromID"), intKey, strRes), id))
	w("def cipherInvalidID : Nat := %d", p.evalInt(p.consts["cipherInvalid"]))

	// getCipher
	gc := p.fn("fileKey.getCipher")
	var gsw *ast.SwitchStmt
	for _, st := range gc.Body.List {
		if s, ok := st.(*ast.SwitchStmt); ok {
			gsw = s
		}
	}
	if gsw == nil || show(gsw.Tag) != "k.cipher" {
		die("getCipher: switch k.cipher not found")
	}
	var ctors []string
	for _, c := range gsw.Body.List {
		cc := c.(*ast.CaseClause)
		if cc.List == nil {
			continue
		}
		var names []string
		for _, st := range cc.Body {
			calls(st, func(ce *ast.CallExpr) {
				if _, ok := ce.Fun.(*ast.SelectorExpr); ok {
					names = append(names, show(ce.Fun))
				}
			})
		}
		ctor := ""
		switch strings.Join(names, "+") {
		case "aes.NewCipher+cipher.NewGCM":
			ctor = "cipher.NewGCM(aes.NewCipher)"
		case "chacha20poly1305.New":
			ctor = "chacha20poly1305.New"
		default:
			die("getCipher: unknown constructor sequence %v", names)
		}
		for _, e := range cc.List {
			ctors = append(ctors, fmt.Sprintf("(%s, %s)", leanStr(p.evalStr(e)), leanStr(ctor)))
		}
	}
	w("/-- filekey.go: getCipher switch (cipher name ↦ constructor) -/")
	w("def cipherConstructors : List (String × String) :=\n  [%s]", strings.Join(ctors, ", "))
	defCipher := ""
	ast.Inspect(p.fn("Encrypt"), func(n ast.Node) bool {
		if as, ok := n.(*ast.AssignStmt); ok && as.Tok == token.DEFINE && len(as.Lhs) == 1 && show(as.Lhs[0]) == "cipher" {
			defCipher = p.evalStr(as.Rhs[0])
		}
		return true
	})
	if defCipher == "" {
		die("Encrypt: default cipher assignment not found")
	}
	w("/-- scheme.go: Encrypt: default cipher when opts.Cipher == nil -/")
	w("def defaultCipher : String := %s", leanStr(defCipher))
	w("")

	// ---- manifest struct ----
	var fields []string
	ast.Inspect(p.files["manifest.go"], func(n ast.Node) bool {
		ts, ok := n.(*ast.TypeSpec)
		if !ok || ts.Name.Name != "Manifest" {
			return true
		}
		st, ok := ts.Type.(*ast.StructType)
		if !ok {
			die("Manifest is not a struct")
		}
		for _, f := range st.Fields.List {
			if len(f.Names) != 1 || f.Tag == nil {
				die("Manifest: field without name or tag")
			}
			tag, _ := strconv.Unquote(f.Tag.Value)
			js := reflect.StructTag(tag).Get("json")
			if js == "" {
				die("Manifest.%s: no json tag", f.Names[0].Name)
			}
			ps := strings.Split(js, ",")
			omit := "false"
			for _, o := range ps[1:] {
				if o == "omitempty" {
					omit = "true"
				} else {
					die("Manifest.%s: unknown json option %s", f.Names[0].Name, o)
				}
			}
			fields = append(fields, fmt.Sprintf("(%s, %s, %s, %s)", leanStr(f.Names[0].Name), leanStr(ps[0]), omit, leanStr(show(f.Type))))
		}
		return false
	})
	if len(fields) == 0 {
		die("struct Manifest not found")
	}
	w("/-- manifest.go: struct Manifest (Go field, JSON name, omitempty, Go type), in declaration order -/")
	w("def manifestFields : List (String × String × Bool × String) :=\n  [%s]", strings.Join(fields, ", "))
	marshal := func(fn string) string {
		f := p.fn(fn)
		if len(f.Body.List) != 1 {
			die("%s: body is not a single return", fn)
		}
		ret, ok := f.Body.List[0].(*ast.ReturnStmt)
		if !ok || len(ret.Results) != 2 || show(ret.Results[1]) != "nil" {
			die("%s: return …, nil expected", fn)
		}
		conv, ok := ret.Results[0].(*ast.CallExpr)
		if !ok || show(conv.Fun) != "[]byte" || len(conv.Args) != 1 {
			die("%s: []byte(…) expected", fn)
		}
		return show(conv.Args[0])
	}
	w("/-- algorithms.go / ciphers.go: MarshalJSON bodies -/")
	w("def keyAlgorithmMarshal : String := %s", leanStr(marshal("KeyAlgorithm.MarshalJSON")))
	w("def cipherMarshal : String := %s", leanStr(marshal("Cipher.MarshalJSON")))
	w("")

	// ---- key-name rules ----
	enc := p.fn("Encrypt")
	var encRule []string
	for i, st := range enc.Body.List {
		as, ok := st.(*ast.AssignStmt)
		if !ok || as.Tok != token.DEFINE || show(as.Lhs[0]) != "keyName" {
			continue
		}
		if show(as.Rhs[0]) != "opts.DecryptionKeyName" || i+1 >= len(enc.Body.List) {
			die("Encrypt: keyName := opts.DecryptionKeyName expected")
		}
		is, ok := enc.Body.List[i+1].(*ast.IfStmt)
		if !ok || show(is.Cond) != "opts.OmitKeyName" || len(is.Body.List) != 1 {
			die("Encrypt: if opts.OmitKeyName {…} expected after keyName :=")
		}
		a1, ok := is.Body.List[0].(*ast.AssignStmt)
		if !ok || show(a1.Lhs[0]) != "keyName" || show(a1.Rhs[0]) != `""` {
			die("Encrypt: OmitKeyName branch")
		}
		e2, ok := is.Else.(*ast.IfStmt)
		if !ok || show(e2.Cond) != `keyName==""` || len(e2.Body.List) != 1 || e2.Else != nil {
			die("Encrypt: else if keyName == \"\" {…} expected")
		}
		a2, ok := e2.Body.List[0].(*ast.AssignStmt)
		if !ok || show(a2.Lhs[0]) != "keyName" || show(a2.Rhs[0]) != "opts.KeyName" {
			die("Encrypt: keyName = opts.KeyName expected")
		}
		encRule = []string{"DecryptionKeyName", "OmitKeyName→empty", "empty→KeyName"}
	}
	if encRule == nil {
		die("Encrypt: key-name rule not found")
	}
	dec := p.fn("Decrypt")
	var decRule []string
	for i, st := range dec.Body.List {
		as, ok := st.(*ast.AssignStmt)
		if !ok || as.Tok != token.DEFINE || show(as.Lhs[0]) != "keyName" {
			continue
		}
		if show(as.Rhs[0]) != "opts.KeyName" || i+1 >= len(dec.Body.List) {
			die("Decrypt: keyName := opts.KeyName expected")
		}
		is, ok := dec.Body.List[i+1].(*ast.IfStmt)
		if !ok || show(is.Cond) != `keyName==""` || len(is.Body.List) != 2 || is.Else != nil {
			die("Decrypt: if keyName == \"\" {…} expected")
		}
		a1, ok := is.Body.List[0].(*ast.AssignStmt)
		if !ok || show(a1.Rhs[0]) != "manifestObj.KeyName" {
			die("Decrypt: keyName = manifestObj.KeyName expected")
		}
		i2, ok := is.Body.List[1].(*ast.IfStmt)
		if !ok || show(i2.Cond) != `keyName==""` || len(i2.Body.List) != 1 {
			die("Decrypt: inner if keyName == \"\" expected")
		}
		ret, ok := i2.Body.List[0].(*ast.ReturnStmt)
		if !ok || len(ret.Results) != 2 || show(ret.Results[1]) != "ErrDecryptionKeyMissing" {
			die("Decrypt: return nil, ErrDecryptionKeyMissing expected")
		}
		decRule = []string{"opts.KeyName", "empty→manifest.KeyName", "empty→ErrDecryptionKeyMissing"}
	}
	if decRule == nil {
		die("Decrypt: key-name rule not found")
	}
	ql := func(xs []string) string {
		var o []string
		for _, x := range xs {
			o = append(o, leanStr(x))
		}
		return "[" + strings.Join(o, ", ") + "]"
	}
	w("/-- scheme.go: Encrypt: key-name decision (keyName := opts.DecryptionKeyName; if opts.OmitKeyName {\"\"} else if keyName == \"\" {opts.KeyName}) -/")
	w("def encryptKeyNameRule : List String := %s", ql(encRule))
	w("/-- scheme.go: Decrypt: keyName := opts.KeyName; if \"\" {manifest.KeyName; if \"\" → ErrDecryptionKeyMissing} -/")
	w("def decryptKeyNameRule : List String := %s", ql(decRule))

	// order of steps in Decrypt
	interesting := map[string]string{"readHeader": "readHeader", "json.Unmarshal": "json.Unmarshal", "manifestObj.Validate": "Validate",
		"opts.UnwrapKeyFn": "UnwrapKeyFn", "importFileKey": "importFileKey", "fk.VerifyHeaderSignature": "VerifyHeaderSignature", "processSegments": "processSegments"}
	var order []string
	seen := map[string]bool{}
	calls(dec, func(c *ast.CallExpr) {
		if n, ok := interesting[show(c.Fun)]; ok && !seen[n] {
			seen[n] = true
			order = append(order, n)
		}
	})
	if len(order) != len(interesting) {
		die("Decrypt: steps found %v", order)
	}
	w("/-- scheme.go: Decrypt: order of the steps after the options check (first occurrence of each call) -/")
	w("def decryptOrder : List String := %s", ql(order))
	w("")

	// ---- a failed unwrap is refused after the MAC check ----
	{
		failedDef, refuseCond, refuseErr := "", "", ""
		body := p.fn("Decrypt").Body.List
		for i, st := range body {
			as, ok := st.(*ast.AssignStmt)
			if !ok || len(as.Lhs) < 1 || len(as.Rhs) != 1 {
				continue
			}
			if as.Tok == token.DEFINE && show(as.Lhs[0]) == "unwrapFailed" {
				failedDef = show(as.Rhs[0])
			}
			if c, ok := as.Rhs[0].(*ast.CallExpr); ok && show(c.Fun) == "fk.VerifyHeaderSignature" && i+1 < len(body) {
				if is, ok := body[i+1].(*ast.IfStmt); ok && len(is.Body.List) == 1 && is.Else == nil {
					if a2, ok := is.Body.List[0].(*ast.AssignStmt); ok && show(a2.Lhs[0]) == "err" {
						refuseCond, refuseErr = show(is.Cond), show(a2.Rhs[0])
					}
				}
			}
		}
		if failedDef == "" || refuseCond == "" {
			die("Decrypt: `unwrapFailed := …` and the refusal `if err == nil && unwrapFailed { err = … }` right after VerifyHeaderSignature not found (a failed unwrap would be accepted under the substituted all-zero key)")
		}
		w("/-- scheme.go: Decrypt: definition of unwrapFailed; the statement right after `err = fk.VerifyHeaderSignature(…)`: `if <cond> { err = <sentinel> }` -/")
		w("def badUnwrapRefusal : List String := %s", ql([]string{failedDef, refuseCond, refuseErr}))
		w("")
	}

	// ---- Encrypt refuses an empty wrapped key (what Manifest.Validate would reject in Decrypt) ----
	{
		found := ""
		ast.Inspect(p.fn("Encrypt"), func(n ast.Node) bool {
			if is, ok := n.(*ast.IfStmt); ok && show(is.Cond) == "len(wrappedFileKey)==0" && len(is.Body.List) >= 1 {
				if _, ok := is.Body.List[len(is.Body.List)-1].(*ast.ReturnStmt); ok {
					found = show(is.Cond)
				}
			}
			return true
		})
		validateEmpty := false
		ast.Inspect(p.fn("Manifest.Validate"), func(n ast.Node) bool {
			if is, ok := n.(*ast.IfStmt); ok && show(is.Cond) == "len(m.WFK)==0" {
				validateEmpty = true
			}
			return true
		})
		w("/-- scheme.go: Encrypt returns an error when `len(wrappedFileKey) == 0`; manifest.go: Validate rejects `len(m.WFK) == 0` -/")
		w("def encryptRefusesEmptyWrappedKey : Bool := %v", found != "")
		w("def validateRejectsEmptyWrappedKey : Bool := %v", validateEmpty)
		w("")
	}

	// ---- nothing reads the file key bytes after they were handed to WrapKeyFn ----
	{
		mentions := map[string]bool{} // functions whose body mentions the field .fileKey
		callees := map[string][]string{}
		refs := func(n ast.Node, recv string) []string {
			var out []string
			ast.Inspect(n, func(x ast.Node) bool {
				switch e := x.(type) {
				case *ast.SelectorExpr:
					if id, ok := e.X.(*ast.Ident); ok && (id.Name == recv || id.Name == "fk" || id.Name == "k") {
						out = append(out, "fileKey."+e.Sel.Name)
					}
				case *ast.Ident:
					out = append(out, e.Name)
				}
				return true
			})
			return out
		}
		for name, fd := range p.funcs {
			if fd.Body == nil {
				continue
			}
			ast.Inspect(fd.Body, func(x ast.Node) bool {
				if se, ok := x.(*ast.SelectorExpr); ok && se.Sel.Name == "fileKey" {
					mentions[name] = true
				}
				return true
			})
			recv := ""
			if fd.Recv != nil && len(fd.Recv.List) == 1 && len(fd.Recv.List[0].Names) == 1 {
				recv = fd.Recv.List[0].Names[0].Name
			}
			callees[name] = refs(fd.Body, recv)
		}
		body := p.fn("Encrypt").Body.List
		at := -1
		for i, st := range body {
			calls(st, func(c *ast.CallExpr) {
				if show(c.Fun) == "opts.WrapKeyFn" {
					at = i
				}
			})
		}
		if at < 0 {
			die("Encrypt: call of opts.WrapKeyFn not found")
		}
		reached := map[string]bool{}
		var todo []string
		direct := false
		for _, st := range body[at+1:] {
			ast.Inspect(st, func(x ast.Node) bool {
				if se, ok := x.(*ast.SelectorExpr); ok && (se.Sel.Name == "fileKey" || se.Sel.Name == "GetFileKey") {
					direct = true
				}
				return true
			})
			todo = append(todo, refs(st, "")...)
		}
		for len(todo) > 0 {
			n := todo[0]
			todo = todo[1:]
			if reached[n] {
				continue
			}
			if _, ok := p.funcs[n]; !ok {
				continue
			}
			reached[n] = true
			todo = append(todo, callees[n]...)
		}
		var readers []string
		if direct {
			readers = append(readers, "Encrypt")
		}
		for n := range reached {
			if mentions[n] {
				readers = append(readers, n)
			}
		}
		sort.Strings(readers)
		w("/-- scheme.go/filekey.go: functions reachable from the statements of Encrypt AFTER the `opts.WrapKeyFn(fk.GetFileKey(), …)` call")
		w("    that mention the field `fileKey` (the bytes handed to the caller's callback): must be none — the header and payload keys")
		w("    are derived before the call, so a WrapKeyFn that wipes or wraps its argument in place cannot change the document -/")
		w("def fileKeyReadersAfterWrap : List String := %s", ql(readers))
		w("")
	}

	// ---- BufPool discipline: per function, number of Get and Put call sites, and whether the only Put is a
	// deferred call in the statement right after the Get (so that every Get is matched by exactly one Put) ----
	var disc []string
	var fnames []string
	for name := range p.funcs {
		fnames = append(fnames, name)
	}
	sort.Strings(fnames)
	for _, name := range fnames {
		fd := p.funcs[name]
		if fd.Body == nil {
			continue
		}
		gets, puts := 0, 0
		calls(fd, func(c *ast.CallExpr) {
			switch show(c.Fun) {
			case "BufPool.Get":
				gets++
			case "BufPool.Put":
				puts++
			}
		})
		if gets == 0 && puts == 0 {
			continue
		}
		deferred := false
		for i, st := range fd.Body.List {
			as, ok := st.(*ast.AssignStmt)
			if !ok || len(as.Rhs) != 1 {
				continue
			}
			found := false
			calls(as.Rhs[0], func(c *ast.CallExpr) {
				if show(c.Fun) == "BufPool.Get" {
					found = true
				}
			})
			if !found || i+1 >= len(fd.Body.List) {
				continue
			}
			if ds, ok := fd.Body.List[i+1].(*ast.DeferStmt); ok {
				n := 0
				calls(ds, func(c *ast.CallExpr) {
					if show(c.Fun) == "BufPool.Put" {
						n++
					}
				})
				deferred = n == 1
			}
		}
		disc = append(disc, fmt.Sprintf("(%s, %d, %d, %v)", leanStr(name), gets, puts, deferred))
	}
	w("/-- scheme.go: per function using BufPool: (name, Get call sites, Put call sites, the Put is a `defer` right after the Get) -/")
	w("def bufPoolDiscipline : List (String × Nat × Nat × Bool) :=\n  [%s]", strings.Join(disc, ", "))
	w("")
	w("end Kit.Enc.Gen")

	if *out == "" {
		fmt.Print(b.String())
		return
	}
	if err := os.WriteFile(*out, []byte(b.String()), 0o644); err != nil {
		die("%v", err)
	}
}
