// go2lean translates selected dapr/kit functions — pure integer/bit/byte-slice code with structured
// control flow — from the Go source in --repo into Lean 4 definitions over KitModel/Go/Sem.lean.
// It is run by bin/check on every run (as a `factgen` of the properties concerned), so the Lean
// theorems stated over the generated definitions are re-checked against what the code says now.
//
//	go2lean --repo /repo --out <dir>/Generated_Code<Group>.lean     (the group is taken from the file name)
//
// Supported fragment (anything else is a translation error, which bin/check reports as a broken
// T1 tie): parameters/results of type int, int64, time.Duration (→ Int, wrapped to 64 bits after
// every operation), uint, uint64 (→ BitVec 64), byte, bool, error, []byte; struct-typed
// parameters/receivers are flattened into one variable per field used; local variables,
// assignments, op-assignments, ++/--, if/else, switch (no fallthrough), for loops (→ a fuel-indexed
// recursive definition per loop), break/continue, return (named results and naked returns
// included), panic(...), calls to other translated functions, and calls listed as `externs`
// (method calls on abstract values such as time.Time or an io.Reader), whose meaning is given by
// the target table below and is part of the trusted base. Division, indexing and slicing emit an
// explicit bound check that yields `.panic`.
package main

import (
	"bytes"
	"flag"
	"fmt"
	"go/ast"
	"go/constant"
	"go/importer"
	"go/parser"
	"go/printer"
	"go/token"
	"go/types"
	"os"
	"path/filepath"
	"sort"
	"strings"
)

// ---------------------------------------------------------------------------------------------
// targets

type extern struct {
	// Lean is the Lean text of the result; %1, %2 … stand for the translated arguments, %r for the
	// receiver expression's flattened name. Params are extra parameters the translated function gets.
	Lean   string
	Type   string   // Lean type of the result ("" = effect only)
	Params []string // e.g. "(t_Day : Int)"
	// Effects: assignments to ghost variables performed by the call, "name := lean expression".
	Effects []string
}

type target struct {
	Group   string // output group: Generated/Code<Group>.lean
	Dir     string // package directory
	Func    string // "name" or "Type.Method"
	Externs map[string]extern
	// Rewrites: printed Go expression → Lean text with its Lean type (an escape hatch for tests such
	// as `l.R == nil` on abstract fields)
	Rewrites map[string][2]string
	// Ghost variables (extra state threaded through the function and returned with the results)
	Ghosts []string // "(name : Type)"
	// Abstract: parameters/fields that have no translated representation (dropped from the signature)
	Abstract []string
	// StmtEffects: a statement (as printed) whose whole meaning is a list of ghost assignments
	StmtEffects map[string][]string
	// ExtraParams: further parameters of the translated function (used by Rewrites)
	ExtraParams []string
	// Ignore: statements (as printed) that have no counterpart in the sequential translation:
	// taking and releasing the object's own mutex
	Ignore []string
	// OutParams: parameters whose final value is returned with the results (a buffer the callee fills)
	OutParams []string
	// Types: Go type (as printed by go/types) → Lean type, for abstract values given a representation
	// here (e.g. time.Time as its nanoseconds since the epoch); part of the trusted base
	Types map[string]string
}

var targets = []target{
	{Group: "C04Parser", Dir: "cron", Func: "getBits"},
	{Group: "C04Parser", Dir: "cron", Func: "all"},
	{Group: "C04Next", Dir: "cron", Func: "dayMatches", Abstract: []string{"t"}, Externs: map[string]extern{
		"t.Day":     {Lean: "t_Day", Type: "Int", Params: []string{"(t_Day : Int)"}},
		"t.Weekday": {Lean: "t_Weekday", Type: "Int", Params: []string{"(t_Weekday : Int)"}},
	}},
	{Group: "C04Next", Dir: "cron", Func: "Every", Externs: map[string]extern{
		"duration.Nanoseconds": {Lean: "%r", Type: "Int"},
	}},
	{Group: "C04Next", Dir: "cron", Func: "ConstantDelaySchedule.Next", Types: map[string]string{"time.Time": "Int"}, Externs: map[string]extern{
		// time.Time is represented by its nanoseconds since the epoch (unbounded Int: time.Time's range
		// exceeds int64); Add is exact there, Nanosecond is the non-negative remainder
		"t.Add":        {Lean: "(%r + %1)", Type: "Int"},
		"t.Nanosecond": {Lean: "(%r % 1000000000)", Type: "Int"},
	}},
	{Group: "C16", Dir: "streams", Func: "limitReadCloser.Read", Abstract: []string{"l.R"},
		Ghosts: []string{"(closeCalls : Int)"},
		Rewrites: map[string][2]string{"l.R == nil": {"l_Rnil", "Bool"}},
		Externs: map[string]extern{
			// the source's Read on a buffer of the given length: any (n, err) — a parameter of the translation
			"l.R.Read":  {Lean: "(R_Read (Kit.GoSem.lenI %1))", Type: "Int × Kit.GoSem.Err", Params: []string{"(l_Rnil : Bool)", "(R_Read : Int → Int × Kit.GoSem.Err)"}},
			"l.R.Close": {Lean: "()", Type: "", Effects: []string{"closeCalls := closeCalls + 1"}},
		}},
	{Group: "C16", Dir: "streams", Func: "limitReadCloser.Close", Abstract: []string{"l.R"},
		Ghosts: []string{"(closeCalls : Int)"},
		Externs: map[string]extern{
			"l.R.Close": {Lean: "R_CloseErr", Type: "Kit.GoSem.Err", Params: []string{"(R_CloseErr : Kit.GoSem.Err)"}, Effects: []string{"closeCalls := closeCalls + 1"}},
		}},
	{Group: "C16", Dir: "streams", Func: "TeeReadCloser.Read", Abstract: []string{"t.r", "t.w", "t.lock"},
		Ignore:    []string{"t.lock.Lock()", "defer t.lock.Unlock()"},
		OutParams: []string{"p"},
		Ghosts:    []string{"(wlog : List (List UInt8))"},
		Rewrites: map[string][2]string{"t.r == nil": {"t_rnil", "Bool"}, "t.w == nil": {"t_wnil", "Bool"},
			// the source's errors are sentinel values (not wrapped), as in the model
			"errors.Is(err, io.EOF)": {"(err == (some \"io.EOF\" : Kit.GoSem.Err))", "Bool"}},
		Externs: map[string]extern{
			// the source fills the buffer with the data it returns: R_Data k is the data, R_Read k = (n, err)
			"t.r.Read": {Lean: "(R_Read (Kit.GoSem.lenI %1))", Type: "Int × Kit.GoSem.Err",
				Params:  []string{"(t_rnil : Bool)", "(t_wnil : Bool)", "(R_Read : Int → Int × Kit.GoSem.Err)", "(R_Data : Int → List UInt8)", "(W_Write : List UInt8 → Int × Kit.GoSem.Err)"},
				Effects: []string{"p := Kit.GoSem.fill p (R_Data (Kit.GoSem.lenI p))"}},
			// the writer is handed exactly the argument; what it was handed is logged
			"t.w.Write": {Lean: "(W_Write %1)", Type: "Int × Kit.GoSem.Err", Effects: []string{"wlog := wlog ++ [%1]"}},
		}},
	{Group: "C16", Dir: "streams", Func: "MultiReaderCloser.Read",
		// a reader is an abstract object: its index in the caller's table of sources
		Types: map[string]string{"[]io.Reader": "List Nat", "io.Reader": "Nat", "io.Closer": "Nat"},
		Ghosts: []string{"(closeLog : List Nat)"},
		Rewrites: map[string][2]string{
			"errors.Is(err, http.ErrBodyReadAfterClose)": {"(err == (some \"http.ErrBodyReadAfterClose\" : Kit.GoSem.Err))", "Bool"},
			"r.(io.Closer)": {"(r, R_IsCloser r)", "Nat × Bool"}},
		Externs: map[string]extern{
			// within one call every source is read at most once, so its Read is a function of (source, len(p))
			"r.Read":   {Lean: "(R_Read %r (Kit.GoSem.lenI %1))", Type: "Int × Kit.GoSem.Err", Params: []string{"(R_Read : Nat → Int → Int × Kit.GoSem.Err)", "(R_IsCloser : Nat → Bool)"}},
			"rc.Close": {Lean: "(none : Kit.GoSem.Err)", Type: "Kit.GoSem.Err", Effects: []string{"closeLog := closeLog ++ [%r]"}},
		}},
	{Group: "C01", Dir: "schemes/enc/v1", Func: "processSegments",
		// the pooled buffer is a byte slice of some length (its capacity); the source is a stateful
		// reader: R_Read s k = (n, err) of Read on a k-byte window in state s, R_Data s k the bytes it
		// puts there, R_Step s k its next state; the output pipe and the segment function are logged
		Types:       map[string]string{"*[]byte": "List UInt8"},
		Abstract:    []string{"in", "out", "processFn"},
		Ignore:      []string{"defer func() {…"},
		ExtraParams: []string{"{σ : Type}", "(R_Read : σ → Int → Int × Kit.GoSem.Err)", "(R_Data : σ → Int → List UInt8)", "(R_Step : σ → Int → σ)", "(P_Fn : List UInt8 → BitVec 32 → Bool → Kit.GoSem.Err)", "(buf0 : List UInt8)"},
		Ghosts:      []string{"(src : σ)", "(outLog : List (List UInt8 × BitVec 32 × Bool))", "(closedWith : List Kit.GoSem.Err)"},
		Rewrites: map[string][2]string{
			"BufPool.Get().(*[]byte)": {"buf0", "List UInt8"},
			"errors.Is(err, io.EOF)":  {"(err == (some \"io.EOF\" : Kit.GoSem.Err))", "Bool"}},
		Externs: map[string]extern{
			"in.Read": {Lean: "(R_Read src (Kit.GoSem.lenI %1))", Type: "Int × Kit.GoSem.Err",
				Effects: []string{"buf := Kit.GoSem.writeAt buf n (Kit.GoSem.wrapI64 (segmentSize + 1)) (R_Data src (Kit.GoSem.lenI %1))", "src := R_Step src (Kit.GoSem.lenI %1)"}},
			"processFn":          {Lean: "(P_Fn %2 %3 %4)", Type: "Kit.GoSem.Err", Effects: []string{"outLog := outLog ++ [(%2, %3, %4)]"}},
			"out.CloseWithError": {Lean: "(none : Kit.GoSem.Err)", Type: "Kit.GoSem.Err", Effects: []string{"closedWith := closedWith ++ [%1]"}},
			"out.Close":          {Lean: "(none : Kit.GoSem.Err)", Type: "Kit.GoSem.Err", Effects: []string{"closedWith := closedWith ++ [(none : Kit.GoSem.Err)]"}},
		}},
	{Group: "C01", Dir: "schemes/enc/v1", Func: "readHeader",
		Types:       map[string]string{"*[]byte": "List UInt8"},
		Abstract:    []string{"in"},
		Ignore:      []string{"defer func() {…"},
		ExtraParams: []string{"{σ : Type}", "(R_Read : σ → Int → Int × Kit.GoSem.Err)", "(R_Data : σ → Int → List UInt8)", "(R_Step : σ → Int → σ)", "(buf0 : List UInt8)"},
		// pushback: the bytes read past the header that are put back in front of the stream
		Ghosts: []string{"(src : σ)", "(pushback : List UInt8)"},
		Rewrites: map[string][2]string{
			"BufPool.Get().(*[]byte)": {"buf0", "List UInt8"},
			"errors.Is(err, io.EOF)":  {"(err == (some \"io.EOF\" : Kit.GoSem.Err))", "Bool"}},
		StmtEffects: map[string][]string{"*in = io.MultiReader(bytes.NewReader(extraBytes), *in)": {"pushback := extraBytes"}},
		Externs: map[string]extern{
			"(*in).Read": {Lean: "(R_Read src (Kit.GoSem.lenI %1))", Type: "Int × Kit.GoSem.Err",
				Effects: []string{"buf := Kit.GoSem.writeAt buf n (65536 : Int) (R_Data src (Kit.GoSem.lenI %1))", "src := R_Step src (Kit.GoSem.lenI %1)"}},
			"bytes.Clone": {Lean: "%1", Type: "List UInt8"},
		}},
	{Group: "C16", Dir: "streams", Func: "MultiReaderCloser.Close",
		Types:  map[string]string{"[]io.Reader": "List Nat", "io.Reader": "Nat", "io.Closer": "Nat"},
		Ghosts: []string{"(closeLog : List Nat)"},
		ExtraParams: []string{"(R_IsCloser : Nat → Bool)"},
		Rewrites: map[string][2]string{"r.(io.Closer)": {"(r, R_IsCloser r)", "Nat × Bool"}},
		Externs: map[string]extern{
			"rc.Close": {Lean: "(none : Kit.GoSem.Err)", Type: "Kit.GoSem.Err", Effects: []string{"closeLog := closeLog ++ [%r]"}},
		}},
	{Group: "C16", Dir: "streams", Func: "TeeReadCloser.Close", Abstract: []string{"t.r", "t.w", "t.lock"},
		Ignore: []string{"t.lock.Lock()", "defer t.lock.Unlock()"},
		// t.r / t.w: whether the field is nil is the ghost state; whether the object behind it implements
		// io.Closer and what its Close returns are parameters; the Close calls are counted
		Ghosts:      []string{"(t_rnil : Bool)", "(t_wnil : Bool)", "(rCloses : Int)", "(wCloses : Int)"},
		ExtraParams: []string{"(R_IsCloser : Bool)", "(W_IsCloser : Bool)", "(R_CloseErr : Kit.GoSem.Err)", "(W_CloseErr : Kit.GoSem.Err)"},
		Types:       map[string]string{"io.Closer": "Unit"},
		Rewrites: map[string][2]string{
			"t.r.(io.Closer)": {"((), (!t_rnil) && R_IsCloser)", "Unit × Bool"},
			"t.w.(io.Closer)": {"((), (!t_wnil) && W_IsCloser)", "Unit × Bool"}},
		StmtEffects: map[string][]string{"t.r = nil": {"t_rnil := true"}, "t.w = nil": {"t_wnil := true"}},
		Externs: map[string]extern{
			"r.Close": {Lean: "R_CloseErr", Type: "Kit.GoSem.Err", Effects: []string{"rCloses := rCloses + 1"}},
			"w.Close": {Lean: "W_CloseErr", Type: "Kit.GoSem.Err", Effects: []string{"wCloses := wCloses + 1"}},
		}},
	{Group: "C16", Dir: "streams", Func: "TeeReadCloser.Stop", Abstract: []string{"t.r", "t.w", "t.lock"},
		Ignore:      []string{"t.lock.Lock()", "defer t.lock.Unlock()"},
		Ghosts:      []string{"(t_wnil : Bool)", "(wCloses : Int)"},
		ExtraParams: []string{"(W_IsCloser : Bool)", "(W_CloseErr : Kit.GoSem.Err)"},
		Types:       map[string]string{"io.Closer": "Unit"},
		Rewrites:    map[string][2]string{"t.w.(io.Closer)": {"((), (!t_wnil) && W_IsCloser)", "Unit × Bool"}},
		StmtEffects: map[string][]string{"t.w = nil": {"t_wnil := true"}},
		Externs: map[string]extern{
			"w.Close": {Lean: "W_CloseErr", Type: "Kit.GoSem.Err", Effects: []string{"wCloses := wCloses + 1"}},
		}},
	{Group: "C16", Dir: "streams", Func: "MultiReaderCloser.writeToWithBuffer", Abstract: []string{"w", "buf"},
		Types:  map[string]string{"[]io.Reader": "List Nat", "io.Reader": "Nat", "io.Closer": "Nat"},
		Ghosts: []string{"(closeLog : List Nat)", "(copyLog : List Nat)"},
		// io.CopyBuffer(w, r, buf) of source r: (bytes copied, error) — a parameter; each call is logged
		ExtraParams: []string{"(R_IsCloser : Nat → Bool)", "(R_Copy : Nat → Int × Kit.GoSem.Err)"},
		Rewrites:    map[string][2]string{"r.(io.Closer)": {"(r, R_IsCloser r)", "Nat × Bool"}},
		Ignore:      []string{"mr.readers[i] = nil"},
		StmtEffects: map[string][]string{"mr.readers = nil": {"mr_readers := ([] : List Nat)"}},
		Externs: map[string]extern{
			"io.CopyBuffer": {Lean: "(R_Copy %2)", Type: "Int × Kit.GoSem.Err", Effects: []string{"copyLog := copyLog ++ [%2]"}},
			"rc.Close":      {Lean: "(none : Kit.GoSem.Err)", Type: "Kit.GoSem.Err", Effects: []string{"closeLog := closeLog ++ [%r]"}},
		}},
	{Group: "C03", Dir: "crypto/padding", Func: "UnpadPKCS7"},
	{Group: "C03", Dir: "crypto/padding", Func: "PadPKCS7", Externs: map[string]extern{
		"bytes.Repeat": {Lean: "(List.flatten (List.replicate (%2).toNat %1))", Type: "List UInt8"},
	}},
	{Group: "C07", Dir: "time", Func: "ParseISO8601Duration", Externs: map[string]extern{
		// strconv.Atoi on the bytes of the substring: any (value, err) — a parameter of the translation
		"strconv.Atoi": {Lean: "(atoi %1)", Type: "Int × Kit.GoSem.Err", Params: []string{"(atoi : List UInt8 → Int × Kit.GoSem.Err)"}},
	}},
}

var timeExterns = map[string]extern{
	// time.Time is its nanoseconds since the epoch (unbounded Int). The wall-clock readings of the
	// ONE zone the search runs in (s.Location, or t's own when that is time.Local) and the calendar
	// constructors are parameters of the translation; the proofs instantiate them with the calendar
	// model, the correspondence runs compare them with the real time package.
	"(time.Time).Year":       {Lean: "(T_Year %r)", Type: "Int", Params: []string{"(T_Year : Int → Int)", "(T_Month : Int → Int)", "(T_Day : Int → Int)", "(T_Hour : Int → Int)", "(T_Minute : Int → Int)", "(T_Second : Int → Int)", "(T_Weekday : Int → Int)", "(T_Date : Int → Int → Int → Int → Int → Int → Int → Int)", "(T_AddDate : Int → Int → Int → Int → Int)", "(T_Truncate : Int → Int → Int)"}},
	"(time.Time).Month":      {Lean: "(T_Month %r)", Type: "Int"},
	"(time.Time).Day":        {Lean: "(T_Day %r)", Type: "Int"},
	"(time.Time).Hour":       {Lean: "(T_Hour %r)", Type: "Int"},
	"(time.Time).Minute":     {Lean: "(T_Minute %r)", Type: "Int"},
	"(time.Time).Second":     {Lean: "(T_Second %r)", Type: "Int"},
	"(time.Time).Weekday":    {Lean: "(T_Weekday %r)", Type: "Int"},
	"(time.Time).Nanosecond": {Lean: "(%r % 1000000000)", Type: "Int"},
	"(time.Time).Add":        {Lean: "(%r + %1)", Type: "Int"},
	"(time.Time).After":      {Lean: "(decide (%r > %1))", Type: "Bool"},
	"(time.Time).AddDate":    {Lean: "(T_AddDate %r %1 %2 %3)", Type: "Int"},
	"(time.Time).Truncate":   {Lean: "(T_Truncate %r %1)", Type: "Int"},
	"(time.Time).Location":   {Lean: "()", Type: "Unit"},
	"(time.Time).In":         {Lean: "%r", Type: "Int"},
	"time.Date":              {Lean: "(T_Date %1 %2 %3 %4 %5 %6 %7)", Type: "Int"},
}

var timeTypes = map[string]string{"time.Time": "Int", "*time.Location": "Unit"}

var kwExterns = map[string]extern{
	// one block operation of the cipher, in place on its (single) 16-byte argument
	"block.Encrypt": {Lean: "()", Type: "", Params: []string{"(B_Enc : List UInt8 → List UInt8)", "(B_Dec : List UInt8 → List UInt8)"}, Effects: []string{"%1 := B_Enc %2"}},
	"block.Decrypt": {Lean: "()", Type: "", Effects: []string{"%1 := B_Dec %2"}},
	"binary.BigEndian.PutUint64":  {Lean: "()", Type: "", Effects: []string{"%1 := Kit.GoSem.putU64BE %1 %2"}},
	"subtle.ConstantTimeCompare": {Lean: "(if %1 == %2 then (1 : Int) else (0 : Int))", Type: "Int"},
}

var kwRewrites = map[string][2]string{"defaultIV": {"([166, 166, 166, 166, 166, 166, 166, 166] : List UInt8)", "List UInt8"}}

func init() {
	targets = append(targets,
		target{Group: "C03KW", Dir: "crypto/aeskw", Func: "arrConcat"},
		target{Group: "C03KW", Dir: "crypto/aeskw", Func: "arrXor"},
		target{Group: "C03KW", Dir: "crypto/aeskw", Func: "Wrap", Abstract: []string{"block"}, Externs: kwExterns, Rewrites: kwRewrites},
		target{Group: "C03KW", Dir: "crypto/aeskw", Func: "Unwrap", Abstract: []string{"block"}, Externs: kwExterns, Rewrites: kwRewrites},
	)
}

func init() {
	targets = append(targets,
		target{Group: "C04Search", Dir: "cron", Func: "dayStart", Types: timeTypes, Externs: timeExterns},
		target{Group: "C04Search", Dir: "cron", Func: "dayMatches", Types: timeTypes, Externs: timeExterns},
		target{Group: "C04Search", Dir: "cron", Func: "SpecSchedule.Next", Types: timeTypes, Externs: timeExterns,
			ExtraParams: []string{"(s_LocIsLocal : Bool)"},
			Rewrites: map[string][2]string{
				"loc == time.Local":        {"s_LocIsLocal", "Bool"},
				"s.Location != time.Local": {"(!s_LocIsLocal)", "Bool"},
				// the zero time.Time: January 1, year 1, 00:00:00 UTC
				"time.Time{}": {"(-62135596800000000000 : Int)", "Int"},
			}},
	)
}

// ---------------------------------------------------------------------------------------------

func fail(f string, a ...any) {
	fmt.Fprintf(os.Stderr, "go2lean: "+f+"\n", a...)
	os.Exit(1)
}

type lty string // Lean type text

const (
	tInt  lty = "Int"
	tU64  lty = "BitVec 64"
	tU32  lty = "BitVec 32"
	tByte lty = "UInt8"
	tBool lty = "Bool"
	tErr  lty = "Kit.GoSem.Err"
	tBytes lty = "List UInt8"
	tUnit lty = "Unit"
)

type variable struct {
	name string
	ty   lty
}

type pre struct { // pre-action of an expression: a guard or a bind
	guard string // Lean Bool/Prop text that must hold, else panic
	msg   string
	bindName, bindRes string
	bindTy            lty
}

type fnCtx struct {
	t        target
	fset     *token.FileSet
	info     *types.Info
	pkg      *types.Package
	decl     *ast.FuncDecl
	leanName string
	names    map[types.Object]string // variable objects → Lean names
	used     map[string]int
	flat     map[string]*variable // "recv.field" → flattened variable
	flatOrder []string
	env      []variable // variables in scope, in order
	results  []variable // named (or synthesised) result variables
	resultTy lty
	resTys   []lty
	retTuple func(c *fnCtx, vals []string) string
	loops    []string // emitted loop definitions
	nloops   int
	needFuel bool
	extraParams []string
	ghosts   []variable
	tmp      int
	known    map[string]*fnSig // translated functions of the same group (for calls)
	mutatedFlat map[string]bool
}

type fnSig struct {
	lean     string
	needFuel bool
	resultTy lty
	variadic bool       // the last Go parameter is `...T`: the call site packs the trailing arguments
	extra    []string   // names of the extern parameters (the caller passes its own of the same names)
	params   []sigParam // one per Go parameter
}

type sigParam struct {
	skip   bool     // abstract parameter: nothing is passed
	fields []string // struct(-pointer) parameter: the fields that were flattened, in order
}

func (c *fnCtx) pos(n ast.Node) string { return c.fset.Position(n.Pos()).String() }

func (c *fnCtx) bad(n ast.Node, f string, a ...any) {
	fail("%s: %s: unsupported: %s", c.pos(n), c.t.Func, fmt.Sprintf(f, a...))
}

func printed(fset *token.FileSet, n ast.Node) string {
	var b bytes.Buffer
	printer.Fprint(&b, fset, n)
	return b.String()
}

func (c *fnCtx) leanType(t types.Type, n ast.Node) lty {
	if o, ok := c.t.Types[t.String()]; ok {
		return lty(o)
	}
	switch u := t.Underlying().(type) {
	case *types.Basic:
		switch u.Kind() {
		case types.Int, types.Int64, types.UntypedInt:
			return tInt
		case types.Uint, types.Uint64, types.Uintptr:
			return tU64
		case types.Uint32:
			return tU32
		case types.Uint8:
			return tByte
		case types.Bool, types.UntypedBool:
			return tBool
		case types.String:
			return tBytes // a Go string is its bytes; indexing and slicing are byte-wise
		}
	case *types.Slice:
		if b, ok := u.Elem().Underlying().(*types.Basic); ok && b.Kind() == types.Uint8 {
			return tBytes
		}
		if _, ok := u.Elem().Underlying().(*types.Slice); ok {
			return lty("List (" + string(c.leanType(u.Elem(), n)) + ")")
		}
	case *types.Interface:
		if t.String() == "error" {
			return tErr
		}
	}
	c.bad(n, "type %s", t.String())
	return ""
}

// elemOf gives the element type of a list type.
func elemOf(t lty) lty {
	e := strings.TrimPrefix(string(t), "List ")
	if strings.HasPrefix(e, "(") && strings.HasSuffix(e, ")") {
		e = e[1 : len(e)-1]
	}
	return lty(e)
}

func zero(t lty) string {
	switch t {
	case tInt:
		return "(0 : Int)"
	case tU64:
		return "(0#64)"
	case tU32:
		return "(0#32)"
	case tByte:
		return "(0 : UInt8)"
	case tBool:
		return "false"
	case tErr:
		return "(none : Kit.GoSem.Err)"
	case tBytes:
		return "([] : List UInt8)"
	}
	return "()"
}

func (c *fnCtx) fresh(base string) string {
	base = strings.ReplaceAll(base, ".", "_")
	if base == "_" || base == "" {
		base = "v"
	}
	switch base { // Lean keywords / clashes
	case "end", "at", "from", "fun", "have", "show", "then", "else", "if", "let", "do", "in", "open", "by", "max", "min", "all":
		base += "_"
	}
	n := c.used[base]
	c.used[base] = n + 1
	if n == 0 {
		return base
	}
	return fmt.Sprintf("%s_%d", base, n)
}

func (c *fnCtx) declare(obj types.Object, ty lty) variable {
	v := variable{c.fresh(obj.Name()), ty}
	c.names[obj] = v.name
	c.env = append(c.env, v)
	return v
}

// ---------------------------------------------------------------------------------------------
// expressions

type exprOut struct {
	s   string
	ty  lty
	pre []pre
	// for the value of an extern call: its receiver and translated arguments (for its effects)
	exRecv string
	exArgs []string
}

func constText(v constant.Value, ty lty, c *fnCtx, n ast.Node) string {
	switch ty {
	case tInt:
		if v.Kind() != constant.Int {
			c.bad(n, "non-integer constant")
		}
		s := v.ExactString()
		if strings.HasPrefix(s, "-") {
			return "(" + s + " : Int)"
		}
		return "(" + s + " : Int)"
	case tU64:
		return "(" + v.ExactString() + "#64)"
	case tU32:
		return "(" + v.ExactString() + "#32)"
	case tByte:
		return "(" + v.ExactString() + " : UInt8)"
	case tBool:
		if constant.BoolVal(v) {
			return "true"
		}
		return "false"
	}
	c.bad(n, "constant of type %s", ty)
	return ""
}

func (c *fnCtx) flatKey(e ast.Expr) (string, bool) {
	// x.f or x.f.g where x is a parameter/receiver identifier
	switch v := e.(type) {
	case *ast.SelectorExpr:
		if id, ok := v.X.(*ast.Ident); ok {
			if _, isVar := c.info.Uses[id].(*types.Var); isVar {
				if _, isPkg := c.info.Uses[id].(*types.PkgName); !isPkg {
					return id.Name + "." + v.Sel.Name, true
				}
			}
		}
	}
	return "", false
}

func (c *fnCtx) isAbstract(key string) bool {
	for _, a := range c.t.Abstract {
		if a == key {
			return true
		}
	}
	return false
}

func (c *fnCtx) expr(e ast.Expr) exprOut {
	if rw, ok := c.t.Rewrites[printed(c.fset, e)]; ok {
		return exprOut{s: rw[0], ty: lty(rw[1])}
	}
	tv := c.info.Types[e]
	if tv.Value != nil && tv.Type != nil && tv.Value.Kind() == constant.String {
		if b, ok := tv.Type.Underlying().(*types.Basic); ok && b.Info()&types.IsString != 0 {
			var bs []string
			for _, ch := range []byte(constant.StringVal(tv.Value)) {
				bs = append(bs, fmt.Sprintf("%d", ch))
			}
			return exprOut{s: "([" + strings.Join(bs, ", ") + "] : List UInt8)", ty: tBytes}
		}
	}
	if tv.Value != nil && tv.Type != nil {
		if b, ok := tv.Type.Underlying().(*types.Basic); ok && b.Info()&(types.IsInteger|types.IsBoolean) != 0 {
			ty := c.leanType(tv.Type, e)
			return exprOut{s: constText(tv.Value, ty, c, e), ty: ty}
		}
	}
	switch v := e.(type) {
	case *ast.ParenExpr:
		return c.expr(v.X)
	case *ast.StarExpr:
		// *p for a variable whose pointer type is given a value representation in Types
		if id, ok := v.X.(*ast.Ident); ok {
			if obj := c.info.Uses[id]; obj != nil {
				if _, over := c.t.Types[obj.Type().String()]; over {
					return c.expr(v.X)
				}
			}
		}
		c.bad(e, "pointer dereference %s", printed(c.fset, e))
	case *ast.Ident:
		if v.Name == "nil" {
			if tt := c.info.Types[e].Type; tt != nil {
				if _, isSlice := tt.Underlying().(*types.Slice); isSlice {
					return exprOut{s: "([] : List UInt8)", ty: c.leanType(tt, e)}
				}
			}
			return exprOut{s: "(none : Kit.GoSem.Err)", ty: tErr}
		}
		if v.Name == "true" || v.Name == "false" {
			return exprOut{s: v.Name, ty: tBool}
		}
		obj := c.info.Uses[v]
		if obj == nil {
			obj = c.info.Defs[v]
		}
		if n, ok := c.names[obj]; ok {
			return exprOut{s: n, ty: c.leanType(obj.Type(), e)}
		}
		if vr, ok := obj.(*types.Var); ok && vr.Pkg() != nil && vr.Parent() == vr.Pkg().Scope() && c.isErrorType(vr.Type()) {
			return exprOut{s: fmt.Sprintf("(some %q : Kit.GoSem.Err)", v.Name), ty: tErr}
		}
		c.bad(e, "identifier %s", v.Name)
	case *ast.SelectorExpr:
		if key, ok := c.flatKey(v); ok {
			if fv, ok := c.flat[key]; ok {
				return exprOut{s: fv.name, ty: fv.ty}
			}
		}
		// package-level error sentinel of another package (io.EOF)
		if id, ok := v.X.(*ast.Ident); ok {
			if _, isPkg := c.info.Uses[id].(*types.PkgName); isPkg && c.isErrorType(c.info.Types[e].Type) {
				return exprOut{s: fmt.Sprintf("(some %q : Kit.GoSem.Err)", id.Name+"."+v.Sel.Name), ty: tErr}
			}
		}
		c.bad(e, "selector %s", printed(c.fset, e))
	case *ast.UnaryExpr:
		x := c.expr(v.X)
		switch v.Op {
		case token.NOT:
			return exprOut{s: "(!" + x.s + ")", ty: tBool, pre: x.pre}
		case token.SUB:
			if x.ty == tInt {
				return exprOut{s: "(Kit.GoSem.wrapI64 (-" + x.s + "))", ty: tInt, pre: x.pre}
			}
			if x.ty == tU64 || x.ty == tU32 {
				return exprOut{s: "(-" + x.s + ")", ty: x.ty, pre: x.pre}
			}
		case token.XOR:
			if x.ty == tU64 || x.ty == tU32 {
				return exprOut{s: "(~~~" + x.s + ")", ty: x.ty, pre: x.pre}
			}
		case token.ADD:
			return x
		}
		c.bad(e, "unary %s on %s", v.Op, x.ty)
	case *ast.BinaryExpr:
		return c.binary(v)
	case *ast.CallExpr:
		return c.call(v)
	case *ast.IndexExpr:
		s := c.expr(v.X)
		i := c.expr(v.Index)
		if !strings.HasPrefix(string(s.ty), "List ") || i.ty != tInt {
			c.bad(e, "index of %s by %s", s.ty, i.ty)
		}
		if s.ty != tBytes {
			p := append(append([]pre{}, s.pre...), i.pre...)
			p = append(p, pre{guard: fmt.Sprintf("(decide (0 ≤ %s ∧ %s < Kit.GoSem.lenI %s))", i.s, i.s, s.s), msg: "index out of range: " + printed(c.fset, e)})
			return exprOut{s: fmt.Sprintf("(Kit.GoSem.idxG %s %s)", s.s, i.s), ty: elemOf(s.ty), pre: p}
		}
		p := append(append([]pre{}, s.pre...), i.pre...)
		p = append(p, pre{guard: fmt.Sprintf("(decide (0 ≤ %s ∧ %s < Kit.GoSem.lenI %s))", i.s, i.s, s.s), msg: "index out of range: " + printed(c.fset, e)})
		return exprOut{s: fmt.Sprintf("(Kit.GoSem.idx %s %s)", s.s, i.s), ty: tByte, pre: p}
	case *ast.SliceExpr:
		if v.Slice3 {
			c.bad(e, "3-index slice")
		}
		s := c.expr(v.X)
		if !strings.HasPrefix(string(s.ty), "List ") {
			c.bad(e, "slice of %s", s.ty)
		}
		p := append([]pre{}, s.pre...)
		lo, hi := "(0 : Int)", fmt.Sprintf("(Kit.GoSem.lenI %s)", s.s)
		if v.Low != nil {
			l := c.expr(v.Low)
			p = append(p, l.pre...)
			lo = l.s
		}
		if v.High != nil {
			h := c.expr(v.High)
			p = append(p, h.pre...)
			hi = h.s
		}
		p = append(p, pre{guard: fmt.Sprintf("(decide (0 ≤ %s ∧ %s ≤ %s ∧ %s ≤ Kit.GoSem.lenI %s))", lo, lo, hi, hi, s.s), msg: "slice bounds out of range: " + printed(c.fset, e)})
		return exprOut{s: fmt.Sprintf("(Kit.GoSem.slice %s %s %s)", s.s, lo, hi), ty: s.ty, pre: p}
	case *ast.CompositeLit:
		// []byte{} only
		if c.leanType(c.info.Types[e].Type, e) == tBytes {
			var els []string
			var p []pre
			for _, el := range v.Elts {
				if _, kv := el.(*ast.KeyValueExpr); kv {
					c.bad(e, "keyed slice literal")
				}
				x := c.expr(el)
				if x.ty != tByte {
					c.bad(el, "slice literal element of type %s", x.ty)
				}
				p = append(p, x.pre...)
				els = append(els, x.s)
			}
			return exprOut{s: "([" + strings.Join(els, ", ") + "] : List UInt8)", ty: tBytes, pre: p}
		}
		c.bad(e, "composite literal")
	}
	c.bad(e, "expression %T %s", e, printed(c.fset, e))
	return exprOut{}
}

func (c *fnCtx) isErrorType(t types.Type) bool { return t != nil && t.String() == "error" }

func guardUnder(cond string, ps []pre, c *fnCtx, n ast.Node) []pre {
	var out []pre
	for _, p := range ps {
		if p.bindName != "" {
			c.bad(n, "call to a translated function under a short-circuit operator")
		}
		out = append(out, pre{guard: fmt.Sprintf("(!(%s) || %s)", cond, p.guard), msg: p.msg})
	}
	return out
}

func (c *fnCtx) binary(v *ast.BinaryExpr) exprOut {
	x := c.expr(v.X)
	y := c.expr(v.Y)
	p := append(append([]pre{}, x.pre...), y.pre...)
	switch v.Op {
	case token.LAND:
		return exprOut{s: "(" + x.s + " && " + y.s + ")", ty: tBool, pre: append(append([]pre{}, x.pre...), guardUnder(x.s, y.pre, c, v)...)}
	case token.LOR:
		return exprOut{s: "(" + x.s + " || " + y.s + ")", ty: tBool, pre: append(append([]pre{}, x.pre...), guardUnder("!"+x.s, y.pre, c, v)...)}
	}
	// shifts: the count may have another type
	if v.Op == token.SHL || v.Op == token.SHR {
		if x.ty != tU64 && x.ty != tU32 {
			c.bad(v, "shift of %s", x.ty)
		}
		cnt := y.s
		switch y.ty {
		case tU64, tU32:
			cnt = y.s + ".toNat"
		case tInt:
			p = append(p, pre{guard: fmt.Sprintf("(decide (0 ≤ %s))", y.s), msg: "negative shift amount: " + printed(c.fset, v)})
			cnt = y.s + ".toNat"
		default:
			c.bad(v, "shift count of type %s", y.ty)
		}
		op := "<<<"
		if v.Op == token.SHR {
			op = ">>>"
		}
		return exprOut{s: fmt.Sprintf("(%s %s %s)", x.s, op, cnt), ty: x.ty, pre: p}
	}
	if x.ty != y.ty {
		c.bad(v, "operands of different types %s and %s in %s", x.ty, y.ty, printed(c.fset, v))
	}
	cmp := map[token.Token]string{token.EQL: "==", token.NEQ: "!=", token.LSS: "<", token.LEQ: "≤", token.GTR: ">", token.GEQ: "≥"}
	if op, ok := cmp[v.Op]; ok {
		if (v.Op == token.EQL || v.Op == token.NEQ) || x.ty == tInt || x.ty == tU64 || x.ty == tU32 || x.ty == tByte {
			if v.Op == token.EQL || v.Op == token.NEQ {
				return exprOut{s: fmt.Sprintf("(%s %s %s)", x.s, op, y.s), ty: tBool, pre: p}
			}
			return exprOut{s: fmt.Sprintf("(decide (%s %s %s))", x.s, op, y.s), ty: tBool, pre: p}
		}
		c.bad(v, "comparison of %s", x.ty)
	}
	switch x.ty {
	case tInt:
		switch v.Op {
		case token.ADD, token.SUB, token.MUL:
			return exprOut{s: fmt.Sprintf("(Kit.GoSem.wrapI64 (%s %s %s))", x.s, v.Op, y.s), ty: tInt, pre: p}
		case token.QUO:
			p = append(p, pre{guard: fmt.Sprintf("(%s != 0)", y.s), msg: "integer divide by zero: " + printed(c.fset, v)})
			return exprOut{s: fmt.Sprintf("(Kit.GoSem.divI64 %s %s)", x.s, y.s), ty: tInt, pre: p}
		case token.REM:
			p = append(p, pre{guard: fmt.Sprintf("(%s != 0)", y.s), msg: "integer divide by zero: " + printed(c.fset, v)})
			return exprOut{s: fmt.Sprintf("(Kit.GoSem.modI64 %s %s)", x.s, y.s), ty: tInt, pre: p}
		}
	case tByte:
		bops := map[token.Token]string{token.AND: "&&&", token.OR: "|||", token.XOR: "^^^", token.ADD: "+", token.SUB: "-"}
		if op, ok := bops[v.Op]; ok {
			return exprOut{s: fmt.Sprintf("(%s %s %s)", x.s, op, y.s), ty: tByte, pre: p}
		}
	case tU64, tU32:
		ops := map[token.Token]string{token.ADD: "+", token.SUB: "-", token.MUL: "*", token.AND: "&&&", token.OR: "|||", token.XOR: "^^^"}
		if op, ok := ops[v.Op]; ok {
			return exprOut{s: fmt.Sprintf("(%s %s %s)", x.s, op, y.s), ty: x.ty, pre: p}
		}
		if v.Op == token.AND_NOT {
			return exprOut{s: fmt.Sprintf("(%s &&& ~~~%s)", x.s, y.s), ty: x.ty, pre: p}
		}
	}
	c.bad(v, "operator %s on %s", v.Op, x.ty)
	return exprOut{}
}

func subst(tpl, recv string, args []string) string {
	s := strings.ReplaceAll(tpl, "%r", recv)
	for i := len(args); i >= 1; i-- {
		s = strings.ReplaceAll(s, fmt.Sprintf("%%%d", i), args[i-1])
	}
	return s
}

func (c *fnCtx) call(v *ast.CallExpr) exprOut {
	// conversions
	if tv, ok := c.info.Types[v.Fun]; ok && tv.IsType() && len(v.Args) == 1 {
		to := c.leanType(tv.Type, v)
		x := c.expr(v.Args[0])
		switch {
		case to == x.ty:
			return x
		case to == tU64 && x.ty == tInt:
			return exprOut{s: "(Kit.GoSem.u64OfInt " + x.s + ")", ty: tU64, pre: x.pre}
		case to == tInt && x.ty == tU64:
			return exprOut{s: "(Kit.GoSem.intOfU64 " + x.s + ")", ty: tInt, pre: x.pre}
		case to == tByte && x.ty == tInt:
			return exprOut{s: "(Kit.GoSem.byteOfInt " + x.s + ")", ty: tByte, pre: x.pre}
		case to == tInt && x.ty == tByte:
			return exprOut{s: "(Kit.GoSem.intOfByte " + x.s + ")", ty: tInt, pre: x.pre}
		}
		c.bad(v, "conversion %s → %s", x.ty, to)
	}
	if id, ok := v.Fun.(*ast.Ident); ok {
		switch id.Name {
		case "append":
			if _, isBuiltin := c.info.Uses[id].(*types.Builtin); isBuiltin && len(v.Args) >= 1 {
				base := c.expr(v.Args[0])
				p := append([]pre{}, base.pre...)
				if v.Ellipsis.IsValid() && len(v.Args) == 2 {
					y := c.expr(v.Args[1])
					if y.ty != base.ty {
						c.bad(v, "append of %s to %s", y.ty, base.ty)
					}
					return exprOut{s: fmt.Sprintf("(%s ++ %s)", base.s, y.s), ty: base.ty, pre: append(p, y.pre...)}
				}
				var els []string
				for _, a := range v.Args[1:] {
					x := c.expr(a)
					if x.ty != elemOf(base.ty) {
						c.bad(a, "append of element %s to %s", x.ty, base.ty)
					}
					p = append(p, x.pre...)
					els = append(els, x.s)
				}
				return exprOut{s: fmt.Sprintf("(%s ++ [%s])", base.s, strings.Join(els, ", ")), ty: base.ty, pre: p}
			}
		case "make":
			if _, isBuiltin := c.info.Uses[id].(*types.Builtin); isBuiltin && len(v.Args) == 2 {
				if lt := c.leanType(c.info.Types[v.Args[0]].Type, v); lt != tBytes && strings.HasPrefix(string(lt), "List ") {
					n := c.expr(v.Args[1])
					p := append([]pre{}, n.pre...)
					p = append(p, pre{guard: fmt.Sprintf("(decide (0 ≤ %s))", n.s), msg: "makeslice: len out of range: " + printed(c.fset, v)})
					return exprOut{s: fmt.Sprintf("(List.replicate %s.toNat ([] : %s))", n.s, elemOf(lt)), ty: lt, pre: p}
				}
				if c.leanType(c.info.Types[v.Args[0]].Type, v) == tBytes {
					n := c.expr(v.Args[1])
					p := append([]pre{}, n.pre...)
					p = append(p, pre{guard: fmt.Sprintf("(decide (0 ≤ %s))", n.s), msg: "makeslice: len out of range: " + printed(c.fset, v)})
					return exprOut{s: fmt.Sprintf("(List.replicate %s.toNat (0 : UInt8))", n.s), ty: tBytes, pre: p}
				}
			}
			c.bad(v, "make")
		case "len":
			if _, isBuiltin := c.info.Uses[id].(*types.Builtin); isBuiltin {
				x := c.expr(v.Args[0])
				if !strings.HasPrefix(string(x.ty), "List ") {
					c.bad(v, "len of %s", x.ty)
				}
				return exprOut{s: "(Kit.GoSem.lenI " + x.s + ")", ty: tInt, pre: x.pre}
			}
		}
		// call to another translated function
		if ex, ok := c.t.Externs[id.Name]; ok {
			if len(ex.Effects) > 0 {
				c.bad(v, "extern %s has effects: only allowed as a statement or as the whole right-hand side of an assignment", id.Name)
			}
			return c.externValue(ex, v)
		}
		if sig, ok := c.known[id.Name]; ok {
			var args []string
			var p []pre
			for _, en := range sig.extra {
				found := false
				for _, q := range c.extraParams {
					if strings.TrimSpace(strings.SplitN(strings.TrimPrefix(q, "("), ":", 2)[0]) == en {
						found = true
					}
				}
				if !found {
					c.bad(v, "callee %s needs the extern parameter %s, which this function does not have", id.Name, en)
				}
				args = append(args, en)
			}
			for i, a := range v.Args {
				if sig.variadic && i >= len(sig.params)-1 {
					if v.Ellipsis.IsValid() {
						x := c.expr(a)
						p = append(p, x.pre...)
						args = append(args, x.s)
					} else {
						var els []string
						for _, b := range v.Args[i:] {
							x := c.expr(b)
							p = append(p, x.pre...)
							els = append(els, x.s)
						}
						args = append(args, "["+strings.Join(els, ", ")+"]")
					}
					break
				}
				if i < len(sig.params) && sig.params[i].skip {
					continue
				}
				if i < len(sig.params) && sig.params[i].fields != nil {
					aid, isID := a.(*ast.Ident)
					if !isID {
						c.bad(a, "struct argument that is not a variable")
					}
					for _, f := range sig.params[i].fields {
						fv, ok := c.flat[aid.Name+"."+f]
						if !ok {
							c.bad(a, "field %s of struct argument %s is not available in the caller", f, aid.Name)
						}
						args = append(args, fv.name)
					}
					continue
				}
				x := c.expr(a)
				p = append(p, x.pre...)
				args = append(args, x.s)
			}
			callee := sig.lean
			if sig.needFuel {
				c.needFuel = true
				callee += " fuel"
			}
			c.tmp++
			nm := fmt.Sprintf("r%d", c.tmp)
			p = append(p, pre{bindName: nm, bindRes: "(" + callee + " " + strings.Join(args, " ") + ")", bindTy: sig.resultTy})
			return exprOut{s: nm, ty: sig.resultTy, pre: p}
		}
	}
	// errors.New(<anything>): a non-nil error whose text is not modelled (its argument is a string
	// expression, which cannot panic)
	if sel, ok := v.Fun.(*ast.SelectorExpr); ok && printed(c.fset, sel) == "errors.New" {
		return exprOut{s: `(some "errors.New" : Kit.GoSem.Err)`, ty: tErr}
	}
	// fmt.Errorf(...): likewise (its %w operand is not tracked)
	if sel, ok := v.Fun.(*ast.SelectorExpr); ok && printed(c.fset, sel) == "fmt.Errorf" {
		return exprOut{s: `(some "fmt.Errorf" : Kit.GoSem.Err)`, ty: tErr}
	}
	// externs
	if sel, ok := v.Fun.(*ast.SelectorExpr); ok {
		key := printed(c.fset, sel)
		if ex, ok := c.lookupExtern(sel); ok {
			var args []string
			var p []pre
			for _, a := range v.Args {
				x := c.expr(a)
				p = append(p, x.pre...)
				args = append(args, x.s)
			}
			recv := ""
			if id, ok := sel.X.(*ast.Ident); ok {
				if n, ok := c.names[c.info.Uses[id]]; ok {
					recv = n
				}
			}
			if len(ex.Effects) > 0 {
				c.bad(v, "extern %s has effects: only allowed as a statement or as the whole right-hand side of an assignment", key)
			}
			return exprOut{s: subst(ex.Lean, recv, args), ty: lty(ex.Type), pre: p}
		}
	}
	c.bad(v, "call %s", printed(c.fset, v))
	return exprOut{}
}

// ---------------------------------------------------------------------------------------------
// statements (continuation-passing: `k` renders what follows, given the current bindings)

type conts struct {
	next func() string // fall through
	brk  func() string // break (nil outside loops)
	cont func() string // continue
	ret  func(vals []string) string
	retRaw func(tuple string) string // re-raise a `return` that happened inside a nested loop
	jump map[string]func() string // goto <label> (labels at function-body level, jumped to from below)
}

func ind(s string) string { return "  " + strings.ReplaceAll(s, "\n", "\n  ") }

func (c *fnCtx) emitPre(ps []pre, body string) string {
	for i := len(ps) - 1; i >= 0; i-- {
		p := ps[i]
		if p.bindName != "" {
			body = fmt.Sprintf("match %s with\n| .panic msg__ => .panic msg__\n| .nofuel => .nofuel\n| .ok %s =>\n%s", p.bindRes, p.bindName, ind(body))
		} else {
			body = fmt.Sprintf("if !%s then .panic %q else\n%s", p.guard, p.msg, body)
		}
	}
	return body
}

func (c *fnCtx) lhsVar(e ast.Expr) (name string, ty lty, isBlank bool) {
	switch v := e.(type) {
	case *ast.Ident:
		if v.Name == "_" {
			return "_", "", true
		}
		obj := c.info.Uses[v]
		if obj == nil {
			obj = c.info.Defs[v]
		}
		if n, ok := c.names[obj]; ok {
			return n, c.leanType(obj.Type(), e), false
		}
	case *ast.SelectorExpr:
		if key, ok := c.flatKey(v); ok {
			if fv, ok := c.flat[key]; ok {
				c.mutatedFlat[key] = true
				return fv.name, fv.ty, false
			}
		}
	}
	c.bad(e, "assignment target %s", printed(c.fset, e))
	return
}

// assigned collects the Lean names of already-declared variables assigned anywhere in n.
func (c *fnCtx) assigned(n ast.Node, out map[string]lty) {
	if n == nil {
		return
	}
	ast.Inspect(n, func(x ast.Node) bool {
		switch s := x.(type) {
		case *ast.AssignStmt:
			for _, l := range s.Lhs {
				c.noteAssigned(l, s.Tok == token.DEFINE, out)
			}
			// effects of extern calls on ghosts
			for _, r := range s.Rhs {
				c.noteEffects(r, out)
			}
		case *ast.IncDecStmt:
			c.noteAssigned(s.X, false, out)
		case *ast.ExprStmt:
			c.noteEffects(s.X, out)
			if call, ok := s.X.(*ast.CallExpr); ok {
				if id, ok := call.Fun.(*ast.Ident); ok && id.Name == "copy" && len(call.Args) == 2 {
					if se, isSlice := call.Args[0].(*ast.SliceExpr); isSlice {
						c.noteAssigned(se.X, false, out)
					} else if base, _, isIdx := c.indexTarget(call.Args[0]); isIdx {
						c.noteAssigned(base, false, out)
					} else {
						c.noteAssigned(call.Args[0], false, out)
					}
				}
			}
		}
		if st, ok := x.(ast.Stmt); ok {
			if effs, ok := c.t.StmtEffects[printed(c.fset, st)]; ok {
				for _, ef := range effs {
					nm := strings.TrimSpace(strings.SplitN(ef, ":=", 2)[0])
					for _, g := range c.env {
						if g.name == nm {
							out[nm] = g.ty
						}
					}
				}
			}
		}
		return true
	})
}

func (c *fnCtx) noteEffects(e ast.Expr, out map[string]lty) {
	if ex, call, ok := c.externOf(e); ok {
		for _, ef := range ex.Effects {
			nm := strings.TrimSpace(strings.SplitN(ef, ":=", 2)[0])
			if strings.HasPrefix(nm, "%") {
				var k int
				fmt.Sscanf(nm, "%%%d", &k)
				if k >= 1 && k <= len(call.Args) {
					c.noteAssigned(call.Args[k-1], false, out)
				}
				continue
			}
			for _, g := range c.env {
				if g.name == nm {
					out[nm] = g.ty
				}
			}
		}
		return
	}
	if call, ok := e.(*ast.CallExpr); ok {
		if sel, ok := call.Fun.(*ast.SelectorExpr); ok {
			if ex, ok := c.lookupExtern(sel); ok {
				for _, ef := range ex.Effects {
					nm := strings.TrimSpace(strings.SplitN(ef, ":=", 2)[0])
					for _, g := range c.env {
						if g.name == nm {
							out[nm] = g.ty
						}
					}
				}
			}
		}
	}
}

func (c *fnCtx) noteAssigned(l ast.Expr, define bool, out map[string]lty) {
	if base, _, ok := c.indexTarget(l); ok {
		l = base
	}
	switch v := l.(type) {
	case *ast.Ident:
		if v.Name == "_" {
			return
		}
		if define {
			if _, isNew := c.info.Defs[v]; isNew && c.info.Defs[v] != nil {
				return // a new variable of an inner scope
			}
		}
		obj := c.info.Uses[v]
		if obj == nil {
			obj = c.info.Defs[v]
		}
		if n, ok := c.names[obj]; ok {
			out[n] = c.leanType(obj.Type(), l)
		}
	case *ast.SelectorExpr:
		if key, ok := c.flatKey(v); ok {
			if fv, ok := c.flat[key]; ok {
				c.mutatedFlat[key] = true
				out[fv.name] = fv.ty
			}
		}
	}
}

// inScope filters a set of assigned names down to those declared at this point, in env order.
func (c *fnCtx) inScope(m map[string]lty) []variable {
	var out []variable
	for _, v := range c.env {
		if _, ok := m[v.name]; ok {
			out = append(out, v)
		}
	}
	return out
}

func tupleOf(vs []variable) (pat string, ty string) {
	if len(vs) == 0 {
		return "()", "Unit"
	}
	var ns, ts []string
	for _, v := range vs {
		ns = append(ns, v.name)
		ts = append(ts, string(v.ty))
	}
	if len(vs) == 1 {
		return ns[0], ts[0]
	}
	return "(" + strings.Join(ns, ", ") + ")", strings.Join(ts, " × ")
}

func (c *fnCtx) stmts(list []ast.Stmt, k conts) string {
	if len(list) == 0 {
		return k.next()
	}
	if ls, ok := list[0].(*ast.LabeledStmt); ok {
		return c.labelled(ls, list[1:], k)
	}
	rest := func() string { return c.stmts(list[1:], k) }
	return c.stmt(list[0], conts{next: rest, brk: k.brk, cont: k.cont, ret: k.ret, retRaw: k.retRaw, jump: k.jump})
}

// labelled translates `L: s; rest…` (the label's region runs to the end of the enclosing block,
// which must be the function body) into a fuel-indexed definition; `goto L` from inside the
// region — also from inside its loops — re-enters it with the current values of the variables.
func (c *fnCtx) labelled(ls *ast.LabeledStmt, rest []ast.Stmt, k conts) string {
	label := ls.Label.Name
	c.needFuel = true
	name := fmt.Sprintf("%s_%s", c.leanName, label)
	all := append([]variable{}, c.env...)
	var params, args []string
	for _, p := range c.extraParams {
		params = append(params, p)
		if !strings.HasPrefix(p, "{") {
			args = append(args, strings.TrimSpace(strings.SplitN(strings.TrimPrefix(p, "("), ":", 2)[0]))
		}
	}
	for _, vr := range all {
		params = append(params, fmt.Sprintf("(%s : %s)", vr.name, vr.ty))
		args = append(args, vr.name)
	}
	enter := func() string { return fmt.Sprintf("%s fuel %s", name, strings.Join(args, " ")) }
	jump := map[string]func() string{}
	for l, f := range k.jump {
		jump[l] = f
	}
	jump[label] = enter
	region := append([]ast.Stmt{ls.Stmt}, rest...)
	body := c.stmts(region, conts{next: k.next, brk: k.brk, cont: k.cont, ret: k.ret, retRaw: k.retRaw, jump: jump})
	c.env = append([]variable{}, all...)
	def := fmt.Sprintf("def %s (fuel : Nat) %s : Kit.GoSem.Res (%s) :=\n  match fuel with\n  | 0 => .nofuel\n  | fuel + 1 =>\n%s\n",
		name, strings.Join(params, " "), c.resultTy, ind(ind(body)))
	c.loops = append(c.loops, def)
	return enter()
}

func (c *fnCtx) block(b *ast.BlockStmt, k conts) string {
	envLen := len(c.env)
	inner := k
	inner.next = func() string {
		// leaving the block: variables declared inside go out of scope
		saved := c.env
		c.env = c.env[:envLen]
		s := k.next()
		c.env = saved
		return s
	}
	if k.brk != nil {
		inner.brk = func() string { saved := c.env; c.env = c.env[:envLen]; s := k.brk(); c.env = saved; return s }
		inner.cont = func() string { saved := c.env; c.env = c.env[:envLen]; s := k.cont(); c.env = saved; return s }
	}
	s := c.stmts(b.List, inner)
	c.env = c.env[:envLen]
	return s
}

// join wraps `rest` into a local continuation over the variables in `mod`, returning the Lean
// prefix that defines it and the call text.
func (c *fnCtx) join(mod []variable, rest func() string) (def string, callK func() string) {
	c.tmp++
	kn := fmt.Sprintf("k%d", c.tmp)
	var binders []string
	var args []string
	for _, v := range mod {
		binders = append(binders, fmt.Sprintf("(%s : %s)", v.name, v.ty))
		args = append(args, v.name)
	}
	if len(mod) == 0 {
		binders = []string{"(_ : Unit)"}
		args = []string{"()"}
	}
	def = fmt.Sprintf("let %s := fun %s =>\n%s\n", kn, strings.Join(binders, " "), ind(rest()))
	return def, func() string { return kn + " " + strings.Join(args, " ") }
}

func (c *fnCtx) assignOne(name string, ty lty, rhs exprOut, n ast.Node, body func() string) string {
	if rhs.ty != ty {
		c.bad(n, "assignment of %s to a variable of type %s", rhs.ty, ty)
	}
	return c.emitPre(rhs.pre, fmt.Sprintf("let %s : %s := %s\n%s", name, ty, rhs.s, body()))
}

func (c *fnCtx) effects(ex extern, val exprOut, body string) string {
	for i := len(ex.Effects) - 1; i >= 0; i-- {
		parts := strings.SplitN(ex.Effects[i], ":=", 2)
		body = fmt.Sprintf("let %s := %s\n%s", subst(strings.TrimSpace(parts[0]), val.exRecv, val.exArgs), subst(strings.TrimSpace(parts[1]), val.exRecv, val.exArgs), body)
	}
	return body
}

func (c *fnCtx) externOf(e ast.Expr) (extern, *ast.CallExpr, bool) {
	if call, ok := e.(*ast.CallExpr); ok {
		if id, ok := call.Fun.(*ast.Ident); ok {
			if ex, ok := c.t.Externs[id.Name]; ok {
				return ex, call, true
			}
		}
		if sel, ok := call.Fun.(*ast.SelectorExpr); ok {
			if ex, ok := c.lookupExtern(sel); ok {
				return ex, call, true
			}
		}
	}
	return extern{}, nil, false
}

// lookupExtern finds the extern for a call `x.M(...)`: by the printed selector, or by the type of
// the receiver, "(time.Time).M".
func (c *fnCtx) lookupExtern(sel *ast.SelectorExpr) (extern, bool) {
	if ex, ok := c.t.Externs[printed(c.fset, sel)]; ok {
		return ex, true
	}
	if tv, ok := c.info.Types[sel.X]; ok && tv.Type != nil {
		if ex, ok := c.t.Externs["("+tv.Type.String()+")."+sel.Sel.Name]; ok {
			return ex, true
		}
	}
	return extern{}, false
}

func (c *fnCtx) externValue(ex extern, call *ast.CallExpr) exprOut {
	var args []string
	var p []pre
	for _, a := range call.Args {
		if id, ok := a.(*ast.Ident); ok && c.isAbstract(id.Name) {
			args = append(args, "()")
			continue
		}
		x := c.expr(a)
		p = append(p, x.pre...)
		args = append(args, x.s)
	}
	recv := ""
	if sel, ok := call.Fun.(*ast.SelectorExpr); ok {
		if id, ok := sel.X.(*ast.Ident); ok {
			if n, ok := c.names[c.info.Uses[id]]; ok {
				recv = n
			}
		}
	}
	return exprOut{s: subst(ex.Lean, recv, args), ty: lty(ex.Type), pre: p, exRecv: recv, exArgs: args}
}

func (c *fnCtx) stmt(s ast.Stmt, k conts) string {
	if effs, ok := c.t.StmtEffects[printed(c.fset, s)]; ok {
		body := k.next()
		for i := len(effs) - 1; i >= 0; i-- {
			parts := strings.SplitN(effs[i], ":=", 2)
			body = fmt.Sprintf("let %s := %s\n%s", strings.TrimSpace(parts[0]), strings.TrimSpace(parts[1]), body)
		}
		return body
	}
	for _, ig := range c.t.Ignore {
		ps := printed(c.fset, s)
		if ps == ig || (strings.HasSuffix(ig, "…") && strings.HasPrefix(ps, strings.TrimSuffix(ig, "…"))) {
			return k.next()
		}
	}
	switch v := s.(type) {
	case *ast.EmptyStmt:
		return k.next()
	case *ast.BlockStmt:
		return c.block(v, k)
	case *ast.DeclStmt:
		gd := v.Decl.(*ast.GenDecl)
		if gd.Tok != token.VAR {
			c.bad(s, "declaration")
		}
		var lines []func(body func() string) string
		for _, sp := range gd.Specs {
			vs := sp.(*ast.ValueSpec)
			for i, id := range vs.Names {
				id, i := id, i
				obj := c.info.Defs[id]
				ty := c.leanType(obj.Type(), id)
				var rhs exprOut
				if len(vs.Values) > 0 {
					rhs = c.expr(vs.Values[i])
				} else {
					rhs = exprOut{s: zero(ty), ty: ty}
				}
				lines = append(lines, func(body func() string) string {
					vr := c.declare(obj, ty)
					return c.assignOne(vr.name, ty, rhs, id, body)
				})
			}
		}
		var build func(i int) string
		build = func(i int) string {
			if i == len(lines) {
				return k.next()
			}
			return lines[i](func() string { return build(i + 1) })
		}
		return build(0)
	case *ast.IncDecStmt:
		name, ty, _ := c.lhsVar(v.X)
		op := "+"
		if v.Tok == token.DEC {
			op = "-"
		}
		var rhs string
		switch ty {
		case tInt:
			rhs = fmt.Sprintf("Kit.GoSem.wrapI64 (%s %s 1)", name, op)
		case tU64:
			rhs = fmt.Sprintf("%s %s 1#64", name, op)
		case tU32:
			rhs = fmt.Sprintf("%s %s 1#32", name, op)
		default:
			c.bad(s, "++/-- on %s", ty)
		}
		return fmt.Sprintf("let %s : %s := %s\n%s", name, ty, rhs, k.next())
	case *ast.AssignStmt:
		return c.assign(v, k)
	case *ast.ExprStmt:
		if call, ok := v.X.(*ast.CallExpr); ok {
			if id, ok := call.Fun.(*ast.Ident); ok && id.Name == "copy" && len(call.Args) == 2 {
				if _, isBuiltin := c.info.Uses[id].(*types.Builtin); isBuiltin {
					// copy(dst[lo:hi], src): write into a window of the variable
					if se, isSlice := call.Args[0].(*ast.SliceExpr); isSlice && !se.Slice3 {
						name, ty, _ := c.lhsVar(se.X)
						src := c.expr(call.Args[1])
						if ty != tBytes || src.ty != tBytes {
							c.bad(s, "copy of %s into a window of %s", src.ty, ty)
						}
						ps := append([]pre{}, src.pre...)
						lo, hi := "(0 : Int)", fmt.Sprintf("(Kit.GoSem.lenI %s)", name)
						if se.Low != nil {
							l := c.expr(se.Low)
							ps = append(ps, l.pre...)
							lo = l.s
						}
						if se.High != nil {
							h := c.expr(se.High)
							ps = append(ps, h.pre...)
							hi = h.s
						}
						ps = append(ps, pre{guard: fmt.Sprintf("(decide (0 ≤ %s ∧ %s ≤ %s ∧ %s ≤ Kit.GoSem.lenI %s))", lo, lo, hi, hi, name), msg: "slice bounds out of range: " + printed(c.fset, se)})
						return c.emitPre(ps, fmt.Sprintf("let %s : %s := Kit.GoSem.writeAt %s %s %s %s\n%s", name, ty, name, lo, hi, src.s, k.next()))
					}
					// copy(dst[i], src): fill one element of a list of byte slices
					if base, idx, isIdx := c.indexTarget(call.Args[0]); isIdx {
						name, ty, _ := c.lhsVar(base)
						i := c.expr(idx)
						src := c.expr(call.Args[1])
						if elemOf(ty) != tBytes || src.ty != tBytes {
							c.bad(s, "copy of %s into an element of %s", src.ty, ty)
						}
						ps := append(append([]pre{}, i.pre...), src.pre...)
						ps = append(ps, pre{guard: fmt.Sprintf("(decide (0 ≤ %s ∧ %s < Kit.GoSem.lenI %s))", i.s, i.s, name), msg: "index out of range: " + printed(c.fset, call.Args[0])})
						return c.emitPre(ps, fmt.Sprintf("let %s : %s := Kit.GoSem.setAt %s %s (Kit.GoSem.fill (Kit.GoSem.idxG %s %s) %s)\n%s", name, ty, name, i.s, name, i.s, src.s, k.next()))
					}
					// copy(dst, src) into a whole list-typed variable
					name, ty, _ := c.lhsVar(call.Args[0])
					src := c.expr(call.Args[1])
					if ty != tBytes || src.ty != tBytes {
						c.bad(s, "copy of %s into %s", src.ty, ty)
					}
					return c.emitPre(src.pre, fmt.Sprintf("let %s : %s := Kit.GoSem.fill %s %s\n%s", name, ty, name, src.s, k.next()))
				}
			}
		}
		if ex, call, ok := c.externOf(v.X); ok {
			val := c.externValue(ex, call)
			return c.emitPre(val.pre, c.effects(ex, val, k.next()))
		}
		if call, ok := v.X.(*ast.CallExpr); ok {
			if id, ok := call.Fun.(*ast.Ident); ok && id.Name == "panic" {
				return fmt.Sprintf(".panic %q", printed(c.fset, call))
			}
		}
		c.bad(s, "expression statement %s", printed(c.fset, v.X))
	case *ast.ReturnStmt:
		if len(v.Results) == 0 {
			var vals []string
			for _, r := range c.results {
				vals = append(vals, r.name)
			}
			return k.ret(vals)
		}
		var vals []string
		var ps []pre
		var retEffects []func(string) string
		if len(v.Results) == 1 && len(c.results) > 1 {
			c.bad(s, "return of a multi-value call")
		}
		for i, r := range v.Results {
			// struct literal result: its fields in order
			_, rewritten := c.t.Rewrites[printed(c.fset, r)]
			if cl, ok := r.(*ast.CompositeLit); ok && !rewritten {
				if st, ok := c.info.Types[r].Type.Underlying().(*types.Struct); ok {
					fv := map[string]exprOut{}
					for _, el := range cl.Elts {
						kv, ok := el.(*ast.KeyValueExpr)
						if !ok {
							c.bad(r, "unkeyed struct literal")
						}
						fv[kv.Key.(*ast.Ident).Name] = c.expr(kv.Value)
					}
					for j := 0; j < st.NumFields(); j++ {
						x, ok := fv[st.Field(j).Name()]
						if !ok {
							x = exprOut{s: zero(c.leanType(st.Field(j).Type(), r)), ty: c.leanType(st.Field(j).Type(), r)}
						}
						ps = append(ps, x.pre...)
						vals = append(vals, x.s)
					}
					continue
				}
			}
			if ex, call, ok := c.externOf(r); ok {
				x := c.externValue(ex, call)
				ps = append(ps, x.pre...)
				c.tmp++
				nm := fmt.Sprintf("rv%d", c.tmp)
				retEffects = append(retEffects, func(body string) string {
					return fmt.Sprintf("let %s : %s := %s\n%s", nm, x.ty, x.s, c.effects(ex, x, body))
				})
				vals = append(vals, nm)
				continue
			}
			x := c.expr(r)
			if id, ok := r.(*ast.Ident); ok && id.Name == "nil" && i < len(c.resTys) && len(v.Results) == len(c.resTys) {
				x = exprOut{s: zero(c.resTys[i]), ty: c.resTys[i]}
			}
			if i < len(c.results) && len(v.Results) == len(c.results) && x.ty != c.results[i].ty {
				c.bad(r, "result %d has type %s, expected %s", i, x.ty, c.results[i].ty)
			}
			ps = append(ps, x.pre...)
			vals = append(vals, x.s)
		}
		body := k.ret(vals)
		for i := len(retEffects) - 1; i >= 0; i-- {
			body = retEffects[i](body)
		}
		return c.emitPre(ps, body)
	case *ast.BranchStmt:
		if v.Label != nil && v.Tok == token.GOTO {
			j, ok := k.jump[v.Label.Name]
			if !ok {
				c.bad(s, "goto %s: only backward jumps to a label at function-body level are supported", v.Label.Name)
			}
			return j()
		}
		if v.Label != nil {
			c.bad(s, "labelled branch")
		}
		switch v.Tok {
		case token.BREAK:
			if k.brk == nil {
				c.bad(s, "break outside a loop")
			}
			return k.brk()
		case token.CONTINUE:
			if k.cont == nil {
				c.bad(s, "continue outside a loop")
			}
			return k.cont()
		case token.GOTO:
			c.bad(s, "goto without a label")
		}
		c.bad(s, "branch %s", v.Tok)
	case *ast.IfStmt:
		return c.ifStmt(v, k)
	case *ast.SwitchStmt:
		return c.switchStmt(v, k)
	case *ast.ForStmt:
		return c.forStmt(v, k)
	case *ast.RangeStmt:
		return c.rangeStmt(v, k)
	}
	c.bad(s, "statement %T", s)
	return ""
}

// indexTarget recognises `x[i]` / `(*x)[i]` on the left of an assignment.
func (c *fnCtx) indexTarget(e ast.Expr) (base ast.Expr, idx ast.Expr, ok bool) {
	ie, isIdx := e.(*ast.IndexExpr)
	if !isIdx {
		return nil, nil, false
	}
	b := ie.X
	for {
		if p, isP := b.(*ast.ParenExpr); isP {
			b = p.X
			continue
		}
		if st, isS := b.(*ast.StarExpr); isS {
			b = st.X
			continue
		}
		break
	}
	if _, isID := b.(*ast.Ident); !isID {
		return nil, nil, false
	}
	return b, ie.Index, true
}

func (c *fnCtx) assign(v *ast.AssignStmt, k conts) string {
	// x[i] = e on a list-typed variable
	if v.Tok == token.ASSIGN && len(v.Lhs) == 1 && len(v.Rhs) == 1 {
		if base, idx, ok := c.indexTarget(v.Lhs[0]); ok {
			name, ty, _ := c.lhsVar(base)
			if !strings.HasPrefix(string(ty), "List ") {
				c.bad(v, "indexed assignment into %s", ty)
			}
			i := c.expr(idx)
			r := c.expr(v.Rhs[0])
			ps := append(append([]pre{}, i.pre...), r.pre...)
			ps = append(ps, pre{guard: fmt.Sprintf("(decide (0 ≤ %s ∧ %s < Kit.GoSem.lenI %s))", i.s, i.s, name), msg: "index out of range: " + printed(c.fset, v.Lhs[0])})
			return c.emitPre(ps, fmt.Sprintf("let %s : %s := Kit.GoSem.setAt %s %s %s\n%s", name, ty, name, i.s, r.s, k.next()))
		}
	}
	// op-assign
	if v.Tok != token.ASSIGN && v.Tok != token.DEFINE {
		ops := map[token.Token]token.Token{token.ADD_ASSIGN: token.ADD, token.SUB_ASSIGN: token.SUB, token.MUL_ASSIGN: token.MUL, token.QUO_ASSIGN: token.QUO,
			token.REM_ASSIGN: token.REM, token.AND_ASSIGN: token.AND, token.OR_ASSIGN: token.OR, token.XOR_ASSIGN: token.XOR, token.SHL_ASSIGN: token.SHL, token.SHR_ASSIGN: token.SHR, token.AND_NOT_ASSIGN: token.AND_NOT}
		op, ok := ops[v.Tok]
		if !ok || len(v.Lhs) != 1 {
			c.bad(v, "assignment operator %s", v.Tok)
		}
		be := &ast.BinaryExpr{X: v.Lhs[0], Op: op, Y: v.Rhs[0], OpPos: v.TokPos}
		// type information for the synthetic node: evaluate operands directly
		x := c.expr(v.Lhs[0])
		y := c.expr(v.Rhs[0])
		_ = be
		name, ty, _ := c.lhsVar(v.Lhs[0])
		r := c.binaryOf(op, x, y, v)
		return c.assignOne(name, ty, r, v, k.next)
	}
	// multi-value from one extern call
	if len(v.Lhs) > 1 && len(v.Rhs) == 1 {
		ex, call, ok := c.externOf(v.Rhs[0])
		var val exprOut
		if rw, isRw := c.t.Rewrites[printed(c.fset, v.Rhs[0])]; isRw {
			val = exprOut{s: rw[0], ty: lty(rw[1])}
		} else if !ok {
			c.bad(v, "multi-value assignment from %s", printed(c.fset, v.Rhs[0]))
		} else {
			val = c.externValue(ex, call)
		}
		var pats []string
		var decls []func()
		for _, l := range v.Lhs {
			l := l
			if id, ok := l.(*ast.Ident); ok && v.Tok == token.DEFINE && c.info.Defs[id] != nil {
				obj := c.info.Defs[id]
				if id.Name == "_" {
					pats = append(pats, "_")
					continue
				}
				nm := c.fresh(id.Name)
				pats = append(pats, nm)
				decls = append(decls, func() { c.names[obj] = nm; c.env = append(c.env, variable{nm, c.leanType(obj.Type(), id)}) })
				continue
			}
			name, _, blank := c.lhsVar(l)
			if blank {
				pats = append(pats, "_")
			} else {
				pats = append(pats, name)
			}
		}
		for _, d := range decls {
			d()
		}
		body := c.effects(ex, val, k.next())
		return c.emitPre(val.pre, fmt.Sprintf("match %s with\n| (%s) =>\n%s", val.s, strings.Join(pats, ", "), ind(body)))
	}
	if len(v.Lhs) != len(v.Rhs) {
		c.bad(v, "assignment shape")
	}
	// evaluate all right-hand sides first (Go semantics for tuple assignment)
	type one struct {
		name string
		ty   lty
		rhs  exprOut
		ex   *extern
		decl func()
	}
	var items []one
	for i := range v.Lhs {
		var it one
		if ex, call, ok := c.externOf(v.Rhs[i]); ok {
			exc := ex
			it.ex = &exc
			it.rhs = c.externValue(ex, call)
		} else {
			it.rhs = c.expr(v.Rhs[i])
		}
		l := v.Lhs[i]
		if id, ok := l.(*ast.Ident); ok && v.Tok == token.DEFINE && c.info.Defs[id] != nil && id.Name != "_" {
			obj := c.info.Defs[id]
			ty := c.leanType(obj.Type(), id)
			nm := c.fresh(id.Name)
			it.name, it.ty = nm, ty
			it.decl = func() { c.names[obj] = nm; c.env = append(c.env, variable{nm, ty}) }
		} else {
			name, ty, blank := c.lhsVar(l)
			if blank {
				name, ty = "_", it.rhs.ty
			}
			it.name, it.ty = name, ty
		}
		items = append(items, it)
	}
	if len(items) == 1 {
		it := items[0]
		body := func() string {
			if it.decl != nil {
				it.decl()
			}
			s := k.next()
			if it.ex != nil {
				s = c.effects(*it.ex, it.rhs, s)
			}
			return s
		}
		return c.assignOne(it.name, it.ty, it.rhs, v, body)
	}
	// parallel assignment: temporaries first
	var ps []pre
	var lines []string
	for i, it := range items {
		ps = append(ps, it.rhs.pre...)
		lines = append(lines, fmt.Sprintf("let tmp%d_ : %s := %s", i, it.ty, it.rhs.s))
	}
	for i, it := range items {
		lines = append(lines, fmt.Sprintf("let %s : %s := tmp%d_", it.name, it.ty, i))
		if it.decl != nil {
			it.decl()
		}
	}
	return c.emitPre(ps, strings.Join(lines, "\n")+"\n"+k.next())
}

// binaryOf applies a binary operator to translated operands (used for op-assignments).
func (c *fnCtx) binaryOf(op token.Token, x, y exprOut, n ast.Node) exprOut {
	p := append(append([]pre{}, x.pre...), y.pre...)
	if op == token.SHL || op == token.SHR {
		if x.ty != tU64 {
			c.bad(n, "shift of %s", x.ty)
		}
		cnt := y.s + ".toNat"
		if y.ty == tInt {
			p = append(p, pre{guard: fmt.Sprintf("(decide (0 ≤ %s))", y.s), msg: "negative shift amount"})
		} else if y.ty != tU64 {
			c.bad(n, "shift count of type %s", y.ty)
		}
		o := "<<<"
		if op == token.SHR {
			o = ">>>"
		}
		return exprOut{s: fmt.Sprintf("(%s %s %s)", x.s, o, cnt), ty: tU64, pre: p}
	}
	if x.ty != y.ty {
		c.bad(n, "operands of different types %s and %s", x.ty, y.ty)
	}
	switch x.ty {
	case tInt:
		switch op {
		case token.ADD, token.SUB, token.MUL:
			return exprOut{s: fmt.Sprintf("(Kit.GoSem.wrapI64 (%s %s %s))", x.s, op, y.s), ty: tInt, pre: p}
		case token.QUO:
			p = append(p, pre{guard: fmt.Sprintf("(%s != 0)", y.s), msg: "integer divide by zero"})
			return exprOut{s: fmt.Sprintf("(Kit.GoSem.divI64 %s %s)", x.s, y.s), ty: tInt, pre: p}
		case token.REM:
			p = append(p, pre{guard: fmt.Sprintf("(%s != 0)", y.s), msg: "integer divide by zero"})
			return exprOut{s: fmt.Sprintf("(Kit.GoSem.modI64 %s %s)", x.s, y.s), ty: tInt, pre: p}
		}
	case tU64, tU32:
		ops := map[token.Token]string{token.ADD: "+", token.SUB: "-", token.MUL: "*", token.AND: "&&&", token.OR: "|||", token.XOR: "^^^"}
		if o, ok := ops[op]; ok {
			return exprOut{s: fmt.Sprintf("(%s %s %s)", x.s, o, y.s), ty: x.ty, pre: p}
		}
	}
	c.bad(n, "operator %s on %s", op, x.ty)
	return exprOut{}
}

func (c *fnCtx) ifStmt(v *ast.IfStmt, k conts) string {
	envLen := len(c.env)
	wrapInit := func(body func() string) string { return body() }
	if v.Init != nil {
		init := v.Init
		wrapInit = func(body func() string) string {
			return c.stmt(init, conts{next: body, brk: k.brk, cont: k.cont, ret: k.ret, retRaw: k.retRaw, jump: k.jump})
		}
	}
	return wrapInit(func() string {
		cond := c.expr(v.Cond)
		if cond.ty != tBool {
			c.bad(v.Cond, "condition of type %s", cond.ty)
		}
		// variables of the enclosing scope assigned in either branch
		m := map[string]lty{}
		c.assigned(v.Body, m)
		if v.Else != nil {
			c.assigned(v.Else, m)
		}
		saved := c.env
		c.env = c.env[:min(len(c.env), max(envLen, 0))]
		c.env = saved
		outer := append([]variable{}, c.env...)
		mod := []variable{}
		for _, vr := range outer {
			if _, ok := m[vr.name]; ok {
				mod = append(mod, vr)
			}
		}
		def, callK := c.join(mod, func() string {
			sv := c.env
			c.env = append([]variable{}, outer...)
			s := k.next()
			c.env = sv
			return s
		})
		kk := conts{next: callK, brk: k.brk, cont: k.cont, ret: k.ret, retRaw: k.retRaw, jump: k.jump}
		thenS := c.block(v.Body, kk)
		var elseS string
		switch e := v.Else.(type) {
		case nil:
			elseS = callK()
		case *ast.BlockStmt:
			elseS = c.block(e, kk)
		case *ast.IfStmt:
			elseS = c.ifStmt(e, kk)
		}
		c.env = c.env[:envLen+(len(c.env)-len(c.env))]
		return c.emitPre(cond.pre, fmt.Sprintf("%sif %s then\n%s\nelse\n%s", def, cond.s, ind(thenS), ind(elseS)))
	})
}

func (c *fnCtx) switchStmt(v *ast.SwitchStmt, k conts) string {
	wrapInit := func(body func() string) string { return body() }
	if v.Init != nil {
		init := v.Init
		wrapInit = func(body func() string) string {
			return c.stmt(init, conts{next: body, brk: k.brk, cont: k.cont, ret: k.ret, retRaw: k.retRaw, jump: k.jump})
		}
	}
	return wrapInit(func() string {
		var tag *exprOut
		var ps []pre
		tagName := ""
		if v.Tag != nil {
			t := c.expr(v.Tag)
			tag = &t
			ps = append(ps, t.pre...)
			c.tmp++
			tagName = fmt.Sprintf("tag%d", c.tmp)
		}
		m := map[string]lty{}
		c.assigned(v.Body, m)
		outer := append([]variable{}, c.env...)
		mod := c.inScope(m)
		def, callK := c.join(mod, func() string {
			sv := c.env
			c.env = append([]variable{}, outer...)
			s := k.next()
			c.env = sv
			return s
		})
		// `break` inside a switch leaves the switch
		kk := conts{next: callK, brk: callK, cont: k.cont, ret: k.ret, retRaw: k.retRaw, jump: k.jump}
		var deflt *ast.CaseClause
		type arm struct {
			cond string
			body string
		}
		var arms []arm
		for _, st := range v.Body.List {
			cc := st.(*ast.CaseClause)
			for _, bs := range cc.Body {
				if br, ok := bs.(*ast.BranchStmt); ok && br.Tok == token.FALLTHROUGH {
					c.bad(bs, "fallthrough")
				}
			}
			if cc.List == nil {
				deflt = cc
				continue
			}
			var conds []string
			for _, e := range cc.List {
				x := c.expr(e)
				if len(x.pre) > 0 {
					c.bad(e, "case expression with a bound check")
				}
				if tag != nil {
					conds = append(conds, fmt.Sprintf("(%s == %s)", tagName, x.s))
				} else {
					conds = append(conds, x.s)
				}
			}
			envLen := len(c.env)
			body := c.stmts(cc.Body, kk)
			c.env = c.env[:envLen]
			arms = append(arms, arm{"(" + strings.Join(conds, " || ") + ")", body})
		}
		tail := callK()
		if deflt != nil {
			envLen := len(c.env)
			tail = c.stmts(deflt.Body, kk)
			c.env = c.env[:envLen]
		}
		out := tail
		for i := len(arms) - 1; i >= 0; i-- {
			out = fmt.Sprintf("if %s then\n%s\nelse\n%s", arms[i].cond, ind(arms[i].body), ind(out))
		}
		if tag != nil {
			out = fmt.Sprintf("let %s : %s := %s\n%s", tagName, tag.ty, tag.s, out)
		}
		return c.emitPre(ps, def+out)
	})
}

// rangeStmt translates `for i, x := range e {…}` (e a list or an int; e is evaluated once) as a
// counted loop over a hidden index.
func (c *fnCtx) rangeStmt(v *ast.RangeStmt, k conts) string {
	if v.Tok != token.DEFINE && (v.Key != nil || v.Value != nil) {
		c.bad(v, "range with assignment to existing variables")
	}
	envLen := len(c.env)
	x := c.expr(v.X)
	c.tmp++
	id := c.tmp
	rngName := fmt.Sprintf("rng%d_", id)
	lenName := fmt.Sprintf("len%d_", id)
	idxName := fmt.Sprintf("idx%d_", id)
	var head string
	isList := strings.HasPrefix(string(x.ty), "List ")
	if isList {
		head = fmt.Sprintf("let %s : %s := %s\nlet %s : Int := Kit.GoSem.lenI %s\n", rngName, x.ty, x.s, lenName, rngName)
		c.env = append(c.env, variable{rngName, x.ty})
	} else if x.ty == tInt {
		head = fmt.Sprintf("let %s : Int := %s\n", lenName, x.s)
	} else {
		c.bad(v, "range over %s", x.ty)
	}
	head += fmt.Sprintf("let %s : Int := (0 : Int)\n", idxName)
	c.env = append(c.env, variable{lenName, tInt}, variable{idxName, tInt})
	c.nloops++
	c.needFuel = true
	loopName := fmt.Sprintf("%s_loop%d", c.leanName, c.nloops)
	all := append([]variable{}, c.env...)
	m := map[string]lty{idxName: tInt}
	c.assigned(v.Body, m)
	carried := c.inScope(m)
	carriedPat, carriedTy := tupleOf(carried)
	var params, args []string
	for _, p := range c.extraParams {
		params = append(params, p)
		if !strings.HasPrefix(p, "{") {
			args = append(args, strings.TrimSpace(strings.SplitN(strings.Trim(p, "()"), ":", 2)[0]))
		}
	}
	for _, vr := range all {
		params = append(params, fmt.Sprintf("(%s : %s)", vr.name, vr.ty))
		args = append(args, vr.name)
	}
	recurse := func() string { return fmt.Sprintf("%s fuel %s", loopName, strings.Join(args, " ")) }
	exit := func() string { return fmt.Sprintf(".ok (.brk %s)", carriedPat) }
	post := func() string {
		return fmt.Sprintf("let %s : Int := %s + 1\n%s", idxName, idxName, recurse())
	}
	inner := conts{next: post, brk: exit, cont: post, ret: func(vals []string) string { return ".ok (.ret " + c.retTuple(c, vals) + ")" },
		retRaw: func(t string) string { return ".ok (.ret " + t + ")" }, jump: map[string]func() string{}}
	// per-iteration bindings of key and value
	binds := ""
	bodyEnv := len(c.env)
	if kid, ok := v.Key.(*ast.Ident); ok && kid.Name != "_" {
		vr := c.declare(c.info.Defs[kid], tInt)
		binds += fmt.Sprintf("let %s : Int := %s\n", vr.name, idxName)
	}
	if vid, ok := v.Value.(*ast.Ident); ok && vid.Name != "_" {
		if !isList {
			c.bad(v, "range value over an integer")
		}
		et := elemOf(x.ty)
		vr := c.declare(c.info.Defs[vid], et)
		getter := "Kit.GoSem.idxG"
		if x.ty == tBytes {
			getter = "Kit.GoSem.idx"
		}
		binds += fmt.Sprintf("let %s : %s := %s %s %s\n", vr.name, et, getter, rngName, idxName)
	}
	bodyS := fmt.Sprintf("if (decide (%s < %s)) then\n%s\nelse\n%s", idxName, lenName, ind(binds+c.block(v.Body, inner)), ind(exit()))
	c.env = c.env[:bodyEnv]
	def := fmt.Sprintf("def %s (fuel : Nat) %s : Kit.GoSem.Res (Kit.GoSem.LoopOut (%s) (%s)) :=\n  match fuel with\n  | 0 => .nofuel\n  | fuel + 1 =>\n%s\n",
		loopName, strings.Join(params, " "), c.resultTy, carriedTy, ind(ind(bodyS)))
	c.loops = append(c.loops, def)
	c.env = append([]variable{}, all[:envLen]...)
	after := k.next()
	reraise := ".ok ret__"
	if k.retRaw != nil {
		reraise = k.retRaw("ret__")
	}
	out := c.emitPre(x.pre, fmt.Sprintf("%smatch %s fuel %s with\n| .panic msg__ => .panic msg__\n| .nofuel => .nofuel\n| .ok (.ret ret__) => %s\n| .ok (.brk %s) =>\n%s",
		head, loopName, strings.Join(args, " "), reraise, carriedPat, ind(after)))
	c.env = c.env[:envLen]
	return out
}

func (c *fnCtx) forStmt(v *ast.ForStmt, k conts) string {
	envLen := len(c.env)
	wrapInit := func(body func() string) string { return body() }
	if v.Init != nil {
		init := v.Init
		wrapInit = func(body func() string) string {
			return c.stmt(init, conts{next: body, ret: k.ret, retRaw: k.retRaw, jump: k.jump})
		}
	}
	out := wrapInit(func() string {
		c.nloops++
		c.needFuel = true
		loopName := fmt.Sprintf("%s_loop%d", c.leanName, c.nloops)
		all := append([]variable{}, c.env...)
		m := map[string]lty{}
		c.assigned(v.Body, m)
		if v.Post != nil {
			c.assigned(v.Post, m)
		}
		carried := c.inScope(m)
		carriedPat, carriedTy := tupleOf(carried)
		var params, args []string
		for _, p := range c.extraParams {
			params = append(params, p)
			if !strings.HasPrefix(p, "{") {
				args = append(args, strings.TrimSpace(strings.SplitN(strings.Trim(p, "()"), ":", 2)[0]))
			}
		}
		for _, vr := range all {
			params = append(params, fmt.Sprintf("(%s : %s)", vr.name, vr.ty))
			args = append(args, vr.name)
		}
		recurse := func() string { return fmt.Sprintf("%s fuel %s", loopName, strings.Join(args, " ")) }
		exit := func() string { return fmt.Sprintf(".ok (.brk %s)", carriedPat) }
		// `goto L` inside the loop: hand the carried variables back and let the call site jump
		gotoLabel := ""
		ast.Inspect(v.Body, func(n ast.Node) bool {
			if b, ok := n.(*ast.BranchStmt); ok && b.Tok == token.GOTO && b.Label != nil {
				if gotoLabel != "" && gotoLabel != b.Label.Name {
					c.bad(b, "gotos to two labels inside one loop")
				}
				gotoLabel = b.Label.Name
			}
			return true
		})
		outTy := "Kit.GoSem.LoopOut"
		innerJump := map[string]func() string{}
		if gotoLabel != "" {
			outTy = "Kit.GoSem.LoopOutJ"
			innerJump[gotoLabel] = func() string { return fmt.Sprintf(".ok (.jmp %s)", carriedPat) }
		}
		post := func() string {
			if v.Post == nil {
				return recurse()
			}
			return c.stmt(v.Post, conts{next: recurse, ret: k.ret, retRaw: k.retRaw, jump: innerJump})
		}
		inner := conts{next: post, brk: exit, cont: post, ret: func(vals []string) string { return ".ok (.ret " + c.retTuple(c, vals) + ")" },
			retRaw: func(t string) string { return ".ok (.ret " + t + ")" }, jump: innerJump}
		var bodyS string
		if v.Cond != nil {
			cond := c.expr(v.Cond)
			bodyS = c.emitPre(cond.pre, fmt.Sprintf("if %s then\n%s\nelse\n%s", cond.s, ind(c.block(v.Body, inner)), ind(exit())))
		} else {
			bodyS = c.block(v.Body, inner)
		}
		c.env = append([]variable{}, all...)
		def := fmt.Sprintf("def %s (fuel : Nat) %s : Kit.GoSem.Res (%s (%s) (%s)) :=\n  match fuel with\n  | 0 => .nofuel\n  | fuel + 1 =>\n%s\n",
			loopName, strings.Join(params, " "), outTy, c.resultTy, carriedTy, ind(ind(bodyS)))
		c.loops = append(c.loops, def)
		after := k.next()
		jmpArm := ""
		if gotoLabel != "" {
			j, ok := k.jump[gotoLabel]
			if !ok {
				c.bad(v, "goto %s out of a loop that is not inside the label's region", gotoLabel)
			}
			jmpArm = fmt.Sprintf("| .ok (.jmp %s) =>\n%s\n", carriedPat, ind(j()))
		}
		reraise := ".ok ret__"
		if k.retRaw != nil {
			reraise = k.retRaw("ret__")
		}
		return fmt.Sprintf("match %s fuel %s with\n| .panic msg__ => .panic msg__\n| .nofuel => .nofuel\n| .ok (.ret ret__) => %s\n%s| .ok (.brk %s) =>\n%s",
			loopName, strings.Join(args, " "), reraise, jmpArm, carriedPat, ind(after))
	})
	c.env = c.env[:envLen]
	return out
}

// ---------------------------------------------------------------------------------------------
// functions

func findFunc(files []*ast.File, name string) *ast.FuncDecl {
	recv, fn := "", name
	if i := strings.Index(name, "."); i >= 0 {
		recv, fn = name[:i], name[i+1:]
	}
	for _, f := range files {
		for _, d := range f.Decls {
			fd, ok := d.(*ast.FuncDecl)
			if !ok || fd.Name.Name != fn {
				continue
			}
			if recv == "" && fd.Recv == nil {
				return fd
			}
			if recv != "" && fd.Recv != nil {
				t := fd.Recv.List[0].Type
				if st, ok := t.(*ast.StarExpr); ok {
					t = st.X
				}
				if ix, ok := t.(*ast.IndexExpr); ok {
					t = ix.X
				}
				if id, ok := t.(*ast.Ident); ok && id.Name == recv {
					return fd
				}
			}
		}
	}
	return nil
}

// usesField reports whether the function body mentions x.f (or passes x whole to a call).
func usesField(fd *ast.FuncDecl, x, f string) bool {
	found := false
	ast.Inspect(fd.Body, func(n ast.Node) bool {
		switch v := n.(type) {
		case *ast.SelectorExpr:
			if id, ok := v.X.(*ast.Ident); ok && id.Name == x && v.Sel.Name == f {
				found = true
			}
		case *ast.CallExpr:
			for _, a := range v.Args {
				if id, ok := a.(*ast.Ident); ok && id.Name == x {
					found = true
				}
			}
		}
		return !found
	})
	return found
}

func isEllipsis(e ast.Expr) bool { _, ok := e.(*ast.Ellipsis); return ok }

func structOf(t types.Type) *types.Struct {
	if p, ok := t.Underlying().(*types.Pointer); ok {
		t = p.Elem()
	}
	st, _ := t.Underlying().(*types.Struct)
	return st
}

func translate(t target, fset *token.FileSet, files []*ast.File, info *types.Info, pkg *types.Package, known map[string]*fnSig) (string, *fnSig) {
	fd := findFunc(files, t.Func)
	if fd == nil {
		fail("%s: function %s not found in %s", t.Group, t.Func, t.Dir)
	}
	c := &fnCtx{t: t, fset: fset, info: info, pkg: pkg, decl: fd, names: map[types.Object]string{}, used: map[string]int{}, flat: map[string]*variable{}, known: known, mutatedFlat: map[string]bool{}}
	c.leanName = strings.ReplaceAll(t.Func, ".", "_")
	c.used[c.leanName] = 1
	c.used["fuel"] = 1
	var params []variable
	for _, ex := range sortedExterns(t.Externs) {
		for _, p := range ex.Params {
			dup := false
			for _, q := range c.extraParams {
				if q == p {
					dup = true
				}
			}
			if !dup {
				c.extraParams = append(c.extraParams, p)
				c.used[strings.TrimSpace(strings.SplitN(strings.Trim(p, "()"), ":", 2)[0])] = 1
			}
		}
	}
	for _, p := range t.ExtraParams {
		c.extraParams = append(c.extraParams, p)
		c.used[strings.TrimSpace(strings.SplitN(strings.TrimPrefix(p, "("), ":", 2)[0])] = 1
	}
	for _, g := range t.Ghosts {
		parts := strings.SplitN(strings.TrimSuffix(strings.TrimPrefix(g, "("), ")"), ":", 2)
		gv := variable{strings.TrimSpace(parts[0]), lty(strings.TrimSpace(parts[1]))}
		c.ghosts = append(c.ghosts, gv)
		c.used[gv.name] = 1
	}
	// parameters (receiver first); struct-typed ones are flattened into the fields used
	var plist []*ast.Field
	if fd.Recv != nil {
		plist = append(plist, fd.Recv.List...)
	}
	plist = append(plist, fd.Type.Params.List...)
	var flatMut []string
	var sigParams []sigParam
	nRecv := 0
	if fd.Recv != nil {
		nRecv = len(fd.Recv.List[0].Names)
	}
	for _, f := range plist {
		for _, id := range f.Names {
			obj := info.Defs[id]
			sigParams = append(sigParams, sigParam{})
			sp := &sigParams[len(sigParams)-1]
			if c.isAbstract(id.Name) {
				c.names[obj] = id.Name
				sp.skip = true
				continue
			}
			if _, over := t.Types[obj.Type().String()]; over {
				v := c.declare(obj, c.leanType(obj.Type(), id))
				params = append(params, v)
				continue
			}
			if st := structOf(obj.Type()); st != nil {
				c.names[obj] = id.Name
				sp.fields = []string{}
				for i := 0; i < st.NumFields(); i++ {
					key := id.Name + "." + st.Field(i).Name()
					if c.isAbstract(key) || !usesField(fd, id.Name, st.Field(i).Name()) {
						continue
					}
					// only fields of translatable type
					var ty lty
					func() {
						defer func() { recover() }()
						ty = c.leanTypeSoft(st.Field(i).Type())
					}()
					if ty == "" {
						continue
					}
					v := &variable{c.fresh(id.Name + "_" + st.Field(i).Name()), ty}
					sp.fields = append(sp.fields, st.Field(i).Name())
					c.flat[key] = v
					c.flatOrder = append(c.flatOrder, key)
					params = append(params, *v)
					c.env = append(c.env, *v)
					if _, isPtr := obj.Type().Underlying().(*types.Pointer); isPtr {
						flatMut = append(flatMut, key)
					}
				}
				continue
			}
			ty := c.leanType(obj.Type(), id)
			v := c.declare(obj, ty)
			params = append(params, v)
		}
	}
	for _, g := range c.ghosts {
		params = append(params, g)
		c.env = append(c.env, g)
	}
	// results
	var resTys []lty
	named := false
	if fd.Type.Results != nil {
		for _, f := range fd.Type.Results.List {
			rt := info.Types[f.Type].Type
			_, over := t.Types[rt.String()]
			if st := structOf(rt); st != nil && !over {
				for i := 0; i < st.NumFields(); i++ {
					resTys = append(resTys, c.leanType(st.Field(i).Type(), f))
				}
				continue
			}
			if len(f.Names) == 0 {
				resTys = append(resTys, c.leanType(rt, f))
			}
			for _, id := range f.Names {
				named = true
				ty := c.leanType(rt, f)
				resTys = append(resTys, ty)
				v := c.declare(info.Defs[id], ty)
				c.results = append(c.results, v)
			}
		}
	}
	c.resTys = resTys
	// pre-scan: which pointer-receiver fields are assigned (they are returned with the results)
	scan := map[string]lty{}
	c.assigned(fd.Body, scan)
	var outFlat []variable
	for _, key := range flatMut {
		if c.mutatedFlat[key] {
			outFlat = append(outFlat, *c.flat[key])
		}
	}
	var outTys []string
	for _, t := range resTys {
		outTys = append(outTys, string(t))
	}
	for _, v := range outFlat {
		outTys = append(outTys, string(v.ty))
	}
	var outParams []variable
	for _, op := range t.OutParams {
		for _, pv := range params {
			if pv.name == op {
				outParams = append(outParams, pv)
				outTys = append(outTys, string(pv.ty))
			}
		}
	}
	for _, g := range c.ghosts {
		outTys = append(outTys, string(g.ty))
	}
	if len(outTys) == 0 {
		outTys = []string{"Unit"}
	}
	c.resultTy = lty(strings.Join(outTys, " × "))
	c.retTuple = func(c *fnCtx, vals []string) string {
		all := append([]string{}, vals...)
		for _, v := range outFlat {
			all = append(all, v.name)
		}
		for _, v := range outParams {
			all = append(all, v.name)
		}
		for _, g := range c.ghosts {
			all = append(all, g.name)
		}
		if len(all) == 0 {
			return "()"
		}
		if len(all) == 1 {
			return all[0]
		}
		return "(" + strings.Join(all, ", ") + ")"
	}
	var body string
	init := ""
	if named {
		for _, r := range c.results {
			init += fmt.Sprintf("let %s : %s := %s\n", r.name, r.ty, zero(r.ty))
		}
	}
	k := conts{
		next: func() string {
			if len(resTys) == 0 || named {
				var vals []string
				for _, r := range c.results {
					vals = append(vals, r.name)
				}
				return ".ok " + c.retTuple(c, vals)
			}
			return `.panic "missing return"`
		},
		ret: func(vals []string) string { return ".ok " + c.retTuple(c, vals) },
	}
	body = init + c.stmts(fd.Body.List, k)
	var ps []string
	if c.needFuel {
		ps = append(ps, "(fuel : Nat)")
	}
	ps = append(ps, c.extraParams...)
	for _, p := range params {
		ps = append(ps, fmt.Sprintf("(%s : %s)", p.name, p.ty))
	}
	var b strings.Builder
	for _, l := range c.loops {
		b.WriteString(l + "\n")
	}
	src := printed(fset, fd)
	fmt.Fprintf(&b, "/-- `%s.%s` (%s). Go source:\n```go\n%s\n```\n-/\n", t.Dir, t.Func, filepath.Base(fset.Position(fd.Pos()).Filename), strings.ReplaceAll(src, "-/", "- /"))
	fmt.Fprintf(&b, "def %s %s : Kit.GoSem.Res (%s) :=\n%s\n", c.leanName, strings.Join(ps, " "), c.resultTy, ind(body))
	sig := &fnSig{lean: c.leanName, needFuel: c.needFuel, resultTy: c.resultTy, params: sigParams[nRecv:], variadic: fd.Type.Params.NumFields() > 0 && isEllipsis(fd.Type.Params.List[len(fd.Type.Params.List)-1].Type)}
	for _, p := range c.extraParams {
		if !strings.HasPrefix(p, "{") {
			sig.extra = append(sig.extra, strings.TrimSpace(strings.SplitN(strings.TrimPrefix(p, "("), ":", 2)[0]))
		}
	}
	if len(outTys) != 1 {
		sig.resultTy = "" // calls to multi-result functions are not supported as expressions
	}
	return b.String(), sig
}

func (c *fnCtx) leanTypeSoft(t types.Type) lty {
	if o, ok := c.t.Types[t.String()]; ok {
		return lty(o)
	}
	switch u := t.Underlying().(type) {
	case *types.Basic:
		switch u.Kind() {
		case types.Int, types.Int64:
			return tInt
		case types.Uint, types.Uint64:
			return tU64
		case types.Uint32:
			return tU32
		case types.Uint8:
			return tByte
		case types.Bool:
			return tBool
		}
	case *types.Slice:
		if b, ok := u.Elem().Underlying().(*types.Basic); ok && b.Kind() == types.Uint8 {
			return tBytes
		}
	case *types.Interface:
		if t.String() == "error" {
			return tErr
		}
	}
	return ""
}

func sortedExterns(m map[string]extern) []extern {
	var keys []string
	for k := range m {
		keys = append(keys, k)
	}
	sort.Strings(keys)
	var out []extern
	for _, k := range keys {
		out = append(out, m[k])
	}
	return out
}

func main() {
	repo := flag.String("repo", "/repo", "dapr/kit checkout")
	out := flag.String("out", "", "output .lean file (its name selects the group: …Code<Group>.lean)")
	flag.Parse()
	base := strings.TrimSuffix(filepath.Base(*out), ".lean")
	i := strings.LastIndex(base, "Code")
	if i < 0 {
		fail("cannot derive the target group from %q", *out)
	}
	group := base[i+len("Code"):]
	abs, _ := filepath.Abs(*out)
	os.Chdir(*repo)
	fset := token.NewFileSet()
	imp := importer.ForCompiler(fset, "source", nil)
	type loaded struct {
		files []*ast.File
		info  *types.Info
		pkg   *types.Package
	}
	pkgs := map[string]*loaded{}
	load := func(dir string) *loaded {
		if l, ok := pkgs[dir]; ok {
			return l
		}
		entries, err := os.ReadDir(filepath.Join(*repo, dir))
		if err != nil {
			fail("read %s: %v", dir, err)
		}
		var files []*ast.File
		for _, e := range entries {
			name := e.Name()
			if !strings.HasSuffix(name, ".go") || strings.HasSuffix(name, "_test.go") {
				continue
			}
			f, err := parser.ParseFile(fset, filepath.Join(*repo, dir, name), nil, parser.ParseComments)
			if err != nil {
				fail("parse %s/%s: %v", dir, name, err)
			}
			skip := false
			for _, cg := range f.Comments {
				if cg.Pos() < f.Package {
					for _, c := range cg.List {
						if strings.HasPrefix(c.Text, "//go:build") && strings.Contains(c.Text, "verif") && !strings.Contains(c.Text, "!verif") {
							skip = true
						}
					}
				}
			}
			if !skip {
				files = append(files, f)
			}
		}
		info := &types.Info{Types: map[ast.Expr]types.TypeAndValue{}, Uses: map[*ast.Ident]types.Object{}, Defs: map[*ast.Ident]types.Object{}}
		var terrs []string
		conf := types.Config{Importer: imp, Error: func(err error) { terrs = append(terrs, err.Error()) }}
		pkg, _ := conf.Check("github.com/dapr/kit/"+dir, fset, files, info)
		if len(terrs) > 0 {
			fail("type errors in %s: %s", dir, strings.Join(terrs[:min(len(terrs), 5)], "; "))
		}
		l := &loaded{files, info, pkg}
		pkgs[dir] = l
		return l
	}
	var b strings.Builder
	fmt.Fprintf(&b, "/- GENERATED by harness/cmd/go2lean from the Go source of dapr/kit — do not edit.\n   Group %s. Semantics of the target language: KitModel/Go/Sem.lean. -/\nimport KitModel.Go.Sem\nset_option linter.unusedVariables false\nnamespace Kit.Generated.Code%s\n\n", group, group)
	known := map[string]*fnSig{}
	n := 0
	for _, t := range targets {
		if t.Group != group {
			continue
		}
		l := load(t.Dir)
		s, sig := translate(t, fset, l.files, l.info, l.pkg, known)
		if !strings.Contains(t.Func, ".") {
			known[t.Func] = sig
		}
		b.WriteString(s + "\n")
		n++
	}
	if n == 0 {
		fail("no targets in group %q", group)
	}
	fmt.Fprintf(&b, "end Kit.Generated.Code%s\n", group)
	if err := os.WriteFile(abs, []byte(b.String()), 0o644); err != nil {
		fail("%v", err)
	}
}
