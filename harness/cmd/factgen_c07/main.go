// Command factgen_c07 regenerates the panic-site inventory of property C07 from the current
// source of /repo (T1): every expression in the anchored files that can panic at run time —
// index, slice, unchecked type assertion, make with a computed size, integer division by a
// non-constant, explicit panic, calls with a documented panic contract — plus the unconditional
// loops and backward gotos (hang sites). Each site is keyed by (function, kind, normalised
// expression text, ordinal) — no line numbers, so unrelated edits do not disturb the key — and
// carries the conditions that syntactically dominate it (enclosing if/for/case conditions,
// earlier `if c { return }` guards as `!(c)`, the left operand of `&&`/`||`).
//
// Output: lean/KitModel/Generated/C07.lean. Unknown shapes make the program exit non-zero.
package main

import (
	"bytes"
	"encoding/json"
	"flag"
	"fmt"
	"go/ast"
	"go/constant"
	"go/importer"
	"go/parser"
	"go/printer"
	"go/token"
	"go/types"
	"os"
	"path/filepath"
	"regexp"
	"sort"
	"strconv"
	"strings"
)

var anchored = []string{
	"cron/parser.go", "cron/spec.go", "time/time.go", "crypto/keys.go", "crypto/pem/pem.go", "crypto/aeskw/keywrap.go",
	"crypto/padding/pkcs7_padding.go", "crypto/aescbcaead/aescbcaead.go", "crypto/symmetric.go", "crypto/asymmetric_enc.go",
	"crypto/asymmetric_sig.go", "schemes/enc/v1/scheme.go", "schemes/enc/v1/manifest.go", "schemes/enc/v1/ciphers.go",
	"schemes/enc/v1/algorithms.go", "metadata/utils.go", "metadata/duration.go", "metadata/string_decoders.go",
	"metadata/bytesize_decoder.go", "config/decode.go", "config/normalize.go", "utils/pem.go", "streams/uppercase_transformer.go",
}

// reachable: files outside the property's anchored list whose functions the anchored entry points call
// with their input (helpers of crypto/crypto.go: getSHAHash slices the algorithm name).
var reachable = []string{"crypto/crypto.go"}

// covered: files the property TEXT covers ("metadata and configuration maps", every parser of a
// caller-supplied string) although the record's anchors do not name them. They are inventoried exactly
// like the anchored files.
var covered = []string{"config/prefix.go", "metadata/properties.go", "utils/strings.go", "utils/env.go", "retry/retry.go"}

// coveredDirs: packages whose every non-test source file must be anchored, reachable or covered: a new file
// in one of them (a new decoder of maps or strings) has to be listed before the inventory is accepted.
var coveredDirs = []string{"config", "metadata", "utils", "retry"}

// internalPartial: dapr/kit functions that panic on part of their domain; a call to one is a site. The set
// is closed below (closePartial): a function that hands its own parameter to a partial function without
// a `switch <parameter>` case guard is partial too.
type partialInfo struct {
	idx int // index of the argument the function is partial in
	why string
}

var internalPartial = map[string]partialInfo{
	"github.com/dapr/kit/crypto.getSHAHash":      {0, "panics (slice bounds) if len(alg) < 3: alg[len(alg)-3:]"},
	"github.com/dapr/kit/crypto.expectedKeySize": {0, "panics (slice bounds) if len(alg) < 4: alg[1:4]"},
}

// nilableResults: library functions whose pointer result is nil on ordinary input; a variable assigned
// from one is "nil-able" and every field access through it is a `nilderef` site that needs a fresh
// nil check of THAT variable (`x == nil` / `x != nil` evaluated after the assignment that reaches the use).
var nilableResults = map[string]int{
	"encoding/pem.Decode": 0, // result index
}

// boundedCalls: calls whose running time is not bounded by the size of their argument; the argument must
// be the very expression a dominating guard was evaluated on (no re-derivation such as TrimSpace in between).
var boundedCalls = map[string]string{
	"k8s.io/apimachinery/pkg/api/resource.ParseQuantity": "computes 10^|exponent| exactly: unbounded time and memory for a large decimal exponent",
}

// panicContracts: callee (types.Func.FullName) -> the contract that makes the call a panic site.
var panicContracts = map[string]string{
	"crypto/cipher.NewCBCDecrypter":         "panics if len(iv) != block size",
	"crypto/cipher.NewCBCEncrypter":         "panics if len(iv) != block size",
	"(crypto/cipher.BlockMode).CryptBlocks": "panics if src is not a multiple of the block size or dst is shorter",
	"(crypto/cipher.AEAD).Seal":             "panics if len(nonce) != NonceSize()",
	"(crypto/cipher.AEAD).Open":             "panics if len(nonce) != NonceSize()",
	"(crypto/cipher.Block).Encrypt":         "panics if src or dst is shorter than the block size",
	"(crypto/cipher.Block).Decrypt":         "panics if src or dst is shorter than the block size",
	"bytes.Repeat":                          "panics if count < 0 or the result overflows",
	"strings.Repeat":                        "panics if count < 0 or the result overflows",
	"crypto/ed25519.Sign":                   "panics if len(privateKey) != PrivateKeySize",
	"crypto/ed25519.Verify":                 "panics if len(publicKey) != PublicKeySize",
	"(encoding/binary.bigEndian).PutUint64": "panics if len(b) < 8",
	"(encoding/binary.bigEndian).PutUint32": "panics if len(b) < 4",
	"(*encoding/base64.Encoding).Encode":    "panics if dst is shorter than EncodedLen(len(src))",
	"(*encoding/base64.Encoding).Decode":    "panics if dst is shorter than the decoded data",
	"(crypto.Hash).New":                     "panics if the hash function is not linked into the binary",
	"reflect.New":                           "panics if typ is nil",
	"reflect.PtrTo":                         "panics if t is nil",
	"(reflect.Value).Elem":                  "panics if the kind is not Interface or Pointer",
	"(reflect.Value).Interface":             "panics on the zero Value or a value obtained from an unexported field",
	"(reflect.Value).FieldByName":           "panics if the kind is not Struct",
	"(reflect.Value).FieldByIndexErr":       "panics if the kind is not Struct",
	"(reflect.Value).Kind":                  "",
	"(reflect.Value).IsValid":               "",
	"(reflect.Value).IsNil":                 "panics if the kind is not chan, func, interface, map, pointer or slice",
	"(reflect.Type).Elem":                   "panics if the kind is not Array, Chan, Map, Pointer or Slice",
	"(reflect.Type).Field":                  "panics if the kind is not Struct or i is out of range",
	"(reflect.Type).NumField":               "panics if the kind is not Struct",
	"(reflect.Type).Kind":                   "panics on a nil Type (method call on a nil interface)",
	"(reflect.Type).Implements":             "panics if u is nil or not an interface type",
	"(reflect.Type).Name":                   "",
	"(reflect.StructTag).Get":               "",
	"(reflect.StructField).IsExported":      "",
	"(reflect.Kind).String":                 "",
	"reflect.TypeOf":                        "",
	"reflect.ValueOf":                       "",
	"(reflect.Value).CanInterface":          "",
	"(reflect.Value).Type":                  "panics on the zero Value",
	"(reflect.Value).Field":                 "panics if the kind is not Struct or i is out of range",
	"(reflect.Value).Index":                 "panics if out of range",
	"(reflect.Value).Len":                   "panics for kinds without a length",
	"(reflect.Value).MapKeys":               "panics if the kind is not Map",
	"(reflect.Value).Set":                   "panics if not settable",
	"(reflect.Type).Key":                    "panics if the kind is not Map",
	"(reflect.Type).In":                     "panics if the kind is not Func",
	"(reflect.Type).Len":                    "panics if the kind is not Array",
	"(reflect.Value).Int":                   "panics if the kind is not an Int kind",
	"(reflect.Value).String":                "",
	"(reflect.Value).Bool":                  "panics if the kind is not Bool",
	"(reflect.Value).Call":                  "panics if the kind is not Func",
	"(reflect.Value).MethodByName":          "",
	"(reflect.Value).Convert":               "panics if the conversion is not possible",
	"(reflect.Value).Addr":                  "panics if not addressable",
	"(reflect.Value).SetString":             "panics if not settable",
	"(reflect.Value).NumField":              "panics if the kind is not Struct",
	"(reflect.Type).String":                 "",
	"(reflect.Type).AssignableTo":           "",
	"(reflect.Type).ConvertibleTo":          "",
	"(reflect.Type).NumMethod":              "",
	"(reflect.Type).PkgPath":                "",
	"(reflect.Type).Comparable":             "",
	"(reflect.Type).Size":                   "",
	"(reflect.Type).Bits":                   "panics if the kind is not a sized numeric kind",
	"(reflect.Type).FieldByName":            "panics if the kind is not Struct",
	"(reflect.Type).Method":                 "panics if i is out of range",
	"(reflect.Type).MethodByName":           "",
	"(reflect.Type).NumIn":                  "panics if the kind is not Func",
	"(reflect.Type).NumOut":                 "panics if the kind is not Func",
	"(reflect.Type).Out":                    "panics if the kind is not Func",
	"(reflect.Type).ChanDir":                "panics if the kind is not Chan",
	"(reflect.Type).IsVariadic":             "panics if the kind is not Func",
	"(reflect.Type).Align":                  "",
	"(reflect.Type).FieldAlign":             "",
	"(reflect.Type).FieldByIndex":           "panics if the kind is not Struct",
	"(reflect.Type).FieldByNameFunc":        "panics if the kind is not Struct",
	"(reflect.Type).OverflowInt":            "panics if the kind is not an Int kind",
	"(reflect.Type).CanSeq":                 "",
	"(reflect.Type).CanSeq2":                "",
	"(reflect.Type).OverflowComplex":        "panics if the kind is not Complex",
	"(reflect.Type).OverflowFloat":          "panics if the kind is not Float",
	"(reflect.Type).OverflowUint":           "panics if the kind is not Uint",
	"(sync.Pool).Get":                       "",
	"(*sync.Pool).Get":                      "",
	"(*sync.Pool).Put":                      "",
	"(hash.Hash).Sum":                       "",
	"(hash.Hash).Write":                     "",
	"(io.Writer).Write":                     "",
	"(io.Reader).Read":                      "",
	"(*io.PipeWriter).CloseWithError":       "",
	"(*io.PipeWriter).Close":                "",
	"(*io.PipeWriter).Write":                "",
	"(time.Time).AddDate":                   "",
	"time.Date":                             "panics if loc is nil",
	"(time.Time).In":                        "panics if loc is nil",
	"(time.Time).Truncate":                  "",
}

type site struct {
	Fn, Kind, Expr string
	Ord            int
	Guards         []string
	Contract       string
	CB             *constBound // slice / index expressions `x[lo:hi]`, `x[i]` on a variable with constant bounds
}

// constBound: a slice / index expression on a variable with a constant upper bound, together with the
// length guards that dominate it. The operand of each guard is resolved through `l := len(x)` aliases,
// so that "the guard and the slice refer to the same value" is a decidable fact about the source
// (Lean: Kit.C07.const_bounds_guarded_on_the_same_value).
type lenGuard struct {
	Operand string
	MinLen  int    // the guard implies len(Operand) >= MinLen
	Via     string // "" = the guard itself says len(Operand); otherwise the variable holding the length
	Stale   bool   // Operand is assigned between the definition of Via and the site
}

type constBound struct {
	Operand string
	Need    int // hi of x[lo:hi]; i+1 of x[i]
	Guards  []lenGuard
}

var reLenGuard = regexp.MustCompile(`^(!\()?(?:len\((\w+)\)|(\w+)) (==|!=|<=|>=|<|>) (\d+)\)?$`)

// lenAliases: variables assigned exactly once in the body, from len(<variable>): alias -> (operand, assignment).
func (w *walker) lenAliases() map[string]*ast.AssignStmt {
	count := map[string]int{}
	def := map[string]*ast.AssignStmt{}
	if w.body == nil {
		return def
	}
	ast.Inspect(w.body, func(n ast.Node) bool {
		switch x := n.(type) {
		case *ast.AssignStmt:
			for i, l := range x.Lhs {
				id, ok := l.(*ast.Ident)
				if !ok {
					continue
				}
				count[id.Name]++
				if len(x.Lhs) == len(x.Rhs) {
					if c, ok := x.Rhs[i].(*ast.CallExpr); ok && len(c.Args) == 1 {
						if f, ok := c.Fun.(*ast.Ident); ok && f.Name == "len" {
							if _, ok := c.Args[0].(*ast.Ident); ok {
								def[id.Name] = x
							}
						}
					}
				}
			}
		case *ast.IncDecStmt:
			if id, ok := x.X.(*ast.Ident); ok {
				count[id.Name]++
			}
		}
		return true
	})
	for n := range def {
		if count[n] != 1 {
			delete(def, n)
		}
	}
	return def
}

// assignedIn: is the variable named `name` assigned, incremented or address-taken between the two positions?
func (w *walker) assignedIn(name string, lo, hi token.Pos) bool {
	found := false
	ast.Inspect(w.body, func(n ast.Node) bool {
		if n == nil || found {
			return false
		}
		if n.End() <= lo || n.Pos() >= hi {
			return n.Pos() < hi && n.End() > lo
		}
		switch x := n.(type) {
		case *ast.AssignStmt:
			for _, l := range x.Lhs {
				if id, ok := l.(*ast.Ident); ok && id.Name == name && x.Pos() > lo {
					found = true
				}
			}
		case *ast.IncDecStmt:
			if id, ok := x.X.(*ast.Ident); ok && id.Name == name {
				found = true
			}
		case *ast.UnaryExpr:
			if id, ok := x.X.(*ast.Ident); ok && x.Op == token.AND && id.Name == name {
				found = true
			}
		}
		return true
	})
	return found
}

func (w *walker) constBoundOf(n ast.Node, guards []string) *constBound {
	var operand ast.Expr
	need := -1
	switch e := n.(type) {
	case *ast.SliceExpr:
		if e.High == nil {
			return nil
		}
		v, ok := w.isConst(e.High)
		if !ok {
			return nil
		}
		if hi, exact := constant.Int64Val(v); exact && hi >= 0 {
			operand, need = e.X, int(hi)
		}
	case *ast.IndexExpr:
		v, ok := w.isConst(e.Index)
		if !ok {
			return nil
		}
		if i, exact := constant.Int64Val(v); exact && i >= 0 {
			operand, need = e.X, int(i)+1
		}
	}
	id, ok := operand.(*ast.Ident)
	if !ok || need < 0 {
		return nil
	}
	cb := &constBound{Operand: id.Name, Need: need}
	aliases := w.lenAliases()
	for _, g := range guards {
		m := reLenGuard.FindStringSubmatch(g)
		if m == nil {
			continue
		}
		neg := m[1] != ""
		if neg != strings.HasSuffix(g, ")") { // `!(l == 0)` has both; `l > 10` neither
			continue
		}
		k, _ := strconv.Atoi(m[5])
		min := -1
		switch {
		case !neg && m[4] == ">":
			min = k + 1
		case !neg && (m[4] == ">=" || m[4] == "=="):
			min = k
		case !neg && m[4] == "!=" && k == 0:
			min = 1
		case neg && m[4] == "<":
			min = k
		case neg && m[4] == "<=":
			min = k + 1
		case neg && m[4] == "==" && k == 0:
			min = 1
		case neg && m[4] == "!=":
			min = k
		}
		if min < 0 {
			continue
		}
		lg := lenGuard{MinLen: min}
		if m[2] != "" {
			lg.Operand = m[2]
		} else if def, ok := aliases[m[3]]; ok {
			for i, l := range def.Lhs {
				if lid, ok := l.(*ast.Ident); ok && lid.Name == m[3] {
					lg.Operand = def.Rhs[i].(*ast.CallExpr).Args[0].(*ast.Ident).Name
				}
			}
			lg.Via = m[3]
			lg.Stale = w.assignedIn(lg.Operand, def.End(), n.Pos())
		} else {
			continue
		}
		cb.Guards = append(cb.Guards, lg)
	}
	return cb
}

type walker struct {
	fset  *token.FileSet
	info  *types.Info
	fn    string
	sites *[]site
	stack []ast.Node
	typed bool
	// package-level slice variables initialised by a composite literal and never assigned: var -> number of elements
	pkgLits map[*types.Var]int
	body    ast.Node // the function body being walked (for the freshness of guards)
	nilable map[*types.Var]bool
}

func (w *walker) text(n ast.Node) string {
	var b bytes.Buffer
	printer.Fprint(&b, w.fset, n)
	return strings.Join(strings.Fields(b.String()), " ")
}

func terminates(b *ast.BlockStmt) bool {
	if b == nil || len(b.List) == 0 {
		return false
	}
	switch s := b.List[len(b.List)-1].(type) {
	case *ast.ReturnStmt:
		return true
	case *ast.BranchStmt:
		return s.Tok == token.CONTINUE || s.Tok == token.BREAK || s.Tok == token.GOTO
	case *ast.ExprStmt:
		if c, ok := s.X.(*ast.CallExpr); ok {
			if id, ok := c.Fun.(*ast.Ident); ok && id.Name == "panic" {
				return true
			}
		}
	}
	return false
}

func contains(outer, inner ast.Node) bool {
	return outer != nil && inner != nil && outer.Pos() <= inner.Pos() && inner.End() <= outer.End()
}

// guards computes the conditions syntactically dominating node n, outermost first.
// assignedBetween: is one of the variables read by `cond` assigned (or incremented, redeclared, or
// has its address taken) after the condition was evaluated and before the site — i.e. textually
// between them, or anywhere inside a loop that starts after the condition and contains the site?
func (w *walker) assignedBetween(cond ast.Node, site ast.Node) bool {
	if w.body == nil || cond == nil {
		return false
	}
	vars := map[types.Object]bool{}
	ast.Inspect(cond, func(n ast.Node) bool {
		if id, ok := n.(*ast.Ident); ok {
			if o, ok := w.info.Uses[id].(*types.Var); ok && !o.IsField() {
				vars[o] = true
			}
		}
		return true
	})
	if len(vars) == 0 {
		return false
	}
	// regions: (cond.End, site.Pos) and the bodies of loops that begin after cond and contain the site
	type region struct{ lo, hi token.Pos }
	regions := []region{{cond.End(), site.Pos()}}
	for _, p := range w.stack {
		switch l := p.(type) {
		case *ast.ForStmt:
			if l.Pos() >= cond.End() && contains(l, site) {
				regions = append(regions, region{l.Pos(), l.End()})
			}
		case *ast.RangeStmt:
			if l.Pos() >= cond.End() && contains(l, site) {
				regions = append(regions, region{l.Pos(), l.End()})
			}
		}
	}
	in := func(p token.Pos) bool {
		for _, r := range regions {
			if r.lo <= p && p < r.hi {
				return true
			}
		}
		return false
	}
	// an assignment in another branch of an if/switch that contains the site is not on a path to it
	otherBranch := func(a ast.Node) bool {
		for _, p := range w.stack {
			switch st := p.(type) {
			case *ast.IfStmt:
				if contains(st.Body, a) && !contains(st.Body, site) {
					return true
				}
				if st.Else != nil && contains(st.Else, a) && !contains(st.Else, site) {
					return true
				}
			case *ast.SwitchStmt:
				for _, c := range st.Body.List {
					if contains(c, a) && !contains(c, site) {
						return true
					}
				}
			case *ast.TypeSwitchStmt:
				for _, c := range st.Body.List {
					if contains(c, a) && !contains(c, site) {
						return true
					}
				}
			}
		}
		return false
	}
	hit := false
	touches := func(e ast.Expr) {
		for {
			switch x := e.(type) {
			case *ast.ParenExpr:
				e = x.X
				continue
			case *ast.StarExpr:
				e = x.X
				continue
			case *ast.Ident:
				if o := w.info.Uses[x]; o != nil && vars[o] {
					hit = true
				}
				if o := w.info.Defs[x]; o != nil {
					// a redeclaration shadows: the guard was about another variable of the same name only if
					// the names coincide; be conservative
					for v := range vars {
						if v.Name() == x.Name {
							hit = true
						}
					}
				}
			}
			return
		}
	}
	ast.Inspect(w.body, func(n ast.Node) bool {
		if n == nil || hit {
			return false
		}
		switch x := n.(type) {
		case *ast.AssignStmt:
			if in(x.Pos()) && !contains(x, site) && !otherBranch(x) {
				for _, l := range x.Lhs {
					touches(l)
				}
			}
		case *ast.IncDecStmt:
			if in(x.Pos()) && !otherBranch(x) {
				touches(x.X)
			}
		case *ast.UnaryExpr:
			if x.Op == token.AND && in(x.Pos()) && !otherBranch(x) {
				touches(x.X)
			}
		case *ast.RangeStmt:
			if in(x.Pos()) && !contains(x.Body, site) {
				if x.Key != nil {
					touches(x.Key)
				}
				if x.Value != nil {
					touches(x.Value)
				}
			}
		}
		return true
	})
	return hit
}

func (w *walker) guards(n ast.Node) []string {
	out := []string{}
	var condNode ast.Node
	add := func(s string) {
		// a guard is kept only if none of its variables is assigned between the guard and the site
		if condNode != nil && w.assignedBetween(condNode, n) {
			condNode = nil
			return
		}
		condNode = nil
		for _, x := range out {
			if x == s {
				return
			}
		}
		out = append(out, s)
	}
	for i, p := range w.stack {
		var child ast.Node = n
		if i+1 < len(w.stack) {
			child = w.stack[i+1]
		}
		switch s := p.(type) {
		case *ast.IfStmt:
			if contains(s.Body, child) {
				condNode = s.Cond
				add(w.text(s.Cond))
			} else if s.Else != nil && contains(s.Else, child) {
				condNode = s.Cond
				add("!(" + w.text(s.Cond) + ")")
			}
		case *ast.ForStmt:
			if s.Cond != nil && contains(s.Body, child) {
				add("for " + w.text(s.Cond))
			}
		case *ast.RangeStmt:
			if contains(s.Body, child) {
				k := "_"
				if s.Key != nil {
					k = w.text(s.Key)
				}
				add("range " + k + " over " + w.text(s.X))
			}
		case *ast.CaseClause:
			// find the switch this clause belongs to
			var tag string
			for j := i - 1; j >= 0; j-- {
				if sw, ok := w.stack[j].(*ast.SwitchStmt); ok {
					if sw.Tag != nil {
						tag = w.text(sw.Tag)
					}
					break
				}
				if sw, ok := w.stack[j].(*ast.TypeSwitchStmt); ok {
					tag = "type " + w.text(sw.Assign)
					break
				}
			}
			inBody := false
			for _, st := range s.Body {
				if contains(st, child) {
					inBody = true
				}
			}
			if inBody {
				if s.List == nil {
					add("switch " + tag + " default")
				} else {
					parts := make([]string, len(s.List))
					for k, e := range s.List {
						parts[k] = w.text(e)
					}
					add("switch " + tag + " case " + strings.Join(parts, ", "))
				}
				// earlier `if c { return }` guards inside the clause body
				for _, st := range s.Body {
					if contains(st, child) {
						break
					}
					if ifs, ok := st.(*ast.IfStmt); ok && ifs.Else == nil && terminates(ifs.Body) {
						condNode = ifs.Cond
						add("!(" + w.text(ifs.Cond) + ")")
					}
				}
			}
		case *ast.BlockStmt:
			for _, st := range s.List {
				if contains(st, child) {
					break
				}
				if ifs, ok := st.(*ast.IfStmt); ok && ifs.Else == nil && terminates(ifs.Body) {
					condNode = ifs.Cond
					add("!(" + w.text(ifs.Cond) + ")")
				}
			}
		case *ast.BinaryExpr:
			if s.Op == token.LAND && contains(s.Y, child) {
				add(w.text(s.X))
			}
			if s.Op == token.LOR && contains(s.Y, child) {
				add("!(" + w.text(s.X) + ")")
			}
		}
	}
	return out
}

func (w *walker) emit(kind string, n ast.Node, contract string) {
	st := site{Fn: w.fn, Kind: kind, Expr: w.text(n), Guards: w.guards(n), Contract: contract}
	if kind == "slice" || kind == "index" {
		st.CB = w.constBoundOf(n, st.Guards)
	}
	*w.sites = append(*w.sites, st)
}

func (w *walker) typeOf(e ast.Expr) types.Type {
	if tv, ok := w.info.Types[e]; ok && tv.Type != nil {
		return tv.Type
	}
	return nil
}

func (w *walker) isConst(e ast.Expr) (constant.Value, bool) {
	if tv, ok := w.info.Types[e]; ok && tv.Value != nil {
		return tv.Value, true
	}
	return nil, false
}

func isInteger(t types.Type) bool {
	if t == nil {
		return false
	}
	b, ok := t.Underlying().(*types.Basic)
	return ok && b.Info()&types.IsInteger != 0
}

const countedLoopOK = "counted loop: the variable moves by one toward a bound whose operands are not assigned in the body"

// countedLoop recognises `for i := a; i < b [&& …]; i++ { body }` (also <=, and > / >= with i--) where
// neither i nor an identifier of b is assigned, incremented or has its address taken in the body.
func (w *walker) countedLoop(f *ast.ForStmt) string {
	post, ok := f.Post.(*ast.IncDecStmt)
	if !ok {
		return ""
	}
	iv, ok := post.X.(*ast.Ident)
	if !ok {
		return ""
	}
	var bound ast.Expr
	var find func(c ast.Expr) bool
	find = func(c ast.Expr) bool {
		switch x := c.(type) {
		case *ast.ParenExpr:
			return find(x.X)
		case *ast.BinaryExpr:
			if x.Op == token.LAND {
				return find(x.X) || find(x.Y)
			}
			l, isIdent := x.X.(*ast.Ident)
			if !isIdent || l.Name != iv.Name {
				return false
			}
			up := x.Op == token.LSS || x.Op == token.LEQ
			down := x.Op == token.GTR || x.Op == token.GEQ
			if (up && post.Tok == token.INC) || (down && post.Tok == token.DEC) {
				bound = x.Y
				return true
			}
		}
		return false
	}
	if !find(f.Cond) {
		return ""
	}
	frozen := map[string]bool{iv.Name: true}
	ast.Inspect(bound, func(n ast.Node) bool {
		if id, ok := n.(*ast.Ident); ok {
			frozen[id.Name] = true
		}
		return true
	})
	clean := true
	ast.Inspect(f.Body, func(n ast.Node) bool {
		root := func(e ast.Expr) string {
			for {
				switch x := e.(type) {
				case *ast.Ident:
					return x.Name
				case *ast.ParenExpr:
					e = x.X
				case *ast.StarExpr:
					e = x.X
				default:
					return ""
				}
			}
		}
		switch x := n.(type) {
		case *ast.AssignStmt:
			for _, l := range x.Lhs {
				if frozen[root(l)] {
					clean = false
				}
			}
		case *ast.IncDecStmt:
			if frozen[root(x.X)] {
				clean = false
			}
		case *ast.UnaryExpr:
			if x.Op == token.AND && frozen[root(x.X)] {
				clean = false
			}
		case *ast.RangeStmt:
			if x.Tok == token.ASSIGN {
				if (x.Key != nil && frozen[root(x.Key)]) || (x.Value != nil && frozen[root(x.Value)]) {
					clean = false
				}
			}
		}
		return true
	})
	if !clean {
		return ""
	}
	return countedLoopOK
}

const sizeNonNeg = "size is built from len(), cap(), non-negative constants, + and * only"
const constIdxOK = "constant index within a package-level slice literal that is never assigned"

// nonNegByConstruction: the expression cannot be negative whatever the input is.
func (w *walker) nonNegByConstruction(e ast.Expr) bool {
	if v, ok := w.isConst(e); ok {
		return constant.Sign(v) >= 0
	}
	switch x := e.(type) {
	case *ast.ParenExpr:
		return w.nonNegByConstruction(x.X)
	case *ast.CallExpr:
		if id, ok := x.Fun.(*ast.Ident); ok && (id.Name == "len" || id.Name == "cap") {
			if _, builtin := w.info.Uses[id].(*types.Builtin); builtin {
				return true
			}
		}
	case *ast.BinaryExpr:
		if x.Op == token.ADD || x.Op == token.MUL {
			return w.nonNegByConstruction(x.X) && w.nonNegByConstruction(x.Y)
		}
	}
	return false
}

// constIndexContract: x[C] where x is a package-level variable initialised with a composite
// literal of more than C elements and never assigned in the package.
func (w *walker) constIndexContract(e *ast.IndexExpr) string {
	v, ok := w.isConst(e.Index)
	if !ok {
		return ""
	}
	idx, exact := constant.Int64Val(v)
	id, isIdent := e.X.(*ast.Ident)
	if !exact || !isIdent {
		return ""
	}
	obj, ok := w.info.Uses[id].(*types.Var)
	if !ok || obj.Parent() != obj.Pkg().Scope() {
		return ""
	}
	n, found := w.pkgLits[obj]
	if !found || idx < 0 || idx >= int64(n) {
		return ""
	}
	return fmt.Sprintf("%s (index %d, %d elements)", constIdxOK, idx, n)
}

func (w *walker) parent() ast.Node {
	if len(w.stack) < 2 {
		return nil
	}
	return w.stack[len(w.stack)-2]
}

func (w *walker) Visit(n ast.Node) ast.Visitor {
	if n == nil {
		w.stack = w.stack[:len(w.stack)-1]
		return nil
	}
	w.stack = append(w.stack, n)
	switch e := n.(type) {
	case *ast.IndexExpr:
		t := w.typeOf(e.X)
		if t == nil {
			fail("cannot type the indexed expression %s in %s", w.text(e), w.fn)
		}
		switch u := t.Underlying().(type) {
		case *types.Map, *types.Signature:
			// map look-ups and generic instantiations cannot panic
		case *types.Array:
			if _, ok := w.isConst(e.Index); !ok {
				w.emit("index", e, "")
			}
		case *types.Pointer:
			if _, ok := u.Elem().Underlying().(*types.Array); ok {
				if _, c := w.isConst(e.Index); !c {
					w.emit("index", e, "")
				}
			} else {
				fail("index of unexpected pointer type %s in %s", t, w.fn)
			}
		case *types.Slice, *types.Basic:
			w.emit("index", e, w.constIndexContract(e))
		default:
			fail("index of unexpected type %s (%s) in %s", t, w.text(e), w.fn)
		}
	case *ast.SelectorExpr:
		if id, ok := e.X.(*ast.Ident); ok {
			if v, ok := w.info.Uses[id].(*types.Var); ok && w.nilable[v] {
				if _, isPtr := v.Type().Underlying().(*types.Pointer); isPtr {
					w.emit("nilderef", e, "the variable holds the result of a library function that returns nil on ordinary input")
				}
			}
		}
	case *ast.StarExpr:
		if id, ok := e.X.(*ast.Ident); ok {
			if v, ok := w.info.Uses[id].(*types.Var); ok && w.nilable[v] {
				w.emit("nilderef", e, "the variable holds the result of a library function that returns nil on ordinary input")
			}
		}
	case *ast.SliceExpr:
		if e.Low != nil || e.High != nil || e.Max != nil {
			w.emit("slice", e, "")
		}
	case *ast.TypeAssertExpr:
		if e.Type == nil {
			break // x.(type) in a type switch
		}
		checked := false
		switch p := w.parent().(type) {
		case *ast.AssignStmt:
			checked = len(p.Lhs) == 2 && len(p.Rhs) == 1 && p.Rhs[0] == ast.Expr(e)
		case *ast.ValueSpec:
			checked = len(p.Names) == 2 && len(p.Values) == 1 && p.Values[0] == ast.Expr(e)
		}
		if !checked {
			w.emit("assert", e, "")
		}
	case *ast.CallExpr:
		switch f := e.Fun.(type) {
		case *ast.Ident:
			if obj, ok := w.info.Uses[f]; ok {
				if fn, isFn := obj.(*types.Func); isFn {
					if c, partial := internalPartial[fn.FullName()]; partial {
						w.emit("call", e, "internal: "+fn.FullName()+" "+c.why)
					}
				}
				if _, builtin := obj.(*types.Builtin); builtin {
					switch f.Name {
					case "panic":
						w.emit("panic", e, "")
					case "make":
						for _, a := range e.Args[1:] {
							if _, c := w.isConst(a); !c {
								contract := ""
								all := true
								for _, b := range e.Args[1:] {
									if !w.nonNegByConstruction(b) {
										all = false
									}
								}
								if all {
									contract = sizeNonNeg
								}
								w.emit("make", e, contract)
								break
							}
						}
					}
				}
			}
		case *ast.SelectorExpr:
			obj, ok := w.info.Uses[f.Sel]
			if !ok {
				break
			}
			fn, ok := obj.(*types.Func)
			if !ok {
				break
			}
			full := fn.FullName()
			if c, bounded := boundedCalls[full]; bounded {
				w.emit("call", e, full+": "+c)
			}
			if c, listed := panicContracts[full]; listed {
				if c != "" {
					w.emit("call", e, full+": "+c)
				}
			} else if strings.HasPrefix(full, "(reflect.") || strings.HasPrefix(full, "reflect.") {
				fail("reflect call %s in %s has no entry in panicContracts", full, w.fn)
			}
		}
	case *ast.BinaryExpr:
		if e.Op == token.QUO || e.Op == token.REM {
			if _, c := w.isConst(e.Y); !c && isInteger(w.typeOf(e.X)) {
				w.emit("div", e, "")
			}
			if w.typeOf(e.X) == nil {
				fail("cannot type the operands of %s in %s", w.text(e), w.fn)
			}
		}
	case *ast.AssignStmt:
		if e.Tok == token.QUO_ASSIGN || e.Tok == token.REM_ASSIGN {
			if _, c := w.isConst(e.Rhs[0]); !c && isInteger(w.typeOf(e.Lhs[0])) {
				w.emit("div", e, "")
			}
		}
	case *ast.ForStmt:
		if e.Cond == nil {
			*w.sites = append(*w.sites, site{Fn: w.fn, Kind: "loop", Expr: "for without condition", Guards: w.guards(n)})
		} else {
			hdr := "for "
			if e.Init != nil {
				hdr += w.text(e.Init)
			}
			hdr += "; " + w.text(e.Cond) + "; "
			if e.Post != nil {
				hdr += w.text(e.Post)
			}
			*w.sites = append(*w.sites, site{Fn: w.fn, Kind: "loop", Expr: hdr, Guards: w.guards(n), Contract: w.countedLoop(e)})
		}
	case *ast.RangeStmt:
		t := w.typeOf(e.X)
		if t == nil {
			fail("cannot type the range expression %s in %s", w.text(e.X), w.fn)
		}
		switch u := t.Underlying().(type) {
		case *types.Slice, *types.Array, *types.Map:
			// finite: the range expression is evaluated once
		case *types.Basic:
			if u.Info()&(types.IsString|types.IsInteger) == 0 {
				fail("range over %s in %s", t, w.fn)
			}
		case *types.Pointer:
			if _, ok := u.Elem().Underlying().(*types.Array); !ok {
				fail("range over %s in %s", t, w.fn)
			}
		default:
			fail("range over %s (channel or function iterator may not terminate) in %s", t, w.fn)
		}
	case *ast.BranchStmt:
		if e.Tok == token.GOTO {
			*w.sites = append(*w.sites, site{Fn: w.fn, Kind: "goto", Expr: "goto " + e.Label.Name, Guards: w.guards(n)})
		}
	case *ast.FuncLit:
		// sites inside closures are attributed to the enclosing function
	}
	return w
}

// packageFacts re-establishes, from the typed source, the package-level facts some discharges rely on.
func packageFacts(dir string, pkg *types.Package, files []*ast.File, info *types.Info, fset *token.FileSet) [][2]string {
	var out [][2]string
	text := func(n ast.Node) string {
		var b bytes.Buffer
		printer.Fprint(&b, fset, n)
		return strings.Join(strings.Fields(b.String()), " ")
	}
	switch dir {
	case "cron":
		// every SpecSchedule the package constructs gets its Location from a variable (never a nil literal, never omitted)
		total, ok := 0, 0
		for _, f := range files {
			ast.Inspect(f, func(n ast.Node) bool {
				cl, isLit := n.(*ast.CompositeLit)
				if !isLit {
					return true
				}
				t := info.Types[cl].Type
				if t == nil {
					return true
				}
				if named, isNamed := t.(*types.Named); !isNamed || named.Obj().Name() != "SpecSchedule" {
					return true
				}
				total++
				for _, e := range cl.Elts {
					if kv, isKV := e.(*ast.KeyValueExpr); isKV {
						if k, isID := kv.Key.(*ast.Ident); isID && k.Name == "Location" {
							if v, isVar := kv.Value.(*ast.Ident); isVar && v.Name != "nil" {
								ok++
							}
						}
					}
				}
				return true
			})
		}
		out = append(out, [2]string{"cron.SpecSchedule literals with Location set from a variable", fmt.Sprintf("%d of %d", ok, total)})
	case "schemes/enc/v1":
		// BufPool: New returns *[]byte and every Put in the package passes a *[]byte
		puts, good := 0, 0
		newOK := false
		want := types.NewPointer(types.NewSlice(types.Typ[types.Byte]))
		for _, f := range files {
			ast.Inspect(f, func(n ast.Node) bool {
				switch x := n.(type) {
				case *ast.CallExpr:
					if sel, isSel := x.Fun.(*ast.SelectorExpr); isSel && sel.Sel.Name == "Put" && text(sel.X) == "BufPool" && len(x.Args) == 1 {
						puts++
						if t := info.Types[x.Args[0]].Type; t != nil && types.Identical(t, want) {
							good++
						}
					}
				case *ast.ValueSpec:
					for i, name := range x.Names {
						if name.Name != "BufPool" || i >= len(x.Values) {
							continue
						}
						ast.Inspect(x.Values[i], func(m ast.Node) bool {
							if fl, isFn := m.(*ast.FuncLit); isFn {
								allPtr, rets := true, 0
								ast.Inspect(fl.Body, func(r ast.Node) bool {
									if ret, isRet := r.(*ast.ReturnStmt); isRet && len(ret.Results) == 1 {
										rets++
										if t := info.Types[ret.Results[0]].Type; t == nil || !types.Identical(t, want) {
											allPtr = false
										}
									}
									return true
								})
								newOK = rets > 0 && allPtr
							}
							return true
						})
					}
				}
				return true
			})
		}
		out = append(out, [2]string{"enc.BufPool holds *[]byte only (New's result, Put arguments in the package)", fmt.Sprintf("New: %v; Put: %d of %d", newOK, good, puts)})
	case "crypto":
		// the hashes crypto.Hash.New() is called for are linked into every binary that links this package
		seen := map[string]bool{}
		var walk func(p *types.Package)
		walk = func(p *types.Package) {
			if seen[p.Path()] {
				return
			}
			seen[p.Path()] = true
			for _, q := range p.Imports() {
				walk(q)
			}
		}
		walk(pkg)
		have := []string{}
		for _, h := range []string{"crypto/sha1", "crypto/sha256", "crypto/sha512"} {
			if seen[h] {
				have = append(have, h)
			}
		}
		out = append(out, [2]string{"hash packages in the transitive imports of package crypto", strings.Join(have, ",")})
	}
	return out
}

// closePartial propagates partiality: f(…, p, …) { … g(p) … } with g partial and no enclosing
// `switch p { case … }` around the call makes f partial in the same way.
func closePartial(files []*ast.File, info *types.Info) {
	for changed := true; changed; {
		changed = false
		for _, f := range files {
			for _, decl := range f.Decls {
				fd, ok := decl.(*ast.FuncDecl)
				if !ok || fd.Body == nil || fd.Recv != nil {
					continue
				}
				fobj, ok := info.Defs[fd.Name].(*types.Func)
				if !ok {
					continue
				}
				if _, already := internalPartial[fobj.FullName()]; already {
					continue
				}
				params := map[string]int{}
				pi := 0
				for _, fl := range fd.Type.Params.List {
					for _, n := range fl.Names {
						params[n.Name] = pi
						pi++
					}
				}
				var stack []ast.Node
				ast.Inspect(fd.Body, func(n ast.Node) bool {
					if n == nil {
						stack = stack[:len(stack)-1]
						return true
					}
					stack = append(stack, n)
					call, isCall := n.(*ast.CallExpr)
					if !isCall {
						return true
					}
					id, isID := call.Fun.(*ast.Ident)
					if !isID {
						return true
					}
					g, isFn := info.Uses[id].(*types.Func)
					if !isFn {
						return true
					}
					c, partial := internalPartial[g.FullName()]
					if !partial || c.idx >= len(call.Args) {
						return true
					}
					an, isName := call.Args[c.idx].(*ast.Ident)
					if !isName {
						return true
					}
					idx, isParam := params[an.Name]
					if !isParam {
						return true
					}
					for _, anc := range stack {
						if sw, isSw := anc.(*ast.SwitchStmt); isSw {
							if tag, isTag := sw.Tag.(*ast.Ident); isTag && tag.Name == an.Name {
								return true // the call sits in a case clause of a switch on that parameter
							}
						}
					}
					internalPartial[fobj.FullName()] = partialInfo{idx, "calls " + g.Name() + " with its parameter " + an.Name + " outside a switch on it (" + c.why + ")"}
					changed = true
					return true
				})
			}
		}
	}
}

// nilableVars: the local variables that are somewhere assigned the nil-able result of a listed function.
func nilableVars(body ast.Node, info *types.Info) map[*types.Var]bool {
	out := map[*types.Var]bool{}
	ast.Inspect(body, func(n ast.Node) bool {
		as, ok := n.(*ast.AssignStmt)
		if !ok || len(as.Rhs) != 1 {
			return true
		}
		call, ok := as.Rhs[0].(*ast.CallExpr)
		if !ok {
			return true
		}
		sel, ok := call.Fun.(*ast.SelectorExpr)
		if !ok {
			return true
		}
		fn, ok := info.Uses[sel.Sel].(*types.Func)
		if !ok {
			return true
		}
		idx, listed := nilableResults[fn.FullName()]
		if !listed || idx >= len(as.Lhs) {
			return true
		}
		if id, ok := as.Lhs[idx].(*ast.Ident); ok {
			if v, ok := info.Defs[id].(*types.Var); ok {
				out[v] = true
			} else if v, ok := info.Uses[id].(*types.Var); ok {
				out[v] = true
			}
		}
		return true
	})
	return out
}

func fail(format string, a ...any) {
	fmt.Fprintf(os.Stderr, "factgen_c07: unknown shape: "+format+"\n", a...)
	os.Exit(1)
}

func fnv64(s string) uint64 {
	h := uint64(14695981039346656037)
	for i := 0; i < len(s); i++ {
		h ^= uint64(s[i])
		h *= 1099511628211
	}
	return h
}

func leanStr(s string) string {
	var b strings.Builder
	b.WriteByte('"')
	for _, r := range s {
		switch {
		case r == '"':
			b.WriteString("\\\"")
		case r == '\\':
			b.WriteString("\\\\")
		case r == '\n':
			b.WriteString("\\n")
		case r == '\t':
			b.WriteString("\\t")
		case r < 0x20 || r == 0x7f:
			fmt.Fprintf(&b, "\\x%02x", r)
		default:
			b.WriteRune(r)
		}
	}
	b.WriteByte('"')
	return b.String()
}

func main() {
	repo := flag.String("repo", "/repo", "repository root")
	out := flag.String("out", "", "output .lean file")
	skeleton := flag.String("skeleton", "", "also write a discharge-table skeleton (one line per site) to this file")
	flag.Parse()

	// the anchored list is the property record's
	if b, err := os.ReadFile(filepath.Join("..", "properties.jsonl")); err == nil {
		for _, line := range strings.Split(string(b), "\n") {
			var rec struct {
				ID      string `json:"id"`
				Anchors struct {
					Files []string `json:"files"`
				} `json:"anchors"`
			}
			if json.Unmarshal([]byte(line), &rec) == nil && rec.ID == "C07" {
				if strings.Join(rec.Anchors.Files, ",") != strings.Join(anchored, ",") {
					fail("anchored file list differs from properties.jsonl")
				}
			}
		}
	}

	byDir := map[string][]string{}
	dirs := []string{}
	listed := append(append(append([]string{}, anchored...), reachable...), covered...)
	for _, d := range coveredDirs {
		entries, err := os.ReadDir(filepath.Join(*repo, d))
		if err != nil {
			fail("read %s: %v", d, err)
		}
		for _, e := range entries {
			name := e.Name()
			if e.IsDir() || !strings.HasSuffix(name, ".go") || strings.HasSuffix(name, "_test.go") || strings.HasPrefix(name, "zz_verif") {
				continue
			}
			have := false
			for _, f := range listed {
				have = have || f == d+"/"+name
			}
			if !have {
				fail("%s/%s: a source file of a package that decodes caller-supplied maps/strings is neither anchored nor covered: list it", d, name)
			}
		}
	}
	for _, f := range listed {
		d := filepath.Dir(f)
		if _, ok := byDir[d]; !ok {
			dirs = append(dirs, d)
		}
		byDir[d] = append(byDir[d], filepath.Base(f))
	}
	fset := token.NewFileSet()
	os.Chdir(*repo) // the source importer resolves module imports relative to the working directory
	imp := importer.ForCompiler(fset, "source", nil)
	var sites []site
	var facts [][2]string
	for _, d := range dirs {
		entries, err := os.ReadDir(filepath.Join(*repo, d))
		if err != nil {
			fail("read %s: %v", d, err)
		}
		var files []*ast.File
		anchoredFiles := map[*ast.File]bool{}
		found := 0
		for _, e := range entries {
			name := e.Name()
			if !strings.HasSuffix(name, ".go") || strings.HasSuffix(name, "_test.go") {
				continue
			}
			f, err := parser.ParseFile(fset, filepath.Join(*repo, d, name), nil, parser.ParseComments)
			if err != nil {
				fail("parse %s/%s: %v", d, name, err)
			}
			// honour build constraints that exclude the file from the default build (verif hooks)
			skip := false
			for _, cg := range f.Comments {
				if cg.Pos() < f.Package {
					for _, c := range cg.List {
						if strings.HasPrefix(c.Text, "//go:build") && strings.Contains(c.Text, "verif") && !strings.Contains(c.Text, "!verif") {
							skip = true
						}
					}
				}
			}
			if skip {
				continue
			}
			files = append(files, f)
			for _, a := range byDir[d] {
				if a == name {
					anchoredFiles[f] = true
					found++
				}
			}
		}
		if found != len(byDir[d]) {
			fail("anchored file missing in %s", d)
		}
		info := &types.Info{Types: map[ast.Expr]types.TypeAndValue{}, Uses: map[*ast.Ident]types.Object{}, Defs: map[*ast.Ident]types.Object{}}
		var terrs []string
		conf := types.Config{Importer: imp, Error: func(err error) { terrs = append(terrs, err.Error()) }}
		pkg, _ := conf.Check("github.com/dapr/kit/"+d, fset, files, info)
		if len(terrs) > 0 {
			fail("type errors in %s (source importer offline?): %s", d, strings.Join(terrs[:min(len(terrs), 5)], "; "))
		}
		if pkg != nil {
			facts = append(facts, packageFacts(d, pkg, files, info, fset)...)
		}
		closePartial(files, info)
		pkgLits := map[*types.Var]int{}
		for _, f := range files {
			for _, decl := range f.Decls {
				gd, ok := decl.(*ast.GenDecl)
				if !ok || gd.Tok != token.VAR {
					continue
				}
				for _, sp := range gd.Specs {
					vs := sp.(*ast.ValueSpec)
					for i, name := range vs.Names {
						if i < len(vs.Values) {
							if cl, ok := vs.Values[i].(*ast.CompositeLit); ok {
								if v, ok := info.Defs[name].(*types.Var); ok {
									pkgLits[v] = len(cl.Elts)
								}
							}
						}
					}
				}
			}
		}
		for _, f := range files { // any assignment to (or address taken of) such a variable disqualifies it
			ast.Inspect(f, func(n ast.Node) bool {
				switch x := n.(type) {
				case *ast.AssignStmt:
					for _, l := range x.Lhs {
						root := l
						for {
							if ie, ok := root.(*ast.IndexExpr); ok {
								root = ie.X
								continue
							}
							break
						}
						if id, ok := root.(*ast.Ident); ok {
							if v, ok := info.Uses[id].(*types.Var); ok {
								delete(pkgLits, v)
							}
						}
					}
				case *ast.UnaryExpr:
					if x.Op == token.AND {
						if id, ok := x.X.(*ast.Ident); ok {
							if v, ok := info.Uses[id].(*types.Var); ok {
								delete(pkgLits, v)
							}
						}
					}
				}
				return true
			})
		}
		for _, f := range files {
			if !anchoredFiles[f] {
				continue
			}
			for _, decl := range f.Decls {
				var body ast.Node
				var name string
				switch dd := decl.(type) {
				case *ast.FuncDecl:
					if dd.Body == nil {
						continue
					}
					name = dd.Name.Name
					if dd.Recv != nil && len(dd.Recv.List) == 1 {
						t := dd.Recv.List[0].Type
						if s, ok := t.(*ast.StarExpr); ok {
							t = s.X
						}
						if id, ok := t.(*ast.Ident); ok {
							name = id.Name + "." + name
						}
					}
					body = dd.Body
				case *ast.GenDecl:
					if dd.Tok != token.VAR {
						continue
					}
					name = "var"
					body = dd
				}
				w := &walker{fset: fset, info: info, fn: d + "." + name, sites: &sites, pkgLits: pkgLits, body: body, nilable: nilableVars(body, info)}
				ast.Walk(w, body)
			}
		}
	}
	// ordinals among equal (fn, kind, expr), in source order
	seen := map[string]int{}
	for i := range sites {
		k := sites[i].Fn + "|" + sites[i].Kind + "|" + sites[i].Expr
		sites[i].Ord = seen[k]
		seen[k]++
	}
	var b strings.Builder
	b.WriteString("/- GENERATED by harness/cmd/factgen_c07 from /repo — do not edit. Panic-site inventory of property C07. -/\n")
	b.WriteString("namespace Kit.Generated.C07\n\n")
	b.WriteString("structure Site where\n  key : Nat\n  fn : String\n  kind : String\n  expr : String\n  ord : Nat\n  guards : List String\n  contract : String\n  deriving Repr\n\n")
	const chunk = 25
	nchunks := 0
	for i := 0; i < len(sites); i += chunk {
		fmt.Fprintf(&b, "def sites%d : List Site := [\n", nchunks)
		for j := i; j < i+chunk && j < len(sites); j++ {
			s := sites[j]
			gs := make([]string, len(s.Guards))
			for k, g := range s.Guards {
				gs[k] = leanStr(g)
			}
			key := fnv64(fmt.Sprintf("%s|%s|%s|%d", s.Fn, s.Kind, s.Expr, s.Ord))
			sep := ","
			if j == i+chunk-1 || j == len(sites)-1 {
				sep = ""
			}
			fmt.Fprintf(&b, "  { key := 0x%016x, fn := %s, kind := %s, expr := %s, ord := %d,\n    guards := [%s], contract := %s }%s\n",
				key, leanStr(s.Fn), leanStr(s.Kind), leanStr(s.Expr), s.Ord, strings.Join(gs, ", "), leanStr(s.Contract), sep)
		}
		b.WriteString("]\n\n")
		nchunks++
	}
	b.WriteString("def sites : List Site :=\n  ")
	parts := []string{}
	for i := 0; i < nchunks; i++ {
		parts = append(parts, fmt.Sprintf("sites%d", i))
	}
	if len(parts) == 0 {
		parts = []string{"[]"}
	}
	b.WriteString(strings.Join(parts, " ++ "))
	fmt.Fprintf(&b, "\n\ndef siteCount : Nat := %d\n\n", len(sites))
	b.WriteString("/-- `len(operand) >= minLen` holds at the site: read off a dominating guard; `via` is the variable that holds the length (`l := len(raw)`) when the guard does not say `len(operand)` itself, `stale` that the operand is assigned between that definition and the site -/\nstructure LenGuard where\n  operand : String\n  minLen : Nat\n  via : String\n  stale : Bool\n  deriving Repr, DecidableEq\n\n")
	b.WriteString("/-- `operand[lo:need]` / `operand[need-1]` with a constant bound on a variable, and the length guards that dominate it -/\nstructure ConstBound where\n  key : Nat\n  fn : String\n  expr : String\n  operand : String\n  need : Nat\n  lenGuards : List LenGuard\n  deriving Repr\n\n")
	b.WriteString("def constBounds : List ConstBound := [\n")
	first := true
	for _, s := range sites {
		if s.CB == nil {
			continue
		}
		gs := []string{}
		for _, g := range s.CB.Guards {
			gs = append(gs, fmt.Sprintf("{ operand := %s, minLen := %d, via := %s, stale := %v }", leanStr(g.Operand), g.MinLen, leanStr(g.Via), g.Stale))
		}
		if !first {
			b.WriteString(",\n")
		}
		first = false
		key := fnv64(fmt.Sprintf("%s|%s|%s|%d", s.Fn, s.Kind, s.Expr, s.Ord))
		fmt.Fprintf(&b, "  { key := 0x%016x, fn := %s, expr := %s, operand := %s, need := %d,\n    lenGuards := [%s] }", key, leanStr(s.Fn), leanStr(s.Expr), leanStr(s.CB.Operand), s.CB.Need, strings.Join(gs, ", "))
	}
	b.WriteString("\n]\n\n")
	b.WriteString("/-- package-level facts the inventory relies on, re-established from the source on every run -/\ndef facts : List (String × String) := [\n")
	for i, f := range facts {
		sep := ","
		if i == len(facts)-1 {
			sep = ""
		}
		fmt.Fprintf(&b, "  (%s, %s)%s\n", leanStr(f[0]), leanStr(f[1]), sep)
	}
	b.WriteString("]\n\n")
	files := append([]string{}, anchored...)
	sort.Strings(files)
	fl := make([]string, len(files))
	for i, f := range files {
		fl[i] = leanStr(f)
	}
	fmt.Fprintf(&b, "def anchoredFiles : List String := [%s]\n\n", strings.Join(fl, ", "))
	rl := make([]string, len(reachable))
	for i, f := range reachable {
		rl[i] = leanStr(f)
	}
	fmt.Fprintf(&b, "/-- files outside the anchored list that are inventoried because the anchored entry points call into them -/\ndef reachableFiles : List String := [%s]\n\n", strings.Join(rl, ", "))
	pn := make([]string, 0, len(internalPartial))
	for n := range internalPartial {
		pn = append(pn, n)
	}
	sort.Strings(pn)
	sc := append([]string{}, covered...)
	sort.Strings(sc)
	cl := make([]string, len(sc))
	for i, f := range sc {
		cl[i] = leanStr(f)
	}
	fmt.Fprintf(&b, "/-- files the property text covers (metadata and configuration maps, parsers of caller-supplied strings) beyond the anchored list; inventoried like the anchored files -/\ndef coveredFiles : List String := [%s]\n\n", strings.Join(cl, ", "))
	dl := make([]string, len(coveredDirs))
	for i, f := range coveredDirs {
		dl[i] = leanStr(f)
	}
	fmt.Fprintf(&b, "/-- packages of which every non-test source file is inventoried (factgen fails on an unlisted file) -/\ndef coveredDirs : List String := [%s]\n\n", strings.Join(dl, ", "))
	b.WriteString("/-- dapr/kit functions that panic on part of their domain (every call to one is a site) -/\ndef partialFunctions : List (String × String) := [\n")
	for i, n := range pn {
		sep := ","
		if i == len(pn)-1 {
			sep = ""
		}
		fmt.Fprintf(&b, "  (%s, %s)%s\n", leanStr(n), leanStr(internalPartial[n].why), sep)
	}
	b.WriteString("]\n\nend Kit.Generated.C07\n")
	if *out == "" {
		os.Stdout.WriteString(b.String())
	} else if err := os.WriteFile(*out, []byte(b.String()), 0o644); err != nil {
		fmt.Fprintln(os.Stderr, err)
		os.Exit(1)
	}
	if *skeleton != "" {
		var sk strings.Builder
		for _, s := range sites {
			key := fnv64(fmt.Sprintf("%s|%s|%s|%d", s.Fn, s.Kind, s.Expr, s.Ord))
			fmt.Fprintf(&sk, "0x%016x\t%s\t%s\t%s\t%d\t%s\t%s\n", key, s.Fn, s.Kind, s.Expr, s.Ord, strings.Join(s.Guards, " ;; "), s.Contract)
		}
		os.WriteFile(*skeleton, []byte(sk.String()), 0o644)
	}
}
