#!/usr/bin/env python3
"""Helper used once per inventory change: turns factgen_c07's --skeleton TSV into the entries of
`lean/KitModel/NoPanicInventory.lean` (`table`). The rules below are the reviewed discharge of
every site; a site no rule matches is emitted as a Lean comment `-- UNDISCHARGED`, which makes
`sites_covered` fail. Usage: mktable.py skel.tsv > entries.txt
"""
import sys

def q(s):
    return '"' + s.replace('\\', '\\\\').replace('"', '\\"') + '"'

def lst(xs):
    return '[' + ', '.join(q(x) for x in xs) + ']'

def thm(owner, name, needs=()):
    return '.byTheorem %s %s %s' % (q(owner), q(name), lst(needs))

def guarded(conds, why):
    return '.guardedBy %s %s' % (lst(conds), q(why))

def rule(fn, kind, expr, ordn, guards, contract):
    g = set(guards)
    if kind == 'loop' and contract.startswith('counted loop'):
        return '.countedLoop'
    def need(*cs):
        for c in cs:
            if c not in g:
                raise SystemExit('guard %r expected at %s %s %s#%d, have %r' % (c, fn, kind, expr, ordn, guards))
        return list(cs)
    if kind == 'nilderef':
        v = expr.split('.')[0].lstrip('*')
        need('!(%s == nil)' % v)
        return '.nilChecked %s' % q(v)
    if kind == 'call' and expr.startswith('resource.ParseQuantity('):
        arg = expr[len('resource.ParseQuantity('):-1]
        need('!(exponentTooLarge(%s))' % arg)
        return '.guardedArg "resource.ParseQuantity" "exponentTooLarge" %s "quantity_arg_guarded"' % q(arg)
    # ---------------- cron ----------------
    if fn == 'cron.NewParser' and kind == 'panic':
        return '.documentedMisuse "NewParser with two optional fields (documented: It panics if more than one Optional is given)"'
    if fn == 'cron.Parser.Parse':
        if kind == 'slice':
            return thm('C04Parser', 'Kit.Cron.parse_never_panics', need('!(i == -1)'))
        return thm('C04Parser', 'Kit.Cron.parse_never_panics', need('!(strings.HasPrefix(spec, "@"))'))
    if fn == 'cron.normalizeFields':
        if expr.startswith('defaults['):
            return '.constIndex "defaults is a package-level literal of 6 strings"'
        if kind == 'make':
            return '.sizeFromLen "len(places)"'
        return thm('C04Parser', 'Kit.Cron.parse_never_panics', need('!(count < min || count > max)'))
    if fn == 'cron.getBits' and kind == 'loop':
        return thm('C04Parser', 'Kit.Cron.getBits_loop_terminates', [])
    if fn == 'cron.getRange':
        return thm('C04Parser', 'Kit.Cron.parse_never_panics', [])
    if fn == 'cron.parseDescriptor':
        return thm('C04Parser', 'Kit.Cron.parse_never_panics', need('strings.HasPrefix(descriptor, every)'))
    if fn == 'cron.SpecSchedule.Next':
        if kind in ('goto', 'loop'):
            return thm('C04Next', 'Kit.CronSpec.next_terminates', [])
        return '.byFact "cron.SpecSchedule literals with Location set from a variable" "6 of 6" "Parse assigns loc from time.Local or a successful time.LoadLocation and every schedule it builds carries it; t.Location() never returns nil"'
    # ---------------- time ----------------
    if fn == 'time.ParseISO8601Duration':
        n = {'from[0]': ['!(l < 2)'], 'from[1:i]': ['!(i-1 < 1)'], 'from[start:i]': ['for i < l'], 'for without condition': ['!(l < 2)'], 'for ; i < l; ': ['!(l < 2)']}.get(expr)
        if expr == 'from[i]':
            n = [['!(i == l)'], ['!(l < 2)'], ['for i < l']][ordn]
        return thm('C07', 'parseISO8601_never_panics', need(*n))
    # ---------------- crypto: calls to partial internal functions ----------------
    if contract.startswith('internal:'):
        sw = [c for c in guards if c.startswith('switch algorithm case')]
        if 'getSHAHash' in expr:
            return thm('C03', 'Kit.CryptoGlue.asym_never_panics', need(*sw[:1]) if sw else need('switch algorithm case'))
        side = 'Kit.C07.encryptSymmetric_never_panics' if 'ncrypt' in fn and ('encrypt' in expr or fn.startswith('crypto.encrypt')) else 'Kit.C07.decryptSymmetric_never_panics'
        if expr.startswith('expectedKeySize('):
            # inside a helper that is itself in `partialFunctions`: its callers are sites with the switch guard
            return thm('C07Imported', side, [])
        return thm('C07Imported', side, need(*sw[:1]) if sw else need('switch algorithm case'))
    if fn == 'crypto.getSHAHash':
        return thm('C03', 'Kit.CryptoGlue.asym_never_panics', [])
    # ---------------- crypto ----------------
    if fn in ('crypto.encryptPublicKeyRSAOAEP', 'crypto.decryptPrivateKeyRSAOAEP'):
        return '.byFact "hash packages in the transitive imports of package crypto" "crypto/sha1,crypto/sha256,crypto/sha512" "crypto.Hash.New panics only for a hash that is not linked in; getSHAHash is called with the *-256/384/512 names only (C03 dispatch_never_out_of_range)"'
    if fn == 'crypto.signPrivateKeyEdDSA':
        return '.delegated "jwx" "okpKey.Raw builds the private key with ed25519.NewKeyFromSeed after checking the seed size, so it has PrivateKeySize bytes (exercised: d of every length 0..40)"'
    if fn == 'crypto.verifyPublicKeyEdDSA':
        return thm('C07Sites', 'Kit.C07.verifyEd25519_sites', need('!(okpKey.Raw(&ed25519Key) != nil || len(ed25519Key) != ed25519.PublicKeySize)'))
    if fn == 'crypto.ParseKey':
        return thm('C07', 'parseKey_never_panics', need('!(l == 0)') + (need('len(raw) > 10') if kind == 'slice' else []))
    if fn == 'crypto.parseSymmetricKey':
        return thm('C07', 'parseSymmetric_never_panics', [])
    if fn == 'crypto.encryptSymmetricAESCBC':
        if kind == 'make':
            return '.sizeFromLen "len(plaintext)"'
        return thm('C07Imported', 'Kit.C07.encryptSymmetric_never_panics', need('!(len(iv) != aes.BlockSize)'))
    if fn == 'crypto.decryptSymmetricAESCBC':
        if kind == 'make':
            return '.sizeFromLen "len(ciphertext)"'
        if 'CryptBlocks' in expr:
            return thm('C07Imported', 'Kit.C07.decryptSymmetric_never_panics', need('!((len(ciphertext) % aes.BlockSize) != 0)', '!(len(iv) != aes.BlockSize)'))
        return thm('C07Imported', 'Kit.C07.decryptSymmetric_never_panics', need('!(len(iv) != aes.BlockSize)'))
    if fn == 'crypto.encryptSymmetricAEAD':
        return thm('C07Imported', 'Kit.C07.encryptSymmetric_never_panics', need('!(len(nonce) != aead.NonceSize())'))
    if fn == 'crypto.decryptSymmetricAEAD':
        if kind == 'make':
            return '.sizeFromLen "len(ciphertext)+len(tag)"'
        return thm('C07Imported', 'Kit.C07.decryptSymmetric_never_panics', need('!(len(nonce) != aead.NonceSize())'))
    if fn == 'crypto.encryptSymmetricChaCha20Poly1305':
        return thm('C07Imported', 'Kit.C07.encryptSymmetric_never_panics', need('!(err != nil)'))
    if fn == 'crypto.decryptSymmetricChaCha20Poly1305':
        if kind == 'make':
            return '.sizeFromLen "len(ciphertext)+len(tag)"'
        return thm('C07Imported', 'Kit.C07.decryptSymmetric_never_panics', need('!(err != nil)'))
    if fn == 'crypto.expectedKeySize':
        return thm('C07Imported', 'Kit.C07.encryptSymmetric_never_panics', [])
    # ---------------- crypto/pem ----------------
    if fn == 'crypto/pem.DecodePEMCertificates' and kind == 'loop':
        return thm('C07', 'decodeCertificates_terminates', [])
    if fn == 'crypto/pem.DecodePEMCertificatesChain':
        return thm('C07', 'chainLoop_never_panics', need('for i < len(certs)-1'))
    # ---------------- aeskw ----------------
    if fn == 'crypto/aeskw.Wrap':
        return thm('C07Sites', 'Kit.C07.aeskw_wrap_sites', need('!(len(cek)%8 != 0)', '!(len(cek) < 16)'))
    if fn == 'crypto/aeskw.Unwrap':
        return thm('C07Sites', 'Kit.C07.aeskw_unwrap_sites', need('!(len(cipherText) < 24 || len(cipherText)%8 != 0)'))
    if fn == 'crypto/aeskw.arrConcat':
        return thm('C07Sites', 'Kit.C07.arrConcat_sites', [])
    if fn == 'crypto/aeskw.arrXor':
        return thm('C07Sites', 'Kit.C07.arrXor_sites', need('range x over arrL') if kind == 'index' else [])
    # ---------------- padding ----------------
    if fn == 'crypto/padding.PadPKCS7':
        if kind == 'make':
            return thm('C07Imported', 'Kit.C07.pad_never_panics', need('!(size <= 1 || size >= 256)'))
        return thm('C07Imported', 'Kit.C07.pad_never_panics', need('!(size <= 1 || size >= 256)'))
    if fn == 'crypto/padding.UnpadPKCS7':
        if kind == 'div':
            return thm('C07Imported', 'Kit.C07.unpad_never_panics', need('!(size <= 1 || size >= 256)'))
        if expr == 'buf[l-1]':
            return thm('C07Imported', 'Kit.C07.unpad_never_panics', need('!(l == 0)'))
        return thm('C07Imported', 'Kit.C07.unpad_never_panics', need('!(padLen <= 0 || padLen > size)', '!(l%size != 0)', '!(l == 0)'))
    # ---------------- aescbcaead ----------------
    if fn == 'crypto/aescbcaead.NewAESCBCAEAD':
        return thm('C07Sites', 'Kit.C07.newAESCBCAEAD_sites', need('!(len(p.key) != l)'))
    if fn == 'crypto/aescbcaead.aesCBCAEAD.Seal':
        if expr == 'panic("invalid nonce")':
            return '.documentedMisuse "cipher.AEAD Seal with a wrong-size nonce (standard-library contract)"'
        if kind == 'panic':
            return thm('C07Imported', 'Kit.C07.aescbcaead_params_sound', need('err != nil'))
        if kind == 'make':
            return thm('C07Sites', 'Kit.C07.growDst_sites', need('!(cap(dst) >= (dstLen + size))'))
        if expr == 'dst[:dstLen+size]':
            return thm('C07Sites', 'Kit.C07.growDst_sites', need('cap(dst) >= (dstLen + size)'))
        if expr == 'dst[dstLen:]':
            return thm('C07Sites', 'Kit.C07.growDst_sites', [])
        return thm('C07Imported', 'Kit.C07.cbcHmacSeal_never_panics', need('!(len(nonce) != aes.BlockSize)'))
    if fn == 'crypto/aescbcaead.aesCBCAEAD.Open':
        base = ['!(len(nonce) != aes.BlockSize)']
        if expr.startswith('ciphertext['):
            return thm('C07Sites', 'Kit.C07.aeadOpen_sites', need(*base, '!(len(ciphertext) < aead.tagSize)'))
        if expr == 'dst[:dstLen+size]':
            return thm('C07Sites', 'Kit.C07.aeadOpen_sites', need(*base, 'cap(dst) >= (dstLen + size)'))
        if kind == 'make':
            return thm('C07Sites', 'Kit.C07.aeadOpen_sites', need(*base, '!(cap(dst) >= (dstLen + size))'))
        if 'CryptBlocks' in expr:
            return thm('C07Sites', 'Kit.C07.aeadOpen_sites', need(*base, '!(len(ciphertext)%aes.BlockSize != 0)'))
        return thm('C07Sites', 'Kit.C07.aeadOpen_sites', need(*base))
    if fn == 'crypto/aescbcaead.aesCBCAEAD.hmacTag':
        return thm('C07Sites', 'Kit.C07.hmacTag_sites', [])
    # ---------------- enc ----------------
    if fn in ('schemes/enc/v1.processSegments', 'schemes/enc/v1.readHeader'):
        if kind == 'assert':
            return '.byFact "enc.BufPool holds *[]byte only (New\'s result, Put arguments in the package)" "New: true; Put: 2 of 2" "the unchecked assertion on BufPool.Get() sees only what New returns or the package Put back (other packages putting foreign values is C08)"'
        if kind == 'loop':
            t = {'for ; !done; ': 'processSegments_terminates', 'for ; n < (segmentSize+1) && err == nil; ': 'fill_terminates',
                 'for ; newlines < 3 && err == nil; ': 'readHeader_terminates'}[expr]
            return thm('C01NoPanic', 'Kit.Enc.C01NoPanic.' + t, [])
        if fn.endswith('processSegments'):
            n = {'(*buf)[0]': ['hasCarryover'], '(*buf)[n:(segmentSize + 1)]': ['for n < (segmentSize+1) && err == nil'],
                 '(*buf)[n-1]': ['n > segmentSize'], '(*buf)[:n]': ['!(n == 0)']}.get(expr, [])
            return thm('C01NoPanic', 'Kit.Enc.C01NoPanic.processSegments_never_panics', need(*n))
        n = {'(*buf)[n:SegmentSize]': ['!(n == ul)'], '(*buf)[i]': ['for i < (n+nn) && newlines < 3'], '(*buf)[lastNewline:i]': ['!(i <= lastNewline)'],
             'make([]byte, n-lastNewline)': ['n > lastNewline'], '(*buf)[(lastNewline):n]': ['n > lastNewline']}.get(expr, [])
        return thm('C01NoPanic', 'Kit.Enc.C01NoPanic.readHeader_never_panics', need(*n))
    # ---------------- metadata ----------------
    if fn == 'metadata.toTimeDurationHookFunc':
        if kind == 'call':
            return thm('C07Sites', 'Kit.C07.hookTypeCalls_sites', [])
        return thm('C07', 'hookChain_never_panics', need('!(t != reflect.TypeOf(Duration{}) && t != reflect.TypeOf(time.Duration(0)))'))
    if fn in ('metadata.toTruthyBoolHookFunc', 'metadata.toStringArrayHookFunc', 'metadata.toTimeDurationArrayHookFunc'):
        if kind == 'make':
            return '.sizeFromLen "len(parts)"'
        conds = [c for c in guards if c.startswith('f == stringType')]
        return thm('C07', 'hookChain_never_panics', need(*conds))
    if fn in ('metadata.GetMetadataPropertyWithMatchedKey',) or (fn == 'metadata.resolveAliases' and kind == 'make'):
        return '.sizeFromLen "len of a map"'
    if fn == 'metadata.exponentTooLarge':
        return thm('C07', 'exponentTooLarge_never_panics', need('!(i < 0 || i == len(str)-1)'))
    if fn == 'metadata.DecodeMetadata':
        if expr == 'f.Interface()':
            return thm('C07Sites', 'Kit.C07.decodeMetadata_reflect_sites', need('err == nil && f.Kind() == reflect.Map && f.CanInterface()'))
        return thm('C07Sites', 'Kit.C07.decodeMetadata_reflect_sites', need('v.Kind() == reflect.Struct'))
    if fn == 'metadata.resolveAliases':
        if expr == 't.Elem()':
            return thm('C07Sites', 'Kit.C07.resolveAliases_reflect_sites', need('!(t.Kind() != reflect.Pointer)') if ordn == 0 else need('t.Kind() == reflect.Pointer'))
        return thm('C07Sites', 'Kit.C07.resolveAliases_reflect_sites', [])
    if fn == 'metadata.resolveAliasesInType':
        return thm('C07Sites', 'Kit.C07.resolveAliases_reflect_sites', need('for i < t.NumField()') if expr == 't.Field(i)' else [])
    # ---------------- config ----------------
    if fn == 'config.var':
        return thm('C07Sites', 'Kit.C07.typeElem_sites', [])
    if fn == 'config.decodeString':
        if expr in ('t.Kind()', 'f.Kind()'):
            return thm('C07Sites', 'Kit.C07.hookTypeCalls_sites', [])
        if kind == 'loop':
            return thm('C07Sites', 'Kit.C07.unwrapIface_terminates', [])
        if expr == 'reflect.ValueOf(data).Elem()':
            return thm('C07Sites', 'Kit.C07.decodeString_reflect_sites', need('f.Kind() == reflect.Ptr'))
        if expr == 'inner.IsNil()':
            return thm('C07Sites', 'Kit.C07.decodeString_reflect_sites', need('inner.Kind() == reflect.Interface') if ordn == 0 else need('(inner.Kind() == reflect.Interface || inner.Kind() == reflect.Ptr)'))
        if expr == 'inner.Elem()':
            return thm('C07Sites', 'Kit.C07.decodeString_reflect_sites', need('for inner.Kind() == reflect.Interface && !inner.IsNil()'))
        if expr == 'f.Elem()':
            return thm('C07Sites', 'Kit.C07.typeElem_sites', need('f.Kind() == reflect.Ptr'))
        if expr == 'elem.Interface()':
            return thm('C07Sites', 'Kit.C07.decodeString_reflect_sites', need('!(!inner.IsValid() || ((inner.Kind() == reflect.Interface || inner.Kind() == reflect.Ptr) && inner.IsNil()))'))
        if expr in ('t.Implements(typeStringDecoder)', 'reflect.PtrTo(t).Implements(typeStringDecoder)', 'reflect.PtrTo(t)', 'reflect.New(t)', 'reflect.New(t).Interface()'):
            return thm('C07Sites', 'Kit.C07.hookTypeCalls_sites', [])
        if any(c == 't.Implements(typeStringDecoder)' for c in guards):
            # hypothesis of the theorem: a type implementing StringDecoder directly is a pointer type
            return thm('C07', 'decodeString_never_panics', need('t.Implements(typeStringDecoder)'))
        if expr == 'result.(StringDecoder)':
            return thm('C07', 'decodeString_never_panics', need('reflect.PtrTo(t).Implements(typeStringDecoder)'))
        if expr == 't.Kind()':
            return guarded([], 't is non-nil after the first Kind() call returned')
        if expr == 't.Elem()':
            return thm('C07Sites', 'Kit.C07.typeElem_sites', need('t.Kind() == reflect.Ptr'))
    if fn == 'config.PrefixedBy' and kind == 'make':
        return '.sizeFromLen "len of a map"'
    if fn == 'config.uncapitalize':
        # vv := []rune(str); vv[0]: the model decodes UTF-8 the way the runtime does and mirrors the len(str) guard
        return thm('C07', 'uncapitalize_never_panics', need('!(len(str) == 0)'))
    if fn == 'config.Normalize':
        return thm('C07', 'normalize_never_panics', need('range i over x'))
    return None

def main():
    """mktable.py skel.tsv [NoPanicInventory.lean]: print the entries, or rewrite the table region of the Lean file."""
    pairs = []
    bad = 0
    for line in open(sys.argv[1]):
        key, fn, kind, expr, ordn, guards, contract = line.rstrip('\n').split('\t')
        gs = [g for g in guards.split(' ;; ') if g]
        d = rule(fn, kind, expr, int(ordn), gs, contract)
        label = '%s | %s | %s #%s' % (fn, kind, expr, ordn)
        if d is None:
            pairs.append(('  -- UNDISCHARGED %s  %s' % (key, label), None))
            bad += 1
        else:
            pairs.append(('  -- ' + label, '  (%s, %s)' % (key, d)))
    good = [p for p in pairs if p[1] is not None]
    chunks = [good[i:i + 25] for i in range(0, len(good), 25)]
    out = []
    for c, e in pairs:
        if e is None:
            out.append(c + '\n')
    for n, ch in enumerate(chunks):
        out.append('def table%d : List (Nat × Discharge) := [\n' % n)
        for j, (c, e) in enumerate(ch):
            out.append(c + '\n' + e + (',' if j < len(ch) - 1 else '') + '\n')
        out.append(']\n\n')
    out.append('def table : List (Nat × Discharge) :=\n  ' + ' ++ '.join('table%d' % n for n in range(len(chunks))) + '\n\n')
    text = ''.join(out)
    if len(sys.argv) > 2:
        src = open(sys.argv[2]).read()
        a = src.index('-- BEGIN TABLE')
        a = src.index('\n', a) + 1
        b = src.index('-- END TABLE')
        open(sys.argv[2], 'w').write(src[:a] + text + src[b:])
    else:
        print(text)
    print('sites: %d, undischarged: %d' % (len(pairs), bad), file=sys.stderr)

if __name__ == '__main__':
    main()
