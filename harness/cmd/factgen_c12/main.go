// factgen_c12 re-extracts from concurrency/runner.go and concurrency/closer.go the facts the C12
// models (lean/KitModel/Runner.lean) are parameterised by and the statement shapes they assume:
// where `running` is tested and the runners are read relative to the lock, the deferred cancel()
// calls, the error filter, the bounds of the two collection loops and the index at which
// closeFatalShutdown is closed, AddCloser's checks and its type switch, when the fatal closer and
// the closeCh runner are registered, Close's two CAS-guarded closes.
//
// Method: every statement of the anchored functions is printed (go/printer, comments dropped,
// white space collapsed) and compared with the expected text; the few places that carry a
// parameter are destructured on the AST. A statement that is neither the expected text nor a
// *named* alternative makes factgen exit non-zero (the check then reports the T1 tie as broken);
// nothing is defaulted.
package main

import (
	"bytes"
	"flag"
	"fmt"
	"go/ast"
	"go/parser"
	"go/printer"
	"go/token"
	"os"
	"path/filepath"
	"strconv"
	"strings"
)

var fset = token.NewFileSet()

func fail(n ast.Node, format string, a ...any) {
	pos := ""
	if n != nil {
		pos = fset.Position(n.Pos()).String() + ": "
	}
	fmt.Fprintf(os.Stderr, "factgen_c12: %sunknown shape: %s\n", pos, fmt.Sprintf(format, a...))
	os.Exit(1)
}

// norm prints a node on one line in a canonical spacing: white space collapsed, none inside
// braces' edges, no trailing comma before a closing brace.
func norm(n ast.Node) string {
	var b bytes.Buffer
	if err := printer.Fprint(&b, fset, n); err != nil {
		fail(n, "cannot print: %v", err)
	}
	return canon(b.String())
}

func canon(s string) string {
	s = strings.Join(strings.Fields(s), " ")
	s = strings.ReplaceAll(s, "{ ", "{")
	s = strings.ReplaceAll(s, " }", "}")
	s = strings.ReplaceAll(s, ",}", "}")
	return s
}

func parse(path string) *ast.File {
	f, err := parser.ParseFile(fset, path, nil, 0) // comments dropped
	if err != nil {
		fail(nil, "%v", err)
	}
	return f
}

func method(f *ast.File, recv, name string) *ast.FuncDecl {
	for _, d := range f.Decls {
		fd, ok := d.(*ast.FuncDecl)
		if !ok || fd.Name.Name != name {
			continue
		}
		if recv == "" && fd.Recv == nil {
			return fd
		}
		if fd.Recv != nil && len(fd.Recv.List) == 1 && is(fd.Recv.List[0].Type, "*"+recv) {
			return fd
		}
	}
	fail(nil, "func (%s) %s not found", recv, name)
	return nil
}

// expect checks that the statements are exactly the given texts.
func expect(where string, at ast.Node, stmts []ast.Stmt, want ...string) {
	if len(stmts) != len(want) {
		got := make([]string, len(stmts))
		for i, s := range stmts {
			got[i] = norm(s)
		}
		fail(at, "%s: %d statements, expected %d:\n  got  %q\n  want %q", where, len(stmts), len(want), got, want)
	}
	for i, s := range stmts {
		if got := norm(s); got != canon(want[i]) {
			fail(s, "%s: statement %d is\n  %s\nexpected\n  %s", where, i, got, want[i])
		}
	}
}

func texts(stmts []ast.Stmt) []string {
	out := make([]string, len(stmts))
	for i, s := range stmts {
		out[i] = norm(s)
	}
	return out
}

func eqTexts(a []string, b ...string) bool {
	if len(a) != len(b) {
		return false
	}
	for i := range a {
		if a[i] != canon(b[i]) {
			return false
		}
	}
	return true
}

// is compares a printed node with an expected text (both in canonical spacing).
func is(n ast.Node, want string) bool { return norm(n) == canon(want) }

func intLit(e ast.Expr) (int, bool) {
	if l, ok := e.(*ast.BasicLit); ok && l.Kind == token.INT {
		n, err := strconv.Atoi(l.Value)
		return n, err == nil
	}
	return 0, false
}

// lenPlus destructures `len(<of>)`, `len(<of>) + k`, `len(<of>) - k`.
func lenPlus(e ast.Expr, of string) (plus, minus int, ok bool) {
	if is(e, "len("+of+")") {
		return 0, 0, true
	}
	if b, isBin := e.(*ast.BinaryExpr); isBin && is(b.X, "len("+of+")") {
		if k, isLit := intLit(b.Y); isLit {
			switch b.Op {
			case token.ADD:
				return k, 0, true
			case token.SUB:
				return 0, k, true
			}
		}
	}
	return 0, 0, false
}

type facts struct {
	lines []string
}

func (f *facts) boolean(name, doc string, v bool) {
	f.lines = append(f.lines, fmt.Sprintf("/-- %s -/\ndef %s : Bool := %v\n", doc, name, v))
}
func (f *facts) nat(name, doc string, v int) {
	f.lines = append(f.lines, fmt.Sprintf("/-- %s -/\ndef %s : Nat := %d\n", doc, name, v))
}
func (f *facts) strs(name, doc string, v []string) {
	q := make([]string, len(v))
	for i, s := range v {
		q[i] = strconv.Quote(s)
	}
	f.lines = append(f.lines, fmt.Sprintf("/-- %s -/\ndef %s : List String := [%s]\n", doc, name, strings.Join(q, ", ")))
}

const (
	rejStarted = "return ErrManagerAlreadyStarted"
	rejClosed  = "return ErrManagerAlreadyClosed"
)

func runnerFacts(f *ast.File, out *facts) {
	// ---- Add
	add := method(f, "RunnerManager", "Add")
	at := texts(add.Body.List)
	switch {
	case eqTexts(at, "r.lock.Lock()", "defer r.lock.Unlock()", "if r.running.Load() { "+rejStarted+" }",
		"r.runners = append(r.runners, runner...)", "return nil"):
		out.boolean("addChecksRunningUnderLock", "RunnerManager.Add: lock; defer unlock; `if r.running.Load() { return ErrManagerAlreadyStarted }`; append; return nil", true)
	case eqTexts(at, "if r.running.Load() { "+rejStarted+" }", "r.lock.Lock()", "defer r.lock.Unlock()",
		"r.runners = append(r.runners, runner...)", "return nil"):
		out.boolean("addChecksRunningUnderLock", "RunnerManager.Add tests `running` BEFORE taking the lock (check-then-act)", false)
	default:
		fail(add, "RunnerManager.Add body %q", at)
	}

	// ---- Run
	run := method(f, "RunnerManager", "Run")
	body := run.Body.List
	cas := "if !r.running.CompareAndSwap(false, true) { r.lock.Unlock() " + rejStarted + " }"
	src := "" // what the spawn loop ranges over and the collection loop measures
	switch {
	case len(body) >= 4 && eqTexts(texts(body[:4]), "r.lock.Lock()", cas, "runners := r.runners", "r.lock.Unlock()"):
		out.boolean("runCasAndSnapshotUnderLock", "RunnerManager.Run: lock; CAS running (unlock+reject on failure); `runners := r.runners`; unlock", true)
		src = "runners"
		body = body[4:]
	case len(body) >= 1 && is(body[0], "if !r.running.CompareAndSwap(false, true) { "+rejStarted+" }"):
		out.boolean("runCasAndSnapshotUnderLock", "RunnerManager.Run does its CAS without the lock and reads r.runners later, unlocked", false)
		src = "r.runners"
		body = body[1:]
	default:
		fail(run, "RunnerManager.Run prologue %q", texts(body))
	}
	if len(body) != 7 {
		fail(run, "RunnerManager.Run: %d statements after the prologue, expected 7: %q", len(body), texts(body))
	}
	expect("RunnerManager.Run", run, body[:2], "ctx, cancel := context.WithCancel(ctx)", "defer cancel()")
	out.boolean("runDefersCancel", "Run derives a cancellable ctx and defers cancel()", true)
	// errCh
	switch norm(body[2]) {
	case "errCh := make(chan error)":
		out.nat("errChCapacity", "capacity of the runners' result channel (0 = rendez-vous)", 0)
	default:
		fail(body[2], "errCh creation %q", norm(body[2]))
	}
	// spawn loop
	rng, ok := body[3].(*ast.RangeStmt)
	if !ok || !is(rng.Key, "_") || !is(rng.Value, "runner") || norm(rng.X) != src || len(rng.Body.List) != 1 {
		fail(body[3], "spawn loop %q (expected `for _, runner := range %s` with one statement)", norm(body[3]), src)
	}
	gs, ok := rng.Body.List[0].(*ast.GoStmt)
	if !ok || len(gs.Call.Args) != 1 || !is(gs.Call.Args[0], "runner") {
		fail(rng.Body.List[0], "spawn loop body is not `go func(runner Runner){…}(runner)`")
	}
	fl, ok := gs.Call.Fun.(*ast.FuncLit)
	if !ok || !is(fl.Type, "func(runner Runner)") {
		fail(gs, "goroutine is not a func(runner Runner) literal")
	}
	g := fl.Body.List
	cancels := 0
	ast.Inspect(fl, func(n ast.Node) bool {
		if c, ok := n.(*ast.CallExpr); ok && is(c.Fun, "cancel") {
			cancels++
		}
		return true
	})
	switch {
	case len(g) == 4 && is(g[0], "defer cancel()") && cancels == 1:
		out.boolean("goroutineDefersCancel", "every runner goroutine starts with `defer cancel()` (it runs after the result was handed over)", true)
		g = g[1:]
	case len(g) == 3 && cancels == 0:
		out.boolean("goroutineDefersCancel", "the runner goroutines never call cancel()", false)
	default:
		fail(fl, "goroutine body %q", texts(g))
	}
	if !is(g[0], "rErr := runner(ctx)") || !is(g[2], "errCh <- nil") {
		fail(fl, "goroutine body %q", texts(g))
	}
	ifs, ok := g[1].(*ast.IfStmt)
	if !ok || ifs.Init != nil || ifs.Else != nil || !eqTexts(texts(ifs.Body.List), "errCh <- rErr", "return") {
		fail(g[1], "error filter %q", norm(g[1]))
	}
	switch norm(ifs.Cond) {
	case "rErr != nil && !errors.Is(rErr, context.Canceled)":
		out.boolean("filterDropsCanceled", "a result is handed over as an error iff `rErr != nil && !errors.Is(rErr, context.Canceled)`, otherwise nil is sent", true)
	case "rErr != nil":
		out.boolean("filterDropsCanceled", "context.Canceled results are NOT filtered", false)
	default:
		fail(ifs, "error filter condition %q", norm(ifs.Cond))
	}
	// collection loop
	if !is(body[4], "errObjs := make([]error, 0)") {
		fail(body[4], "%q", norm(body[4]))
	}
	loop, ok := body[5].(*ast.ForStmt)
	if !ok || loop.Init == nil || loop.Cond == nil || !is(loop.Post, "i++") {
		fail(body[5], "collection loop %q", norm(body[5]))
	}
	ini, ok := loop.Init.(*ast.AssignStmt)
	if !ok || ini.Tok != token.DEFINE || !is(ini.Lhs[0], "i") {
		fail(loop, "collection loop init %q", norm(loop.Init))
	}
	start, ok := intLit(ini.Rhs[0])
	if !ok {
		fail(loop, "collection loop start %q", norm(ini.Rhs[0]))
	}
	cond, ok := loop.Cond.(*ast.BinaryExpr)
	if !ok || cond.Op != token.LSS || !is(cond.X, "i") {
		fail(loop, "collection loop condition %q", norm(loop.Cond))
	}
	plus, minus, ok := lenPlus(cond.Y, src)
	if !ok {
		fail(loop, "collection loop bound %q (expected len(%s) ± literal)", norm(cond.Y), src)
	}
	expect("collection loop", loop, loop.Body.List, "err := <-errCh", "if err != nil { errObjs = append(errObjs, err) }")
	out.nat("collectStart", "collection loop: `for i := collectStart; i < len(runners) + collectBoundPlus - collectBoundMinus; i++ { err := <-errCh; if err != nil { append } }`", start)
	out.nat("collectBoundPlus", "see collectStart", plus)
	out.nat("collectBoundMinus", "see collectStart", minus)
	if !is(body[6], "return errors.Join(errObjs...)") {
		fail(body[6], "%q", norm(body[6]))
	}
	out.boolean("runReturnsJoin", "Run returns errors.Join(errObjs...)", true)
}

func closerFacts(f *ast.File, out *facts) {
	// ---- constructor
	ctor := method(f, "", "NewRunnerCloserManager")
	cb := ctor.Body.List
	if len(cb) != 5 {
		fail(ctor, "NewRunnerCloserManager: %d statements, expected 5: %q", len(cb), texts(cb))
	}
	want0 := "c := &RunnerCloserManager{mngr: NewRunnerManager(runners...), clock: clock.RealClock{}, stopped: make(chan struct{}), closeCh: make(chan struct{}), closeFatalShutdown: make(chan struct{})}"
	if !is(cb[0], want0) {
		fail(cb[0], "constructor literal\n  %s\nexpected\n  %s", norm(cb[0]), want0)
	}
	gi, ok := cb[1].(*ast.IfStmt)
	if !ok || !is(gi.Cond, "gracePeriod == nil") || len(gi.Body.List) != 2 || !is(gi.Body.List[1], "return c") ||
		!strings.HasPrefix(norm(gi.Body.List[0]), "log.Warn(") {
		fail(cb[1], "grace-period guard %q", norm(cb[1]))
	}
	out.boolean("fatalCloserOnlyWithGrace", "NewRunnerCloserManager returns before registering the fatal closer iff gracePeriod == nil", true)
	if !strings.HasPrefix(norm(cb[2]), "c.fatalShutdownFn = func() {log.Fatal(") {
		fail(cb[2], "%q", norm(cb[2]))
	}
	es, ok := cb[3].(*ast.ExprStmt)
	var fatal *ast.FuncLit
	if ok {
		if call, isCall := es.X.(*ast.CallExpr); isCall && is(call.Fun, "c.AddCloser") && len(call.Args) == 1 {
			fatal, _ = call.Args[0].(*ast.FuncLit)
		}
	}
	if fatal == nil || !is(fatal.Type, "func()") || !is(cb[4], "return c") {
		fail(cb[3], "fatal closer registration %q", norm(cb[3]))
	}
	fb := fatal.Body.List
	if len(fb) != 4 || !strings.HasPrefix(norm(fb[0]), "log.Debugf(") {
		fail(fatal, "fatal closer body %q", texts(fb))
	}
	expect("fatal closer", fatal, fb[1:], "t := c.clock.NewTimer(*gracePeriod)", "defer t.Stop()",
		"select { case <-t.C(): c.fatalShutdownFn() case <-c.closeFatalShutdown: }")
	out.boolean("fatalCloserIsFirstCloser", "the fatal closer is registered by the constructor through AddCloser(func(){…}), i.e. it is c.closers[0]", true)
	out.boolean("fatalCloserSelect", "fatal closer: `t := c.clock.NewTimer(*gracePeriod); defer t.Stop(); select { case <-t.C(): c.fatalShutdownFn(); case <-c.closeFatalShutdown: }`", true)

	// ---- Add
	expect("RunnerCloserManager.Add", nil, method(f, "RunnerCloserManager", "Add").Body.List,
		"if c.running.Load() { "+rejStarted+" }", "return c.mngr.Add(runner...)")
	out.boolean("rcmAddChecksRunningThenInnerAdd", "RunnerCloserManager.Add: `if c.running.Load() { reject }; return c.mngr.Add(runner...)`", true)

	// ---- AddCloser
	ac := method(f, "RunnerCloserManager", "AddCloser")
	ab := ac.Body.List
	chk := "if c.closing.Load() { " + rejClosed + " }"
	if len(ab) < 3 || !eqTexts(texts(ab[:3]), chk, "c.mngr.lock.Lock()", "defer c.mngr.lock.Unlock()") {
		fail(ac, "AddCloser prologue %q", texts(ab))
	}
	ab = ab[3:]
	switch {
	case len(ab) == 4 && is(ab[0], chk):
		out.boolean("addCloserRechecksClosingUnderLock", "AddCloser tests `closing` again after taking mngr.lock (Run sets it while holding that lock)", true)
		ab = ab[1:]
	case len(ab) == 3:
		out.boolean("addCloserRechecksClosingUnderLock", "AddCloser tests `closing` only BEFORE taking mngr.lock (check-then-act)", false)
	default:
		fail(ac, "AddCloser body %q", texts(ab))
	}
	if !is(ab[0], "var errs []error") || !is(ab[2], "return errors.Join(errs...)") {
		fail(ac, "AddCloser body %q", texts(ab))
	}
	rng, ok := ab[1].(*ast.RangeStmt)
	if !ok || !is(rng.Value, "cl") || !is(rng.X, "closers") || len(rng.Body.List) != 1 {
		fail(ab[1], "AddCloser loop %q", norm(ab[1]))
	}
	ts, ok := rng.Body.List[0].(*ast.TypeSwitchStmt)
	if !ok || !is(ts.Assign, "v := cl.(type)") {
		fail(rng.Body.List[0], "AddCloser type switch %q", norm(rng.Body.List[0]))
	}
	wantBody := map[string]string{
		"io.Closer":                   "c.closers = append(c.closers, v.Close)",
		"func(context.Context) error": "c.closers = append(c.closers, func() error { return v(context.Background()) })",
		"func() error":                "c.closers = append(c.closers, v)",
		"func()":                      "c.closers = append(c.closers, func() error { v() return nil })",
	}
	var shapes []string
	sawDefault := false
	for _, cc := range ts.Body.List {
		cl := cc.(*ast.CaseClause)
		if cl.List == nil {
			expect("AddCloser default case", cl, cl.Body, `errs = append(errs, fmt.Errorf("unsupported closer type: %T", v))`)
			sawDefault = true
			continue
		}
		if len(cl.List) != 1 {
			fail(cl, "AddCloser case with several types")
		}
		ty := norm(cl.List[0])
		wb, known := wantBody[ty]
		if !known {
			fail(cl, "AddCloser accepts a closer shape the model and harness do not know: %s", ty)
		}
		expect("AddCloser case "+ty, cl, cl.Body, wb)
		shapes = append(shapes, ty)
	}
	if !sawDefault {
		fail(ts, "AddCloser type switch has no default (unsupported) case")
	}
	out.strs("acceptedCloserShapes", "the closer shapes AddCloser accepts, in switch order; each is wrapped into a `func() error` (io.Closer → v.Close; func(ctx) error gets context.Background(); func() returns nil)", shapes)

	// ---- Run
	run := method(f, "RunnerCloserManager", "Run")
	rb := run.Body.List
	if len(rb) != 15 {
		fail(run, "RunnerCloserManager.Run: %d statements, expected 15: %q", len(rb), texts(rb))
	}
	expect("RunnerCloserManager.Run", run, rb[:2], "if !c.running.CompareAndSwap(false, true) { "+rejStarted+" }", "defer close(c.stopped)")
	out.boolean("rcmRunCasThenDeferCloseStopped", "RunnerCloserManager.Run: CAS running (reject on failure); `defer close(c.stopped)`", true)
	pi, ok := rb[2].(*ast.IfStmt)
	if !ok || pi.Else != nil || pi.Init != nil {
		fail(rb[2], "%q", norm(rb[2]))
	}
	expect("closeCh runner registration", pi, pi.Body.List,
		"c.mngr.Add(func(ctx context.Context) error { select { case <-ctx.Done(): case <-c.closeCh: } return nil })")
	pc, ok := pi.Cond.(*ast.BinaryExpr)
	if !ok || !is(pc.X, "len(c.mngr.runners)") {
		fail(pi, "closeCh runner condition %q", norm(pi.Cond))
	}
	k, ok := intLit(pc.Y)
	if !ok {
		fail(pi, "closeCh runner condition %q", norm(pi.Cond))
	}
	switch pc.Op {
	case token.GTR:
		k++
	case token.GEQ:
	default:
		fail(pi, "closeCh runner condition %q", norm(pi.Cond))
	}
	out.nat("closeRunnerMinRunners", "Run adds the runner `select { case <-ctx.Done(): case <-c.closeCh: }; return nil` iff at least this many runners are registered", k)
	expect("RunnerCloserManager.Run", run, rb[3:11],
		"errCh := make(chan error, len(c.closers))",
		"go func() { errCh <- c.mngr.Run(ctx) }()",
		"rErr := <-errCh",
		"c.mngr.lock.Lock()",
		"defer c.mngr.lock.Unlock()",
		"c.closing.Store(true)",
		"errs := make([]error, len(c.closers)+1)",
		"errs[0] = rErr")
	out.boolean("closingSetUnderLock", "after `rErr := <-errCh`: `c.mngr.lock.Lock(); defer c.mngr.lock.Unlock(); c.closing.Store(true)`; errs[0] = rErr", true)
	if !is(rb[11], "for _, closer := range c.closers { go func(closer func() error) { errCh <- closer() }(closer) }") {
		fail(rb[11], "closer spawn loop %q", norm(rb[11]))
	}
	loop, ok := rb[12].(*ast.ForStmt)
	if !ok || loop.Init == nil || loop.Cond == nil || !is(loop.Post, "i++") || len(loop.Body.List) != 2 {
		fail(rb[12], "closer collection loop %q", norm(rb[12]))
	}
	ini, ok := loop.Init.(*ast.AssignStmt)
	if !ok || ini.Tok != token.DEFINE || !is(ini.Lhs[0], "i") {
		fail(loop, "closer loop init %q", norm(loop.Init))
	}
	start, ok := intLit(ini.Rhs[0])
	if !ok {
		fail(loop, "closer loop start %q", norm(ini.Rhs[0]))
	}
	cond, ok := loop.Cond.(*ast.BinaryExpr)
	if !ok || cond.Op != token.LSS || !is(cond.X, "i") {
		fail(loop, "closer loop condition %q", norm(loop.Cond))
	}
	plus, minus, ok := lenPlus(cond.Y, "c.closers")
	if !ok || minus != 0 {
		fail(loop, "closer loop bound %q", norm(cond.Y))
	}
	ci, ok := loop.Body.List[0].(*ast.IfStmt)
	if !ok || ci.Else != nil || ci.Init != nil {
		fail(loop.Body.List[0], "%q", norm(loop.Body.List[0]))
	}
	expect("closeFatalShutdown", ci, ci.Body.List, "close(c.closeFatalShutdown)")
	cc, ok := ci.Cond.(*ast.BinaryExpr)
	if !ok || cc.Op != token.EQL || !is(cc.X, "i") {
		fail(ci, "closeFatalShutdown condition %q", norm(ci.Cond))
	}
	cplus, cminus, ok := lenPlus(cc.Y, "c.closers")
	if !ok || cminus != 0 {
		fail(ci, "closeFatalShutdown condition %q", norm(ci.Cond))
	}
	if !is(loop.Body.List[1], "errs[i] = <-errCh") {
		fail(loop.Body.List[1], "%q", norm(loop.Body.List[1]))
	}
	out.nat("closerLoopStart", "closer collection loop: `for i := closerLoopStart; i < len(c.closers) + closerLoopBoundPlus; i++ { if i == len(c.closers) + closeFatalAtPlus { close(c.closeFatalShutdown) }; errs[i] = <-errCh }`", start)
	out.nat("closerLoopBoundPlus", "see closerLoopStart", plus)
	out.nat("closeFatalAtPlus", "see closerLoopStart", cplus)
	expect("RunnerCloserManager.Run", run, rb[13:], "c.retErr = errors.Join(errs...)", "return c.retErr")
	out.boolean("retErrIsJoinRunnerFirst", "`c.retErr = errors.Join(errs...); return c.retErr` with errs[0] the inner manager's error and errs[i] the closers' results in collection order", true)

	// ---- Close / WaitUntilShutdown
	expect("RunnerCloserManager.Close", nil, method(f, "RunnerCloserManager", "Close").Body.List,
		"if c.closed.CompareAndSwap(false, true) { close(c.closeCh) }",
		"if c.running.CompareAndSwap(false, true) { close(c.stopped) }",
		"c.WaitUntilShutdown()", "return c.retErr")
	expect("RunnerCloserManager.WaitUntilShutdown", nil, method(f, "RunnerCloserManager", "WaitUntilShutdown").Body.List, "<-c.stopped")
	out.boolean("closeShape", "Close: `if c.closed.CAS(false,true) { close(c.closeCh) }; if c.running.CAS(false,true) { close(c.stopped) }; <-c.stopped; return c.retErr`", true)
}

func main() {
	repo := flag.String("repo", "/repo", "")
	outp := flag.String("out", "", "")
	flag.Parse()
	out := &facts{}
	runnerFacts(parse(filepath.Join(*repo, "concurrency/runner.go")), out)
	closerFacts(parse(filepath.Join(*repo, "concurrency/closer.go")), out)
	var b strings.Builder
	b.WriteString("/-! GENERATED by harness/cmd/factgen_c12 from /repo/concurrency/runner.go and closer.go — do not edit. -/\nnamespace Kit.Generated.C12\n\n")
	for _, l := range out.lines {
		b.WriteString(l)
		b.WriteString("\n")
	}
	b.WriteString("end Kit.Generated.C12\n")
	if *outp == "" {
		fmt.Print(b.String())
		return
	}
	if err := os.WriteFile(*outp, []byte(b.String()), 0o644); err != nil {
		fmt.Fprintln(os.Stderr, "factgen_c12:", err)
		os.Exit(1)
	}
}
