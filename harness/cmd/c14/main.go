// Harness for property C14: containers refine their models.
//
//	ring     : dapr/kit ring vs container/ring (monitor) vs Lean heap model, op sequences <= 60, sizes 0..5
//	buffered : ring.Buffered vs a plain Go slice queue (monitor) vs Lean model (incl. underlying ring length)
//	hist     : concurrent histories of cmap.Map, cmap.AtomicValue, cmap.Atomic, slice.Slice with
//	           invocation/response stamps; linearizability decided by a Go checker (monitor) and by the
//	           Lean checker over the Lean sequential specs
package main

import (
	"encoding/json"
	"fmt"
	"os"
	"strings"
	"time"

	"verifharness/lib"
)

type ctx struct {
	f   lib.Flags
	res *lib.Result
	drv *lib.Drv
	rnd *lib.Rand

	pendBuf  []pendBuf
	pendHist []pendHist
	burst    bool
	ringHung bool
}

// guarded runs fn under recover and a deadline: a panic or hang of the real code is an outcome.
func guarded(d time.Duration, fn func()) (outcome string) {
	done := make(chan string, 1)
	go func() {
		defer func() {
			if r := recover(); r != nil {
				done <- fmt.Sprintf("panic: %v", r)
			}
		}()
		fn()
		done <- "ok"
	}()
	select {
	case o := <-done:
		return o
	case <-time.After(d):
		return "timeout"
	}
}

type replayFile struct {
	Property  string          `json:"property"`
	FindingID string          `json:"finding_id"`
	Case      json.RawMessage `json:"case"`
}

type caseHdr struct {
	Kind string `json:"kind"`
}

func main() {
	f := lib.ParseFlags()
	res := lib.NewResult("ring: case has >= 1 Link/Unlink on rings of total size >= 2 or calls methods on zero-value/literal elements; buffered: case grows or shrinks the ring at least once or removes from empty; hist: >= 2 operations overlap in real time and >= 1 of them mutates; alias: a non-empty caller-owned buffer is passed with ...")
	drv, err := lib.StartDrv(f.Drv, "C14")
	if err != nil {
		fmt.Fprintln(os.Stderr, "c14: cannot start model driver:", err)
		os.Exit(3)
	}
	defer drv.Close()
	c := &ctx{f: f, res: res, drv: drv, rnd: lib.NewRand(f.Seed*0x9e3779b9 + 14)}
	if drv == nil {
		res.Note("model driver unavailable: monitors only")
	}

	if f.Replay != "" {
		c.replay(f.Replay)
		res.Write(f.Out)
		return
	}

	quick := f.Tier != "thorough"
	mult := 1
	if !quick {
		mult = 30
	}
	if f.Search {
		mult *= 20
	}
	c.bufferedExhaustive(quick)
	c.bufferedRandom(400 * mult)
	c.ringZeroValue()
	c.ringRandom(300 * mult)
	c.histories(quick, mult)
	c.forcedGetOrCreate()
	c.aliasFamilies()
	c.directedReadAll()
	c.spinReadAll(150 * mult)
	c.checkerControls()
	res.Exhaustive = false
	res.Write(f.Out)
}

func (c *ctx) replay(path string) {
	b, err := os.ReadFile(path)
	if err != nil {
		fmt.Fprintln(os.Stderr, "c14: replay:", err)
		os.Exit(3)
	}
	var rf replayFile
	if err := json.Unmarshal(b, &rf); err != nil {
		fmt.Fprintln(os.Stderr, "c14: replay:", err)
		os.Exit(3)
	}
	var h caseHdr
	_ = json.Unmarshal(rf.Case, &h)
	switch h.Kind {
	case "buffered":
		var bc bufCase
		_ = json.Unmarshal(rf.Case, &bc)
		c.runBuffered(bc, true)
		c.flushBuf()
	case "ring":
		var rc ringCase
		_ = json.Unmarshal(rf.Case, &rc)
		c.runRing(rc)
	case "alias":
		var ac aliasCase
		_ = json.Unmarshal(rf.Case, &ac)
		if ac.Scenario == "producers" {
			c.aliasProducers()
		} else if ac.Scenario == "keys-copy" {
			c.keysIndependent()
		} else {
			c.runAlias(ac)
		}
		c.flushHist()
	case "hist":
		var hc histCase
		_ = json.Unmarshal(rf.Case, &hc)
		// the recorded history is evidence of what was seen then: report the checkers' verdict on it,
		// but judge the current tree only by re-running the family that produced it
		c.res.Note(fmt.Sprintf("recorded history: Go checker says linearizable=%v", linearizable(hc.Obj, hc.Ops)))
		c.res.Sample(hc)
		// a schedule cannot be replayed exactly; re-run the family that produced it
		switch {
		case strings.HasPrefix(hc.Family, "directed"):
			var n int
			var script string
			if i := strings.Index(hc.Family, " script="); i >= 0 {
				script = hc.Family[i+len(" script="):]
				fmt.Sscanf(hc.Family[:i], "directed n=%d", &n)
			}
			if n >= 2 && hc.Obj == "map" {
				c.directedMapRange(n, strings.Split(script, ";"))
			} else if n >= 2 && hc.Obj == "amap" {
				c.directedAtomicForEach(n, strings.Split(script, ";"))
			}
		case strings.HasPrefix(hc.Family, "spin"):
			for i := 0; i < 1500; i++ {
				c.spinRun(hc.Obj, hc.Focus, i%3, 120+4*(i%3), 1+(i/3)%3, []int{120, 70, 50}[(i/3)%3])
			}
		default:
			for i := 0; i < 2000; i++ {
				c.oneHistory(hc.Obj, hc.Goroutines, hc.OpsPer, hc.Keys)
			}
		}
		c.flushHist()
	default:
		c.res.Note("replay file has no recognisable case (kind=" + h.Kind + "); nothing to re-execute")
	}
}

func join(xs []string, sep string) string { return strings.Join(xs, sep) }
