package main

import (
	"fmt"
	"sort"
	"strconv"
	"strings"

	"verifharness/lib"
)

func libNewScratch() *lib.Result { return lib.NewResult("") }

// seqState is a sequential reference object (plain Go map / int / slice); independent of the Lean model.
type seqState interface {
	clone() seqState
	key() string
	// apply performs op if res is a legal answer in this state.
	apply(o opRec) bool
}

type mapState struct{ m map[int]int }

func (s *mapState) clone() seqState {
	n := &mapState{m: map[int]int{}}
	for k, v := range s.m {
		n.m[k] = v
	}
	return n
}
func (s *mapState) key() string { return sortedPairs(s.m) }
func (s *mapState) apply(o opRec) bool {
	switch o.Op {
	case "store":
		s.m[o.Args[0]] = o.Args[1]
		return o.Res == "u"
	case "load", "lad":
		v, ok := s.m[o.Args[0]]
		if o.Op == "lad" {
			delete(s.m, o.Args[0])
		}
		return o.Res == fmt.Sprintf("v%d,%d", v, b2i(ok))
	case "delete":
		delete(s.m, o.Args[0])
		return o.Res == "u"
	case "clear":
		s.m = map[int]int{}
		return o.Res == "u"
	case "len":
		return o.Res == "n"+strconv.Itoa(len(s.m))
	case "keys":
		ks := make([]int, 0)
		for k := range s.m {
			ks = append(ks, k)
		}
		sort.Ints(ks)
		return o.Res == "l"+ints(ks)
	case "range":
		return o.Res == sortedPairs(s.m)
	}
	return false
}

type ctrState struct{ v int }

func (s *ctrState) clone() seqState { return &ctrState{s.v} }
func (s *ctrState) key() string     { return strconv.Itoa(s.v) }
func (s *ctrState) apply(o opRec) bool {
	switch o.Op {
	case "load":
		return o.Res == "n"+strconv.Itoa(s.v)
	case "store":
		s.v = o.Args[0]
		return o.Res == "u"
	case "add":
		s.v += o.Args[0]
		return o.Res == "n"+strconv.Itoa(s.v)
	}
	return false
}

type amState struct {
	items map[int]int // key -> counter name
	ctr   map[int]int // counter name -> value (every counter ever created)
}

func (s *amState) clone() seqState {
	n := &amState{items: map[int]int{}, ctr: map[int]int{}}
	for k, v := range s.items {
		n.items[k] = v
	}
	for k, v := range s.ctr {
		n.ctr[k] = v
	}
	return n
}
func (s *amState) key() string { return sortedPairs(s.items) + "|" + sortedPairs(s.ctr) }
func (s *amState) apply(o opRec) bool {
	switch o.Op {
	case "get":
		p, ok := s.items[o.Args[0]]
		return o.Res == fmt.Sprintf("v%d,%d", p, b2i(ok))
	case "goc":
		if p, ok := s.items[o.Args[0]]; ok {
			return o.Res == "n"+strconv.Itoa(p)
		}
		if !strings.HasPrefix(o.Res, "n") {
			return false
		}
		p, err := strconv.Atoi(o.Res[1:])
		if err != nil || p < 0 {
			return false
		}
		if _, used := s.ctr[p]; used {
			return false // a new counter must have a new address
		}
		s.items[o.Args[0]] = p
		s.ctr[p] = o.Args[1]
		return true
	case "delete":
		delete(s.items, o.Args[0])
		return o.Res == "u"
	case "clear":
		s.items = map[int]int{}
		return o.Res == "u"
	case "foreach":
		return o.Res == sortedPairs(s.items)
	case "cload":
		v, ok := s.ctr[o.Args[0]]
		return ok && o.Res == "n"+strconv.Itoa(v)
	case "cstore":
		if _, ok := s.ctr[o.Args[0]]; !ok {
			return false
		}
		s.ctr[o.Args[0]] = o.Args[1]
		return o.Res == "u"
	case "cadd":
		if _, ok := s.ctr[o.Args[0]]; !ok {
			return false
		}
		s.ctr[o.Args[0]] += o.Args[1]
		return o.Res == "n"+strconv.Itoa(s.ctr[o.Args[0]])
	}
	return false
}

type slState struct{ d []int }

func (s *slState) clone() seqState { return &slState{append([]int{}, s.d...)} }
func (s *slState) key() string     { return ints(s.d) }
func (s *slState) apply(o opRec) bool {
	switch o.Op {
	case "append":
		s.d = append(s.d, o.Args...)
		return o.Res == "n"+strconv.Itoa(len(s.d))
	case "len":
		return o.Res == "n"+strconv.Itoa(len(s.d))
	case "slice":
		return o.Res == "l"+ints(s.d)
	}
	return false
}

func initState(obj string) seqState {
	switch obj {
	case "map":
		return &mapState{m: map[int]int{}}
	case "ctr":
		return &ctrState{}
	case "amap":
		return &amState{items: map[int]int{}, ctr: map[int]int{}}
	default:
		return &slState{}
	}
}

// wellFormed: a thread has at most one operation in flight (the Lean driver answers
// err=annotation otherwise: its verdicts are proved exact only for well-annotated histories).
func wellFormed(ops []opRec) bool {
	for i, a := range ops {
		for _, b := range ops[i+1:] {
			if a.T == b.T && a.Inv < b.Ret && b.Inv < a.Ret {
				return false
			}
		}
	}
	return true
}

// linearizable: Wing–Gong search with memoisation on (set of linearized ops, state).
// An op may be linearized next iff no other unlinearized op returned before it was invoked.
func linearizable(obj string, ops []opRec) bool {
	n := len(ops)
	if !wellFormed(ops) {
		return false
	}
	// done-set as a bit vector of any length (spin histories have a few hundred operations)
	words := (n + 63) / 64
	seen := map[string]bool{}
	done := make([]uint64, words)
	ndone := 0
	keyOf := func(st seqState) string {
		var sb strings.Builder
		for _, w := range done {
			sb.WriteString(strconv.FormatUint(w, 16))
			sb.WriteByte('.')
		}
		sb.WriteByte('#')
		sb.WriteString(st.key())
		return sb.String()
	}
	// ops are sorted by Inv by every caller; lo = first index not yet linearized (all before are done)
	var rec func(st seqState, lo int) bool
	rec = func(st seqState, lo int) bool {
		if ndone == n {
			return true
		}
		for lo < n && done[lo/64]>>uint(lo%64)&1 == 1 {
			lo++
		}
		k := keyOf(st)
		if seen[k] {
			return false
		}
		seen[k] = true
		minRet := int64(1) << 62
		for i := lo; i < n; i++ {
			if ops[i].Inv > minRet {
				break
			}
			if done[i/64]>>uint(i%64)&1 == 0 && ops[i].Ret < minRet {
				minRet = ops[i].Ret
			}
		}
		for i := lo; i < n; i++ {
			o := ops[i]
			if o.Inv > minRet {
				break
			}
			if done[i/64]>>uint(i%64)&1 == 1 {
				continue
			}
			ns := st.clone()
			if !ns.apply(o) {
				continue
			}
			done[i/64] |= 1 << uint(i%64)
			ndone++
			ok := rec(ns, lo)
			done[i/64] &^= 1 << uint(i%64)
			ndone--
			if ok {
				return true
			}
		}
		return false
	}
	sorted := true
	for i := 1; i < n; i++ {
		if ops[i-1].Inv > ops[i].Inv {
			sorted = false
		}
	}
	if !sorted {
		ops = append([]opRec{}, ops...)
		sort.Slice(ops, func(i, j int) bool { return ops[i].Inv < ops[j].Inv })
	}
	return rec(initState(obj), 0)
}

