package main

import (
	"fmt"
	"strconv"
	"strings"
	"time"

	kring "github.com/dapr/kit/ring"
)

// bufCase: ops are "app <n|nil>", "rem", "front", "len", "range <n|nil|never>".
type bufCase struct {
	Kind  string   `json:"kind"`
	Init  int      `json:"init"`
	Bsize int      `json:"bsize"`
	Ops   []string `json:"ops"`
}

func showPtr(p *int) string {
	if p == nil {
		return "nil"
	}
	return strconv.Itoa(*p)
}

func showPtrs(ps []*int) string {
	out := make([]string, len(ps))
	for i, p := range ps {
		out[i] = showPtr(p)
	}
	return strings.Join(out, ",")
}

// bufOutcome is what one execution of a case against the real Buffered yields.
type bufOutcome struct {
	impl      []string // per op: observable answer of the real code
	want      []string // per op: answer of the plain slice queue
	ringLens  []string // per op: underlying ring length after the op (white box, overlay)
	firstBad  int      // first op whose answer differs from the queue (-1 = none)
	remEmpty  bool     // a RemoveFront on an empty queue happened before firstBad
	grewOrShr bool
	outcome   string
}

func parsePtrArg(s string, store *[]*int) *int {
	if s == "nil" {
		return nil
	}
	n, _ := strconv.Atoi(s)
	p := new(int)
	*p = n
	*store = append(*store, p)
	return p
}

func execBuffered(bc bufCase) bufOutcome {
	o := bufOutcome{firstBad: -1}
	o.outcome = guarded(10*time.Second, func() {
		b := kring.NewBuffered[int](bc.Init, bc.Bsize)
		var q []*int // the specification: a plain queue
		var keep []*int
		prevLen := b.VerifRingLen()
		for i, op := range bc.Ops {
			fs := strings.Fields(op)
			var got, want string
			switch fs[0] {
			case "app":
				p := parsePtrArg(fs[1], &keep)
				b.AppendBack(p)
				q = append(q, p)
				got, want = "ok", "ok"
			case "rem":
				if len(q) == 0 && o.firstBad < 0 {
					o.remEmpty = true
				}
				r := b.RemoveFront()
				if len(q) > 0 {
					q = q[1:]
				}
				var w *int
				if len(q) > 0 {
					w = q[0]
				}
				got, want = showPtr(r), showPtr(w)
				if r != w && got == want { // same number, different pointer
					got = "alias:" + got
				}
			case "front":
				r := b.Front()
				var w *int
				if len(q) > 0 {
					w = q[0]
				}
				got, want = showPtr(r), showPtr(w)
			case "len":
				got, want = strconv.Itoa(b.Len()), strconv.Itoa(len(q))
			case "range":
				var seen []*int
				stop := fs[1]
				fn := func(p *int) bool {
					seen = append(seen, p)
					return stop == "never" || showPtr(p) != stop
				}
				b.Range(fn)
				var ws []*int
				for _, p := range q {
					ws = append(ws, p)
					if !(stop == "never" || showPtr(p) != stop) {
						break
					}
				}
				got, want = showPtrs(seen), showPtrs(ws)
			}
			o.impl = append(o.impl, got)
			o.want = append(o.want, want)
			rl := b.VerifRingLen()
			if rl != prevLen {
				o.grewOrShr = true
				prevLen = rl
			}
			o.ringLens = append(o.ringLens, strconv.Itoa(rl))
			if got != want && o.firstBad < 0 {
				o.firstBad = i
			}
		}
	})
	return o
}

func bufLines(bc bufCase) []string {
	lines := []string{fmt.Sprintf("bnew init=%d bsize=%d", bc.Init, bc.Bsize)}
	for _, op := range bc.Ops {
		fs := strings.Fields(op)
		switch fs[0] {
		case "app":
			lines = append(lines, "bapp v="+fs[1])
		case "rem":
			lines = append(lines, "brem")
		case "front":
			lines = append(lines, "bfront")
		case "len":
			lines = append(lines, "blen")
		case "range":
			lines = append(lines, "brange stop="+fs[1])
		}
		lines = append(lines, "bring")
	}
	return lines
}

func (c *ctx) bufViolates(bc bufCase) (bool, bufOutcome) {
	o := execBuffered(bc)
	return o.outcome != "ok" || o.firstBad >= 0, o
}

// shrink: drop ops while the monitor still fails.
func (c *ctx) shrinkBuf(bc bufCase) bufCase {
	for changed := true; changed; {
		changed = false
		for i := 0; i < len(bc.Ops); i++ {
			t := bufCase{Kind: bc.Kind, Init: bc.Init, Bsize: bc.Bsize}
			t.Ops = append(append([]string{}, bc.Ops[:i]...), bc.Ops[i+1:]...)
			if bad, _ := c.bufViolates(t); bad {
				bc = t
				changed = true
				i--
			}
		}
	}
	return bc
}

func (c *ctx) runBuffered(bc bufCase, sample bool) {
	bc.Kind = "buffered"
	o := execBuffered(bc)
	key := fmt.Sprintf("b/%d/%d/%s", bc.Init, bc.Bsize, strings.Join(bc.Ops, ";"))
	c.res.Count(key, o.grewOrShr || o.remEmpty)
	c.res.Hit(fmt.Sprintf("buffered.len_bucket=%d", (len(bc.Ops)+9)/10*10))
	if o.grewOrShr {
		c.res.Hit("buffered.resized")
	}
	if o.remEmpty {
		c.res.Hit("buffered.remove_on_empty")
	}
	for _, op := range bc.Ops {
		c.res.Hit("buffered.op=" + strings.Fields(op)[0])
	}
	if sample {
		c.res.Sample(bc)
	}
	if o.outcome != "ok" {
		s := c.shrinkBuf(bc)
		c.res.Violate("buffered-"+strings.Fields(o.outcome)[0], "Buffered "+o.outcome, s)
		return
	}
	if o.firstBad >= 0 {
		s := c.shrinkBuf(bc)
		_, so := c.bufViolates(s)
		id := "buffered-queue-mismatch"
		if so.remEmpty {
			id = "buffered-removefront-empty"
		}
		what := "Buffered disagrees with a plain queue"
		if so.firstBad >= 0 {
			what = fmt.Sprintf("Buffered disagrees with a plain queue at op %d (%s): got %s, queue says %s",
				so.firstBad, s.Ops[so.firstBad], so.impl[so.firstBad], so.want[so.firstBad])
		}
		c.res.Violate(id, what, s)
		return
	}
	if c.drv == nil {
		return
	}
	c.pendBuf = append(c.pendBuf, pendBuf{bc, o})
	if len(c.pendBuf) >= 400 {
		c.flushBuf()
	}
}

type pendBuf struct {
	bc bufCase
	o  bufOutcome
}

func (c *ctx) flushBuf() {
	if c.drv == nil || len(c.pendBuf) == 0 {
		return
	}
	var lines []string
	for _, p := range c.pendBuf {
		lines = append(lines, bufLines(p.bc)...)
	}
	outs, err := c.drv.AskBatch(lines)
	if err != nil {
		c.res.Disagree("buffered: Lean Buf.step vs ring.Buffered", c.pendBuf[0].bc, "driver error: "+err.Error(), "")
		c.pendBuf = nil
		return
	}
	at := 0
	for _, p := range c.pendBuf {
		bc, o := p.bc, p.o
		c.res.Traces++
		for i := range bc.Ops {
			m, ml := outs[at+1+2*i], outs[at+2+2*i]
			if m != o.impl[i] || ml != o.ringLens[i] {
				c.res.Disagree("buffered: Lean Buf.step (answer, underlying ring length) vs ring.Buffered", bc,
					fmt.Sprintf("op %d %q: %s ringlen=%s", i, bc.Ops[i], m, ml),
					fmt.Sprintf("op %d %q: %s ringlen=%s", i, bc.Ops[i], o.impl[i], o.ringLens[i]))
				break
			}
		}
		at += 1 + 2*len(bc.Ops)
	}
	c.pendBuf = nil
}

// bufferedExhaustive: every init/bsize in -1..4 x every op word of length <= L over {app, rem} followed by
// a full observation.
func (c *ctx) bufferedExhaustive(quick bool) {
	L := 9
	if !quick {
		L = 13
	}
	if c.f.Search {
		L = 14
	}
	n := 0
	for init := -1; init <= 4; init++ {
		for bs := -1; bs <= 3; bs++ {
			for l := 0; l <= L; l++ {
				if (init < 1 || bs < 1) && l > 6 {
					continue
				}
				for w := 0; w < 1<<l; w++ {
					bc := bufCase{Init: init, Bsize: bs}
					v := 0
					for i := 0; i < l; i++ {
						if w>>i&1 == 1 {
							v++
							bc.Ops = append(bc.Ops, "app "+strconv.Itoa(v))
						} else {
							bc.Ops = append(bc.Ops, "rem")
						}
					}
					bc.Ops = append(bc.Ops, "len", "front", "range never")
					c.runBuffered(bc, n%100000 == 7)
					n++
				}
			}
		}
	}
	c.flushBuf()
	c.res.Hit("buffered.exhaustive_words_upto=" + strconv.Itoa(L))
	c.res.Note(fmt.Sprintf("buffered: all %d words over {AppendBack, RemoveFront} up to length %d for init,bsize in -1..4 x -1..3 enumerated", n, L))
}

func (c *ctx) bufferedRandom(n int) {
	for k := 0; k < n; k++ {
		r := c.rnd.Fork()
		bc := bufCase{Init: r.Range(-1, 6), Bsize: r.Range(-1, 5)}
		l := r.Range(1, 60)
		v := 0
		qlen := 0
		// phases: fill, drain, mixed — so that growth and shrink boundaries are crossed repeatedly
		phase, left := 0, 0
		for i := 0; i < l; i++ {
			if left == 0 {
				phase = r.Intn(3)
				left = r.Range(1, 14)
			}
			left--
			pApp := []int{80, 15, 45}[phase]
			x := r.Intn(100)
			switch {
			case x < 70:
				if r.Intn(100) < pApp {
					v++
					if r.Intn(100) < 6 {
						bc.Ops = append(bc.Ops, "app nil")
					} else {
						bc.Ops = append(bc.Ops, "app "+strconv.Itoa(v))
					}
					qlen++
				} else {
					bc.Ops = append(bc.Ops, "rem")
					if qlen > 0 {
						qlen--
					}
				}
			case x < 78:
				bc.Ops = append(bc.Ops, "front")
			case x < 86:
				bc.Ops = append(bc.Ops, "len")
			default:
				stop := "never"
				if y := r.Intn(4); y == 0 && v > 0 {
					stop = strconv.Itoa(r.Range(1, v))
				} else if y == 1 {
					stop = "nil"
				}
				bc.Ops = append(bc.Ops, "range "+stop)
			}
		}
		bc.Ops = append(bc.Ops, "len", "front", "range never")
		c.runBuffered(bc, k < 2)
	}
	c.flushBuf()
}
