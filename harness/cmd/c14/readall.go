package main

import (
	"fmt"
	"sort"
	"strconv"
	"runtime"
	"strings"
	"sync"
	"sync/atomic"
	"time"

	"github.com/dapr/kit/concurrency/cmap"
	kslice "github.com/dapr/kit/concurrency/slice"
)

// Families aimed at operations that must be ONE atomic observation of the whole container
// (Range, Keys, Len, ForEach, Slice): an implementation that reads the container in several
// critical sections answers with a combination that was never the container's content.
//
//	directed : from inside the first Range/ForEach callback another goroutine runs a mutation
//	           script; the callback waits for it a bounded time (an implementation that holds the
//	           lock over the whole iteration blocks the mutator: the wait times out and the
//	           iteration goes on).  The stamped history is judged by both checkers.
//	spin     : one goroutine flips the container between two states (so that some combination is
//	           never a state) while others call the read-all operation in a tight loop.

// readAllOps are the operations blamed by name when dropping them makes a history linearizable.
var readAllOps = []string{"range", "keys", "len", "foreach", "slice", "load", "get", "cload"}

// blame names the operation kind whose removal makes a non-linearizable history linearizable.
func blame(h histCase) string {
	try := func(kind string) bool {
		var rest []opRec
		n := 0
		for _, o := range h.Ops {
			if o.Op == kind {
				n++
				continue
			}
			rest = append(rest, o)
		}
		return n > 0 && linearizable(h.Obj, rest)
	}
	if h.Focus != "" && try(h.Focus) {
		return h.Focus
	}
	for _, k := range readAllOps {
		if k != h.Focus && try(k) {
			return k
		}
	}
	return ""
}

const directedWait = 3 * time.Millisecond

// pairsRes renders an observed key->value snapshot; a key delivered twice is an anomaly of its own.
func pairsRes(got map[int]int, dup bool) string {
	if dup {
		return "l-1"
	}
	return sortedPairs(got)
}

// directedMapRange: initial keys 0..n-1 (values 1,3,5…); script tokens use x = first key the
// callback saw, y = another present key, b = a fresh key.
func (c *ctx) directedMapRange(n int, script []string) {
	h := histCase{Kind: "hist", Obj: "map", Goroutines: 2, OpsPer: len(script), Keys: n + 1, Focus: "range",
		Family: "directed n=" + strconv.Itoa(n) + " script=" + strings.Join(script, ";")}
	var st stamper
	m := cmap.NewMap[int, int]()
	var ops0, ops1 []opRec
	add := func(dst *[]opRec, t int, op string, args []int, call func() string) {
		rec := opRec{T: t, Op: op, Args: args}
		rec.Inv = st.now()
		rec.Res = call()
		rec.Ret = st.now()
		*dst = append(*dst, rec)
	}
	rangeOnce := func(inside func(k int)) func() string {
		return func() string {
			got := map[int]int{}
			dup := false
			first := true
			m.Range(func(k, v int) bool {
				if _, ok := got[k]; ok {
					dup = true
				}
				got[k] = v
				if first && inside != nil {
					first = false
					inside(k)
				}
				return true
			})
			return pairsRes(got, dup)
		}
	}
	mDone := make(chan struct{})
	outcome := guarded(10*time.Second, func() {
		for k := 0; k < n; k++ {
			k := k
			add(&ops0, 0, "store", []int{k, 2*k + 1}, func() string { m.Store(k, 2*k+1); return "u" })
		}
		add(&ops0, 0, "range", nil, rangeOnce(func(x int) {
			y := (x + 1) % n
			b := n
			go func() {
				defer close(mDone)
				for i, tok := range script {
					f := strings.Fields(tok)
					key := map[string]int{"x": x, "y": y, "b": b}[f[1%len(f)]]
					switch f[0] {
					case "store":
						v := 100 + i
						add(&ops1, 1, "store", []int{key, v}, func() string { m.Store(key, v); return "u" })
					case "delete":
						add(&ops1, 1, "delete", []int{key}, func() string { m.Delete(key); return "u" })
					case "lad":
						add(&ops1, 1, "lad", []int{key}, func() string {
							v, ok := m.LoadAndDelete(key)
							return fmt.Sprintf("v%d,%d", v, b2i(ok))
						})
					case "clear":
						add(&ops1, 1, "clear", nil, func() string { m.Clear(); return "u" })
					}
				}
			}()
			select {
			case <-mDone:
				c.res.Hit("hist.directed.mutator_ran_inside_callback")
			case <-time.After(directedWait):
				c.res.Hit("hist.directed.mutator_blocked_until_return")
			}
		}))
		<-mDone
		add(&ops0, 0, "range", nil, rangeOnce(nil))
		add(&ops0, 0, "len", nil, func() string { return "n" + strconv.Itoa(m.Len()) })
		add(&ops0, 0, "keys", nil, func() string { ks := m.Keys(); sort.Ints(ks); return "l" + ints(ks) })
	})
	c.res.Hit("hist.directed.map.range")
	if outcome != "ok" {
		c.res.Violate("containers-"+outcome, "directed Range family: "+outcome, h)
		return
	}
	h.Ops = append(ops0, ops1...)
	sortOps(h.Ops)
	c.checkHistory(h, false)
}

func (c *ctx) directedAtomicForEach(n int, script []string) {
	h := histCase{Kind: "hist", Obj: "amap", Goroutines: 2, OpsPer: len(script), Keys: n + 1, Focus: "foreach",
		Family: "directed n=" + strconv.Itoa(n) + " script=" + strings.Join(script, ";")}
	var st stamper
	am := cmap.NewAtomic[int, int64]()
	names := &ptrNames{id: map[*cmap.AtomicValue[int64]]int{}}
	var ops0, ops1 []opRec
	add := func(dst *[]opRec, t int, op string, args []int, call func() string) {
		rec := opRec{T: t, Op: op, Args: args}
		rec.Inv = st.now()
		rec.Res = call()
		rec.Ret = st.now()
		*dst = append(*dst, rec)
	}
	forEachOnce := func(inside func(k int)) func() string {
		return func() string {
			got := map[int]*cmap.AtomicValue[int64]{}
			dup := false
			first := true
			am.ForEach(func(k int, p *cmap.AtomicValue[int64]) {
				if _, ok := got[k]; ok {
					dup = true
				}
				got[k] = p
				if first && inside != nil {
					first = false
					inside(k)
				}
			})
			gm := map[int]int{}
			for k, p := range got {
				gm[k] = names.name(p)
			}
			return pairsRes(gm, dup)
		}
	}
	mDone := make(chan struct{})
	outcome := guarded(10*time.Second, func() {
		for k := 0; k < n; k++ {
			k := k
			add(&ops0, 0, "goc", []int{k, k + 1}, func() string { return "n" + strconv.Itoa(names.name(am.GetOrCreate(k, int64(k+1)))) })
		}
		add(&ops0, 0, "foreach", nil, forEachOnce(func(x int) {
			y := (x + 1) % n
			b := n
			go func() {
				defer close(mDone)
				for i, tok := range script {
					f := strings.Fields(tok)
					key := map[string]int{"x": x, "y": y, "b": b}[f[1%len(f)]]
					switch f[0] {
					case "goc":
						v := 50 + i
						add(&ops1, 1, "goc", []int{key, v}, func() string { return "n" + strconv.Itoa(names.name(am.GetOrCreate(key, int64(v)))) })
					case "delete":
						add(&ops1, 1, "delete", []int{key}, func() string { am.Delete(key); return "u" })
					case "clear":
						add(&ops1, 1, "clear", nil, func() string { am.Clear(); return "u" })
					}
				}
			}()
			select {
			case <-mDone:
				c.res.Hit("hist.directed.mutator_ran_inside_callback")
			case <-time.After(directedWait):
				c.res.Hit("hist.directed.mutator_blocked_until_return")
			}
		}))
		<-mDone
		add(&ops0, 0, "foreach", nil, forEachOnce(nil))
	})
	c.res.Hit("hist.directed.amap.foreach")
	if outcome != "ok" {
		c.res.Violate("containers-"+outcome, "directed ForEach family: "+outcome, h)
		return
	}
	h.Ops = append(ops0, ops1...)
	sortOps(h.Ops)
	c.checkHistory(h, false)
}

func (c *ctx) directedReadAll() {
	mapScripts := [][]string{
		{"store b", "delete y"}, {"delete y", "store b"}, {"store x", "store y"}, {"store y", "store x"},
		{"delete x", "delete y"}, {"delete y", "delete x"}, {"clear", "store b"}, {"lad y", "store b", "store y"},
		{"store b", "lad y", "delete x"}, {"delete y"}, {"store y"}, {"clear"},
	}
	for _, n := range []int{2, 3} {
		for _, s := range mapScripts {
			c.directedMapRange(n, s)
		}
	}
	amScripts := [][]string{
		{"goc b", "delete y"}, {"delete y", "goc b"}, {"delete y", "goc y"}, {"delete x", "delete y"},
		{"clear", "goc b"}, {"delete y"}, {"clear"}, {"delete x", "goc x", "delete y"},
	}
	for _, n := range []int{2, 3} {
		for _, s := range amScripts {
			c.directedAtomicForEach(n, s)
		}
	}
	c.flushHist()
}

// ---- spin family ---------------------------------------------------------------------------

// spinRun: goroutine 0 flips the container (flips operations), goroutines 1..nObs call the
// observer operation obsN times each, all started together without further synchronisation.
// variant 0 adds before it removes (the empty container is never a state), variant 1 removes
// before it adds (both keys together are never a state). Values / addresses are fresh on every
// flip, so every state of the container is distinct.
func (c *ctx) spinRun(obj, observer string, variant, flips, nObs, obsN int) {
	h := histCase{Kind: "hist", Obj: obj, Goroutines: 1 + nObs, OpsPer: flips, Keys: 2, Focus: observer,
		Family: fmt.Sprintf("spin variant=%d", variant)}
	if variant == 2 {
		h.Goroutines++
		h.Keys = 4
	}
	var st stamper
	m := cmap.NewMap[int, int]()
	am := cmap.NewAtomic[int, int64]()
	sl := kslice.New[int]()
	names := &ptrNames{id: map[*cmap.AtomicValue[int64]]int{}}
	nF := 1
	if variant == 2 { // two flippers on disjoint key pairs, both adding before removing
		nF = 2
	}
	lists := make([][]opRec, 2+nObs)
	add := func(t int, op string, args []int, call func() string) {
		rec := opRec{T: t, Op: op, Args: args}
		rec.Inv = st.now()
		rec.Res = call()
		rec.Ret = st.now()
		lists[t] = append(lists[t], rec)
	}
	var vctr atomic.Int64
	flip := func(ft, i int) {
		a, b := 0, 1
		if ft != 0 {
			a, b = 2, 3
		}
		// period 4: variant 0: +b -a +a -b ; variant 1: -a +b -b +a   (state before: {a})
		step := i % 4
		var addKey, delKey = -1, -1
		if variant != 1 {
			switch step {
			case 0:
				addKey = b
			case 1:
				delKey = a
			case 2:
				addKey = a
			case 3:
				delKey = b
			}
		} else {
			switch step {
			case 0:
				delKey = a
			case 1:
				addKey = b
			case 2:
				delKey = b
			case 3:
				addKey = a
			}
		}
		val := int(vctr.Add(1))
		switch obj {
		case "map":
			if addKey >= 0 {
				add(ft, "store", []int{addKey, val}, func() string { m.Store(addKey, val); return "u" })
			} else {
				add(ft, "delete", []int{delKey}, func() string { m.Delete(delKey); return "u" })
			}
		case "amap":
			if addKey >= 0 {
				add(ft, "goc", []int{addKey, val}, func() string { return "n" + strconv.Itoa(names.name(am.GetOrCreate(addKey, int64(val)))) })
			} else {
				add(ft, "delete", []int{delKey}, func() string { am.Delete(delKey); return "u" })
			}
		case "slice":
			add(ft, "append", []int{val}, func() string { return "n" + strconv.Itoa(sl.Append(val)) })
		}
	}
	observe := func(t int) {
		switch obj + "." + observer {
		case "map.range":
			add(t, "range", nil, func() string {
				got := map[int]int{}
				dup := false
				m.Range(func(k, v int) bool {
					if _, ok := got[k]; ok {
						dup = true
					}
					got[k] = v
					return true
				})
				return pairsRes(got, dup)
			})
		case "map.keys":
			add(t, "keys", nil, func() string { ks := m.Keys(); sort.Ints(ks); return "l" + ints(ks) })
		case "map.len":
			add(t, "len", nil, func() string { return "n" + strconv.Itoa(m.Len()) })
		case "amap.foreach":
			add(t, "foreach", nil, func() string {
				got := map[int]*cmap.AtomicValue[int64]{}
				dup := false
				am.ForEach(func(k int, p *cmap.AtomicValue[int64]) {
					if _, ok := got[k]; ok {
						dup = true
					}
					got[k] = p
				})
				gm := map[int]int{}
				for k, p := range got {
					gm[k] = names.name(p)
				}
				return pairsRes(gm, dup)
			})
		case "slice.len":
			add(t, "len", nil, func() string { return "n" + strconv.Itoa(sl.Len()) })
		case "slice.slice":
			add(t, "slice", nil, func() string { s := sl.Slice(); return "l" + ints(append([]int{}, s...)) })
		}
	}
	outcome := guarded(10*time.Second, func() {
		// initial state {a} (and {a'} of the second flipper)
		for f := 0; f < nF; f++ {
			k := 2 * f
			switch obj {
			case "map":
				add(0, "store", []int{k, 0}, func() string { m.Store(k, 0); return "u" })
			case "amap":
				add(0, "goc", []int{k, 0}, func() string { return "n" + strconv.Itoa(names.name(am.GetOrCreate(k, 0))) })
			}
		}
		var wg sync.WaitGroup
		wg.Add(nF + nObs)
		var arrived atomic.Int64
		barrier := func() { // spin start: everybody really runs at the same time
			arrived.Add(1)
			for dl := 0; arrived.Load() < int64(nF+nObs) && dl < 5000000; dl++ {
				if dl%128 == 127 {
					runtime.Gosched()
				}
			}
		}
		for f := 0; f < nF; f++ {
			ft := 0
			if f == 1 {
				ft = 1 + nObs // thread id of the second flipper
			}
			go func() {
				defer wg.Done()
				barrier()
				for i := 0; i < flips/nF; i++ {
					flip(ft, i)
				}
			}()
		}
		for t := 1; t <= nObs; t++ {
			go func(t int) {
				defer wg.Done()
				barrier()
				for i := 0; i < obsN; i++ {
					observe(t)
				}
			}(t)
		}
		wg.Wait()
	})
	c.res.Hit("hist.spin." + obj + "." + observer)
	if outcome != "ok" {
		c.res.Violate("containers-"+outcome, "spin family "+obj+"."+observer+": "+outcome, h)
		return
	}
	for _, l := range lists {
		h.Ops = append(h.Ops, l...)
	}
	sortOps(h.Ops)
	c.checkHistory(h, false)
}

func (c *ctx) spinReadAll(runs int) {
	targets := [][2]string{{"map", "range"}, {"map", "keys"}, {"map", "len"}, {"amap", "foreach"}, {"slice", "len"}, {"slice", "slice"}}
	for _, tg := range targets {
		for i := 0; i < runs; i++ {
			c.spinRun(tg[0], tg[1], i%3, 120+4*(i%3), 1+(i/3)%3, []int{120, 70, 50}[(i/3)%3])
		}
	}
	c.flushHist()
}
